(* C01view - the refinement View.v -> Model.v, simulation part.
   S1  LogCorr under changes of the update lists.   S2/S3  the in-place fee merge: appendFeeUpdate
   and append_upd take the same decision.   S4  one update appended to a log on both machines.
   S5-S7  CorrX (Corr + counters, modified sets, fee-entry heights) is kept by update creation
   and delivery.   S8  ... by sign / receive signature / revoke.   S9+  compaction, the
   two-party simulation and the refinement theorem. *)
From Coq Require Import List ZArith NArith Bool Arith Lia Permutation.
From LV Require Import Channel.Model Channel.Resync Channel.Proofs Channel.View Channel.ViewProofs
     Channel.ViewRefine.
Import ListNotations.

(* ---------- S1: LogCorr under changes of the update lists ---------- *)
Lemma nth_app_old {A} (l : list A) u i : i < length l -> nth_error (l ++ [u]) i = nth_error l i.
Proof. intros H. apply nth_error_app1, H. Qed.
Lemma nth_app_new {A} (l : list A) u : nth_error (l ++ [u]) (length l) = Some u.
Proof. rewrite nth_error_app2 by lia. rewrite Nat.sub_diag. reflexivity. Qed.

Lemma present_app_old L Lo Ft Fo u i : i < length L ->
  present (L ++ [u]) Lo Ft Fo i = present L Lo Ft Fo i.
Proof.
  intros H. unfold present. rewrite nth_app_old by exact H.
  rewrite (firstn_app_le i L [u]) by lia. reflexivity.
Qed.

Lemma corr_entry_app_old L Lo u e : idx e < length L -> corr_entry L Lo e -> corr_entry (L ++ [u]) Lo e.
Proof.
  intros H C. unfold corr_entry in *. rewrite nth_app_old by exact H.
  rewrite (firstn_app_le (idx e) L [u]) by lia. exact C.
Qed.

Lemma corr_idx_lt L Lo e : corr_entry L Lo e -> idx e < length L.
Proof.
  unfold corr_entry. intros C. apply nth_error_Some. destruct (nth_error L (idx e)); [discriminate|tauto].
Qed.

Lemma inc_snoc : forall l a, inc l -> (forall y, In y l -> y < a) -> inc (l ++ [a]).
Proof.
  induction l as [|x l IH]; intros a H HA; cbn; [split; [intros ? []|exact I]|].
  cbn in H. destruct H as [H1 H2]. split.
  - intros y IY. apply in_app_or in IY. destruct IY as [IY|[<-|[]]]; [apply H1, IY|apply HA; now left].
  - apply IH; [exact H2|]. intros y IY. apply HA. now right.
Qed.

Lemma logcorr_snoc L Lo U Ft Fo u pd U' :
  LogCorr L Lo U Ft Fo -> l_list U' = l_list U ++ [pd] -> idx pd = length L ->
  corr_entry (L ++ [u]) Lo pd -> present (L ++ [u]) Lo Ft Fo (length L) = true ->
  LogCorr (L ++ [u]) Lo U' Ft Fo.
Proof.
  intros [A F B] EL EI CP PR. split.
  - rewrite EL, map_app, app_length, Nat.add_1_r, seq_S, filter_app. cbn [map filter plus].
    rewrite PR, EI. apply Permutation_app_tail.
    rewrite (filter_ext_in (present (L ++ [u]) Lo Ft Fo) (present L Lo Ft Fo)); [exact A|].
    intros i IN. apply in_seq in IN. apply present_app_old. lia.
  - rewrite EL, filter_app, map_app. cbn [filter]. destruct (is_fee pd); cbn [map]; [|rewrite app_nil_r; exact F].
    apply inc_snoc; [exact F|]. intros y IY. apply in_map_iff in IY. destruct IY as [e [<- IE]].
    apply filter_In in IE. rewrite EI. eapply corr_idx_lt, B, IE.
  - intros e IN. rewrite EL in IN. apply in_app_or in IN. destruct IN as [IN|[<-|[]]]; [|exact CP].
    apply corr_entry_app_old; [|apply B, IN]. eapply corr_idx_lt, B, IN.
Qed.

(* the OTHER log changes above the frontier, keeping the amounts of the parents *)
Lemma logcorr_other L Lo Lo' U Ft Fo :
  LogCorr L Lo U Ft Fo -> firstn Fo Lo' = firstn Fo Lo ->
  (forall j, In j (parents L) -> amt_in (adds_of Lo') j = amt_in (adds_of Lo) j) ->
  LogCorr L Lo' U Ft Fo.
Proof.
  intros [A F B] EF EA. split.
  - rewrite (filter_ext (present L Lo' Ft Fo) (present L Lo Ft Fo)); [exact A|].
    intros i. unfold present, removed_below. rewrite EF. reflexivity.
  - exact F.
  - intros e IN. specialize (B e IN). unfold corr_entry in *.
    destruct (nth_error L (idx e)) as [[a ex h|j|j|r]|] eqn:NE.
    + exact B.
    + assert (IN2 : In j (parents L)) by (apply (nth_parent _ (idx e)); left; exact NE).
      rewrite (EA j IN2). exact B.
    + assert (IN2 : In j (parents L)) by (apply (nth_parent _ (idx e)); right; exact NE).
      rewrite (EA j IN2). exact B.
    + exact B.
    + exact B.
Qed.

(* adds / parents of a log extended by one update *)
Lemma adds_of_snoc L u : adds_of (L ++ [u]) =
  adds_of L ++ match u with UAdd a e h => [mkAdd (nadds L) a e h] | _ => [] end.
Proof.
  unfold adds_of. rewrite adds_from_app. f_equal.
Qed.
Lemma nadds_snoc L u : nadds (L ++ [u]) = nadds L + match u with UAdd _ _ _ => 1 | _ => 0 end.
Proof. unfold nadds. rewrite adds_of_snoc, app_length. destruct u; reflexivity. Qed.
Lemma parents_snoc L u : parents (L ++ [u]) =
  parents L ++ match u with USettle j | UFail j => [j] | _ => [] end.
Proof. rewrite parents_app. f_equal. destruct u; reflexivity. Qed.

Lemma amt_in_app a b j : lookup_add a j <> None -> amt_in (a ++ b) j = amt_in a j.
Proof.
  unfold amt_in. destruct (lookup_add a j) as [x|] eqn:E; [|tauto]. intros _.
  rewrite (lookup_add_app _ b _ _ E). reflexivity.
Qed.

Lemma add_pos_lookup L j a : add_pos L j = Some a -> lookup_add (adds_of L) j <> None.
Proof.
  intros H. pose proof (lookup_adds_firstn L j a (length L) H) as X.
  rewrite firstn_all in X. apply X. destruct (add_pos_nth _ _ _ H) as [am [ex [h [NE _]]]].
  apply nth_error_Some. congruence.
Qed.

Lemma add_pos_lt_nadds L j a : add_pos L j = Some a -> j < nadds L.
Proof.
  intros H. destruct (add_pos_nth _ _ _ H) as [am [ex [h [NE NA]]]].
  assert (LT : a < length L) by (apply nth_error_Some; congruence).
  rewrite <- (firstn_skipn a L) at 1. unfold nadds, adds_of in *. rewrite adds_from_app, app_length.
  rewrite NA. cbn [plus].
  assert (SK : skipn a L = UAdd am ex h :: skipn (S a) L).
  { clear - NE. revert L NE. induction a as [|a IH]; intros [|x L] NE; cbn in *; try discriminate.
    - injection NE as ->. reflexivity.
    - apply IH, NE. }
  rewrite SK. cbn. lia.
Qed.

(* amount of the add found by an entry *)
Lemma nth_add_amt L i a ex h : nth_error L i = Some (UAdd a ex h) ->
  amt_in (adds_of L) (nadds (firstn i L)) = a.
Proof.
  intros NE. unfold amt_in.
  assert (IN : In (mkAdd (nadds (firstn i L)) a ex h) (adds_of L)).
  { rewrite <- (firstn_all L) at 2. apply in_adds_of_firstn. exists i, a, ex, h.
    split; [apply nth_error_Some; congruence|]. auto. }
  pose proof (adds_of_nodup L) as ND.
  revert IN ND. generalize (adds_of L) as l. induction l as [|x l IH]; intros IN ND; [destruct IN|].
  cbn [lookup_add]. destruct IN as [->|IN].
  - cbn [a_idx]. rewrite Nat.eqb_refl. reflexivity.
  - cbn in ND. inversion ND as [|? ? NI ND']; subst.
    destruct (Nat.eqb_spec (nadds (firstn i L)) (a_idx x)) as [E|NE'].
    + exfalso. apply NI. rewrite <- E. change (nadds (firstn i L)) with (a_idx (mkAdd (nadds (firstn i L)) a ex h)).
      apply in_map, IN.
    + apply IH; assumption.
Qed.

(* ---------- S2: the in-place fee merge, both sides ---------- *)
Definition is_ufee (u : upd) : bool := match u with UFee _ => true | _ => false end.
Fixpoint last_pos (l : list upd) : option nat :=
  match l with
  | [] => None
  | u :: r => match last_pos r with
              | Some k => Some (S k)
              | None => if is_ufee u then Some 0 else None
              end
  end.

Lemma lfi_char l : forall i acc,
  last_fee_idx l i acc = match last_pos l with Some k => Some (i + k) | None => acc end.
Proof.
  induction l as [|u l IH]; intros i acc; cbn [last_fee_idx last_pos]; [reflexivity|].
  destruct u; cbn [is_ufee]; rewrite IH; destruct (last_pos l); try reflexivity; f_equal; lia.
Qed.

Lemma last_pos_some l : forall k, last_pos l = Some k ->
  (exists r, nth_error l k = Some (UFee r)) /\
  (forall k' r', k < k' -> nth_error l k' <> Some (UFee r')).
Proof.
  induction l as [|u l IH]; intros k H; cbn in H; [discriminate|].
  destruct (last_pos l) as [k0|] eqn:E.
  - injection H as <-. destruct (IH k0 eq_refl) as [A B]. split; [exact A|].
    intros [|k'] r' LT; [lia|]. cbn. apply B. lia.
  - destruct u; cbn in H; try discriminate. injection H as <-. split; [eexists; reflexivity|].
    intros [|k'] r' LT; [lia|]. cbn. clear - E. revert k'. induction l as [|x l IHl]; intros k'; [destruct k'; discriminate|].
    cbn in E. destruct (last_pos l) eqn:E2; [discriminate|]. destruct x; cbn in E; try discriminate;
      destruct k'; cbn; try discriminate; apply IHl; reflexivity.
Qed.

Lemma last_pos_none l : last_pos l = None -> forall k r, nth_error l k <> Some (UFee r).
Proof.
  induction l as [|x l IH]; intros E k r; [destruct k; discriminate|].
  cbn in E. destruct (last_pos l) eqn:E2; [discriminate|].
  destruct x; cbn in E; try discriminate; destruct k; cbn; try discriminate; apply IH; reflexivity.
Qed.

Lemma last_pos_intro l : forall k r, nth_error l k = Some (UFee r) ->
  (forall k' r', k < k' -> nth_error l k' <> Some (UFee r')) -> last_pos l = Some k.
Proof.
  intros k r NE NO. destruct (last_pos l) as [k0|] eqn:E.
  - destruct (last_pos_some l k0 E) as [[r0 A] B]. f_equal.
    destruct (Nat.lt_trichotomy k0 k) as [LT|[EQ|GT]]; [|exact EQ|].
    + exfalso. apply (B k r LT NE).
    + exfalso. apply (NO k0 r0 GT A).
  - exfalso. apply (last_pos_none l E k r NE).
Qed.

(* replace_nth *)
Lemma nth_replace : forall j (l : list upd) u i,
  nth_error (replace_nth j l u) i =
  if Nat.eqb i j then (if Nat.ltb j (length l) then Some u else None) else nth_error l i.
Proof.
  induction j as [|j IH]; intros [|x l] u i; cbn [replace_nth].
  - destruct i; reflexivity.
  - destruct i; reflexivity.
  - destruct i; cbn; [reflexivity|]. destruct (Nat.eqb i j); reflexivity.
  - destruct i as [|i]; [reflexivity|]. cbn [nth_error Nat.eqb length]. rewrite IH.
    destruct (Nat.eqb i j); [|reflexivity].
    destruct (Nat.ltb_spec j (length l)), (Nat.ltb_spec (S j) (S (length l))); try lia; reflexivity.
Qed.

Lemma adds_from_replace_fee : forall j (l : list upd) r0 r k,
  nth_error l j = Some (UFee r0) -> adds_from (replace_nth j l (UFee r)) k = adds_from l k.
Proof.
  induction j as [|j IH]; intros [|x l] r0 r k NE; cbn in *; try discriminate.
  - injection NE as ->. reflexivity.
  - destruct x; cbn; erewrite IH by exact NE; reflexivity.
Qed.

Lemma firstn_replace : forall j (l : list upd) u i,
  firstn i (replace_nth j l u) = if Nat.ltb j i then replace_nth j (firstn i l) u else firstn i l.
Proof.
  induction j as [|j IH]; intros [|x l] u i; cbn [replace_nth].
  - rewrite firstn_nil. destruct (Nat.ltb 0 i); reflexivity.
  - destruct i; reflexivity.
  - rewrite firstn_nil. destruct (Nat.ltb (S j) i); reflexivity.
  - destruct i as [|i]; [reflexivity|]. cbn [firstn]. rewrite IH.
    replace (Nat.ltb (S j) (S i)) with (Nat.ltb j i) by reflexivity.
    destruct (Nat.ltb j i); reflexivity.
Qed.

Lemma nadds_firstn_replace_fee j (l : list upd) r0 r i :
  nth_error l j = Some (UFee r0) ->
  nadds (firstn i (replace_nth j l (UFee r))) = nadds (firstn i l).
Proof.
  intros NE. rewrite firstn_replace. destruct (Nat.ltb_spec j i); [|reflexivity].
  unfold nadds, adds_of. erewrite adds_from_replace_fee; [reflexivity|].
  rewrite nth_firstn by exact H. exact NE.
Qed.

(* the View side *)
Definition zero_fee (e : entry) : bool := N.eqb (e_addL e) 0 && N.eqb (e_addR e) 0.

Lemma merge_rev_spec a : forall r,
  match merge_fee_rev r a with
  | Some r' => exists nf e r0, r = nf ++ e :: r0 /\ (forall x, In x nf -> is_fee x = false) /\
                 is_fee e = true /\ zero_fee e = true /\ r' = nf ++ set_amt a e :: r0
  | None => (forall x, In x r -> is_fee x = false) \/
            exists nf e r0, r = nf ++ e :: r0 /\ (forall x, In x nf -> is_fee x = false) /\
                 is_fee e = true /\ zero_fee e = false
  end.
Proof.
  induction r as [|x r IH]; cbn [merge_fee_rev]; [left; intros ? []|].
  destruct (is_fee x) eqn:FX.
  - fold (zero_fee x). destruct (zero_fee x) eqn:Z.
    + exists [], x, r. repeat split; auto. intros ? [].
    + right. exists [], x, r. repeat split; auto. intros ? [].
  - destruct (merge_fee_rev r a) as [r'|].
    + destruct IH as [nf [e [r0 [E [NF [FE [ZE ER]]]]]]]. exists (x :: nf), e, r0.
      rewrite E, ER. repeat split; auto. intros y [<-|IN]; auto.
    + destruct IH as [NF|[nf [e [r0 [E [NF [FE ZE]]]]]]].
      * left. intros y [<-|IN]; auto.
      * right. exists (x :: nf), e, r0. rewrite E. repeat split; auto. intros y [<-|IN]; auto.
Qed.

Lemma merge_spec l a :
  match merge_fee_rev (rev l) a with
  | Some l' => exists pre e post, l = pre ++ e :: post /\ (forall x, In x post -> is_fee x = false) /\
                 is_fee e = true /\ zero_fee e = true /\ rev l' = pre ++ set_amt a e :: post
  | None => (forall x, In x l -> is_fee x = false) \/
            exists pre e post, l = pre ++ e :: post /\ (forall x, In x post -> is_fee x = false) /\
                 is_fee e = true /\ zero_fee e = false
  end.
Proof.
  pose proof (merge_rev_spec a (rev l)) as H. destruct (merge_fee_rev (rev l) a) as [l'|].
  - destruct H as [nf [e [r0 [E [NF [FE [ZE ER]]]]]]]. exists (rev r0), e, (rev nf).
    apply (f_equal (@rev entry)) in E. rewrite rev_involutive, rev_app_distr in E. cbn in E.
    rewrite <- app_assoc in E. cbn in E.
    split; [exact E|]. split; [intros x IN; apply NF, in_rev, IN|]. split; [exact FE|]. split; [exact ZE|].
    rewrite ER, rev_app_distr. cbn. rewrite <- app_assoc. reflexivity.
  - destruct H as [NF|[nf [e [r0 [E [NF [FE ZE]]]]]]].
    + left. intros x IN. apply NF. rewrite <- in_rev. exact IN.
    + right. exists (rev r0), e, (rev nf).
      apply (f_equal (@rev entry)) in E. rewrite rev_involutive, rev_app_distr in E. cbn in E.
      rewrite <- app_assoc in E. cbn in E.
      split; [exact E|]. split; [intros x IN; apply NF, in_rev, IN|]. auto.
Qed.

Lemma inc_app_lt : forall l1 a l2, inc (l1 ++ a :: l2) -> forall y, In y l1 -> y < a.
Proof.
  induction l1 as [|x l1 IH]; intros a l2 H y IN; [destruct IN|].
  cbn in H. destruct H as [H1 H2]. destruct IN as [<-|IN].
  - apply H1, in_or_app. right. now left.
  - eapply IH; eauto.
Qed.

Lemma committed_fee w e : is_fee e = true -> committed w e = add_h w e.
Proof. unfold committed, is_remove, is_fee. destruct (e_type e); try discriminate; reflexivity. Qed.

Lemma fee_entry' L Lo U Ft Fo (LC : LogCorr L Lo U Ft Fo) e : In e (l_list U) ->
  (is_fee e = true <-> exists r, nth_error L (idx e) = Some (UFee r)) /\
  (forall r, nth_error L (idx e) = Some (UFee r) -> e_amt e = (r * 1000)%Z).
Proof.
  intros IN. pose proof (lc_ent _ _ _ _ _ LC e IN) as C. unfold corr_entry in C. unfold is_fee.
  destruct (nth_error L (idx e)) as [[a ex h|j|j|r]|].
  - destruct C as [T _]. rewrite T. split; [split; [discriminate|intros [r H]; discriminate]|discriminate].
  - destruct C as [T _]. rewrite T. split; [split; [discriminate|intros [r H]; discriminate]|discriminate].
  - destruct C as [[T|T] _]; rewrite T; (split; [split; [discriminate|intros [r H]; discriminate]|discriminate]).
  - destruct C as [T A]. rewrite T. split; [split; eauto|]. intros r' H. injection H as <-. exact A.
  - destruct C.
Qed.

(* ---------- S3: appendFeeUpdate and append_upd take the same decision ---------- *)
Section FeeDecision.
Variables (L Lo : list upd) (U : ulog) (Ft Fo : nat).
Hypothesis LC : LogCorr L Lo U Ft Fo.
Variables (tL tR : nat).
Hypothesis A3L : forall e, In e (l_list U) -> (committed true e = 0%N <-> tL <= idx e).
Hypothesis A3R : forall e, In e (l_list U) -> (committed false e = 0%N <-> tR <= idx e).
Hypothesis HF : Ft <= Nat.max tL tR.

Lemma last_fee_entry pre e post :
  l_list U = pre ++ e :: post -> is_fee e = true -> (forall x, In x post -> is_fee x = false) ->
  last_pos L = Some (idx e).
Proof.
  intros EL FE NF.
  assert (IE : In e (l_list U)) by (rewrite EL; apply in_or_app; right; now left).
  destruct (proj1 (proj1 (fee_entry' _ _ _ _ _ LC e IE)) FE) as [r NE].
  apply (last_pos_intro L (idx e) r NE). intros k' r' LT NE'.
  assert (PE : Ft <= idx e).
  { destruct (lc_in _ _ _ _ _ LC e IE) as [_ PR]. unfold present in PR. rewrite NE in PR. apply Nat.leb_le, PR. }
  destruct (lc_present _ _ _ _ _ LC k') as [x [IX EX]].
  { apply nth_error_Some. congruence. }
  { unfold present. rewrite NE'. apply Nat.leb_le. lia. }
  assert (FX : is_fee x = true) by (apply (fee_entry' _ _ _ _ _ LC x IX); exists r'; rewrite EX; exact NE').
  rewrite EL in IX. apply in_app_or in IX. destruct IX as [IX|[<-|IX]].
  - pose proof (lc_fee _ _ _ _ _ LC) as INC. rewrite EL, filter_app in INC. cbn [filter] in INC.
    rewrite FE, map_app in INC. cbn [map] in INC.
    assert (IXF : In (idx x) (map idx (filter is_fee pre))) by (apply in_map, filter_In; auto).
    pose proof (inc_app_lt _ _ _ INC (idx x) IXF). lia.
  - lia.
  - rewrite (NF x IX) in FX. discriminate.
Qed.

Lemma no_fee_entry j : (forall x, In x (l_list U) -> is_fee x = false) -> last_pos L = Some j -> j < Ft.
Proof.
  intros NF LP. destruct (last_pos_some L j LP) as [[r NE] _].
  destruct (Nat.lt_ge_cases j Ft) as [H|H]; [exact H|exfalso].
  destruct (lc_present _ _ _ _ _ LC j) as [x [IX EX]].
  { apply nth_error_Some. congruence. }
  { unfold present. rewrite NE. apply Nat.leb_le, H. }
  assert (FX : is_fee x = true) by (apply (fee_entry' _ _ _ _ _ LC x IX); exists r; rewrite EX; exact NE).
  rewrite (NF x IX) in FX. discriminate.
Qed.

Lemma fee_decision a :
  match merge_fee_rev (rev (l_list U)) a with
  | Some l' => exists pre e post, last_pos L = Some (idx e) /\ Nat.max tL tR <= idx e /\
                 l_list U = pre ++ e :: post /\ is_fee e = true /\ rev l' = pre ++ set_amt a e :: post
  | None => match last_pos L with Some j => j < Nat.max tL tR | None => True end
  end.
Proof.
  pose proof (merge_spec (l_list U) a) as M. destruct (merge_fee_rev (rev (l_list U)) a) as [l'|].
  - destruct M as [pre [e [post [EL [NF [FE [ZE ER]]]]]]].
    exists pre, e, post. split; [eapply last_fee_entry; eauto|]. split; [|auto].
    assert (IE : In e (l_list U)) by (rewrite EL; apply in_or_app; right; now left).
    unfold zero_fee in ZE. apply andb_true_iff in ZE. destruct ZE as [Z1 Z2]. apply N.eqb_eq in Z1, Z2.
    pose proof (proj1 (A3L e IE)) as XL. pose proof (proj1 (A3R e IE)) as XR.
    rewrite committed_fee in XL, XR by exact FE. cbn [add_h] in XL, XR. specialize (XL Z1). specialize (XR Z2). lia.
  - destruct M as [NF|[pre [e [post [EL [NF [FE ZE]]]]]]].
    + destruct (last_pos L) as [j|] eqn:LP; [|exact I]. pose proof (no_fee_entry j NF LP). lia.
    + rewrite (last_fee_entry pre e post EL FE NF).
      assert (IE : In e (l_list U)) by (rewrite EL; apply in_or_app; right; now left).
      unfold zero_fee in ZE. apply andb_false_iff in ZE.
      pose proof (proj2 (A3L e IE)) as XL. pose proof (proj2 (A3R e IE)) as XR.
      rewrite committed_fee in XL, XR by exact FE. cbn [add_h] in XL, XR.
      destruct ZE as [Z|Z]; apply N.eqb_neq in Z.
      * assert (idx e < tL) by (destruct (Nat.lt_ge_cases (idx e) tL); [assumption|tauto]). lia.
      * assert (idx e < tR) by (destruct (Nat.lt_ge_cases (idx e) tR); [assumption|tauto]). lia.
Qed.
End FeeDecision.

(* LogCorr under the in-place merge *)
Lemma set_amt_idx a e : idx (set_amt a e) = idx e.
Proof. reflexivity. Qed.

Lemma logcorr_merge L Lo U U' Ft Fo pre e post j r :
  LogCorr L Lo U Ft Fo -> l_list U = pre ++ e :: post -> idx e = j -> is_fee e = true ->
  l_list U' = pre ++ set_amt (r * 1000) e :: post ->
  LogCorr (replace_nth j L (UFee r)) Lo U' Ft Fo.
Proof.
  intros LC EL EJ FE EL'.
  assert (IE : In e (l_list U)) by (rewrite EL; apply in_or_app; right; now left).
  destruct (proj1 (proj1 (fee_entry' _ _ _ _ _ LC e IE)) FE) as [r0 NE]. rewrite EJ in NE.
  assert (LT : j < length L) by (apply nth_error_Some; congruence).
  assert (PRES : forall i, present (replace_nth j L (UFee r)) Lo Ft Fo i = present L Lo Ft Fo i).
  { intros i. unfold present. rewrite nth_replace, (nadds_firstn_replace_fee j L r0 r i NE).
    destruct (Nat.eqb_spec i j) as [EQ|NEQ]; [subst i|reflexivity].
    apply Nat.ltb_lt in LT. rewrite LT, NE. reflexivity. }
  assert (CE : forall x, idx x <> j -> corr_entry L Lo x -> corr_entry (replace_nth j L (UFee r)) Lo x).
  { intros x NX C. unfold corr_entry in *. rewrite nth_replace, (nadds_firstn_replace_fee j L r0 r _ NE).
    apply Nat.eqb_neq in NX. rewrite NX. exact C. }
  pose proof (lc_nodup _ _ _ _ _ LC) as ND. rewrite EL, map_app in ND. cbn [map] in ND.
  apply NoDup_remove_2 in ND.
  destruct LC as [A F B]. split.
  - rewrite replace_nth_length. rewrite EL', map_app. cbn [map]. rewrite set_amt_idx.
    rewrite EL, map_app in A. cbn [map] in A.
    rewrite (filter_ext (present (replace_nth j L (UFee r)) Lo Ft Fo) (present L Lo Ft Fo) PRES). exact A.
  - rewrite EL', filter_app. cbn [filter]. change (is_fee (set_amt (r * 1000) e)) with (is_fee e).
    rewrite FE, map_app. cbn [map]. rewrite set_amt_idx.
    rewrite EL, filter_app in F. cbn [filter] in F. rewrite FE, map_app in F. exact F.
  - intros x IN. rewrite EL' in IN. apply in_app_or in IN. destruct IN as [IN|[<-|IN]].
    + apply CE; [|apply B; rewrite EL; apply in_or_app; now left].
      intros E. apply ND, in_or_app. left. replace (idx e) with (idx x) by congruence. apply in_map, IN.
    + unfold corr_entry. rewrite set_amt_idx, EJ, nth_replace, Nat.eqb_refl.
      apply Nat.ltb_lt in LT. rewrite LT. unfold is_fee in FE. cbn [set_amt e_type e_amt].
      destruct (e_type e); try discriminate. auto.
    + apply CE; [|apply B; rewrite EL; apply in_or_app; right; now right].
      intros E. apply ND, in_or_app. right. replace (idx e) with (idx x) by congruence. apply in_map, IN.
Qed.

(* ---------- S4: one update appended to log X on both machines ---------- *)
Definition entry_for (u : upd) (log htlc : N) (mal : bool) (amt hash : Z) : entry :=
  match u with
  | UAdd a e h => new_entry EAdd log htlc 0 a e h
  | USettle i => new_entry ESettle log 0 (N.of_nat i) amt 0 hash
  | UFail i => new_entry (if mal then EMalformedFail else EFail) log 0 (N.of_nat i) amt 0 hash
  | UFee r => new_entry EFeeUpdate log 0 0 (r * 1000) 0 0
  end.
Definition append_for (u : upd) (U : ulog) (pd : entry) : ulog :=
  match u with
  | UAdd _ _ _ => appendHtlc U pd
  | UFee _ => appendFeeUpdate U pd
  | _ => appendUpdate U pd
  end.

Lemma adds_of_replace_fee j L r0 r : nth_error L j = Some (UFee r0) ->
  adds_of (replace_nth j L (UFee r)) = adds_of L.
Proof. intros H. unfold adds_of. eapply adds_from_replace_fee, H. Qed.

Section PairAppend.
Variables (LX LY : list upd) (UX UY : ulog) (FX FY : nat).
Hypothesis LCX : LogCorr LX LY UX FX FY.
Hypothesis LCY : LogCorr LY LX UY FY FX.
Hypothesis IDX : l_idx UX = N.of_nat (length LX).
Hypothesis HTL : l_htlc UX = N.of_nat (nadds LX).
Variables (tL tR : nat).
Hypothesis A3L : forall e, In e (l_list UX) -> (committed true e = 0%N <-> tL <= idx e).
Hypothesis A3R : forall e, In e (l_list UX) -> (committed false e = 0%N <-> tR <= idx e).
Hypothesis HB : FX <= Nat.max tL tR /\ Nat.max tL tR <= length LX.
Hypothesis HFY : FY <= length LY.
Hypothesis PY : forall j, In j (parents LY) -> exists a, add_pos LX j = Some a.
Variables (u : upd) (mal : bool) (amt hash : Z).
Hypothesis AMT : forall i, (u = USettle i \/ u = UFail i) -> amt = amt_in (adds_of LY) i.

Let bound := Nat.max tL tR.
Let pd := entry_for u (l_idx UX) (l_htlc UX) mal amt hash.
Let LX' := append_upd LX bound u.
Let UX' := append_for u UX pd.

Lemma pd_idx : idx pd = length LX.
Proof. unfold pd, entry_for, idx. destruct u; cbn [new_entry e_log]; rewrite IDX, Nat2N.id; reflexivity. Qed.

(* plain append *)
Lemma snoc_case U1 :
  l_list U1 = l_list UX ++ [pd] ->
  LogCorr (LX ++ [u]) LY U1 FX FY /\ LogCorr LY (LX ++ [u]) UY FY FX.
Proof.
  intros EL. split.
  - apply (logcorr_snoc LX LY UX FX FY u pd U1 LCX EL pd_idx).
    + unfold corr_entry. rewrite pd_idx, nth_app_new, (firstn_app_le (length LX) LX [u]), firstn_all by lia.
      unfold pd, entry_for. destruct u; cbn [new_entry e_type e_amt e_exp e_hash e_htlc e_parent].
      * rewrite HTL. auto.
      * rewrite (AMT parent (or_introl eq_refl)). auto.
      * rewrite (AMT parent (or_intror eq_refl)). destruct mal; auto.
      * auto.
    + unfold present. rewrite nth_app_new, (firstn_app_le (length LX) LX [u]), firstn_all by lia.
      destruct u; try (apply Nat.leb_le; lia).
      apply negb_true_iff. unfold removed_below.
      destruct (existsb _ _) eqn:E; [|reflexivity]. exfalso.
      apply existsb_exists in E. destruct E as [j [IJ EJ]]. apply Nat.eqb_eq in EJ. subst j.
      apply parents_firstn_in in IJ. destruct (PY _ IJ) as [a AP].
      apply add_pos_lt_nadds in AP. lia.
  - apply (logcorr_other LY LX (LX ++ [u]) UY FY FX LCY).
    + apply firstn_app_le. lia.
    + intros j IN. rewrite adds_of_snoc. apply amt_in_app.
      destruct (PY j IN) as [a AP]. eapply add_pos_lookup, AP.
Qed.

Lemma pair_append :
  LogCorr LX' LY UX' FX FY /\ LogCorr LY LX' UY FY FX /\
  l_idx UX' = N.of_nat (length LX') /\ l_htlc UX' = N.of_nat (nadds LX') /\ l_mod UX' = l_mod UX.
Proof.
  unfold LX', UX', append_upd, append_for.
  assert (NONFEE : forall U1, l_list U1 = l_list UX ++ [pd] -> l_idx U1 = (l_idx UX + 1)%N ->
            l_htlc U1 = (l_htlc UX + match u with UAdd _ _ _ => 1 | _ => 0 end)%N -> l_mod U1 = l_mod UX ->
            LogCorr (LX ++ [u]) LY U1 FX FY /\ LogCorr LY (LX ++ [u]) UY FY FX /\
            l_idx U1 = N.of_nat (length (LX ++ [u])) /\ l_htlc U1 = N.of_nat (nadds (LX ++ [u])) /\
            l_mod U1 = l_mod UX).
  { intros U1 E1 E2 E3 E4. destruct (snoc_case U1 E1) as [A B]. split; [exact A|]. split; [exact B|].
    rewrite E2, E3, IDX, HTL, app_length, nadds_snoc. cbn [length]. split; [lia|]. split; [|exact E4].
    destruct u; lia. }
  destruct u as [a e h|i|i|r].
  - apply NONFEE; reflexivity.
  - apply NONFEE; cbn; try reflexivity; lia.
  - apply NONFEE; cbn; try reflexivity; lia.
  - unfold appendFeeUpdate. rewrite lfi_char.
    replace (match last_pos LX with Some k => Some (0 + k) | None => None end) with (last_pos LX)
      by (destruct (last_pos LX); reflexivity).
    pose proof (fee_decision LX LY UX FX FY LCX tL tR A3L A3R (proj1 HB) (e_amt pd)) as FD.
    destruct (merge_fee_rev (rev (l_list UX)) (e_amt pd)) as [l'|].
    + destruct FD as [pre [e [post [LP [BJ [EL [FE ER]]]]]]]. rewrite LP.
      unfold bound. apply Nat.leb_le in BJ. rewrite BJ. apply Nat.leb_le in BJ.
      assert (IE : In e (l_list UX)) by (rewrite EL; apply in_or_app; right; now left).
      destruct (proj1 (proj1 (fee_entry' _ _ _ _ _ LCX e IE)) FE) as [r0 NE].
      split; [|split; [|split; [|split]]].
      * apply (logcorr_merge LX LY UX _ FX FY pre e post (idx e) r LCX EL eq_refl FE).
        cbn [l_list]. rewrite ER. unfold pd, entry_for. reflexivity.
      * apply (logcorr_other LY LX _ UY FY FX LCY).
        -- apply replace_nth_firstn. lia.
        -- intros j IN. rewrite (adds_of_replace_fee _ _ _ _ NE). reflexivity.
      * cbn [l_idx]. rewrite replace_nth_length. exact IDX.
      * cbn [l_htlc]. rewrite HTL. unfold nadds. rewrite (adds_of_replace_fee _ _ _ _ NE). reflexivity.
      * reflexivity.
    + assert (APP : match last_pos LX with
                    | Some k => if Nat.leb bound k then replace_nth k LX (UFee r) else LX ++ [UFee r]
                    | None => LX ++ [UFee r] end = LX ++ [UFee r]).
      { destruct (last_pos LX) as [k|]; [|reflexivity]. unfold bound.
        destruct (Nat.leb_spec (Nat.max tL tR) k); [lia|reflexivity]. }
      rewrite APP. apply NONFEE; cbn; try reflexivity; lia.
Qed.
End PairAppend.

(* ---------- S5: the full party relation and update creation ---------- *)
Definition fee_eq (e : entry) : Prop := is_fee e = true -> e_addL e = e_rmL e /\ e_addR e = e_rmR e.

Record CorrX (c : cfg) (p : bool) (x : party) (y : vparty) (Fo Fp : nat) : Prop := mkCorrX {
  cx_corr : Corr c p x y Fo Fp;
  cx_ho : l_htlc (vl y) = N.of_nat (nadds (own x));
  cx_hp : l_htlc (vr y) = N.of_nat (nadds (peer x));
  cx_modr : forall i, memN i (l_mod (vr y)) = true -> In (N.to_nat i) (parents (own x));
  cx_modl : forall i, memN i (l_mod (vl y)) = true -> In (N.to_nat i) (parents (peer x));
  cx_feel : forall e, In e (l_list (vl y)) -> fee_eq e;
  cx_feer : forall e, In e (l_list (vr y)) -> fee_eq e;
  cx_tiph : forall k, v_rtip y = Some k -> c_h (vk k) = (c_h (vk (v_rtail y)) + 1)%Z
}.

Definition set_own (x : party) (l : list upd) : party :=
  mkParty l (peer x) (lTail x) (lTip x) (rTail x) (rTip x).
Definition set_peer (x : party) (l : list upd) : party :=
  mkParty (own x) l (lTail x) (lTip x) (rTail x) (rTip x).

Lemma logcorr_list_eq L Lo U1 U2 Ft Fo : l_list U1 = l_list U2 -> LogCorr L Lo U1 Ft Fo -> LogCorr L Lo U2 Ft Fo.
Proof. intros E [A F B]. split; rewrite <- E; assumption. Qed.

(* entries after an append keep their heights (a merged fee update only changes its amount) *)
Lemma append_for_fee_eq u U pd : (forall e, In e (l_list U) -> fee_eq e) -> fee_eq pd ->
  forall e, In e (l_list (append_for u U pd)) -> fee_eq e.
Proof.
  intros H HP e IN. unfold append_for in IN.
  assert (SN : In e (l_list U ++ [pd]) -> fee_eq e).
  { intros I2. apply in_app_or in I2. destruct I2 as [I2|[<-|[]]]; auto. }
  destruct u; try (apply SN, IN).
  unfold appendFeeUpdate in IN. destruct (merge_fee_rev (rev (l_list U)) (e_amt pd)) as [l'|] eqn:M.
  - cbn [l_list] in IN. apply in_rev in IN.
    destruct (merge_fee_rev_in _ _ _ M e IN) as [e0 [I0 [->| ->]]]; apply in_rev in I0.
    + apply H, I0.
    + specialize (H e0 I0). unfold fee_eq, is_fee, set_amt in *. cbn. exact H.
  - apply SN, IN.
Qed.

Lemma new_entry_fee_eq t a b c0 d e f : fee_eq (new_entry t a b c0 d e f).
Proof. intros _. split; reflexivity. Qed.

Lemma memN_cons i j l : memN i (j :: l) = true -> i = j \/ memN i l = true.
Proof. unfold memN. cbn. intros H. apply orb_true_iff in H. destruct H as [H|H]; [left; apply N.eqb_eq, H|right; exact H]. Qed.

Lemma markmod_mem U i j : memN j (l_mod (markHtlcModified U i)) = true -> j = i \/ memN j (l_mod U) = true.
Proof.
  unfold markHtlcModified. cbn [l_mod]. destruct (memN i (l_mod U)); [auto|]. apply memN_cons.
Qed.

Lemma add_present L Lo U Ft Fo (LC : LogCorr L Lo U Ft Fo) j a :
  add_pos L j = Some a -> ~ In j (parents (firstn Fo Lo)) ->
  exists b, In b (l_list U) /\ idx b = a /\ is_add b = true /\ e_htlc b = N.of_nat j.
Proof.
  intros AP NI. destruct (add_pos_nth _ _ _ AP) as [am [ex [h [NE NA]]]].
  assert (LT : a < length L) by (apply nth_error_Some; congruence).
  destruct (lc_present _ _ _ _ _ LC a LT) as [b [IB EB]].
  { unfold present. rewrite NE, NA. unfold removed_below. apply negb_true_iff.
    destruct (existsb (Nat.eqb j) (parents (firstn Fo Lo))) eqn:E; [|reflexivity].
    apply existsb_exists in E. destruct E as [z [I1 I2]]. apply Nat.eqb_eq in I2. subst z. tauto. }
  exists b. pose proof (lc_ent _ _ _ _ _ LC b IB) as C. unfold corr_entry in C.
  rewrite EB, NE in C. destruct C as [T [_ [_ [_ H]]]].
  repeat split; auto; [unfold is_add; rewrite T; reflexivity|rewrite H, NA; reflexivity].
Qed.

Section Send.
Variables (c : cfg) (p : bool) (x : party) (y : vparty) (Fo Fp : nat).
Hypothesis CX : CorrX c p x y Fo Fp.
Let CO := cx_corr _ _ _ _ _ _ CX.

Let tL := n_of p (tip_of (lTail x) (lTip x)).
Let tR := n_of p (tip_of (rTail x) (rTip x)).

Lemma bound_own : committed_bound p x = Nat.max tL tR.
Proof. reflexivity. Qed.

(* the Add a removal names is found in the peer log, with the amount of the update list *)
Lemma lookup_peer_add i a :
  add_pos (peer x) i = Some a -> ~ In i (parents (own x)) ->
  exists h, lookupHtlc (vr y) (N.of_nat i) = Some h /\ e_amt h = amt_in (adds_of (peer x)) i /\
            e_htlc h = N.of_nat i.
Proof.
  intros AP NI.
  destruct (add_present (peer x) (own x) (vr y) Fp Fo (co_lpe _ _ _ _ _ _ CO) i a AP)
    as [b0 [IB0 [EB0 [AB0 HB0]]]].
  { intros IN. apply NI. eapply parents_firstn_in, IN. }
  unfold lookupHtlc.
  destruct (find (fun e0 => is_add e0 && N.eqb (e_htlc e0) (N.of_nat i)) (l_list (vr y))) as [h|] eqn:F.
  2:{ exfalso. apply (find_none _ _ F) in IB0. rewrite AB0, HB0, N.eqb_refl in IB0. discriminate. }
  exists h. split; [reflexivity|]. apply find_some in F. destruct F as [IH P].
  apply andb_true_iff in P. destruct P as [AH HH]. apply N.eqb_eq in HH.
  destruct (add_entry _ _ _ _ _ (co_lpe _ _ _ _ _ _ CO) h IH AH) as [am [ex [hs [NE [EA [_ [_ EH]]]]]]].
  split; [|exact HH]. rewrite EA.
  assert (EJ : nadds (firstn (idx h) (peer x)) = i) by lia.
  rewrite <- EJ. symmetry. eapply nth_add_amt, NE.
Qed.

Lemma commit_cut_le k : In k (commits_of x) ->
  n_of p k <= Nat.max tL tR /\ n_of p k <= length (own x) /\
  n_of (negb p) k <= Nat.max (n_of (negb p) (tip_of (lTail x) (lTip x))) (n_of (negb p) (tip_of (rTail x) (rTip x))) /\
  n_of (negb p) k <= length (peer x).
Proof.
  pose proof (idx_chain c p x y Fo Fp CO) as IC. unfold tL, tR. unfold commits_of, tip_of in *.
  intros IN. destruct (lTip x), (rTip x); cbn in IN;
    repeat (destruct IN as [<-|IN]; [lia|]); destruct IN.
Qed.

Lemma good_keep x' :
  lTail x' = lTail x -> lTip x' = lTip x -> rTail x' = rTail x -> rTip x' = rTip x ->
  (forall n, n <= Nat.max tL tR -> n <= length (own x) -> firstn n (own x') = firstn n (own x)) ->
  (forall n, n <= Nat.max (n_of (negb p) (tip_of (lTail x) (lTip x))) (n_of (negb p) (tip_of (rTail x) (rTip x))) ->
             n <= length (peer x) -> firstn n (peer x') = firstn n (peer x)) ->
  forall k, In k (commits_of x') -> good_local c p x' k.
Proof.
  intros E1 E2 E3 E4 HO HP k IN. unfold commits_of in IN. rewrite E1, E2, E3, E4 in IN. fold (commits_of x) in IN.
  pose proof (co_good _ _ _ _ _ _ CO k IN) as G. destruct (commit_cut_le k IN) as [A [B [C D]]].
  unfold good_local in *. rewrite <- G. unfold logA_of, logB_of, n_of in *.
  destruct p; cbn [negb] in *; apply commit_of_ext; auto.
Qed.

Lemma send_shape u mal : upd_enabled c p x u = true ->
  exists amt hash vr',
    v_send c p y u mal = Some (with_logs y (append_for u (vl y)
        (entry_for u (l_idx (vl y)) (l_htlc (vl y)) (match u with UFail _ => mal | _ => false end) amt hash)) vr') /\
    l_list vr' = l_list (vr y) /\ l_idx vr' = l_idx (vr y) /\ l_htlc vr' = l_htlc (vr y) /\
    (forall j, memN j (l_mod vr') = true -> memN j (l_mod (vr y)) = true \/
               exists i, (u = USettle i \/ u = UFail i) /\ j = N.of_nat i) /\
    (forall i, (u = USettle i \/ u = UFail i) -> amt = amt_in (adds_of (peer x)) i).
Proof.
  intros EN. unfold v_send. destruct u as [a e h|i|i|r]; cbn [upd_enabled] in EN.
  - rewrite EN. exists 0%Z, 0%Z, (vr y). split; [reflexivity|]. repeat split; auto.
    intros i [H|H]; discriminate.
  - destruct (removal_enabled_inv p x i EN) as [a [AP [L1 [L2 NI]]]].
    destruct (lookup_peer_add i a AP NI) as [h [LK [EA EH]]]. rewrite LK.
    destruct (memN (N.of_nat i) (l_mod (vr y))) eqn:M.
    { exfalso. apply NI. pose proof (cx_modr _ _ _ _ _ _ CX _ M) as X. rewrite Nat2N.id in X. exact X. }
    exists (e_amt h), 0%Z, (markHtlcModified (vr y) (N.of_nat i)). split; [reflexivity|].
    repeat split; auto.
    + intros j MJ. apply markmod_mem in MJ. destruct MJ as [->|MJ]; [right; exists i; auto|left; exact MJ].
    + intros i' [H|H]; [injection H as <-; exact EA|discriminate].
  - destruct (removal_enabled_inv p x i EN) as [a [AP [L1 [L2 NI]]]].
    destruct (lookup_peer_add i a AP NI) as [h [LK [EA EH]]]. rewrite LK.
    destruct (memN (N.of_nat i) (l_mod (vr y))) eqn:M.
    { exfalso. apply NI. pose proof (cx_modr _ _ _ _ _ _ CX _ M) as X. rewrite Nat2N.id in X. exact X. }
    exists (e_amt h), (e_hash h), (markHtlcModified (vr y) (N.of_nat i)). split; [reflexivity|].
    repeat split; auto.
    + intros j MJ. apply markmod_mem in MJ. destruct MJ as [->|MJ]; [right; exists i; auto|left; exact MJ].
    + intros i' [H|H]; [discriminate|injection H as <-; exact EA].
  - rewrite EN. exists 0%Z, 0%Z, (vr y). split; [reflexivity|]. repeat split; auto.
    intros i [H|H]; discriminate.
Qed.
End Send.

Lemma entry_for_fee_eq u a b m am hs : fee_eq (entry_for u a b m am hs).
Proof. unfold entry_for. destruct u; try destruct m; apply new_entry_fee_eq. Qed.

Lemma in_parents_snoc L u j : In j (parents (L ++ [u])) <-> In j (parents L) \/ u = USettle j \/ u = UFail j.
Proof.
  rewrite parents_snoc, in_app_iff. split; intros [H|H]; auto.
  - right. destruct u; cbn in H; try tauto; destruct H as [<-|[]]; auto.
  - right. destruct H as [->| ->]; cbn; auto.
Qed.

(* ---------- S6: AddHTLC / SettleHTLC / FailHTLC / MalformedFailHTLC / UpdateFee ---------- *)
Section SendThm.
Variables (c : cfg) (p : bool) (x : party) (y : vparty) (Fo Fp : nat).
Hypothesis CX : CorrX c p x y Fo Fp.

Theorem send_corrx u mal :
  upd_enabled c p x u = true ->
  exists y', v_send c p y u mal = Some y' /\
             CorrX c p (set_own x (append_upd (own x) (committed_bound p x) u)) y' Fo Fp.
Proof.
  intros EN. pose proof (cx_corr _ _ _ _ _ _ CX) as CO.
  destruct (send_shape c p x y Fo Fp CX u mal EN) as [amt [hash [vr' [VS [E1 [E2 [E3 [MD AMT]]]]]]]].
  eexists. split; [exact VS|].
  pose proof (idx_chain c p x y Fo Fp CO) as IC.
  destruct (a3_nat c p x y Fo Fp CO true) as [A3L _]. destruct (a3_nat c p x y Fo Fp CO false) as [A3R _].
  cbn zeta in A3L, A3R.
  set (tL := n_of p (tip_of (lTail x) (lTip x))) in *. set (tR := n_of p (tip_of (rTail x) (rTip x))) in *.
  assert (HB : Fo <= Nat.max tL tR /\ Nat.max tL tR <= length (own x)).
  { pose proof (co_fo _ _ _ _ _ _ CO). unfold tL, tR. lia. }
  assert (HFY : Fp <= length (peer x)) by (pose proof (co_fp _ _ _ _ _ _ CO); lia).
  assert (PY : forall j, In j (parents (peer x)) -> exists a, add_pos (own x) j = Some a).
  { intros j IN. destruct (co_pfp _ _ _ _ _ _ CO j IN) as [a [AP _]]. eauto. }
  destruct (pair_append (own x) (peer x) (vl y) (vr y) Fo Fp (co_lo _ _ _ _ _ _ CO) (co_lpe _ _ _ _ _ _ CO)
              (co_io _ _ _ _ _ _ CO) (cx_ho _ _ _ _ _ _ CX) tL tR A3L A3R HB HFY PY u
              (match u with UFail _ => mal | _ => false end) amt hash AMT)
    as [P1 [P2 [P3 [P4 P5]]]].
  set (own' := append_upd (own x) (Nat.max tL tR) u) in *.
  change (committed_bound p x) with (Nat.max tL tR). fold own'.
  set (pd := entry_for u (l_idx (vl y)) (l_htlc (vl y)) (match u with UFail _ => mal | _ => false end) amt hash) in *.
  set (vl' := append_for u (vl y) pd) in *.
  assert (VI : VInv p (with_logs y vl' vr')).
  { eapply v_send_inv; [exact VS|apply CO]. }
  assert (PAR : forall j, In j (parents own') <-> In j (parents (own x)) \/ u = USettle j \/ u = UFail j).
  { intros j. unfold own'. rewrite parents_append_upd. apply in_parents_snoc. }
  assert (REM : forall i, u = USettle i \/ u = UFail i ->
                exists a, add_pos (peer x) i = Some a /\ a < n_of (negb p) (lTail x) /\
                          a < n_of (negb p) (rTail x) /\ ~ In i (parents (own x))).
  { intros i [->| ->]; cbn [upd_enabled] in EN; apply (removal_enabled_inv p x i EN). }
  constructor.
  - (* Corr *)
    constructor; cbn [set_own own peer lTail lTip rTail rTip with_logs vl vr v_ltail v_ltip v_rtail v_rtip].
    + apply CO.
    + apply CO.
    + apply CO.
    + apply CO.
    + exact P3.
    + rewrite E2. apply CO.
    + exact P1.
    + eapply logcorr_list_eq; [symmetry; exact E1|exact P2].
    + exact VI.
    + apply CO.
    + apply CO.
    + apply (good_keep c p x y Fo Fp CX (set_own x own')); try reflexivity.
      intros n H1 H2. cbn [set_own own]. unfold own'. apply append_upd_firstn; assumption.
    + intros j IN. apply PAR in IN. destruct IN as [IN|IN].
      * apply (co_pfo _ _ _ _ _ _ CO j IN).
      * destruct (REM j IN) as [a [AP [L1 [L2 _]]]]. exists a. auto.
    + intros j IN. destruct (co_pfp _ _ _ _ _ _ CO j IN) as [a [AP LL]]. exists a. split; [|exact LL].
      unfold own'. apply add_pos_append_upd, AP.
    + unfold own'. unfold parents. fold (parents (append_upd (own x) (Nat.max tL tR) u)).
      rewrite parents_append_upd, parents_snoc.
      destruct u as [a e h|i|i|r]; rewrite ?app_nil_r; try apply CO.
      * apply nodup_snoc; [apply CO|]. destruct (REM i (or_introl eq_refl)) as [? [_ [_ [_ NI]]]]. exact NI.
      * apply nodup_snoc; [apply CO|]. destruct (REM i (or_intror eq_refl)) as [? [_ [_ [_ NI]]]]. exact NI.
    + apply CO.
  - cbn [set_own own with_logs vl]. exact P4.
  - cbn [set_own peer with_logs vr]. rewrite E3. apply CX.
  - cbn [set_own own with_logs vr]. intros j MJ. apply PAR. destruct (MD j MJ) as [M|[i [HU ->]]].
    + left. apply (cx_modr _ _ _ _ _ _ CX), M.
    + right. rewrite Nat2N.id. exact HU.
  - cbn [set_own peer with_logs vl]. rewrite P5. apply CX.
  - cbn [with_logs vl]. unfold vl'. apply append_for_fee_eq; [apply CX|apply entry_for_fee_eq].
  - cbn [with_logs vr]. rewrite E1. apply CX.
  - cbn [with_logs v_rtip v_rtail]. apply CX.
Qed.
End SendThm.

Lemma lookup_add_gen L Lo U Ft Fo (LC : LogCorr L Lo U Ft Fo) i a :
  add_pos L i = Some a -> ~ In i (parents (firstn Fo Lo)) ->
  exists h, lookupHtlc U (N.of_nat i) = Some h /\ e_amt h = amt_in (adds_of L) i /\
            e_htlc h = N.of_nat i /\ In h (l_list U).
Proof.
  intros AP NI. destruct (add_present L Lo U Ft Fo LC i a AP NI) as [b0 [IB0 [EB0 [AB0 HB0]]]].
  unfold lookupHtlc.
  destruct (find (fun e0 => is_add e0 && N.eqb (e_htlc e0) (N.of_nat i)) (l_list U)) as [h|] eqn:F.
  2:{ exfalso. apply (find_none _ _ F) in IB0. rewrite AB0, HB0, N.eqb_refl in IB0. discriminate. }
  exists h. split; [reflexivity|]. apply find_some in F. destruct F as [IH P].
  apply andb_true_iff in P. destruct P as [AH HH]. apply N.eqb_eq in HH.
  destruct (add_entry _ _ _ _ _ LC h IH AH) as [am [ex [hs [NE [EA [_ [_ EH]]]]]]].
  split; [|auto]. rewrite EA.
  assert (EJ : nadds (firstn (idx h) L) = i) by lia.
  rewrite <- EJ. symmetry. eapply nth_add_amt, NE.
Qed.

(* ---------- S7: ReceiveHTLC / ReceiveHTLCSettle / ReceiveFailHTLC / ReceiveUpdateFee ---------- *)
Section RecvThm.
Variables (c : cfg) (p : bool) (x : party) (y : vparty) (Fo Fp : nat).
Hypothesis CX : CorrX c p x y Fo Fp.

Theorem recv_upd_corrx u :
  (forall i, u = USettle i \/ u = UFail i ->
     exists a, add_pos (own x) i = Some a /\ a < n_of p (lTail x) /\ a < n_of p (rTail x) /\
               ~ In i (parents (peer x))) ->
  (forall r, u = UFee r -> Bool.eqb p (opener c) = false) ->
  exists y', v_recv_upd c p y u = Some y' /\
             CorrX c p (set_peer x (append_upd (peer x) (committed_bound (negb p) x) u)) y' Fo Fp.
Proof.
  intros REM FEE. pose proof (cx_corr _ _ _ _ _ _ CX) as CO.
  pose proof (idx_chain c p x y Fo Fp CO) as IC.
  destruct (a3_nat c p x y Fo Fp CO true) as [_ A3L]. destruct (a3_nat c p x y Fo Fp CO false) as [_ A3R].
  cbn zeta in A3L, A3R.
  set (tL := n_of (negb p) (tip_of (lTail x) (lTip x))) in *.
  set (tR := n_of (negb p) (tip_of (rTail x) (rTip x))) in *.
  assert (HB : Fp <= Nat.max tL tR /\ Nat.max tL tR <= length (peer x)).
  { pose proof (co_fp _ _ _ _ _ _ CO). unfold tL, tR. lia. }
  assert (HFY : Fo <= length (own x)) by (pose proof (co_fo _ _ _ _ _ _ CO); lia).
  assert (PY : forall j, In j (parents (own x)) -> exists a, add_pos (peer x) j = Some a).
  { intros j IN. destruct (co_pfo _ _ _ _ _ _ CO j IN) as [a [AP _]]. eauto. }
  (* shape of the View step *)
  assert (SH : exists amt hash vl',
    v_recv_upd c p y u = Some (with_logs y vl' (append_for u (vr y)
        (entry_for u (l_idx (vr y)) (l_htlc (vr y)) false amt hash))) /\
    l_list vl' = l_list (vl y) /\ l_idx vl' = l_idx (vl y) /\ l_htlc vl' = l_htlc (vl y) /\
    (forall j, memN j (l_mod vl') = true -> memN j (l_mod (vl y)) = true \/
               exists i, (u = USettle i \/ u = UFail i) /\ j = N.of_nat i) /\
    (forall i, (u = USettle i \/ u = UFail i) -> amt = amt_in (adds_of (own x)) i)).
  { unfold v_recv_upd. destruct u as [a e h|i|i|r].
    - exists 0%Z, 0%Z, (vl y). split; [reflexivity|]. repeat split; auto. intros i [H|H]; discriminate.
    - destruct (REM i (or_introl eq_refl)) as [a [AP [L1 [L2 NI]]]].
      destruct (lookup_add_gen (own x) (peer x) (vl y) Fo Fp (co_lo _ _ _ _ _ _ CO) i a AP) as [h [LK [EA [EH _]]]].
      { intros IN. apply NI. eapply parents_firstn_in, IN. }
      rewrite LK. destruct (memN (N.of_nat i) (l_mod (vl y))) eqn:M.
      { exfalso. apply NI. pose proof (cx_modl _ _ _ _ _ _ CX _ M) as X. rewrite Nat2N.id in X. exact X. }
      exists (e_amt h), (e_hash h), (markHtlcModified (vl y) (N.of_nat i)). rewrite EH.
      split; [reflexivity|]. repeat split; auto.
      + intros j MJ. apply markmod_mem in MJ. destruct MJ as [->|MJ]; [right; exists i; auto|left; exact MJ].
      + intros i' [H|H]; [injection H as <-; exact EA|discriminate].
    - destruct (REM i (or_intror eq_refl)) as [a [AP [L1 [L2 NI]]]].
      destruct (lookup_add_gen (own x) (peer x) (vl y) Fo Fp (co_lo _ _ _ _ _ _ CO) i a AP) as [h [LK [EA [EH _]]]].
      { intros IN. apply NI. eapply parents_firstn_in, IN. }
      rewrite LK. destruct (memN (N.of_nat i) (l_mod (vl y))) eqn:M.
      { exfalso. apply NI. pose proof (cx_modl _ _ _ _ _ _ CX _ M) as X. rewrite Nat2N.id in X. exact X. }
      exists (e_amt h), (e_hash h), (markHtlcModified (vl y) (N.of_nat i)). rewrite EH.
      split; [reflexivity|]. repeat split; auto.
      + intros j MJ. apply markmod_mem in MJ. destruct MJ as [->|MJ]; [right; exists i; auto|left; exact MJ].
      + intros i' [H|H]; [discriminate|injection H as <-; exact EA].
    - rewrite (FEE r eq_refl). exists 0%Z, 0%Z, (vl y). split; [reflexivity|]. repeat split; auto.
      intros i [H|H]; discriminate. }
  destruct SH as [amt [hash [vl' [VS [E1 [E2 [E3 [MD AMT]]]]]]]].
  eexists. split; [exact VS|].
  destruct (pair_append (peer x) (own x) (vr y) (vl y) Fp Fo (co_lpe _ _ _ _ _ _ CO) (co_lo _ _ _ _ _ _ CO)
              (co_ip _ _ _ _ _ _ CO) (cx_hp _ _ _ _ _ _ CX) tL tR A3L A3R HB HFY PY u false amt hash AMT)
    as [P1 [P2 [P3 [P4 P5]]]].
  set (peer' := append_upd (peer x) (Nat.max tL tR) u) in *.
  change (committed_bound (negb p) x) with (Nat.max tL tR). fold peer'.
  set (pd := entry_for u (l_idx (vr y)) (l_htlc (vr y)) false amt hash) in *.
  set (vr' := append_for u (vr y) pd) in *.
  assert (VI : VInv p (with_logs y vl' vr')).
  { eapply v_recv_upd_inv; [exact VS|apply CO]. }
  assert (PAR : forall j, In j (parents peer') <-> In j (parents (peer x)) \/ u = USettle j \/ u = UFail j).
  { intros j. unfold peer'. rewrite parents_append_upd. apply in_parents_snoc. }
  constructor.
  - constructor; cbn [set_peer own peer lTail lTip rTail rTip with_logs vl vr v_ltail v_ltip v_rtail v_rtip].
    + apply CO.
    + apply CO.
    + apply CO.
    + apply CO.
    + rewrite E2. apply CO.
    + exact P3.
    + eapply logcorr_list_eq; [symmetry; exact E1|exact P2].
    + exact P1.
    + exact VI.
    + apply CO.
    + apply CO.
    + apply (good_keep c p x y Fo Fp CX (set_peer x peer')); try reflexivity.
      intros n H1 H2. cbn [set_peer peer]. unfold peer'. apply append_upd_firstn; assumption.
    + intros j IN. destruct (co_pfo _ _ _ _ _ _ CO j IN) as [a [AP LL]]. exists a. split; [|exact LL].
      unfold peer'. apply add_pos_append_upd, AP.
    + intros j IN. apply PAR in IN. destruct IN as [IN|IN].
      * apply (co_pfp _ _ _ _ _ _ CO j IN).
      * destruct (REM j IN) as [a [AP [L1 [L2 _]]]]. exists a. auto.
    + apply CO.
    + unfold peer'. rewrite parents_append_upd, parents_snoc.
      destruct u as [a e h|i|i|r]; rewrite ?app_nil_r; try apply CO.
      * apply nodup_snoc; [apply CO|]. destruct (REM i (or_introl eq_refl)) as [? [_ [_ [_ NI]]]]. exact NI.
      * apply nodup_snoc; [apply CO|]. destruct (REM i (or_intror eq_refl)) as [? [_ [_ [_ NI]]]]. exact NI.
  - cbn [set_peer own with_logs vl]. rewrite E3. apply CX.
  - cbn [set_peer peer with_logs vr]. exact P4.
  - cbn [set_peer own with_logs vr]. rewrite P5. apply CX.
  - cbn [set_peer peer with_logs vl]. intros j MJ. apply PAR. destruct (MD j MJ) as [M|[i [HU ->]]].
    + left. apply (cx_modl _ _ _ _ _ _ CX), M.
    + right. rewrite Nat2N.id. exact HU.
  - cbn [with_logs vl]. rewrite E1. apply CX.
  - cbn [with_logs vr]. unfold vr'. apply append_for_fee_eq; [apply CX|apply entry_for_fee_eq].
  - cbn [with_logs v_rtip v_rtail]. apply CX.
Qed.
End RecvThm.

(* ---------- S8: CorrX through sign / receive signature / revoke ---------- *)
Lemma sch_fee_eq w h e : fee_eq e -> fee_eq (setCommitHeight w h e).
Proof.
  unfold fee_eq, is_fee, setCommitHeight, set_add_h, set_rm_h. intros H.
  destruct (e_type e) eqn:T, w; cbn; rewrite ?T; try discriminate; intros _;
    specialize (H eq_refl); destruct H; split; auto.
Qed.
Lemma markfn_fee_eq w h i e : fee_eq e -> fee_eq (markfn w h i e).
Proof. unfold markfn. destruct (_ && _); [apply sch_fee_eq|auto]. Qed.
Lemma mark_log_fee_eq w h i U : (forall e, In e (l_list U) -> fee_eq e) ->
  forall e, In e (l_list (mark_log w h i U)) -> fee_eq e.
Proof.
  intros H e IN. rewrite mark_log_list in IN. apply in_map_iff in IN. destruct IN as [e0 [<- I0]].
  apply markfn_fee_eq, H, I0.
Qed.

Section Dance.
Variables (c : cfg) (p : bool) (x : party) (y : vparty) (Fo Fp : nat).
Hypothesis CX : CorrX c p x y Fo Fp.

Theorem sign_corrx x' m :
  do_sign c p x = (Ok, x', Some m) ->
  exists y', v_sign c p y = (Ok, y', Some m) /\ CorrX c p x' y' Fo Fp.
Proof.
  intros DS. pose proof (cx_corr _ _ _ _ _ _ CX) as CO.
  destruct (sign_corr c p x y Fo Fp CO x' m DS) as [y' [VS CO']].
  exists y'. split; [exact VS|].
  destruct (do_sign_ok c p x x' m DS) as [k [RN [CK [-> ->]]]].
  unfold v_sign in VS. destruct (v_rtip y) eqn:RT; [discriminate|].
  destruct (fetchCommitmentView _ _ _ _ _ _ _ _) as [[[k' l'] r']|] eqn:F; [|discriminate].
  injection VS as <- _. apply fetchCommitmentView_spec in F. cbn zeta in F.
  destruct F as [HH [_ [_ [-> ->]]]]. unfold rtipv, vtip in HH. rewrite RT in HH.
  constructor; cbn [set_rTip own peer vl vr v_rtip v_rtail]; try exact CO'.
  - apply CX.
  - apply CX.
  - apply CX.
  - apply CX.
  - apply mark_log_fee_eq, CX.
  - apply mark_log_fee_eq, CX.
  - intros k0 E. injection E as <-. exact HH.
Qed.

Theorem recv_sig_corrx k0 x' :
  do_recv_sig c p x k0 = (Ok, x') ->
  exists y', v_recv_sig c p y k0 = (Ok, y') /\ CorrX c p x' y' Fo Fp.
Proof.
  intros DS. pose proof (cx_corr _ _ _ _ _ _ CX) as CO.
  destruct (recv_sig_corr c p x y Fo Fp CO k0 x' DS) as [y' [VS CO']].
  exists y'. split; [exact VS|].
  unfold do_recv_sig in DS. cbv zeta in DS.
  destruct (commit_of c p _ _ _ _ _) as [k|] eqn:CK; [|discriminate].
  destruct (commit_eqb k k0); [|discriminate]. injection DS as <-.
  unfold v_recv_sig in VS.
  destruct (fetchCommitmentView _ _ _ _ _ _ _ _) as [[[k' l'] r']|] eqn:F; [|discriminate].
  destruct (commit_eqb (vk k') k0); [|discriminate]. injection VS as <-.
  apply fetchCommitmentView_spec in F. cbn zeta in F. destruct F as [_ [_ [_ [-> ->]]]].
  constructor; cbn [own peer vl vr v_rtip v_rtail]; try exact CO'.
  - apply CX.
  - apply CX.
  - apply CX.
  - apply CX.
  - apply mark_log_fee_eq, CX.
  - apply mark_log_fee_eq, CX.
  - apply CX.
Qed.

Theorem revoke_corrx x' m :
  do_revoke x = (Ok, x', Some m) ->
  exists y', v_revoke p y = (Ok, y', Some m) /\ CorrX c p x' y' Fo Fp.
Proof.
  intros DR. pose proof (cx_corr _ _ _ _ _ _ CX) as CO.
  destruct (revoke_corr c p x y Fo Fp CO x' m DR) as [y' [VS CO']].
  exists y'. split; [exact VS|].
  destruct (do_revoke_ok x x' m DR) as [k [LT [-> ->]]].
  unfold v_revoke in VS. destruct (v_ltip y); [|discriminate]. injection VS as <-.
  constructor; cbn [revoked own peer vl vr v_rtip v_rtail]; try exact CO'; apply CX.
Qed.
End Dance.

Lemma corrx_init c p x y : init_party c p = Some x -> vinit_party c p = Some y -> CorrX c p x y 0 0.
Proof.
  intros H1 H2. pose proof (corr_init c p x y H1 H2) as CO.
  unfold init_party in H1. unfold vinit_party, vinit_commit in H2.
  destruct (init_commit c p); [|discriminate]. destruct (init_commit c (negb p)); [|discriminate].
  injection H1 as <-. injection H2 as <-.
  constructor; cbn; auto; try discriminate; try tauto.
Qed.

(* ---------- S9: compactLogs, exactly ---------- *)
Lemma remove_first_filter (f : entry -> bool) : forall l, NoDup l ->
  (forall a b, In a l -> In b l -> f a = true -> f b = true -> a = b) ->
  remove_first f l = filter (fun e => negb (f e)) l.
Proof.
  induction l as [|a r IH]; intros ND UQ; [reflexivity|]. cbn.
  inversion ND as [|? ? NI ND']; subst. destruct (f a) eqn:FA; cbn.
  - symmetry. apply filter_all. intros b IB. apply negb_true_iff.
    destruct (f b) eqn:FB; [|reflexivity]. exfalso.
    assert (a = b) by (apply UQ; auto; [now left|now right]). subst. tauto.
  - f_equal. apply IH; [exact ND'|]. intros x z IX IZ. apply UQ; now right.
Qed.

Lemma filter_filter {A} (P Q : A -> bool) l : filter P (filter Q l) = filter (fun x => Q x && P x) l.
Proof.
  induction l as [|a r IH]; [reflexivity|]. cbn. destruct (Q a); cbn; [destruct (P a)|]; rewrite IH; reflexivity.
Qed.

Definition uq_log (l : list entry) : Prop :=
  forall a b, In a l -> In b l -> is_add a = false -> is_add b = false -> e_log a = e_log b -> a = b.
Definition uq_htlc (l : list entry) : Prop :=
  forall a b, In a l -> In b l -> is_add a = true -> is_add b = true -> e_htlc a = e_htlc b -> a = b.

Definition kill_a (lt rt : N) (x e : entry) : bool :=
  compactable lt rt x && (negb (is_add e) && N.eqb (e_log e) (e_log x)).
Definition kill_b (lt rt : N) (x b : entry) : bool :=
  compactable lt rt x && negb (is_fee x) && (is_add b && N.eqb (e_htlc b) (e_parent x)).

Lemma compact_entry_eq lt rt la lb e :
  compact_entry lt rt (la, lb) e =
  if compactable lt rt e
  then (removeUpdate la (e_log e), if is_fee e then lb else removeHtlc lb (e_parent e))
  else (la, lb).
Proof.
  unfold compact_entry, compactable. destruct (is_add e); [reflexivity|].
  destruct (_ || _); [reflexivity|]. cbn [negb andb]. destruct (_ && _); [|reflexivity].
  destruct (is_fee e); reflexivity.
Qed.

Lemma uq_filter_log P l : uq_log l -> uq_log (filter P l).
Proof. intros U a b IA IB. apply filter_In in IA, IB. apply U; tauto. Qed.
Lemma uq_filter_htlc P l : uq_htlc l -> uq_htlc (filter P l).
Proof. intros U a b IA IB. apply filter_In in IA, IB. apply U; tauto. Qed.

Lemma compactLog_exact lt rt : forall es la lb,
  NoDup (l_list la) -> uq_log (l_list la) -> NoDup (l_list lb) -> uq_htlc (l_list lb) ->
  let st := fold_left (compact_entry lt rt) es (la, lb) in
  l_list (fst st) = filter (fun e => negb (existsb (fun x => kill_a lt rt x e) es)) (l_list la) /\
  l_list (snd st) = filter (fun b => negb (existsb (fun x => kill_b lt rt x b) es)) (l_list lb) /\
  l_idx (fst st) = l_idx la /\ l_htlc (fst st) = l_htlc la /\ l_mod (fst st) = l_mod la /\
  l_idx (snd st) = l_idx lb /\ l_htlc (snd st) = l_htlc lb /\
  (forall i, memN i (l_mod (snd st)) = true -> memN i (l_mod lb) = true).
Proof.
  induction es as [|x r IH]; intros la lb NA UA NB UB; cbn [fold_left existsb].
  - cbn. rewrite !filter_all by (intros; reflexivity). repeat split; auto.
  - rewrite compact_entry_eq.
    assert (STEP : exists la1 lb1,
      (if compactable lt rt x
       then (removeUpdate la (e_log x), if is_fee x then lb else removeHtlc lb (e_parent x))
       else (la, lb)) = (la1, lb1) /\
      l_list la1 = filter (fun e => negb (kill_a lt rt x e)) (l_list la) /\
      l_list lb1 = filter (fun b => negb (kill_b lt rt x b)) (l_list lb) /\
      l_idx la1 = l_idx la /\ l_htlc la1 = l_htlc la /\ l_mod la1 = l_mod la /\
      l_idx lb1 = l_idx lb /\ l_htlc lb1 = l_htlc lb /\
      (forall i, memN i (l_mod lb1) = true -> memN i (l_mod lb) = true)).
    { unfold kill_a, kill_b. destruct (compactable lt rt x) eqn:CP; cbn [andb].
      - assert (RA : l_list (removeUpdate la (e_log x)) =
                     filter (fun e => negb (negb (is_add e) && N.eqb (e_log e) (e_log x))) (l_list la)).
        { cbn [removeUpdate l_list]. apply remove_first_filter; [exact NA|].
          intros a b IA IB FA FB. apply andb_true_iff in FA, FB. destruct FA as [A1 A2], FB as [B1 B2].
          apply negb_true_iff in A1, B1. apply N.eqb_eq in A2, B2. apply UA; auto. congruence. }
        destruct (is_fee x) eqn:FX; cbn [negb andb].
        + eexists _, _. split; [reflexivity|]. split; [exact RA|].
          split; [symmetry; apply filter_all; intros; reflexivity|]. repeat split; auto.
        + eexists _, _. split; [reflexivity|]. split; [exact RA|]. split.
          { cbn [removeHtlc l_list]. apply remove_first_filter; [exact NB|].
            intros a b IA IB FA FB. apply andb_true_iff in FA, FB. destruct FA as [A1 A2], FB as [B1 B2].
            apply N.eqb_eq in A2, B2. apply UB; auto. congruence. }
          repeat split; auto. cbn [removeHtlc l_mod]. intros i M. unfold memN in *.
          apply existsb_exists in M. destruct M as [z [IZ EZ]]. apply filter_In in IZ.
          apply existsb_exists. exists z. tauto.
      - eexists _, _. split; [reflexivity|].
        split; [symmetry; apply filter_all; intros; reflexivity|].
        split; [symmetry; apply filter_all; intros; reflexivity|]. repeat split; auto. }
    destruct STEP as [la1 [lb1 [E [A1 [B1 [C1 [C2 [C3 [C4 [C5 C6]]]]]]]]]]. rewrite E.
    destruct (IH la1 lb1) as [A2 [B2 [D1 [D2 [D3 [D4 [D5 D6]]]]]]].
    { rewrite A1. apply NoDup_filter, NA. }
    { rewrite A1. apply uq_filter_log, UA. }
    { rewrite B1. apply NoDup_filter, NB. }
    { rewrite B1. apply uq_filter_htlc, UB. }
    cbn zeta in *. rewrite A2, B2, A1, B1, !filter_filter. repeat split; try congruence.
    + apply filter_ext. intros e. rewrite negb_orb. reflexivity.
    + apply filter_ext. intros e. rewrite negb_orb. reflexivity.
    + intros i M. apply C6, D6, M.
Qed.

Lemma compactable_nonadd lt rt e : compactable lt rt e = true -> is_add e = false.
Proof. unfold compactable. intros H. apply andb_true_iff in H. destruct H as [H _]. apply andb_true_iff in H.
  destruct H as [H _]. apply negb_true_iff, H. Qed.

Lemma existsb_ext_in {A} (f g : A -> bool) l : (forall x, In x l -> f x = g x) -> existsb f l = existsb g l.
Proof. induction l as [|a r IH]; intros H; [reflexivity|]. cbn. rewrite (H a (or_introl eq_refl)), IH; auto.
  intros x IN. apply H. now right. Qed.

(* both passes *)
Definition keep (lt rt : N) (other : list entry) (e : entry) : bool :=
  negb (compactable lt rt e) && negb (existsb (fun x => kill_b lt rt x e) other).

Lemma self_kill lt rt l e : uq_log l -> In e l ->
  existsb (fun x => kill_a lt rt x e) l = compactable lt rt e.
Proof.
  intros UQ IE. destruct (compactable lt rt e) eqn:CE.
  - apply existsb_exists. exists e. split; [exact IE|]. unfold kill_a.
    rewrite CE, (compactable_nonadd _ _ _ CE), N.eqb_refl. reflexivity.
  - destruct (existsb _ l) eqn:EX; [|reflexivity]. exfalso.
    apply existsb_exists in EX. destruct EX as [x [IX K]]. unfold kill_a in K.
    apply andb_true_iff in K. destruct K as [CX K]. apply andb_true_iff in K. destruct K as [NA EQ].
    apply negb_true_iff in NA. apply N.eqb_eq in EQ.
    assert (e = x) by (apply UQ; auto; eapply compactable_nonadd; eauto). subst. congruence.
Qed.

Lemma compactLogs_exact l r lt rt l' r' :
  NoDup (l_list l) -> uq_log (l_list l) -> uq_htlc (l_list l) ->
  NoDup (l_list r) -> uq_log (l_list r) -> uq_htlc (l_list r) ->
  compactLogs l r lt rt = (l', r') ->
  l_list l' = filter (keep lt rt (l_list r)) (l_list l) /\
  l_list r' = filter (keep lt rt (l_list l)) (l_list r) /\
  l_idx l' = l_idx l /\ l_htlc l' = l_htlc l /\ l_idx r' = l_idx r /\ l_htlc r' = l_htlc r /\
  (forall i, memN i (l_mod l') = true -> memN i (l_mod l) = true) /\
  (forall i, memN i (l_mod r') = true -> memN i (l_mod r) = true).
Proof.
  intros NL UL HL NR UR HR. unfold compactLogs, compactLog.
  pose proof (compactLog_exact lt rt (l_list l) l r NL UL NR HR) as P1.
  destruct (fold_left _ (l_list l) (l, r)) as [o1 t1] eqn:E1. cbn [fst snd] in P1.
  destruct P1 as [A1 [B1 [C1 [C2 [C3 [C4 [C5 C6]]]]]]].
  assert (NO1 : NoDup (l_list o1)) by (rewrite A1; apply NoDup_filter, NL).
  assert (HO1 : uq_htlc (l_list o1)) by (rewrite A1; apply uq_filter_htlc, HL).
  assert (NT1 : NoDup (l_list t1)) by (rewrite B1; apply NoDup_filter, NR).
  assert (UT1 : uq_log (l_list t1)) by (rewrite B1; apply uq_filter_log, UR).
  pose proof (compactLog_exact lt rt (l_list t1) t1 o1 NT1 UT1 NO1 HO1) as P2.
  destruct (fold_left _ (l_list t1) (t1, o1)) as [t2 o2] eqn:E2. cbn [fst snd] in P2.
  destruct P2 as [A2 [B2 [D1 [D2 [D3 [D4 [D5 D6]]]]]]].
  intros H. injection H as <- <-.
  (* non-add entries of r survive pass 1 *)
  assert (T1IN : forall x, is_add x = false -> (In x (l_list t1) <-> In x (l_list r))).
  { intros x NA. rewrite B1, filter_In. split; [tauto|]. intros IN. split; [exact IN|].
    apply negb_true_iff. destruct (existsb _ _) eqn:EX; [|reflexivity]. exfalso.
    apply existsb_exists in EX. destruct EX as [z [_ K]]. unfold kill_b in K. rewrite NA in K.
    rewrite andb_false_r in K. discriminate. }
  assert (KB : forall b, existsb (fun x => kill_b lt rt x b) (l_list t1) = existsb (fun x => kill_b lt rt x b) (l_list r)).
  { intros b. destruct (existsb (fun x => kill_b lt rt x b) (l_list r)) eqn:ER.
    - apply existsb_exists in ER. destruct ER as [z [IZ K]]. apply existsb_exists. exists z. split; [|exact K].
      apply T1IN; [|exact IZ]. unfold kill_b in K. apply andb_true_iff in K. destruct K as [K _].
      apply andb_true_iff in K. destruct K as [K _]. eapply compactable_nonadd, K.
    - destruct (existsb _ (l_list t1)) eqn:ET; [|reflexivity]. exfalso.
      apply existsb_exists in ET. destruct ET as [z [IZ K]].
      assert (existsb (fun x => kill_b lt rt x b) (l_list r) = true); [|congruence].
      apply existsb_exists. exists z. split; [|exact K]. rewrite B1 in IZ. apply filter_In in IZ. tauto. }
  repeat split; try congruence.
  - rewrite B2, A1, filter_filter. apply filter_ext_in. intros e IE. unfold keep.
    rewrite (self_kill lt rt (l_list l) e UL IE), KB. reflexivity.
  - rewrite A2. remember (fun e => negb (existsb (fun x => kill_a lt rt x e) (l_list t1))) as PP.
    rewrite B1, filter_filter. subst PP. apply filter_ext_in. intros e IE. unfold keep.
    assert (IE1 : In e (l_list t1) \/ existsb (fun x => kill_b lt rt x e) (l_list l) = true).
    { destruct (existsb (fun x => kill_b lt rt x e) (l_list l)) eqn:EX; [now right|left].
      rewrite B1. apply filter_In. rewrite EX. auto. }
    destruct IE1 as [IE1|EX].
    + rewrite (self_kill lt rt (l_list t1) e UT1 IE1). apply andb_comm.
    + rewrite EX. cbn. rewrite andb_false_r. reflexivity.
  - intros i M. rewrite <- C3. apply D6, M.
  - intros i M. apply C6. rewrite <- D3. exact M.
Qed.

(* ---------- S11: LogCorr after compaction, with advanced frontiers ---------- *)
Lemma idx_inj_log e1 e2 : e_log e1 = e_log e2 -> idx e1 = idx e2.
Proof. unfold idx. intros ->. reflexivity. Qed.

Section Uq.
Variables (L Lo : list upd) (U : ulog) (Ft Fo : nat).
Hypothesis LC : LogCorr L Lo U Ft Fo.

Lemma lc_nodup_list : NoDup (l_list U).
Proof. eapply NoDup_map_inv, (lc_nodup _ _ _ _ _ LC). Qed.
Lemma lc_uq_log : uq_log (l_list U).
Proof. intros a b IA IB _ _ E. apply (lc_inj _ _ _ _ _ LC); auto. apply idx_inj_log, E. Qed.
Lemma lc_uq_htlc : uq_htlc (l_list U).
Proof.
  intros a b IA IB AA AB E.
  destruct (add_entry _ _ _ _ _ LC a IA AA) as [a1 [x1 [h1 [N1 [_ [_ [_ H1]]]]]]].
  destruct (add_entry _ _ _ _ _ LC b IB AB) as [a2 [x2 [h2 [N2 [_ [_ [_ H2]]]]]]].
  pose proof (nth_add_pos _ _ _ _ _ N1) as P1. pose proof (nth_add_pos _ _ _ _ _ N2) as P2.
  assert (EQ : nadds (firstn (idx a) L) = nadds (firstn (idx b) L)) by lia.
  rewrite EQ, P2 in P1. injection P1 as P1. apply (lc_inj _ _ _ _ _ LC); auto.
Qed.

Lemma nonadd_entry e : In e (l_list U) -> is_add e = false ->
  exists u, nth_error L (idx e) = Some u /\ (forall a ex h, u <> UAdd a ex h).
Proof.
  intros IN NA. pose proof (lc_ent _ _ _ _ _ LC e IN) as C. unfold corr_entry in C. unfold is_add in NA.
  destruct (nth_error L (idx e)) as [[a ex h|j|j|r]|]; try tauto.
  - destruct C as [T _]. rewrite T in NA. discriminate.
  - eexists. split; [reflexivity|]. discriminate.
  - eexists. split; [reflexivity|]. discriminate.
  - eexists. split; [reflexivity|]. discriminate.
Qed.
End Uq.

Lemma inc_map_filter_e (P : entry -> bool) : forall l, inc (map idx l) -> inc (map idx (filter P l)).
Proof.
  induction l as [|x l IH]; intros H; cbn; [exact I|]. cbn in H. destruct H as [H1 H2].
  destruct (P x); cbn; [|apply IH, H2]. split; [|apply IH, H2].
  intros y IY. apply in_map_iff in IY. destruct IY as [q [<- IQ]]. apply filter_In in IQ.
  apply H1, in_map, IQ.
Qed.

Lemma map_filter_on {A B} (f : A -> B) (K : A -> bool) (P : B -> bool) l :
  (forall x, In x l -> K x = P (f x)) -> map f (filter K l) = filter P (map f l).
Proof.
  induction l as [|a r IH]; intros H; [reflexivity|]. cbn. rewrite (H a (or_introl eq_refl)).
  destruct (P (f a)); cbn; rewrite IH; auto; intros x IN; apply H; now right.
Qed.

Section Compact.
Variables (L Lo : list upd) (U Uo : ulog) (Ft Fo Ft' Fo' : nat) (lt rt : N).
Hypothesis LC : LogCorr L Lo U Ft Fo.
Hypothesis LCo : LogCorr Lo L Uo Fo Ft.
Hypothesis HF : Ft <= Ft' /\ Fo <= Fo' /\ Fo' <= length Lo.
Hypothesis HCU : forall e, In e (l_list U) -> is_add e = false -> (compactable lt rt e = true <-> idx e < Ft').
Hypothesis HCO : forall e, In e (l_list Uo) -> is_add e = false -> (compactable lt rt e = true <-> idx e < Fo').

Lemma keep_is_present e : In e (l_list U) ->
  keep lt rt (l_list Uo) e = present L Lo Ft' Fo' (idx e).
Proof.
  intros IE. unfold keep, present.
  destruct (is_add e) eqn:AE.
  - destruct (add_entry _ _ _ _ _ LC e IE AE) as [a [ex [h [NE [_ [_ [_ HH]]]]]]]. rewrite NE.
    assert (NC : compactable lt rt e = false).
    { destruct (compactable lt rt e) eqn:C; [|reflexivity]. apply compactable_nonadd in C. congruence. }
    rewrite NC. cbn [negb andb]. f_equal. unfold removed_below.
    set (j := nadds (firstn (idx e) L)) in *.
    destruct (lc_in _ _ _ _ _ LC e IE) as [_ PR]. unfold present in PR. rewrite NE in PR. fold j in PR.
    apply negb_true_iff in PR. unfold removed_below in PR.
    destruct (existsb (Nat.eqb j) (parents (firstn Fo' Lo))) eqn:EX.
    + (* a removal of j at an index in [Fo, Fo'): its entry is in Uo and evictable *)
      apply existsb_exists in EX. destruct EX as [z [IZ EZ]]. apply Nat.eqb_eq in EZ. subst z.
      destruct (parents_firstn_nth _ _ _ IZ) as [i' [LT' NE']].
      assert (GE : Fo <= i').
      { destruct (Nat.lt_ge_cases i' Fo) as [H|H]; [exfalso|exact H].
        assert (existsb (Nat.eqb j) (parents (firstn Fo Lo)) = true); [|congruence].
        apply existsb_exists. exists j. split; [|apply Nat.eqb_refl].
        apply (nth_parent _ i'). rewrite !nth_firstn by exact H. exact NE'. }
      destruct (lc_present _ _ _ _ _ LCo i') as [x [IX EX]]; [lia| |].
      { unfold present. destruct NE' as [N1|N1]; rewrite N1; apply Nat.leb_le, GE. }
      apply existsb_exists. exists x. split; [exact IX|]. unfold kill_b.
      pose proof (lc_ent _ _ _ _ _ LCo x IX) as C. unfold corr_entry in C. rewrite EX in C.
      assert (XF : is_add x = false /\ is_fee x = false /\ e_parent x = N.of_nat j).
      { destruct NE' as [N1|N1]; rewrite N1 in C.
        - destruct C as [T [P _]]. unfold is_add, is_fee. rewrite T. auto.
        - destruct C as [[T|T] [P _]]; unfold is_add, is_fee; rewrite T; auto. }
      destruct XF as [XA [XF XP]].
      assert (CX : compactable lt rt x = true) by (apply (HCO x IX XA); lia).
      rewrite CX, XF, AE, HH, XP, N.eqb_refl. reflexivity.
    + destruct (existsb (fun x => kill_b lt rt x e) (l_list Uo)) eqn:EK; [|reflexivity]. exfalso.
      apply existsb_exists in EK. destruct EK as [x [IX K]]. unfold kill_b in K.
      apply andb_true_iff in K. destruct K as [K1 K2]. apply andb_true_iff in K1. destruct K1 as [CX XF].
      apply negb_true_iff in XF. apply andb_true_iff in K2. destruct K2 as [_ EQ]. apply N.eqb_eq in EQ.
      pose proof (compactable_nonadd _ _ _ CX) as XA.
      pose proof (proj1 (HCO x IX XA) CX) as LTX.
      pose proof (lc_ent _ _ _ _ _ LCo x IX) as C. unfold corr_entry in C.
      assert (IN : In j (parents (firstn Fo' Lo))).
      { unfold is_add, is_fee in XA, XF.
        destruct (nth_error Lo (idx x)) as [[a0 ex0 h0|j0|j0|r0]|] eqn:NX; try tauto.
        - destruct C as [T _]. rewrite T in XA. discriminate.
        - destruct C as [_ [P _]]. assert (j0 = j) by lia. subst j0.
          apply (nth_parent _ (idx x)). rewrite !nth_firstn by exact LTX. now left.
        - destruct C as [_ [P _]]. assert (j0 = j) by lia. subst j0.
          apply (nth_parent _ (idx x)). rewrite !nth_firstn by exact LTX. now right.
        - destruct C as [T _]. rewrite T in XF. discriminate. }
      assert (existsb (Nat.eqb j) (parents (firstn Fo' Lo)) = true); [|congruence].
      apply existsb_exists. exists j. split; [exact IN|apply Nat.eqb_refl].
  - destruct (nonadd_entry _ _ _ _ _ LC e IE AE) as [u [NE NU]]. rewrite NE.
    assert (NK : existsb (fun x => kill_b lt rt x e) (l_list Uo) = false).
    { destruct (existsb _ _) eqn:EK; [|reflexivity]. exfalso.
      apply existsb_exists in EK. destruct EK as [x [_ K]]. unfold kill_b in K. rewrite AE in K.
      rewrite andb_false_r in K. discriminate. }
    rewrite NK, andb_true_r.
    assert (PR : negb (compactable lt rt e) = Nat.leb Ft' (idx e)).
    { destruct (compactable lt rt e) eqn:C.
      - apply (HCU e IE AE) in C. symmetry. apply Nat.leb_gt. exact C.
      - symmetry. apply Nat.leb_le. destruct (Nat.lt_ge_cases (idx e) Ft') as [H|H]; [|exact H].
        apply (HCU e IE AE) in H. congruence. }
    rewrite PR. destruct u; try reflexivity. exfalso. eapply NU; reflexivity.
Qed.

Lemma present_mono i : i < length L -> present L Lo Ft' Fo' i = true -> present L Lo Ft Fo i = true.
Proof.
  intros LT. unfold present. destruct (nth_error L i) as [[a ex h|?|?|?]|]; try discriminate.
  - rewrite !negb_true_iff. unfold removed_below. intros H.
    destruct (existsb _ (parents (firstn Fo Lo))) eqn:E; [|reflexivity]. exfalso.
    apply existsb_exists in E. destruct E as [z [IZ EZ]].
    assert (existsb (Nat.eqb (nadds (firstn i L))) (parents (firstn Fo' Lo)) = true); [|congruence].
    apply existsb_exists. exists z. split; [|exact EZ].
    destruct (parents_firstn_nth _ _ _ IZ) as [i' [L' N']].
    apply (nth_parent _ i'). rewrite !nth_firstn by lia. exact N'.
  - rewrite !Nat.leb_le. lia.
  - rewrite !Nat.leb_le. lia.
  - rewrite !Nat.leb_le. lia.
Qed.

Lemma logcorr_compact U' :
  l_list U' = filter (keep lt rt (l_list Uo)) (l_list U) -> LogCorr L Lo U' Ft' Fo'.
Proof.
  intros EL. split.
  - rewrite EL, (map_filter_on idx _ (present L Lo Ft' Fo')) by (intros; apply keep_is_present; assumption).
    eapply Permutation_trans; [apply perm_filter, (lc_perm _ _ _ _ _ LC)|].
    rewrite filter_filter.
    rewrite (filter_ext_in (fun x => present L Lo Ft Fo x && present L Lo Ft' Fo' x) (present L Lo Ft' Fo'));
      [apply Permutation_refl|].
    intros i IN. apply in_seq in IN.
    destruct (present L Lo Ft' Fo' i) eqn:P'; [|apply andb_false_r].
    rewrite (present_mono i) by (auto; lia). reflexivity.
  - rewrite EL, filter_filter_comm. apply inc_map_filter_e, (lc_fee _ _ _ _ _ LC).
  - intros e IN. rewrite EL in IN. apply filter_In in IN. apply (lc_ent _ _ _ _ _ LC), IN.
Qed.
End Compact.

(* ---------- S12: ReceiveRevocation ---------- *)
Lemma committed_nonadd w e : is_add e = false -> fee_eq e -> committed w e = rm_h w e.
Proof.
  unfold committed, is_add, is_remove, fee_eq, is_fee. intros NA FE.
  destruct (e_type e) eqn:T; try discriminate; try reflexivity.
  destruct (FE eq_refl) as [A B]. unfold add_h, rm_h. destruct w; auto.
Qed.

(* the eviction condition in terms of cuts: local tail height lt, height rt of the remote tip *)
Lemma compactable_iff e tIL pIL hTL hPL tIR pIR hTR hPR :
  is_add e = false ->
  in_range (rm_h true e) (e_log e) tIL pIL hTL hPL ->
  in_range (rm_h false e) (e_log e) tIR pIR hTR hPR ->
  (tIL <= pIL)%N -> (tIR <= pIR)%N -> (hTR <= hPR)%N ->
  (compactable hTL hPR e = true <-> (e_log e < tIL /\ e_log e < pIR)%N).
Proof.
  intros NA RL RR H1 H2 H3. unfold compactable. rewrite NA. cbn [negb andb].
  unfold rm_h in RL, RR. unfold in_range in *.
  rewrite !andb_true_iff, negb_true_iff, orb_false_iff, !N.eqb_neq, !N.leb_le. lia.
Qed.

Section RecvRev.
Variables (c : cfg) (p : bool) (x : party) (y : vparty) (Fo Fp : nat).
Hypothesis CX : CorrX c p x y Fo Fp.

Theorem recv_rev_corrx x' :
  do_recv_rev x = (Ok, x') ->
  exists y' Fo' Fp', v_recv_rev p y = (Ok, y') /\ CorrX c p x' y' Fo' Fp'.
Proof.
  intros DR. pose proof (cx_corr _ _ _ _ _ _ CX) as CO.
  destruct (do_recv_rev_ok x x' DR) as [k [RT ->]].
  pose proof (idx_chain c p x y Fo Fp CO) as IC. rewrite RT in IC. cbn [tip_of] in IC.
  pose proof (co_rp _ _ _ _ _ _ CO) as RP. rewrite RT in RP.
  destruct (v_rtip y) as [k'|] eqn:VR; [|discriminate]. cbn in RP. injection RP as EK.
  pose proof (co_inv _ _ _ _ _ _ CO) as VI.
  pose proof (cx_tiph _ _ _ _ _ _ CX k' VR) as TH.
  set (lt := Z.to_N (c_h (vk (v_ltail y)))). set (rt := Z.to_N (c_h (vk (v_rtail y)) + 1)).
  assert (RTE : rt = hN k') by (unfold rt, hN; rewrite TH; reflexivity).
  set (Fo' := Nat.min (n_of p (lTail x)) (n_of p k)). set (Fp' := Nat.min (n_of (negb p) (lTail x)) (n_of (negb p) k)).
  (* the eviction condition on both logs *)
  pose proof (hN_tip_l _ _ VI) as HL. pose proof (hN_tip_r _ _ VI) as HR.
  assert (IXN : forall q kk, ix q kk = N.of_nat (n_of q (vk kk))) by reflexivity.
  assert (HCL : forall e, In e (l_list (vl y)) -> is_add e = false ->
                (compactable lt rt e = true <-> idx e < Fo')).
  { intros e IE NA. pose proof (cx_feel _ _ _ _ _ _ CX e IE) as FE.
    pose proof (vi_ownL _ _ VI e IE) as RL. pose proof (vi_ownR _ _ VI e IE) as RR.
    rewrite (committed_nonadd _ _ NA FE) in RL. rewrite (committed_nonadd _ _ NA FE) in RR.
    pose proof (vi_own _ _ VI) as OW. unfold rtipv, ltipv, vtip in RL, RR, OW, HL, HR. rewrite VR in *.
    rewrite RTE. change lt with (hN (v_ltail y)).
    rewrite (compactable_iff e _ _ _ _ _ _ _ _ NA RL RR) by lia.
    rewrite !IXN, (co_lt _ _ _ _ _ _ CO), EK. unfold Fo', idx. lia. }
  assert (HCR : forall e, In e (l_list (vr y)) -> is_add e = false ->
                (compactable lt rt e = true <-> idx e < Fp')).
  { intros e IE NA. pose proof (cx_feer _ _ _ _ _ _ CX e IE) as FE.
    pose proof (vi_peerL _ _ VI e IE) as RL. pose proof (vi_peerR _ _ VI e IE) as RR.
    rewrite (committed_nonadd _ _ NA FE) in RL. rewrite (committed_nonadd _ _ NA FE) in RR.
    pose proof (vi_peer _ _ VI) as OW. unfold rtipv, ltipv, vtip in RL, RR, OW, HL, HR. rewrite VR in *.
    rewrite RTE. change lt with (hN (v_ltail y)).
    rewrite (compactable_iff e _ _ _ _ _ _ _ _ NA RL RR) by lia.
    rewrite !IXN, (co_lt _ _ _ _ _ _ CO), EK. unfold Fp', idx. lia. }
  pose proof (co_lo _ _ _ _ _ _ CO) as LCO. pose proof (co_lpe _ _ _ _ _ _ CO) as LCP.
  destruct (compactLogs (vl y) (vr y) lt rt) as [l' r'] eqn:CL.
  destruct (compactLogs_exact (vl y) (vr y) lt rt l' r'
              (lc_nodup_list _ _ _ _ _ LCO) (lc_uq_log _ _ _ _ _ LCO) (lc_uq_htlc _ _ _ _ _ LCO)
              (lc_nodup_list _ _ _ _ _ LCP) (lc_uq_log _ _ _ _ _ LCP) (lc_uq_htlc _ _ _ _ _ LCP) CL)
    as [EL [ER [I1 [H1 [I2 [H2 [M1 M2]]]]]]].
  pose proof (co_fo _ _ _ _ _ _ CO) as FO. pose proof (co_fp _ _ _ _ _ _ CO) as FP.
  assert (LCO' : LogCorr (own x) (peer x) l' Fo' Fp').
  { apply (logcorr_compact (own x) (peer x) (vl y) (vr y) Fo Fp Fo' Fp' lt rt LCO LCP); auto.
    unfold Fo', Fp'. lia. }
  assert (LCP' : LogCorr (peer x) (own x) r' Fp' Fo').
  { apply (logcorr_compact (peer x) (own x) (vr y) (vl y) Fp Fo Fp' Fo' lt rt LCP LCO); auto.
    unfold Fo', Fp'. lia. }
  assert (VS : v_recv_rev p y = (Ok, mkVP l' r' (v_ltail y) (v_ltip y) k' None []
                 (filter (fun u => negb (fst u <? idx_of (negb p) (vk k'))%N) (d_unsigned_acked y))
                 (unsignedLocalUpdates (vl y) (idx_of p (vk k')) (idx_of p (vk (v_ltail y)))))).
  { unfold v_recv_rev. rewrite VR. fold lt. fold rt. rewrite CL. reflexivity. }
  eexists _, Fo', Fp'. split; [exact VS|].
  pose proof (v_recv_rev_inv p y _ VS VI) as VI'.
  assert (SUBL : forall e, In e (l_list l') -> In e (l_list (vl y))) by (intros e IN; rewrite EL in IN; apply filter_In in IN; tauto).
  assert (SUBR : forall e, In e (l_list r') -> In e (l_list (vr y))) by (intros e IN; rewrite ER in IN; apply filter_In in IN; tauto).
  constructor.
  - constructor; cbn [recv_rev own peer lTail lTip rTail rTip vl vr v_ltail v_ltip v_rtail v_rtip option_map].
    + apply CO.
    + apply CO.
    + exact EK.
    + reflexivity.
    + rewrite I1. apply CO.
    + rewrite I2. apply CO.
    + exact LCO'.
    + exact LCP'.
    + exact VI'.
    + unfold Fo'. lia.
    + unfold Fp'. lia.
    + intros k1 IN. unfold good_local, logA_of, logB_of. cbn [own peer]. apply (co_good _ _ _ _ _ _ CO k1).
      unfold commits_of in *. cbn [lTail lTip rTail rTip] in IN. rewrite RT. cbn in IN |- *.
      destruct (lTip x); cbn in IN |- *; intuition auto.
    + intros j IN. destruct (co_pfo _ _ _ _ _ _ CO j IN) as [a [AP [L1 L2]]]. exists a. repeat split; auto; lia.
    + intros j IN. destruct (co_pfp _ _ _ _ _ _ CO j IN) as [a [AP [L1 L2]]]. exists a. repeat split; auto; lia.
    + apply CO.
    + apply CO.
  - cbn [recv_rev own vl]. rewrite H1. apply CX.
  - cbn [recv_rev peer vr]. rewrite H2. apply CX.
  - cbn [recv_rev own vr]. intros i M. apply (cx_modr _ _ _ _ _ _ CX), M2, M.
  - cbn [recv_rev peer vl]. intros i M. apply (cx_modl _ _ _ _ _ _ CX), M1, M.
  - cbn [vl]. intros e IN. apply (cx_feel _ _ _ _ _ _ CX), SUBL, IN.
  - cbn [vr]. intros e IN. apply (cx_feer _ _ _ _ _ _ CX), SUBR, IN.
  - cbn [v_rtip]. discriminate.
Qed.
End RecvRev.

(* ---------- S13: what the two-party invariant of Proofs.v says about a DELIVERED settle / fail ---------- *)
Lemma nodup_app_disj {A} (a b : list A) x : NoDup (a ++ b) -> In x b -> ~ In x a.
Proof.
  induction a as [|y a IH]; cbn; intros ND IB; [tauto|]. inversion ND as [|? ? NI ND']; subst.
  intros [->|IA]; [apply NI, in_or_app; now right|]. exact (IH ND' IB IA).
Qed.

Lemma head_parent u r i : u = USettle i \/ u = UFail i -> In i (parents (u :: r)).
Proof. intros [->| ->]; unfold parents; cbn; now left. Qed.

Lemma delivered_removal c s p u q i ySender Fo Fp :
  Inv c s -> CorrX c (negb p) (get s (negb p)) ySender Fo Fp ->
  outq s (negb p) = MUpd u :: q -> (u = USettle i \/ u = UFail i) ->
  exists a, add_pos (own (get s p)) i = Some a /\ a < n_of p (lTail (get s p)) /\
            a < n_of p (rTail (get s p)) /\ ~ In i (parents (peer (get s p))).
Proof.
  intros I CXS Q HU. destruct (inv_get c s I p) as [DHS DSH]. rewrite Q in DHS, DSH.
  set (xH := get s p) in *. set (xS := get s (negb p)) in *.
  assert (IN1 : In i (parents (peer xH ++ upto_rev (MUpd u :: q)))).
  { cbn [upto_rev]. rewrite parents_app. apply in_or_app. right. apply head_parent, HU. }
  destruct (i_wb _ _ _ _ _ _ _ DSH i IN1) as [a [AP LR]].
  pose proof (i_j1 _ _ _ _ _ _ _ DSH) as J1. pose proof (i_nd _ _ _ _ _ _ _ DSH) as ND.
  rewrite <- J1, parents_replay in ND. cbn [upds_in] in ND. rewrite parents_app in ND.
  assert (INS : In i (parents (own xS))).
  { rewrite <- J1, parents_replay. cbn [upds_in]. rewrite parents_app. apply in_or_app. right.
    apply head_parent, HU. }
  assert (NIP : ~ In i (parents (peer xH))).
  { eapply nodup_app_disj; [exact ND|]. apply head_parent, HU. }
  pose proof (cx_corr _ _ _ _ _ _ CXS) as COS.
  destruct (co_pfo _ _ _ _ _ _ COS i INS) as [a' [AP' [L1 L2]]]. rewrite negb_involutive in L1, L2.
  pose proof (i_j1 _ _ _ _ _ _ _ DHS) as J2.
  pose proof (add_pos_replay p (outq s p) (peer xS) (hb p xS) i a' AP') as AP2. rewrite J2 in AP2.
  fold xH in AP2. rewrite AP in AP2. injection AP2 as <-.
  exists a. split; [exact AP|]. split; [|split; [exact LR|exact NIP]].
  pose proof (idx_chain _ _ _ _ _ _ COS) as IC. rewrite negb_involutive in IC. fold xS in IC.
  destruct (i_ph _ _ _ _ _ _ _ DSH) as [R0 _ _ _ E|k R0 _ _ _ _ E|k R0 _ _ _ _ E _|k R0 _ _ _ E _ _].
  - rewrite <- E. exact L2.
  - rewrite <- E. exact L2.
  - rewrite <- E. exact L2.
  - rewrite E. rewrite R0 in IC. cbn [tip_of] in IC. lia.
Qed.

(* ---------- S14: the two-party simulation and THE REFINEMENT THEOREM ---------- *)
Definition fee_src (c : cfg) (s : sys) : Prop :=
  forall p r, In (MUpd (UFee r)) (outq s p) -> p = opener c.

Record Sim (c : cfg) (s : sys) (v : vsys) : Prop := mkSim {
  sm_inv : Inv c s;
  sm_fee : fee_src c s;
  sm_q : forall p, voutq v p = outq s p;
  sm_p : forall p, exists Fo Fp, CorrX c p (get s p) (vget v p) Fo Fp
}.

(* get / set algebra *)
Lemma get_set s p x : get (set s p x) p = x. Proof. destruct p; reflexivity. Qed.
Lemma get_set_o s p x : get (set s p x) (negb p) = get s (negb p). Proof. destruct p; reflexivity. Qed.
Lemma outq_set s p x q : outq (set s p x) q = outq s q. Proof. destruct p, q; reflexivity. Qed.
Lemma get_setq s p q p' : get (set_outq s p q) p' = get s p'. Proof. destruct p, p'; reflexivity. Qed.
Lemma outq_setq s p q : outq (set_outq s p q) p = q. Proof. destruct p; reflexivity. Qed.
Lemma outq_setq_o s p q : outq (set_outq s p q) (negb p) = outq s (negb p). Proof. destruct p; reflexivity. Qed.
Lemma vget_set s p x : vget (vset s p x) p = x. Proof. destruct p; reflexivity. Qed.
Lemma vget_set_o s p x : vget (vset s p x) (negb p) = vget s (negb p). Proof. destruct p; reflexivity. Qed.
Lemma voutq_set s p x q : voutq (vset s p x) q = voutq s q. Proof. destruct p, q; reflexivity. Qed.
Lemma vget_setq s p q p' : vget (vset_outq s p q) p' = vget s p'. Proof. destruct p, p'; reflexivity. Qed.
Lemma voutq_setq s p q : voutq (vset_outq s p q) p = q. Proof. destruct p; reflexivity. Qed.
Lemma voutq_setq_o s p q : voutq (vset_outq s p q) (negb p) = voutq s (negb p). Proof. destruct p; reflexivity. Qed.
Lemma vget_lwr s p b p' : vget (vset_lwr s p b) p' = vget s p'. Proof. destruct p, p'; reflexivity. Qed.
Lemma voutq_lwr s p b p' : voutq (vset_lwr s p b) p' = voutq s p'. Proof. destruct p, p'; reflexivity. Qed.

Lemma outq_setq_o' s p q : outq (set_outq s (negb p) q) p = outq s p. Proof. destruct p; reflexivity. Qed.
Lemma voutq_setq_o' s p q : voutq (vset_outq s (negb p) q) p = voutq s p. Proof. destruct p; reflexivity. Qed.
Lemma bool_cases (p0 p : bool) : p = p0 \/ p = negb p0.
Proof. destruct p0, p; auto. Qed.

Lemma sim_update c s v s' v' p0 :
  Sim c s v -> Inv c s' -> fee_src c s' ->
  (forall p, voutq v' p = outq s' p) ->
  (exists Fo Fp, CorrX c p0 (get s' p0) (vget v' p0) Fo Fp) ->
  get s' (negb p0) = get s (negb p0) -> vget v' (negb p0) = vget v (negb p0) -> Sim c s' v'.
Proof.
  intros SM I F Q CX G1 G2. constructor; auto.
  intros p. destruct (bool_cases p0 p) as [->| ->]; [exact CX|]. rewrite G1, G2. apply (sm_p _ _ _ SM).
Qed.

(* queues after a send / a delivery *)
Lemma q_after_push c s v p (x' : party) (y' : vparty) m : Sim c s v ->
  forall p', voutq (vset_outq (vset v p y') p (voutq v p ++ [m])) p' =
             outq (set_outq (set s p x') p (outq s p ++ [m])) p'.
Proof.
  intros SM p'. destruct (bool_cases p p') as [->| ->].
  - rewrite voutq_setq, outq_setq, (sm_q _ _ _ SM). reflexivity.
  - rewrite voutq_setq_o, outq_setq_o, voutq_set, outq_set. apply (sm_q _ _ _ SM).
Qed.
Lemma q_after_pop c s v p (x' : party) (y' : vparty) q : Sim c s v -> voutq v (negb p) = q ++ [] \/ True ->
  forall p', (voutq v (negb p) = outq s (negb p)) ->
             voutq (vset_outq (vset v p y') (negb p) q) p' = outq (set_outq (set s p x') (negb p) q) p'.
Proof.
  intros SM _ p' _. destruct (bool_cases p p') as [->| ->].
  - rewrite voutq_setq_o', outq_setq_o', voutq_set, outq_set. apply (sm_q _ _ _ SM).
  - rewrite voutq_setq, outq_setq. reflexivity.
Qed.

Lemma fee_src_push c s p x' m :
  fee_src c s -> (forall r, m = MUpd (UFee r) -> p = opener c) ->
  fee_src c (set_outq (set s p x') p (outq s p ++ [m])).
Proof.
  intros F HM p' r IN. destruct (bool_cases p p') as [->| ->].
  - rewrite outq_setq in IN. apply in_app_or in IN. destruct IN as [IN|[E|[]]]; [apply (F _ r IN)|].
    apply (HM r). auto.
  - rewrite outq_setq_o, outq_set in IN. apply (F _ r IN).
Qed.
Lemma fee_src_pop c s p x' m q :
  fee_src c s -> outq s (negb p) = m :: q -> fee_src c (set_outq (set s p x') (negb p) q).
Proof.
  intros F Q p' r IN. destruct (bool_cases p p') as [->| ->].
  - rewrite outq_setq_o', outq_set in IN. apply (F _ r IN).
  - rewrite outq_setq in IN. apply (F (negb p) r). rewrite Q. now right.
Qed.

Theorem sim_step c s v o s' :
  Sim c s v -> step c s (erase o) = (Ok, s') ->
  exists v', vstep c v o = (Ok, v') /\ Sim c s' v'.
Proof.
  intros SM ST.
  assert (I' : Inv c s').
  { replace s' with (snd (step c s (erase o))) by (rewrite ST; reflexivity). apply inv_step, SM. }
  assert (SEND : forall p u mal, step c s (OSend p u) = (Ok, s') ->
            exists v', (match v_send c p (vget v p) u mal with
                        | Some x' => (Ok, vset_outq (vset v p x') p (voutq v p ++ [MUpd u]))
                        | None => (ErrDisabled, v) end) = (Ok, v') /\ Sim c s' v').
  { intros p u mal H. cbn [step] in H. destruct (upd_enabled c p (get s p) u) eqn:EN; [|discriminate].
    injection H as <-. destruct (sm_p _ _ _ SM p) as [Fo [Fp CX]].
    destruct (send_corrx c p _ _ Fo Fp CX u mal EN) as [y' [VS CX']]. rewrite VS.
    eexists. split; [reflexivity|].
    eapply (sim_update c s v _ _ p SM I').
    - apply fee_src_push; [apply SM|]. intros r E. injection E as ->. cbn [upd_enabled] in EN.
      apply andb_true_iff in EN. destruct EN as [EN _]. apply eqb_prop in EN. exact EN.
    - apply (q_after_push c s v p _ _ _ SM).
    - exists Fo, Fp. rewrite get_setq, get_set, vget_setq, vget_set. exact CX'.
    - rewrite get_setq, get_set_o. reflexivity.
    - rewrite vget_setq, vget_set_o. reflexivity. }
  destruct o as [[p u|p|p|p]|p i]; cbn [erase] in ST; cbn [vstep].
  - apply SEND, ST.
  - (* sign *)
    cbn [step] in ST. destruct (do_sign c p (get s p)) as [[r x'] om] eqn:DS.
    assert (r = Ok /\ exists m, om = Some m /\ s' = set_outq (set s p x') p (outq s p ++ [m])).
    { unfold do_sign in DS. destruct (rTip (get s p)); [injection DS as <- <- <-; discriminate|].
      cbv zeta in DS. destruct (commit_of _ _ _ _ _ _ _); injection DS as <- <- <-; [|discriminate].
      injection ST as <-. eauto. }
    destruct H as [-> [m [-> ->]]].
    destruct (sm_p _ _ _ SM p) as [Fo [Fp CX]].
    destruct (sign_corrx c p _ _ Fo Fp CX x' m DS) as [y' [VS CX']]. rewrite VS.
    eexists. split; [reflexivity|].
    eapply (sim_update c s v _ _ p SM I').
    + apply fee_src_push; [apply SM|]. intros r E. exfalso.
      destruct (do_sign_ok c p _ _ _ DS) as [k [_ [_ [_ EM]]]]. congruence.
    + intros p'. rewrite voutq_lwr. apply (q_after_push c s v p _ _ _ SM).
    + exists Fo, Fp. rewrite get_setq, get_set, vget_lwr, vget_setq, vget_set. exact CX'.
    + rewrite get_setq, get_set_o. reflexivity.
    + rewrite vget_lwr, vget_setq, vget_set_o. reflexivity.
  - (* revoke *)
    cbn [step] in ST. destruct (do_revoke (get s p)) as [[r x'] om] eqn:DS.
    assert (r = Ok /\ exists m, om = Some m /\ s' = set_outq (set s p x') p (outq s p ++ [m])).
    { unfold do_revoke in DS. destruct (lTip (get s p)); injection DS as <- <- <-; [|discriminate].
      injection ST as <-. eauto. }
    destruct H as [-> [m [-> ->]]].
    destruct (sm_p _ _ _ SM p) as [Fo [Fp CX]].
    destruct (revoke_corrx c p _ _ Fo Fp CX x' m DS) as [y' [VS CX']]. rewrite VS.
    eexists. split; [reflexivity|].
    eapply (sim_update c s v _ _ p SM I').
    + apply fee_src_push; [apply SM|]. intros r E. exfalso.
      destruct (do_revoke_ok _ _ _ DS) as [k [_ [_ EM]]]. congruence.
    + intros p'. rewrite voutq_lwr. apply (q_after_push c s v p _ _ _ SM).
    + exists Fo, Fp. rewrite get_setq, get_set, vget_lwr, vget_setq, vget_set. exact CX'.
    + rewrite get_setq, get_set_o. reflexivity.
    + rewrite vget_lwr, vget_setq, vget_set_o. reflexivity.
  - (* deliver *)
    cbn [step] in ST. rewrite (sm_q _ _ _ SM (negb p)).
    destruct (outq s (negb p)) as [|m q] eqn:Q; [discriminate|].
    destruct (sm_p _ _ _ SM p) as [Fo [Fp CX]].
    destruct m as [u|k|].
    + injection ST as <-.
      destruct (sm_p _ _ _ SM (negb p)) as [FoS [FpS CXS]].
      destruct (recv_upd_corrx c p _ _ Fo Fp CX u) as [y' [VS CX']].
      { intros i HU. eapply (delivered_removal c s p u q i); eauto. apply SM. }
      { intros r ->. assert (negb p = opener c) by (apply (sm_fee _ _ _ SM (negb p) r); rewrite Q; now left).
        destruct p, (opener c); try discriminate; reflexivity. }
      rewrite VS. eexists. split; [reflexivity|].
      eapply (sim_update c s v _ _ p SM I').
      * eapply fee_src_pop; [apply SM|exact Q].
      * intros p'. apply (q_after_pop c s v p _ _ q SM); auto. apply SM.
      * exists Fo, Fp. rewrite get_setq, get_set, vget_setq, vget_set. exact CX'.
      * rewrite get_setq, get_set_o. reflexivity.
      * rewrite vget_setq, vget_set_o. reflexivity.
    + destruct (do_recv_sig c p (get s p) k) as [r x'] eqn:DS.
      assert (r = Ok /\ s' = set_outq (set s p x') (negb p) q).
      { destruct r; try discriminate. injection ST as <-. auto. }
      destruct H as [-> ->].
      destruct (recv_sig_corrx c p _ _ Fo Fp CX k x' DS) as [y' [VS CX']]. rewrite VS.
      eexists. split; [reflexivity|].
      eapply (sim_update c s v _ _ p SM I').
      * eapply fee_src_pop; [apply SM|exact Q].
      * intros p'. apply (q_after_pop c s v p _ _ q SM); auto. apply SM.
      * exists Fo, Fp. rewrite get_setq, get_set, vget_setq, vget_set. exact CX'.
      * rewrite get_setq, get_set_o. reflexivity.
      * rewrite vget_setq, vget_set_o. reflexivity.
    + destruct (do_recv_rev (get s p)) as [r x'] eqn:DS.
      assert (r = Ok /\ s' = set_outq (set s p x') (negb p) q).
      { destruct r; try discriminate. injection ST as <-. auto. }
      destruct H as [-> ->].
      destruct (recv_rev_corrx c p _ _ Fo Fp CX x' DS) as [y' [Fo' [Fp' [VS CX']]]]. rewrite VS.
      eexists. split; [reflexivity|].
      eapply (sim_update c s v _ _ p SM I').
      * eapply fee_src_pop; [apply SM|exact Q].
      * intros p'. apply (q_after_pop c s v p _ _ q SM); auto. apply SM.
      * exists Fo', Fp'. rewrite get_setq, get_set, vget_setq, vget_set. exact CX'.
      * rewrite get_setq, get_set_o. reflexivity.
      * rewrite vget_setq, vget_set_o. reflexivity.
  - apply (SEND p (UFail i) true), ST.
Qed.

(* ---------- S15: every schedule ---------- *)
Lemma step_err_same c s o r s' : step c s o = (r, s') -> r <> Ok -> s' = s.
Proof.
  intros ST NE. destruct o as [p u|p|p|p]; cbn [step] in ST.
  - destruct (upd_enabled _ _ _ _); injection ST as <- <-; [tauto|reflexivity].
  - destruct (do_sign c p (get s p)) as [[r0 x'] [m|]]; destruct r0; injection ST as <- <-; tauto || reflexivity.
  - destruct (do_revoke (get s p)) as [[r0 x'] [m|]]; destruct r0; injection ST as <- <-; tauto || reflexivity.
  - destruct (outq s (negb p)) as [|m q]; [injection ST as <- <-; reflexivity|].
    destruct m as [u|k|].
    + injection ST as <- <-. tauto.
    + destruct (do_recv_sig c p (get s p) k) as [r0 x']; destruct r0; injection ST as <- <-; tauto || reflexivity.
    + destruct (do_recv_rev (get s p)) as [r0 x']; destruct r0; injection ST as <- <-; tauto || reflexivity.
Qed.

Lemma sim_init c s0 v0 : init_sys c = Some s0 -> vinit c = Some v0 -> Sim c s0 v0.
Proof.
  intros HS HV. pose proof (inv_init c s0 HS) as I.
  unfold init_sys in HS. unfold vinit in HV.
  destruct (init_party c true) as [a|] eqn:A; [|discriminate].
  destruct (init_party c false) as [b|] eqn:B; [|discriminate].
  destruct (vinit_party c true) as [ya|] eqn:YA; [|discriminate].
  destruct (vinit_party c false) as [yb|] eqn:YB; [|discriminate].
  injection HS as <-. injection HV as <-. constructor.
  - exact I.
  - intros p r IN. destruct p; destruct IN.
  - intros p. destruct p; reflexivity.
  - intros p. exists 0, 0. destruct p; cbn; apply corrx_init; assumption.
Qed.

Lemma run_along_sim c : forall ops s v, Sim c s v ->
  Sim c (fst (run_along c s v ops)) (snd (run_along c s v ops)) /\
  fst (run_along c s v ops) = run c s (map erase ops).
Proof.
  induction ops as [|o r IH]; intros s v SM; [split; [exact SM|reflexivity]|].
  cbn [run_along map]. unfold run. cbn [fold_left]. fold (run c (snd (step c s (erase o))) (map erase r)).
  destruct (step c s (erase o)) as [rs s'] eqn:ST. cbn [snd].
  destruct rs.
  1:{ destruct (sim_step c s v o s' SM ST) as [v' [VS SM']]. rewrite VS. cbn [snd]. apply IH, SM'. }
  all: assert (s' = s) by (eapply step_err_same; [exact ST|discriminate]); subst s'; apply IH, SM.
Qed.

(* THE REFINEMENT THEOREM *)
Theorem view_refines_model c s0 v0 vops :
  init_sys c = Some s0 -> vinit c = Some v0 ->
  let (s, v) := run_along c s0 v0 vops in
  s = run c s0 (map erase vops) /\
  (forall p, commits_view (vget v p) =
             (lTail (get s p), lTip (get s p), rTail (get s p), rTip (get s p))) /\
  vqAB v = qAB s /\ vqBA v = qBA s /\
  (forall p, l_idx (vl (vget v p)) = N.of_nat (length (own (get s p))) /\
             l_idx (vr (vget v p)) = N.of_nat (length (peer (get s p)))).
Proof.
  intros HS HV. destruct (run_along_sim c vops s0 v0 (sim_init c s0 v0 HS HV)) as [SM ER].
  destruct (run_along c s0 v0 vops) as [s v]. cbn [fst snd] in *.
  split; [exact ER|]. split; [|split; [apply (sm_q _ _ _ SM true)|split; [apply (sm_q _ _ _ SM false)|]]].
  - intros p. destruct (sm_p _ _ _ SM p) as [Fo [Fp CX]]. pose proof (cx_corr _ _ _ _ _ _ CX) as CO.
    unfold commits_view. rewrite (co_lt _ _ _ _ _ _ CO), (co_lp _ _ _ _ _ _ CO), (co_rt _ _ _ _ _ _ CO),
      (co_rp _ _ _ _ _ _ CO). reflexivity.
  - intros p. destruct (sm_p _ _ _ SM p) as [Fo [Fp CX]]. pose proof (cx_corr _ _ _ _ _ _ CX) as CO.
    split; apply CO.
Qed.

(* ... and every op the cut-level model accepts is accepted (Ok) by the incremental machine *)
Theorem view_accepts c s0 v0 vops o s' :
  init_sys c = Some s0 -> vinit c = Some v0 ->
  step c (fst (run_along c s0 v0 vops)) (erase o) = (Ok, s') ->
  fst (vstep c (snd (run_along c s0 v0 vops)) o) = Ok.
Proof.
  intros HS HV ST. destruct (run_along_sim c vops s0 v0 (sim_init c s0 v0 HS HV)) as [SM _].
  destruct (sim_step c _ _ o s' SM ST) as [v' [VS _]]. rewrite VS. reflexivity.
Qed.

(* ---------- S16: the C01 theorems transfer to the incremental machine ---------- *)
Definition vcommits_of (y : vparty) : list commit :=
  vk (v_ltail y) :: vk (v_rtail y) :: (match v_ltip y with Some k => [vk k] | None => [] end)
  ++ (match v_rtip y with Some k => [vk k] | None => [] end).

Theorem view_conservation c s0 v0 vops :
  cfg_ok c -> init_sys c = Some s0 -> vinit c = Some v0 ->
  forall p k, In k (vcommits_of (vget (snd (run_along c s0 v0 vops)) p)) -> conserved c k.
Proof.
  intros OK HS HV p k IN. pose proof (view_refines_model c s0 v0 vops HS HV) as R.
  destruct (run_along c s0 v0 vops) as [s v]. cbn [snd] in IN. destruct R as [ER [CV _]].
  apply (reach_conservation c s OK) with (p := p).
  - exists s0, (map erase vops). auto.
  - specialize (CV p). unfold commits_view in CV. injection CV as E1 E2 E3 E4.
    unfold vcommits_of in IN. unfold commits_of. rewrite <- E1, <- E2, <- E3, <- E4.
    destruct (v_ltip (vget v p)), (v_rtip (vget v p)); cbn in IN |- *; exact IN.
Qed.

(* a commit_sig produced by the incremental machine is always accepted by the incremental peer *)
Theorem view_agreement c s0 v0 vops p k q :
  cfg_ok c -> init_sys c = Some s0 -> vinit c = Some v0 ->
  voutq (snd (run_along c s0 v0 vops)) (negb p) = MSig k :: q ->
  fst (vstep c (snd (run_along c s0 v0 vops)) (VOp (ODeliver p))) = Ok.
Proof.
  intros OK HS HV Q. pose proof (view_refines_model c s0 v0 vops HS HV) as R.
  destruct (run_along c s0 v0 vops) as [s v] eqn:RA. cbn [snd] in *. destruct R as [ER [_ [QA [QB _]]]].
  assert (QS : outq s (negb p) = MSig k :: q).
  { rewrite <- Q. destruct p; cbn; congruence. }
  assert (RE : reachable c s) by (exists s0, (map erase vops); auto).
  pose proof (reach_agreement c s OK RE p k q QS) as AG.
  destruct (step c s (ODeliver p)) as [r s'] eqn:ST. cbn [fst] in AG. subst r.
  pose proof (view_accepts c s0 v0 vops (VOp (ODeliver p)) s' HS HV) as VA. rewrite RA in VA.
  apply VA. exact ST.
Qed.

