(* Proofs about the channel state-machine model (Channel/Model.v).
   Part A: list algebra of cuts; conservation and the balance formula for ANY
           cut (no reachability): [commit_of_conserved], [commit_of_balance].
   Part B: commit_of only reads prefixes; well-formedness of a cut
           ([commit_wf]); [commit_of_none_wf].
   Part C: queues, the two-party invariant [Inv] (one [InvDir] per direction),
           [inv_init], one preservation lemma per op, [inv_step], [inv_run].
   Part D: the theorems derived from [Inv] (agreement, mirror, window, wf). *)
From Coq Require Import List ZArith Bool Arith Lia.
From Coq Require Import ZifyBool ZifyNat.
From LV Require Import Channel.Model.
Import ListNotations.
Local Open Scope Z_scope.

Ltac Zify.zify_post_hook ::= Z.div_mod_to_equations.

(* ------------------------------------------------------------------ *)
(* Part A: list algebra                                                *)

Definition upd_nonneg (u : upd) : Prop :=
  match u with UAdd a _ _ => 0 <= a | _ => True end.
Definition amounts_nonneg (l : list upd) : Prop := Forall upd_nonneg l.

Definition parents (l : list upd) : list nat := map fst (removes_of l).

Lemma adds_from_ge l : forall i x, In x (adds_from l i) -> (i <= a_idx x)%nat.
Proof.
  induction l as [|u l IH]; intros i x HI; cbn in HI; [contradiction|].
  destruct u; try (apply IH; exact HI).
  destruct HI as [<-|HI]; cbn; [lia|]. apply IH in HI. lia.
Qed.

Lemma adds_from_nodup l : forall i, NoDup (map a_idx (adds_from l i)).
Proof.
  induction l as [|u l IH]; intros i; cbn; [constructor|].
  destruct u; try apply IH.
  cbn. constructor; [|apply IH].
  intros HI. apply in_map_iff in HI. destruct HI as [x [E HI]].
  apply adds_from_ge in HI. lia.
Qed.

Lemma adds_from_amt_nonneg l : amounts_nonneg l ->
  forall i x, In x (adds_from l i) -> 0 <= a_amt x.
Proof.
  induction 1 as [|u l Hu Hl IH]; intros i x HI; cbn in HI; [contradiction|].
  destruct u; try (eapply IH; exact HI).
  destruct HI as [<-|HI]; cbn; [exact Hu|]. eapply IH; exact HI.
Qed.

Lemma in_firstn {A} n : forall (l : list A) x, In x (firstn n l) -> In x l.
Proof.
  induction n as [|n IH]; intros [|y l] x HI; cbn in HI; try contradiction.
  destruct HI as [E|HI]; [left; exact E|right; apply IH; exact HI].
Qed.

Lemma amounts_nonneg_firstn n l : amounts_nonneg l -> amounts_nonneg (firstn n l).
Proof.
  intros HA. unfold amounts_nonneg in *. rewrite Forall_forall in *.
  intros u HI. apply HA. apply in_firstn in HI. exact HI.
Qed.

Lemma filter_ne_notin L p :
  ~ In p (map a_idx L) ->
  filter (fun x => negb (Nat.eqb p (a_idx x))) L = L.
Proof.
  induction L as [|x L IH]; intros HN; cbn; [reflexivity|].
  cbn in HN.
  destruct (Nat.eqb_spec p (a_idx x)) as [E|E]; cbn.
  - exfalso. apply HN. left. congruence.
  - f_equal. apply IH. intros HI. apply HN. right. exact HI.
Qed.

Lemma sum_adds_cons x L : sum_adds (x :: L) = a_amt x + sum_adds L.
Proof. reflexivity. Qed.

Lemma sum_filter_ne L p a :
  NoDup (map a_idx L) -> lookup_add L p = Some a ->
  sum_adds (filter (fun x => negb (Nat.eqb p (a_idx x))) L) = sum_adds L - a.
Proof.
  induction L as [|x L IH]; intros HND HL; [discriminate|].
  cbn [map] in HND. inversion HND as [|? ? HNI HND']; subst.
  cbn [lookup_add] in HL. cbn [filter]. rewrite sum_adds_cons.
  destruct (Nat.eqb_spec p (a_idx x)) as [E|E]; cbn [negb].
  - inversion HL; subst a. rewrite filter_ne_notin; [lia|]. rewrite E. exact HNI.
  - rewrite sum_adds_cons, IH by assumption. lia.
Qed.

Lemma lookup_filter L (f : addent -> bool) p :
  (forall x, In x L -> a_idx x = p -> f x = true) ->
  lookup_add (filter f L) p = lookup_add L p.
Proof.
  induction L as [|x L IH]; intros HF; cbn; [reflexivity|].
  destruct (Nat.eqb_spec p (a_idx x)) as [E|E].
  - rewrite HF by (auto using in_eq). cbn. rewrite E, Nat.eqb_refl. reflexivity.
  - destruct (f x); cbn.
    + destruct (Nat.eqb_spec p (a_idx x)); [contradiction|].
      apply IH. intros y HI. apply HF. right. exact HI.
    + apply IH. intros y HI. apply HF. right. exact HI.
Qed.

Lemma nodup_map_filter {A B} (g : A -> B) (f : A -> bool) L :
  NoDup (map g L) -> NoDup (map g (filter f L)).
Proof.
  induction L as [|x L IH]; intros HND; cbn; [constructor|].
  inversion HND as [|? ? HNI HND']; subst.
  destruct (f x); cbn; [|apply IH; exact HND'].
  constructor; [|apply IH; exact HND'].
  intros HI. apply HNI. apply in_map_iff in HI. destruct HI as [y [E HI]].
  apply filter_In in HI. apply in_map_iff. exists y. tauto.
Qed.

Lemma existsb_fst_map (rems : list (nat * bool)) i :
  existsb (fun r => Nat.eqb (fst r) i) rems = existsb (fun y => Nat.eqb y i) (map fst rems).
Proof. induction rems as [|r rems IH]; cbn; [reflexivity|]. rewrite IH. reflexivity. Qed.

Lemma existsb_eqb_false l p :
  existsb (Nat.eqb p) l = false -> ~ In p l.
Proof.
  intros HE HI. assert (existsb (Nat.eqb p) l = true); [|congruence].
  apply existsb_exists. exists p. split; [exact HI|apply Nat.eqb_refl].
Qed.

Lemma existsb_eqb_in l p :
  existsb (Nat.eqb p) l = true <-> In p l.
Proof.
  rewrite existsb_exists. split.
  - intros [y [HI E]]. apply Nat.eqb_eq in E. subst. exact HI.
  - intros HI. exists p. split; [exact HI|apply Nat.eqb_refl].
Qed.

Lemma live_adds_cons adds p s rems :
  live_adds adds ((p, s) :: rems) =
  filter (fun x => negb (Nat.eqb p (a_idx x))) (live_adds adds rems).
Proof.
  unfold live_adds. induction adds as [|x L IH]; cbn [filter]; [reflexivity|].
  rewrite IH. cbn [existsb fst].
  destruct (Nat.eqb p (a_idx x)) eqn:E; cbn [orb negb].
  - destruct (negb _); cbn [filter]; [rewrite E|]; reflexivity.
  - destruct (negb _); cbn [filter]; [rewrite E|]; reflexivity.
Qed.

Lemma live_adds_nil adds : live_adds adds [] = adds.
Proof.
  unfold live_adds. induction adds as [|x L IH]; cbn; [reflexivity|]. f_equal. exact IH.
Qed.

Lemma live_adds_nodup adds rems :
  NoDup (map a_idx adds) -> NoDup (map a_idx (live_adds adds rems)).
Proof. apply nodup_map_filter. Qed.

Lemma lookup_live adds rems p :
  ~ In p (map fst rems) -> lookup_add (live_adds adds rems) p = lookup_add adds p.
Proof.
  intros HN. apply lookup_filter. intros x _ E. subst p.
  rewrite existsb_fst_map.
  destruct (existsb _ _) eqn:HE; [|reflexivity].
  exfalso. apply HN. apply existsb_exists in HE. destruct HE as [y [HI E]].
  apply Nat.eqb_eq in E. subst. exact HI.
Qed.

(* the live HTLC pool of a cut: included adds minus the removed amounts *)
Lemma live_sum adds : NoDup (map a_idx adds) ->
  forall rems st fl, nodupb (map fst rems) = true ->
  removed_amounts adds rems = Some (st, fl) ->
  sum_adds (live_adds adds rems) = sum_adds adds - st - fl.
Proof.
  intros HND. induction rems as [|[p s] rems IH]; intros st fl HN HR.
  - cbn in HR. inversion HR; subst. rewrite live_adds_nil. lia.
  - cbn [removed_amounts] in HR. cbn [map fst nodupb] in HN.
    apply andb_true_iff in HN. destruct HN as [HN1 HN2].
    apply negb_true_iff in HN1. apply existsb_eqb_false in HN1.
    destruct (lookup_add adds p) as [a|] eqn:HL; [|discriminate].
    destruct (removed_amounts adds rems) as [[st' fl']|] eqn:HR'; [|discriminate].
    rewrite live_adds_cons.
    rewrite (sum_filter_ne _ p a).
    + rewrite (IH st' fl' HN2 eq_refl).
      destruct s; inversion HR; subst; lia.
    + apply live_adds_nodup. exact HND.
    + rewrite lookup_live by exact HN1. exact HL.
Qed.

Lemma sum_htlc_mk c o f r L : sum_htlc_msat (mk_htlcs c o f r L) = sum_adds L.
Proof.
  unfold sum_htlc_msat, mk_htlcs, sum_adds.
  induction L as [|x L IH]; cbn [map fold_right h_amt]; [reflexivity|]. rewrite IH. reflexivity.
Qed.

Lemma sum_htlc_app a b : sum_htlc_msat (a ++ b) = sum_htlc_msat a + sum_htlc_msat b.
Proof.
  unfold sum_htlc_msat. induction a as [|x a IH]; cbn [app fold_right]; [reflexivity|]. rewrite IH. lia.
Qed.

Definition htlcs_nonneg (hs : list htlc) : Prop := Forall (fun h => 0 <= h_amt h) hs.

Lemma sum_ontx_le hs : htlcs_nonneg hs -> 1000 * sum_ontx_sat hs <= sum_htlc_msat hs.
Proof.
  unfold sum_ontx_sat, sum_htlc_msat.
  induction 1 as [|h hs Hh Hhs IH]; cbn [fold_right]; [lia|].
  destruct (h_ontx h); lia.
Qed.

Lemma mk_htlcs_nonneg c o f r L :
  (forall x, In x L -> 0 <= a_amt x) -> htlcs_nonneg (mk_htlcs c o f r L).
Proof.
  intros HL. unfold htlcs_nonneg, mk_htlcs. rewrite Forall_forall. intros h HI.
  apply in_map_iff in HI. destruct HI as [x [<- HI]]. cbn. apply HL. exact HI.
Qed.

Lemma live_adds_in adds rems x : In x (live_adds adds rems) -> In x adds.
Proof. unfold live_adds. intros HI. apply filter_In in HI. tauto. Qed.

(* sat-level outputs of a descriptor, as computed inside [commit_of] *)
Definition outs_of (c : cfg) (owner : bool) (balA balB : Z) (hs : list htlc) : Z :=
  let n := count_ontx hs in
  let d := dust_sat (side c owner) in
  let own_sat := (if owner then balA else balB) / 1000 in
  let oth_sat := (if owner then balB else balA) / 1000 in
  let own_out := d <=? own_sat in
  let oth_out := d <=? oth_sat in
  let anc1 := anchors c && (own_out || (0 <? n)) in
  let anc2 := anchors c && (oth_out || (0 <? n)) in
  (if own_out then own_sat else 0) + (if oth_out then oth_sat else 0)
  + (if anc1 then anchor_size c else 0) + (if anc2 then anchor_size c else 0)
  + sum_ontx_sat hs.

Lemma outs_of_le c owner balA balB hs :
  0 <= balA -> 0 <= balB -> 0 <= anchor_size c -> htlcs_nonneg hs ->
  1000 * outs_of c owner balA balB hs
  <= balA + balB + (if anchors c then 2000 * anchor_size c else 0) + sum_htlc_msat hs.
Proof.
  intros HA HB HS HH. apply sum_ontx_le in HH. unfold outs_of. cbv zeta.
  destruct (anchors c); cbn [andb];
  destruct owner;
  repeat match goal with |- context [if ?b then _ else _] => destruct b end; lia.
Qed.

(* the gross (fee added back) balances, fee rate, HTLC list and fee of a cut *)
Definition cut_uA (lA : list upd) (nA : nat) := firstn nA lA.
Definition cut_gross (c : cfg) (lA lB : list upd) (nA nB : nat) : option (Z * Z) :=
  let uA := firstn nA lA in
  let uB := firstn nB lB in
  match removed_amounts (adds_of uA) (removes_of uB),
        removed_amounts (adds_of uB) (removes_of uA) with
  | Some (setA, failA), Some (setB, failB) =>
    Some (gross0A c - sum_adds (adds_of uA) + failA + setB,
          gross0B c - sum_adds (adds_of uB) + failB + setA)
  | _, _ => None
  end.
Definition cut_rate (c : cfg) (lA lB : list upd) (nA nB : nat) : Z :=
  last_fee (if opener c then firstn nA lA else firstn nB lB) (rate0 c).
Definition cut_htlcs (c : cfg) (owner : bool) (lA lB : list upd) (nA nB : nat) : list htlc :=
  let uA := firstn nA lA in
  let uB := firstn nB lB in
  let rate := cut_rate c lA lB nA nB in
  mk_htlcs c owner true rate (live_adds (adds_of uA) (removes_of uB)) ++
  mk_htlcs c owner false rate (live_adds (adds_of uB) (removes_of uA)).
Definition cut_fee (c : cfg) (owner : bool) (lA lB : list upd) (nA nB : nat) : Z :=
  fee_for_weight (cut_rate c lA lB nA nB)
    (commit_weight c + htlc_weight c * count_ontx (cut_htlcs c owner lA lB nA nB)).

(* well-formedness of a cut: every check of [commit_of] that is NOT about money *)
Definition commit_wf (lA lB : list upd) (nA nB : nat) : bool :=
  let uA := firstn nA lA in
  let uB := firstn nB lB in
  nodupb (parents uB) && nodupb (parents uA)
  && (match removed_amounts (adds_of uA) (removes_of uB) with Some _ => true | None => false end)
  && (match removed_amounts (adds_of uB) (removes_of uA) with Some _ => true | None => false end).

(* characterisation of a successful [commit_of] *)
Lemma commit_of_inv c o h lA lB nA nB k :
  commit_of c o h lA lB nA nB = Some k ->
  exists gA gB,
    commit_wf lA lB nA nB = true /\
    cut_gross c lA lB nA nB = Some (gA, gB) /\
    let fee := cut_fee c o lA lB nA nB in
    0 <= gA /\ 0 <= gB /\ fee * 1000 < (if opener c then gA else gB) /\
    c_owner k = o /\ c_h k = h /\ c_nA k = nA /\ c_nB k = nB /\
    c_balA k = (if opener c then gA - fee * 1000 else gA) /\
    c_balB k = (if opener c then gB else gB - fee * 1000) /\
    c_fee k = fee /\ c_rate k = cut_rate c lA lB nA nB /\
    c_htlcs k = cut_htlcs c o lA lB nA nB /\
    c_outs k = outs_of c o (c_balA k) (c_balB k) (c_htlcs k).
Proof.
  unfold commit_of, commit_wf, cut_gross, cut_fee, cut_htlcs, cut_rate, parents. cbv zeta.
  destruct (nodupb (map fst (removes_of (firstn nB lB)))); cbn [andb negb]; [|discriminate].
  destruct (nodupb (map fst (removes_of (firstn nA lA)))); cbn [andb negb]; [|discriminate].
  destruct (removed_amounts (adds_of (firstn nA lA)) (removes_of (firstn nB lB)))
    as [[setA failA]|]; [|discriminate].
  destruct (removed_amounts (adds_of (firstn nB lB)) (removes_of (firstn nA lA)))
    as [[setB failB]|]; [|discriminate].
  match goal with |- (if ?b then _ else _) = _ -> _ => destruct b eqn:HG end; [discriminate|].
  intros HK. inversion HK; subst k; clear HK. cbn [c_owner c_h c_nA c_nB c_balA c_balB c_fee c_rate c_htlcs c_outs].
  apply orb_false_iff in HG. destruct HG as [HG HF]. apply orb_false_iff in HG.
  destruct HG as [HGA HGB]. apply negb_false_iff in HF.
  eexists _, _. split; [reflexivity|]. split; [reflexivity|].
  repeat split; try reflexivity; lia.
Qed.

Lemma adds_of_nodup l : NoDup (map a_idx (adds_of l)).
Proof. apply adds_from_nodup. Qed.

Lemma cut_htlcs_sum c o lA lB nA nB gA gB :
  commit_wf lA lB nA nB = true ->
  cut_gross c lA lB nA nB = Some (gA, gB) ->
  gA + gB + sum_htlc_msat (cut_htlcs c o lA lB nA nB) = gross0A c + gross0B c.
Proof.
  unfold commit_wf, cut_gross, cut_htlcs, parents. cbv zeta. intros HW HG.
  destruct (removed_amounts (adds_of (firstn nA lA)) (removes_of (firstn nB lB)))
    as [[setA failA]|] eqn:HRA; [|discriminate].
  destruct (removed_amounts (adds_of (firstn nB lB)) (removes_of (firstn nA lA)))
    as [[setB failB]|] eqn:HRB; [|discriminate].
  rewrite !andb_true_r in HW. apply andb_true_iff in HW. destruct HW as [HNB HNA].
  inversion HG; subst; clear HG.
  rewrite sum_htlc_app, !sum_htlc_mk.
  rewrite (live_sum _ (adds_of_nodup _) _ _ _ HNB HRA).
  rewrite (live_sum _ (adds_of_nodup _) _ _ _ HNA HRB). lia.
Qed.

Lemma cut_htlcs_nonneg c o lA lB nA nB :
  amounts_nonneg lA -> amounts_nonneg lB -> htlcs_nonneg (cut_htlcs c o lA lB nA nB).
Proof.
  intros HA HB. unfold cut_htlcs. cbv zeta. apply Forall_app. split.
  - apply mk_htlcs_nonneg. intros x HI. apply live_adds_in in HI.
    eapply adds_from_amt_nonneg; [|exact HI]. apply amounts_nonneg_firstn. exact HA.
  - apply mk_htlcs_nonneg. intros x HI. apply live_adds_in in HI.
    eapply adds_from_amt_nonneg; [|exact HI]. apply amounts_nonneg_firstn. exact HB.
Qed.

(* T1 core: conservation for ANY cut for which commit_of succeeds *)
Lemma commit_of_conserved c o h lA lB nA nB k :
  commit_of c o h lA lB nA nB = Some k -> cfg_ok c ->
  amounts_nonneg lA -> amounts_nonneg lB -> conserved c k.
Proof.
  intros HK HC HA HB. apply commit_of_inv in HK.
  destruct HK as [gA [gB [HW [HG HK]]]]. cbv zeta in HK.
  destruct HK as [HgA [HgB [HF [_ [_ [_ [_ [HbA [HbB [Hfee [_ [Hhs Houts]]]]]]]]]]]].
  pose proof (cut_htlcs_sum c o _ _ _ _ _ _ HW HG) as HS.
  pose proof (cut_htlcs_nonneg c o lA lB nA nB HA HB) as HNN.
  destruct HC as [HC0 [HC1 [HC2 [HC3 _]]]].
  assert (HE : c_balA k + c_balB k + sum_htlc_msat (c_htlcs k) + 1000 * c_fee k
               = gross0A c + gross0B c).
  { rewrite HbA, HbB, Hhs, Hfee. destruct (opener c); lia. }
  split; [lia|].
  assert (0 <= c_balA k /\ 0 <= c_balB k) as [HA0 HB0].
  { rewrite HbA, HbB. destruct (opener c); lia. }
  rewrite <- Hhs in HNN.
  pose proof (outs_of_le c o _ _ _ HA0 HB0 HC3 HNN) as HO.
  rewrite <- Houts in HO. lia.
Qed.

(* T2: a balance moves only by HTLC amounts (and the fee, opener only) *)
Lemma commit_of_balance c o h lA lB nA nB k :
  commit_of c o h lA lB nA nB = Some k ->
  exists setA failA setB failB,
    removed_amounts (adds_of (firstn nA lA)) (removes_of (firstn nB lB)) = Some (setA, failA) /\
    removed_amounts (adds_of (firstn nB lB)) (removes_of (firstn nA lA)) = Some (setB, failB) /\
    c_balA k + (if opener c then 1000 * c_fee k else 0)
      = gross0A c - sum_adds (adds_of (firstn nA lA)) + failA + setB /\
    c_balB k + (if opener c then 0 else 1000 * c_fee k)
      = gross0B c - sum_adds (adds_of (firstn nB lB)) + failB + setA.
Proof.
  intros HK. apply commit_of_inv in HK.
  destruct HK as [gA [gB [_ [HG HK]]]]. cbv zeta in HK.
  destruct HK as [_ [_ [_ [_ [_ [_ [_ [HbA [HbB [Hfee _]]]]]]]]]].
  unfold cut_gross in HG. cbv zeta in HG.
  destruct (removed_amounts (adds_of (firstn nA lA)) (removes_of (firstn nB lB)))
    as [[setA failA]|]; [|discriminate].
  destruct (removed_amounts (adds_of (firstn nB lB)) (removes_of (firstn nA lA)))
    as [[setB failB]|]; [|discriminate].
  inversion HG; subst gA gB; clear HG.
  exists setA, failA, setB, failB. split; [reflexivity|]. split; [reflexivity|].
  rewrite HbA, HbB, Hfee. destruct (opener c); lia.
Qed.

(* T6 (algebraic half): a well-formed cut is refused only for money reasons *)
Lemma commit_of_none_wf c o h lA lB nA nB :
  commit_of c o h lA lB nA nB = None -> commit_wf lA lB nA nB = true ->
  exists gA gB, cut_gross c lA lB nA nB = Some (gA, gB) /\
    (gA < 0 \/ gB < 0 \/ (if opener c then gA else gB) <= 1000 * cut_fee c o lA lB nA nB).
Proof.
  unfold commit_of, commit_wf, cut_gross, cut_fee, cut_htlcs, cut_rate, parents. cbv zeta.
  destruct (nodupb (map fst (removes_of (firstn nB lB)))); cbn [andb negb]; [|discriminate].
  destruct (nodupb (map fst (removes_of (firstn nA lA)))); cbn [andb negb]; [|discriminate].
  destruct (removed_amounts (adds_of (firstn nA lA)) (removes_of (firstn nB lB)))
    as [[setA failA]|]; [|discriminate].
  destruct (removed_amounts (adds_of (firstn nB lB)) (removes_of (firstn nA lA)))
    as [[setB failB]|]; [|discriminate].
  match goal with |- (if ?b then _ else _) = _ -> _ => destruct b eqn:HG end; [|discriminate].
  intros _ _. eexists _, _. split; [reflexivity|].
  apply orb_true_iff in HG. destruct HG as [HG|HF].
  - apply orb_true_iff in HG. destruct HG; lia.
  - apply negb_true_iff in HF. right; right. lia.
Qed.

(* ------------------------------------------------------------------ *)
(* Part B: commit_of reads prefixes only; parents / add positions      *)

Lemma commit_of_ext c o h lA lB lA' lB' nA nB :
  firstn nA lA = firstn nA lA' -> firstn nB lB = firstn nB lB' ->
  commit_of c o h lA lB nA nB = commit_of c o h lA' lB' nA nB.
Proof. intros EA EB. unfold commit_of. rewrite EA, EB. reflexivity. Qed.

Lemma commit_wf_ext lA lB lA' lB' nA nB :
  firstn nA lA = firstn nA lA' -> firstn nB lB = firstn nB lB' ->
  commit_wf lA lB nA nB = commit_wf lA' lB' nA nB.
Proof. intros EA EB. unfold commit_wf. rewrite EA, EB. reflexivity. Qed.

Lemma firstn_app_le {A} n (l e : list A) : (n <= length l)%nat -> firstn n (l ++ e) = firstn n l.
Proof.
  intros HL. rewrite firstn_app. replace (n - length l)%nat with 0%nat by lia.
  cbn. apply app_nil_r.
Qed.

Lemma firstn_prefix {A} n (l e g : list A) : l ++ e = g -> (n <= length l)%nat ->
  firstn n l = firstn n g.
Proof. intros <- HL. symmetry. apply firstn_app_le. exact HL. Qed.

Lemma removes_of_app a b : removes_of (a ++ b) = removes_of a ++ removes_of b.
Proof.
  induction a as [|u a IH]; cbn; [reflexivity|]. destruct u; cbn; rewrite IH; reflexivity.
Qed.

Lemma parents_app a b : parents (a ++ b) = parents a ++ parents b.
Proof. unfold parents. rewrite removes_of_app, map_app. reflexivity. Qed.

Lemma parents_firstn_in n l i : In i (parents (firstn n l)) -> In i (parents l).
Proof.
  intros HI. rewrite <- (firstn_skipn n l), parents_app. apply in_or_app. left. exact HI.
Qed.

Lemma nodupb_iff l : nodupb l = true <-> NoDup l.
Proof.
  induction l as [|x l IH]; cbn.
  - split; [constructor|reflexivity].
  - rewrite andb_true_iff, negb_true_iff, IH. split.
    + intros [HE HN]. constructor; [|exact HN]. apply existsb_eqb_false. exact HE.
    + intros HN. inversion HN as [|? ? HNI HN']; subst. split; [|exact HN'].
      destruct (existsb (Nat.eqb x) l) eqn:HE; [|reflexivity].
      apply existsb_eqb_in in HE. contradiction.
Qed.

Lemma nodup_app_l {A} (a b : list A) : NoDup (a ++ b) -> NoDup a.
Proof.
  induction a as [|x a IH]; intros HN; [constructor|].
  cbn in HN. inversion HN as [|? ? HNI HN']; subst. constructor.
  - intros HI. apply HNI. apply in_or_app. left. exact HI.
  - apply IH. exact HN'.
Qed.

Lemma nodup_snoc {A} (a : list A) x : NoDup a -> ~ In x a -> NoDup (a ++ [x]).
Proof.
  induction a as [|y a IH]; intros HN HI; cbn; [constructor; [intros []|constructor]|].
  inversion HN as [|? ? HNI HN']; subst. constructor.
  - intros HI'. apply in_app_or in HI'. destruct HI' as [HI'|[E|[]]]; [contradiction|].
    apply HI. left. symmetry. exact E.
  - apply IH; [exact HN'|]. intros HI'. apply HI. right. exact HI'.
Qed.

Lemma nodup_parents_firstn n l : NoDup (parents l) -> NoDup (parents (firstn n l)).
Proof.
  intros HN. rewrite <- (firstn_skipn n l), parents_app in HN. eapply nodup_app_l. exact HN.
Qed.

Lemma add_pos_from_app l e : forall i pos a,
  add_pos_from l i pos = Some a -> add_pos_from (l ++ e) i pos = Some a.
Proof.
  induction l as [|u l IH]; intros i pos a HP; cbn in *; [discriminate|].
  destruct u; try (apply IH; exact HP).
  destruct i; [exact HP|apply IH; exact HP].
Qed.

Lemma add_pos_app l e i a : add_pos l i = Some a -> add_pos (l ++ e) i = Some a.
Proof. apply add_pos_from_app. Qed.

Lemma add_pos_from_bound l : forall i pos a,
  add_pos_from l i pos = Some a -> (pos <= a < pos + length l)%nat.
Proof.
  induction l as [|u l IH]; intros i pos a HP; cbn in *; [discriminate|].
  destruct u; try (apply IH in HP; lia).
  destruct i; [inversion HP; lia|apply IH in HP; lia].
Qed.

Lemma add_pos_bound l i a : add_pos l i = Some a -> (a < length l)%nat.
Proof. intros HP. apply add_pos_from_bound in HP. lia. Qed.

Lemma lookup_adds_from_firstn l : forall i pos a j n,
  add_pos_from l i pos = Some a -> (a < pos + n)%nat ->
  lookup_add (adds_from (firstn n l) j) (j + i) <> None.
Proof.
  induction l as [|u l IH]; intros i pos a j n HP HL; cbn in HP; [discriminate|].
  destruct n as [|n].
  { exfalso. destruct u; try (apply add_pos_from_bound in HP; lia).
    destruct i; [inversion HP; lia|apply add_pos_from_bound in HP; lia]. }
  cbn [firstn adds_from].
  destruct u; try (eapply IH; [exact HP|lia]).
  cbn [lookup_add a_idx]. destruct i.
  - replace (j + 0)%nat with j by lia. rewrite Nat.eqb_refl. discriminate.
  - destruct (Nat.eqb_spec (j + S i) j); [lia|].
    replace (j + S i)%nat with (S j + i)%nat by lia.
    eapply IH; [exact HP|lia].
Qed.

Lemma lookup_adds_firstn l i a n :
  add_pos l i = Some a -> (a < n)%nat -> lookup_add (adds_of (firstn n l)) i <> None.
Proof.
  intros HP HL. unfold adds_of.
  apply (lookup_adds_from_firstn l i 0%nat a 0%nat n); [exact HP|lia].
Qed.

Lemma removed_amounts_some adds rems :
  (forall p, In p (map fst rems) -> lookup_add adds p <> None) ->
  removed_amounts adds rems <> None.
Proof.
  induction rems as [|[p s] rems IH]; intros HA; cbn; [discriminate|].
  destruct (lookup_add adds p) eqn:HL; [|exfalso; apply (HA p); [left; reflexivity|exact HL]].
  destruct (removed_amounts adds rems) as [[st fl]|]; [destruct s; discriminate|].
  exfalso. apply IH; [|reflexivity]. intros q HI. apply HA. right. exact HI.
Qed.

(* a cut is well formed when parents are unique and every included removal's
   parent add lies inside the cut of the other log *)
Lemma commit_wf_intro lA lB nA nB :
  NoDup (parents (firstn nA lA)) -> NoDup (parents (firstn nB lB)) ->
  (forall i, In i (parents (firstn nB lB)) -> exists a, add_pos lA i = Some a /\ (a < nA)%nat) ->
  (forall i, In i (parents (firstn nA lA)) -> exists a, add_pos lB i = Some a /\ (a < nB)%nat) ->
  commit_wf lA lB nA nB = true.
Proof.
  intros HNA HNB HB HA. unfold commit_wf. cbv zeta.
  apply nodupb_iff in HNA. apply nodupb_iff in HNB. rewrite HNA, HNB. cbn [andb].
  destruct (removed_amounts (adds_of (firstn nA lA)) (removes_of (firstn nB lB))) as [r1|] eqn:H1.
  2:{ exfalso. revert H1. apply removed_amounts_some. intros p HI.
      destruct (HB p HI) as [a [HP HL]]. eapply lookup_adds_firstn; eassumption. }
  destruct (removed_amounts (adds_of (firstn nB lB)) (removes_of (firstn nA lA))) as [r2|] eqn:H2.
  2:{ exfalso. revert H2. apply removed_amounts_some. intros p HI.
      destruct (HA p HI) as [a [HP HL]]. eapply lookup_adds_firstn; eassumption. }
  reflexivity.
Qed.

Lemma commit_eqb_refl k : commit_eqb k k = true.
Proof.
  unfold commit_eqb. rewrite !eqb_reflx, !Z.eqb_refl, !Nat.eqb_refl. cbn [andb].
  induction (c_htlcs k) as [|x l IH]; [reflexivity|].
  rewrite !eqb_reflx, !Z.eqb_refl, !Nat.eqb_refl. cbn [andb]. exact IH.
Qed.

(* ------------------------------------------------------------------ *)
(* Part C: queues and the two-party invariant                          *)


(* ---------- in-place fee merging (append_upd) ---------- *)
Lemma replace_nth_length n : forall l u, length (replace_nth n l u) = length l.
Proof.
  induction n as [|n IH]; intros [|x l] u; cbn; try reflexivity. rewrite IH. reflexivity.
Qed.

Lemma replace_nth_firstn n : forall l u m, (m <= n)%nat ->
  firstn m (replace_nth n l u) = firstn m l.
Proof.
  induction n as [|n IH]; intros [|x l] u m HM; cbn; try reflexivity.
  - replace m with 0%nat by lia. reflexivity.
  - destruct m as [|m]; [reflexivity|]. cbn. rewrite IH by lia. reflexivity.
Qed.

(* the index found by last_fee_idx holds a fee update *)
Lemma last_fee_idx_spec l : forall i acc j,
  last_fee_idx l i acc = Some j ->
  acc = Some j \/ ((i <= j)%nat /\ exists r, nth_error l (j - i) = Some (UFee r)).
Proof.
  induction l as [|u l IH]; intros i acc j HL; cbn in HL; [left; exact HL|].
  destruct u; try (apply IH in HL; destruct HL as [HL|[HI [r HN]]]; [left; exact HL|right];
    split; [lia|]; exists r; replace (j - i)%nat with (Datatypes.S (j - Datatypes.S i)) by lia; exact HN).
  apply IH in HL. destruct HL as [HL|[HI [r HN]]].
  - inversion HL; subst j. right. split; [lia|]. exists rate.
    replace (i - i)%nat with 0%nat by lia. reflexivity.
  - right. split; [lia|]. exists r.
    replace (j - i)%nat with (Datatypes.S (j - Datatypes.S i)) by lia. exact HN.
Qed.

Lemma last_fee_idx_nth l j : last_fee_idx l 0 None = Some j ->
  exists r, nth_error l j = Some (UFee r).
Proof.
  intros HL. apply last_fee_idx_spec in HL. destruct HL as [HL|[_ [r HN]]]; [discriminate|].
  exists r. rewrite Nat.sub_0_r in HN. exact HN.
Qed.

Lemma replace_fee_removes n : forall l r0 r, nth_error l n = Some (UFee r0) ->
  removes_of (replace_nth n l (UFee r)) = removes_of l.
Proof.
  induction n as [|n IH]; intros [|x l] r0 r HN; cbn in *; try discriminate.
  - inversion HN; subst x. reflexivity.
  - destruct x; cbn; erewrite IH by exact HN; reflexivity.
Qed.

Lemma replace_fee_add_pos n : forall l r0 r i pos, nth_error l n = Some (UFee r0) ->
  add_pos_from (replace_nth n l (UFee r)) i pos = add_pos_from l i pos.
Proof.
  induction n as [|n IH]; intros [|x l] r0 r i pos HN; cbn in *; try discriminate.
  - inversion HN; subst x. reflexivity.
  - destruct x; try (eapply IH; exact HN). destruct i; [reflexivity|eapply IH; exact HN].
Qed.

Lemma replace_fee_nonneg n : forall l r, amounts_nonneg l ->
  amounts_nonneg (replace_nth n l (UFee r)).
Proof.
  induction n as [|n IH]; intros [|x l] r HA; cbn; try exact HA.
  - inversion HA; subst. constructor; [exact I|assumption].
  - inversion HA; subst. constructor; [assumption|apply IH; assumption].
Qed.

Lemma parents_append_upd l b u : parents (append_upd l b u) = parents (l ++ [u]).
Proof.
  unfold append_upd. destruct u; try reflexivity.
  destruct (last_fee_idx l 0 None) as [j|] eqn:HL; [|reflexivity].
  destruct (Nat.leb b j); [|reflexivity].
  apply last_fee_idx_nth in HL. destruct HL as [r0 HN].
  unfold parents. rewrite (replace_fee_removes _ _ _ _ HN), removes_of_app. cbn.
  rewrite app_nil_r. reflexivity.
Qed.

Lemma add_pos_append_upd l b u i a :
  add_pos l i = Some a -> add_pos (append_upd l b u) i = Some a.
Proof.
  intros HP. unfold append_upd. destruct u; try (apply add_pos_app; exact HP).
  destruct (last_fee_idx l 0 None) as [j|] eqn:HL; [|apply add_pos_app; exact HP].
  destruct (Nat.leb b j); [|apply add_pos_app; exact HP].
  apply last_fee_idx_nth in HL. destruct HL as [r0 HN].
  unfold add_pos. rewrite (replace_fee_add_pos _ _ _ _ _ _ HN). exact HP.
Qed.

Lemma amounts_nonneg_append_upd l b u :
  amounts_nonneg l -> upd_nonneg u -> amounts_nonneg (append_upd l b u).
Proof.
  intros HA Hu.
  assert (HS : amounts_nonneg (l ++ [u])).
  { apply Forall_app. split; [exact HA|]. constructor; [exact Hu|constructor]. }
  unfold append_upd. destruct u; try exact HS.
  destruct (last_fee_idx l 0 None) as [j|]; [|exact HS].
  destruct (Nat.leb b j); [|exact HS]. apply replace_fee_nonneg. exact HA.
Qed.

Lemma append_upd_length_ge l b u : (length l <= length (append_upd l b u))%nat.
Proof.
  unfold append_upd.
  assert (HS : (length l <= length (l ++ [u]))%nat) by (rewrite app_length; lia).
  destruct u; try exact HS.
  destruct (last_fee_idx l 0 None) as [j|]; [|exact HS].
  destruct (Nat.leb b j); [|exact HS]. rewrite replace_nth_length. lia.
Qed.

Lemma append_upd_firstn l b u n : (n <= b)%nat -> (n <= length l)%nat ->
  firstn n (append_upd l b u) = firstn n l.
Proof.
  intros HB HL. unfold append_upd.
  assert (HS : firstn n (l ++ [u]) = firstn n l) by (apply firstn_app_le; exact HL).
  destruct u; try exact HS.
  destruct (last_fee_idx l 0 None) as [j|]; [|exact HS].
  destruct (Nat.leb_spec b j); [|exact HS]. apply replace_nth_firstn. lia.
Qed.
Fixpoint upds_in (q : list msg) : list upd :=
  match q with [] => [] | MUpd u :: r => u :: upds_in r | _ :: r => upds_in r end.
Fixpoint nsig (q : list msg) : nat :=
  match q with [] => 0 | MSig _ :: r => S (nsig r) | _ :: r => nsig r end.
Fixpoint nrev (q : list msg) : nat :=
  match q with [] => 0 | MRev :: r => S (nrev r) | _ :: r => nrev r end.
(* updates in the queue before the first revocation *)
Fixpoint upto_rev (q : list msg) : list upd :=
  match q with
  | [] => [] | MRev :: _ => [] | MUpd u :: r => u :: upto_rev r | MSig _ :: r => upto_rev r
  end.
Definition nupd (q : list msg) : nat := length (upds_in q).

Lemma upds_in_app a b : upds_in (a ++ b) = upds_in a ++ upds_in b.
Proof. induction a as [|m a IH]; cbn; [reflexivity|]. destruct m; cbn; rewrite IH; reflexivity. Qed.
Lemma nsig_app a b : nsig (a ++ b) = (nsig a + nsig b)%nat.
Proof. induction a as [|m a IH]; cbn; [reflexivity|]. destruct m; cbn; rewrite IH; reflexivity. Qed.
Lemma nrev_app a b : nrev (a ++ b) = (nrev a + nrev b)%nat.
Proof. induction a as [|m a IH]; cbn; [reflexivity|]. destruct m; cbn; rewrite IH; reflexivity. Qed.
Lemma nupd_app a b : nupd (a ++ b) = (nupd a + nupd b)%nat.
Proof. unfold nupd. rewrite upds_in_app, app_length. reflexivity. Qed.

Lemma upto_rev_norev q : nrev q = 0%nat -> upto_rev q = upds_in q.
Proof.
  induction q as [|m q IH]; cbn; [reflexivity|]. destruct m; cbn; intros HN;
  try discriminate; rewrite IH by exact HN; reflexivity.
Qed.

Lemma upto_rev_app_norev a b : nrev a = 0%nat -> upto_rev (a ++ b) = upds_in a ++ upto_rev b.
Proof.
  induction a as [|m a IH]; cbn; [reflexivity|]. destruct m; cbn; intros HN;
  try discriminate; rewrite IH by exact HN; reflexivity.
Qed.

Lemma upto_rev_app_rev a b : nrev a <> 0%nat -> upto_rev (a ++ b) = upto_rev a.
Proof.
  induction a as [|m a IH]; cbn; [congruence|]. destruct m; cbn; intros HN;
  try reflexivity; rewrite IH by exact HN; reflexivity.
Qed.

Lemma nsig_notin q k : nsig q = 0%nat -> ~ In (MSig k) q.
Proof.
  induction q as [|m q IH]; cbn; [tauto|]. destruct m; intros HN [E|HI];
  try discriminate; apply IH; assumption.
Qed.

Lemma nrev_app_0 a b : nrev (a ++ b) = 0%nat -> nrev a = 0%nat /\ nrev b = 0%nat.
Proof. rewrite nrev_app. lia. Qed.

Lemma upto_rev_snoc q m :
  upto_rev (q ++ [m]) =
  if Nat.eqb (nrev q) 0 then upto_rev q ++ (match m with MUpd u => [u] | _ => [] end)
  else upto_rev q.
Proof.
  destruct (Nat.eqb_spec (nrev q) 0) as [E|E].
  - rewrite (upto_rev_app_norev q [m] E), (upto_rev_norev q E). destruct m; reflexivity.
  - apply upto_rev_app_rev. exact E.
Qed.

Lemma parents_snoc_in l u i :
  In i (parents (l ++ [u])) -> In i (parents l) \/ u = USettle i \/ u = UFail i.
Proof.
  rewrite parents_app. intros HI. apply in_app_or in HI. destruct HI as [HI|HI]; [left; exact HI|].
  right. destruct u; cbn in HI; try contradiction; destruct HI as [<-|[]]; auto.
Qed.

Lemma removal_enabled_inv p x i :
  removal_enabled p x i = true ->
  exists a, add_pos (peer x) i = Some a /\ (a < n_of (negb p) (lTail x))%nat /\
            (a < n_of (negb p) (rTail x))%nat /\ ~ In i (parents (own x)).
Proof.
  unfold removal_enabled. destruct (add_pos (peer x) i) as [a|]; [|discriminate].
  rewrite !andb_true_iff, !Nat.ltb_lt, negb_true_iff. intros [[H1 H2] H3].
  exists a. repeat split; try assumption.
  intros HI. rewrite existsb_fst_map in H3.
  assert (existsb (fun y => Nat.eqb y i) (map fst (removes_of (own x))) = true); [|congruence].
  apply existsb_exists. exists i. split; [exact HI|apply Nat.eqb_refl].
Qed.

Local Open Scope nat_scope.

(* ---------- the receiver's view of a queue (fee updates merge in place) ---------- *)
(* [replay S log b q]: the log the receiver ends up with after processing q on
   top of [log]; b is its committed bound for S's log, which moves only when a
   signature of S arrives (then lTip := k). *)
Fixpoint replay (S : bool) (log : list upd) (b : nat) (q : list msg) : list upd :=
  match q with
  | [] => log
  | MUpd u :: r => replay S (append_upd log b u) b r
  | MSig k :: r => replay S log (n_of S k) r
  | MRev :: r => replay S log b r
  end.
Fixpoint endb (S : bool) (b : nat) (q : list msg) : nat :=
  match q with
  | [] => b
  | MSig k :: r => endb S (n_of S k) r
  | _ :: r => endb S b r
  end.
(* the holder's bound for S's log *)
Definition hb (S : bool) (x : party) : nat := n_of S (tip_of (lTail x) (lTip x)).
Definition sigs_ge (S : bool) (n : nat) (q : list msg) : Prop :=
  forall k, In (MSig k) q -> n <= n_of S k.

Lemma replay_app S q1 : forall log b q2,
  replay S log b (q1 ++ q2) = replay S (replay S log b q1) (endb S b q1) q2.
Proof.
  induction q1 as [|m q1 IH]; intros log b q2; [reflexivity|].
  destruct m; cbn [app replay endb]; apply IH.
Qed.

Lemma endb_app S q1 : forall b q2, endb S b (q1 ++ q2) = endb S (endb S b q1) q2.
Proof.
  induction q1 as [|m q1 IH]; intros b q2; [reflexivity|]. destruct m; cbn [app endb]; apply IH.
Qed.

Lemma endb_nosig S q : forall b, nsig q = 0 -> endb S b q = b.
Proof.
  induction q as [|m q IH]; intros b HN; [reflexivity|].
  destruct m; cbn [nsig endb] in *; try discriminate; apply IH; exact HN.
Qed.

Lemma replay_length_ge S q : forall log b, length log <= length (replay S log b q).
Proof.
  induction q as [|m q IH]; intros log b; [cbn; lia|].
  destruct m; cbn [replay]; try apply IH.
  eapply Nat.le_trans; [apply (append_upd_length_ge log b u)|apply IH].
Qed.

Lemma replay_firstn S n q : forall log b, n <= b -> n <= length log -> sigs_ge S n q ->
  firstn n (replay S log b q) = firstn n log.
Proof.
  induction q as [|m q IH]; intros log b HB HL HS; [reflexivity|].
  assert (HS' : sigs_ge S n q) by (intros k HI; apply HS; right; exact HI).
  destruct m; cbn [replay].
  - rewrite IH; try assumption.
    + apply append_upd_firstn; assumption.
    + eapply Nat.le_trans; [exact HL|apply append_upd_length_ge].
  - apply IH; try assumption. apply HS. left. reflexivity.
  - apply IH; assumption.
Qed.

Lemma parents_replay S q : forall log b,
  parents (replay S log b q) = parents (log ++ upds_in q).
Proof.
  induction q as [|m q IH]; intros log b; cbn [replay upds_in]; [rewrite app_nil_r; reflexivity|].
  destruct m; try apply IH.
  rewrite IH, !parents_app, parents_append_upd, parents_app.
  change (u :: upds_in q) with ([u] ++ upds_in q). rewrite parents_app, <- app_assoc. reflexivity.
Qed.

Lemma add_pos_replay S q : forall log b i a,
  add_pos log i = Some a -> add_pos (replay S log b q) i = Some a.
Proof.
  induction q as [|m q IH]; intros log b i a HP; [exact HP|].
  destruct m; cbn [replay]; apply IH; try exact HP. apply add_pos_append_upd. exact HP.
Qed.

Section Invariant.
Variable c : cfg.

Definition sel {A} (S : bool) (a b : A) : A := if S then a else b.

(* [k] is the commit_of of its own cut over the GLOBAL logs (own S, own H),
   and its cut lies inside them *)
Definition good (S H : bool) (lS lH : list upd) (k : commit) : Prop :=
  commit_of c (c_owner k) (c_h k) (sel S lS lH) (sel S lH lS) (c_nA k) (c_nB k) = Some k
  /\ n_of S k <= length lS /\ n_of H k <= length lH.

(* the value rTail x will have once the revocations in [pre] are delivered *)
Definition ev_rtail (x : party) (pre : list msg) : commit :=
  if Nat.eqb (nrev pre) 0 then rTail x else tip_of (rTail x) (rTip x).

Definition kgood (S H : bool) (xS xH : party) (k : commit) : Prop :=
  good S H (own xS) (own xH) k /\ c_owner k = H /\
  c_h k = (c_h (rTail xS) + 1)%Z /\ n_of S (rTail xS) <= n_of S k.

Definition sig_at (S H : bool) (xH : party) (qS : list msg) (k : commit) : Prop :=
  exists pre post, qS = pre ++ MSig k :: post /\ nsig pre = 0 /\ nsig post = 0 /\
    n_of S k = length (replay S (peer xH) (hb S xH) pre) /\
    n_of H k = n_of H (ev_rtail xH pre).

(* the 4-phase cycle of direction "S signs H's commitments" *)
Inductive phase (S H : bool) (xS xH : party) (qS qH : list msg) : Prop :=
| Ph0 : rTip xS = None -> lTip xH = None -> nsig qS = 0 -> nrev qH = 0 ->
        rTail xS = lTail xH -> phase S H xS xH qS qH
| Ph1 k : rTip xS = Some k -> kgood S H xS xH k -> sig_at S H xH qS k ->
        lTip xH = None -> nrev qH = 0 -> rTail xS = lTail xH -> phase S H xS xH qS qH
| Ph2 k : rTip xS = Some k -> kgood S H xS xH k -> nsig qS = 0 -> lTip xH = Some k ->
        nrev qH = 0 -> rTail xS = lTail xH -> n_of S k <= length (peer xH) ->
        phase S H xS xH qS qH
| Ph3 k : rTip xS = Some k -> kgood S H xS xH k -> nsig qS = 0 -> lTip xH = None ->
        lTail xH = k -> nrev qH = 1 -> n_of S k <= length (peer xH) ->
        phase S H xS xH qS qH.

Record InvDir (S H : bool) (xS xH : party) (qS qH : list msg) : Prop := mkInvDir {
  i_j1 : replay S (peer xH) (hb S xH) qS = own xS;
  i_an : amounts_nonneg (own xS);
  i_nd : NoDup (parents (own xS));
  i_wa : forall i, In i (parents (own xS)) ->
         exists a, add_pos (own xH) i = Some a /\ a < n_of H (lTail xS);
  i_wb : forall i, In i (parents (peer xH ++ upto_rev qS)) ->
         exists a, add_pos (own xH) i = Some a /\ a < n_of H (rTail xH);
  i_gt : good S H (own xS) (own xH) (rTail xS);
  i_gl : good S H (own xS) (own xH) (lTail xH);
  i_bl : n_of S (lTail xH) <= length (peer xH);
  i_m1 : n_of H (rTail xS) <= n_of H (lTail xS) /\
         (forall k, rTip xS = Some k -> n_of H k <= n_of H (lTail xS));
  i_ph : phase S H xS xH qS qH
}.

Lemma good_app_S S H lS lH e k : good S H lS lH k -> good S H (lS ++ e) lH k.
Proof.
  intros [HK [HS HH]]. split; [|rewrite app_length; lia].
  rewrite <- HK. destruct S; cbn [sel n_of] in *;
    apply commit_of_ext; try reflexivity; apply firstn_app_le; assumption.
Qed.

Lemma good_app_H S H lS lH e k : H = negb S -> good S H lS lH k -> good S H lS (lH ++ e) k.
Proof.
  intros -> [HK [HS HH]]. split; [|rewrite app_length; lia].
  rewrite <- HK. destruct S; cbn [sel n_of negb] in *;
    apply commit_of_ext; try reflexivity; apply firstn_app_le; assumption.
Qed.

Lemma kgood_app_S S H xS xH k e o (p : option commit) lt lp rp :
  rTail xS = rp ->
  kgood S H xS xH k ->
  kgood S H (mkParty (own xS ++ e) o lt lp rp p) xH k.
Proof.
  intros <- [HG HR]. split; [|exact HR]. cbn [own]. apply good_app_S. exact HG.
Qed.

Lemma kgood_app_H S H xS xH k e o lt lp rt rp : H = negb S ->
  kgood S H xS xH k ->
  kgood S H xS (mkParty (own xH ++ e) o lt lp rt rp) k.
Proof.
  intros HSH [HG HR]. split; [|exact HR]. cbn [own]. apply good_app_H; assumption.
Qed.

(* derived: lTail of the holder is what rTail of the signer will become *)
Lemma phase_ev_rtail S H xS xH qS qH :
  phase S H xS xH qS qH -> lTail xH = ev_rtail xS qH.
Proof.
  unfold ev_rtail. intros [R L NS NR E|k R G SA L NR E|k R G NS L NR E B|k R G NS L LT NR B];
  rewrite NR; cbn [Nat.eqb]; try (symmetry; exact E).
  rewrite R. cbn. exact LT.
Qed.

Lemma phase_norev_tail S H xS xH qS qH :
  phase S H xS xH qS qH -> nrev qH = 0 -> rTail xS = lTail xH.
Proof.
  intros [R L NS NR E|k R G SA L NR E|k R G NS L NR E B|k R G NS L LT NR B] HN;
  try exact E. congruence.
Qed.

Lemma good_upd_S S H lS lH b u k : good S H lS lH k -> n_of S k <= b ->
  good S H (append_upd lS b u) lH k.
Proof.
  intros [HK [HS HH]] HB. split.
  2:{ split; [|exact HH]. eapply Nat.le_trans; [exact HS|apply append_upd_length_ge]. }
  rewrite <- HK. destruct S; cbn [sel n_of] in *;
    apply commit_of_ext; try reflexivity; apply append_upd_firstn; assumption.
Qed.

Lemma good_upd_H S H lS lH b u k : H = negb S -> good S H lS lH k -> n_of H k <= b ->
  good S H lS (append_upd lH b u) k.
Proof.
  intros -> [HK [HS HH]] HB. split.
  2:{ split; [exact HS|]. eapply Nat.le_trans; [exact HH|apply append_upd_length_ge]. }
  rewrite <- HK. destruct S; cbn [sel n_of negb] in *;
    apply commit_of_ext; try reflexivity; apply append_upd_firstn; assumption.
Qed.

(* cuts never run ahead of the signer's newest remote commitment *)
Lemma phase_m2 S H xS xH qS qH : phase S H xS xH qS qH ->
  n_of S (lTail xH) <= n_of S (tip_of (rTail xS) (rTip xS)) /\
  n_of S (rTail xS) <= n_of S (tip_of (rTail xS) (rTip xS)).
Proof.
  intros ph.
  destruct ph as [R L NS NR E|kp R G SA L NR E|kp R G NS L NR E B|kp R G NS L LT NR B];
    rewrite R; cbn [tip_of]; try (destruct G as [_ [_ [_ HM]]]); subst; try rewrite <- E; lia.
Qed.

Lemma phase_hb S H xS xH qS qH : phase S H xS xH qS qH ->
  n_of S (lTail xH) <= hb S xH /\ hb S xH <= n_of S (tip_of (rTail xS) (rTip xS)).
Proof.
  intros ph. unfold hb.
  destruct ph as [R L NS NR E|kp R G SA L NR E|kp R G NS L NR E B|kp R G NS L LT NR B];
    rewrite R, L; cbn [tip_of]; try (destruct G as [_ [_ [_ HM]]]); subst; try rewrite <- E; lia.
Qed.

Lemma endb_phase S H xS xH qS qH : phase S H xS xH qS qH ->
  endb S (hb S xH) qS = n_of S (tip_of (rTail xS) (rTip xS)).
Proof.
  intros ph. unfold hb.
  destruct ph as [R L NS NR E|kp R G SA L NR E|kp R G NS L NR E B|kp R G NS L LT NR B];
    rewrite R, L; cbn [tip_of]; try (rewrite endb_nosig by exact NS; congruence).
  destruct SA as [pre [post [EQ [N1 [N2 _]]]]]. rewrite EQ, endb_app. cbn [endb].
  apply endb_nosig. exact N2.
Qed.

Lemma phase_sigs_ge S H xS xH qS qH : phase S H xS xH qS qH ->
  sigs_ge S (n_of S (lTail xH)) qS.
Proof.
  intros ph k HI.
  destruct ph as [R L NS NR E|kp R G SA L NR E|kp R G NS L NR E B|kp R G NS L LT NR B];
    try (exfalso; exact (nsig_notin _ _ NS HI)).
  destruct SA as [pre [post [EQ [N1 [N2 _]]]]]. subst qS.
  apply in_app_or in HI. destruct HI as [HI|[HI|HI]].
  - exfalso. exact (nsig_notin _ _ N1 HI).
  - inversion HI; subst. destruct G as [_ [_ [_ HM]]]. rewrite <- E. exact HM.
  - exfalso. exact (nsig_notin _ _ N2 HI).
Qed.

(* the part of S's log that H's tail commitment covers has been delivered verbatim *)
Lemma peer_prefix S H xS xH qS qH n : InvDir S H xS xH qS qH ->
  n <= n_of S (lTail xH) -> firstn n (peer xH) = firstn n (own xS).
Proof.
  intros [j1 an nd wa wb gt gl bl m1 ph] HN. rewrite <- j1. symmetry.
  destruct (phase_hb _ _ _ _ _ _ ph) as [HB _].
  apply replay_firstn; [lia|lia|].
  intros k HI. pose proof (phase_sigs_ge _ _ _ _ _ _ ph k HI). lia.
Qed.

Lemma peer_len S H xS xH qS qH : InvDir S H xS xH qS qH -> length (peer xH) <= length (own xS).
Proof. intros [j1 an nd wa wb gt gl bl m1 ph]. rewrite <- j1. apply replay_length_ge. Qed.

Lemma lt_own_bound S H xS xH qS qH :
  InvDir S H xS xH qS qH -> InvDir H S xH xS qH qS ->
  n_of S (lTail xS) <= n_of S (tip_of (rTail xS) (rTip xS)) /\
  n_of S (tip_of (lTail xS) (lTip xS)) <= n_of S (tip_of (rTail xS) (rTip xS)).
Proof.
  intros [j1 an nd wa wb gt gl bl m1 ph] [j1' an' nd' wa' wb' gt' gl' bl' m1' ph'].
  destruct (phase_m2 _ _ _ _ _ _ ph) as [HA _]. destruct m1' as [m1a m1b].
  destruct ph' as [R L NS NR E|kp R G SA L NR E|kp R G NS L NR E B|kp R G NS L LT NR B];
    rewrite L; cbn [tip_of]; try (rewrite <- E; lia).
  - specialize (m1b _ R). rewrite <- E. lia.
  - subst kp. specialize (m1b _ R). lia.
Qed.

(* the sender's merge bound is the cut of its newest remote commitment ... *)
Lemma sender_bound S H xS xH qS qH :
  InvDir S H xS xH qS qH -> InvDir H S xH xS qH qS ->
  committed_bound S xS = n_of S (tip_of (rTail xS) (rTip xS)).
Proof.
  intros I1 I2. destruct (lt_own_bound _ _ _ _ _ _ I1 I2) as [_ HB].
  unfold committed_bound. lia.
Qed.

(* ... and the receiver's is the cut of its newest local commitment *)
Lemma receiver_bound S H xS xH qS qH :
  InvDir S H xS xH qS qH -> InvDir H S xH xS qH qS ->
  committed_bound S xH = hb S xH.
Proof.
  intros [j1 an nd wa wb gt gl bl m1 ph] [j1' an' nd' wa' wb' gt' gl' bl' m1' ph'].
  destruct (phase_hb _ _ _ _ _ _ ph) as [HB _]. destruct m1' as [m1a m1b].
  unfold committed_bound. fold (hb S xH).
  assert (n_of S (tip_of (rTail xH) (rTip xH)) <= n_of S (lTail xH)).
  { destruct (rTip xH) as [k'|]; cbn [tip_of]; [apply m1b; reflexivity|exact m1a]. }
  lia.
Qed.

(* ---------- OSend by S ---------- *)
Lemma send_S S H xS xH qS qH u : H = negb S ->
  InvDir S H xS xH qS qH -> InvDir H S xH xS qH qS ->
  upd_enabled c S xS u = true ->
  InvDir S H (mkParty (append_upd (own xS) (committed_bound S xS) u) (peer xS)
                      (lTail xS) (lTip xS) (rTail xS) (rTip xS))
         xH (qS ++ [MUpd u]) qH.
Proof.
  intros HSH I1 I2 HE.
  pose proof (sender_bound _ _ _ _ _ _ I1 I2) as SB.
  destruct I1 as [j1 an nd wa wb gt gl bl m1 ph]. destruct I2 as [j1' an' nd' wa' wb' gt' gl' bl' m1' ph'].
  destruct (phase_m2 _ _ _ _ _ _ ph) as [A1 A2].
  assert (HR : forall i, u = USettle i \/ u = UFail i ->
            ~ In i (parents (own xS)) /\
            exists a, add_pos (own xH) i = Some a /\ a < n_of H (lTail xS)).
  { intros i Hu. assert (HE' : removal_enabled S xS i = true) by (destruct Hu; subst u; exact HE).
    apply removal_enabled_inv in HE'. destruct HE' as [a [HP [HL [_ HN]]]].
    split; [exact HN|]. exists a. rewrite <- HSH in HL. split; [|exact HL].
    rewrite <- j1'. apply add_pos_replay. exact HP. }
  constructor; cbn [own peer lTail lTip rTail rTip].
  - rewrite replay_app, j1. cbn [replay]. rewrite (endb_phase _ _ _ _ _ _ ph), SB. reflexivity.
  - apply amounts_nonneg_append_upd; [exact an|]. destruct u; cbn in *; try exact I. lia.
  - rewrite parents_append_upd, parents_app.
    destruct u; cbn [parents removes_of map]; rewrite ?app_nil_r; try exact nd;
    apply nodup_snoc; try exact nd; apply HR; auto.
  - intros i HI. rewrite parents_append_upd in HI. apply parents_snoc_in in HI.
    destruct HI as [HI|HI]; [apply wa; exact HI|]. apply HR. exact HI.
  - intros i HI. rewrite upto_rev_snoc in HI.
    destruct (Nat.eqb_spec (nrev qS) 0) as [E|E]; [|apply wb; exact HI].
    rewrite app_assoc in HI. apply parents_snoc_in in HI.
    destruct HI as [HI|HI]; [apply wb; exact HI|].
    rewrite (phase_norev_tail _ _ _ _ _ _ ph' E). apply HR. exact HI.
  - apply good_upd_S; [exact gt|]. rewrite SB. exact A2.
  - apply good_upd_S; [exact gl|]. rewrite SB. exact A1.
  - exact bl.
  - exact m1.
  - assert (KG : forall k, rTip xS = Some k -> kgood S H xS xH k ->
       kgood S H (mkParty (append_upd (own xS) (committed_bound S xS) u) (peer xS)
                          (lTail xS) (lTip xS) (rTail xS) (rTip xS)) xH k).
    { intros k R [G HR']. split; [|exact HR']. cbn [own]. apply good_upd_S; [exact G|].
      rewrite SB, R. cbn [tip_of]. lia. }
    destruct ph as [R L NS NR E|k R G SA L NR E|k R G NS L NR E B|k R G NS L LT NR B].
    + apply Ph0; cbn [rTip rTail]; try assumption. rewrite nsig_app, NS. reflexivity.
    + eapply Ph1; cbn [rTip rTail]; try eassumption; [apply KG; assumption|].
      destruct SA as [pre [post [EQ [N1 [N2 [C1 C2]]]]]].
      exists pre, (post ++ [MUpd u]). rewrite EQ, <- app_assoc. cbn [app].
      repeat split; try assumption. rewrite nsig_app, N2. reflexivity.
    + eapply Ph2; cbn [rTip rTail]; try eassumption; [apply KG; assumption|].
      rewrite nsig_app, NS. reflexivity.
    + eapply Ph3; cbn [rTip rTail]; try eassumption; [apply KG; assumption|].
      rewrite nsig_app, NS. reflexivity.
Qed.

Lemma negb_swap (S H : bool) : H = negb S -> S = negb H.
Proof. intros ->. destruct S; reflexivity. Qed.

Ltac ph_cases ph :=
  destruct ph as [R L NS NR E|kp R G SA L NR E|kp R G NS L NR E B|kp R G NS L LT NR B].
Ltac psimpl := cbn [own peer lTail lTip rTail rTip].

Lemma send_H S H xS xH qS qH u : H = negb S ->
  InvDir S H xS xH qS qH -> InvDir H S xH xS qH qS ->
  upd_enabled c S xS u = true ->
  InvDir H S xH (mkParty (append_upd (own xS) (committed_bound S xS) u) (peer xS)
                         (lTail xS) (lTip xS) (rTail xS) (rTip xS))
         qH (qS ++ [MUpd u]).
Proof.
  intros HSH I1 I2 HE.
  pose proof (sender_bound _ _ _ _ _ _ I1 I2) as SB.
  destruct (lt_own_bound _ _ _ _ _ _ I1 I2) as [LB _].
  destruct I1 as [j1 an nd wa wb gt gl bl m1 ph]. destruct I2 as [j1' an' nd' wa' wb' gt' gl' bl' m1' ph'].
  destruct (phase_m2 _ _ _ _ _ _ ph) as [A1 A2]. destruct m1' as [m1a m1b].
  pose proof (negb_swap _ _ HSH) as HHS.
  constructor; psimpl; try assumption.
  - intros i HI. destruct (wa' i HI) as [a [HP HL]]. exists a. split; [|exact HL].
    apply add_pos_append_upd. exact HP.
  - intros i HI. destruct (wb' i HI) as [a [HP HL]]. exists a. split; [|exact HL].
    apply add_pos_append_upd. exact HP.
  - apply good_upd_H; try assumption. rewrite SB. lia.
  - apply good_upd_H; try assumption. rewrite SB. exact LB.
  - split; assumption.
  - assert (KG : forall k, rTip xH = Some k -> kgood H S xH xS k ->
       kgood H S xH (mkParty (append_upd (own xS) (committed_bound S xS) u) (peer xS)
                             (lTail xS) (lTip xS) (rTail xS) (rTip xS)) k).
    { intros k R [G HR']. split; [|exact HR']. cbn [own]. apply good_upd_H; try assumption.
      rewrite SB. specialize (m1b k R). lia. }
    ph_cases ph'.
    + apply Ph0; psimpl; try assumption. rewrite nrev_app, NR. reflexivity.
    + eapply Ph1; psimpl; try eassumption; [apply KG; assumption|].
      rewrite nrev_app, NR. reflexivity.
    + eapply Ph2; psimpl; try eassumption; [apply KG; assumption|].
      rewrite nrev_app, NR. reflexivity.
    + eapply Ph3; psimpl; try eassumption; [apply KG; assumption|].
      rewrite nrev_app, NR. reflexivity.
Qed.

(* ---------- OSign by S ---------- *)
Lemma sign_good S H xS xH nS nH k h : H = negb S ->
  commit_of c H h (logA_of S xS) (logB_of S xS) (sel S nS nH) (sel S nH nS) = Some k ->
  nS <= length (own xS) -> firstn nH (peer xS) = firstn nH (own xH) -> nH <= length (own xH) ->
  good S H (own xS) (own xH) k /\ c_owner k = H /\ c_h k = h /\ n_of S k = nS /\ n_of H k = nH.
Proof.
  intros -> HK HS HF HH. pose proof (commit_of_inv _ _ _ _ _ _ _ _ HK) as HI.
  destruct HI as [gA [gB [_ [_ HI]]]]. cbv zeta in HI.
  destruct HI as [_ [_ [_ [Ho [Hh [HnA [HnB _]]]]]]].
  unfold good. rewrite Ho, Hh, HnA, HnB.
  destruct S; cbn [sel negb n_of logA_of logB_of] in *; rewrite ?HnA, ?HnB;
  (split; [|tauto]); split; [|lia| |lia]; rewrite <- HK; apply commit_of_ext;
  try reflexivity; symmetry; exact HF.
Qed.

Definition set_rTip (x : party) (t : option commit) : party :=
  mkParty (own x) (peer x) (lTail x) (lTip x) (rTail x) t.

Lemma sign_S S H xS xH qS qH k : H = negb S ->
  InvDir S H xS xH qS qH -> InvDir H S xH xS qH qS ->
  rTip xS = None ->
  commit_of c H (c_h (rTail xS) + 1)%Z (logA_of S xS) (logB_of S xS)
    (sel S (length (own xS)) (n_of H (lTail xS)))
    (sel S (n_of H (lTail xS)) (length (own xS))) = Some k ->
  InvDir S H (set_rTip xS (Some k)) xH (qS ++ [MSig k]) qH.
Proof.
  intros HSH I1 I2 HR HK.
  pose proof (peer_prefix _ _ _ _ _ _ _ I2 (le_n _)) as PP.
  pose proof (peer_len _ _ _ _ _ _ I2) as PL.
  destruct I1 as [j1 an nd wa wb gt gl bl m1 ph]. destruct I2 as [j1' an' nd' wa' wb' gt' gl' bl' m1' ph'].
  unfold set_rTip.
  apply sign_good with (xH := xH) in HK; try assumption; try lia.
  destruct HK as [HG [Ho [Hh [HnS HnH]]]].
  constructor; psimpl; try assumption.
  - rewrite replay_app. cbn [replay]. exact j1.
  - intros i HI. apply wb. rewrite upto_rev_snoc in HI.
    destruct (Nat.eqb (nrev qS) 0); [rewrite app_nil_r in HI|]; exact HI.
  - destruct m1 as [m1a m1b]. split; [exact m1a|]. intros k0 HE. inversion HE; subst k0. lia.
  - ph_cases ph; try congruence.
    eapply Ph1; psimpl; try eassumption; try reflexivity.
    + split; [exact HG|]. split; [exact Ho|]. split; [exact Hh|].
      rewrite HnS. destruct gt as [_ [gt1 _]]. exact gt1.
    + exists qS, []. repeat split; try assumption.
      * rewrite HnS, j1. reflexivity.
      * rewrite HnH. rewrite (phase_ev_rtail _ _ _ _ _ _ ph'). reflexivity.
Qed.

Lemma sign_H S H xS xH qS qH k : H = negb S ->
  InvDir S H xS xH qS qH -> InvDir H S xH xS qH qS ->
  rTip xS = None ->
  InvDir H S xH (set_rTip xS (Some k)) qH (qS ++ [MSig k]).
Proof.
  intros HSH [j1 an nd wa wb gt gl bl m1 ph] [j1' an' nd' wa' wb' gt' gl' bl' m1' ph'] HR.
  unfold set_rTip.
  assert (HNR : nrev qH = 0) by (ph_cases ph; congruence).
  assert (HN : nrev (qS ++ [MSig k]) = nrev qS) by (rewrite nrev_app; cbn; lia).
  constructor; psimpl; try assumption.
  ph_cases ph'.
  - apply Ph0; psimpl; try assumption. congruence.
  - eapply Ph1; psimpl; try eassumption; [|congruence].
    destruct SA as [pre [post [EQ [N1 [N2 [C1 C2]]]]]].
    exists pre, post. repeat split; try assumption.
    rewrite EQ in HNR. apply nrev_app_0 in HNR. destruct HNR as [HNR _].
    unfold ev_rtail in *. psimpl. rewrite HNR in *. exact C2.
  - eapply Ph2; psimpl; try eassumption. congruence.
  - eapply Ph3; psimpl; try eassumption. congruence.
Qed.

(* ---------- ORevoke by S ---------- *)
Definition revoked (x : party) (k : commit) : party :=
  mkParty (own x) (peer x) k None (rTail x) (rTip x).

Lemma revoke_S S H xS xH qS qH k : H = negb S ->
  InvDir S H xS xH qS qH -> InvDir H S xH xS qH qS ->
  lTip xS = Some k ->
  InvDir S H (revoked xS k) xH (qS ++ [MRev]) qH.
Proof.
  intros HSH [j1 an nd wa wb gt gl bl m1 ph] [j1' an' nd' wa' wb' gt' gl' bl' m1' ph'] HL.
  unfold revoked.
  assert (HNS : nsig (qS ++ [MRev]) = nsig qS) by (rewrite nsig_app; cbn; lia).
  assert (HM : n_of H (lTail xS) <= n_of H k).
  { ph_cases ph'; try congruence. assert (kp = k) by congruence. subst kp.
    destruct G as [_ [_ [_ HM]]]. rewrite E in HM. exact HM. }
  constructor; psimpl; try assumption.
  - rewrite replay_app. cbn [replay]. exact j1.
  - intros i HI. destruct (wa i HI) as [a [HP HA]]. exists a. split; [exact HP|]. lia.
  - intros i HI. apply wb. rewrite upto_rev_snoc in HI.
    destruct (Nat.eqb (nrev qS) 0); [rewrite app_nil_r in HI|]; exact HI.
  - destruct m1 as [m1a m1b]. split; [lia|]. intros k0 HE. specialize (m1b k0 HE). lia.
  - ph_cases ph.
    + apply Ph0; psimpl; try assumption. congruence.
    + eapply Ph1; psimpl; try eassumption.
      destruct SA as [pre [post [EQ [N1 [N2 [C1 C2]]]]]].
      exists pre, (post ++ [MRev]). rewrite EQ, <- app_assoc. cbn [app].
      repeat split; try assumption. rewrite nsig_app, N2. reflexivity.
    + eapply Ph2; psimpl; try eassumption. congruence.
    + eapply Ph3; psimpl; try eassumption. congruence.
Qed.

Lemma revoke_H S H xS xH qS qH k : H = negb S ->
  InvDir S H xS xH qS qH -> InvDir H S xH xS qH qS ->
  lTip xS = Some k ->
  InvDir H S xH (revoked xS k) qH (qS ++ [MRev]).
Proof.
  intros HSH [j1 an nd wa wb gt gl bl m1 ph] [j1' an' nd' wa' wb' gt' gl' bl' m1' ph'] HL.
  unfold revoked.
  ph_cases ph'; try congruence.
  assert (kp = k) by congruence. subst kp.
  constructor; psimpl; try assumption.
  - rewrite <- j1'. unfold hb. psimpl. rewrite HL. reflexivity.
  - destruct G as [G _]. exact G.
  - eapply Ph3; psimpl; try eassumption; try reflexivity.
    rewrite nrev_app, NR. reflexivity.
Qed.

(* ---------- ODeliver to S of an update ---------- *)
Definition recv_upd (x : party) (b : nat) (u : upd) : party :=
  mkParty (own x) (append_upd (peer x) b u) (lTail x) (lTip x) (rTail x) (rTip x).

Lemma dupd_S S H xS xH qS q u b : H = negb S ->
  InvDir S H xS xH qS (MUpd u :: q) -> InvDir H S xH xS (MUpd u :: q) qS ->
  InvDir S H (recv_upd xS b u) xH qS q.
Proof.
  intros HSH [j1 an nd wa wb gt gl bl m1 ph] [j1' an' nd' wa' wb' gt' gl' bl' m1' ph'].
  unfold recv_upd.
  constructor; psimpl; try assumption.
  cbn [nrev] in ph.
  ph_cases ph.
  - apply Ph0; psimpl; assumption.
  - eapply Ph1; psimpl; eassumption.
  - eapply Ph2; psimpl; eassumption.
  - eapply Ph3; psimpl; eassumption.
Qed.

Lemma dupd_H S H xS xH qS q u : H = negb S ->
  InvDir S H xS xH qS (MUpd u :: q) -> InvDir H S xH xS (MUpd u :: q) qS ->
  InvDir H S xH (recv_upd xS (committed_bound H xS) u) q qS.
Proof.
  intros HSH I1 I2.
  pose proof (receiver_bound _ _ _ _ _ _ I2 I1) as RB. rewrite RB.
  destruct I1 as [j1 an nd wa wb gt gl bl m1 ph]. destruct I2 as [j1' an' nd' wa' wb' gt' gl' bl' m1' ph'].
  unfold recv_upd.
  assert (HB : hb H (mkParty (own xS) (append_upd (peer xS) (hb H xS) u)
                             (lTail xS) (lTip xS) (rTail xS) (rTip xS)) = hb H xS) by reflexivity.
  assert (LG : length (peer xS) <= length (append_upd (peer xS) (hb H xS) u))
    by apply append_upd_length_ge.
  constructor; psimpl; try assumption.
  - intros i HI. apply wb'. rewrite parents_app in HI. rewrite parents_append_upd in HI.
    rewrite <- parents_app in HI. rewrite <- app_assoc in HI. exact HI.
  - lia.
  - cbn [nsig] in ph'. ph_cases ph'.
    + apply Ph0; psimpl; assumption.
    + eapply Ph1; psimpl; try eassumption.
      destruct SA as [pre [post [EQ [N1 [N2 [C1 C2]]]]]].
      destruct pre as [|m pre]; [discriminate|]. cbn [app] in EQ. inversion EQ; subst m q.
      exists pre, post. cbn [nsig nrev] in *.
      repeat split; try assumption; psimpl.
    + eapply Ph2; psimpl; try eassumption. lia.
    + eapply Ph3; psimpl; try eassumption. lia.
Qed.

(* ---------- ODeliver to S of a commitment signature ---------- *)
Definition set_lTip (x : party) (t : option commit) : party :=
  mkParty (own x) (peer x) (lTail x) t (rTail x) (rTip x).

Lemma recv_commit S H xS xH k : H = negb S ->
  good H S (own xH) (own xS) k -> c_owner k = S ->
  n_of H k = length (peer xS) ->
  firstn (length (peer xS)) (own xH) = firstn (length (peer xS)) (peer xS) ->
  commit_of c S (c_h k) (logA_of S xS) (logB_of S xS)
    (sel S (n_of S k) (length (peer xS))) (sel S (length (peer xS)) (n_of S k)) = Some k.
Proof.
  intros -> [HK _] Ho Hn Hj. rewrite Ho in HK. etransitivity; [|exact HK].
  destruct S; cbn [sel negb n_of logA_of logB_of] in *; rewrite <- Hn;
  apply commit_of_ext; try reflexivity; rewrite Hn; symmetry; exact Hj.
Qed.

(* the head signature of the queue towards S, and what the invariant knows of it *)
Lemma head_sig S H xS xH qS q k0 :
  InvDir H S xH xS (MSig k0 :: q) qS ->
  rTip xH = Some k0 /\ kgood H S xH xS k0 /\ nsig q = 0 /\
  n_of H k0 = length (peer xS) /\ n_of S k0 = n_of S (rTail xS) /\
  lTip xS = None /\ nrev qS = 0 /\ rTail xH = lTail xS.
Proof.
  intros [j1' an' nd' wa' wb' gt' gl' bl' m1' ph'].
  ph_cases ph'; try (cbn [nsig] in NS; discriminate).
  destruct SA as [pre [post [EQ [N1 [N2 [C1 C2]]]]]].
  destruct pre as [|m pre].
  - cbn [app] in EQ. inversion EQ; subst kp post.
    unfold ev_rtail in *. cbn [replay nrev Nat.eqb] in C1, C2.
    split; [exact R|]. split; [exact G|]. repeat split; assumption.
  - cbn [app] in EQ. inversion EQ; subst m. cbn [nsig] in N1. discriminate.
Qed.

Lemma recv_sig_ok S H xS xH qS q k0 : H = negb S ->
  InvDir H S xH xS (MSig k0 :: q) qS ->
  do_recv_sig c S xS k0 = (Ok, set_lTip xS (Some k0)).
Proof.
  intros HSH I'. pose proof (head_sig _ _ _ _ _ _ _ I') as HS.
  destruct HS as [R [G [N2 [C1 [C2 [L [NR E]]]]]]].
  destruct I' as [j1' an' nd' wa' wb' gt' gl' bl' m1' ph'].
  destruct G as [HG [Ho [Hh _]]].
  assert (HJ : firstn (length (peer xS)) (own xH) = firstn (length (peer xS)) (peer xS)).
  { rewrite <- j1'. cbn [replay]. apply replay_firstn; [lia|lia|].
    intros k HI. exfalso. exact (nsig_notin _ _ N2 HI). }
  pose proof (recv_commit S H xS xH k0 HSH HG Ho C1 HJ) as HC.
  unfold do_recv_sig. cbv zeta. rewrite L. cbn [tip_of].
  rewrite Hh, E, C2 in HC. unfold sel in HC.
  rewrite HC, commit_eqb_refl. reflexivity.
Qed.

Lemma dsig_S S H xS xH qS q k0 : H = negb S ->
  InvDir S H xS xH qS (MSig k0 :: q) -> InvDir H S xH xS (MSig k0 :: q) qS ->
  InvDir S H (set_lTip xS (Some k0)) xH qS q.
Proof.
  intros HSH [j1 an nd wa wb gt gl bl m1 ph] _.
  unfold set_lTip.
  constructor; psimpl; try assumption.
  cbn [nrev] in ph.
  ph_cases ph.
  - apply Ph0; psimpl; assumption.
  - eapply Ph1; psimpl; eassumption.
  - eapply Ph2; psimpl; eassumption.
  - eapply Ph3; psimpl; eassumption.
Qed.

Lemma dsig_H S H xS xH qS q k0 : H = negb S ->
  InvDir S H xS xH qS (MSig k0 :: q) -> InvDir H S xH xS (MSig k0 :: q) qS ->
  InvDir H S xH (set_lTip xS (Some k0)) q qS.
Proof.
  intros HSH _ I'. pose proof (head_sig _ _ _ _ _ _ _ I') as HS.
  destruct HS as [R [G [N2 [C1 [C2 [L [NR E]]]]]]].
  destruct I' as [j1' an' nd' wa' wb' gt' gl' bl' m1' ph'].
  unfold set_lTip.
  constructor; psimpl; try assumption.
  eapply Ph2; psimpl; try eassumption; try reflexivity. lia.
Qed.

(* ---------- ODeliver to S of a revocation ---------- *)
Definition recv_rev (x : party) (k : commit) : party :=
  mkParty (own x) (peer x) (lTail x) (lTip x) k None.

Lemma drev_S S H xS xH qS q k : H = negb S ->
  InvDir S H xS xH qS (MRev :: q) -> InvDir H S xH xS (MRev :: q) qS ->
  rTip xS = Some k ->
  InvDir S H (recv_rev xS k) xH qS q.
Proof.
  intros HSH [j1 an nd wa wb gt gl bl m1 ph] _ HR.
  unfold recv_rev.
  ph_cases ph; cbn [nrev] in NR; try discriminate.
  assert (k = kp) by congruence. subst k.
  constructor; psimpl; try assumption.
  - destruct G as [G _]. exact G.
  - destruct m1 as [m1a m1b]. split; [apply m1b; exact R|]. intros k0 HE. discriminate.
  - apply Ph0; psimpl; try assumption; try reflexivity; [lia|congruence].
Qed.

Lemma drev_H S H xS xH qS q k : H = negb S ->
  InvDir S H xS xH qS (MRev :: q) -> InvDir H S xH xS (MRev :: q) qS ->
  rTip xS = Some k ->
  InvDir H S xH (recv_rev xS k) q qS.
Proof.
  intros HSH [j1 an nd wa wb gt gl bl m1 ph] [j1' an' nd' wa' wb' gt' gl' bl' m1' ph'] HR.
  unfold recv_rev.
  assert (HQ : nrev q = 0 /\ lTail xH = k).
  { ph_cases ph; cbn [nrev] in NR; try discriminate. split; [lia|congruence]. }
  destruct HQ as [HQ HT].
  constructor; psimpl; try assumption.
  - intros i HI. rewrite (upto_rev_norev q HQ) in HI. cbn [replay] in j1'.
    rewrite <- (parents_replay H q (peer xS) (hb H xS)), j1' in HI.
    rewrite <- HT. apply wa'. exact HI.
  - cbn [nsig] in ph'. ph_cases ph'.
    + apply Ph0; psimpl; assumption.
    + eapply Ph1; psimpl; try eassumption.
      destruct SA as [pre [post [EQ [N1 [N2 [C1 C2]]]]]].
      destruct pre as [|m pre]; [discriminate|]. cbn [app] in EQ. inversion EQ; subst m q.
      exists pre, post. cbn [nsig] in N1. cbn [replay] in C1.
      repeat split; try assumption; psimpl.
      unfold ev_rtail in *. cbn [nrev Nat.eqb] in C2. psimpl. rewrite HR in C2. cbn [tip_of] in *.
      rewrite C2. destruct (Nat.eqb (nrev pre) 0); reflexivity.
    + eapply Ph2; psimpl; eassumption.
    + eapply Ph3; psimpl; eassumption.
Qed.

(* ---------- the system invariant ---------- *)
Definition Inv (s : sys) : Prop :=
  InvDir true false (pA s) (pB s) (qAB s) (qBA s) /\
  InvDir false true (pB s) (pA s) (qBA s) (qAB s).

Lemma inv_get s : Inv s -> forall p,
  InvDir p (negb p) (get s p) (get s (negb p)) (outq s p) (outq s (negb p)) /\
  InvDir (negb p) p (get s (negb p)) (get s p) (outq s (negb p)) (outq s p).
Proof. intros [I1 I2] [|]; cbn; tauto. Qed.

Lemma do_sign_ok p x x' m :
  do_sign c p x = (Ok, x', Some m) ->
  exists k, rTip x = None /\
    commit_of c (negb p) (c_h (rTail x) + 1)%Z (logA_of p x) (logB_of p x)
      (sel p (length (own x)) (n_of (negb p) (lTail x)))
      (sel p (n_of (negb p) (lTail x)) (length (own x))) = Some k /\
    x' = set_rTip x (Some k) /\ m = MSig k.
Proof.
  unfold do_sign, sel. destruct (rTip x); [discriminate|]. cbv zeta.
  destruct (commit_of _ _ _ _ _ _ _) as [k|]; [|discriminate].
  intros HE. inversion HE; subst. exists k. repeat split.
Qed.

Lemma do_revoke_ok x x' m :
  do_revoke x = (Ok, x', Some m) ->
  exists k, lTip x = Some k /\ x' = revoked x k /\ m = MRev.
Proof.
  unfold do_revoke. destruct (lTip x) as [k|]; [|discriminate].
  intros HE. inversion HE; subst. exists k. repeat split.
Qed.

Lemma do_recv_rev_ok x x' :
  do_recv_rev x = (Ok, x') -> exists k, rTip x = Some k /\ x' = recv_rev x k.
Proof.
  unfold do_recv_rev. destruct (rTip x) as [k|]; [|discriminate].
  intros HE. inversion HE; subst. exists k. repeat split.
Qed.

Lemma init_commit_good S H o k : init_commit c o = Some k ->
  good S H [] [] k /\ n_of S k = 0 /\ n_of H k = 0.
Proof.
  unfold init_commit. intros HK. pose proof (commit_of_inv _ _ _ _ _ _ _ _ HK) as HI.
  destruct HI as [gA [gB [_ [_ HI]]]]. cbv zeta in HI.
  destruct HI as [_ [_ [_ [Ho [Hh [HnA [HnB _]]]]]]].
  unfold good. rewrite Ho, Hh, HnA, HnB.
  assert (E : forall b, n_of b k = 0) by (intros [|]; cbn; assumption).
  rewrite !E. destruct S; cbn [sel length]; repeat split; try exact HK; lia.
Qed.

Lemma inv_init s0 : init_sys c = Some s0 -> Inv s0.
Proof.
  unfold init_sys, init_party. cbn [negb].
  destruct (init_commit c true) as [ka|] eqn:HA; [|discriminate].
  destruct (init_commit c false) as [kb|] eqn:HB; [|discriminate].
  intros HE. inversion HE; subst s0; clear HE.
  assert (EA : forall b, n_of b ka = 0).
  { intros b. destruct (init_commit_good b b _ _ HA) as [_ [E _]]. exact E. }
  assert (EB : forall b, n_of b kb = 0).
  { intros b. destruct (init_commit_good b b _ _ HB) as [_ [E _]]. exact E. }
  split; constructor; cbn [pA pB qAB qBA own peer lTail lTip rTail rTip app upds_in upto_rev];
    try reflexivity; try (constructor; fail); try (intros ? []);
    try (eapply init_commit_good; eassumption);
    rewrite ?EA, ?EB; cbn [length]; try lia;
    try (split; [lia|intros ? ?; discriminate]);
    apply Ph0; reflexivity.
Qed.

Lemma inv_step_send s p u : Inv s -> Inv (snd (step c s (OSend p u))).
Proof.
  intros HI. destruct HI as [I1 I2]. unfold step.
  destruct (upd_enabled c p (get s p) u) eqn:HE; [|split; assumption].
  destruct p; cbn [get set outq set_outq snd pA pB qAB qBA] in *; split.
  - eapply send_S; try eassumption; reflexivity.
  - eapply send_H; try eassumption; reflexivity.
  - eapply send_H; try eassumption; reflexivity.
  - eapply send_S; try eassumption; reflexivity.
Qed.

Lemma inv_step_sign s p : Inv s -> Inv (snd (step c s (OSign p))).
Proof.
  intros HI. destruct HI as [I1 I2]. unfold step.
  destruct (do_sign c p (get s p)) as [[r x'] [m|]] eqn:HD;
    destruct r; try (split; assumption).
  apply do_sign_ok in HD. destruct HD as [k [HR [HK [-> ->]]]].
  destruct p; cbn [get set outq set_outq snd pA pB qAB qBA negb] in *; split.
  - eapply sign_S; try eassumption; reflexivity.
  - eapply sign_H; try eassumption; reflexivity.
  - eapply sign_H; try eassumption; reflexivity.
  - eapply sign_S; try eassumption; reflexivity.
Qed.

Lemma inv_step_revoke s p : Inv s -> Inv (snd (step c s (ORevoke p))).
Proof.
  intros HI. destruct HI as [I1 I2]. unfold step.
  destruct (do_revoke (get s p)) as [[r x'] [m|]] eqn:HD;
    destruct r; try (split; assumption).
  apply do_revoke_ok in HD. destruct HD as [k [HL [-> ->]]].
  destruct p; cbn [get set outq set_outq snd pA pB qAB qBA negb] in *; split.
  - eapply revoke_S; try eassumption; reflexivity.
  - eapply revoke_H; try eassumption; reflexivity.
  - eapply revoke_H; try eassumption; reflexivity.
  - eapply revoke_S; try eassumption; reflexivity.
Qed.

Lemma inv_step_deliver s p : Inv s -> Inv (snd (step c s (ODeliver p))).
Proof.
  intros HI. pose proof HI as [I1 I2]. unfold step.
  destruct (outq s (negb p)) as [|m q] eqn:HQ; [exact HI|].
  destruct m as [u|k|].
  - (* update *)
    destruct p; cbn [get set outq set_outq snd pA pB qAB qBA negb] in *; rewrite HQ in *; split.
    + eapply dupd_S; try eassumption; reflexivity.
    + eapply dupd_H; try eassumption; reflexivity.
    + eapply dupd_H; try eassumption; reflexivity.
    + eapply dupd_S; try eassumption; reflexivity.
  - (* signature *)
    destruct p; cbn [get set outq set_outq snd pA pB qAB qBA negb] in *; rewrite HQ in *.
    + rewrite (recv_sig_ok true false _ _ _ _ _ eq_refl I2). cbn [snd pA pB qAB qBA]. split.
      * eapply dsig_S; try eassumption; reflexivity.
      * eapply dsig_H; try eassumption; reflexivity.
    + rewrite (recv_sig_ok false true _ _ _ _ _ eq_refl I1). cbn [snd pA pB qAB qBA]. split.
      * eapply dsig_H; try eassumption; reflexivity.
      * eapply dsig_S; try eassumption; reflexivity.
  - (* revocation *)
    destruct (do_recv_rev (get s p)) as [r x'] eqn:HD. destruct r; try exact HI.
    apply do_recv_rev_ok in HD. destruct HD as [k [HR ->]].
    destruct p; cbn [get set outq set_outq snd pA pB qAB qBA negb] in *; rewrite HQ in *; split.
    + eapply drev_S; try eassumption; reflexivity.
    + eapply drev_H; try eassumption; reflexivity.
    + eapply drev_H; try eassumption; reflexivity.
    + eapply drev_S; try eassumption; reflexivity.
Qed.

Lemma inv_step s o : Inv s -> Inv (snd (step c s o)).
Proof.
  destruct o; [apply inv_step_send|apply inv_step_sign|apply inv_step_revoke|apply inv_step_deliver].
Qed.

Lemma inv_run ops : forall s, Inv s -> Inv (run c s ops).
Proof.
  unfold run. induction ops as [|o ops IH]; intros s HI; cbn [fold_left]; [exact HI|].
  apply IH. apply inv_step. exact HI.
Qed.

Definition reachable (s : sys) : Prop :=
  exists s0 ops, init_sys c = Some s0 /\ s = run c s0 ops.

Lemma inv_reachable s : reachable s -> Inv s.
Proof. intros [s0 [ops [H0 ->]]]. apply inv_run. apply inv_init. exact H0. Qed.

(* ------------------------------------------------------------------ *)
(* Part D: consequences of the invariant                               *)

Lemma good_conserved S H lS lH k : cfg_ok c ->
  amounts_nonneg lS -> amounts_nonneg lH -> good S H lS lH k -> conserved c k.
Proof.
  intros HC HS HH [HK _]. destruct S; cbn [sel] in HK;
  eapply commit_of_conserved; eassumption.
Qed.

Lemma phase_rtip_good S H xS xH qS qH k :
  phase S H xS xH qS qH -> rTip xS = Some k -> good S H (own xS) (own xH) k.
Proof. intros ph HR. ph_cases ph; try congruence; destruct G as [G _]; congruence. Qed.

Lemma phase_ltip_good S H xS xH qS qH k :
  phase S H xS xH qS qH -> lTip xH = Some k -> good S H (own xS) (own xH) k.
Proof. intros ph HR. ph_cases ph; try congruence; destruct G as [G _]; congruence. Qed.

Lemma phase_sig_good S H xS xH qS qH k :
  phase S H xS xH qS qH -> In (MSig k) qS -> good S H (own xS) (own xH) k.
Proof.
  intros ph HI. ph_cases ph; try (exfalso; eapply nsig_notin; eassumption).
  destruct SA as [pre [post [EQ [N1 [N2 _]]]]]. subst qS.
  apply in_app_or in HI. destruct HI as [HI|[HI|HI]].
  - exfalso. exact (nsig_notin _ _ N1 HI).
  - inversion HI; subst. destruct G as [G _]. exact G.
  - exfalso. exact (nsig_notin _ _ N2 HI).
Qed.

Lemma inv_conservation s : cfg_ok c -> Inv s ->
  forall p k, In k (commits_of (get s p)) -> conserved c k.
Proof.
  intros HC HI p k HK. destruct (inv_get s HI p) as [I1 I2].
  destruct I1 as [j1 an nd wa wb gt gl bl m1 ph]. destruct I2 as [j1' an' nd' wa' wb' gt' gl' bl' m1' ph'].
  unfold commits_of in HK. cbn [In] in HK.
  destruct HK as [<-|[<-|HK]].
  - eapply good_conserved; [exact HC| | |exact gl']; assumption.
  - eapply good_conserved; [exact HC| | |exact gt]; assumption.
  - apply in_app_or in HK. destruct HK as [HK|HK].
    + destruct (lTip (get s p)) as [k'|] eqn:HL; [|contradiction].
      destruct HK as [<-|[]].
      eapply good_conserved; [exact HC| | |exact (phase_ltip_good _ _ _ _ _ _ _ ph' HL)]; assumption.
    + destruct (rTip (get s p)) as [k'|] eqn:HR; [|contradiction].
      destruct HK as [<-|[]].
      eapply good_conserved; [exact HC| | |exact (phase_rtip_good _ _ _ _ _ _ _ ph HR)]; assumption.
Qed.

Lemma inv_conservation_inflight s : cfg_ok c -> Inv s ->
  forall p k, In (MSig k) (outq s p) -> conserved c k.
Proof.
  intros HC HI p k HK. destruct (inv_get s HI p) as [I1 I2].
  destruct I1 as [j1 an nd wa wb gt gl bl m1 ph]. destruct I2 as [j1' an' nd' wa' wb' gt' gl' bl' m1' ph'].
  eapply good_conserved; [exact HC| | |exact (phase_sig_good _ _ _ _ _ _ _ ph HK)]; assumption.
Qed.

Lemma inv_agreement s : Inv s -> forall p k q,
  outq s (negb p) = MSig k :: q -> fst (step c s (ODeliver p)) = Ok.
Proof.
  intros HI p k q HQ. destruct (inv_get s HI p) as [I1 I2]. rewrite HQ in I2.
  unfold step. rewrite HQ.
  rewrite (recv_sig_ok p (negb p) _ _ _ _ _ eq_refl I2). reflexivity.
Qed.

Lemma inv_mirror s : Inv s -> quiescent s ->
  lTail (pA s) = rTail (pB s) /\ rTail (pA s) = lTail (pB s).
Proof.
  intros [I1 I2] [_ [_ [_ [RA [_ RB]]]]].
  destruct I1 as [j1 an nd wa wb gt gl bl m1 ph]. destruct I2 as [j1' an' nd' wa' wb' gt' gl' bl' m1' ph'].
  split.
  - ph_cases ph'; try congruence.
  - ph_cases ph; try congruence.
Qed.

Lemma phase_window S H xS xH qS qH : phase S H xS xH qS qH ->
  nsig qS <= 1 /\ (rTip xS = None -> nsig qS = 0 /\ lTip xH = None).
Proof.
  intros ph. ph_cases ph.
  - split; [lia|]. intros _. split; assumption.
  - destruct SA as [pre [post [EQ [N1 [N2 _]]]]]. subst qS.
    rewrite nsig_app. cbn [nsig]. split; [lia|]. congruence.
  - split; [lia|]. congruence.
  - split; [lia|]. congruence.
Qed.

Lemma inv_window s : Inv s -> forall p,
  nsig (outq s p) <= 1 /\
  (rTip (get s p) = None -> nsig (outq s p) = 0 /\ lTip (get s (negb p)) = None).
Proof.
  intros HI p. destruct (inv_get s HI p) as [I1 _]. destruct I1. eapply phase_window. eassumption.
Qed.

(* ---------- well-formed cuts (T6) ---------- *)
(* the cut p uses in SignNextCommitment / ReceiveNewCommitment, as (nA, nB) *)
Definition sign_cut (p : bool) (x : party) : nat * nat :=
  (sel p (length (own x)) (n_of (negb p) (lTail x)),
   sel p (n_of (negb p) (lTail x)) (length (own x))).
Definition recv_cut (p : bool) (x : party) : nat * nat :=
  (sel p (n_of p (rTail x)) (length (peer x)),
   sel p (length (peer x)) (n_of p (rTail x))).

Lemma do_sign_cut p x :
  do_sign c p x =
  match rTip x with
  | Some _ => (ErrNoWindow, x, None)
  | None =>
    match commit_of c (negb p) (c_h (rTail x) + 1)%Z (logA_of p x) (logB_of p x)
                    (fst (sign_cut p x)) (snd (sign_cut p x)) with
    | None => (ErrSanity, x, None)
    | Some k => (Ok, set_rTip x (Some k), Some (MSig k))
    end
  end.
Proof. reflexivity. Qed.

Lemma do_recv_sig_cut p x k :
  do_recv_sig c p x k =
  match commit_of c p (c_h (tip_of (lTail x) (lTip x)) + 1)%Z (logA_of p x) (logB_of p x)
                  (fst (recv_cut p x)) (snd (recv_cut p x)) with
  | None => (ErrSanity, x)
  | Some k' => if commit_eqb k' k then (Ok, set_lTip x (Some k')) else (ErrSigInvalid, x)
  end.
Proof. reflexivity. Qed.

Lemma wf_SH S lS lH nS nH :
  NoDup (parents (firstn nS lS)) -> NoDup (parents (firstn nH lH)) ->
  (forall i, In i (parents (firstn nH lH)) -> exists a, add_pos lS i = Some a /\ a < nS) ->
  (forall i, In i (parents (firstn nS lS)) -> exists a, add_pos lH i = Some a /\ a < nH) ->
  commit_wf (sel S lS lH) (sel S lH lS) (sel S nS nH) (sel S nH nS) = true.
Proof. destruct S; cbn [sel]; intros; apply commit_wf_intro; assumption. Qed.

Lemma wf_logs S xS xH nS nH :
  firstn nH (peer xS) = firstn nH (own xH) ->
  commit_wf (logA_of S xS) (logB_of S xS) (sel S nS nH) (sel S nH nS) =
  commit_wf (sel S (own xS) (own xH)) (sel S (own xH) (own xS)) (sel S nS nH) (sel S nH nS).
Proof.
  intros HF. destruct S; cbn [sel logA_of logB_of]; apply commit_wf_ext; try reflexivity; exact HF.
Qed.

Lemma sign_cut_wf S H xS xH qS qH : H = negb S ->
  InvDir S H xS xH qS qH -> InvDir H S xH xS qH qS ->
  commit_wf (logA_of S xS) (logB_of S xS) (fst (sign_cut S xS)) (snd (sign_cut S xS)) = true.
Proof.
  intros HSH I1 I2.
  pose proof (peer_prefix _ _ _ _ _ _ _ I2 (le_n _)) as PP.
  destruct I1 as [j1 an nd wa wb gt gl bl m1 ph]. destruct I2 as [j1' an' nd' wa' wb' gt' gl' bl' m1' ph'].
  unfold sign_cut. cbn [fst snd]. rewrite <- HSH.
  rewrite (wf_logs S xS xH); [|exact PP].
  apply wf_SH.
  - apply nodup_parents_firstn. exact nd.
  - apply nodup_parents_firstn. exact nd'.
  - intros i HI. apply parents_firstn_in in HI. destruct (wa' i HI) as [a [HP _]].
    exists a. split; [exact HP|]. apply add_pos_bound in HP. exact HP.
  - intros i HI. apply parents_firstn_in in HI. exact (wa i HI).
Qed.

(* the cut used when the head signature of the queue towards S is delivered *)
Lemma recv_cut_wf S H xS xH qS q k0 : H = negb S ->
  InvDir S H xS xH qS (MSig k0 :: q) -> InvDir H S xH xS (MSig k0 :: q) qS ->
  commit_wf (logA_of S xS) (logB_of S xS) (fst (recv_cut S xS)) (snd (recv_cut S xS)) = true.
Proof.
  intros HSH I1 I2.
  pose proof (recv_sig_ok _ _ _ _ _ _ _ HSH I2) as HOK.
  rewrite do_recv_sig_cut in HOK.
  destruct (commit_of c S (c_h (tip_of (lTail xS) (lTip xS)) + 1)%Z (logA_of S xS) (logB_of S xS)
              (fst (recv_cut S xS)) (snd (recv_cut S xS))) as [k'|] eqn:HK; [|discriminate].
  apply commit_of_inv in HK. destruct HK as [gA [gB [HW _]]]. exact HW.
Qed.

Lemma inv_wf s : Inv s -> forall p,
  let x := get s p in
  commit_wf (logA_of p x) (logB_of p x) (fst (sign_cut p x)) (snd (sign_cut p x)) = true /\
  (forall k q, outq s (negb p) = MSig k :: q ->
   commit_wf (logA_of p x) (logB_of p x) (fst (recv_cut p x)) (snd (recv_cut p x)) = true).
Proof.
  intros HI p x. destruct (inv_get s HI p) as [I1 I2]. split.
  - eapply sign_cut_wf; try eassumption; reflexivity.
  - intros k q HQ. rewrite HQ in I1, I2. eapply recv_cut_wf; try eassumption; reflexivity.
Qed.

(* a refused signature (ErrSanity) is always a money refusal, never a malformed cut *)
Lemma inv_sign_sanity s : Inv s -> forall p,
  fst (step c s (OSign p)) = ErrSanity ->
  let x := get s p in
  let nA := fst (sign_cut p x) in let nB := snd (sign_cut p x) in
  exists gA gB, cut_gross c (logA_of p x) (logB_of p x) nA nB = Some (gA, gB) /\
    (gA < 0 \/ gB < 0 \/
     (if opener c then gA else gB)
       <= 1000 * cut_fee c (negb p) (logA_of p x) (logB_of p x) nA nB)%Z.
Proof.
  intros HI p HE x nA nB. destruct (inv_wf s HI p) as [HW _].
  unfold step in HE. rewrite do_sign_cut in HE. fold x in HE, HW.
  destruct (rTip x); [discriminate|].
  destruct (commit_of c (negb p) (c_h (rTail x) + 1)%Z (logA_of p x) (logB_of p x)
              (fst (sign_cut p x)) (snd (sign_cut p x))) eqn:HK; [discriminate|].
  apply commit_of_none_wf in HK; [|exact HW]. exact HK.
Qed.

End Invariant.

(* ------------------------------------------------------------------ *)
(* Statements over reachable states, in the form used by Props_C01.v   *)

Lemma reach_conservation c s : cfg_ok c -> reachable c s ->
  forall p k, In k (commits_of (get s p)) -> conserved c k.
Proof. intros HC HR. apply inv_conservation; [exact HC|apply inv_reachable; exact HR]. Qed.

Lemma reach_conservation_inflight c s : cfg_ok c -> reachable c s ->
  forall p k, In (MSig k) (outq s p) -> conserved c k.
Proof. intros HC HR. apply inv_conservation_inflight; [exact HC|apply inv_reachable; exact HR]. Qed.

Lemma reach_agreement c s : cfg_ok c -> reachable c s -> forall p k q,
  outq s (negb p) = MSig k :: q -> fst (step c s (ODeliver p)) = Ok.
Proof. intros _ HR. apply inv_agreement. apply inv_reachable. exact HR. Qed.

Lemma reach_mirror c s : reachable c s -> quiescent s ->
  lTail (pA s) = rTail (pB s) /\ rTail (pA s) = lTail (pB s).
Proof. intros HR. apply (inv_mirror c). apply inv_reachable. exact HR. Qed.

Lemma reach_window c s : reachable c s -> forall p,
  nsig (outq s p) <= 1 /\
  (rTip (get s p) = None -> nsig (outq s p) = 0 /\ lTip (get s (negb p)) = None).
Proof. intros HR. apply (inv_window c). apply inv_reachable. exact HR. Qed.

Lemma reach_wf c s : reachable c s -> forall p,
  let x := get s p in
  commit_wf (logA_of p x) (logB_of p x) (fst (sign_cut p x)) (snd (sign_cut p x)) = true /\
  (forall k q, outq s (negb p) = MSig k :: q ->
   commit_wf (logA_of p x) (logB_of p x) (fst (recv_cut p x)) (snd (recv_cut p x)) = true).
Proof. intros HR. apply (inv_wf c). apply inv_reachable. exact HR. Qed.

Lemma reach_sign_sanity c s : reachable c s -> forall p,
  fst (step c s (OSign p)) = ErrSanity ->
  let x := get s p in
  let nA := fst (sign_cut p x) in let nB := snd (sign_cut p x) in
  exists gA gB, cut_gross c (logA_of p x) (logB_of p x) nA nB = Some (gA, gB) /\
    (gA < 0 \/ gB < 0 \/
     (if opener c then gA else gB)
       <= 1000 * cut_fee c (negb p) (logA_of p x) (logB_of p x) nA nB)%Z.
Proof. intros HR. apply inv_sign_sanity. apply inv_reachable. exact HR. Qed.
