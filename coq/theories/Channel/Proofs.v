(* Proofs about the channel state-machine model (Channel/Model.v).
   Part A: list algebra of cuts; conservation and the balance formula for ANY
           cut (no reachability): [commit_of_conserved], [commit_of_balance].
   Part B: commit_of only reads prefixes; well-formedness of a cut
           ([commit_wf]); [commit_of_none_wf].
   Part C: queues, the two-party invariant [Inv] (one [InvDir] per direction),
           [inv_init], one preservation lemma per op, [inv_step], [inv_run].
   Part D: the theorems derived from [Inv] (agreement, mirror, window, wf). *)
From Coq Require Import List ZArith Bool Arith Lia.
From Coq Require Import ZifyBool ZifyNat.
From LV Require Import Channel.Model.
Import ListNotations.
Local Open Scope Z_scope.

Ltac Zify.zify_post_hook ::= Z.div_mod_to_equations.

(* ------------------------------------------------------------------ *)
(* Part A: list algebra                                                *)

Definition upd_nonneg (u : upd) : Prop :=
  match u with UAdd a _ _ => 0 <= a | _ => True end.
Definition amounts_nonneg (l : list upd) : Prop := Forall upd_nonneg l.

Definition parents (l : list upd) : list nat := map fst (removes_of l).

Lemma adds_from_ge l : forall i x, In x (adds_from l i) -> (i <= a_idx x)%nat.
Proof.
  induction l as [|u l IH]; intros i x HI; cbn in HI; [contradiction|].
  destruct u; try (apply IH; exact HI).
  destruct HI as [<-|HI]; cbn; [lia|]. apply IH in HI. lia.
Qed.

Lemma adds_from_nodup l : forall i, NoDup (map a_idx (adds_from l i)).
Proof.
  induction l as [|u l IH]; intros i; cbn; [constructor|].
  destruct u; try apply IH.
  cbn. constructor; [|apply IH].
  intros HI. apply in_map_iff in HI. destruct HI as [x [E HI]].
  apply adds_from_ge in HI. lia.
Qed.

Lemma adds_from_amt_nonneg l : amounts_nonneg l ->
  forall i x, In x (adds_from l i) -> 0 <= a_amt x.
Proof.
  induction 1 as [|u l Hu Hl IH]; intros i x HI; cbn in HI; [contradiction|].
  destruct u; try (eapply IH; exact HI).
  destruct HI as [<-|HI]; cbn; [exact Hu|]. eapply IH; exact HI.
Qed.

Lemma in_firstn {A} n : forall (l : list A) x, In x (firstn n l) -> In x l.
Proof.
  induction n as [|n IH]; intros [|y l] x HI; cbn in HI; try contradiction.
  destruct HI as [E|HI]; [left; exact E|right; apply IH; exact HI].
Qed.

Lemma amounts_nonneg_firstn n l : amounts_nonneg l -> amounts_nonneg (firstn n l).
Proof.
  intros HA. unfold amounts_nonneg in *. rewrite Forall_forall in *.
  intros u HI. apply HA. apply in_firstn in HI. exact HI.
Qed.

Lemma filter_ne_notin L p :
  ~ In p (map a_idx L) ->
  filter (fun x => negb (Nat.eqb p (a_idx x))) L = L.
Proof.
  induction L as [|x L IH]; intros HN; cbn; [reflexivity|].
  cbn in HN.
  destruct (Nat.eqb_spec p (a_idx x)) as [E|E]; cbn.
  - exfalso. apply HN. left. congruence.
  - f_equal. apply IH. intros HI. apply HN. right. exact HI.
Qed.

Lemma sum_adds_cons x L : sum_adds (x :: L) = a_amt x + sum_adds L.
Proof. reflexivity. Qed.

Lemma sum_filter_ne L p a :
  NoDup (map a_idx L) -> lookup_add L p = Some a ->
  sum_adds (filter (fun x => negb (Nat.eqb p (a_idx x))) L) = sum_adds L - a.
Proof.
  induction L as [|x L IH]; intros HND HL; [discriminate|].
  cbn [map] in HND. inversion HND as [|? ? HNI HND']; subst.
  cbn [lookup_add] in HL. cbn [filter]. rewrite sum_adds_cons.
  destruct (Nat.eqb_spec p (a_idx x)) as [E|E]; cbn [negb].
  - inversion HL; subst a. rewrite filter_ne_notin; [lia|]. rewrite E. exact HNI.
  - rewrite sum_adds_cons, IH by assumption. lia.
Qed.

Lemma lookup_filter L (f : addent -> bool) p :
  (forall x, In x L -> a_idx x = p -> f x = true) ->
  lookup_add (filter f L) p = lookup_add L p.
Proof.
  induction L as [|x L IH]; intros HF; cbn; [reflexivity|].
  destruct (Nat.eqb_spec p (a_idx x)) as [E|E].
  - rewrite HF by (auto using in_eq). cbn. rewrite E, Nat.eqb_refl. reflexivity.
  - destruct (f x); cbn.
    + destruct (Nat.eqb_spec p (a_idx x)); [contradiction|].
      apply IH. intros y HI. apply HF. right. exact HI.
    + apply IH. intros y HI. apply HF. right. exact HI.
Qed.

Lemma nodup_map_filter {A B} (g : A -> B) (f : A -> bool) L :
  NoDup (map g L) -> NoDup (map g (filter f L)).
Proof.
  induction L as [|x L IH]; intros HND; cbn; [constructor|].
  inversion HND as [|? ? HNI HND']; subst.
  destruct (f x); cbn; [|apply IH; exact HND'].
  constructor; [|apply IH; exact HND'].
  intros HI. apply HNI. apply in_map_iff in HI. destruct HI as [y [E HI]].
  apply filter_In in HI. apply in_map_iff. exists y. tauto.
Qed.

Lemma existsb_fst_map (rems : list (nat * bool)) i :
  existsb (fun r => Nat.eqb (fst r) i) rems = existsb (fun y => Nat.eqb y i) (map fst rems).
Proof. induction rems as [|r rems IH]; cbn; [reflexivity|]. rewrite IH. reflexivity. Qed.

Lemma existsb_eqb_false l p :
  existsb (Nat.eqb p) l = false -> ~ In p l.
Proof.
  intros HE HI. assert (existsb (Nat.eqb p) l = true); [|congruence].
  apply existsb_exists. exists p. split; [exact HI|apply Nat.eqb_refl].
Qed.

Lemma existsb_eqb_in l p :
  existsb (Nat.eqb p) l = true <-> In p l.
Proof.
  rewrite existsb_exists. split.
  - intros [y [HI E]]. apply Nat.eqb_eq in E. subst. exact HI.
  - intros HI. exists p. split; [exact HI|apply Nat.eqb_refl].
Qed.

Lemma live_adds_cons adds p s rems :
  live_adds adds ((p, s) :: rems) =
  filter (fun x => negb (Nat.eqb p (a_idx x))) (live_adds adds rems).
Proof.
  unfold live_adds. induction adds as [|x L IH]; cbn [filter]; [reflexivity|].
  rewrite IH. cbn [existsb fst].
  destruct (Nat.eqb p (a_idx x)) eqn:E; cbn [orb negb].
  - destruct (negb _); cbn [filter]; [rewrite E|]; reflexivity.
  - destruct (negb _); cbn [filter]; [rewrite E|]; reflexivity.
Qed.

Lemma live_adds_nil adds : live_adds adds [] = adds.
Proof.
  unfold live_adds. induction adds as [|x L IH]; cbn; [reflexivity|]. f_equal. exact IH.
Qed.

Lemma live_adds_nodup adds rems :
  NoDup (map a_idx adds) -> NoDup (map a_idx (live_adds adds rems)).
Proof. apply nodup_map_filter. Qed.

Lemma lookup_live adds rems p :
  ~ In p (map fst rems) -> lookup_add (live_adds adds rems) p = lookup_add adds p.
Proof.
  intros HN. apply lookup_filter. intros x _ E. subst p.
  rewrite existsb_fst_map.
  destruct (existsb _ _) eqn:HE; [|reflexivity].
  exfalso. apply HN. apply existsb_exists in HE. destruct HE as [y [HI E]].
  apply Nat.eqb_eq in E. subst. exact HI.
Qed.

(* the live HTLC pool of a cut: included adds minus the removed amounts *)
Lemma live_sum adds : NoDup (map a_idx adds) ->
  forall rems st fl, nodupb (map fst rems) = true ->
  removed_amounts adds rems = Some (st, fl) ->
  sum_adds (live_adds adds rems) = sum_adds adds - st - fl.
Proof.
  intros HND. induction rems as [|[p s] rems IH]; intros st fl HN HR.
  - cbn in HR. inversion HR; subst. rewrite live_adds_nil. lia.
  - cbn [removed_amounts] in HR. cbn [map fst nodupb] in HN.
    apply andb_true_iff in HN. destruct HN as [HN1 HN2].
    apply negb_true_iff in HN1. apply existsb_eqb_false in HN1.
    destruct (lookup_add adds p) as [a|] eqn:HL; [|discriminate].
    destruct (removed_amounts adds rems) as [[st' fl']|] eqn:HR'; [|discriminate].
    rewrite live_adds_cons.
    rewrite (sum_filter_ne _ p a).
    + rewrite (IH st' fl' HN2 eq_refl).
      destruct s; inversion HR; subst; lia.
    + apply live_adds_nodup. exact HND.
    + rewrite lookup_live by exact HN1. exact HL.
Qed.

Lemma sum_htlc_mk c o f r L : sum_htlc_msat (mk_htlcs c o f r L) = sum_adds L.
Proof.
  unfold sum_htlc_msat, mk_htlcs, sum_adds.
  induction L as [|x L IH]; cbn [map fold_right h_amt]; [reflexivity|]. rewrite IH. reflexivity.
Qed.

Lemma sum_htlc_app a b : sum_htlc_msat (a ++ b) = sum_htlc_msat a + sum_htlc_msat b.
Proof.
  unfold sum_htlc_msat. induction a as [|x a IH]; cbn [app fold_right]; [reflexivity|]. rewrite IH. lia.
Qed.

Definition htlcs_nonneg (hs : list htlc) : Prop := Forall (fun h => 0 <= h_amt h) hs.

Lemma sum_ontx_le hs : htlcs_nonneg hs -> 1000 * sum_ontx_sat hs <= sum_htlc_msat hs.
Proof.
  unfold sum_ontx_sat, sum_htlc_msat.
  induction 1 as [|h hs Hh Hhs IH]; cbn [fold_right]; [lia|].
  destruct (h_ontx h); lia.
Qed.

Lemma mk_htlcs_nonneg c o f r L :
  (forall x, In x L -> 0 <= a_amt x) -> htlcs_nonneg (mk_htlcs c o f r L).
Proof.
  intros HL. unfold htlcs_nonneg, mk_htlcs. rewrite Forall_forall. intros h HI.
  apply in_map_iff in HI. destruct HI as [x [<- HI]]. cbn. apply HL. exact HI.
Qed.

Lemma live_adds_in adds rems x : In x (live_adds adds rems) -> In x adds.
Proof. unfold live_adds. intros HI. apply filter_In in HI. tauto. Qed.

(* sat-level outputs of a descriptor, as computed inside [commit_of] *)
Definition outs_of (c : cfg) (owner : bool) (balA balB : Z) (hs : list htlc) : Z :=
  let n := count_ontx hs in
  let d := dust_sat (side c owner) in
  let own_sat := (if owner then balA else balB) / 1000 in
  let oth_sat := (if owner then balB else balA) / 1000 in
  let own_out := d <=? own_sat in
  let oth_out := d <=? oth_sat in
  let anc1 := anchors c && (own_out || (0 <? n)) in
  let anc2 := anchors c && (oth_out || (0 <? n)) in
  (if own_out then own_sat else 0) + (if oth_out then oth_sat else 0)
  + (if anc1 then anchor_size c else 0) + (if anc2 then anchor_size c else 0)
  + sum_ontx_sat hs.

Lemma outs_of_le c owner balA balB hs :
  0 <= balA -> 0 <= balB -> 0 <= anchor_size c -> htlcs_nonneg hs ->
  1000 * outs_of c owner balA balB hs
  <= balA + balB + (if anchors c then 2000 * anchor_size c else 0) + sum_htlc_msat hs.
Proof.
  intros HA HB HS HH. apply sum_ontx_le in HH. unfold outs_of. cbv zeta.
  destruct (anchors c); cbn [andb];
  destruct owner;
  repeat match goal with |- context [if ?b then _ else _] => destruct b end; lia.
Qed.

(* the gross (fee added back) balances, fee rate, HTLC list and fee of a cut *)
Definition cut_uA (lA : list upd) (nA : nat) := firstn nA lA.
Definition cut_gross (c : cfg) (lA lB : list upd) (nA nB : nat) : option (Z * Z) :=
  let uA := firstn nA lA in
  let uB := firstn nB lB in
  match removed_amounts (adds_of uA) (removes_of uB),
        removed_amounts (adds_of uB) (removes_of uA) with
  | Some (setA, failA), Some (setB, failB) =>
    Some (gross0A c - sum_adds (adds_of uA) + failA + setB,
          gross0B c - sum_adds (adds_of uB) + failB + setA)
  | _, _ => None
  end.
Definition cut_rate (c : cfg) (lA lB : list upd) (nA nB : nat) : Z :=
  last_fee (if opener c then firstn nA lA else firstn nB lB) (rate0 c).
Definition cut_htlcs (c : cfg) (owner : bool) (lA lB : list upd) (nA nB : nat) : list htlc :=
  let uA := firstn nA lA in
  let uB := firstn nB lB in
  let rate := cut_rate c lA lB nA nB in
  mk_htlcs c owner true rate (live_adds (adds_of uA) (removes_of uB)) ++
  mk_htlcs c owner false rate (live_adds (adds_of uB) (removes_of uA)).
Definition cut_fee (c : cfg) (owner : bool) (lA lB : list upd) (nA nB : nat) : Z :=
  fee_for_weight (cut_rate c lA lB nA nB)
    (commit_weight c + htlc_weight c * count_ontx (cut_htlcs c owner lA lB nA nB)).

(* well-formedness of a cut: every check of [commit_of] that is NOT about money *)
Definition commit_wf (lA lB : list upd) (nA nB : nat) : bool :=
  let uA := firstn nA lA in
  let uB := firstn nB lB in
  nodupb (parents uB) && nodupb (parents uA)
  && (match removed_amounts (adds_of uA) (removes_of uB) with Some _ => true | None => false end)
  && (match removed_amounts (adds_of uB) (removes_of uA) with Some _ => true | None => false end).

(* characterisation of a successful [commit_of] *)
Lemma commit_of_inv c o h lA lB nA nB k :
  commit_of c o h lA lB nA nB = Some k ->
  exists gA gB,
    commit_wf lA lB nA nB = true /\
    cut_gross c lA lB nA nB = Some (gA, gB) /\
    let fee := cut_fee c o lA lB nA nB in
    0 <= gA /\ 0 <= gB /\ fee * 1000 < (if opener c then gA else gB) /\
    c_owner k = o /\ c_h k = h /\ c_nA k = nA /\ c_nB k = nB /\
    c_balA k = (if opener c then gA - fee * 1000 else gA) /\
    c_balB k = (if opener c then gB else gB - fee * 1000) /\
    c_fee k = fee /\ c_rate k = cut_rate c lA lB nA nB /\
    c_htlcs k = cut_htlcs c o lA lB nA nB /\
    c_outs k = outs_of c o (c_balA k) (c_balB k) (c_htlcs k).
Proof.
  unfold commit_of, commit_wf, cut_gross, cut_fee, cut_htlcs, cut_rate, parents. cbv zeta.
  destruct (nodupb (map fst (removes_of (firstn nB lB)))); cbn [andb negb]; [|discriminate].
  destruct (nodupb (map fst (removes_of (firstn nA lA)))); cbn [andb negb]; [|discriminate].
  destruct (removed_amounts (adds_of (firstn nA lA)) (removes_of (firstn nB lB)))
    as [[setA failA]|]; [|discriminate].
  destruct (removed_amounts (adds_of (firstn nB lB)) (removes_of (firstn nA lA)))
    as [[setB failB]|]; [|discriminate].
  match goal with |- (if ?b then _ else _) = _ -> _ => destruct b eqn:HG end; [discriminate|].
  intros HK. inversion HK; subst k; clear HK. cbn [c_owner c_h c_nA c_nB c_balA c_balB c_fee c_rate c_htlcs c_outs].
  apply orb_false_iff in HG. destruct HG as [HG HF]. apply orb_false_iff in HG.
  destruct HG as [HGA HGB]. apply negb_false_iff in HF.
  eexists _, _. split; [reflexivity|]. split; [reflexivity|].
  repeat split; try reflexivity; lia.
Qed.

Lemma adds_of_nodup l : NoDup (map a_idx (adds_of l)).
Proof. apply adds_from_nodup. Qed.

Lemma cut_htlcs_sum c o lA lB nA nB gA gB :
  commit_wf lA lB nA nB = true ->
  cut_gross c lA lB nA nB = Some (gA, gB) ->
  gA + gB + sum_htlc_msat (cut_htlcs c o lA lB nA nB) = gross0A c + gross0B c.
Proof.
  unfold commit_wf, cut_gross, cut_htlcs, parents. cbv zeta. intros HW HG.
  destruct (removed_amounts (adds_of (firstn nA lA)) (removes_of (firstn nB lB)))
    as [[setA failA]|] eqn:HRA; [|discriminate].
  destruct (removed_amounts (adds_of (firstn nB lB)) (removes_of (firstn nA lA)))
    as [[setB failB]|] eqn:HRB; [|discriminate].
  rewrite !andb_true_r in HW. apply andb_true_iff in HW. destruct HW as [HNB HNA].
  inversion HG; subst; clear HG.
  rewrite sum_htlc_app, !sum_htlc_mk.
  rewrite (live_sum _ (adds_of_nodup _) _ _ _ HNB HRA).
  rewrite (live_sum _ (adds_of_nodup _) _ _ _ HNA HRB). lia.
Qed.

Lemma cut_htlcs_nonneg c o lA lB nA nB :
  amounts_nonneg lA -> amounts_nonneg lB -> htlcs_nonneg (cut_htlcs c o lA lB nA nB).
Proof.
  intros HA HB. unfold cut_htlcs. cbv zeta. apply Forall_app. split.
  - apply mk_htlcs_nonneg. intros x HI. apply live_adds_in in HI.
    eapply adds_from_amt_nonneg; [|exact HI]. apply amounts_nonneg_firstn. exact HA.
  - apply mk_htlcs_nonneg. intros x HI. apply live_adds_in in HI.
    eapply adds_from_amt_nonneg; [|exact HI]. apply amounts_nonneg_firstn. exact HB.
Qed.

(* T1 core: conservation for ANY cut for which commit_of succeeds *)
Lemma commit_of_conserved c o h lA lB nA nB k :
  commit_of c o h lA lB nA nB = Some k -> cfg_ok c ->
  amounts_nonneg lA -> amounts_nonneg lB -> conserved c k.
Proof.
  intros HK HC HA HB. apply commit_of_inv in HK.
  destruct HK as [gA [gB [HW [HG HK]]]]. cbv zeta in HK.
  destruct HK as [HgA [HgB [HF [_ [_ [_ [_ [HbA [HbB [Hfee [_ [Hhs Houts]]]]]]]]]]]].
  pose proof (cut_htlcs_sum c o _ _ _ _ _ _ HW HG) as HS.
  pose proof (cut_htlcs_nonneg c o lA lB nA nB HA HB) as HNN.
  destruct HC as [HC0 [HC1 [HC2 [HC3 _]]]].
  assert (HE : c_balA k + c_balB k + sum_htlc_msat (c_htlcs k) + 1000 * c_fee k
               = gross0A c + gross0B c).
  { rewrite HbA, HbB, Hhs, Hfee. destruct (opener c); lia. }
  split; [lia|].
  assert (0 <= c_balA k /\ 0 <= c_balB k) as [HA0 HB0].
  { rewrite HbA, HbB. destruct (opener c); lia. }
  rewrite <- Hhs in HNN.
  pose proof (outs_of_le c o _ _ _ HA0 HB0 HC3 HNN) as HO.
  rewrite <- Houts in HO. lia.
Qed.

(* T2: a balance moves only by HTLC amounts (and the fee, opener only) *)
Lemma commit_of_balance c o h lA lB nA nB k :
  commit_of c o h lA lB nA nB = Some k ->
  exists setA failA setB failB,
    removed_amounts (adds_of (firstn nA lA)) (removes_of (firstn nB lB)) = Some (setA, failA) /\
    removed_amounts (adds_of (firstn nB lB)) (removes_of (firstn nA lA)) = Some (setB, failB) /\
    c_balA k + (if opener c then 1000 * c_fee k else 0)
      = gross0A c - sum_adds (adds_of (firstn nA lA)) + failA + setB /\
    c_balB k + (if opener c then 0 else 1000 * c_fee k)
      = gross0B c - sum_adds (adds_of (firstn nB lB)) + failB + setA.
Proof.
  intros HK. apply commit_of_inv in HK.
  destruct HK as [gA [gB [_ [HG HK]]]]. cbv zeta in HK.
  destruct HK as [_ [_ [_ [_ [_ [_ [_ [HbA [HbB [Hfee _]]]]]]]]]].
  unfold cut_gross in HG. cbv zeta in HG.
  destruct (removed_amounts (adds_of (firstn nA lA)) (removes_of (firstn nB lB)))
    as [[setA failA]|]; [|discriminate].
  destruct (removed_amounts (adds_of (firstn nB lB)) (removes_of (firstn nA lA)))
    as [[setB failB]|]; [|discriminate].
  inversion HG; subst gA gB; clear HG.
  exists setA, failA, setB, failB. split; [reflexivity|]. split; [reflexivity|].
  rewrite HbA, HbB, Hfee. destruct (opener c); lia.
Qed.

(* T6 (algebraic half): a well-formed cut is refused only for money reasons *)
Lemma commit_of_none_wf c o h lA lB nA nB :
  commit_of c o h lA lB nA nB = None -> commit_wf lA lB nA nB = true ->
  exists gA gB, cut_gross c lA lB nA nB = Some (gA, gB) /\
    (gA < 0 \/ gB < 0 \/ (if opener c then gA else gB) <= 1000 * cut_fee c o lA lB nA nB).
Proof.
  unfold commit_of, commit_wf, cut_gross, cut_fee, cut_htlcs, cut_rate, parents. cbv zeta.
  destruct (nodupb (map fst (removes_of (firstn nB lB)))); cbn [andb negb]; [|discriminate].
  destruct (nodupb (map fst (removes_of (firstn nA lA)))); cbn [andb negb]; [|discriminate].
  destruct (removed_amounts (adds_of (firstn nA lA)) (removes_of (firstn nB lB)))
    as [[setA failA]|]; [|discriminate].
  destruct (removed_amounts (adds_of (firstn nB lB)) (removes_of (firstn nA lA)))
    as [[setB failB]|]; [|discriminate].
  match goal with |- (if ?b then _ else _) = _ -> _ => destruct b eqn:HG end; [|discriminate].
  intros _ _. eexists _, _. split; [reflexivity|].
  apply orb_true_iff in HG. destruct HG as [HG|HF].
  - apply orb_true_iff in HG. destruct HG; lia.
  - apply negb_true_iff in HF. right; right. lia.
Qed.
