(* C05 — whichever commitment confirms, the node holds valid spends: the LEDGER
   layer.  Property theorems ONLY (closed by [exact] of a lemma of
   PunishProofs.v).  The script layer is Script/Props.v.

   [resolutions c k who]: what NewLocalForceCloseSummary (k owned by who) /
   NewUnilateralCloseSummary (k owned by the counterparty) hand to the
   resolvers: who's main output if it is not trimmed (dust limit of the
   transaction OWNER), and for EVERY on-transaction HTLC one resolution —
   timeout for HTLCs who offered, success (with the preimage) for HTLCs who
   received.  [claimable] = sum of the commitment outputs they spend. *)
From Coq Require Import List ZArith Bool Arith Permutation.
From LV Require Import Channel.Model Channel.Proofs Channel.Resync Channel.Discipline
                       Channel.Punish Channel.PunishProofs
                       Channel.CommitSort Channel.CommitSortProofs.
Import ListNotations.
Local Open Scope Z_scope.

(* For ANY descriptor built by commit_of and either party:
   (1) claimable = own balance (if >= the owner's dust limit) + every HTLC that
       has an output;
   (2) together with the counterparty's main output and the anchors that is
       every satoshi of the transaction's outputs ...
   (3) ... and every output, counted;
   (4) against the ledger: own msat balance + all live HTLC msat = 1000 *
       claimable + exactly the trimmed amounts and sub-satoshi remainders. *)
Theorem C05_claimable_value : forall c o h lA lB nA nB k who,
  commit_of c o h lA lB nA nB = Some k ->
  claimable c k who
    = (if who_out c k who then bal_of k who / 1000 else 0) + sum_ontx_sat (c_htlcs k) /\
  claimable c k who
    + (if who_out c k (negb who) then bal_of k (negb who) / 1000 else 0)
    + n_anchors c k * anchor_size c = c_outs k /\
  Z.of_nat (length (resolutions c k who))
    + (if who_out c k (negb who) then 1 else 0) + n_anchors c k = c_nout k /\
  1000 * claimable c k who + dust_loss_msat c k who
    = bal_of k who + sum_htlc_msat (c_htlcs k).
Proof. exact commit_of_claim_equations. Qed.

(* ... in particular for each of the (up to) four commitments a party holds in
   any state reachable by sends / signs / revokes / deliveries: its own local
   tail and unrevoked tip, the counterparty's current and pending commitment *)
Theorem C05_claimable_value_reachable : forall c s, reachable c s -> forall p k who,
  In k (commits_of (get s p)) -> claim_equations c k who.
Proof. exact reach_claim_equations. Qed.

(* ... and in any state reached with disconnects / restarts / resync in between
   (link discipline, successful reconnects: Discipline.dreachable_ok) *)
Theorem C05_claimable_value_after_resync : forall c s, dreachable_ok c s -> forall p k who,
  In k (commits_of (get (xs s) p)) -> claim_equations c k who.
Proof. exact dreach_claim_equations. Qed.

(* On the owner's OWN commitment everything it finally sweeps — the to_local
   output and the output of every second-level transaction (HTLC amount minus
   the timeout / success fee at the commitment's fee rate) — is at least its
   dust limit: no resolution produces an unspendable output. *)
Theorem C05_own_outputs_not_dust : forall c o h lA lB nA nB k r,
  commit_of c o h lA lB nA nB = Some k -> In r (resolutions c k (c_owner k)) ->
  dust_sat (side c (c_owner k)) <= r_final r.
Proof. exact resolutions_final_not_dust. Qed.

(* The commitment output order (InPlaceCommitSort: value, then pkScript bytes,
   then CLTV) is TOTAL on (value, pkScript, cltv) triples: ANY permutation of the
   outputs that is in Less-order is the list [commit_sort] computes.  Hence the
   unstable sort.Sort is deterministic on what matters, and both parties, who add
   the outputs in different orders, obtain the same transaction. *)
Theorem C05_commit_sort_canonical : forall l l',
  Permutation l l' -> out_sortedb l' = true -> l' = commit_sort l.
Proof. exact commit_sort_canonical. Qed.

(* The i-th HTLC signature of a commit_sig.  For ALL commitment outputs [base]
   and ALL lists of HTLCs offered by the signer [so] and by the verifier [vo]
   (both parties hold the same two lists; any amounts, hashes, expiries, dust
   flags, exact duplicates), provided HTLC scripts commit to the payment hash
   and offered / received scripts never coincide ([pk_facts]):
   both parties build the same transaction; populateHtlcIndexes succeeds on both
   sides and gives every HTLC the same output index on both sides (the signer
   walks [so] then [vo], the verifier [vo] then [so]); a dust HTLC gets none;
   the assigned output carries exactly the HTLC's (value, script, cltv);
   different HTLCs get different outputs; and the list of signature slots
   (output index, direction, HtlcIndex) in the order the signer SENDS the
   signatures (jobs sorted by output index) equals the list in the order the
   verifier CONSUMES them (outputs 0 .. n-1 looked up in incomingHTLCIndex /
   outgoingHTLCIndex) - one slot per non-dust HTLC. *)
Theorem C05_htlc_sig_index : forall base so vo, pk_facts so vo ->
  verifier_tx base so vo = signer_tx base so vo /\
  exists lo li sigs,
    signer_view base so vo = Some (lo, li) /\
    verifier_view base so vo = Some (li, lo) /\
    map fst lo = so /\ map fst li = vo /\
    (forall h oi, In (h, oi) (lo ++ li) -> (oi = None <-> h_on h = false)) /\
    (forall h i, In (h, Some i) (lo ++ li) ->
       nth_error (signer_tx base so vo) i = Some (out_of h)) /\
    NoDup (idxs lo ++ idxs li) /\
    signer_sigs base so vo = Some sigs /\
    verifier_sigs base so vo = Some sigs /\
    length sigs = (n_on so + n_on vo)%nat /\
    (forall s, In s sigs <->
       (exists h i, In (h, Some i) lo /\ s = (i, true, h_idx h)) \/
       (exists h i, In (h, Some i) li /\ s = (i, false, h_idx h))).
Proof. exact htlc_sig_index. Qed.

Print Assumptions C05_claimable_value.
Print Assumptions C05_claimable_value_reachable.
Print Assumptions C05_claimable_value_after_resync.
Print Assumptions C05_own_outputs_not_dust.
Print Assumptions C05_commit_sort_canonical.
Print Assumptions C05_htlc_sig_index.
