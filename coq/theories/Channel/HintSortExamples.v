(* Non-vacuity of the state-hint and commitment-sort theorems: concrete,
   non-trivial instances evaluated by vm_compute. *)
From Coq Require Import List ZArith NArith Bool.
From LV Require Import Channel.StateHint Channel.StateHintProofs Channel.CommitSort
                       Channel.CommitSortProofs.
Import ListNotations.

(* ---------- state hint ---------- *)
(* obfuscator 0xA1B2C3D4E5F6, height 2^24 + 5: both halves of the hint carry bits *)
Example hx_obf : obf_of_bytes [161; 178; 195; 212; 229; 246]%N = 177789161760246%N.
Proof. vm_compute. reflexivity. Qed.

Example hx_set : set_hint 16777221 177789161760246 = Some (2158080706, 550823411)%N.
Proof. vm_compute. reflexivity. Qed.

Example hx_get : get_hint 2158080706 550823411 177789161760246 = 16777221%N.
Proof. vm_compute. reflexivity. Qed.

Example hx_hyps : (177789161760246 < 2 ^ 48 /\ 16777221 < 2 ^ 48)%N.
Proof. split; reflexivity. Qed.

Example hx_max : set_hint 281474976710655 177789161760246 <> None
                 /\ set_hint 281474976710656 177789161760246 = None.
Proof. split; [vm_compute; discriminate|vm_compute; reflexivity]. Qed.

Example hx_inputs : set_hint_tx 2 5 0 = HintErrInputs /\ set_hint_tx 2 281474976710656 0 = HintErrTooLarge.
Proof. split; vm_compute; reflexivity. Qed.

(* ---------- commitment sort / signature index ---------- *)
(* scripts: 3-byte stand-ins; [9;1;1] < [9;1;2] < [9;2;0] under bytes.Compare.
   HTLCs offered by the signer: #0 and #1 are EXACT duplicates (hash 7, 5000
   sat, expiry 120), #2 has the same script and value but expiry 110, #3 is
   dust.  Offered by the verifier: #0 with the same value 5000 and another
   script, #1 a 9000-sat HTLC with the hash 7 again (received-HTLC script). *)
Definition sx_base : list out :=
  [mkOut 70000 [1; 1; 1]%N 0; mkOut 20000 [2; 2; 2]%N 0; mkOut 330 [3; 0; 0]%N 0; mkOut 330 [3; 0; 1]%N 0].
Definition sx_so : list hd :=
  [mkHd 0 7 5000 120 [9; 1; 2]%N true; mkHd 1 7 5000 120 [9; 1; 2]%N true;
   mkHd 2 7 5000 110 [9; 1; 2]%N true; mkHd 3 8 300 120 [9; 9; 9]%N false].
Definition sx_vo : list hd :=
  [mkHd 0 5 5000 130 [9; 1; 1]%N true; mkHd 1 7 9000 120 [9; 2; 0]%N true].

Example sx_facts : pk_facts sx_so sx_vo.
Proof. apply pk_factsb_sound. vm_compute. reflexivity. Qed.

Example sx_tx : map (fun o => (o_val o, Z.of_N (o_cltv o))) (signer_tx sx_base sx_so sx_vo) =
  [(330, 0); (330, 0); (5000, 130); (5000, 110); (5000, 120); (5000, 120); (9000, 120);
   (20000, 0); (70000, 0)]%Z.
Proof. vm_compute. reflexivity. Qed.

Example sx_views :
  option_map (fun p => (map snd (fst p), map snd (snd p))) (signer_view sx_base sx_so sx_vo)
    = Some ([Some 4; Some 5; Some 3; None], [Some 2; Some 6])%nat
  /\ option_map (fun p => (map snd (fst p), map snd (snd p))) (verifier_view sx_base sx_so sx_vo)
    = Some ([Some 2; Some 6], [Some 4; Some 5; Some 3; None])%nat.
Proof. split; vm_compute; reflexivity. Qed.

Example sx_sigs :
  signer_sigs sx_base sx_so sx_vo =
    Some [(2%nat, false, 0%N); (3%nat, true, 2%N); (4%nat, true, 0%N); (5%nat, true, 1%N); (6%nat, false, 1%N)]
  /\ verifier_sigs sx_base sx_so sx_vo = signer_sigs sx_base sx_so sx_vo.
Proof. split; vm_compute; reflexivity. Qed.

(* the hypothesis matters: if an offered and a received HTLC shared a script,
   the two sides would walk the colliding HTLCs in different orders *)
Definition sx_bad_so : list hd := [mkHd 0 7 5000 120 [9; 1; 2]%N true].
Definition sx_bad_vo : list hd := [mkHd 0 7 5000 120 [9; 1; 2]%N true].
Example sx_bad : pk_factsb sx_bad_so sx_bad_vo = false
  /\ signer_sigs [] sx_bad_so sx_bad_vo <> verifier_sigs [] sx_bad_so sx_bad_vo.
Proof. split; [vm_compute; reflexivity|vm_compute; discriminate]. Qed.
