(* C03 — channel_reestablish resynchronisation (Resync.v: XCut = deliver a
   prefix of each FIFO, drop the rest, both sides restore, exchange reestablish,
   retransmit).  Property theorems ONLY (closed by [exact] of a lemma).

   Reachability: [dreachable_ok] (Discipline.v) = xinit followed by DISCIPLINED
   steps (no revoke_and_ack is consumed while a received commitment is still
   unrevoked — lnd's link revokes at once) in which every reconnect returned Ok.
   A reconnect can fail with ErrSanity (C03_cut_refusal_is_money); the link is
   then dead and the restored-with-empty-queues state it leaves is not a
   protocol state, so such steps are not continued from.  Both restrictions are
   necessary: see C03_free_rev_refuted and ResyncExamples.w2. *)
From Coq Require Import List ZArith Bool Arith.
From LV Require Import Channel.Model Channel.Proofs Channel.Resync Channel.Discipline
                       Channel.ResyncProofs Channel.ResyncExamples.
Import ListNotations.

(* the invariant of C01 (with the discipline / LastWasRevoke / fee-merge facts)
   holds in every such state ... *)
Theorem C03_xinv_reachable : forall c s, dreachable_ok c s -> XInv c s.
Proof. exact dreachable_ok_xinv. Qed.

(* ... and is preserved by a successful reconnect; a reconnect never reports
   a (false) data loss *)
Theorem C03_resync_xinv : forall c s ka kb,
  XInv c s -> disciplined c s (XCut ka kb) = true ->
  fst (xstep c s (XCut ka kb)) <> ErrSync /\
  (fst (xstep c s (XCut ka kb)) = Ok -> XInv c (snd (xstep c s (XCut ka kb)))).
Proof. exact xcut_inv. Qed.

(* (a) after an Ok reconnect from a reachable state, Inv holds again, hence all
   C01 theorems (stated on Inv in Proofs.v: inv_conservation, inv_agreement,
   inv_mirror, inv_window, inv_wf) continue to hold *)
Theorem C03_resync_inv : forall c s ka kb,
  dreachable_ok c s -> disciplined c s (XCut ka kb) = true ->
  fst (xstep c s (XCut ka kb)) = Ok -> Inv c (xs (snd (xstep c s (XCut ka kb)))).
Proof. exact resync_inv. Qed.

(* a reconnect NEVER reports a (false) data loss between honest peers: from
   every state reachable by disciplined steps (failed reconnects included) ... *)
Theorem C03_no_sync_error : forall c s ka kb,
  dreachable c s -> fst (xstep c s (XCut ka kb)) <> ErrSync.
Proof. exact dreachable_no_sync_error. Qed.

(* ... and in fact from every state reachable by ANY schedule of xsteps *)
Theorem C03_no_sync_error_free : forall c s ka kb,
  xreachable c s -> fst (xstep c s (XCut ka kb)) <> ErrSync.
Proof. exact free_no_sync_error. Qed.

(* ErrSanity from a reconnect means: some party has to re-sign (rTip = None
   after restore), the cut it must sign is well formed, and commit_of refuses
   it — by C01_wf_only_money for balance / fee reasons only *)
Theorem C03_cut_refusal_is_money : forall c s ka kb,
  XInv c s -> disciplined c s (XCut ka kb) = true ->
  fst (xstep c s (XCut ka kb)) = ErrSanity ->
  let s1 := deliver_n c (deliver_n c (xs s) true ka) false kb in
  exists p, let x := restore p (get s1 p) in
    rTip x = None /\
    commit_of c (negb p) (c_h (rTail x) + 1)%Z (logA_of p x) (logB_of p x)
              (fst (sign_cut p x)) (snd (sign_cut p x)) = None /\
    commit_wf (logA_of p x) (logB_of p x) (fst (sign_cut p x)) (snd (sign_cut p x)) = true.
Proof. exact xcut_sanity. Qed.

(* every commitment signature at the head of a queue — original or
   retransmitted after any number of reconnects — is accepted *)
Theorem C03_agreement_after_resync : forall c s, dreachable_ok c s -> forall p k q,
  outq (xs s) (negb p) = MSig k :: q -> fst (step c (xs s) (ODeliver p)) = Ok.
Proof. exact dreachable_ok_agreement. Qed.

(* without the discipline the property is FALSE: a free schedule after which a
   retransmitted commitment signature is rejected *)
Theorem C03_free_rev_refuted :
  cfg_ok w1_cfg /\
  exists s0 s k q, xinit w1_cfg = Some s0 /\ s = xrun w1_cfg s0 w1_ops /\
    xall_ok w1_cfg s0 w1_ops = true /\
    outq (xs s) (negb false) = MSig k :: q /\
    fst (step w1_cfg (xs s) (ODeliver false)) = ErrSigInvalid.
Proof. exact w1_free_rev_refuted. Qed.

Print Assumptions C03_xinv_reachable.
Print Assumptions C03_resync_xinv.
Print Assumptions C03_resync_inv.
Print Assumptions C03_no_sync_error.
Print Assumptions C03_no_sync_error_free.
Print Assumptions C03_cut_refusal_is_money.
Print Assumptions C03_agreement_after_resync.
Print Assumptions C03_free_rev_refuted.
