(* Proofs about the breach arbiter's retribution flow (BrarFlow.v). *)
From Coq Require Import List NArith Bool Arith Lia Permutation.
From LV Require Import Channel.BrarFlow.
Import ListNotations.

(* ---------- set_nth ---------- *)
Lemma length_set_nth : forall A (l : list A) i x, length (set_nth l i x) = length l.
Proof. induction l as [|y r IH]; intros [|i] x; simpl; auto. Qed.

Lemma nth_error_set_nth_eq : forall A (l : list A) i x, i < length l ->
  nth_error (set_nth l i x) i = Some x.
Proof.
  induction l as [|y r IH]; intros [|i] x H; simpl in *; try lia; auto.
  apply IH; lia.
Qed.

Lemma nth_error_set_nth_neq : forall A (l : list A) i j x, i <> j ->
  nth_error (set_nth l i x) j = nth_error l j.
Proof.
  induction l as [|y r IH]; intros [|i] [|j] x H; simpl; auto; try congruence.
Qed.

Lemma map_set_nth_same : forall (l : list bout) i o o', nth_error l i = Some o ->
  b_id o' = b_id o -> map b_id (set_nth l i o') = map b_id l.
Proof.
  induction l as [|y r IH]; intros [|i] o o' H E; simpl in *; try discriminate.
  - inversion H; subst. now rewrite E.
  - f_equal. eapply IH; eauto.
Qed.

Lemma upd_one_id : forall o h o', upd_one o h = Some o' -> b_id o' = b_id o.
Proof.
  intros o h o'. unfold upd_one. destruct (is_htlc (b_kind o)); [|discriminate].
  destruct h; [discriminate|]. intros H; inversion H; reflexivity.
Qed.

Lemma upd_one_some : forall o h o', upd_one o h = Some o' ->
  is_htlc (b_kind o) = true /\ exists a, h = HSecond a /\ o' = mkB (b_id o) KSecond a.
Proof.
  intros o h o'. unfold upd_one. destruct (is_htlc (b_kind o)); [|discriminate].
  destruct h; [discriminate|]. intros H; inversion H. split; auto. eauto.
Qed.

(* ---------- the loop of updateBreachInfo ---------- *)
Fixpoint find_spend (sp : list (nat * how)) (j : nat) : option how :=
  match sp with
  | [] => None
  | (i, h) :: r => if Nat.eqb i j then Some h else find_spend r j
  end.

Lemma find_spend_none : forall sp j, ~ In j (map fst sp) -> find_spend sp j = None.
Proof.
  induction sp as [|[i h] r IH]; simpl; intros j H; auto.
  destruct (Nat.eqb_spec i j); [exfalso; apply H; auto|]. apply IH. tauto.
Qed.

Lemma find_spend_in : forall sp j h, NoDup (map fst sp) ->
  (In (j, h) sp <-> find_spend sp j = Some h).
Proof.
  induction sp as [|[i h0] r IH]; simpl; intros j h ND.
  - split; [tauto|discriminate].
  - inversion ND as [|? ? Hn ND']; subst. destruct (Nat.eqb_spec i j).
    + subst. split.
      * intros [E|Hin]; [inversion E; auto|]. exfalso. apply Hn.
        change j with (fst (j, h)). now apply in_map.
      * intros E; inversion E; auto.
    + rewrite <- IH by assumption. split; [intros [E|Hin]; [inversion E; congruence|auto]|auto].
Qed.

Lemma apply_spends_ids : forall sp l d l' d',
  apply_spends l d sp = Some (l', d') -> map b_id l' = map b_id l.
Proof.
  induction sp as [|[i h] r IH]; simpl; intros l d l' d' H.
  - inversion H; auto.
  - destruct (nth_error l i) as [o|] eqn:N; [|discriminate].
    destruct (upd_one o h) as [o'|] eqn:U.
    + apply IH in H. rewrite H. eapply map_set_nth_same; eauto. eapply upd_one_id; eauto.
    + eapply IH; eauto.
Qed.

Lemma apply_spends_spec : forall sp l d0,
  NoDup (map fst sp) ->
  (forall i h, In (i, h) sp -> i < length l) ->
  exists l' d, apply_spends l d0 sp = Some (l', d) /\
    (forall j, nth_error l' j =
       match find_spend sp j, nth_error l j with
       | Some h, Some o => match upd_one o h with Some o' => Some o' | None => Some o end
       | _, x => x
       end) /\
    (forall j, In j d <-> In j d0 \/
       exists h o, find_spend sp j = Some h /\ nth_error l j = Some o /\ upd_one o h = None).
Proof.
  induction sp as [|[i h] r IH]; intros l d0 ND B.
  - exists l, d0. simpl. split; [reflexivity|]. split.
    + intros j. destruct (nth_error l j); reflexivity.
    + intros j. split; [auto|]. intros [H|[h [o [H _]]]]; [auto|discriminate].
  - simpl in ND. inversion ND as [|? ? Hn ND']; subst.
    assert (Hi : i < length l) by (eapply B; left; reflexivity).
    destruct (nth_error l i) as [o|] eqn:N; [|apply nth_error_None in N; lia].
    simpl. rewrite N. destruct (upd_one o h) as [o'|] eqn:U.
    + destruct (IH (set_nth l i o') d0 ND') as [l' [d [E [Hnth Hd]]]].
      { intros i0 h0 Hin. rewrite length_set_nth. eapply B. right; eauto. }
      exists l', d. split; [exact E|]. split.
      * intros j. rewrite Hnth. destruct (Nat.eqb_spec i j).
        -- subst j. rewrite (find_spend_none r i Hn).
           rewrite nth_error_set_nth_eq by assumption. rewrite N, U. reflexivity.
        -- rewrite nth_error_set_nth_neq by assumption. reflexivity.
      * intros j. rewrite Hd. destruct (Nat.eqb_spec i j).
        -- subst j. rewrite (find_spend_none r i Hn). split.
           ++ intros [H|[h' [o0 [H _]]]]; [auto|discriminate].
           ++ intros [H|[h' [o0 [H1 [H2 H3]]]]]; [auto|].
              inversion H1; subst. rewrite N in H2. inversion H2; subst. congruence.
        -- rewrite nth_error_set_nth_neq by assumption. tauto.
    + destruct (IH l (i :: d0) ND') as [l' [d [E [Hnth Hd]]]].
      { intros i0 h0 Hin. eapply B. right; eauto. }
      exists l', d. split; [exact E|]. split.
      * intros j. rewrite Hnth. destruct (Nat.eqb_spec i j).
        -- subst j. rewrite (find_spend_none r i Hn). rewrite N, U. reflexivity.
        -- reflexivity.
      * intros j. rewrite Hd. destruct (Nat.eqb_spec i j).
        -- subst j. rewrite (find_spend_none r i Hn). split.
           ++ intros _. right. exists h, o. auto.
           ++ intros _. left. left. reflexivity.
        -- split.
           ++ intros [[H|H]|H]; [congruence|auto|auto].
           ++ intros [H|H]; [left; right; auto|auto].
Qed.

(* ---------- compaction ---------- *)
Lemma compact_in : forall l d i o,
  In o (compact_from l d i) <-> exists j, nth_error l j = Some o /\ ~ In (i + j) d.
Proof.
  induction l as [|x r IH]; intros d i o; simpl.
  - split; [tauto|]. intros [[|j] [H _]]; discriminate.
  - destruct (existsb (Nat.eqb i) d) eqn:E.
    + apply existsb_exists in E. destruct E as [y [Hy Ey]]. apply Nat.eqb_eq in Ey. subst y.
      rewrite IH. split.
      * intros [j [H1 H2]]. exists (S j). simpl. split; auto.
        replace (i + S j) with (S i + j) by lia. auto.
      * intros [[|j] [H1 H2]].
        -- exfalso. apply H2. now rewrite Nat.add_0_r.
        -- exists j. simpl in H1. split; auto. replace (S i + j) with (i + S j) by lia. auto.
    + assert (Hn : ~ In i d).
      { intros Hin. assert (existsb (Nat.eqb i) d = true); [|congruence].
        apply existsb_exists. exists i. split; auto. apply Nat.eqb_refl. }
      simpl. rewrite IH. split.
      * intros [H|[j [H1 H2]]].
        -- subst. exists 0. simpl. split; auto. now rewrite Nat.add_0_r.
        -- exists (S j). simpl. split; auto. replace (i + S j) with (S i + j) by lia. auto.
      * intros [[|j] [H1 H2]].
        -- simpl in H1. inversion H1. auto.
        -- right. exists j. simpl in H1. split; auto.
           replace (S i + j) with (i + S j) by lia. auto.
Qed.

Lemma compact_nodup_ids : forall l d i,
  NoDup (map b_id l) -> NoDup (map b_id (compact_from l d i)).
Proof.
  induction l as [|x r IH]; intros d i H; simpl; [constructor|].
  simpl in H. inversion H as [|? ? Hn ND]; subst.
  destruct (existsb (Nat.eqb i) d); [apply IH; auto|].
  simpl. constructor; [|apply IH; auto].
  intros Hin. apply in_map_iff in Hin. destruct Hin as [o [E Hin]].
  apply compact_in in Hin. destruct Hin as [j [Hj _]]. apply nth_error_In in Hj.
  apply Hn. rewrite <- E. now apply in_map.
Qed.

(* update_info under a batch with distinct, in-range indexes: every surviving
   entry is an untouched entry or a converted HTLC entry; an entry disappears
   only when it was reported spent and is not convertible *)
Lemma update_info_spec : forall l sp,
  NoDup (map fst sp) ->
  (forall i h, In (i, h) sp -> i < length l) ->
  exists l', update_info l sp = Some l' /\
    (NoDup (map b_id l) -> NoDup (map b_id l')) /\
    (forall o', In o' l' ->
       exists j o, nth_error l j = Some o /\
         ((find_spend sp j = None /\ o' = o) \/
          (exists h, find_spend sp j = Some h /\ upd_one o h = Some o'))) /\
    (forall j o, nth_error l j = Some o ->
       (find_spend sp j = None -> In o l') /\
       (forall h o', find_spend sp j = Some h -> upd_one o h = Some o' -> In o' l')).
Proof.
  intros l sp ND B. destruct (apply_spends_spec sp l [] ND B) as [l' [d [E [Hnth Hd]]]].
  unfold update_info. rewrite E. exists (compact_from l' d 0). split; [reflexivity|].
  split; [|split].
  - intros H. apply compact_nodup_ids. erewrite apply_spends_ids; eauto.
  - intros o' Hin. apply compact_in in Hin. destruct Hin as [j [Hj Hnd]]. simpl in Hnd.
    rewrite Hnth in Hj. destruct (find_spend sp j) as [h|] eqn:F.
    + destruct (nth_error l j) as [o|] eqn:N; [|discriminate].
      destruct (upd_one o h) as [o2|] eqn:U.
      * inversion Hj; subst. exists j, o. split; auto. right. exists h. auto.
      * exfalso. apply Hnd. apply Hd. right. exists h, o. auto.
    + exists j, o'. split; auto.
  - intros j o N. split.
    + intros F. apply compact_in. exists j. simpl. split.
      * rewrite Hnth, F. exact N.
      * rewrite Hd. intros [H|[h [o0 [H _]]]]; [destruct H|congruence].
    + intros h o' F U. apply compact_in. exists j. simpl. split.
      * rewrite Hnth, F, N, U. reflexivity.
      * rewrite Hd. intros [H|[h0 [o0 [H1 [H2 H3]]]]]; [destruct H|].
        rewrite F in H1. inversion H1; subst. rewrite N in H2. inversion H2; subst. congruence.
Qed.

(* ---------- the invariant of the flow ---------- *)
Record Inv (l0 : list bout) (s : st) : Prop := mkInv {
  (* every tracked entry is an original entry or a converted HTLC entry whose
     second-level output really exists (or existed) on chain with that amount *)
  inv_shape : forall o, In o (tracked s) ->
    In o l0 \/
    exists a, o = mkB (b_id o) KSecond a /\ htlc_id l0 (b_id o) /\
              (ch s (b_id o) = StSecond a \/ ch s (b_id o) = StGoneSecond a);
  inv_nodup : NoDup (map b_id (tracked s));
  (* nothing unspent is ever forgotten *)
  inv_cover : forall o0, In o0 l0 ->
    (ch s (b_id o0) = StFirst \/ exists a, ch s (b_id o0) = StSecond a) ->
    exists o, In o (tracked s) /\ b_id o = b_id o0;
  (* only HTLC outputs have a second level *)
  inv_chain : forall id a, (ch s id = StSecond a \/ ch s id = StGoneSecond a) -> htlc_id l0 id
}.

Lemma same_id_same_entry : forall l0 o1 o2, NoDup (map b_id l0) ->
  In o1 l0 -> In o2 l0 -> b_id o1 = b_id o2 -> o1 = o2.
Proof.
  induction l0 as [|x r IH]; intros o1 o2 ND H1 H2 E; [destruct H1|].
  simpl in ND. inversion ND as [|? ? Hn ND']; subst.
  destruct H1 as [H1|H1], H2 as [H2|H2]; subst; auto.
  - exfalso. apply Hn. rewrite E. now apply in_map.
  - exfalso. apply Hn. rewrite <- E. now apply in_map.
Qed.

Lemma set_chain_eq : forall c id s, set_chain c id s id = s.
Proof. intros. unfold set_chain. now rewrite N.eqb_refl. Qed.

Lemma set_chain_neq : forall c id s x, x <> id -> set_chain c id s x = c x.
Proof. intros. unfold set_chain. destruct (N.eqb_spec x id); congruence. Qed.

Lemma inv_init : forall l0, wf0 l0 -> Inv l0 (init l0).
Proof.
  intros l0 [ND _]. constructor; simpl; auto.
  - intros o0 H _. eauto.
  - intros id a [H|H]; discriminate.
Qed.

(* a chain event at [id] that keeps "second-levelness": used for the three
   chain steps *)
Lemma inv_chain_step : forall l0 s id new,
  wf0 l0 -> Inv l0 s ->
  (* entries converted for [id] stay justified *)
  (forall a, (ch s id = StSecond a \/ ch s id = StGoneSecond a) ->
             (new = StSecond a \/ new = StGoneSecond a)) ->
  (* nothing becomes unspent again *)
  ((new = StFirst \/ exists a, new = StSecond a) ->
   (ch s id = StFirst \/ exists a, ch s id = StSecond a)) ->
  (forall a, (new = StSecond a \/ new = StGoneSecond a) -> htlc_id l0 id) ->
  Inv l0 (mkSt (tracked s) (set_chain (ch s) id new)).
Proof.
  intros l0 s id new WF I K U Hh. destruct I as [I1 I2 I3 I4]. constructor; simpl.
  - intros o Hin. destruct (I1 o Hin) as [H|[a [E [Hh' Hc]]]]; [auto|]. right. exists a.
    split; auto. split; auto. destruct (N.eqb_spec (b_id o) id) as [e|n].
    + rewrite e in *. rewrite set_chain_eq. apply K. exact Hc.
    + rewrite set_chain_neq by assumption. exact Hc.
  - exact I2.
  - intros o0 Hin Hu. apply I3; auto. destruct (N.eqb_spec (b_id o0) id) as [e|n].
    + rewrite e in *. rewrite set_chain_eq in Hu. apply U. exact Hu.
    + rewrite set_chain_neq in Hu by assumption. exact Hu.
  - intros x a Hc. destruct (N.eqb_spec x id) as [e|n].
    + subst x. rewrite set_chain_eq in Hc. eapply Hh; eauto.
    + rewrite set_chain_neq in Hc by assumption. eapply I4; eauto.
Qed.

Lemma inv_step : forall l0 s s', wf0 l0 -> Inv l0 s -> step l0 s s' -> Inv l0 s'.
Proof.
  intros l0 s s' WF I St. destruct St as [s id a Hc Hh|s id Hc|s id a Hc|s sp l' [ND Hb] U|s].
  - (* advance *)
    apply inv_chain_step; [assumption|assumption| | |].
    + intros a0 [H|H]; congruence.
    + intros _. auto.
    + intros a0 _. exact Hh.
  - (* first-level spend *)
    apply inv_chain_step; [assumption|assumption| | |].
    + intros a0 [H|H]; congruence.
    + intros [H|[a H]]; discriminate.
    + intros a [H|H]; discriminate.
  - (* second-level spend *)
    apply inv_chain_step; [assumption|assumption| | |].
    + intros a0 [H|H]; rewrite Hc in H; inversion H; auto.
    + intros [H|[a0 H]]; discriminate.
    + intros a0 _. destruct I as [_ _ _ I4]. eapply I4; eauto.
  - (* the arbiter consumes a batch of spends *)
    destruct I as [I1 I2 I3 I4]. destruct WF as [ND0 WF2].
    assert (B : forall i h, In (i, h) sp -> i < length (tracked s)).
    { intros i h Hin. destruct (Hb i h Hin) as [o [N _]]. apply nth_error_Some. congruence. }
    destruct (update_info_spec (tracked s) sp ND B) as [l2 [E [Hnd [Hfrom Hto]]]].
    rewrite U in E. inversion E; subst l2. clear E. constructor; simpl.
    + intros o' Hin. destruct (Hfrom o' Hin) as [j [o [N [[F Eo]|[h [F Uo]]]]]].
      * subst o'. apply I1. eapply nth_error_In; eauto.
      * apply find_spend_in in F; auto. destruct (Hb j h F) as [o2 [N2 R]].
        rewrite N in N2. inversion N2; subst o2. clear N2.
        apply upd_one_some in Uo. destruct Uo as [Hk [a [Eh Eo]]]. subst h o'. simpl.
        right. exists a. split; auto.
        assert (Hsec : is_second (b_kind o) = false) by (destruct (b_kind o); simpl in *; congruence).
        unfold report in R. rewrite Hsec in R.
        assert (Hc : ch s (b_id o) = StSecond a \/ ch s (b_id o) = StGoneSecond a).
        { destruct (ch s (b_id o)); inversion R; auto. }
        split; [eapply I4; eauto|exact Hc].
    + apply Hnd. exact I2.
    + intros o0 Hin0 Hu. destruct (I3 o0 Hin0 Hu) as [o [Hin Eid]].
      apply In_nth_error in Hin. destruct Hin as [j N]. destruct (Hto j o N) as [T1 T2].
      destruct (find_spend sp j) as [h|] eqn:F.
      * pose proof F as F'. apply find_spend_in in F'; auto. destruct (Hb j h F') as [o2 [N2 R]].
        rewrite N in N2. inversion N2; subst o2. clear N2.
        destruct (upd_one o h) as [o'|] eqn:Uo.
        -- exists o'. split; [eapply T2; eauto|]. rewrite (upd_one_id _ _ _ Uo). exact Eid.
        -- (* reported spent and not convertible: then it is not unspent on chain *)
           exfalso. unfold report in R. rewrite Eid in R. unfold upd_one in Uo.
           destruct (is_second (b_kind o)) eqn:Hsec.
           ++ destruct Hu as [Hu|[a Hu]]; rewrite Hu in R; discriminate.
           ++ destruct (is_htlc (b_kind o)) eqn:Hk.
              ** destruct h; [|discriminate].
                 destruct Hu as [Hu|[a Hu]]; rewrite Hu in R; discriminate.
              ** destruct Hu as [Hu|[a Hu]]; rewrite Hu in R; [discriminate|].
                 (* a commit output with a second level: impossible *)
                 assert (Hh : htlc_id l0 (b_id o0)) by (eapply I4; eauto).
                 destruct Hh as [o1 [Hin1 [E1 K1]]].
                 assert (Hino : In o l0).
                 { destruct (I1 o (nth_error_In _ _ N)) as [H|[a0 [Eo _]]]; auto.
                   rewrite Eo in Hsec. discriminate. }
                 assert (o1 = o) by (apply (same_id_same_entry l0 o1 o ND0 Hin1 Hino); congruence).
                 subst o1. congruence.
      * exists o. split; auto.
    + exact I4.
  - (* restart from the store *)
    destruct I as [I1 I2 I3 I4]. destruct WF as [ND0 WF2]. constructor; simpl; auto.
    intros o0 Hin _. eauto.
Qed.

Lemma reach_inv : forall l0 s, wf0 l0 -> reach l0 s -> Inv l0 s.
Proof.
  intros l0 s WF R. induction R; [apply inv_init; auto|eapply inv_step; eauto].
Qed.

(* ---------- what a (re)build covers ---------- *)
(* every signed input, at ANY time: the output it is signed for existed on
   chain with exactly that level, layout and amount *)
Lemma build_inputs_exist : forall l0 s, wf0 l0 -> reach l0 s ->
  forall j, In j (v_all (build (tracked s))) ->
    (j_second j = false /\
     exists o0, In o0 l0 /\ b_id o0 = j_id j /\ j_w j = wk (b_kind o0) /\ j_amt j = b_amt o0) \/
    (j_second j = true /\ j_w j = WSecondRevoke /\ htlc_id l0 (j_id j) /\
     (ch s (j_id j) = StSecond (j_amt j) \/ ch s (j_id j) = StGoneSecond (j_amt j))).
Proof.
  intros l0 s WF R j Hin. pose proof (reach_inv l0 s WF R) as [I1 _ _ _].
  simpl in Hin. apply in_map_iff in Hin. destruct Hin as [o [E Hin]]. subst j.
  destruct (I1 o Hin) as [H|[a [Eo [Hh Hc]]]].
  - left. unfold input_of; simpl. split; [apply (proj2 WF); auto|]. exists o. auto.
  - right. rewrite Eo. unfold input_of; simpl. auto.
Qed.

(* at quiescence the slice is EXACTLY the set of breached outputs still
   unspent, each at its current level *)
Lemma quiescent_exact : forall l0 s, wf0 l0 -> reach l0 s -> quiescent s ->
  NoDup (map b_id (tracked s)) /\
  (forall o, In o (tracked s) ->
     (In o l0 /\ ch s (b_id o) = StFirst) \/
     (exists a, o = mkB (b_id o) KSecond a /\ htlc_id l0 (b_id o) /\ ch s (b_id o) = StSecond a)) /\
  (forall o0, In o0 l0 ->
     match ch s (b_id o0) with
     | StFirst => In o0 (tracked s)
     | StSecond a => In (mkB (b_id o0) KSecond a) (tracked s)
     | _ => forall o, In o (tracked s) -> b_id o <> b_id o0
     end).
Proof.
  intros l0 s WF R Q. pose proof (reach_inv l0 s WF R) as [I1 I2 I3 I4].
  destruct WF as [ND0 WF2].
  assert (T : forall o, In o (tracked s) ->
     (In o l0 /\ ch s (b_id o) = StFirst) \/
     (exists a, o = mkB (b_id o) KSecond a /\ htlc_id l0 (b_id o) /\ ch s (b_id o) = StSecond a)).
  { intros o Hin. pose proof (Q o Hin) as Rp. unfold report in Rp.
    destruct (I1 o Hin) as [H|[a [Eo [Hh Hc]]]].
    - left. split; auto. rewrite (WF2 o H) in Rp. destruct (ch s (b_id o)); auto; discriminate.
    - right. exists a. split; auto. split; auto. rewrite Eo in Rp. simpl in Rp.
      destruct Hc as [Hc|Hc]; auto. rewrite Hc in Rp. discriminate. }
  split; [exact I2|]. split; [exact T|].
  intros o0 Hin0. destruct (ch s (b_id o0)) eqn:C.
  - destruct (I3 o0 Hin0) as [o [Hin Eid]]; [auto|].
    destruct (T o Hin) as [[H _]|[a [_ [_ Hc]]]].
    + assert (o = o0) by (apply (same_id_same_entry l0 o o0 ND0 H Hin0 Eid)). now subst.
    + rewrite Eid, C in Hc. discriminate.
  - destruct (I3 o0 Hin0) as [o [Hin Eid]]; [eauto|].
    destruct (T o Hin) as [[_ Hc]|[a0 [Eo [_ Hc]]]].
    + rewrite Eid, C in Hc. discriminate.
    + rewrite Eid, C in Hc. inversion Hc; subst a0. rewrite Eid in Eo. now rewrite <- Eo.
  - intros o Hin Eid. destruct (T o Hin) as [[_ Hc]|[a0 [_ [_ Hc]]]];
      rewrite Eid, C in Hc; discriminate.
  - intros o Hin Eid. destruct (T o Hin) as [[_ Hc]|[a0 [_ [_ Hc]]]];
      rewrite Eid, C in Hc; discriminate.
Qed.

(* the witness layout used for an output is a function of the output's
   CURRENT level on chain at (re)build time *)
Lemma quiescent_witness_current : forall l0 s, wf0 l0 -> reach l0 s -> quiescent s ->
  forall j, In j (v_all (build (tracked s))) ->
    match ch s (j_id j) with
    | StFirst => j_second j = false /\
        exists o0, In o0 l0 /\ b_id o0 = j_id j /\ j_w j = wk (b_kind o0) /\ j_amt j = b_amt o0
    | StSecond a => j_second j = true /\ j_w j = WSecondRevoke /\ j_amt j = a
    | _ => False
    end.
Proof.
  intros l0 s WF R Q j Hin. destruct (quiescent_exact l0 s WF R Q) as [_ [T _]].
  simpl in Hin. apply in_map_iff in Hin. destruct Hin as [o [E Hin]]. subst j.
  destruct (T o Hin) as [[H Hc]|[a [Eo [_ Hc]]]]; unfold input_of; simpl; rewrite Hc.
  - split; [apply (proj2 WF); auto|]. exists o. auto.
  - rewrite Eo. simpl. auto.
Qed.

(* the split variants partition spend-all *)
Lemma kind_trichotomy : forall k,
  (is_commit k = true /\ is_htlc k = false /\ is_second k = false) \/
  (is_commit k = false /\ is_htlc k = true /\ is_second k = false) \/
  (is_commit k = false /\ is_htlc k = false /\ is_second k = true).
Proof. destruct k; simpl; auto. Qed.

Lemma build_partition : forall l,
  Permutation (v_all (build l))
              (v_commit (build l) ++ v_htlc (build l) ++ concat (v_second (build l))) /\
  Forall (fun v => exists j, v = [j] /\ j_second j = true /\ j_w j = WSecondRevoke) (v_second (build l)) /\
  Forall (fun j => j_second j = false) (v_commit (build l) ++ v_htlc (build l)).
Proof.
  intros l. unfold build; simpl. split; [|split].
  - induction l as [|o r IH]; simpl; [constructor|].
    destruct (kind_trichotomy (b_kind o)) as [[A [B C]]|[[A [B C]]|[A [B C]]]]; rewrite A, B, C; simpl.
    + now constructor.
    + eapply perm_trans; [apply perm_skip; exact IH|]. apply Permutation_middle.
    + eapply perm_trans; [apply perm_skip; exact IH|].
      rewrite app_assoc. eapply perm_trans; [apply Permutation_middle|]. rewrite <- app_assoc.
      reflexivity.
  - apply Forall_forall. intros v Hin. apply in_map_iff in Hin. destruct Hin as [o [E Hin]].
    apply filter_In in Hin. destruct Hin as [_ K]. exists (input_of o). split; auto.
    unfold input_of; simpl. destruct (b_kind o); simpl in *; try discriminate. auto.
  - apply Forall_forall. intros j Hin. apply in_app_or in Hin.
    destruct Hin as [Hin|Hin]; apply in_map_iff in Hin; destruct Hin as [o [E Hin]];
      apply filter_In in Hin; destruct Hin as [_ K]; subst j; unfold input_of; simpl;
      destruct (b_kind o); simpl in *; try discriminate; auto.
Qed.
