(* C05_htlc_sig_index — the commitment output order and the HTLC <-> output
   <-> signature assignment (lnwallet/commit_sort.go InPlaceCommitSort;
   lnwallet/commitment.go createUnsignedCommitmentTx; lnwallet/channel.go
   locateOutputIndex, populateHtlcIndexes, genRemoteHtlcSigJobs + the
   slices.SortFunc by OutputIndex in SignNextCommitment,
   genHtlcSigValidationJobs).  Executable definitions ONLY; proofs are in
   CommitSortProofs.v.

   An output is (value in satoshi, pkScript BYTES, cltv).  Nothing about the
   ORDER is abstract: pkScripts are compared by bytes.Compare on the real
   bytes.  What IS abstract: how a pkScript is derived from (payment hash,
   expiry, direction, keys, channel type) — the model takes the pkScript of
   every HTLC output as an input [h_pk] (tied to the real scripts by the
   harness, and to BOLT-3 by the Script/ layer); the theorems state what they
   need of it as hypotheses ([pk_facts]).  Dust trimming is the input flag
   [h_on] (the same on both sides: Channel.Model.htlc_is_dust, C01). *)
From Coq Require Import List ZArith NArith Bool Arith.
Import ListNotations.

(* ---------- bytes.Compare / bytes.Equal ---------- *)
Fixpoint bytes_cmp (a b : list N) : comparison :=
  match a, b with
  | [], [] => Eq
  | [], _ :: _ => Lt
  | _ :: _, [] => Gt
  | x :: r, y :: r' =>
    match N.compare x y with
    | Eq => bytes_cmp r r'
    | c => c
    end
  end.

Definition bytes_eqb (a b : list N) : bool :=
  match bytes_cmp a b with Eq => true | _ => false end.

(* ---------- outputs and the modified BIP69 order ---------- *)
Record out := mkOut { o_val : Z; o_pk : list N; o_cltv : N }.

(* sortableCommitOutputSlice.Less: value, then pkScript, then CLTV *)
Definition out_less (a b : out) : bool :=
  if negb (o_val a =? o_val b)%Z then (o_val a <? o_val b)%Z
  else match bytes_cmp (o_pk a) (o_pk b) with
       | Lt => true
       | Gt => false
       | Eq => (o_cltv a <? o_cltv b)%N
       end.

Definition out_eqb (a b : out) : bool :=
  (o_val a =? o_val b)%Z && bytes_eqb (o_pk a) (o_pk b) && (o_cltv a =? o_cltv b)%N.

(* sort.Sort is not stable; [out_less] is a strict TOTAL order on (value,
   pkScript, cltv) triples, so every correct sort returns the same list
   (CommitSortProofs.commit_sort_canonical) — insertion sort is as good a
   model as any. *)
Fixpoint out_insert (x : out) (l : list out) : list out :=
  match l with
  | [] => [x]
  | y :: r => if out_less x y then x :: l else y :: out_insert x r
  end.
Definition commit_sort (l : list out) : list out := fold_right out_insert [] l.

Fixpoint out_sortedb (l : list out) : bool :=
  match l with
  | [] => true
  | a :: r => match r with
              | [] => true
              | b :: _ => negb (out_less b a) && out_sortedb r
              end
  end.

(* ---------- HTLCs of a commitment view ---------- *)
Record hd := mkHd {
  h_idx : N;        (* HtlcIndex *)
  h_hash : N;       (* payment hash (an identifier: equal iff the 32 bytes are equal) *)
  h_sat : Z;        (* Amount.ToSatoshis() *)
  h_cltv : N;       (* Timeout *)
  h_pk : list N;    (* pkScript of this HTLC's output on THIS commitment transaction *)
  h_on : bool       (* not dust on this commitment transaction *)
}.

Definition out_of (h : hd) : out := mkOut (h_sat h) (h_pk h) (h_cltv h).
Definition htlc_outs (hs : list hd) : list out := map out_of (filter h_on hs).

(* createUnsignedCommitmentTx: the commitment outputs of CreateCommitTx (cltv
   0), then the non-dust HTLCs of view.Updates.Local, then those of
   view.Updates.Remote; then the sort. *)
Definition build_tx (base : list out) (local_upd remote_upd : list hd) : list out :=
  commit_sort (base ++ htlc_outs local_upd ++ htlc_outs remote_upd).

(* ---------- locateOutputIndex ---------- *)
(* dups map[PaymentHash][]int32 as a list of (hash, index) pairs *)
Definition dups := list (N * nat).
Definition dup_elem (hash : N) (i : nat) (d : dups) : bool :=
  existsb (fun p => (fst p =? hash)%N && (snd p =? i)%nat) d.

Definition matches (h : hd) (o : out) : bool :=
  bytes_eqb (o_pk o) (h_pk h) && (o_val o =? h_sat h)%Z && (o_cltv o =? h_cltv h)%N.

Fixpoint locate (h : hd) (tx : list out) (d : dups) (i : nat) : option nat :=
  match tx with
  | [] => None                                   (* "unable to find htlc" *)
  | o :: r =>
    if matches h o && negb (dup_elem (h_hash h) i d) then Some i
    else locate h r d (S i)
  end.

(* populateHtlcIndexes over one of the two slices; per HTLC: None = dust (-1) *)
Definition assigned := list (hd * option nat).

Fixpoint populate_list (tx : list out) (hs : list hd) (d : dups) : option (assigned * dups) :=
  match hs with
  | [] => Some ([], d)
  | h :: r =>
    if h_on h then
      match locate h tx d 0 with
      | None => None
      | Some i =>
        match populate_list tx r ((h_hash h, i) :: d) with
        | None => None
        | Some (l, d') => Some ((h, Some i) :: l, d')
        end
      end
    else
      match populate_list tx r d with
      | None => None
      | Some (l, d') => Some ((h, None) :: l, d')
      end
  end.

(* outgoingHTLCs first, then incomingHTLCs, one dups map *)
Definition populate (tx : list out) (outgoing incoming : list hd) : option (assigned * assigned) :=
  match populate_list tx outgoing [] with
  | None => None
  | Some (lo, d) =>
    match populate_list tx incoming d with
    | None => None
    | Some (li, _) => Some (lo, li)
    end
  end.

(* ---------- the two sides ---------- *)
(* A signature slot: (output index, HTLC offered by the SIGNER?, HtlcIndex). *)
Definition slot := (nat * bool * N)%type.
Definition slot_index (s : slot) : nat := fst (fst s).

Definition jobs_of (by_signer : bool) (l : assigned) : list slot :=
  flat_map (fun p => match snd p with
                     | Some i => [(i, by_signer, h_idx (fst p))]
                     | None => []
                     end) l.

(* slices.SortFunc(sigBatch, cmp.Compare(i.OutputIndex, j.OutputIndex)) *)
Fixpoint slot_insert (x : slot) (l : list slot) : list slot :=
  match l with
  | [] => [x]
  | y :: r => if (slot_index x <=? slot_index y)%nat then x :: l else y :: slot_insert x r
  end.
Definition slot_sort (l : list slot) : list slot := fold_right slot_insert [] l.

(* The signer S builds the VERIFIER's commitment (whoseCommit = Remote):
   Updates.Local = the HTLCs S offered [so], Updates.Remote = those V offered
   [vo].  genRemoteHtlcSigJobs: incomingHTLCs first, then outgoingHTLCs; sorted
   by output index; signatures are sent in that order. *)
Definition signer_tx (base : list out) (so vo : list hd) : list out := build_tx base so vo.

Definition signer_view (base : list out) (so vo : list hd) : option (assigned * assigned) :=
  populate (signer_tx base so vo) so vo.

Definition signer_sigs (base : list out) (so vo : list hd) : option (list slot) :=
  match signer_view base so vo with
  | None => None
  | Some (lo, li) => Some (slot_sort (jobs_of false li ++ jobs_of true lo))
  end.

(* The verifier V builds its OWN commitment (whoseCommit = Local):
   Updates.Local = [vo], Updates.Remote = [so].  incomingHTLCIndex /
   outgoingHTLCIndex are maps output index -> HTLC (a later write overwrites);
   genHtlcSigValidationJobs walks the outputs 0 .. n-1, looks an index up in
   incomingHTLCIndex first, then outgoingHTLCIndex, and consumes htlcSigs[i]. *)
Definition verifier_tx (base : list out) (so vo : list hd) : list out := build_tx base vo so.

Definition verifier_view (base : list out) (so vo : list hd) : option (assigned * assigned) :=
  populate (verifier_tx base so vo) vo so.

Definition index_lookup (l : assigned) (i : nat) : option hd :=
  match find (fun p => match snd p with Some j => (j =? i)%nat | None => false end) (rev l) with
  | Some p => Some (fst p)
  | None => None
  end.

Definition verifier_slots (n : nat) (lo li : assigned) : list slot :=
  flat_map (fun i => match index_lookup li i with
                     | Some h => [(i, true, h_idx h)]      (* incoming for V = offered by S *)
                     | None => match index_lookup lo i with
                               | Some h => [(i, false, h_idx h)]
                               | None => []
                               end
                     end) (seq 0 n).

Definition verifier_sigs (base : list out) (so vo : list hd) : option (list slot) :=
  match verifier_view base so vo with
  | None => None
  | Some (lo, li) => Some (verifier_slots (length (verifier_tx base so vo)) lo li)
  end.

(* ---------- what the theorems need of the scripts ---------- *)
Definition on_tx (hs : list hd) (h : hd) : Prop := In h hs /\ h_on h = true.

Record pk_facts (so vo : list hd) : Prop := {
  (* an HTLC script commits to the payment hash *)
  pk_hash : forall a b, on_tx (so ++ vo) a -> on_tx (so ++ vo) b ->
              h_pk a = h_pk b -> h_hash a = h_hash b;
  (* the offered-HTLC script and the received-HTLC script never coincide *)
  pk_dir : forall a b, on_tx so a -> on_tx vo b -> h_pk a <> h_pk b
}.

(* executable version (CommitSortProofs.pk_factsb_sound); evaluated on every
   observed commitment by the trace checker *)
Definition pk_factsb (so vo : list hd) : bool :=
  let all := filter h_on (so ++ vo) in
  forallb (fun a => forallb (fun b =>
     if bytes_eqb (h_pk a) (h_pk b) then (h_hash a =? h_hash b)%N else true) all) all
  && forallb (fun a => forallb (fun b => negb (bytes_eqb (h_pk a) (h_pk b)))
                               (filter h_on vo)) (filter h_on so).

(* number of non-dust HTLCs *)
Definition n_on (hs : list hd) : nat := length (filter h_on hs).
