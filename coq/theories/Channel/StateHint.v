(* C04 layer 1 — the commitment STATE HINT (lnwallet/transactions.go
   SetStateNumHint / GetStateNumHint, constants StateHintSize = 6,
   maxStateHint = 2^48 - 1, TimelockShift = 2^29, wire.SequenceLockTimeDisabled
   = 2^31).  Executable definitions ONLY; proofs are in StateHintProofs.v.

   Everything is an exact fixed-width bit operation on N:
     uint32(x)            = x land (2^32 - 1)
     obfuscator           = the 6 obfuscator bytes read big-endian into the low 48
                            bits of a uint64 ([obf_of_bytes]; `copy(obfs[2:], ..)`)
     stateNum ^ xorInt    = N.lxor (both are uint64, no wrap possible)
     Sequence             = uint32(s >> 24) | 0x80000000
     LockTime             = uint32(s & 0xFFFFFF) | TimelockShift
     GetStateNumHint      = ((uint64(seq & 0xFFFFFF) << 24) | uint64(lock & 0xFFFFFF)) ^ xorInt *)
From Coq Require Import List NArith Bool.
Import ListNotations.
Local Open Scope N_scope.

Definition max_state_hint : N := 281474976710655.      (* (1 << 48) - 1 *)
Definition timelock_shift : N := 536870912.            (* 1 << 29 *)
Definition seq_locktime_disabled : N := 2147483648.    (* 1 << 31 *)
Definition mask24 : N := 16777215.                     (* 0xFFFFFF *)

Definition u32 (x : N) : N := N.land x 4294967295.
Definition u64 (x : N) : N := N.land x 18446744073709551615.

(* binary.BigEndian.Uint64 of [0; 0; b0; ..; b5] *)
Definition obf_of_bytes (b : list N) : N :=
  fold_left (fun acc x => acc * 256 + x) b 0.

Inductive hint_res :=
| HintOk (sequence locktime : N)
| HintErrTooLarge               (* "unable to encode state, .. is greater state num that max of .." *)
| HintErrInputs.                (* "commitment tx must have exactly 1 input" *)

(* SetStateNumHint(commitTx, stateNum, obfuscator) on a transaction with n_in
   inputs; check order as in the Go code. *)
Definition set_hint_tx (n_in h obf : N) : hint_res :=
  if max_state_hint <? h then HintErrTooLarge
  else if negb (n_in =? 1) then HintErrInputs
  else
    let s := u64 (N.lxor h obf) in
    HintOk (N.lor (u32 (N.shiftr s 24)) seq_locktime_disabled)
           (N.lor (u32 (N.land s mask24)) timelock_shift).

(* a commitment transaction has exactly one input, the funding outpoint *)
Definition set_hint (h obf : N) : option (N * N) :=
  match set_hint_tx 1 h obf with
  | HintOk sq lt => Some (sq, lt)
  | _ => None
  end.

(* GetStateNumHint(commitTx, obfuscator) from the two fields *)
Definition get_hint (sq lt obf : N) : N :=
  N.lxor (N.lor (u64 (N.shiftl (N.land sq mask24) 24)) (N.land lt mask24)) obf.

Definition get_hint_of (r : option (N * N)) (obf : N) : option N :=
  match r with
  | Some (sq, lt) => Some (get_hint sq lt obf)
  | None => None
  end.
