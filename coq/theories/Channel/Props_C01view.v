(* C01view - the INCREMENTAL add/remove-height bookkeeping of lnwallet (Channel/View.v).
   Property theorems ONLY (each closed by [exact] of a lemma of ViewProofs.v).

   Vocabulary (definitions in View.v / ViewProofs.v):
     committed w e   the height recording "e's effect is applied on chain w" (w = true: Local):
                     removeCommitHeight for settle/fail entries, addCommitHeight for adds and
                     fee updates; 0 = unset.
     markfn w h idx  what computeView(updateState) does to one log entry: an entry OF THE VIEW
                     (LogIndex < idx) that is uncommitted on chain w gets setCommitHeight w h.
                     mark_log w h idx u maps it over the log (by definition).
     ix p k          messageIndices of commitment k for party p's updates (the cut component).
     VInv p x        party invariant: for BOTH logs and BOTH chains, with (tail, tip) the chain's
                     oldest unrevoked / newest commitment and i the entry's LogIndex:
                       i <  cut(tail)            ->  0 < committed <= height(tail)
                       cut(tail) <= i < cut(tip) ->  height(tail) < committed <= height(tip)
                       cut(tip) <= i             ->  committed = 0
                     plus: heights >= 0 and increasing along a chain; own updates:
                     cut(local tail) <= cut(local tip) <= cut(remote tail) <= cut(remote tip)
                     <= logIndex; peer updates: remote <= local <= logIndex.
     VInvS s         VInv for both parties of the two-party system. *)
From Coq Require Import List ZArith NArith Bool Arith.
From LV Require Import Channel.Model Channel.Resync Channel.Proofs Channel.View Channel.ViewProofs
     Channel.ViewRefine Channel.ViewSim Channel.ViewRestore Channel.ViewRestoreInv
     Channel.Discipline Channel.ViewResync.
Import ListNotations.
Local Open Scope N_scope.

(* (a1) Heights are written ONCE: marking a view at height h leaves an entry whose height on
   that chain is set, or which lies outside the view, completely unchanged; an unset entry of
   the view gets exactly h; the other chain's heights and the entry's identity never change. *)
Theorem C01view_height_written_once : forall w h idx e,
  let e' := markfn w h idx e in
  (committed w e <> 0 -> e' = e) /\
  (idx <= e_log e -> e' = e) /\
  (committed w e = 0 -> e_log e < idx -> committed w e' = h) /\
  add_h (negb w) e' = add_h (negb w) e /\ rm_h (negb w) e' = rm_h (negb w) e /\
  e_type e' = e_type e /\ e_log e' = e_log e /\ e_htlc e' = e_htlc e /\
  e_parent e' = e_parent e /\ e_amt e' = e_amt e.
Proof. exact markfn_spec. Qed.

(* (a2) Heights reflect cuts, in EVERY state of EVERY schedule of the two-party incremental
   system (sends, signs, revokes, deliveries in any interleaving, refused ops included) in
   which no signature is rejected: the invariant VInvS holds. *)
Theorem C01view_heights_reflect_cuts : forall c s0 ops,
  vinit c = Some s0 -> no_sig_rejected c s0 ops -> VInvS (vrun c s0 ops).
Proof. exact vrun_inv_init. Qed.

(* ... one step at a time (the inductive core; a rejected signature is the only exception:
   ReceiveNewCommitment marks heights before it verifies, then the link fails the channel) *)
Theorem C01view_invariant_step : forall c s o,
  fst (vstep c s o) <> ErrSigInvalid -> VInvS s -> VInvS (snd (vstep c s o)).
Proof. exact vstep_inv. Qed.

(* (a3) ... so under the invariant an entry's height on a chain is set IFF the entry lies below
   the cut of that chain's newest commitment (some commitment of the chain includes it); by (a1)
   the value is the height of the FIRST commitment that included it. *)
Theorem C01view_height_set_iff_included : forall p x, VInv p x ->
  (forall e, In e (l_list (vl x)) ->
     (committed false e = 0 <-> ix p (rtipv x) <= e_log e) /\
     (committed true e = 0 <-> ix p (ltipv x) <= e_log e)) /\
  (forall e, In e (l_list (vr x)) ->
     (committed false e = 0 <-> ix (negb p) (rtipv x) <= e_log e) /\
     (committed true e = 0 <-> ix (negb p) (ltipv x) <= e_log e)).
Proof. exact vinv_unset_iff. Qed.

(* (b) Balance effects are applied exactly once per chain: whenever evaluateHTLCView succeeds
   on a view, then after that view has been committed at a height h <> 0 (mark_log) the same
   view evaluates to the same fee rate and the same live HTLCs with balance deltas (0, 0).
   (Never twice: this + (a1); never zero times: the deltas of the first evaluation range over
   exactly the entries whose height is unset, by definition of eval_removes / eval_adds.) *)
Theorem C01view_balance_once : forall whose h oi ti, h <> 0 ->
  forall ll lr il rate0 rate lo lt d,
  evaluateHTLCView ll lr (fetchHTLCView1 ll oi) (fetchHTLCView1 lr ti) whose il rate0
    = Some (rate, lo, lt, d) ->
  evaluateHTLCView (mark_log whose h oi ll) (mark_log whose h ti lr)
                   (fetchHTLCView1 (mark_log whose h oi ll) oi)
                   (fetchHTLCView1 (mark_log whose h ti lr) ti) whose il rate0
    = Some (rate, map (markfn whose h oi) lo, map (markfn whose h ti) lt, (0, 0)%Z).
Proof. exact eval_after_mark. Qed.

(* (c1) compactLogs removes from a log ONLY: a non-Add entry carrying the LogIndex of an entry
   that meets the eviction condition (both remove heights set and <= the respective tails), or
   the Add named by such a settle / fail of the other log. *)
Theorem C01view_compaction_removes_only_locked : forall l r lt rt l' r',
  compactLogs l r lt rt = (l', r') ->
  forall e, In e (l_list l) -> ~ In e (l_list l') ->
  gone_a lt rt (l_list l) e \/ gone_b lt rt (l_list r) e.
Proof. exact compactLogs_gone. Qed.

(* (c2) ... and under the invariant a settle / fail of the own log that meets the eviction
   condition at a received revocation lies below the cut of BOTH new tails: every commitment
   held or in flight and every future one includes it, its effect is applied on both chains. *)
Theorem C01view_compacted_below_both_tails : forall p x k e0,
  VInv p x -> v_rtip x = Some k -> In e0 (l_list (vl x)) -> is_remove e0 = true ->
  compactable (hN (v_ltail x)) (hN k) e0 = true ->
  e_log e0 < ix p (v_ltail x) /\ e_log e0 < ix p k.
Proof. exact compactable_below_tails. Qed.

(* (d0) a restart is a function of the channel DB alone and is idempotent. *)
Theorem C01view_restore_function : forall p x,
  v_restore p (v_restore p x) = v_restore p x /\
  forall y, v_ltail x = v_ltail y -> v_rtail x = v_rtail y -> v_rtip x = v_rtip y ->
            d_diff x = d_diff y -> d_unsigned_acked x = d_unsigned_acked y ->
            d_remote_unsigned x = d_remote_unsigned y -> v_restore p x = v_restore p y.
Proof. exact v_restore_partial. Qed.

(* (d) restore reproduces the heights.  NewLightningChannel does NOT reproduce the pre-crash
   numbers (channel.go: it stamps the height of the persisted commitment "even though the real
   height may be lower"); what it reproduces is the MEANING of the heights, and that is the
   statement: if y stands for the cut-level party x (CorrX, the relation of C01view_refinement)
   and the persisted data are what the machine writes (PInv: the HTLC lists of the persisted
   commitments are the live Adds of their cuts, the three persisted update lists are the log
   segments between the cuts), then the party rebuilt from disk stands for Resync.restore p x,
   again in the full sense of CorrX: the same commitments, logs holding exactly the entries the
   cut-level logs call present, every height in the range VInv prescribes for its LogIndex
   (below the tail's cut: 0 < h <= height(tail); between tail and tip: height(tip); above: unset),
   counters, HtlcIndex counters, modified sets and fee entries as after an uninterrupted run, and
   the eviction frontiers at the cuts of the two tails. *)
Theorem C01view_restore : forall c p x y Fo Fp,
  CorrX c p x y Fo Fp -> PInv p x y ->
  CorrX c p (restore p x) (v_restore p y) (n_of p (lTail x)) (n_of (negb p) (rTail x)).
Proof. exact restore_corrx. Qed.

(* ... PInv (with the shapes of log entries, PInvS) holds in every reachable state: it is
   established by the funding state and kept by every operation of the incremental machine ... *)
Theorem C01view_persisted_reachable : forall c s0 v0 vops,
  init_sys c = Some s0 -> vinit c = Some v0 ->
  let (s, v) := run_along c s0 v0 vops in forall p, PInvS p (get s p) (vget v p).
Proof. exact pinv_reachable. Qed.

(* ... and is kept by a restart, so (d) holds UNCONDITIONALLY for a crash in any reachable state,
   and the rebuilt party again satisfies the hypotheses of (d). *)
Theorem C01view_restore_reachable : forall c s0 v0 vops,
  init_sys c = Some s0 -> vinit c = Some v0 ->
  let (s, v) := run_along c s0 v0 vops in
  forall p,
    CorrX c p (restore p (get s p)) (v_restore p (vget v p))
          (n_of p (lTail (get s p))) (n_of (negb p) (rTail (get s p))) /\
    PInvS p (restore p (get s p)) (v_restore p (vget v p)).
Proof. exact restore_reachable. Qed.

(* (d) spelled out without CorrX: after a crash in ANY reachable state the rebuilt party
   satisfies the height invariant VInv, holds exactly the persisted commitments (the unrevoked
   local tip is gone), and its log counters are the cuts Resync.restore truncates the logs to. *)
Theorem C01view_restore_heights : forall c s0 v0 vops,
  init_sys c = Some s0 -> vinit c = Some v0 ->
  let (s, v) := run_along c s0 v0 vops in
  forall p,
    let x := get s p in let y' := v_restore p (vget v p) in
    VInv p y' /\
    commits_view y' = (lTail x, None, rTail x, rTip x) /\
    l_idx (vl y') = N.of_nat (n_of p (tip_of (rTail x) (rTip x))) /\
    l_idx (vr y') = N.of_nat (n_of (negb p) (lTail x)).
Proof. exact restore_reachable_vinv. Qed.

(* ---------- reconnects: the incremental machine refines Resync.v (C02 / C03) ---------- *)
(* ProcessChanSyncMsg.  If y stands for x (CorrX), the persisted data are what the machine
   writes (PInvS) and the own log / the persisted CommitDiff are in LogIndex order above the
   remote tail's cut (OrdInv), then whenever Resync.process_sync succeeds, v_process_sync
   returns the SAME messages in the same order (retransmitted updates read back from
   CommitDiff.LogUpdates, the stored commit_sig, revoke_and_ack, a fresh signature) and the same
   signed-now flag, and the party it leaves satisfies the three hypotheses again. *)
Theorem C01view_process_sync : forall c p x y Fo Fp,
  CorrX c p x y Fo Fp -> PInvS p x y -> OrdInv p y ->
  forall f next rtail x1 out sg,
  process_sync c p x f next rtail = (SOk, x1, out, sg) ->
  exists y1, v_process_sync c p y f next rtail = (SOk, y1, out, sg) /\
    CorrX c p x1 y1 Fo Fp /\ PInvS p x1 y1 /\ OrdInv p y1 /\ own x1 = own x /\
    (forall u, In (MUpd u) out -> In u (own x)).
Proof. exact psync_full. Qed.

(* one reconnect (XCut ka kb: ka / kb messages still reach A / B, both processes restart from
   disk, exchange channel_reestablish, retransmit): under the link discipline of C03, if the
   cut-level reconnect succeeds so does the incremental one, and the simulation relation XSim
   (= Sim of C01view_sim_step + PInvS + OrdInv + ResyncProofs.XInv + equal LastWasRevoke flags)
   is kept. *)
Theorem C01view_reconnect_step : forall c s v ka kb,
  XSim c s v -> disciplined c s (XCut ka kb) = true -> fst (xstep c s (XCut ka kb)) = Ok ->
  fst (vxstep c v (VXCut ka kb)) = Ok /\
  XSim c (snd (xstep c s (XCut ka kb))) (snd (vxstep c v (VXCut ka kb))).
Proof. exact xcut_sim. Qed.

(* THE REFINEMENT THEOREM WITH RECONNECTS.  For every schedule of sends (incl. malformed
   fails), signs, revokes, deliveries AND reconnects that is disciplined and whose reconnects
   succeed at cut level (xgood - the schedules of C02 / C03's dreachable_ok), with
   (s, v) := xrun_along: s is Resync.xrun of the erased schedule, and the incremental machine
   holds exactly s's eight commitments, queues, LastWasRevoke flags and log counters, and
   satisfies the height invariant. *)
Theorem C01view_reconnect_refinement : forall c s0 v0 ops,
  xinit c = Some s0 -> vinit c = Some v0 -> xgood c s0 (map xerase ops) = true ->
  let (s, v) := xrun_along c s0 v0 ops in
  s = xrun c s0 (map xerase ops) /\
  (forall p, commits_view (vget v p) =
             (lTail (get (xs s) p), lTip (get (xs s) p), rTail (get (xs s) p), rTip (get (xs s) p))) /\
  vqAB v = qAB (xs s) /\ vqBA v = qBA (xs s) /\
  vlwrA v = lwrA s /\ vlwrB v = lwrB s /\
  (forall p, l_idx (vl (vget v p)) = N.of_nat (length (own (get (xs s) p))) /\
             l_idx (vr (vget v p)) = N.of_nat (length (peer (get (xs s) p)))) /\
  (forall p, VInv p (vget v p)).
Proof. exact xview_refines. Qed.

(* ... every reconnect the cut-level model completes is completed (Ok) by the incremental
   machine ... *)
Theorem C01view_reconnect_accepts : forall c s0 v0 ops ka kb,
  xinit c = Some s0 -> vinit c = Some v0 -> xgood c s0 (map xerase ops ++ [XCut ka kb]) = true ->
  fst (vxstep c (snd (xrun_along c s0 v0 ops)) (VXCut ka kb)) = Ok.
Proof. exact xview_accepts. Qed.

(* ... and (d) holds for a crash in any state reachable WITH reconnects. *)
Theorem C01view_restore_reachable_x : forall c s0 v0 ops,
  xinit c = Some s0 -> vinit c = Some v0 -> xgood c s0 (map xerase ops) = true ->
  let (s, v) := xrun_along c s0 v0 ops in
  forall p,
    CorrX c p (restore p (get (xs s) p)) (v_restore p (vget v p))
          (n_of p (lTail (get (xs s) p))) (n_of (negb p) (rTail (get (xs s) p))) /\
    PInvS p (restore p (get (xs s) p)) (v_restore p (vget v p)).
Proof. exact xrestore_reachable. Qed.

(* The entry shapes the model-free predicate heights_sane tests on every dump, for every state
   reachable with reconnects: a fee update carries add = remove heights on each chain (so VInv,
   which speaks about its add heights, covers its remove heights too), an Add carries no remove
   heights, a settle / fail no add heights. *)
Theorem C01view_entry_shapes : forall c s0 v0 ops,
  xinit c = Some s0 -> vinit c = Some v0 -> xgood c s0 (map xerase ops) = true ->
  forall p e, In e (l_list (vl (vget (snd (xrun_along c s0 v0 ops)) p))) \/
              In e (l_list (vr (vget (snd (xrun_along c s0 v0 ops)) p))) ->
    (is_fee e = true -> e_addL e = e_rmL e /\ e_addR e = e_rmR e) /\
    (is_add e = true -> e_rmL e = 0 /\ e_rmR e = 0) /\
    (is_remove e = true -> e_addL e = 0 /\ e_addR e = 0).
Proof. exact entry_shapes_reachable. Qed.

(* The commitment CONSTRUCTION of the incremental machine (finish_commit, used by
   fetchCommitmentView) is literally commit_of's once the gross balances, the fee rate and the
   live HTLC sets of the cut are supplied. *)
Theorem C01view_commit_of_finish : forall c o h lA lB nA nB,
  commit_of c o h lA lB nA nB =
  let uA := firstn nA lA in let uB := firstn nB lB in
  if negb (nodupb (map fst (removes_of uB)) && nodupb (map fst (removes_of uA))) then None else
  match removed_amounts (adds_of uA) (removes_of uB), removed_amounts (adds_of uB) (removes_of uA) with
  | Some (setA, failA), Some (setB, failB) =>
    finish_commit c o h nA nB
      (gross0A c - sum_adds (adds_of uA) + failA + setB)%Z
      (gross0B c - sum_adds (adds_of uB) + failB + setA)%Z
      (last_fee (if opener c then uA else uB) (rate0 c))
      (live_adds (adds_of uA) (removes_of uB)) (live_adds (adds_of uB) (removes_of uA))
  | _, _ => None
  end.
Proof. exact commit_of_finish. Qed.

(* =============================================================================================
   THE REFINEMENT THEOREM (ViewSim.v).  For EVERY schedule vops of the two-party system (sends incl.
   update_fail_malformed_htlc, signs, revokes, deliveries, any interleaving, refused ops included),
   running the incremental machine of View.v ALONGSIDE the cut-level model of Model.v
   (run_along: the incremental machine is stepped exactly when the cut model accepts the op; the
   cut-level state is run c s0 (map erase vops)):
     - all eight commitments (both parties: local / remote tail and tip) of the incremental
       machine - balances, HTLC sets, fee, fee rate, heights, cuts - EQUAL those of the cut model,
       i.e. commit_of at the cut the cut model uses,
     - both message queues are equal (same updates, same commit_sig descriptors, same revocations),
     - the log counters equal the lengths of the update lists.
   Hence every C01 theorem transfers (two instances below). *)
Theorem C01view_refinement : forall c s0 v0 vops,
  init_sys c = Some s0 -> vinit c = Some v0 ->
  let (s, v) := run_along c s0 v0 vops in
  s = run c s0 (map erase vops) /\
  (forall p, commits_view (vget v p) =
             (lTail (get s p), lTip (get s p), rTail (get s p), rTip (get s p))) /\
  vqAB v = qAB s /\ vqBA v = qBA s /\
  (forall p, l_idx (vl (vget v p)) = N.of_nat (length (own (get s p))) /\
             l_idx (vr (vget v p)) = N.of_nat (length (peer (get s p)))).
Proof. exact view_refines_model. Qed.

(* ... and every op the cut-level model accepts in such a state is accepted (Ok) by the
   incremental machine: fetchParent never fails, no balance check differs, the in-place fee merge
   takes the same decision, SettleHTLC / FailHTLC find the HTLC and it is not marked modified. *)
Theorem C01view_refinement_accepts : forall c s0 v0 vops o s',
  init_sys c = Some s0 -> vinit c = Some v0 ->
  step c (fst (run_along c s0 v0 vops)) (erase o) = (Ok, s') ->
  fst (vstep c (snd (run_along c s0 v0 vops)) o) = Ok.
Proof. exact view_accepts. Qed.

(* the inductive core: the simulation relation Sim (Proofs.Inv of the cut-level system, equal
   queues, CorrX for both parties) is kept by every accepted step *)
Theorem C01view_sim_step : forall c s v o s',
  Sim c s v -> step c s (erase o) = (Ok, s') ->
  exists v', vstep c v o = (Ok, v') /\ Sim c s' v'.
Proof. exact sim_step. Qed.

(* (c) strengthened: compactLogs EXACTLY - under unique keys, what remains of each log is the
   filter [keep]: an entry stays iff it does not meet the eviction condition and is not the Add
   named by an evictable settle / fail of the other log (so everything evictable IS evicted). *)
Theorem C01view_compaction_exact : forall l r lt rt l' r',
  NoDup (l_list l) -> uq_log (l_list l) -> uq_htlc (l_list l) ->
  NoDup (l_list r) -> uq_log (l_list r) -> uq_htlc (l_list r) ->
  compactLogs l r lt rt = (l', r') ->
  l_list l' = filter (keep lt rt (l_list r)) (l_list l) /\
  l_list r' = filter (keep lt rt (l_list l)) (l_list r) /\
  l_idx l' = l_idx l /\ l_htlc l' = l_htlc l /\ l_idx r' = l_idx r /\ l_htlc r' = l_htlc r /\
  (forall i, memN i (l_mod l') = true -> memN i (l_mod l) = true) /\
  (forall i, memN i (l_mod r') = true -> memN i (l_mod r) = true).
Proof. exact compactLogs_exact. Qed.

(* transfer of C01_conservation and C01_agreement to the incremental machine *)
Theorem C01view_conservation : forall c s0 v0 vops,
  cfg_ok c -> init_sys c = Some s0 -> vinit c = Some v0 ->
  forall p k, In k (vcommits_of (vget (snd (run_along c s0 v0 vops)) p)) -> conserved c k.
Proof. exact view_conservation. Qed.

Theorem C01view_agreement : forall c s0 v0 vops p k q,
  cfg_ok c -> init_sys c = Some s0 -> vinit c = Some v0 ->
  voutq (snd (run_along c s0 v0 vops)) (negb p) = MSig k :: q ->
  fst (vstep c (snd (run_along c s0 v0 vops)) (VOp (ODeliver p))) = Ok.
Proof. exact view_agreement. Qed.

(* ---------------------------------------------------------------------------------------------
   THE FORMERLY MISSING LEMMA of the refinement (ViewRefine.v), proved:
   computeView over COMPACTED entry logs = the cut.
     LogCorr L Lo U Ft Fo   the entry log U stands for the update list L (other log Lo): the
                            LogIndexes of U are - as a set (Permutation; after a restart list order
                            is not index order) - exactly the PRESENT indices of L: a settle / fail
                            / fee update is present iff its index is >= the compaction frontier Ft
                            of its log, an Add iff no settle / fail naming it lies below the
                            frontier Fo of the other log; the FEE updates appear in index order;
                            every entry carries type, indices and amounts of its update (a settle /
                            fail the amount of the Add it names).
   For party p, chain w, the chain's newest commitment [tip] (itself commit_of of its cut over p's
   logs) and any larger cut (nO, nP) inside the logs: if heights are set exactly below tip's cut
   (C01view_height_set_iff_included), every settle / fail names an Add committed below tip's cut
   and parents are unique, then whenever the cut-level model builds commitment k = commit_of at
   (nO, nP), computeView succeeds and finish_commit on ITS balances, fee rate and live HTLC sets
   is k. *)
Theorem C01view_computeView_is_cut :
  forall (c : cfg) (p : bool) (LO LP : list upd) (UO UP : ulog) (Fo Fp : nat),
  LogCorr LO LP UO Fo Fp -> LogCorr LP LO UP Fp Fo ->
  forall (w : bool) (tip k : commit) (nO nP : nat) (owner : bool) (h : Z),
  (Fo <= n_of p tip /\ n_of p tip <= nO /\ nO <= length LO)%nat ->
  (Fp <= n_of (negb p) tip /\ n_of (negb p) tip <= nP /\ nP <= length LP)%nat ->
  (forall e, In e (l_list UO) -> (committed w e = 0 <-> (n_of p tip <= idx e)%nat)) ->
  (forall e, In e (l_list UP) -> (committed w e = 0 <-> (n_of (negb p) tip <= idx e)%nat)) ->
  (forall j, In j (parents LO) -> exists a, add_pos LP j = Some a /\ (a < n_of (negb p) tip)%nat) ->
  (forall j, In j (parents LP) -> exists a, add_pos LO j = Some a /\ (a < n_of p tip)%nat) ->
  NoDup (parents LO) -> NoDup (parents LP) ->
  commit_of c (c_owner tip) (c_h tip) (if p then LO else LP) (if p then LP else LO)
            (c_nA tip) (c_nB tip) = Some tip ->
  commit_of c owner h (if p then LO else LP) (if p then LP else LO)
            (if p then nO else nP) (if p then nP else nO) = Some k ->
  exists ours theirs rate liveO liveT,
    computeView c p UO UP tip w (N.of_nat nO) (N.of_nat nP) = Some (ours, theirs, rate, liveO, liveT) /\
    finish_commit c owner h (if p then nO else nP) (if p then nP else nO)
      (if p then ours else theirs) (if p then theirs else ours) rate
      (sort_adds (map addent_of (if p then liveO else liveT)))
      (sort_adds (map addent_of (if p then liveT else liveO))) = Some k.
Proof. exact computeView_is_cut. Qed.

(* Party-level refinement of the two evaluating steps.  Corr c p x y Fo Fp (ViewRefine.v): the
   incremental party y stands for the cut-level party x - equal commitments and log counters,
   LogCorr for both logs with frontiers below both tails, VInv, every held commitment is commit_of
   of its cut over x's logs, every settle / fail in either log names an Add below the cut of both
   tails, parents unique.  Then SignNextCommitment / ReceiveNewCommitment of the incremental
   machine succeed whenever the cut model's do, send the SAME message and hold the SAME four
   commitments afterwards. *)
Theorem C01view_sign_refines : forall c p x y Fo Fp, Corr c p x y Fo Fp ->
  forall x' m, do_sign c p x = (Ok, x', Some m) ->
  exists y', v_sign c p y = (Ok, y', Some m) /\
             vk (v_ltail y') = lTail x' /\ option_map vk (v_ltip y') = lTip x' /\
             vk (v_rtail y') = rTail x' /\ option_map vk (v_rtip y') = rTip x'.
Proof. exact sign_refines. Qed.

Theorem C01view_recv_sig_refines : forall c p x y Fo Fp, Corr c p x y Fo Fp ->
  forall k0 x', do_recv_sig c p x k0 = (Ok, x') ->
  exists y', v_recv_sig c p y k0 = (Ok, y') /\
             vk (v_ltail y') = lTail x' /\ option_map vk (v_ltip y') = lTip x' /\
             vk (v_rtail y') = rTail x' /\ option_map vk (v_rtip y') = rTip x'.
Proof. exact recv_sig_refines. Qed.

(* Corr is an invariant of the commitment dance: it holds for the freshly funded channel and is
   kept - together with the equality of the step's result and message - by SignNextCommitment,
   ReceiveNewCommitment and RevokeCurrentCommitment.  (Update creation / delivery and ReceiveRevocation: ViewSim.v, used by C01view_sim_step.) *)
Theorem C01view_corr_init : forall c p x y,
  init_party c p = Some x -> vinit_party c p = Some y -> Corr c p x y 0 0.
Proof. exact corr_init. Qed.

Theorem C01view_corr_sign : forall c p x y Fo Fp, Corr c p x y Fo Fp ->
  forall x' m, do_sign c p x = (Ok, x', Some m) ->
  exists y', v_sign c p y = (Ok, y', Some m) /\ Corr c p x' y' Fo Fp.
Proof. exact sign_corr. Qed.

Theorem C01view_corr_recv_sig : forall c p x y Fo Fp, Corr c p x y Fo Fp ->
  forall k0 x', do_recv_sig c p x k0 = (Ok, x') ->
  exists y', v_recv_sig c p y k0 = (Ok, y') /\ Corr c p x' y' Fo Fp.
Proof. exact recv_sig_corr. Qed.

Theorem C01view_corr_revoke : forall c p x y Fo Fp, Corr c p x y Fo Fp ->
  forall x' m, do_revoke x = (Ok, x', Some m) ->
  exists y', v_revoke p y = (Ok, y', Some m) /\ Corr c p x' y' Fo Fp.
Proof. exact revoke_corr. Qed.

Print Assumptions C01view_height_written_once.
Print Assumptions C01view_heights_reflect_cuts.
Print Assumptions C01view_invariant_step.
Print Assumptions C01view_height_set_iff_included.
Print Assumptions C01view_balance_once.
Print Assumptions C01view_compaction_removes_only_locked.
Print Assumptions C01view_compacted_below_both_tails.
Print Assumptions C01view_restore_function.
Print Assumptions C01view_restore.
Print Assumptions C01view_persisted_reachable.
Print Assumptions C01view_restore_reachable.
Print Assumptions C01view_restore_heights.
Print Assumptions C01view_process_sync.
Print Assumptions C01view_reconnect_step.
Print Assumptions C01view_reconnect_refinement.
Print Assumptions C01view_reconnect_accepts.
Print Assumptions C01view_restore_reachable_x.
Print Assumptions C01view_entry_shapes.
Print Assumptions C01view_commit_of_finish.
Print Assumptions C01view_refinement.
Print Assumptions C01view_refinement_accepts.
Print Assumptions C01view_sim_step.
Print Assumptions C01view_compaction_exact.
Print Assumptions C01view_conservation.
Print Assumptions C01view_agreement.
Print Assumptions C01view_computeView_is_cut.
Print Assumptions C01view_sign_refines.
Print Assumptions C01view_recv_sig_refines.
Print Assumptions C01view_corr_init.
Print Assumptions C01view_corr_sign.
Print Assumptions C01view_corr_recv_sig.
Print Assumptions C01view_corr_revoke.
