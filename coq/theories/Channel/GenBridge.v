(* C01-C03 bridge (tie T1): the commitment-fee arithmetic REGENERATED from the
   lnd tree (Gen/GenArith.v: SatPerKWeight.FeeForWeight, HtlcTimeoutFee,
   HtlcSuccessFee, CommitWeight, HtlcIsDust, MilliSatoshi.ToSatoshis;
   Gen/GenConsts.v: the weights and AnchorSize) equals the corresponding
   definitions of Channel/Model.v on the channel's domain.

   Channel/Model.v is parametric in the weights (they are fields of [cfg],
   filled from the Go constants by the harness); [gen_cfg_ok] says that a cfg
   carries exactly the values the Go switch tables select for a channel type,
   and the lemmas below hold for every such cfg.  A source edit of
   FeeForWeight / HtlcIsDust / the Htlc*Fee and CommitWeight switch tables /
   ToSatoshis changes the generated side and breaks a lemma here. *)
From Coq Require Import ZArith Bool Lia List.
From LV Require Import Common.GoInt Gen.GenConsts Gen.GenArith Channel.Model.
Local Open Scope Z_scope.

(* the weight a second-level HTLC transaction is charged with; 0 encodes the
   zero-fee arm of HtlcTimeoutFee / HtlcSuccessFee *)
Definition gen_timeout_weight (anch taproot zerofee : bool) : Z :=
  if zerofee || taproot then 0
  else if anch then input_HtlcTimeoutWeightConfirmed else input_HtlcTimeoutWeight.
Definition gen_success_weight (anch taproot zerofee : bool) : Z :=
  if zerofee || taproot then 0
  else if anch then input_HtlcSuccessWeightConfirmed else input_HtlcSuccessWeight.

Definition gen_cfg_ok (c : cfg) (anch taproot zerofee : bool) : Prop :=
  anchors c = anch /\
  commit_weight c = lnwallet_CommitWeight anch taproot /\
  htlc_weight c = input_HTLCWeight /\
  timeout_weight c = gen_timeout_weight anch taproot zerofee /\
  success_weight c = gen_success_weight anch taproot zerofee /\
  anchor_size c = lnwallet_AnchorSize.

(* fee_per_kw travels as a uint32 (update_fee); weights are far below 2^31 *)
Definition rate_ok (rate : Z) : Prop := 0 <= rate < 4294967296.
Definition weight_ok (w : Z) : Prop := 0 <= w < 2147483648.

(* SatPerKWeight.FeeForWeight *)
Lemma gen_fee_for_weight_eq : forall rate w,
  rate_ok rate -> weight_ok w ->
  chainfee_SatPerKWeight_FeeForWeight rate w = fee_for_weight rate w.
Proof.
  unfold rate_ok, weight_ok. intros rate w Hr Hw.
  unfold chainfee_SatPerKWeight_FeeForWeight, fee_for_weight.
  rewrite (wrap_i64_small w) by (unfold in_i64; lia).
  rewrite wrap_i64_small by (unfold in_i64; nia).
  apply Z.quot_div_nonneg; nia.
Qed.

Lemma gen_weights_ok anch taproot zerofee :
  weight_ok (gen_timeout_weight anch taproot zerofee) /\
  weight_ok (gen_success_weight anch taproot zerofee).
Proof. destruct anch, taproot, zerofee; cbv; intuition congruence. Qed.

(* HtlcTimeoutFee / HtlcSuccessFee: the switch tables *)
Lemma gen_htlc_timeout_fee_eq : forall anch taproot zerofee rate,
  rate_ok rate ->
  lnwallet_HtlcTimeoutFee anch taproot zerofee rate
  = fee_for_weight rate (gen_timeout_weight anch taproot zerofee).
Proof.
  intros anch taproot zerofee rate Hr.
  unfold lnwallet_HtlcTimeoutFee, gen_timeout_weight.
  destruct (zerofee || taproot).
  - unfold fee_for_weight. rewrite Z.mul_0_r. reflexivity.
  - destruct anch; apply gen_fee_for_weight_eq; auto; cbv; intuition congruence.
Qed.

Lemma gen_htlc_success_fee_eq : forall anch taproot zerofee rate,
  rate_ok rate ->
  lnwallet_HtlcSuccessFee anch taproot zerofee rate
  = fee_for_weight rate (gen_success_weight anch taproot zerofee).
Proof.
  intros anch taproot zerofee rate Hr.
  unfold lnwallet_HtlcSuccessFee, gen_success_weight.
  destruct (zerofee || taproot).
  - unfold fee_for_weight. rewrite Z.mul_0_r. reflexivity.
  - destruct anch; apply gen_fee_for_weight_eq; auto; cbv; intuition congruence.
Qed.

(* MilliSatoshi.ToSatoshis *)
Lemma gen_to_satoshis_eq : forall msat, in_u64 msat ->
  lnwire_MilliSatoshi_ToSatoshis msat = msat / 1000.
Proof.
  intros msat H. unfold lnwire_MilliSatoshi_ToSatoshis, lnwire_mSatScale.
  apply wrap_i64_small. unfold in_u64, in_i64 in *.
  pose proof (Z.div_pos msat 1000).
  assert (msat / 1000 < 9223372036854775808) by (apply Z.div_lt_upper_bound; lia).
  lia.
Qed.

(* HtlcIsDust as node [x] calls it: whoseCommit = Local means x's commitment,
   incoming means offered by the peer.  [owner]/[from] are the model's view. *)
Lemma gen_htlc_is_dust_eq :
  forall (c : cfg) (anch taproot zerofee x local incoming : bool) (rate amt_msat dust : Z),
  gen_cfg_ok c anch taproot zerofee ->
  rate_ok rate -> in_u64 amt_msat ->
  let owner := if local then x else negb x in
  let from := if incoming then negb x else x in
  dust = dust_sat (side c owner) ->
  lnwallet_HtlcIsDust anch taproot zerofee incoming
                      (if local then lntypes_Local else lntypes_Remote)
                      rate (lnwire_MilliSatoshi_ToSatoshis amt_msat) dust
  = htlc_is_dust c owner from rate amt_msat.
Proof.
  intros c anch taproot zerofee x local incoming rate amt_msat dust
         (_ & _ & _ & Htw & Hsw & _) Hr Hamt owner from ->.
  unfold lnwallet_HtlcIsDust, htlc_is_dust.
  rewrite gen_to_satoshis_eq by assumption.
  rewrite Htw, Hsw.
  rewrite !gen_htlc_timeout_fee_eq, !gen_htlc_success_fee_eq by assumption.
  destruct (gen_weights_ok anch taproot zerofee) as [Wt Ws].
  set (tw := gen_timeout_weight anch taproot zerofee) in *.
  set (sw := gen_success_weight anch taproot zerofee) in *.
  assert (Hdiv : 0 <= amt_msat / 1000 < 18446744073709552).
  { unfold in_u64 in Hamt. split; [apply Z.div_pos; lia|].
    apply Z.div_lt_upper_bound; lia. }
  assert (Hfee : forall w, weight_ok w -> 0 <= fee_for_weight rate w < 9223372036854775808).
  { intros w Hw. unfold fee_for_weight, rate_ok, weight_ok in *. split.
    - apply Z.div_pos; nia.
    - apply Z.div_lt_upper_bound; nia. }
  pose proof (Hfee tw Wt). pose proof (Hfee sw Ws).
  subst owner from.
  destruct local, incoming, x; cbn [negb andb Bool.eqb];
    unfold lntypes_ChannelParty_IsLocal, lntypes_ChannelParty_IsRemote;
    change (lntypes_Local =? lntypes_Local) with true;
    change (lntypes_Remote =? lntypes_Local) with false;
    change (lntypes_Remote =? lntypes_Remote) with true;
    change (lntypes_Local =? lntypes_Remote) with false;
    cbv iota beta; cbn [negb andb];
    rewrite wrap_i64_small by (unfold in_i64; lia); reflexivity.
Qed.

(* CommitWeight: the switch table, spelled out against the constants *)
Lemma gen_commit_weight_eq : forall anch taproot,
  lnwallet_CommitWeight anch taproot
  = if taproot then input_TaprootCommitWeight
    else if anch then input_AnchorCommitWeight else input_CommitWeight.
Proof. reflexivity. Qed.

(* the model's well-formedness side conditions on weights hold for every
   cfg that carries the generated values *)
Lemma gen_cfg_weights_nonneg : forall c anch taproot zerofee,
  gen_cfg_ok c anch taproot zerofee ->
  0 <= anchor_size c /\ 0 <= commit_weight c /\ 0 <= htlc_weight c.
Proof.
  intros c anch taproot zerofee (_ & Hc & Hh & _ & _ & Ha).
  rewrite Hc, Hh, Ha. destruct anch, taproot; cbv; intuition congruence.
Qed.
