(* Proofs about the state-hint model (Channel/StateHint.v). *)
From Coq Require Import List NArith Bool Lia.
From LV Require Import Channel.StateHint.
Import ListNotations.
Local Open Scope N_scope.

(* ---------- bit facts ---------- *)
Lemma small_bits : forall a k n, a < 2 ^ k -> k <= n -> N.testbit a n = false.
Proof.
  intros a k n Ha Hk. destruct (N.eq_dec a 0) as [->|Hz]; [apply N.bits_0|].
  apply N.bits_above_log2. apply N.lt_le_trans with k; [|exact Hk].
  apply N.log2_lt_pow2; lia.
Qed.

Lemma bits_small : forall a k, (forall n, k <= n -> N.testbit a n = false) -> a < 2 ^ k.
Proof.
  intros a k H. destruct (N.eq_dec a 0) as [->|Hz].
  - apply N.neq_0_lt_0, N.pow_nonzero. discriminate.
  - apply N.log2_lt_pow2; [lia|].
    destruct (N.lt_ge_cases (N.log2 a) k) as [Hlt|Hge]; [exact Hlt|].
    specialize (H _ Hge). rewrite N.bit_log2 in H by exact Hz. discriminate.
Qed.

Lemma lxor_lt : forall a b k, a < 2 ^ k -> b < 2 ^ k -> N.lxor a b < 2 ^ k.
Proof.
  intros a b k Ha Hb. apply bits_small. intros n Hn.
  rewrite N.lxor_spec, (small_bits a k n), (small_bits b k n); auto.
Qed.

Lemma lor_lt : forall a b k, a < 2 ^ k -> b < 2 ^ k -> N.lor a b < 2 ^ k.
Proof.
  intros a b k Ha Hb. apply bits_small. intros n Hn.
  rewrite N.lor_spec, (small_bits a k n), (small_bits b k n); auto.
Qed.

Lemma land_ones_small : forall a k, a < 2 ^ k -> N.land a (N.ones k) = a.
Proof. intros a k H. rewrite N.land_ones. apply N.mod_small, H. Qed.

Lemma land_ones_lt : forall a k, N.land a (N.ones k) < 2 ^ k.
Proof.
  intros a k. rewrite N.land_ones. apply N.mod_lt, N.pow_nonzero. discriminate.
Qed.

Lemma u32_small : forall x, x < 2 ^ 32 -> u32 x = x.
Proof. intros x H. unfold u32. change 4294967295 with (N.ones 32). apply land_ones_small, H. Qed.

Lemma u64_small : forall x, x < 2 ^ 64 -> u64 x = x.
Proof.
  intros x H. unfold u64. change 18446744073709551615 with (N.ones 64).
  apply land_ones_small, H.
Qed.

Lemma pow2_mono_lt : forall a b x, x < 2 ^ a -> a <= b -> x < 2 ^ b.
Proof.
  intros a b x H Hab. apply N.lt_le_trans with (2 ^ a); [exact H|].
  apply N.pow_le_mono_r; [discriminate|exact Hab].
Qed.

Lemma shiftr_lt : forall s a b, s < 2 ^ (a + b) -> N.shiftr s b < 2 ^ a.
Proof.
  intros s a b H. rewrite N.shiftr_div_pow2.
  apply N.div_lt_upper_bound; [apply N.pow_nonzero; discriminate|].
  rewrite <- N.pow_add_r, (N.add_comm b a). exact H.
Qed.

(* (A | 2^j) & (2^k - 1) = A for A < 2^k, k <= j *)
Lemma land_lor_pow2_mask : forall A j k, A < 2 ^ k -> k <= j ->
  N.land (N.lor A (2 ^ j)) (N.ones k) = A.
Proof.
  intros A j k HA Hkj. apply N.bits_inj. intro n.
  rewrite N.land_spec, N.lor_spec, N.pow2_bits_eqb.
  destruct (N.lt_ge_cases n k) as [Hn|Hn].
  - rewrite N.ones_spec_low by exact Hn.
    assert (E : N.eqb j n = false) by (apply N.eqb_neq; lia).
    rewrite E, orb_false_r, andb_true_r. reflexivity.
  - rewrite N.ones_spec_high by exact Hn. rewrite andb_false_r.
    symmetry. apply (small_bits A k n); assumption.
Qed.

(* ((s >> k) << k) | (s & (2^k - 1)) = s *)
Lemma split_join : forall s k,
  N.lor (N.shiftl (N.shiftr s k) k) (N.land s (N.ones k)) = s.
Proof.
  intros s k. apply N.bits_inj. intro n.
  rewrite N.lor_spec, N.land_spec.
  destruct (N.lt_ge_cases n k) as [Hn|Hn].
  - rewrite N.shiftl_spec_low by exact Hn.
    rewrite N.ones_spec_low by exact Hn. rewrite andb_true_r. reflexivity.
  - rewrite N.shiftl_spec_high' by exact Hn. rewrite N.shiftr_spec'.
    rewrite N.ones_spec_high by exact Hn. rewrite andb_false_r, orb_false_r.
    f_equal. lia.
Qed.

(* a | b = a + b when the bits are disjoint: here b = 2^j above a *)
Lemma lor_pow2_add : forall A j k, A < 2 ^ k -> k <= j -> N.lor A (2 ^ j) = A + 2 ^ j.
Proof.
  intros A j k HA Hkj.
  assert (D : N.land A (2 ^ j) = 0).
  { apply N.bits_inj. intro n. rewrite N.land_spec, N.pow2_bits_eqb, N.bits_0.
    destruct (N.eqb_spec j n) as [<-|Hne].
    - rewrite (small_bits A k j) by assumption. reflexivity.
    - apply andb_false_r. }
  rewrite <- N.lxor_lor by exact D. symmetry. apply N.add_nocarry_lxor, D.
Qed.

(* ---------- the hint ---------- *)
Definition hint_fields_ok (sq lt : N) : Prop :=
  N.testbit sq 31 = true /\                       (* sequence lock disabled *)
  2 ^ 31 <= sq /\ sq < 2 ^ 31 + 2 ^ 24 /\         (* a uint32 with ONLY bit 31 above the 24 payload bits *)
  timelock_shift <= lt /\ lt < timelock_shift + 2 ^ 24 /\
  500000000 <= lt /\ lt < 2 ^ 30.                 (* a timestamp locktime, in the past *)

Section Hint.
  Variables h obf : N.
  Hypothesis Hobf : obf < 2 ^ 48.
  Hypothesis Hh : h < 2 ^ 48.

  Let s := N.lxor h obf.

  Lemma s_lt : s < 2 ^ 48.
  Proof. apply lxor_lt; assumption. Qed.

  Lemma hi_lt : N.shiftr s 24 < 2 ^ 24.
  Proof. apply (shiftr_lt s 24 24). exact s_lt. Qed.

  Lemma lo_lt : N.land s mask24 < 2 ^ 24.
  Proof. change mask24 with (N.ones 24). apply land_ones_lt. Qed.

  Lemma set_hint_value :
    set_hint h obf = Some (N.shiftr s 24 + 2 ^ 31, N.land s (N.ones 24) + 2 ^ 29).
  Proof.
    unfold set_hint, set_hint_tx.
    assert (E : (max_state_hint <? h) = false).
    { apply N.ltb_ge. unfold max_state_hint. change (2 ^ 48) with 281474976710656 in Hh. lia. }
    rewrite E. cbn [N.eqb Pos.eqb negb].
    fold s. rewrite (u64_small s) by (apply (pow2_mono_lt 48); [exact s_lt|discriminate]).
    rewrite (u32_small (N.shiftr s 24)) by (apply (pow2_mono_lt 24); [exact hi_lt|discriminate]).
    rewrite (u32_small (N.land s mask24)) by (apply (pow2_mono_lt 24); [exact lo_lt|discriminate]).
    change seq_locktime_disabled with (2 ^ 31). change timelock_shift with (2 ^ 29).
    rewrite (lor_pow2_add _ 31 24) by (exact hi_lt || discriminate).
    rewrite (lor_pow2_add _ 29 24) by (exact lo_lt || discriminate).
    reflexivity.
  Qed.

  Lemma hint_roundtrip_aux :
    exists sq lt, set_hint h obf = Some (sq, lt) /\ get_hint sq lt obf = h /\ hint_fields_ok sq lt.
  Proof.
    exists (N.shiftr s 24 + 2 ^ 31), (N.land s (N.ones 24) + 2 ^ 29).
    split; [exact set_hint_value|].
    pose proof hi_lt as Hhi. pose proof lo_lt as Hlo. change mask24 with (N.ones 24) in Hlo.
    split.
    - unfold get_hint. change mask24 with (N.ones 24).
      rewrite <- (lor_pow2_add _ 31 24) by (exact Hhi || discriminate).
      rewrite <- (lor_pow2_add _ 29 24) by (exact Hlo || discriminate).
      rewrite (land_lor_pow2_mask _ 31 24) by (exact Hhi || discriminate).
      rewrite (land_lor_pow2_mask _ 29 24) by (exact Hlo || discriminate).
      rewrite u64_small.
      + rewrite split_join. unfold s.
        rewrite N.lxor_assoc, N.lxor_nilpotent, N.lxor_0_r. reflexivity.
      + rewrite N.shiftl_mul_pow2.
        change (2 ^ 64) with (2 ^ 40 * 2 ^ 24).
        apply N.mul_lt_mono_pos_r; [reflexivity|].
        apply (pow2_mono_lt 24); [exact Hhi|discriminate].
    - unfold hint_fields_ok.
      change (2 ^ 24) with 16777216 in *. change (2 ^ 31) with 2147483648.
      change (2 ^ 29) with 536870912. change (2 ^ 30) with 1073741824.
      change timelock_shift with 536870912.
      repeat split; try lia.
      change 2147483648 with (2 ^ 31).
      rewrite <- (lor_pow2_add _ 31 24) by (exact Hhi || discriminate).
      rewrite N.lor_spec, N.pow2_bits_true. apply orb_true_r.
  Qed.
End Hint.

Lemma hint_roundtrip : forall obf h, obf < 2 ^ 48 -> h < 2 ^ 48 ->
  get_hint_of (set_hint h obf) obf = Some h.
Proof.
  intros obf h Ho Hh. destruct (hint_roundtrip_aux h obf Ho Hh) as (sq & lt & E & G & _).
  rewrite E. cbn [get_hint_of]. rewrite G. reflexivity.
Qed.

Lemma hint_fields : forall obf h sq lt, obf < 2 ^ 48 ->
  set_hint h obf = Some (sq, lt) -> hint_fields_ok sq lt.
Proof.
  intros obf h sq lt Ho E.
  assert (Hh : h < 2 ^ 48).
  { unfold set_hint, set_hint_tx in E.
    destruct (max_state_hint <? h) eqn:L; [discriminate|].
    apply N.ltb_ge in L. unfold max_state_hint in L. change (2 ^ 48) with 281474976710656. lia. }
  destruct (hint_roundtrip_aux h obf Ho Hh) as (sq' & lt' & E' & _ & F).
  rewrite E in E'. inversion E'. subst. exact F.
Qed.

Lemma hint_rejects_large : forall obf h n_in, 2 ^ 48 <= h ->
  set_hint_tx n_in h obf = HintErrTooLarge /\ set_hint h obf = None.
Proof.
  intros obf h n_in H.
  assert (E : (max_state_hint <? h) = true).
  { apply N.ltb_lt. unfold max_state_hint. change (2 ^ 48) with 281474976710656 in H. lia. }
  unfold set_hint, set_hint_tx. rewrite E. split; reflexivity.
Qed.

Lemma hint_accepts_small : forall obf h, h < 2 ^ 48 -> set_hint h obf <> None.
Proof.
  intros obf h H. unfold set_hint, set_hint_tx.
  assert (E : (max_state_hint <? h) = false).
  { apply N.ltb_ge. unfold max_state_hint. change (2 ^ 48) with 281474976710656 in H. lia. }
  rewrite E. cbn [N.eqb Pos.eqb negb]. discriminate.
Qed.

(* distinct heights give distinct (sequence, locktime) pairs: the watcher can
   never confuse two states of one channel *)
Lemma hint_injective : forall obf h1 h2, obf < 2 ^ 48 -> h1 < 2 ^ 48 -> h2 < 2 ^ 48 ->
  set_hint h1 obf = set_hint h2 obf -> h1 = h2.
Proof.
  intros obf h1 h2 Ho H1 H2 E.
  pose proof (hint_roundtrip obf h1 Ho H1) as R1.
  pose proof (hint_roundtrip obf h2 Ho H2) as R2.
  rewrite E in R1. rewrite R1 in R2. inversion R2. reflexivity.
Qed.

(* the 6 obfuscator bytes always give a 48-bit value *)
Lemma obf_of_bytes_lt_aux : forall b acc k, acc < 2 ^ k ->
  Forall (fun x => x < 256) b ->
  fold_left (fun acc x => acc * 256 + x) b acc < 2 ^ (k + 8 * N.of_nat (length b)).
Proof.
  induction b as [|x r IH]; intros acc k Ha Hb; cbn [fold_left length].
  - rewrite N.add_0_r. exact Ha.
  - inversion Hb as [|? ? Hx Hr]; subst.
    replace (k + 8 * N.of_nat (S (length r))) with ((k + 8) + 8 * N.of_nat (length r)) by lia.
    apply IH; [|exact Hr].
    rewrite N.pow_add_r. change (2 ^ 8) with 256. nia.
Qed.

Lemma obf_of_bytes_lt : forall b, length b = 6%nat -> Forall (fun x => x < 256) b ->
  obf_of_bytes b < 2 ^ 48.
Proof.
  intros b L F. unfold obf_of_bytes.
  pose proof (obf_of_bytes_lt_aux b 0 0 ltac:(reflexivity) F) as H.
  rewrite L in H. exact H.
Qed.
