(* C01view - non-vacuity.  A concrete well-formed configuration and a 70-op asynchronous
   schedule with adds both ways (one dust), a settle, a fail, a MALFORMED fail and a fee update
   (merged in place with a second one), overlapping signatures, evaluated by vm_compute:
   every step of the incremental machine returns Ok; alongside the cut-level model the two
   machines agree (refinesb) after EVERY step; the hypotheses of the C01view theorems hold on
   it; all logs end compacted; and a restart in the middle of the dance reproduces the logs.
   These are TESTS by vm_compute, not theorems about all schedules. *)
From Coq Require Import List ZArith NArith Bool Arith Lia.
From LV Require Import Channel.Model Channel.Resync Channel.Proofs Channel.View Channel.ViewProofs
     Channel.Examples.
Import ListNotations.
Local Open Scope Z_scope.

Definition vx_round1 : list vop := map VOp ex_round1.

Definition vx_round2 : list vop :=
  [ VOp (OSend B (USettle 0));            (* B settles A's 50k HTLC *)
    VOp (OSend A (UFail 0));              (* A fails B's 30k HTLC *)
    VOp (OSend A (UFee 2800));
    VOp (OSend A (UFee 3000));            (* merged into the uncommitted fee update *)
    VMalformed B 1;                       (* B fails A's dust HTLC with update_fail_malformed_htlc *)
    VOp (ODeliver A); VOp (ODeliver A); VOp (ODeliver B); VOp (ODeliver B); VOp (ODeliver B);
    VOp (OSign A); VOp (OSign B);
    VOp (ODeliver B); VOp (ODeliver A);
    VOp (ORevoke A); VOp (ORevoke B);
    VOp (ODeliver B); VOp (ODeliver A);
    VOp (OSign A); VOp (ODeliver B); VOp (ORevoke B); VOp (ODeliver A);
    VOp (OSign B); VOp (ODeliver A); VOp (ORevoke A); VOp (ODeliver B) ].

Definition vx_round3 : list vop :=
  [ VOp (OSend A (UAdd 70000000 530 44));
    VOp (ODeliver B); VOp (OSign A); VOp (ODeliver B); VOp (ORevoke B); VOp (ODeliver A);
    VOp (OSign B); VOp (ODeliver A); VOp (ORevoke A); VOp (ODeliver B);
    VOp (OSend B (USettle 2)); VOp (ODeliver A);
    VOp (OSign B); VOp (ODeliver A); VOp (ORevoke A); VOp (ODeliver B);
    VOp (OSign A); VOp (ODeliver B); VOp (ORevoke B); VOp (ODeliver A) ].

Definition vx_ops : list vop := vx_round1 ++ vx_round2 ++ vx_round3.

Fixpoint vall_ok (c : cfg) (s : vsys) (ops : list vop) : bool :=
  match ops with
  | [] => true
  | o :: r => match vstep c s o with (Ok, s') => vall_ok c s' r | _ => false end
  end.

Definition vfrom_init (f : vsys -> bool) : bool :=
  match vinit ex_cfg with Some s0 => f s0 | None => false end.

Example vx_length : length vx_ops = 68%nat.
Proof. reflexivity. Qed.

Example vx_all_ok : vfrom_init (fun s0 => vall_ok ex_cfg s0 vx_ops) = true.
Proof. vm_compute. reflexivity. Qed.

(* hypothesis of C01view_heights_reflect_cuts: no signature is rejected *)
Lemma vall_ok_no_rej c : forall ops s, vall_ok c s ops = true -> no_sig_rejected c s ops.
Proof.
  induction ops as [|o r IH]; intros s H; cbn in *; [exact I|].
  destruct (vstep c s o) as [rs s'] eqn:E. destruct rs; try discriminate.
  cbn. split; [discriminate|apply IH, H].
Qed.

Example vx_invariant : forall s0, vinit ex_cfg = Some s0 -> VInvS (vrun ex_cfg s0 vx_ops).
Proof.
  intros s0 H. apply vrun_inv_init; [exact H|]. apply vall_ok_no_rej.
  pose proof vx_all_ok as K. unfold vfrom_init in K. rewrite H in K. exact K.
Qed.

(* the refinement, TESTED on this schedule: after every step the incremental machine and
   the cut-level model hold the same eight commitments, counters and queue lengths *)
Fixpoint refines_along (c : cfg) (s : sys) (v : vsys) (ops : list vop) : bool :=
  match ops with
  | [] => refinesb s v
  | o :: r =>
    refinesb s v &&
    let '(rs, s') := step c s (erase o) in
    match rs with
    | Ok => refines_along c s' (snd (vstep c v o)) r
    | _ => refines_along c s' v r
    end
  end.

Example vx_refines :
  match init_sys ex_cfg, vinit ex_cfg with
  | Some s0, Some v0 => refines_along ex_cfg s0 v0 vx_ops
  | _, _ => false
  end = true.
Proof. vm_compute. reflexivity. Qed.

(* the same with disabled ops interleaved (refused by the cut model, skipped by run_along) *)
Example vx_refines_disabled :
  match init_sys ex_cfg, vinit ex_cfg with
  | Some s0, Some v0 =>
    refines_along ex_cfg s0 v0
      (VOp (OSend B (USettle 0)) :: VOp (ORevoke A) :: VOp (ODeliver A) :: vx_round1
       ++ VOp (OSend B (UFee 5)) :: VOp (OSend B (USettle 7)) :: vx_round2)
  | _, _ => false
  end = true.
Proof. vm_compute. reflexivity. Qed.

(* heights in the middle of the dance (after round 1 + the updates and A's signature of
   round 2): A's settle-carrying remote commitment is at height 3 *)
Definition vx_mid : list vop := vx_round1 ++ firstn 11 vx_round2.

Definition heights (e : entry) : N * (N * N * N * N) :=
  (e_log e, (e_addL e, e_addR e, e_rmL e, e_rmR e)).

Example vx_mid_heights :
  vfrom_init (fun s0 =>
    let s := vrun ex_cfg s0 vx_mid in
    (* A's own log: 2 adds (locked in at local/remote height 2 / 1), its fail of B's HTLC and
       the merged fee update, both first committed by A's signature at remote height 3 *)
    match map heights (l_list (vl (vA s))) with
    | [(0, (2, 1, 0, 0)); (1, (2, 1, 0, 0)); (2, (0, 0, 0, 3)); (3, (0, 3, 0, 3))]%N => true
    | _ => false
    end) = true.
Proof. vm_compute. reflexivity. Qed.

(* at the end A's logs are empty (fully compacted, fee update included); B - whose last
   received revocation came before the final settle was locked in on its remote chain - still
   holds that settle (remove heights 6 / 6 = both tails: evictable at its next received
   revocation) and the Add it names *)
Example vx_final_compacted :
  vfrom_init (fun s0 =>
    let s := vrun ex_cfg s0 vx_ops in
    match l_list (vl (vA s)), l_list (vr (vA s)),
          map heights (l_list (vl (vB s))), map heights (l_list (vr (vB s))) with
    | [], [], [(3, (0, 0, 6, 6))], [(4, (5, 5, 0, 0))] =>
      forallb (compactable (hN (v_ltail (vB s))) (hN (v_rtail (vB s)))) (l_list (vl (vB s)))
    | _, _, _, _ => false
    end%N) = true.
Proof. vm_compute. reflexivity. Qed.

(* hypothesis of C01view_balance_once is satisfiable with a non-trivial delta: B's view of its
   next local commitment in the middle state credits / debits something *)
Example vx_eval_nontrivial :
  vfrom_init (fun s0 =>
    let x := vB (vrun ex_cfg s0 vx_mid) in
    match evaluateHTLCView (vl x) (vr x) (fetchHTLCView1 (vl x) (idx_of false (vk (v_rtail x))))
                           (fetchHTLCView1 (vr x) (l_idx (vr x))) true false 2500 with
    | Some (_, _, _, (dl, dr)) => negb (dl =? 0) || negb (dr =? 0)
    | None => false
    end) = true.
Proof. vm_compute. reflexivity. Qed.

(* a restart in the middle of the dance (A has signed, nothing of it delivered; XCut 0 0: both
   sides rebuild their logs from disk and resync), run on BOTH machines: both succeed, A
   retransmits its fail, its fee update and the signature, the restored incremental state
   stands for the restored cut-level state, and so does every state of the continuation *)
Example vx_restart_mid :
  match init_sys ex_cfg, vinit ex_cfg with
  | Some s0, Some v0 =>
    let '(s, v) := run_along ex_cfg s0 v0 vx_mid in
    match xstep ex_cfg (mkX s false false) (XCut 0 0), vxstep ex_cfg v (VXCut 0 0) with
    | (Ok, s'), (Ok, v') =>
      Nat.eqb (length (vqAB v')) 3 && Nat.eqb (length (vqBA v')) 0
      && refines_along ex_cfg (xs s') v'
           [ VOp (ODeliver B); VOp (ODeliver B); VOp (ODeliver B); VOp (ORevoke B); VOp (OSign B);
             VOp (ODeliver A); VOp (ODeliver A); VOp (ORevoke A); VOp (ODeliver B);
             VOp (OSend B (USettle 0)); VOp (ODeliver A); VOp (OSign B); VOp (ODeliver A);
             VOp (ORevoke A); VOp (ODeliver B); VOp (OSign A); VOp (ODeliver B); VOp (ORevoke B);
             VOp (ODeliver A) ]
    | _, _ => false
    end
  | _, _ => false
  end = true.
Proof. vm_compute. reflexivity. Qed.

(* ---------- reconnects (ViewResync.v) ---------- *)
From LV Require Import Channel.Discipline Channel.ResyncExamples Channel.ViewResync.

(* non-vacuity of the hypotheses of xview_refines: ResyncExamples.w3_ops (two reconnects in the
   middle of the dance, in-place fee merge, lost signatures and a lost revocation) is a good
   schedule, and the executable refinement check agrees with the theorem at its end *)
Definition lift (o : xop) : vxop := match o with XOp o => VXOp (VOp o) | XCut a b => VXCut a b end.

Example vx_reconnect_good :
  exists s0 v0, xinit w1_cfg = Some s0 /\ vinit w1_cfg = Some v0 /\
    map xerase (map lift w3_ops) = w3_ops /\
    xgood w1_cfg s0 w3_ops = true /\
    refinesb (xs (fst (xrun_along w1_cfg s0 v0 (map lift w3_ops))))
             (snd (xrun_along w1_cfg s0 v0 (map lift w3_ops))) = true.
Proof.
  destruct (xinit w1_cfg) as [s0|] eqn:H0; [|vm_compute in H0; discriminate].
  destruct (vinit w1_cfg) as [v0|] eqn:H1; [|vm_compute in H1; discriminate].
  exists s0, v0. split; [reflexivity|]. split; [reflexivity|]. split; [reflexivity|].
  vm_compute in H0. inversion H0; subst s0; clear H0.
  vm_compute in H1. inversion H1; subst v0; clear H1.
  vm_compute. split; reflexivity.
Qed.
