(* Proofs for Punish.v: (A) output algebra of a descriptor, (B) C05 ledger
   equations, (C) the history invariant behind C04_log_matches_revoked_descriptor. *)
From Coq Require Import List ZArith Bool Arith Lia.
From LV Require Import Channel.Model Channel.Proofs Channel.Resync Channel.Discipline
                       Channel.ResyncProofs Channel.Punish.
Import ListNotations.
Local Open Scope Z_scope.

(* ------------------------------------------------------------------ *)
(* Part A: outputs of a descriptor                                      *)

Definition nout_of (c : cfg) (owner : bool) (balA balB : Z) (hs : list htlc) : Z :=
  let n := count_ontx hs in
  let d := dust_sat (side c owner) in
  let own_sat := (if owner then balA else balB) / 1000 in
  let oth_sat := (if owner then balB else balA) / 1000 in
  let own_out := d <=? own_sat in
  let oth_out := d <=? oth_sat in
  let anc1 := anchors c && (own_out || (0 <? n)) in
  let anc2 := anchors c && (oth_out || (0 <? n)) in
  (if own_out then 1 else 0) + (if oth_out then 1 else 0)
  + (if anc1 then 1 else 0) + (if anc2 then 1 else 0) + n.

Lemma commit_of_nout c o h lA lB nA nB k :
  commit_of c o h lA lB nA nB = Some k ->
  c_owner k = o /\
  c_outs k = outs_of c o (c_balA k) (c_balB k) (c_htlcs k) /\
  c_nout k = nout_of c o (c_balA k) (c_balB k) (c_htlcs k).
Proof.
  unfold commit_of. cbv zeta.
  destruct (negb _); [discriminate|].
  destruct (removed_amounts _ _) as [[setA failA]|]; [|discriminate].
  destruct (removed_amounts _ _) as [[setB failB]|]; [|discriminate].
  match goal with |- (if ?b then _ else _) = _ -> _ => destruct b end; [discriminate|].
  intros HK. inversion HK; subst k; clear HK.
  cbn [c_owner c_balA c_balB c_htlcs c_outs c_nout]. repeat split.
Qed.

Lemma commit_of_outs_consistent c o h lA lB nA nB k :
  commit_of c o h lA lB nA nB = Some k -> outs_consistent c k.
Proof.
  intros HK. apply commit_of_nout in HK. destruct HK as [Ho [HO HN]].
  unfold outs_consistent, n_anchors, own_out, oth_out, owner_sat, other_sat, bal_of.
  rewrite HO, HN, Ho. unfold outs_of, nout_of. cbv zeta.
  set (n := count_ontx (c_htlcs k)).
  set (d := dust_sat (side c o)).
  destruct o; cbn [negb];
    set (b1 := d <=? c_balA k / 1000); set (b2 := d <=? c_balB k / 1000);
    destruct b1, b2, (anchors c), (0 <? n); cbn [andb orb]; split; lia.
Qed.

Lemma commit_of_owner c o h lA lB nA nB k :
  commit_of c o h lA lB nA nB = Some k -> c_owner k = o /\ c_h k = h.
Proof.
  intros HK. apply commit_of_inv in HK. destruct HK as [gA [gB [_ [_ HK]]]]. cbv zeta in HK.
  destruct HK as [_ [_ [_ [Ho [Hh _]]]]]. split; assumption.
Qed.

Lemma commit_of_from_cut c o h lA lB nA nB k :
  commit_of c o h lA lB nA nB = Some k -> from_cut c k.
Proof.
  intros HK. destruct (commit_of_owner _ _ _ _ _ _ _ _ HK) as [Ho _].
  exists h, lA, lB, nA, nB. rewrite Ho. exact HK.
Qed.

Lemma from_cut_outs_consistent c k : from_cut c k -> outs_consistent c k.
Proof. intros [h [lA [lB [nA [nB HK]]]]]. eapply commit_of_outs_consistent. exact HK. Qed.

Lemma sum_snd_app {A} (a b : list (A * Z)) : sum_snd (a ++ b) = sum_snd a + sum_snd b.
Proof. unfold sum_snd. induction a as [|x a IH]; cbn [app fold_right]; [lia|]. rewrite IH. lia. Qed.

Definition htlc_kind (victim : bool) (h : htlc) : okind :=
  if Bool.eqb (h_from h) victim then KHtlcOffered else KHtlcAccepted.

Lemma htlc_retribution_exact victim hs :
  flat_map (htlc_retribution victim) hs
  = map (fun h => (htlc_kind victim h, h_amt h / 1000)) (filter h_ontx hs).
Proof.
  induction hs as [|h hs IH]; [reflexivity|]. cbn [flat_map filter].
  unfold htlc_retribution at 1. destruct (h_ontx h); cbn [app map]; rewrite IH; reflexivity.
Qed.

Lemma htlc_retribution_sum victim hs :
  sum_snd (flat_map (htlc_retribution victim) hs) = sum_ontx_sat hs.
Proof.
  induction hs as [|h hs IH]; [reflexivity|]. cbn [flat_map sum_ontx_sat fold_right].
  rewrite sum_snd_app. unfold sum_ontx_sat in IH. rewrite IH.
  unfold htlc_retribution. destruct (h_ontx h); cbn [sum_snd fold_right snd]; lia.
Qed.

Lemma htlc_retribution_count victim hs :
  Z.of_nat (length (flat_map (htlc_retribution victim) hs)) = count_ontx hs.
Proof.
  rewrite htlc_retribution_exact, map_length. reflexivity.
Qed.

Lemma retribution_sum c k victim : outs_consistent c k ->
  sum_snd (retribution c k victim) = c_outs k - n_anchors c k * anchor_size c.
Proof.
  intros [HO _]. unfold retribution. rewrite !sum_snd_app, htlc_retribution_sum, HO.
  destruct (oth_out c k), (own_out c k); cbn [sum_snd fold_right snd]; lia.
Qed.

Lemma retribution_count c k victim : outs_consistent c k ->
  Z.of_nat (length (retribution c k victim)) = c_nout k - n_anchors c k.
Proof.
  intros [_ HN]. unfold retribution. rewrite !app_length, !Nat2Z.inj_add, htlc_retribution_count, HN.
  destruct (oth_out c k), (own_out c k); cbn [length]; lia.
Qed.

(* every on-transaction HTLC appears exactly once, dust HTLCs never *)
Lemma retribution_shape c k victim :
  retribution c k victim =
  (if oth_out c k then [(KToRemote, other_sat k)] else [])
  ++ (if own_out c k then [(KToLocal, owner_sat k)] else [])
  ++ map (fun h => (htlc_kind victim h, h_amt h / 1000)) (filter h_ontx (c_htlcs k)).
Proof. unfold retribution. rewrite htlc_retribution_exact. reflexivity. Qed.

(* ------------------------------------------------------------------ *)
(* Part B: C05 ledger equations                                         *)

Lemma neq_negb (a b : bool) : a <> b -> a = negb b.
Proof. destruct a, b; intros H; try reflexivity; exfalso; apply H; reflexivity. Qed.

Lemma who_out_owner c k : who_out c k (c_owner k) = own_out c k.
Proof. reflexivity. Qed.
Lemma who_out_other c k : who_out c k (negb (c_owner k)) = oth_out c k.
Proof. reflexivity. Qed.

Lemma fold_plus_app {A} (g : A -> Z) (a b : list A) :
  fold_right (fun r acc => g r + acc) 0 (a ++ b)
  = fold_right (fun r acc => g r + acc) 0 a + fold_right (fun r acc => g r + acc) 0 b.
Proof. induction a as [|x a IH]; cbn [app fold_right]; [lia|]. rewrite IH. lia. Qed.

Lemma htlc_resolution_sum c k who hs :
  fold_right (fun r acc => r_out r + acc) 0 (flat_map (htlc_resolution c k who) hs)
  = sum_ontx_sat hs.
Proof.
  induction hs as [|h hs IH]; [reflexivity|]. cbn [flat_map].
  rewrite fold_plus_app, IH. unfold sum_ontx_sat. cbn [fold_right].
  unfold htlc_resolution. destruct (h_ontx h); cbn [fold_right r_out]; lia.
Qed.

Lemma claimable_formula c k who :
  claimable c k who
  = (if who_out c k who then bal_of k who / 1000 else 0) + sum_ontx_sat (c_htlcs k).
Proof.
  unfold claimable, resolutions. rewrite fold_plus_app, htlc_resolution_sum.
  destruct (who_out c k who); cbn [fold_right r_out]; lia.
Qed.

(* the resolutions of [who] cover every output of the transaction except the
   counterparty's main output and the anchors *)
Lemma claimable_cover c k who : outs_consistent c k ->
  claimable c k who
  + (if who_out c k (negb who) then bal_of k (negb who) / 1000 else 0)
  + n_anchors c k * anchor_size c = c_outs k.
Proof.
  intros [HO _]. rewrite claimable_formula, HO.
  destruct (Bool.bool_dec who (c_owner k)) as [E|E].
  - subst who. rewrite who_out_owner, who_out_other. unfold owner_sat, other_sat.
    destruct (own_out c k), (oth_out c k); lia.
  - rewrite (neq_negb _ _ E).
    rewrite negb_involutive, who_out_owner, who_out_other. unfold owner_sat, other_sat.
    destruct (own_out c k), (oth_out c k); lia.
Qed.

Lemma htlc_resolution_count c k who hs :
  Z.of_nat (length (flat_map (htlc_resolution c k who) hs)) = count_ontx hs.
Proof.
  unfold count_ontx. f_equal. induction hs as [|h hs IH]; [reflexivity|].
  cbn [flat_map filter]. rewrite app_length, IH. unfold htlc_resolution.
  destruct (h_ontx h); reflexivity.
Qed.

Lemma resolutions_count c k who : outs_consistent c k ->
  Z.of_nat (length (resolutions c k who))
  + (if who_out c k (negb who) then 1 else 0) + n_anchors c k = c_nout k.
Proof.
  intros [_ HN]. unfold resolutions. rewrite app_length, Nat2Z.inj_add.
  pose proof (htlc_resolution_count c k who (c_htlcs k)) as HL.
  rewrite HL, HN.
  destruct (Bool.bool_dec who (c_owner k)) as [E|E].
  - subst who. rewrite who_out_owner, who_out_other.
    destruct (own_out c k), (oth_out c k); cbn [length]; lia.
  - rewrite (neq_negb _ _ E).
    rewrite negb_involutive, who_out_owner, who_out_other.
    destruct (own_out c k), (oth_out c k); cbn [length]; lia.
Qed.

(* claimable vs the ledger: own balance + every live HTLC, minus exactly the
   trimmed (dust) amounts and the sub-satoshi remainders *)
Lemma claimable_ledger c k who :
  1000 * claimable c k who + dust_loss_msat c k who
  = bal_of k who + sum_htlc_msat (c_htlcs k).
Proof.
  rewrite claimable_formula. unfold dust_loss_msat.
  assert (HH : 1000 * sum_ontx_sat (c_htlcs k)
               + fold_right (fun h acc => (if h_ontx h then h_amt h mod 1000 else h_amt h) + acc)
                            0 (c_htlcs k)
               = sum_htlc_msat (c_htlcs k)).
  { induction (c_htlcs k) as [|h hs IH]; [reflexivity|].
    cbn [sum_ontx_sat sum_htlc_msat fold_right] in *.
    unfold sum_ontx_sat, sum_htlc_msat in IH.
    pose proof (Z.div_mod (h_amt h) 1000 ltac:(lia)).
    destruct (h_ontx h); lia. }
  pose proof (Z.div_mod (bal_of k who) 1000 ltac:(lia)).
  destruct (who_out c k who); lia.
Qed.

(* on the owner's own commitment every on-transaction HTLC's second-level
   output is worth at least the owner's dust limit *)
Lemma mk_htlcs_ontx c owner from rate L h :
  In h (mk_htlcs c owner from rate L) -> h_ontx h = true ->
  h_from h = from /\
  dust_sat (side c owner)
  <= h_amt h / 1000
     - fee_for_weight rate (if Bool.eqb owner from then timeout_weight c else success_weight c).
Proof.
  unfold mk_htlcs. intros HI HT. apply in_map_iff in HI. destruct HI as [x [<- _]].
  cbn [h_from h_amt h_ontx] in *. split; [reflexivity|].
  unfold htlc_is_dust in HT. apply negb_true_iff in HT. apply Z.ltb_ge in HT. exact HT.
Qed.

Lemma second_level_not_dust c o hh lA lB nA nB k h :
  commit_of c o hh lA lB nA nB = Some k -> In h (c_htlcs k) -> h_ontx h = true ->
  dust_sat (side c (c_owner k)) <= h_amt h / 1000 - second_level_fee c k h.
Proof.
  intros HK HI HT. apply commit_of_inv in HK.
  destruct HK as [gA [gB [_ [_ HK]]]]. cbv zeta in HK.
  destruct HK as [_ [_ [_ [Ho [_ [_ [_ [_ [_ [_ [Hr [Hhs _]]]]]]]]]]]].
  rewrite Hhs in HI. unfold cut_htlcs in HI. cbv zeta in HI.
  unfold second_level_fee. rewrite Ho, Hr.
  apply in_app_or in HI. destruct HI as [HI|HI];
    destruct (mk_htlcs_ontx _ _ _ _ _ _ HI HT) as [-> HD]; exact HD.
Qed.

Lemma resolutions_final_not_dust c o hh lA lB nA nB k r :
  commit_of c o hh lA lB nA nB = Some k -> In r (resolutions c k (c_owner k)) ->
  dust_sat (side c (c_owner k)) <= r_final r.
Proof.
  intros HK HI. unfold resolutions in HI. apply in_app_or in HI. destruct HI as [HI|HI].
  - rewrite who_out_owner in HI. destruct (own_out c k) eqn:HO; [|destruct HI].
    destruct HI as [<-|[]]. cbn [r_final]. unfold own_out, owner_sat in HO.
    apply Z.leb_le in HO. exact HO.
  - apply in_flat_map in HI. destruct HI as [h [HH HR]]. unfold htlc_resolution in HR.
    destruct (h_ontx h) eqn:HT; [|destruct HR]. destruct HR as [<-|[]]. cbn [r_final].
    rewrite eqb_reflx. eapply second_level_not_dust; eassumption.
Qed.

(* ------------------------------------------------------------------ *)
(* Part C: the history invariant                                        *)

Ltac split_andb :=
  repeat match goal with
  | H : _ && _ = true |- _ => apply andb_true_iff in H; destruct H
  end;
  repeat match goal with
  | H : Bool.eqb _ _ = true |- _ => apply eqb_prop in H
  | H : Z.eqb _ _ = true |- _ => apply Z.eqb_eq in H
  | H : Nat.eqb _ _ = true |- _ => apply Nat.eqb_eq in H
  end.

Fixpoint htlcs_eqb (l1 l2 : list htlc) : bool :=
  match l1, l2 with
  | [], [] => true
  | x :: r1, y :: r2 =>
    Bool.eqb (h_from x) (h_from y) && (h_amt x =? h_amt y)
    && Nat.eqb (h_idx x) (h_idx y) && (h_exp x =? h_exp y)
    && (h_hash x =? h_hash y) && Bool.eqb (h_ontx x) (h_ontx y) && htlcs_eqb r1 r2
  | _, _ => false
  end.

Lemma htlcs_eqb_eq l1 : forall l2, htlcs_eqb l1 l2 = true -> l1 = l2.
Proof.
  induction l1 as [|x r IH]; intros [|y r'] HF; try reflexivity; try discriminate.
  destruct x as [xf xa xi xe xh xt], y as [yf ya yi ye yh yt].
  cbn [htlcs_eqb h_from h_amt h_idx h_exp h_hash h_ontx] in HF. split_andb. subst.
  f_equal. apply IH. assumption.
Qed.

Lemma commit_eqb_eq a b : commit_eqb a b = true -> a = b.
Proof.
  destruct a as [o1 h1 nA1 nB1 bA1 bB1 f1 r1 hs1 out1 no1],
           b as [o2 h2 nA2 nB2 bA2 bB2 f2 r2 hs2 out2 no2].
  unfold commit_eqb.
  cbn [c_owner c_h c_nA c_nB c_balA c_balB c_fee c_rate c_htlcs c_outs c_nout].
  intros H. split_andb. subst.
  assert (E : hs1 = hs2).
  { apply htlcs_eqb_eq. match goal with HF : _ = true |- _ => exact HF end. }
  subst. reflexivity.
Qed.

Definition heights_ok (hl : list commit) : Prop :=
  forall i k, nth_error hl i = Some k -> c_h k = Z.of_nat i.

Lemma heights_snoc hl k : heights_ok hl -> c_h k = Z.of_nat (length hl) ->
  heights_ok (hl ++ [k]).
Proof.
  intros HT HK i k0 HN. destruct (Nat.lt_ge_cases i (length hl)) as [L|L].
  - rewrite nth_error_app1 in HN by exact L. apply HT. exact HN.
  - rewrite nth_error_app2 in HN by exact L.
    destruct (i - length hl)%nat as [|j] eqn:EJ.
    + cbn in HN. inversion HN; subst k0. rewrite HK. f_equal. lia.
    + cbn in HN. destruct j; discriminate.
Qed.

Section Hist.
Variable c : cfg.

(* k is a transaction of party H built by commit_of *)
Definition cgood (H : bool) (k : commit) : Prop := c_owner k = H /\ from_cut c k.

(* Direction "S signs H's commitments": rl = revocation log of S, hl = history
   of H's local tails. *)
Record PDir (H : bool) (xS xH : party) (qS qH : list msg) (rl hl : list commit) : Prop := mkPDir {
  p_w : WDir xS xH qS qH;
  p_sig : forall k, In (MSig k) qS -> rTip xS = Some k;
  p_tip : forall k, lTip xH = Some k -> rTip xS = Some k;
  p_rt : forall k, rTip xS = Some k -> cgood H k;
  p_log : (hl = rl ++ [rTail xS] /\ lTail xH = rTail xS) \/
          (exists k, rTip xS = Some k /\ hl = rl ++ [rTail xS; k] /\ lTail xH = k);
  p_hts : heights_ok hl;
  p_good : Forall (cgood H) hl
}.

Lemma p_ext H xS xH qS qH rl hl xS' xH' qS' qH' : PDir H xS xH qS qH rl hl ->
  rTip xS' = rTip xS -> rTail xS' = rTail xS -> lTip xH' = lTip xH -> lTail xH' = lTail xH ->
  nsig qS' = nsig qS -> nrev qH' = nrev qH ->
  (forall k, In (MSig k) qS' -> In (MSig k) qS) ->
  PDir H xS' xH' qS' qH' rl hl.
Proof.
  intros [w sg tp rt lg ht gd] E1 E2 E3 E4 E5 E6 E7.
  constructor; rewrite ?E1, ?E2, ?E3, ?E4; try assumption.
  - eapply w_ext; eassumption.
  - intros k HI. apply sg. apply E7. exact HI.
Qed.

Lemma p_sign H xS xH qS qH rl hl k : PDir H xS xH qS qH rl hl -> rTip xS = None ->
  c_h k = c_h (rTail xS) + 1 -> cgood H k ->
  PDir H (set_rTip xS (Some k)) xH (qS ++ [MSig k]) qH rl hl.
Proof.
  intros [w sg tp rt lg ht gd] R Hh G. constructor; unfold set_rTip; psimpl.
  - apply w_sign; assumption.
  - intros k0 HI. apply in_app_or in HI. destruct HI as [HI|[HI|[]]].
    + specialize (sg _ HI). congruence.
    + inversion HI. reflexivity.
  - intros k0 L. specialize (tp _ L). congruence.
  - intros k0 E. inversion E; subst. exact G.
  - destruct lg as [lg|[k' [R' _]]]; [left; exact lg|congruence].
  - exact ht.
  - exact gd.
Qed.

Lemma p_dsig H xS xH q qH rl hl k0 k' : PDir H xS xH (MSig k0 :: q) qH rl hl ->
  commit_eqb k' k0 = true -> c_h k' = c_h (tip_of (lTail xH) (lTip xH)) + 1 ->
  PDir H xS (set_lTip xH (Some k')) q qH rl hl.
Proof.
  intros [w sg tp rt lg ht gd] HE Hh. apply commit_eqb_eq in HE. subst k'.
  pose proof (sg k0 (or_introl eq_refl)) as R.
  constructor; unfold set_lTip; psimpl.
  - eapply w_dsig; eassumption.
  - intros k HI. apply sg. right. exact HI.
  - intros k E. inversion E; subst. exact R.
  - exact rt.
  - exact lg.
  - exact ht.
  - exact gd.
Qed.

Lemma p_revoke H xS xH qS qH rl hl k : PDir H xS xH qS qH rl hl -> lTip xH = Some k ->
  PDir H xS (revoked xH k) qS (qH ++ [MRev]) rl (hl ++ [k]).
Proof.
  intros [w sg tp rt lg ht gd] L.
  pose proof (tp _ L) as R.
  pose proof (w_1 _ _ _ _ w _ R) as H1.
  destruct (w_2 _ _ _ _ w _ L) as [k' [R' [Hk E]]].
  assert (LG : hl = rl ++ [rTail xS] /\ lTail xH = rTail xS).
  { destruct lg as [lg|[k2 [R2 [_ LT]]]]; [exact lg|]. exfalso.
    assert (E2 : k2 = k) by congruence. rewrite E2 in LT. rewrite LT in E. lia. }
  destruct LG as [EH ET].
  assert (HL : c_h (rTail xS) = Z.of_nat (length rl)).
  { apply ht. rewrite EH, nth_error_app2 by lia. rewrite Nat.sub_diag. reflexivity. }
  constructor; unfold revoked; psimpl.
  - apply w_revoke; assumption.
  - exact sg.
  - intros k0 E0. discriminate.
  - exact rt.
  - right. exists k. split; [exact R|]. split; [|reflexivity].
    rewrite EH, <- app_assoc. reflexivity.
  - apply heights_snoc; [exact ht|]. rewrite EH, app_length. cbn [length]. lia.
  - apply Forall_app. split; [exact gd|]. constructor; [|constructor]. apply rt. exact R.
Qed.

Lemma p_drev H xS xH qS q rl hl k : PDir H xS xH qS (MRev :: q) rl hl -> rTip xS = Some k ->
  PDir H (recv_rev xS k) xH qS q (rl ++ [rTail xS]) hl.
Proof.
  intros [w sg tp rt lg ht gd] R.
  pose proof (w_1 _ _ _ _ w _ R) as H1.
  destruct (w_5 _ _ _ _ w) as [N1 [k1 [R1 E1]]]; [cbn [nrev]; lia|].
  assert (k1 = k) by congruence. subst k1.
  assert (LG : hl = rl ++ [rTail xS; k] /\ lTail xH = k).
  { destruct lg as [[_ LT]|[k2 [R2 [EH LT]]]].
    - exfalso. rewrite LT in E1. lia.
    - assert (E2 : k2 = k) by congruence. rewrite E2 in *. split; assumption. }
  destruct LG as [EH ET].
  assert (NS : nsig qS = 0%nat).
  { destruct (nsig qS) eqn:N; [reflexivity|]. exfalso.
    destruct (w_4 _ _ _ _ w) as [_ [E _]]; [lia|]. lia. }
  constructor; unfold recv_rev; psimpl.
  - apply w_drev; assumption.
  - intros k0 HI. exfalso. exact (nsig_notin _ _ NS HI).
  - intros k0 L. exfalso. destruct (w_2 _ _ _ _ w _ L) as [k' [_ [_ E]]]. lia.
  - intros k0 E. discriminate.
  - left. split; [|exact ET]. rewrite EH, <- app_assoc. reflexivity.
  - exact ht.
  - exact gd.
Qed.

Definition PInv (s : sys) (g : ghost) : Prop :=
  PDir false (pA s) (pB s) (qAB s) (qBA s) (revlogA g) (heldB g) /\
  PDir true (pB s) (pA s) (qBA s) (qAB s) (revlogB g) (heldA g).

Ltac pext P :=
  eapply p_ext; [exact P|..]; try reflexivity;
  try (rewrite ?nsig_app, ?nrev_app; cbn [nsig nrev]; lia);
  try (intros ? HI; first [exact HI | right; exact HI
                          | apply in_app_or in HI; destruct HI as [HI|[HI|[]]];
                            [exact HI|discriminate]]).

Lemma pinv_step s o g : PInv s g -> PInv (snd (step c s o)) (ghost_op s o g).
Proof.
  intros [PA PB]. unfold PInv. destruct o as [p u|p|p|p]; unfold step; cbn [ghost_op].
  - destruct (upd_enabled c p (get s p) u); [|split; assumption].
    destruct p; cbn [snd get set outq set_outq pA pB qAB qBA]; split;
      [pext PA|pext PB|pext PA|pext PB].
  - destruct (do_sign c p (get s p)) as [[r x'] [m|]] eqn:HD;
      destruct r; try (split; assumption).
    apply do_sign_ok in HD. destruct HD as [k [HR [HK [-> ->]]]].
    pose proof (commit_of_owner _ _ _ _ _ _ _ _ HK) as [Ho Hh].
    pose proof (commit_of_from_cut _ _ _ _ _ _ _ _ HK) as HF.
    destruct p; cbn [snd get set outq set_outq pA pB qAB qBA negb] in *; split.
    + apply p_sign; try assumption. split; assumption.
    + pext PB.
    + pext PA.
    + apply p_sign; try assumption. split; assumption.
  - unfold do_revoke. destruct (lTip (get s p)) as [k|] eqn:HL; [|split; assumption].
    destruct p; cbn [snd get set outq set_outq pA pB qAB qBA negb push_held
                     revlogA revlogB heldA heldB] in *; split.
    + pext PA.
    + exact (p_revoke _ _ _ _ _ _ _ k PB HL).
    + exact (p_revoke _ _ _ _ _ _ _ k PA HL).
    + pext PB.
  - destruct (outq s (negb p)) as [|m q] eqn:HQ; [split; assumption|].
    destruct m as [u|k|].
    + destruct p; cbn [snd get set outq set_outq pA pB qAB qBA negb] in *; rewrite HQ in *; split.
      * pext PA.
      * eapply p_ext; [exact PB|..]; try reflexivity. intros k HI. right. exact HI.
      * eapply p_ext; [exact PA|..]; try reflexivity. intros k HI. right. exact HI.
      * pext PB.
    + rewrite do_recv_sig_cut.
      destruct (commit_of c p (c_h (tip_of (lTail (get s p)) (lTip (get s p))) + 1)%Z
                  (logA_of p (get s p)) (logB_of p (get s p))
                  (fst (recv_cut p (get s p))) (snd (recv_cut p (get s p)))) as [k'|] eqn:HK;
        [|split; assumption].
      destruct (commit_eqb k' k) eqn:HE; [|split; assumption].
      pose proof (commit_of_owner _ _ _ _ _ _ _ _ HK) as [_ Hh].
      destruct p; cbn [snd get set outq set_outq pA pB qAB qBA negb] in *; rewrite HQ in *; split.
      * pext PA.
      * exact (p_dsig _ _ _ _ _ _ _ k k' PB HE Hh).
      * exact (p_dsig _ _ _ _ _ _ _ k k' PA HE Hh).
      * pext PB.
    + unfold do_recv_rev. destruct (rTip (get s p)) as [k|] eqn:HR; [|split; assumption].
      destruct p; cbn [snd get set outq set_outq pA pB qAB qBA negb push_revlog
                       revlogA revlogB heldA heldB] in *; rewrite HQ in *; split.
      * exact (p_drev _ _ _ _ _ _ _ k PA HR).
      * pext PB.
      * pext PA.
      * exact (p_drev _ _ _ _ _ _ _ k PB HR).
Qed.

Lemma pinv_deliver_n p n : forall s g, PInv s g ->
  PInv (deliver_n c s p n) (ghost_deliver_n c s p n g).
Proof.
  induction n as [|n IH]; intros s g HP; cbn [deliver_n ghost_deliver_n]; [exact HP|].
  apply IH. apply pinv_step. exact HP.
Qed.

Lemma p_restore S H' H xS xH qS qH rl hl : PDir H xS xH qS qH rl hl ->
  PDir H (restore S xS) (restore H' xH) [] [] rl hl.
Proof.
  intros [w sg tp rt lg ht gd]. constructor; unfold restore; psimpl.
  - apply (w_restore S H' _ _ _ _ w).
  - intros k [].
  - intros k E. discriminate.
  - exact rt.
  - exact lg.
  - exact ht.
  - exact gd.
Qed.

Lemma in_sig_diff_updates S x k : ~ In (MSig k) (diff_updates S x).
Proof.
  unfold diff_updates. destruct (rTip x); [|intros []].
  intros HI. apply in_map_iff in HI. destruct HI as [u [E _]]. discriminate.
Qed.

Lemma in_sig_mid S fS a b k :
  In (MSig k) (mid_q fS (sigpart S a b) (revpart a b)) -> rTip a = Some k.
Proof.
  assert (HS : In (MSig k) (sigpart S a b) -> rTip a = Some k).
  { unfold sigpart. destruct (rTip a) as [k'|]; [|intros []].
    destruct (c1b a b); [|intros []]. intros HI. apply in_app_or in HI.
    destruct HI as [HI|[HI|[]]]; [exfalso; exact (in_sig_diff_updates _ _ _ HI)|].
    inversion HI. reflexivity. }
  assert (HR : ~ In (MSig k) (revpart a b)).
  { unfold revpart. destruct (owes_rev a b); [intros [E|[]]; discriminate|intros []]. }
  unfold mid_q. destruct fS; intros HI; apply in_app_or in HI; destruct HI as [HI|HI]; tauto.
Qed.

Lemma p_mid S H' H xS xH qS qH fS fH rl hl : PDir H xS xH qS qH rl hl ->
  let a := restore S xS in let b := restore H' xH in
  PDir H a b (mid_q fS (sigpart S a b) (revpart a b)) (mid_q fH (sigpart H' b a) (revpart b a))
       rl hl.
Proof.
  intros [w sg tp rt lg ht gd] a b. constructor.
  - apply (w_mid S H' _ _ _ _ fS fH w).
  - intros k HI. apply in_sig_mid in HI. exact HI.
  - subst b. unfold restore. psimpl. intros k E. discriminate.
  - exact rt.
  - exact lg.
  - exact ht.
  - exact gd.
Qed.

Lemma pstep_sign_ok M p x' m g : PInv M g -> do_sign c p (get M p) = (Ok, x', Some m) ->
  PInv (set_outq (set M p x') p (outq M p ++ [m])) g.
Proof.
  intros HP HD. pose proof (pinv_step M (OSign p) g HP) as HS.
  rewrite (step_sign_ok c M p x' m HD) in HS. exact HS.
Qed.

Lemma pcut s ka kb g : PInv (xs s) g ->
  PInv (xs (snd (xstep c s (XCut ka kb)))) (ghost_xop c (xs s) (XCut ka kb) g).
Proof.
  intros HP. cbn [ghost_xop].
  pose proof (pinv_deliver_n false kb _ _ (pinv_deliver_n true ka _ _ HP)) as HP2.
  unfold xstep.
  set (s1 := deliver_n c (deliver_n c (xs s) true ka) false kb) in *.
  set (g1 := ghost_deliver_n c (deliver_n c (xs s) true ka) false kb
               (ghost_deliver_n c (xs s) true ka g)) in *.
  destruct HP2 as [PA PB].
  pose proof (p_mid true false _ _ _ _ _ (lwrA s) (lwrB s) _ _ PA) as MA.
  pose proof (p_mid false true _ _ _ _ _ (lwrB s) (lwrA s) _ _ PB) as MB.
  pose proof (p_restore true false _ _ _ _ _ _ _ PA) as RA.
  pose proof (p_restore false true _ _ _ _ _ _ _ PB) as RB.
  cbv zeta in MA, MB.
  pose proof (wdir_hts _ _ _ _ (p_w _ _ _ _ _ _ _ PA)) as HA.
  pose proof (wdir_hts _ _ _ _ (p_w _ _ _ _ _ _ _ PB)) as HB.
  pose proof (psync_cases c true false _ _ (lwrA s) HA HB) as CA.
  pose proof (psync_cases c false true _ _ (lwrB s) HB HA) as CB.
  cbv zeta in CA, CB.
  set (a := restore true (pA s1)) in *. set (b := restore false (pB s1)) in *.
  cbn [sync_msg].
  set (QA := mid_q (lwrA s) (sigpart true a b) (revpart a b)) in *.
  set (QB := mid_q (lwrB s) (sigpart false b a) (revpart b a)) in *.
  assert (HM : PInv (mkSys a b QA QB) g1) by (split; assumption).
  assert (HR : PInv (mkSys a b [] []) g1) by (split; assumption).
  destruct CA as [CA|[[a' [ma [DA CA]]]|[_ CA]]]; rewrite CA;
  destruct CB as [CB|[[b' [mb [DB CB]]]|[_ CB]]]; rewrite CB; cbn [fst snd xs];
    try exact HR.
  - exact HM.
  - exact (pstep_sign_ok (mkSys a b QA QB) false b' mb g1 HM DB).
  - exact (pstep_sign_ok (mkSys a b QA QB) true a' ma g1 HM DA).
  - pose proof (pstep_sign_ok (mkSys a b QA QB) true a' ma g1 HM DA) as HS.
    exact (pstep_sign_ok _ false b' mb g1 HS DB).
Qed.

Lemma pinv_wstep w o : PInv (xs (wx w)) (wg w) ->
  PInv (xs (wx (snd (wstep c w o)))) (wg (snd (wstep c w o))).
Proof.
  intros HP. unfold wstep. cbn [snd wx wg]. destruct o as [o|ka kb].
  - rewrite xstep_xop_xs. cbn [ghost_xop]. apply pinv_step. exact HP.
  - apply pcut. exact HP.
Qed.

Lemma pinv_wrun ops : forall w, PInv (xs (wx w)) (wg w) ->
  PInv (xs (wx (wrun c w ops))) (wg (wrun c w ops)).
Proof.
  unfold wrun. induction ops as [|o ops IH]; intros w HP; cbn [fold_left]; [exact HP|].
  apply IH. apply pinv_wstep. exact HP.
Qed.

Lemma pinv_init w0 : winit c = Some w0 -> PInv (xs (wx w0)) (wg w0).
Proof.
  unfold winit, xinit. destruct (init_sys c) as [s0|] eqn:HI; [|discriminate].
  intros HE. inversion HE; subst w0; clear HE. cbn [wx wg xs].
  pose proof (winv_init c s0 HI) as [WA WB].
  unfold init_sys, init_party in HI. cbn [negb] in HI.
  destruct (init_commit c true) as [ka|] eqn:HA; [|discriminate].
  destruct (init_commit c false) as [kb|] eqn:HB; [|discriminate].
  inversion HI; subst s0; clear HI.
  cbn [pA pB qAB qBA lTail rTail lTip rTip] in *.
  unfold init_commit in HA, HB.
  pose proof (commit_of_owner _ _ _ _ _ _ _ _ HA) as [OA HhA].
  pose proof (commit_of_owner _ _ _ _ _ _ _ _ HB) as [OB HhB].
  pose proof (commit_of_from_cut _ _ _ _ _ _ _ _ HA) as FA.
  pose proof (commit_of_from_cut _ _ _ _ _ _ _ _ HB) as FB.
  assert (H1 : forall k, c_h k = 0 -> heights_ok [k]).
  { intros k Hk i k0 HN. destruct i as [|i]; cbn in HN; [inversion HN; subst; exact Hk|].
    destruct i; discriminate. }
  split; constructor;
    cbn [pA pB qAB qBA own peer lTail lTip rTail rTip revlogA revlogB heldA heldB app].
  - exact WA.
  - intros k [].
  - intros k E. discriminate.
  - intros k E. discriminate.
  - left. split; reflexivity.
  - apply H1. exact HhB.
  - constructor; [split; assumption|constructor].
  - exact WB.
  - intros k [].
  - intros k E. discriminate.
  - intros k E. discriminate.
  - left. split; reflexivity.
  - apply H1. exact HhA.
  - constructor; [split; assumption|constructor].
Qed.

Lemma wreachable_pinv w : wreachable c w -> PInv (xs (wx w)) (wg w).
Proof.
  intros [w0 [ops [H0 ->]]]. apply pinv_wrun. apply pinv_init. exact H0.
Qed.

(* ---------- consequences ---------- *)
Lemma pdir_log H xS xH qS qH rl hl : PDir H xS xH qS qH rl hl ->
  rl = firstn (Z.to_nat (c_h (rTail xS))) hl /\
  nth_error hl (length rl) = Some (rTail xS) /\
  c_h (rTail xS) = Z.of_nat (length rl).
Proof.
  intros [w sg tp rt lg ht gd].
  assert (HE : exists rest, hl = rl ++ rTail xS :: rest).
  { destruct lg as [[E _]|[k [_ [E _]]]]; rewrite E; eexists; reflexivity. }
  destruct HE as [rest HE].
  assert (HN : nth_error hl (length rl) = Some (rTail xS)).
  { rewrite HE, nth_error_app2 by lia. rewrite Nat.sub_diag. reflexivity. }
  pose proof (ht _ _ HN) as HH.
  split; [|split; assumption].
  rewrite HH, Nat2Z.id, HE, firstn_app, Nat.sub_diag, firstn_all. cbn [firstn].
  rewrite app_nil_r. reflexivity.
Qed.

Lemma pinv_get s g : PInv s g -> forall p,
  PDir (negb p) (get s p) (get s (negb p)) (outq s p) (outq s (negb p))
       (revlog g p) (held g (negb p)).
Proof. intros [PA PB] [|]; cbn; assumption. Qed.

(* C04 layer 2, for every reachable wrapper state *)
Lemma reach_log_matches w : wreachable c w -> forall p,
  let x := get (xs (wx w)) p in
  revlog (wg w) p = firstn (Z.to_nat (c_h (rTail x))) (held (wg w) (negb p)) /\
  c_h (rTail x) = Z.of_nat (length (revlog (wg w) p)) /\
  (forall i k, nth_error (held (wg w) (negb p)) i = Some k ->
     c_h k = Z.of_nat i /\ c_owner k = negb p /\ from_cut c k).
Proof.
  intros HR p x. pose proof (pinv_get _ _ (wreachable_pinv _ HR) p) as PD.
  destruct (pdir_log _ _ _ _ _ _ _ PD) as [E1 [_ E3]]. fold x in E1, E3.
  split; [exact E1|]. split; [exact E3|].
  intros i k HN. split; [exact (p_hts _ _ _ _ _ _ _ PD _ _ HN)|].
  pose proof (p_good _ _ _ _ _ _ _ PD) as GD. rewrite Forall_forall in GD.
  apply GD. eapply nth_error_In. exact HN.
Qed.

(* every entry of a revocation log: height = index, it is a commitment OF THE
   COUNTERPARTY that the counterparty really held as its broadcastable local
   tail, and it was produced by commit_of (so the output algebra applies) *)
Lemma reach_revlog_entry w : wreachable c w -> forall p h k,
  nth_error (revlog (wg w) p) h = Some k ->
  nth_error (held (wg w) (negb p)) h = Some k /\
  c_h k = Z.of_nat h /\ c_owner k = negb p /\ from_cut c k.
Proof.
  intros HR p h k HN. destruct (reach_log_matches w HR p) as [E1 [_ E3]]. cbv zeta in *.
  assert (HN2 : nth_error (held (wg w) (negb p)) h = Some k).
  { rewrite E1 in HN. clear - HN.
    revert h HN. generalize (Z.to_nat (c_h (rTail (get (xs (wx w)) p)))).
    induction (held (wg w) (negb p)) as [|y l IH]; intros n h HN.
    - rewrite firstn_nil in HN. destruct h; discriminate.
    - destruct n as [|n]; [destruct h; discriminate|]. cbn [firstn] in HN.
      destruct h as [|h]; [exact HN|]. cbn [nth_error] in *. eapply IH. exact HN. }
  split; [exact HN2|]. apply E3. exact HN2.
Qed.

End Hist.

(* ---------- the wrapper only observes: its machine component is Resync's ---------- *)
Lemma wrun_wx c ops : forall w, wx (wrun c w ops) = xrun c (wx w) ops.
Proof.
  unfold wrun, xrun. induction ops as [|o ops IH]; intros w; cbn [fold_left]; [reflexivity|].
  rewrite IH. reflexivity.
Qed.

Lemma wreachable_xreachable c w : wreachable c w -> xreachable c (wx w).
Proof.
  intros [w0 [ops [H0 ->]]]. unfold winit in H0.
  destruct (xinit c) as [x0|] eqn:HX; [|discriminate]. inversion H0; subst w0.
  exists x0, ops. split; [exact HX|]. rewrite wrun_wx. reflexivity.
Qed.

Lemma xreachable_wreachable c x : xreachable c x -> exists w, wreachable c w /\ wx w = x.
Proof.
  intros [x0 [ops [H0 ->]]].
  exists (wrun c (mkW x0 (mkG [] [] [lTail (pA (xs x0))] [lTail (pB (xs x0))])) ops). split.
  - eexists _, ops. split; [|reflexivity]. unfold winit. rewrite H0. reflexivity.
  - rewrite wrun_wx. reflexivity.
Qed.

(* ---------- every commitment of a reachable state comes from commit_of ---------- *)
Lemma good_from_cut c S H lS lH k : good c S H lS lH k -> from_cut c k.
Proof. intros [HK _]. eexists _, _, _, _, _. exact HK. Qed.

Lemma inv_commits_from_cut c s : Inv c s ->
  forall p k, In k (commits_of (get s p)) -> from_cut c k.
Proof.
  intros HI p k HK. destruct (inv_get c s HI p) as [I1 I2].
  destruct I1 as [j1 an nd wa wb gt gl bl m1 ph].
  destruct I2 as [j1' an' nd' wa' wb' gt' gl' bl' m1' ph'].
  unfold commits_of in HK. cbn [In] in HK.
  destruct HK as [<-|[<-|HK]].
  - eapply good_from_cut. exact gl'.
  - eapply good_from_cut. exact gt.
  - apply in_app_or in HK. destruct HK as [HK|HK].
    + destruct (lTip (get s p)) as [k'|] eqn:HL; [|contradiction].
      destruct HK as [<-|[]]. eapply good_from_cut.
      exact (phase_ltip_good c _ _ _ _ _ _ _ ph' HL).
    + destruct (rTip (get s p)) as [k'|] eqn:HR; [|contradiction].
      destruct HK as [<-|[]]. eapply good_from_cut.
      exact (phase_rtip_good c _ _ _ _ _ _ _ ph HR).
Qed.

(* ---------- packaged statements ---------- *)
Definition claimed_exactly (c : cfg) (k : commit) (victim : bool) : Prop :=
  sum_snd (retribution c k victim) = c_outs k - n_anchors c k * anchor_size c /\
  Z.of_nat (length (retribution c k victim)) = c_nout k - n_anchors c k /\
  retribution c k victim =
    (if oth_out c k then [(KToRemote, other_sat k)] else [])
    ++ (if own_out c k then [(KToLocal, owner_sat k)] else [])
    ++ map (fun h => (htlc_kind victim h, h_amt h / 1000)) (filter h_ontx (c_htlcs k)).

Lemma from_cut_claimed c k victim : from_cut c k -> claimed_exactly c k victim.
Proof.
  intros HF. pose proof (from_cut_outs_consistent c k HF) as HO. split; [|split].
  - apply retribution_sum. exact HO.
  - apply retribution_count. exact HO.
  - apply retribution_shape.
Qed.

Lemma every_output_claimed c o h lA lB nA nB k victim :
  commit_of c o h lA lB nA nB = Some k -> claimed_exactly c k victim.
Proof. intros HK. apply from_cut_claimed. eapply commit_of_from_cut. exact HK. Qed.

Lemma reach_revoked_claimed c w : wreachable c w -> forall p h k,
  nth_error (revlog (wg w) p) h = Some k ->
  nth_error (held (wg w) (negb p)) h = Some k /\ c_h k = Z.of_nat h /\
  c_owner k = negb p /\ claimed_exactly c k p.
Proof.
  intros HR p h k HN. destruct (reach_revlog_entry c w HR p h k HN) as [H1 [H2 [H3 H4]]].
  repeat split; try assumption; apply from_cut_claimed; exact H4.
Qed.

Definition claim_equations (c : cfg) (k : commit) (who : bool) : Prop :=
  claimable c k who
    = (if who_out c k who then bal_of k who / 1000 else 0) + sum_ontx_sat (c_htlcs k) /\
  claimable c k who
    + (if who_out c k (negb who) then bal_of k (negb who) / 1000 else 0)
    + n_anchors c k * anchor_size c = c_outs k /\
  Z.of_nat (length (resolutions c k who))
    + (if who_out c k (negb who) then 1 else 0) + n_anchors c k = c_nout k /\
  1000 * claimable c k who + dust_loss_msat c k who
    = bal_of k who + sum_htlc_msat (c_htlcs k).

Lemma from_cut_claim_equations c k who : from_cut c k -> claim_equations c k who.
Proof.
  intros HF. pose proof (from_cut_outs_consistent c k HF) as HO. repeat split.
  - apply claimable_formula.
  - apply claimable_cover. exact HO.
  - apply resolutions_count. exact HO.
  - apply claimable_ledger.
Qed.

Lemma commit_of_claim_equations c o h lA lB nA nB k who :
  commit_of c o h lA lB nA nB = Some k -> claim_equations c k who.
Proof. intros HK. apply from_cut_claim_equations. eapply commit_of_from_cut. exact HK. Qed.

Lemma reach_claim_equations c s : reachable c s -> forall p k who,
  In k (commits_of (get s p)) -> claim_equations c k who.
Proof.
  intros HR p k who HK. apply from_cut_claim_equations.
  eapply inv_commits_from_cut; [apply inv_reachable; exact HR|exact HK].
Qed.

Lemma dreach_claim_equations c s : dreachable_ok c s -> forall p k who,
  In k (commits_of (get (xs s) p)) -> claim_equations c k who.
Proof.
  intros HR p k who HK. apply from_cut_claim_equations.
  pose proof (dreachable_ok_xinv c s HR) as [HI _].
  eapply inv_commits_from_cut; [exact HI|exact HK].
Qed.

Lemma from_cut_final_not_dust c k r : from_cut c k ->
  In r (resolutions c k (c_owner k)) -> dust_sat (side c (c_owner k)) <= r_final r.
Proof.
  intros [h [lA [lB [nA [nB HK]]]]]. eapply resolutions_final_not_dust. exact HK.
Qed.
