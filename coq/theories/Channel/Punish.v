(* C04 / C05 at the ledger level, on top of the cut-level channel model.
   Definitions only (proofs: PunishProofs.v, theorems: Props_C04.v / Props_C05.v).

   - wsys: Resync.xsys + GHOST history.  [revlog p] = the remote commitments p has
     seen revoked = what lnd appends to p's revocation log in ReceiveRevocation
     (channeldb AdvanceCommitChainTail: putRevocationLog of the PRE-state
     RemoteCommitment).  [held p] = every commitment that has ever been p's
     local tail = every transaction p was ever able to broadcast on its own
     (RevokeCurrentCommitment advances the local tail).
   - retribution: the decision table of NewBreachRetribution /
     createBreachRetribution / createHtlcRetribution + contractcourt
     newRetributionInfo at descriptor level.
   - resolutions / claimable: NewLocalForceCloseSummary /
     NewUnilateralCloseSummary (extractHtlcResolutions) at descriptor level. *)
From Coq Require Import List ZArith Bool Arith.
From LV Require Import Channel.Model Channel.Resync.
Import ListNotations.
Local Open Scope Z_scope.

(* ---------- ghost history ---------- *)
Record ghost := mkG {
  revlogA : list commit; revlogB : list commit;   (* oldest first: index = height *)
  heldA : list commit; heldB : list commit
}.

Definition revlog (g : ghost) (p : bool) : list commit := if p then revlogA g else revlogB g.
Definition held (g : ghost) (p : bool) : list commit := if p then heldA g else heldB g.

Definition push_revlog (g : ghost) (p : bool) (k : commit) : ghost :=
  if p then mkG (revlogA g ++ [k]) (revlogB g) (heldA g) (heldB g)
  else mkG (revlogA g) (revlogB g ++ [k]) (heldA g) (heldB g).
Definition push_held (g : ghost) (p : bool) (k : commit) : ghost :=
  if p then mkG (revlogA g) (revlogB g) (heldA g ++ [k]) (heldB g)
  else mkG (revlogA g) (revlogB g) (heldA g) (heldB g ++ [k]).

(* effect of one plain op on the history, decided on the PRE-state:
   ORevoke p succeeds iff lTip = Some k, and k becomes the new local tail;
   ODeliver p of a revoke_and_ack succeeds iff rTip = Some _, and the
   pre-state remote tail is the commitment that has just been revoked. *)
Definition ghost_op (s : sys) (o : op) (g : ghost) : ghost :=
  match o with
  | ORevoke p =>
    match lTip (get s p) with Some k => push_held g p k | None => g end
  | ODeliver p =>
    match outq s (negb p) with
    | MRev :: _ =>
      match rTip (get s p) with
      | Some _ => push_revlog g p (rTail (get s p))
      | None => g
      end
    | _ => g
    end
  | _ => g
  end.

(* the prefix deliveries of a disconnect *)
Fixpoint ghost_deliver_n (c : cfg) (s : sys) (p : bool) (n : nat) (g : ghost) : ghost :=
  match n with
  | O => g
  | S n' => ghost_deliver_n c (snd (step c s (ODeliver p))) p n' (ghost_op s (ODeliver p) g)
  end.

Record wsys := mkW { wx : xsys; wg : ghost }.

Definition ghost_xop (c : cfg) (s : sys) (o : xop) (g : ghost) : ghost :=
  match o with
  | XOp o' => ghost_op s o' g
  | XCut ka kb =>
    ghost_deliver_n c (deliver_n c s true ka) false kb (ghost_deliver_n c s true ka g)
  end.

Definition wstep (c : cfg) (w : wsys) (o : xop) : res * wsys :=
  (fst (xstep c (wx w) o), mkW (snd (xstep c (wx w) o)) (ghost_xop c (xs (wx w)) o (wg w))).

Definition winit (c : cfg) : option wsys :=
  match xinit c with
  | Some x => Some (mkW x (mkG [] [] [lTail (pA (xs x))] [lTail (pB (xs x))]))
  | None => None
  end.

Definition wrun (c : cfg) (w : wsys) (ops : list xop) : wsys :=
  fold_left (fun w o => snd (wstep c w o)) ops w.

(* every state reachable by ANY schedule of ops and disconnects (no discipline,
   failed reconnects included) *)
Definition wreachable (c : cfg) (w : wsys) : Prop :=
  exists w0 ops, winit c = Some w0 /\ w = wrun c w0 ops.

(* ---------- descriptor-level outputs ---------- *)
Definition bal_of (k : commit) (p : bool) : Z := if p then c_balA k else c_balB k.
Definition owner_sat (k : commit) : Z := bal_of k (c_owner k) / 1000.
Definition other_sat (k : commit) : Z := bal_of k (negb (c_owner k)) / 1000.
(* both main outputs are trimmed against the dust limit of the transaction's OWNER *)
Definition own_out (c : cfg) (k : commit) : bool := dust_sat (side c (c_owner k)) <=? owner_sat k.
Definition oth_out (c : cfg) (k : commit) : bool := dust_sat (side c (c_owner k)) <=? other_sat k.
Definition n_anchors (c : cfg) (k : commit) : Z :=
  let n := count_ontx (c_htlcs k) in
  (if anchors c && (own_out c k || (0 <? n)) then 1 else 0)
  + (if anchors c && (oth_out c k || (0 <? n)) then 1 else 0).

(* what commit_of puts into c_outs / c_nout, as a predicate on a descriptor *)
Definition outs_consistent (c : cfg) (k : commit) : Prop :=
  c_outs k = (if own_out c k then owner_sat k else 0) + (if oth_out c k then other_sat k else 0)
             + n_anchors c k * anchor_size c + sum_ontx_sat (c_htlcs k)
  /\ c_nout k = (if own_out c k then 1 else 0) + (if oth_out c k then 1 else 0)
                + n_anchors c k + count_ontx (c_htlcs k).

Definition from_cut (c : cfg) (k : commit) : Prop :=
  exists h lA lB nA nB, commit_of c (c_owner k) h lA lB nA nB = Some k.

(* ---------- C04: retribution decision table ---------- *)
(* kinds as the VICTIM (the party holding the revocation log) names them *)
Inductive okind :=
| KToRemote       (* victim's own output on the cheater's tx: LocalOutputSignDesc, CommitmentNoDelay/.. *)
| KToLocal        (* cheater's delayed output: RemoteOutputSignDesc, CommitmentRevoke *)
| KHtlcOffered    (* HTLC the victim offered (IsIncoming = false): HtlcOfferedRevoke *)
| KHtlcAccepted.  (* HTLC the cheater offered (IsIncoming = true): HtlcAcceptedRevoke *)

Definition okind_code (x : okind) : N :=
  match x with KToRemote => 1 | KToLocal => 2 | KHtlcOffered => 3 | KHtlcAccepted => 4 end%N.

Definition htlc_retribution (victim : bool) (h : htlc) : list (okind * Z) :=
  if h_ontx h
  then [((if Bool.eqb (h_from h) victim then KHtlcOffered else KHtlcAccepted), h_amt h / 1000)]
  else [].

(* [k] is a commitment OWNED BY THE CHEATER (victim = negb (c_owner k)) *)
Definition retribution (c : cfg) (k : commit) (victim : bool) : list (okind * Z) :=
  (if oth_out c k then [(KToRemote, other_sat k)] else [])
  ++ (if own_out c k then [(KToLocal, owner_sat k)] else [])
  ++ flat_map (htlc_retribution victim) (c_htlcs k).

Definition sum_snd {A} (l : list (A * Z)) : Z := fold_right (fun x acc => snd x + acc) 0 l.

(* ---------- C05: resolutions when commitment k confirms ---------- *)
Inductive rkind :=
| RCommit        (* CommitOutputResolution: to_local after CSV (own tx) / to_remote (their tx) *)
| RHtlcTimeout   (* OutgoingHtlcResolution *)
| RHtlcSuccess.  (* IncomingHtlcResolution (preimage supplied by the resolver) *)

Definition rkind_code (x : rkind) : N :=
  match x with RCommit => 1 | RHtlcTimeout => 2 | RHtlcSuccess => 3 end%N.

(* fee of the second-level transaction of h on k's owner's commitment *)
Definition second_level_fee (c : cfg) (k : commit) (h : htlc) : Z :=
  fee_for_weight (c_rate k)
    (if Bool.eqb (c_owner k) (h_from h) then timeout_weight c else success_weight c).

Record resolution := mkRes {
  r_kind : rkind;
  r_out : Z;      (* value of the commitment output spent (sat) *)
  r_final : Z     (* value finally swept: = r_out, or the second-level output on the own commitment *)
}.

Definition htlc_resolution (c : cfg) (k : commit) (who : bool) (h : htlc) : list resolution :=
  if h_ontx h then
    let v := h_amt h / 1000 in
    [mkRes (if Bool.eqb (h_from h) who then RHtlcTimeout else RHtlcSuccess) v
           (if Bool.eqb (c_owner k) who then v - second_level_fee c k h else v)]
  else [].

Definition who_out (c : cfg) (k : commit) (who : bool) : bool :=
  dust_sat (side c (c_owner k)) <=? bal_of k who / 1000.

Definition resolutions (c : cfg) (k : commit) (who : bool) : list resolution :=
  (if who_out c k who then [mkRes RCommit (bal_of k who / 1000) (bal_of k who / 1000)] else [])
  ++ flat_map (htlc_resolution c k who) (c_htlcs k).

Definition claimable (c : cfg) (k : commit) (who : bool) : Z :=
  fold_right (fun r acc => r_out r + acc) 0 (resolutions c k who).

(* msat that [who] is owed by the ledger on k but cannot claim on chain: its
   trimmed main output, sub-satoshi remainders, and every trimmed (dust) HTLC *)
Definition dust_loss_msat (c : cfg) (k : commit) (who : bool) : Z :=
  (if who_out c k who then bal_of k who mod 1000 else bal_of k who)
  + fold_right (fun h acc => (if h_ontx h then h_amt h mod 1000 else h_amt h) + acc) 0 (c_htlcs k).
