(* C02 — restart: what NewLightningChannel rebuilds from disk.
   Property theorems ONLY (closed by [exact] of a lemma of ResyncProofs.v). *)
From Coq Require Import List ZArith Bool Arith.
From LV Require Import Channel.Model Channel.Proofs Channel.Resync Channel.ResyncProofs.
Import ListNotations.

(* restoring twice is restoring once (for ANY party state) *)
Theorem C02_restore_idempotent : forall p x, restore p (restore p x) = restore p x.
Proof. exact restore_idem. Qed.

(* in every reachable state, restore keeps lTail / rTail / rTip, their cuts lie
   inside the kept logs, and commit_of over the KEPT logs reproduces each of
   them exactly (nothing a signature covers is lost) *)
Theorem C02_restore_keeps_signed : forall c s, reachable c s -> forall p,
  let x' := restore p (get s p) in
  lTail x' = lTail (get s p) /\ rTail x' = rTail (get s p) /\ rTip x' = rTip (get s p) /\
  forall k, In k (commits_of x') ->
    (n_of p k <= length (own x'))%nat /\ (n_of (negb p) k <= length (peer x'))%nat /\
    commit_of c (c_owner k) (c_h k) (logA_of p x') (logB_of p x') (c_nA k) (c_nB k) = Some k.
Proof. exact reach_restore_keeps. Qed.

(* the commitment a restarted node would broadcast (lTail) is the one it moved
   to when it revoked, never an older one: a successful ORevoke raises the
   height of lTail by exactly 1, no step ever lowers it, restore keeps it *)
Theorem C02_revoke_advances_tail : forall c s p, reachable c s ->
  fst (step c s (ORevoke p)) = Ok ->
  c_h (lTail (get (snd (step c s (ORevoke p))) p)) = (c_h (lTail (get s p)) + 1)%Z.
Proof. exact reach_revoke_advances. Qed.

Theorem C02_tail_height_monotone : forall c s o p, reachable c s ->
  (c_h (lTail (get s p)) <= c_h (lTail (get (snd (step c s o)) p)))%Z.
Proof. exact reach_tail_height_monotone. Qed.

Theorem C02_restore_keeps_tail : forall p x, lTail (restore p x) = lTail x.
Proof. exact restore_keeps_tail. Qed.

Print Assumptions C02_restore_idempotent.
Print Assumptions C02_revoke_advances_tail.
Print Assumptions C02_tail_height_monotone.
Print Assumptions C02_restore_keeps_tail.
Print Assumptions C02_restore_keeps_signed.
