(* C02 — restart: what NewLightningChannel rebuilds from disk.
   Property theorems ONLY (closed by [exact] of a lemma of ResyncProofs.v). *)
From Coq Require Import List ZArith Bool Arith.
From LV Require Import Channel.Model Channel.Proofs Channel.Resync Channel.ResyncProofs.
Import ListNotations.

(* restoring twice is restoring once (for ANY party state) *)
Theorem C02_restore_idempotent : forall p x, restore p (restore p x) = restore p x.
Proof. exact restore_idem. Qed.

(* in every reachable state, restore keeps lTail / rTail / rTip, their cuts lie
   inside the kept logs, and commit_of over the KEPT logs reproduces each of
   them exactly (nothing a signature covers is lost) *)
Theorem C02_restore_keeps_signed : forall c s, reachable c s -> forall p,
  let x' := restore p (get s p) in
  lTail x' = lTail (get s p) /\ rTail x' = rTail (get s p) /\ rTip x' = rTip (get s p) /\
  forall k, In k (commits_of x') ->
    (n_of p k <= length (own x'))%nat /\ (n_of (negb p) k <= length (peer x'))%nat /\
    commit_of c (c_owner k) (c_h k) (logA_of p x') (logB_of p x') (c_nA k) (c_nB k) = Some k.
Proof. exact reach_restore_keeps. Qed.

Print Assumptions C02_restore_idempotent.
Print Assumptions C02_restore_keeps_signed.
