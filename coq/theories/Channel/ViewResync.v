(* C01view - reconnects: the incremental machine (vxstep = NewLightningChannel on both sides +
   ProcessChanSyncMsg + retransmission from the persisted CommitDiff) refines Resync.xstep.
   V1  OrdInv: above the cut of the remote tail the own log is in LogIndex order, and so is the
       persisted CommitDiff.LogUpdates (needed: the retransmission replays it in STORED order).
   V2  v_owes_commit = owes_commit; the retransmitted updates = diff_updates; v_process_sync
       returns what process_sync returns (psync_refines), and the party it leaves satisfies
       CorrX / PInvS / OrdInv again (psync_full).
   V3  Ext (OrdInv for both parties + "fee updates only in the opener's log") along ordinary steps.
   V4  XSim = Sim2 + Ext + ResyncProofs.XInv + equal LastWasRevoke flags; deliveries under the link
       discipline (deliver_total: under Proofs.Inv a delivery fails only on an empty queue);
       xcut_sim: one reconnect.
   V5  xrun_along, xgood (disciplined, reconnects succeed), xview_refines, xview_accepts,
       xrestore_reachable. *)
From Coq Require Import List ZArith NArith Bool Arith Lia Permutation.
From LV Require Import Channel.Model Channel.Resync Channel.Proofs Channel.Discipline Channel.ResyncProofs
     Channel.View Channel.ViewProofs
     Channel.ViewRefine Channel.ViewSim Channel.ViewRestore Channel.ViewRestoreInv.
Import ListNotations.

(* ---------- V1: above the cut of the remote tail the own log is in LogIndex order ---------- *)
Definition il (U : ulog) : list nat := map idx (l_list U).
Definition ord_from (n : nat) (l : list nat) : Prop := inc (filter (fun i => n <=? i) l).

Lemma inc_filter_nat (g : nat -> bool) : forall l, inc l -> inc (filter g l).
Proof.
  induction l as [|x l IH]; intros H; cbn; [exact I|]. cbn in H. destruct H as [H1 H2].
  destruct (g x); cbn; [|apply IH, H2]. split; [|apply IH, H2].
  intros y IY. apply filter_In in IY. apply H1, IY.
Qed.

Lemma ord_from_mono n n' l : n <= n' -> ord_from n l -> ord_from n' l.
Proof.
  intros LE H. unfold ord_from in *.
  replace (filter (fun i => n' <=? i) l) with (filter (fun i => n' <=? i) (filter (fun i => n <=? i) l)).
  - apply inc_filter_nat, H.
  - clear H. induction l as [|x l IH]; [reflexivity|]. cbn. destruct (n <=? x) eqn:A; cbn; rewrite IH.
    + reflexivity.
    + destruct (n' <=? x) eqn:B; [|reflexivity]. apply Nat.leb_le in B. apply Nat.leb_gt in A. lia.
Qed.

Lemma ord_from_snoc n l a : ord_from n l -> (forall y, In y l -> y < a) -> ord_from n (l ++ [a]).
Proof.
  unfold ord_from. intros H LT. rewrite filter_app. cbn. destruct (n <=? a).
  - apply inc_snoc; [exact H|]. intros y IY. apply filter_In in IY. apply LT, IY.
  - rewrite app_nil_r. exact H.
Qed.

Lemma inc_sub_filter (P : entry -> bool) (g : nat -> bool) : forall l,
  inc (filter g (map idx l)) -> (forall e, In e l -> P e = true -> g (idx e) = true) ->
  inc (map idx (filter P l)).
Proof.
  induction l as [|x l IH]; intros H HP; cbn; [exact I|]. cbn in H.
  assert (IHl : inc (map idx (filter P l))).
  { apply IH; [|intros e IE; apply HP; now right]. destruct (g (idx x)); [apply H|exact H]. }
  destruct (P x) eqn:PX; [|exact IHl]. cbn. split; [|exact IHl].
  rewrite (HP x (or_introl eq_refl) PX) in H. cbn in H. destruct H as [H1 _].
  intros y IY. apply in_map_iff in IY. destruct IY as [e [<- IE]]. apply filter_In in IE. destruct IE as [IE PE].
  apply H1. apply filter_In. split; [apply in_map, IE|apply HP; [now right|exact PE]].
Qed.

Lemma ord_remove_first n f : forall l, ord_from n (map idx l) -> ord_from n (map idx (remove_first f l)).
Proof.
  unfold ord_from. induction l as [|x l IH]; intros H; cbn; [exact I|].
  cbn in H. destruct (f x).
  - destruct (n <=? idx x); [apply H|exact H].
  - cbn. destruct (n <=? idx x); cbn in *.
    + destruct H as [H1 H2]. split; [|apply IH, H2]. intros y IY. apply H1.
      apply filter_In in IY. destruct IY as [IY G]. apply filter_In. split; [|exact G].
      apply in_map_iff in IY. destruct IY as [e [<- IE]]. apply in_map.
      clear - IE. induction l as [|z l IHl]; [destruct IE|]. cbn in IE. destruct (f z); [now right|].
      destruct IE as [<-|IE]; [now left|right; auto].
    + apply IH, H.
Qed.

Lemma il_mark w h i U : il (mark_log w h i U) = il U.
Proof.
  unfold il. rewrite mark_log_list, map_map. apply map_ext. intros e. unfold idx. rewrite markfn_log. reflexivity.
Qed.

Lemma il_append_for u U pd :
  il (append_for u U pd) = il U ++ [idx pd] \/ il (append_for u U pd) = il U.
Proof.
  unfold il. destruct u; cbn [append_for]; try (left; cbn [appendHtlc appendUpdate l_list]; apply map_app).
  unfold appendFeeUpdate. pose proof (merge_spec (l_list U) (e_amt pd)) as MS.
  destruct (merge_fee_rev (rev (l_list U)) (e_amt pd)) as [l'|].
  - right. cbn [l_list]. destruct MS as [pre [e [post [E [_ [_ [_ ->]]]]]]]. rewrite E, !map_app. reflexivity.
  - left. cbn [appendUpdate l_list]. apply map_app.
Qed.

(* both logs are ordered above the remote tail's cut; so is the persisted CommitDiff *)
Record OrdInv (p : bool) (y : vparty) : Prop := mkOI {
  oi_log : ord_from (n_of p (vk (v_rtail y))) (il (vl y));
  oi_diff : inc (map lidx (d_diff y))
}.

Section OrdSteps.
Variables (c : cfg) (p : bool) (x : party) (y : vparty) (Fo Fp : nat).
Hypothesis CX : CorrX c p x y Fo Fp.
Hypothesis OI : OrdInv p y.

Lemma il_lt i : In i (il (vl y)) -> i < length (own x).
Proof.
  intros IN. pose proof (lc_perm _ _ _ _ _ (co_lo _ _ _ _ _ _ (cx_corr _ _ _ _ _ _ CX))) as PM.
  apply (Permutation_in _ PM) in IN. apply filter_In in IN. destruct IN as [IN _]. apply in_seq in IN. lia.
Qed.

Lemma send_ord u mal y' : upd_enabled c p x u = true -> v_send c p y u mal = Some y' -> OrdInv p y'.
Proof.
  intros EN VS. destruct (send_shape c p x y Fo Fp CX u mal EN) as [amt [hash [vr' [VS' _]]]].
  rewrite VS in VS'. injection VS' as ->. destruct OI as [A B].
  split; cbn [with_logs vl v_rtail d_diff]; [|exact B].
  destruct (il_append_for u (vl y) (entry_for u (l_idx (vl y)) (l_htlc (vl y))
              (match u with UFail _ => mal | _ => false end) amt hash)) as [E|E]; rewrite E; [|exact A].
  apply ord_from_snoc; [exact A|]. intros i IN. apply il_lt in IN.
  assert (EI : idx (entry_for u (l_idx (vl y)) (l_htlc (vl y)) (match u with UFail _ => mal | _ => false end) amt hash)
               = length (own x)).
  { unfold idx. replace (e_log _) with (l_idx (vl y)) by (destruct u; reflexivity).
    rewrite (co_io _ _ _ _ _ _ (cx_corr _ _ _ _ _ _ CX)). apply Nat2N.id. }
  rewrite EI. exact IN.
Qed.

Lemma recv_upd_ord u y' : v_recv_upd c p y u = Some y' -> OrdInv p y'.
Proof.
  intros VS. destruct (recv_upd_form c p y u y' VS) as [amt [hash [vl' [-> E1]]]]. destruct OI as [A B].
  split; cbn [with_logs vl v_rtail d_diff]; [|exact B]. unfold il. rewrite E1. exact A.
Qed.

Lemma sign_ord y' m : v_sign c p y = (Ok, y', Some m) ->
  (forall u, In u (d_diff y') -> n_of p (vk (v_rtail y')) <= lidx u) -> OrdInv p y'.
Proof.
  intros VS LO. destruct OI as [A B]. unfold v_sign in VS. destruct (v_rtip y) as [k0|] eqn:RT; [discriminate|].
  destruct (fetchCommitmentView _ _ _ _ _ _ _ _) as [[[k l'] r']|] eqn:FV; [|discriminate].
  injection VS as <- _. destruct (fetchCommitmentView_spec _ _ _ _ _ _ _ _ _ _ _ FV) as [_ [_ [_ [EL _]]]].
  cbn [d_diff v_rtail vl] in *.
  split; cbn [vl v_rtail d_diff].
  - rewrite EL, il_mark. exact A.
  - rewrite map_map. rewrite (map_ext (fun e => lidx (toLogUpdate e)) idx) by reflexivity.
    apply (inc_sub_filter _ (fun i => n_of p (vk (v_rtail y)) <=? i)).
    + rewrite EL. fold (il (mark_log false (Z.to_N (c_h (vk (rtipv y)) + 1)) (l_idx (vl y)) (vl y))).
      rewrite il_mark. exact A.
    + intros e IE PE. apply Nat.leb_le.
      specialize (LO (toLogUpdate e)). rewrite toLogUpdate_lidx in LO. apply LO.
      apply in_map. apply filter_In. split; assumption.
Qed.

Lemma recv_sig_ord k0 y' : v_recv_sig c p y k0 = (Ok, y') -> OrdInv p y'.
Proof.
  intros VS. destruct OI as [A B]. unfold v_recv_sig in VS.
  destruct (fetchCommitmentView _ _ _ _ _ _ _ _) as [[[k l'] r']|] eqn:FV; [|discriminate].
  destruct (commit_eqb _ _); [|discriminate]. injection VS as <-.
  destruct (fetchCommitmentView_spec _ _ _ _ _ _ _ _ _ _ _ FV) as [_ [_ [_ [EL _]]]].
  split; cbn [vl v_rtail d_diff]; [|exact B]. rewrite EL, il_mark. exact A.
Qed.

Lemma revoke_ord y' m : v_revoke p y = (Ok, y', m) -> OrdInv p y'.
Proof.
  intros VS. destruct OI as [A B]. unfold v_revoke in VS. destruct (v_ltip y); [|discriminate].
  injection VS as <- _. split; assumption.
Qed.

Lemma recv_rev_ord y' : v_recv_rev p y = (Ok, y') -> OrdInv p y'.
Proof.
  intros VS. destruct OI as [A B]. unfold v_recv_rev in VS. destruct (v_rtip y) as [k|] eqn:RT; [|discriminate].
  destruct (compactLogs _ _ _ _) as [l' r'] eqn:CL. injection VS as <-.
  pose proof (cx_corr _ _ _ _ _ _ CX) as CO.
  pose proof (idx_chain c p x y Fo Fp CO) as IC.
  pose proof (co_rp _ _ _ _ _ _ CO) as RP. rewrite RT in RP. cbn in RP.
  destruct (rTip x) as [k1|] eqn:RX; [|discriminate]. injection RP as EK. cbn [tip_of] in IC.
  split; cbn [vl v_rtail d_diff]; [|exact I].
  (* order only needs the own log: run the compaction lemma with a trivial bound for the other *)
  unfold compactLogs, compactLog in CL.
  set (n := n_of p (vk k)).
  assert (A' : ord_from n (il (vl y))).
  { apply (ord_from_mono (n_of p (vk (v_rtail y)))); [|exact A]. unfold n. rewrite EK, (co_rt _ _ _ _ _ _ CO). lia. }
  clearbody n.
  assert (G : forall es la lb, ord_from n (il la) ->
              ord_from n (il (fst (fold_left (compact_entry (Z.to_N (c_h (vk (v_ltail y)))) (Z.to_N (c_h (vk (v_rtail y)) + 1))) es (la, lb)))) /\
              (ord_from n (il lb) -> ord_from n (il (snd (fold_left (compact_entry (Z.to_N (c_h (vk (v_ltail y)))) (Z.to_N (c_h (vk (v_rtail y)) + 1))) es (la, lb)))))).
  { induction es as [|e r IH]; intros la lb HA; cbn [fold_left]; [auto|].
    assert (E1 : ord_from n (il (fst (compact_entry (Z.to_N (c_h (vk (v_ltail y)))) (Z.to_N (c_h (vk (v_rtail y)) + 1)) (la, lb) e))) /\
                 (ord_from n (il lb) -> ord_from n (il (snd (compact_entry (Z.to_N (c_h (vk (v_ltail y)))) (Z.to_N (c_h (vk (v_rtail y)) + 1)) (la, lb) e))))).
    { unfold compact_entry. destruct (is_add e); [auto|]. destruct (_ || _); [auto|].
      destruct (_ && _); [|auto]. destruct (is_fee e); cbn [fst snd]; split; auto; intros;
        unfold il, removeUpdate, removeHtlc; cbn [l_list]; apply ord_remove_first; assumption. }
    destruct (compact_entry _ _ (la, lb) e) as [la1 lb1]. cbn [fst snd] in E1. destruct E1 as [E1 E2].
    destruct (IH la1 lb1 E1) as [F1 F2]. split; [exact F1|]. intros HB. apply F2, E2, HB. }
  destruct (G (l_list (vl y)) (vl y) (vr y) A') as [A1 _].
  destruct (fold_left _ (l_list (vl y)) (vl y, vr y)) as [o1 t1]. cbn [fst] in A1.
  (* second pass: o1 is the second component *)
  assert (G2 : forall es la lb, ord_from n (il lb) ->
              ord_from n (il (snd (fold_left (compact_entry (Z.to_N (c_h (vk (v_ltail y)))) (Z.to_N (c_h (vk (v_rtail y)) + 1))) es (la, lb))))).
  { induction es as [|e r IH]; intros la lb HB; cbn [fold_left]; [auto|].
    assert (E2 : ord_from n (il (snd (compact_entry (Z.to_N (c_h (vk (v_ltail y)))) (Z.to_N (c_h (vk (v_rtail y)) + 1)) (la, lb) e)))).
    { unfold compact_entry. destruct (is_add e); [auto|]. destruct (_ || _); [auto|].
      destruct (_ && _); [|auto]. destruct (is_fee e); cbn [fst snd]; auto;
        unfold il, removeHtlc; cbn [l_list]; apply ord_remove_first; assumption. }
    destruct (compact_entry _ _ (la, lb) e) as [la1 lb1]. cbn [snd] in E2. apply IH, E2. }
  pose proof (G2 (l_list t1) t1 o1 A1) as A2.
  destruct (fold_left _ (l_list t1) (t1, o1)) as [t2 o2]. cbn [snd] in A2. injection CL as <- _. exact A2.
Qed.

Lemma restore_ord : PInv p x y -> OrdInv p (v_restore p y).
Proof.
  intros PI. destruct OI as [A B].
  pose proof (cx_corr _ _ _ _ _ _ CX) as CO.
  pose proof (hl_out_rc c p x y Fo Fp CX PI) as HO. pose proof (hl_in_lc c p x y Fo Fp CX PI) as HI.
  pose proof (co_rt _ _ _ _ _ _ CO) as KR.
  destruct (restored_logs p y _ _ _ _ _ _ HO HI)
    as [l' [r' [rI [EV [ERI [EL _]]]]]].
  rewrite EV. split; cbn [vl v_rtail d_diff]; [|exact B].
  unfold ord_from, il. rewrite EL, !map_app, !filter_app.
  set (rO := n_of p (vk (v_rtail y))).
  assert (Z1 : filter (fun i => rO <=? i) (map idx (map (fO y) (v_out (v_rtail y)))) = []).
  { apply filter_none. intros i IN. apply in_map_iff in IN. destruct IN as [e1 [<- IN]].
    apply in_map_iff in IN. destruct IN as [e0 [<- I0]]. apply Nat.leb_gt.
    destruct (hl_in _ _ _ _ _ HO e0 I0) as [_ [_ [_ [LT _]]]].
    unfold idx in *. rewrite fO_log. unfold rO. rewrite KR. exact LT. }
  assert (Z2 : filter (fun i => rO <=? i) (map idx (map (payDesc_of false rI (rhN y)) (d_remote_unsigned y))) = []).
  { apply filter_none. intros i IN. apply in_map_iff in IN. destruct IN as [e1 [<- IN]].
    apply in_map_iff in IN. destruct IN as [u [<- IU]]. apply Nat.leb_gt. rewrite idx_payDesc.
    destruct (pl_in _ _ _ _ _ (pi_ru _ _ _ PI) u IU) as [_ [LT _]]. exact LT. }
  rewrite Z1, Z2. cbn [app].
  destruct (v_rtip y) as [k|] eqn:RT; [|exact I].
  rewrite map_map. rewrite (map_ext (fun u => idx (payDesc_of false rI (Z.to_N (c_h (vk k))) u)) lidx)
    by (intros; apply idx_payDesc).
  apply inc_filter_nat, B.
Qed.
End OrdSteps.

Lemma ord_init c p y : vinit_party c p = Some y -> OrdInv p y.
Proof.
  unfold vinit_party. destruct (vinit_commit c p); [|discriminate]. destruct (vinit_commit c (negb p)); [|discriminate].
  intros H. injection H as <-. split; exact I.
Qed.

(* ---------- V2: ProcessChanSyncMsg on the incremental machine = Resync.process_sync ---------- *)
Lemma inc_exact : forall l lo hi, inc l -> (forall i, In i l <-> lo <= i < hi) -> l = seq lo (hi - lo).
Proof.
  induction l as [|a r IH]; intros lo hi H HM.
  - destruct (Nat.le_gt_cases hi lo) as [LE|GT]; [replace (hi - lo) with 0 by lia; reflexivity|].
    exfalso. apply (proj2 (HM lo)). lia.
  - cbn in H. destruct H as [H1 H2].
    assert (A : lo <= a < hi) by (apply HM; now left).
    assert (a = lo).
    { assert (IL : In lo (a :: r)) by (apply HM; lia). destruct IL as [E|IL]; [exact E|]. specialize (H1 lo IL). lia. }
    subst a. replace (hi - lo) with (S (hi - S lo)) by lia. cbn [seq]. f_equal.
    apply IH; [exact H2|]. intros i. split.
    + intros IN. specialize (H1 i IN). assert (lo <= i < hi) by (apply HM; now right). lia.
    + intros [B1 B2]. assert (IL : In i (lo :: r)) by (apply HM; lia). destruct IL as [E|IL]; [lia|exact IL].
Qed.

Lemma skipn_nth {A} (L : list A) : forall n v, nth_error L n = Some v -> skipn n L = v :: skipn (S n) L.
Proof.
  induction L as [|a L IH]; intros [|n] v H; try discriminate.
  - cbn in H. injection H as ->. reflexivity.
  - cbn in H. cbn [skipn]. rewrite (IH n v H). reflexivity.
Qed.

Lemma map_segment {A B} (f : A -> B) (key : A -> nat) (L : list B) : forall us lo n,
  map key us = seq lo n -> (forall u, In u us -> nth_error L (key u) = Some (f u)) ->
  map f us = firstn n (skipn lo L).
Proof.
  induction us as [|u r IH]; intros lo n E H.
  - destruct n; [reflexivity|discriminate].
  - destruct n as [|n]; [discriminate|]. cbn in E. injection E as E1 E2.
    assert (NE : nth_error L lo = Some (f u)) by (rewrite <- E1; apply H; now left).
    rewrite (skipn_nth L lo _ NE). cbn [map firstn]. f_equal. apply IH; [exact E2|]. intros z IZ. apply H. now right.
Qed.

Lemma upd_lmsg_nth L u : upd_lmsg L (lidx u) (snd u) -> nth_error L (lidx u) = Some (upd_of_logupd u).
Proof.
  unfold upd_lmsg, upd_of_logupd. destruct (nth_error L (lidx u)) as [v|]; [|intros []].
  destruct v, (snd u); intros HH; try (exfalso; exact HH).
  - destruct HH as [_ [-> [-> ->]]]. reflexivity.
  - subst. rewrite Nat2N.id. reflexivity.
  - subst. rewrite Nat2N.id. reflexivity.
  - subst. rewrite Nat2N.id. reflexivity.
  - subst. reflexivity.
Qed.

Lemma plist_segment L us lo hi : PList L us lo hi true -> inc (map lidx us) -> lo <= hi ->
  map upd_of_logupd us = skipn lo (firstn hi L).
Proof.
  intros [A B C D] IN LE. rewrite skipn_firstn_comm. apply (map_segment upd_of_logupd lidx).
  - apply inc_exact; [exact IN|]. intros i. split.
    + intros II. apply in_map_iff in II. destruct II as [u [<- IU]]. destruct (B u IU) as [B1 [B2 _]]. lia.
    + intros [H1 H2]. destruct (C i H1 H2 (or_introl eq_refl)) as [u [IU <-]]. apply in_map, IU.
  - intros u IU. destruct (B u IU) as [_ [_ B3]]. apply upd_lmsg_nth, B3.
Qed.

Lemma N_eqb_of_nat a b : N.eqb (N.of_nat a) (N.of_nat b) = Nat.eqb a b.
Proof.
  destruct (Nat.eqb_spec a b) as [E|NE]; [subst; apply N.eqb_refl|]. apply N.eqb_neq. lia.
Qed.

Lemma vk_vtip t o : vk (vtip t o) = tip_of (vk t) (option_map vk o).
Proof. destruct o; reflexivity. Qed.

Section Sync.
Variables (c : cfg) (p : bool) (x : party) (y : vparty) (Fo Fp : nat).
Hypothesis CX : CorrX c p x y Fo Fp.
Hypothesis PS : PInvS p x y.
Hypothesis OI : OrdInv p y.
Let CO := cx_corr _ _ _ _ _ _ CX.

Lemma owes_refines : v_owes_commit p y = owes_commit p x.
Proof.
  unfold v_owes_commit, owes_commit. rewrite !vk_vtip.
  rewrite (co_lt _ _ _ _ _ _ CO), (co_lp _ _ _ _ _ _ CO), (co_rt _ _ _ _ _ _ CO), (co_rp _ _ _ _ _ _ CO),
    (co_io _ _ _ _ _ _ CO).
  unfold idx_of. rewrite N_eqb_of_nat. reflexivity.
Qed.

Lemma diff_refines k : v_rtip y = Some k ->
  map (fun u => MUpd (upd_of_logupd u)) (d_diff y) = diff_updates p x.
Proof.
  intros RT. pose proof (co_rp _ _ _ _ _ _ CO) as RP. rewrite RT in RP. cbn in RP.
  unfold diff_updates. rewrite <- RP. rewrite <- map_map. f_equal.
  pose proof (pi_diff _ _ _ (ps_pi _ _ _ PS) k RT) as PD. rewrite (co_rt _ _ _ _ _ _ CO) in PD.
  apply plist_segment; [exact PD|apply OI|].
  pose proof (idx_chain c p x y Fo Fp CO) as IC. rewrite <- RP in IC. cbn [tip_of] in IC. lia.
Qed.

(* ladder 2, as a function of what ladder 1 produced *)
Definition lad2 (x0 x1 : party) (ups : list msg) (sg : bool) (f : bool) (next : Z) : sres * party * list msg * bool :=
  let remote_tail_h := c_h (rTail x0) in
  let remote_tip_h := c_h (tip_of (rTail x0) (rTip x0)) in
  if (remote_tip_h + 1 <? next)%Z then (SErrSync, x0, [], false)
  else if (next <=? remote_tail_h)%Z then (SErrSync, x0, [], false)
  else if (next =? remote_tip_h + 1)%Z then (SOk, x1, ups, sg)
  else if (next =? remote_tip_h)%Z then
    match rTip x0 with
    | None => (SErrSync, x0, [], false)
    | Some k =>
      let cu := diff_updates p x0 ++ [MSig k] in
      (SOk, x1, (if f then cu ++ ups else ups ++ cu), sg)
    end
  else (SErrSync, x0, [], false).

Definition vlad2 (y0 y1 : vparty) (ups : list msg) (sg : bool) (f : bool) (next : Z) : sres * vparty * list msg * bool :=
  let remote_tail_h := c_h (vk (v_rtail y0)) in
  let remote_tip_h := c_h (vk (vtip (v_rtail y0) (v_rtip y0))) in
  if (remote_tip_h + 1 <? next)%Z then (SErrSync, y0, [], false)
  else if (next <=? remote_tail_h)%Z then (SErrSync, y0, [], false)
  else if (next =? remote_tip_h + 1)%Z then (SOk, y1, ups, sg)
  else if (next =? remote_tip_h)%Z then
    match v_rtip y0 with
    | None => (SErrSync, y0, [], false)
    | Some k =>
      let cu := map (fun u => MUpd (upd_of_logupd u)) (d_diff y0) ++ [MSig (vk k)] in
      (SOk, y1, (if f then cu ++ ups else ups ++ cu), sg)
    end
  else (SErrSync, y0, [], false).

Lemma in_diff_updates u : In (MUpd u) (diff_updates p x) -> In u (own x).
Proof.
  unfold diff_updates. destruct (rTip x) as [k|]; [|intros []]. intros IN.
  apply in_map_iff in IN. destruct IN as [u' [E IN]]. injection E as ->.
  rewrite <- (firstn_skipn (n_of p k) (own x)). apply in_or_app. left.
  rewrite <- (firstn_skipn (n_of p (rTail x)) (firstn (n_of p k) (own x))). apply in_or_app. right. exact IN.
Qed.

Lemma lad2_refines x1 y1 ups sg f next x1' out sg' :
  lad2 x x1 ups sg f next = (SOk, x1', out, sg') ->
  vlad2 y y1 ups sg f next = (SOk, y1, out, sg') /\ x1' = x1 /\ sg' = sg /\
  (forall u, In (MUpd u) out -> In (MUpd u) ups \/ In u (own x)).
Proof.
  unfold lad2, vlad2. cbv zeta. rewrite vk_vtip, (co_rt _ _ _ _ _ _ CO), (co_rp _ _ _ _ _ _ CO).
  destruct (_ <? _)%Z; [discriminate|]. destruct (_ <=? _)%Z; [discriminate|].
  destruct (next =? _ + 1)%Z.
  - intros H. injection H as <- <- <-. auto.
  - destruct (next =? _)%Z; [|discriminate].
    pose proof (co_rp _ _ _ _ _ _ CO) as RP.
    destruct (v_rtip y) as [k|] eqn:RT; cbn in RP; rewrite <- RP; [|discriminate].
    rewrite (diff_refines k RT). intros H. injection H as <- <- <-.
    split; [reflexivity|]. split; [reflexivity|]. split; [reflexivity|].
    intros u IN.
    assert (G : In (MUpd u) (diff_updates p x ++ [MSig (vk k)]) -> In u (own x)).
    { intros I2. apply in_app_or in I2. destruct I2 as [I2|[I2|[]]]; [apply in_diff_updates, I2|discriminate]. }
    destruct f; apply in_app_or in IN; destruct IN as [IN|IN]; auto.
Qed.

Theorem psync_refines f next rtail x1 out sg :
  process_sync c p x f next rtail = (SOk, x1, out, sg) ->
  exists y1, v_process_sync c p y f next rtail = (SOk, y1, out, sg) /\
    (x1 = x /\ y1 = y /\ sg = false \/
     exists m, do_sign c p x = (Ok, x1, Some m) /\ v_sign c p y = (Ok, y1, Some m) /\ sg = true) /\
    (forall u, In (MUpd u) out -> In u (own x)).
Proof.
  intros H.
  change (process_sync c p x f next rtail) with
    (match (if (c_h (lTail x) <? rtail)%Z then inr SErrSync
            else if (rtail + 1 <? c_h (lTail x))%Z then inr SErrSync
            else if (rtail =? c_h (lTail x))%Z then inl (x, [], false)
            else if owes_commit p x then
                   match do_sign c p x with
                   | (Ok, x', Some m) => inl (x', [MRev; m], true)
                   | (ErrNoWindow, _, _) => inl (x, [MRev], false)
                   | _ => inr SErrSign
                   end
                 else inl (x, [MRev], false)) : (party * list msg * bool) + sres with
     | inr e => (e, x, [], false)
     | inl (x1, ups, signed) => lad2 x x1 ups signed f next
     end) in H.
  change (v_process_sync c p y f next rtail) with
    (match (if (c_h (vk (v_ltail y)) <? rtail)%Z then inr SErrSync
            else if (rtail + 1 <? c_h (vk (v_ltail y)))%Z then inr SErrSync
            else if (rtail =? c_h (vk (v_ltail y)))%Z then inl (y, [], false)
            else if v_owes_commit p y then
                   match v_sign c p y with
                   | (Ok, x', Some m) => inl (x', [MRev; m], true)
                   | (ErrNoWindow, _, _) => inl (y, [MRev], false)
                   | _ => inr SErrSign
                   end
                 else inl (y, [MRev], false)) : (vparty * list msg * bool) + sres with
     | inr e => (e, y, [], false)
     | inl (x1, ups, signed) => vlad2 y x1 ups signed f next
     end).
  rewrite (co_lt _ _ _ _ _ _ CO), owes_refines.
  destruct (_ <? _)%Z; [discriminate|]. destruct (_ <? _)%Z; [discriminate|].
  destruct (_ =? _)%Z.
  - destruct (lad2_refines x y [] false f next x1 out sg H) as [V [-> [-> MU]]]. exists y. split; [exact V|].
    split; [left; auto|]. intros u IN. destruct (MU u IN) as [[]|X]; exact X.
  - destruct (owes_commit p x).
    + destruct (do_sign c p x) as [[r x'] om] eqn:DS. destruct r; try discriminate.
      * destruct om as [m|]; [|discriminate].
        destruct (sign_corrx c p x y Fo Fp CX x' m DS) as [y' [VS _]]. rewrite VS.
        destruct (lad2_refines x' y' [MRev; m] true f next x1 out sg H) as [V [-> [-> MU]]].
        exists y'. split; [exact V|]. split; [right; exists m; auto|].
        intros u IN. destruct (MU u IN) as [[X|[X|[]]]|X]; [discriminate| |exact X].
        destruct (do_sign_ok c p _ _ _ DS) as [k [_ [_ [_ EM]]]]. congruence.
      * assert (RT : exists k, v_rtip y = Some k).
        { unfold do_sign in DS. pose proof (co_rp _ _ _ _ _ _ CO) as RP.
          destruct (rTip x) as [k0|]; [destruct (v_rtip y) as [k|]; [eauto|discriminate]|].
          cbv zeta in DS. destruct (commit_of _ _ _ _ _ _ _); discriminate. }
        destruct RT as [k RT]. unfold v_sign. rewrite RT.
        destruct (lad2_refines x y [MRev] false f next x1 out sg H) as [V [-> [-> MU]]].
        exists y. split; [exact V|]. split; [left; auto|].
        intros u IN. destruct (MU u IN) as [[X|[]]|X]; [discriminate|exact X].
    + destruct (lad2_refines x y [MRev] false f next x1 out sg H) as [V [-> [-> MU]]]. exists y. split; [exact V|].
      split; [left; auto|]. intros u IN. destruct (MU u IN) as [[X|[]]|X]; [discriminate|exact X].
Qed.

(* the party after the handshake again satisfies all party-level invariants *)
Theorem psync_full f next rtail x1 out sg :
  process_sync c p x f next rtail = (SOk, x1, out, sg) ->
  exists y1, v_process_sync c p y f next rtail = (SOk, y1, out, sg) /\
    CorrX c p x1 y1 Fo Fp /\ PInvS p x1 y1 /\ OrdInv p y1 /\ own x1 = own x /\
    (forall u, In (MUpd u) out -> In u (own x)).
Proof.
  intros H. destruct (psync_refines f next rtail x1 out sg H) as [y1 [V [D MU]]].
  exists y1. split; [exact V|].
  destruct D as [[-> [-> _]]|[m [DS [VS _]]]].
  - auto 6.
  - destruct (sign_corrx c p x y Fo Fp CX x1 m DS) as [y' [VS' CX']].
    rewrite VS in VS'. injection VS' as <-.
    pose proof (sign_pinvs c p x y Fo Fp CX PS x1 m y1 DS VS CX') as PS'.
    split; [exact CX'|]. split; [exact PS'|]. split.
    + apply (sign_ord c p y OI y1 m VS). intros u IU.
      assert (RT : exists k, v_rtip y1 = Some k).
      { unfold v_sign in VS. destruct (v_rtip y); [discriminate|].
        destruct (fetchCommitmentView _ _ _ _ _ _ _ _) as [[[k l'] r']|]; [|discriminate].
        injection VS as <- _. cbn. eauto. }
      destruct RT as [k RT].
      destruct (pl_in _ _ _ _ _ (pi_diff _ _ _ (ps_pi _ _ _ PS') k RT) u IU) as [LO _]. exact LO.
    + split; [|exact MU]. destruct (do_sign_ok c p _ _ _ DS) as [k [_ [_ [-> _]]]]. reflexivity.
Qed.
End Sync.

(* ---------- V3: the extra invariants along ordinary steps ---------- *)
Lemma in_replace_nth (u v : upd) : forall l j, In v (replace_nth j l u) -> In v l \/ v = u.
Proof.
  induction l as [|a l IH]; intros [|j] H; cbn in H; try (destruct H; fail).
  - destruct H as [<-|H]; [now right|left; now right].
  - destruct H as [<-|H]; [left; now left|]. destruct (IH j H) as [X|X]; [left; now right|now right].
Qed.

Lemma in_append_upd l b u v : In v (append_upd l b u) -> In v l \/ v = u.
Proof.
  assert (G : In v (l ++ [u]) -> In v l \/ v = u).
  { intros H. apply in_app_or in H. destruct H as [H|[<-|[]]]; auto. }
  unfold append_upd. destruct u; auto.
  destruct (last_fee_idx l 0 None) as [j|]; auto. destruct (b <=? j); auto. apply in_replace_nth.
Qed.

Record Ext (c : cfg) (s : sys) (v : vsys) : Prop := mkExt {
  ex_ord : forall p, OrdInv p (vget v p);
  ex_fee : forall p r, In (UFee r) (own (get s p)) -> p = opener c
}.

Lemma ext_update c (s s' : sys) (v v' : vsys) p :
  Ext c s v -> OrdInv p (vget v' p) ->
  (forall r, In (UFee r) (own (get s' p)) -> p = opener c) ->
  get s' (negb p) = get s (negb p) -> vget v' (negb p) = vget v (negb p) -> Ext c s' v'.
Proof.
  intros [A B] O F E1 E2. split.
  - intros q. destruct (bool_cases p q) as [->| ->]; [exact O|]. rewrite E2. apply A.
  - intros q r. destruct (bool_cases p q) as [->| ->]; [apply F|]. rewrite E1. apply B.
Qed.

Theorem ext_step c s v o s' v' :
  Sim2 c s v -> Ext c s v -> step c s (erase o) = (Ok, s') -> vstep c v o = (Ok, v') -> Sim2 c s' v' ->
  Ext c s' v'.
Proof.
  intros [SM PA] EX ST VS [SM' PA'].
  assert (SEND : forall p u mal, step c s (OSend p u) = (Ok, s') ->
            (match v_send c p (vget v p) u mal with
             | Some x' => (Ok, vset_outq (vset v p x') p (voutq v p ++ [MUpd u]))
             | None => (ErrDisabled, v) end) = (Ok, v') -> Ext c s' v').
  { intros p u mal H VS'. cbn [step] in H. destruct (upd_enabled c p (get s p) u) eqn:EN; [|discriminate].
    injection H as <-. destruct (sm_p _ _ _ SM p) as [Fo [Fp CX]].
    destruct (v_send c p (vget v p) u mal) as [y'|] eqn:VY; [|discriminate]. injection VS' as <-.
    apply (ext_update c s _ v _ p EX).
    - rewrite vget_setq, vget_set. apply (send_ord c p _ _ Fo Fp CX (ex_ord _ _ _ EX p) u mal y' EN VY).
    - rewrite get_setq, get_set. cbn [own]. intros r IN. apply in_append_upd in IN. destruct IN as [IN|E].
      + apply (ex_fee _ _ _ EX p r IN).
      + subst u. cbn [upd_enabled] in EN. apply andb_true_iff in EN. destruct EN as [EN _]. apply eqb_prop in EN. exact EN.
    - rewrite get_setq, get_set_o. reflexivity.
    - rewrite vget_setq, vget_set_o. reflexivity. }
  destruct o as [[p u|p|p|p]|p i]; cbn [erase] in ST; cbn [vstep] in VS.
  - apply (SEND p u false ST VS).
  - (* sign *)
    cbn [step] in ST. destruct (do_sign c p (get s p)) as [[r x'] om] eqn:DS.
    assert (r = Ok /\ exists m, om = Some m /\ s' = set_outq (set s p x') p (outq s p ++ [m])).
    { unfold do_sign in DS. destruct (rTip (get s p)); [injection DS as <- <- <-; discriminate|].
      cbv zeta in DS. destruct (commit_of _ _ _ _ _ _ _); injection DS as <- <- <-; [|discriminate].
      injection ST as <-. eauto. }
    destruct H as [-> [m [-> ->]]].
    destruct (sm_p _ _ _ SM p) as [Fo [Fp CX]].
    destruct (sign_corrx c p _ _ Fo Fp CX x' m DS) as [y' [VY CX']]. rewrite VY in VS. injection VS as <-.
    apply (ext_update c s _ v _ p EX).
    + rewrite vget_lwr, vget_setq, vget_set.
      apply (sign_ord c p _ (ex_ord _ _ _ EX p) y' m VY).
      pose proof (PA' p) as PP. rewrite get_setq, get_set, vget_lwr, vget_setq, vget_set in PP.
      intros u IU.
      assert (RT : exists k, v_rtip y' = Some k).
      { unfold v_sign in VY. destruct (v_rtip (vget v p)); [discriminate|].
        destruct (fetchCommitmentView _ _ _ _ _ _ _ _) as [[[k l'] r']|]; [|discriminate].
        injection VY as <- _. cbn. eauto. }
      destruct RT as [k RT].
      destruct (pl_in _ _ _ _ _ (pi_diff _ _ _ (ps_pi _ _ _ PP) k RT) u IU) as [LO _]. exact LO.
    + rewrite get_setq, get_set. destruct (do_sign_ok c p _ _ _ DS) as [k [_ [_ [-> _]]]]. cbn [set_rTip own].
      apply (ex_fee _ _ _ EX p).
    + rewrite get_setq, get_set_o. reflexivity.
    + rewrite vget_lwr, vget_setq, vget_set_o. reflexivity.
  - (* revoke *)
    cbn [step] in ST. destruct (do_revoke (get s p)) as [[r x'] om] eqn:DS.
    assert (r = Ok /\ exists m, om = Some m /\ s' = set_outq (set s p x') p (outq s p ++ [m])).
    { unfold do_revoke in DS. destruct (lTip (get s p)); injection DS as <- <- <-; [|discriminate].
      injection ST as <-. eauto. }
    destruct H as [-> [m [-> ->]]].
    destruct (sm_p _ _ _ SM p) as [Fo [Fp CX]].
    destruct (revoke_corrx c p _ _ Fo Fp CX x' m DS) as [y' [VY CX']]. rewrite VY in VS. injection VS as <-.
    apply (ext_update c s _ v _ p EX).
    + rewrite vget_lwr, vget_setq, vget_set. apply (revoke_ord p _ (ex_ord _ _ _ EX p) y' _ VY).
    + rewrite get_setq, get_set. destruct (do_revoke_ok _ _ _ DS) as [k [_ [-> _]]]. cbn [revoked own].
      apply (ex_fee _ _ _ EX p).
    + rewrite get_setq, get_set_o. reflexivity.
    + rewrite vget_lwr, vget_setq, vget_set_o. reflexivity.
  - (* deliver *)
    cbn [step] in ST. rewrite (sm_q _ _ _ SM (negb p)) in VS.
    destruct (outq s (negb p)) as [|m q] eqn:Q; [discriminate|].
    destruct (sm_p _ _ _ SM p) as [Fo [Fp CX]].
    destruct m as [u|k|].
    + injection ST as <-.
      destruct (v_recv_upd c p (vget v p) u) as [y'|] eqn:VY; [|discriminate]. injection VS as <-.
      apply (ext_update c s _ v _ p EX).
      * rewrite vget_setq, vget_set. apply (recv_upd_ord c p _ (ex_ord _ _ _ EX p) u y' VY).
      * rewrite get_setq, get_set. cbn [own]. apply (ex_fee _ _ _ EX p).
      * rewrite get_setq, get_set_o. reflexivity.
      * rewrite vget_setq, vget_set_o. reflexivity.
    + destruct (do_recv_sig c p (get s p) k) as [r x'] eqn:DS.
      assert (r = Ok /\ s' = set_outq (set s p x') (negb p) q).
      { destruct r; try discriminate. injection ST as <-. auto. }
      destruct H as [-> ->].
      destruct (recv_sig_corrx c p _ _ Fo Fp CX k x' DS) as [y' [VY CX']]. rewrite VY in VS. injection VS as <-.
      apply (ext_update c s _ v _ p EX).
      * rewrite vget_setq, vget_set. apply (recv_sig_ord c p _ (ex_ord _ _ _ EX p) k y' VY).
      * rewrite get_setq, get_set.
        assert (own x' = own (get s p)).
        { unfold do_recv_sig in DS. cbv zeta in DS. destruct (commit_of _ _ _ _ _ _ _); [|discriminate].
          destruct (commit_eqb _ _); [|discriminate]. injection DS as <-. reflexivity. }
        rewrite H. apply (ex_fee _ _ _ EX p).
      * rewrite get_setq, get_set_o. reflexivity.
      * rewrite vget_setq, vget_set_o. reflexivity.
    + destruct (do_recv_rev (get s p)) as [r x'] eqn:DS.
      assert (r = Ok /\ s' = set_outq (set s p x') (negb p) q).
      { destruct r; try discriminate. injection ST as <-. auto. }
      destruct H as [-> ->].
      destruct (recv_rev_corrx c p _ _ Fo Fp CX x' DS) as [y' [Fo' [Fp' [VY CX']]]]. rewrite VY in VS. injection VS as <-.
      apply (ext_update c s _ v _ p EX).
      * rewrite vget_setq, vget_set. apply (recv_rev_ord c p _ _ Fo Fp CX (ex_ord _ _ _ EX p) y' VY).
      * rewrite get_setq, get_set. destruct (do_recv_rev_ok _ _ DS) as [k [_ ->]]. cbn [recv_rev own].
        apply (ex_fee _ _ _ EX p).
      * rewrite get_setq, get_set_o. reflexivity.
      * rewrite vget_setq, vget_set_o. reflexivity.
  - apply (SEND p (UFail i) true ST VS).
Qed.

(* ---------- V4: reconnects.  The incremental machine refines Resync.xstep ---------- *)
Record XSim (c : cfg) (s : xsys) (v : vsys) : Prop := mkXSim {
  xq_sim2 : Sim2 c (xs s) v;
  xq_ext : Ext c (xs s) v;
  xq_xinv : XInv c s;
  xq_fa : vlwrA v = lwrA s;
  xq_fb : vlwrB v = lwrB s
}.

(* under the invariant a delivery fails only on an empty queue *)
Lemma deliver_total c s p : Inv c s -> fst (step c s (ODeliver p)) = Ok \/ outq s (negb p) = [].
Proof.
  intros HI. destruct (outq s (negb p)) as [|m q] eqn:Q; [now right|left].
  destruct m as [u|k|].
  - cbn [step]. rewrite Q. reflexivity.
  - eapply inv_agreement; eauto.
  - destruct (inv_get c s HI p) as [I1 _]. pose proof (i_ph _ _ _ _ _ _ _ I1) as PH. rewrite Q in PH.
    cbn [step]. rewrite Q. unfold do_recv_rev.
    destruct PH as [_ _ _ NR _|k _ _ _ _ NR _|k _ _ _ _ NR _ _|k RT _ _ _ _ _ _]; try (cbn [nrev] in NR; discriminate).
    rewrite RT. reflexivity.
Qed.

Lemma vstep_deliver_lwr c v p :
  vlwrA (snd (vstep c v (VOp (ODeliver p)))) = vlwrA v /\ vlwrB (snd (vstep c v (VOp (ODeliver p)))) = vlwrB v.
Proof.
  cbn [vstep]. destruct (voutq v (negb p)) as [|m q]; [auto|]. destruct m as [u|k|].
  - destruct (v_recv_upd _ _ _ _); [|auto]. destruct p; cbn; auto.
  - destruct (v_recv_sig _ _ _ _) as [r x']. destruct r; destruct p; cbn; auto.
  - destruct (v_recv_rev _ _) as [r x']. destruct r; try (cbn; auto; fail). destruct p; cbn; auto.
Qed.

Lemma xsim_deliver c s fa fb v p :
  XSim c (mkX s fa fb) v -> deliver_ok s p = true ->
  XSim c (mkX (snd (step c s (ODeliver p))) fa fb) (snd (vstep c v (VOp (ODeliver p)))).
Proof.
  intros [S2 EX XI FA FB] HD. cbn [xs lwrA lwrB] in *.
  pose proof (xinv_deliver c (mkX s fa fb) p XI HD) as XI'. rewrite xstep_deliver in XI'. cbn [xs lwrA lwrB] in XI'.
  destruct (vstep_deliver_lwr c v p) as [LA LB].
  destruct (step c s (ODeliver p)) as [r s'] eqn:ST. cbn [snd] in *.
  destruct (deliver_total c s p (sm_inv _ _ _ (s2_sim _ _ _ S2))) as [OK|EMP].
  - rewrite ST in OK. cbn in OK. subst r.
    destruct (sim2_step c s v (VOp (ODeliver p)) s' S2 ST) as [v' [VS S2']]. rewrite VS. cbn [snd].
    rewrite VS in LA, LB. cbn [snd] in LA, LB.
    split; cbn [xs lwrA lwrB]; [exact S2'| |exact XI'|congruence|congruence].
    apply (ext_step c s v (VOp (ODeliver p)) s' v' S2 EX ST VS S2').
  - assert (s' = s /\ vstep c v (VOp (ODeliver p)) = (ErrNothing, v)).
    { cbn [step] in ST. rewrite EMP in ST. injection ST as <- <-. split; [reflexivity|].
      cbn [vstep]. rewrite (sm_q _ _ _ (s2_sim _ _ _ S2) (negb p)), EMP. reflexivity. }
    destruct H as [-> VS]. rewrite VS. cbn [snd]. split; cbn [xs lwrA lwrB]; assumption.
Qed.

Lemma xsim_deliver_n c fa fb p : forall n s v,
  XSim c (mkX s fa fb) v -> deliver_n_ok c s p n = true ->
  XSim c (mkX (deliver_n c s p n) fa fb) (vdeliver_n c v p n).
Proof.
  induction n as [|n IH]; intros s v HX HD; cbn [deliver_n vdeliver_n deliver_n_ok] in *; [exact HX|].
  apply andb_true_iff in HD. destruct HD as [HD1 HD2].
  apply IH; [|exact HD2]. apply xsim_deliver; assumption.
Qed.

Lemma vdeliver_n_lwr c p : forall n v,
  vlwrA (vdeliver_n c v p n) = vlwrA v /\ vlwrB (vdeliver_n c v p n) = vlwrB v.
Proof.
  induction n as [|n IH]; intros v; cbn [vdeliver_n]; [auto|].
  destruct (IH (snd (vstep c v (VOp (ODeliver p))))) as [A B]. destruct (vstep_deliver_lwr c v p) as [A1 B1].
  split; congruence.
Qed.

Lemma sync_refines c p x y Fo Fp : CorrX c p x y Fo Fp -> v_sync_msg y = sync_msg x.
Proof.
  intros CX. pose proof (cx_corr _ _ _ _ _ _ CX) as CO. unfold v_sync_msg, sync_msg.
  rewrite (co_lt _ _ _ _ _ _ CO), (co_rt _ _ _ _ _ _ CO). reflexivity.
Qed.

Lemma in_firstn {A} (a : A) n l : In a (firstn n l) -> In a l.
Proof. intros H. rewrite <- (firstn_skipn n l). apply in_or_app. now left. Qed.

Theorem xcut_sim c s v ka kb :
  XSim c s v -> disciplined c s (XCut ka kb) = true -> fst (xstep c s (XCut ka kb)) = Ok ->
  fst (vxstep c v (VXCut ka kb)) = Ok /\
  XSim c (snd (xstep c s (XCut ka kb))) (snd (vxstep c v (VXCut ka kb))).
Proof.
  intros HX HD HOk.
  destruct (xcut_inv c s ka kb (xq_xinv _ _ _ HX) HD) as [_ XI]. specialize (XI HOk).
  cbn [disciplined] in HD. apply andb_true_iff in HD. destruct HD as [HD1 HD2].
  assert (HX0 : XSim c (mkX (xs s) (lwrA s) (lwrB s)) v) by (destruct s; exact HX).
  pose proof (xsim_deliver_n c _ _ true ka _ _ HX0 HD1) as HX1.
  pose proof (xsim_deliver_n c _ _ false kb _ _ HX1 HD2) as HX2.
  unfold xstep in HOk, XI |- *. unfold vxstep.
  set (s1 := deliver_n c (deliver_n c (xs s) true ka) false kb) in *.
  set (v1 := vdeliver_n c (vdeliver_n c v true ka) false kb) in *.
  destruct HX2 as [[SM PA] EX _ _ _]. cbn [xs] in SM, PA, EX.
  destruct (sm_p _ _ _ SM true) as [FoA [FpA CXA]]. destruct (sm_p _ _ _ SM false) as [FoB [FpB CXB]].
  cbn [get vget] in CXA, CXB.
  pose proof (restore_corrx c true _ _ FoA FpA CXA (ps_pi _ _ _ (PA true))) as RA.
  pose proof (restore_corrx c false _ _ FoB FpB CXB (ps_pi _ _ _ (PA false))) as RB.
  pose proof (restore_pinvs c true _ _ FoA FpA CXA (PA true)) as QA.
  pose proof (restore_pinvs c false _ _ FoB FpB CXB (PA false)) as QB.
  pose proof (restore_ord c true _ _ FoA FpA CXA (ex_ord _ _ _ EX true) (ps_pi _ _ _ (PA true))) as OA.
  pose proof (restore_ord c false _ _ FoB FpB CXB (ex_ord _ _ _ EX false) (ps_pi _ _ _ (PA false))) as OB.
  cbn [get vget] in *.
  set (a := restore true (pA s1)) in *. set (b := restore false (pB s1)) in *.
  set (ya := v_restore true (vA v1)) in *. set (yb := v_restore false (vB v1)) in *.
  rewrite (sync_refines c true a ya _ _ RA), (sync_refines c false b yb _ _ RB).
  destruct (sync_msg a) as [nextA rtailA]. destruct (sync_msg b) as [nextB rtailB].
  rewrite (xq_fa _ _ _ HX), (xq_fb _ _ _ HX).
  destruct (process_sync c true a (lwrA s) nextB rtailB) as [[[ra a'] outA] sa] eqn:PSA.
  destruct (process_sync c false b (lwrB s) nextA rtailA) as [[[rb b'] outB] sb] eqn:PSB.
  assert (ra = SOk /\ rb = SOk) by (destruct ra, rb; try discriminate HOk; auto).
  destruct H as [-> ->]. cbn [fst snd] in XI |- *.
  destruct (psync_full c true a ya _ _ RA QA OA _ _ _ _ _ _ PSA) as [ya' [VA [CA' [PA' [OA' [EA MA]]]]]].
  destruct (psync_full c false b yb _ _ RB QB OB _ _ _ _ _ _ PSB) as [yb' [VB [CB' [PB' [OB' [EB MB]]]]]].
  rewrite VA, VB. cbn [fst snd]. split; [reflexivity|].
  assert (FA : forall r, In (UFee r) (own a) -> true = opener c).
  { intros r IN. apply (ex_fee _ _ _ EX true r). cbn [get]. unfold a, restore in IN. cbn [own] in IN.
    eapply in_firstn, IN. }
  assert (FB : forall r, In (UFee r) (own b) -> false = opener c).
  { intros r IN. apply (ex_fee _ _ _ EX false r). cbn [get]. unfold b, restore in IN. cbn [own] in IN.
    eapply in_firstn, IN. }
  split; cbn [xs lwrA lwrB vlwrA vlwrB].
  - split.
    + split.
      * apply XI.
      * intros p r IN. destruct p; cbn [outq] in IN; [apply (FA r), MA, IN|apply (FB r), MB, IN].
      * intros p. destruct p; reflexivity.
      * intros p. destruct p; cbn [get vget]; eauto.
    + intros p. destruct p; cbn [get vget]; assumption.
  - split.
    + intros p. destruct p; cbn [vget]; assumption.
    + intros p r. destruct p; cbn [get pA pB]; [rewrite EA; apply (FA r)|rewrite EB; apply (FB r)].
  - exact XI.
  - reflexivity.
  - reflexivity.
Qed.

(* ---------- V5: every disciplined schedule with reconnects ---------- *)
Definition xerase (o : vxop) : xop :=
  match o with VXOp o => XOp (erase o) | VXCut ka kb => XCut ka kb end.

(* the incremental machine run alongside Resync.xrun (stepped when the cut-level model accepts) *)
Fixpoint xrun_along (c : cfg) (s : xsys) (v : vsys) (ops : list vxop) : xsys * vsys :=
  match ops with
  | [] => (s, v)
  | o :: r =>
    let '(rs, s') := xstep c s (xerase o) in
    match rs with
    | Ok => xrun_along c s' (snd (vxstep c v o)) r
    | _ => xrun_along c s' v r
    end
  end.

(* the schedules of C02 / C03: link discipline, and every reconnect succeeds *)
Fixpoint xgood (c : cfg) (s : xsys) (ops : list xop) : bool :=
  match ops with
  | [] => true
  | o :: r =>
    disciplined c s o
    && match o with
       | XCut _ _ => match fst (xstep c s o) with Ok => true | _ => false end
       | _ => true
       end
    && xgood c (snd (xstep c s o)) r
  end.

Lemma vstep_flags c v o v' : vstep c v o = (Ok, v') ->
  vlwrA v' = (match erase o with OSign true => false | ORevoke true => true | _ => vlwrA v end) /\
  vlwrB v' = (match erase o with OSign false => false | ORevoke false => true | _ => vlwrB v end).
Proof.
  assert (SEND : forall p u mal, (match v_send c p (vget v p) u mal with
             | Some x' => (Ok, vset_outq (vset v p x') p (voutq v p ++ [MUpd u]))
             | None => (ErrDisabled, v) end) = (Ok, v') -> vlwrA v' = vlwrA v /\ vlwrB v' = vlwrB v).
  { intros p u mal H. destruct (v_send _ _ _ _ _); [|discriminate]. injection H as <-. destruct p; cbn; auto. }
  destruct o as [[p u|p|p|p]|p i]; cbn [erase vstep].
  - apply SEND.
  - destruct (v_sign c p (vget v p)) as [[r x'] om] eqn:VS; destruct r; try discriminate.
    destruct om as [m|].
    + intros H. injection H as <-. destruct p; cbn; auto.
    + exfalso. unfold v_sign in VS. destruct (v_rtip (vget v p)); [discriminate|].
      destruct (fetchCommitmentView _ _ _ _ _ _ _ _) as [[[k l'] r']|]; discriminate.
  - destruct (v_revoke p (vget v p)) as [[r x'] om] eqn:VS; destruct r; try discriminate.
    destruct om as [m|].
    + intros H. injection H as <-. destruct p; cbn; auto.
    + exfalso. unfold v_revoke in VS. destruct (v_ltip (vget v p)); discriminate.
  - intros H. destruct (vstep_deliver_lwr c v p) as [A B]. cbn [vstep] in A, B. rewrite H in A, B. cbn in A, B.
    destruct p; auto.
  - apply SEND.
Qed.

Lemma xsim_xop c s v o :
  XSim c s v -> disciplined c s (XOp (erase o)) = true ->
  XSim c (snd (xstep c s (XOp (erase o))))
         (match fst (xstep c s (XOp (erase o))) with Ok => snd (vstep c v o) | _ => v end).
Proof.
  intros HX HD.
  pose proof (xinv_xstep c s (XOp (erase o)) (xq_xinv _ _ _ HX) HD) as XI.
  assert (XI' : XInv c (snd (xstep c s (XOp (erase o))))) by (apply XI; intros; discriminate). clear XI.
  destruct HX as [S2 EX XI FA FB]. cbn [xstep] in *.
  destruct (step c (xs s) (erase o)) as [r s'] eqn:ST.
  destruct r.
  1:{ destruct (sim2_step c _ v o s' S2 ST) as [v' [VS S2']]. rewrite VS. cbn [snd].
      pose proof (ext_step c _ v o s' v' S2 EX ST VS S2') as EX'.
      destruct (vstep_flags c v o v' VS) as [LA LB].
      assert (G : forall t, xs t = s' -> XInv c t ->
                  lwrA t = (match erase o with OSign true => false | ORevoke true => true | _ => lwrA s end) ->
                  lwrB t = (match erase o with OSign false => false | ORevoke false => true | _ => lwrB s end) ->
                  XSim c t v').
      { intros t E1 X1 E2 E3. split; [rewrite E1; exact S2'|rewrite E1; exact EX'|exact X1|rewrite LA, E2, FA; reflexivity|rewrite LB, E3, FB; reflexivity]. }
      destruct (erase o) as [p u|p|p|p]; cbn [fst snd] in *.
      - apply G; auto.
      - apply G; [destruct p; reflexivity|exact XI'|destruct p; reflexivity|destruct p; reflexivity].
      - apply G; [destruct p; reflexivity|exact XI'|destruct p; reflexivity|destruct p; reflexivity].
      - apply G; auto. }
  all: assert (s' = xs s) by (eapply step_err_same; [exact ST|discriminate]); subst s';
       cbn [fst snd] in *; split; cbn [xs lwrA lwrB]; assumption.
Qed.

Lemma xsim_init c s0 v0 : xinit c = Some s0 -> vinit c = Some v0 -> XSim c s0 v0.
Proof.
  intros HS HV. pose proof (xinit_inv c s0 HS) as XI. unfold xinit in HS.
  destruct (init_sys c) as [s|] eqn:IS; [|discriminate]. injection HS as <-.
  split; cbn [xs lwrA lwrB].
  - apply sim2_init; assumption.
  - unfold init_sys in IS. unfold vinit in HV.
    destruct (init_party c true) as [a|] eqn:A; [|discriminate].
    destruct (init_party c false) as [b|] eqn:B; [|discriminate].
    destruct (vinit_party c true) as [ya|] eqn:YA; [|discriminate].
    destruct (vinit_party c false) as [yb|] eqn:YB; [|discriminate].
    injection IS as <-. injection HV as <-. split.
    + intros p. destruct p; cbn [vget]; eapply ord_init; eassumption.
    + intros p r IN. exfalso. unfold init_party in A, B. cbn [negb] in A, B.
      destruct (init_commit c true), (init_commit c false); try discriminate.
      injection A as <-. injection B as <-. destruct p; destruct IN.
  - exact XI.
  - unfold vinit in HV. destruct (vinit_party c true), (vinit_party c false); try discriminate.
    injection HV as <-. reflexivity.
  - unfold vinit in HV. destruct (vinit_party c true), (vinit_party c false); try discriminate.
    injection HV as <-. reflexivity.
Qed.

Lemma xrun_along_sim c : forall ops s v, XSim c s v -> xgood c s (map xerase ops) = true ->
  XSim c (fst (xrun_along c s v ops)) (snd (xrun_along c s v ops)) /\
  fst (xrun_along c s v ops) = xrun c s (map xerase ops).
Proof.
  induction ops as [|o r IH]; intros s v HX HG; [split; [exact HX|reflexivity]|].
  cbn [map xgood] in HG. apply andb_true_iff in HG. destruct HG as [HG HG2].
  apply andb_true_iff in HG. destruct HG as [HD HC].
  cbn [xrun_along map]. unfold xrun. cbn [fold_left]. fold (xrun c (snd (xstep c s (xerase o))) (map xerase r)).
  destruct o as [o|ka kb]; cbn [xerase] in *.
  - pose proof (xsim_xop c s v o HX HD) as HX'.
    destruct (xstep c s (XOp (erase o))) as [rs s'] eqn:ST. cbn [fst snd] in *.
    destruct rs; cbn [vxstep]; apply IH; assumption.
  - assert (HOk : fst (xstep c s (XCut ka kb)) = Ok) by (destruct (fst (xstep c s (XCut ka kb))); try discriminate; reflexivity).
    destruct (xcut_sim c s v ka kb HX HD HOk) as [VOk HX'].
    destruct (xstep c s (XCut ka kb)) as [rs s'] eqn:ST. cbn [fst snd] in *. subst rs.
    apply IH; assumption.
Qed.

(* THE REFINEMENT THEOREM WITH RECONNECTS: along every disciplined schedule in which the
   reconnects succeed, the incremental machine (vxstep: NewLightningChannel on both sides,
   ProcessChanSyncMsg, retransmission from the persisted CommitDiff) holds exactly the commitments,
   queues and LastWasRevoke flags of Resync.xrun *)
Theorem xview_refines c s0 v0 ops :
  xinit c = Some s0 -> vinit c = Some v0 -> xgood c s0 (map xerase ops) = true ->
  let (s, v) := xrun_along c s0 v0 ops in
  s = xrun c s0 (map xerase ops) /\
  (forall p, commits_view (vget v p) =
             (lTail (get (xs s) p), lTip (get (xs s) p), rTail (get (xs s) p), rTip (get (xs s) p))) /\
  vqAB v = qAB (xs s) /\ vqBA v = qBA (xs s) /\
  vlwrA v = lwrA s /\ vlwrB v = lwrB s /\
  (forall p, l_idx (vl (vget v p)) = N.of_nat (length (own (get (xs s) p))) /\
             l_idx (vr (vget v p)) = N.of_nat (length (peer (get (xs s) p)))) /\
  (forall p, VInv p (vget v p)).
Proof.
  intros HS HV HG. destruct (xrun_along_sim c ops s0 v0 (xsim_init c s0 v0 HS HV) HG) as [HX ER].
  destruct (xrun_along c s0 v0 ops) as [s v]. cbn [fst snd] in *.
  destruct HX as [[SM PA] EX XI FA FB].
  split; [exact ER|]. split; [|split; [apply (sm_q _ _ _ SM true)|split; [apply (sm_q _ _ _ SM false)|]]].
  - intros p. destruct (sm_p _ _ _ SM p) as [Fo [Fp CX]]. pose proof (cx_corr _ _ _ _ _ _ CX) as CO.
    unfold commits_view. rewrite (co_lt _ _ _ _ _ _ CO), (co_lp _ _ _ _ _ _ CO), (co_rt _ _ _ _ _ _ CO),
      (co_rp _ _ _ _ _ _ CO). reflexivity.
  - split; [exact FA|]. split; [exact FB|]. split.
    + intros p. destruct (sm_p _ _ _ SM p) as [Fo [Fp CX]]. pose proof (cx_corr _ _ _ _ _ _ CX) as CO.
      split; apply CO.
    + intros p. destruct (sm_p _ _ _ SM p) as [Fo [Fp CX]]. apply (co_inv _ _ _ _ _ _ (cx_corr _ _ _ _ _ _ CX)).
Qed.

(* every reconnect the cut-level model completes is completed by the incremental machine *)
Theorem xview_accepts c s0 v0 ops ka kb :
  xinit c = Some s0 -> vinit c = Some v0 -> xgood c s0 (map xerase ops ++ [XCut ka kb]) = true ->
  fst (vxstep c (snd (xrun_along c s0 v0 ops)) (VXCut ka kb)) = Ok.
Proof.
  intros HS HV HG.
  assert (G : forall l s, xgood c s (l ++ [XCut ka kb]) = true ->
              xgood c s l = true /\ disciplined c (xrun c s l) (XCut ka kb) = true /\
              fst (xstep c (xrun c s l) (XCut ka kb)) = Ok).
  { induction l as [|o r IH]; intros s H; cbn [app xgood] in H.
    - apply andb_true_iff in H. destruct H as [H _]. apply andb_true_iff in H. destruct H as [H1 H2].
      split; [reflexivity|]. split; [exact H1|]. cbn [xrun fold_left].
      destruct (fst (xstep c s (XCut ka kb))); try discriminate; reflexivity.
    - apply andb_true_iff in H. destruct H as [H H3]. destruct (IH _ H3) as [A [B C]].
      split; [cbn [xgood]; rewrite H, A; reflexivity|]. unfold xrun. cbn [fold_left]. auto. }
  destruct (G _ _ HG) as [G1 [G2 G3]].
  destruct (xrun_along_sim c ops s0 v0 (xsim_init c s0 v0 HS HV) G1) as [HX ER]. rewrite ER in HX.
  apply (xcut_sim c _ _ ka kb HX G2 G3).
Qed.

(* (d) for every state reachable WITH reconnects *)
Theorem xrestore_reachable c s0 v0 ops :
  xinit c = Some s0 -> vinit c = Some v0 -> xgood c s0 (map xerase ops) = true ->
  let (s, v) := xrun_along c s0 v0 ops in
  forall p,
    CorrX c p (restore p (get (xs s) p)) (v_restore p (vget v p))
          (n_of p (lTail (get (xs s) p))) (n_of (negb p) (rTail (get (xs s) p))) /\
    PInvS p (restore p (get (xs s) p)) (v_restore p (vget v p)).
Proof.
  intros HS HV HG. destruct (xrun_along_sim c ops s0 v0 (xsim_init c s0 v0 HS HV) HG) as [HX _].
  destruct (xrun_along c s0 v0 ops) as [s v]. cbn [fst snd] in *.
  destruct HX as [[SM PA] _ _ _ _].
  intros p. destruct (sm_p _ _ _ SM p) as [Fo [Fp CX]]. split.
  - apply (restore_corrx c p _ _ Fo Fp CX (ps_pi _ _ _ (PA p))).
  - apply (restore_pinvs c p _ _ Fo Fp CX (PA p)).
Qed.

(* the shapes heights_sane tests, for every reachable state: a fee update carries add = remove
   heights on each chain, an Add carries no remove heights, a settle / fail no add heights *)
Theorem entry_shapes_reachable c s0 v0 ops :
  xinit c = Some s0 -> vinit c = Some v0 -> xgood c s0 (map xerase ops) = true ->
  forall p e, In e (l_list (vl (vget (snd (xrun_along c s0 v0 ops)) p))) \/
              In e (l_list (vr (vget (snd (xrun_along c s0 v0 ops)) p))) ->
    (is_fee e = true -> e_addL e = e_rmL e /\ e_addR e = e_rmR e) /\
    (is_add e = true -> e_rmL e = 0%N /\ e_rmR e = 0%N) /\
    (is_remove e = true -> e_addL e = 0%N /\ e_addR e = 0%N).
Proof.
  intros HS HV HG p e IN. destruct (xrun_along_sim c ops s0 v0 (xsim_init c s0 v0 HS HV) HG) as [HX _].
  destruct (xrun_along c s0 v0 ops) as [s v]. cbn [fst snd] in *.
  destruct HX as [[SM PA] _ _ _ _]. destruct (sm_p _ _ _ SM p) as [Fo [Fp CX]].
  destruct IN as [IN|IN].
  - split; [apply (cx_feel _ _ _ _ _ _ CX e IN)|apply (ps_shl _ _ _ (PA p) e IN)].
  - split; [apply (cx_feer _ _ _ _ _ _ CX e IN)|apply (ps_shr _ _ _ (PA p) e IN)].
Qed.

