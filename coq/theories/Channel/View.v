(* C01view - the INCREMENTAL bookkeeping of lnwallet (update logs whose entries carry
   addCommitHeight{Local,Remote} / removeCommitHeight{Local,Remote}, evaluateHTLCView,
   compactLogs, restoreStateLogs) as an executable model for ONE party, and the
   two-party system built from it.  Definitions only (proofs: ViewProofs.v).

   Every definition is named after the Go function it mirrors (file:line of /repo).
   Conventions: heights / log indices / htlc indices are N, 0 = "unset" exactly as in
   Go; amounts are Z (msat); [whose : bool] = whoseCommitChain, true = lntypes.Local;
   [party : bool] inside evaluateHTLCView = whose update log, true = lntypes.Local.
   A commitment is the cut-level descriptor [commit] of Model.v (what the signature
   stands for) plus what lnwallet additionally keeps / persists with it. *)
From Coq Require Import List ZArith NArith Bool Arith.
From LV Require Import Channel.Model Channel.Resync.
Import ListNotations.
Local Open Scope Z_scope.

(* ---------- paymentDescriptor (payment_descriptor.go:82) ---------- *)
(* updateType (payment_descriptor.go:16): Add 0, Fail 1, MalformedFail 2, Settle 3,
   FeeUpdate 4 (NoOpAdd 5 needs aux components: not modelled) *)
Inductive etype := EAdd | EFail | EMalformedFail | ESettle | EFeeUpdate.

Definition etype_code (t : etype) : N :=
  match t with EAdd => 0 | EFail => 1 | EMalformedFail => 2 | ESettle => 3 | EFeeUpdate => 4 end%N.

Record entry := mkEntry {
  e_type : etype;
  e_log : N;        (* LogIndex *)
  e_htlc : N;       (* HtlcIndex (adds) *)
  e_parent : N;     (* ParentIndex (settle / fail) *)
  e_amt : Z;        (* Amount, msat; FeeUpdate: 1000 * fee_per_kw *)
  e_exp : Z; e_hash : Z;
  e_addL : N; e_addR : N;    (* addCommitHeights.Local / .Remote *)
  e_rmL : N; e_rmR : N       (* removeCommitHeights.Local / .Remote *)
}.

Definition is_add (e : entry) : bool := match e_type e with EAdd => true | _ => false end.
Definition is_remove (e : entry) : bool :=
  match e_type e with ESettle | EFail | EMalformedFail => true | _ => false end.
Definition is_fee (e : entry) : bool := match e_type e with EFeeUpdate => true | _ => false end.

Definition add_h (whose : bool) (e : entry) : N := if whose then e_addL e else e_addR e.
Definition rm_h (whose : bool) (e : entry) : N := if whose then e_rmL e else e_rmR e.

Definition set_add_h (whose : bool) (h : N) (e : entry) : entry :=
  if whose
  then mkEntry (e_type e) (e_log e) (e_htlc e) (e_parent e) (e_amt e) (e_exp e) (e_hash e)
               h (e_addR e) (e_rmL e) (e_rmR e)
  else mkEntry (e_type e) (e_log e) (e_htlc e) (e_parent e) (e_amt e) (e_exp e) (e_hash e)
               (e_addL e) h (e_rmL e) (e_rmR e).
Definition set_rm_h (whose : bool) (h : N) (e : entry) : entry :=
  if whose
  then mkEntry (e_type e) (e_log e) (e_htlc e) (e_parent e) (e_amt e) (e_exp e) (e_hash e)
               (e_addL e) (e_addR e) h (e_rmR e)
  else mkEntry (e_type e) (e_log e) (e_htlc e) (e_parent e) (e_amt e) (e_exp e) (e_hash e)
               (e_addL e) (e_addR e) (e_rmL e) h.
Definition set_amt (a : Z) (e : entry) : entry :=
  mkEntry (e_type e) (e_log e) (e_htlc e) (e_parent e) a (e_exp e) (e_hash e)
          (e_addL e) (e_addR e) (e_rmL e) (e_rmR e).
Definition strip (e : entry) : entry :=      (* what survives toDiskCommit / diskHtlcToPayDesc *)
  mkEntry (e_type e) (e_log e) (e_htlc e) (e_parent e) (e_amt e) (e_exp e) (e_hash e) 0 0 0 0.

(* setCommitHeight (payment_descriptor.go:306) *)
Definition setCommitHeight (whose : bool) (h : N) (e : entry) : entry :=
  match e_type e with
  | EAdd => set_add_h whose h e
  | ESettle | EFail | EMalformedFail => set_rm_h whose h e
  | EFeeUpdate => set_rm_h whose h (set_add_h whose h e)
  end.

(* ---------- updateLog (update_log.go:17) ---------- *)
Record ulog := mkLog {
  l_idx : N;              (* logIndex *)
  l_htlc : N;             (* htlcCounter *)
  l_list : list entry;    (* the list.List, front first *)
  l_mod : list N          (* modifiedHtlcs *)
}.

Definition memN (x : N) (l : list N) : bool := existsb (N.eqb x) l.

(* newUpdateLog (update_log.go:51) *)
Definition newUpdateLog (logIndex htlcCounter : N) : ulog := mkLog logIndex htlcCounter [] [].

(* lookupHtlc (update_log.go:124): htlcIndex map = the Add entry with that HtlcIndex *)
Definition lookupHtlc (u : ulog) (i : N) : option entry :=
  find (fun e => is_add e && N.eqb (e_htlc e) i) (l_list u).

(* appendHtlc (update_log.go:91) *)
Definition appendHtlc (u : ulog) (pd : entry) : ulog :=
  mkLog (l_idx u + 1)%N (l_htlc u + 1)%N (l_list u ++ [pd]) (l_mod u).
(* appendUpdate (update_log.go:77) *)
Definition appendUpdate (u : ulog) (pd : entry) : ulog :=
  mkLog (l_idx u + 1)%N (l_htlc u) (l_list u ++ [pd]) (l_mod u).
(* restoreHtlc (update_log.go:67) *)
Definition restoreHtlc (u : ulog) (pd : entry) : ulog :=
  match lookupHtlc u (e_htlc pd) with
  | Some _ => u
  | None => mkLog (l_idx u) (l_htlc u) (l_list u ++ [pd]) (l_mod u)
  end.
(* restoreUpdate (update_log.go:85) *)
Definition restoreUpdate (u : ulog) (pd : entry) : ulog :=
  mkLog (l_idx u) (l_htlc u) (l_list u ++ [pd]) (l_mod u).
(* markHtlcModified (update_log.go:161) *)
Definition markHtlcModified (u : ulog) (i : N) : ulog :=
  mkLog (l_idx u) (l_htlc u) (l_list u) (if memN i (l_mod u) then l_mod u else i :: l_mod u).

(* appendFeeUpdate (update_log.go:102): walking from the BACK, the newest FeeUpdate
   decides: not yet committed on either chain => only its Amount is replaced (no
   new entry, logIndex unchanged); else a new entry is appended.  [l] is reversed. *)
Fixpoint merge_fee_rev (l : list entry) (amt : Z) : option (list entry) :=
  match l with
  | [] => None
  | e :: r =>
    if is_fee e then
      if N.eqb (e_addL e) 0 && N.eqb (e_addR e) 0 then Some (set_amt amt e :: r) else None
    else match merge_fee_rev r amt with Some r' => Some (e :: r') | None => None end
  end.
Definition appendFeeUpdate (u : ulog) (pd : entry) : ulog :=
  match merge_fee_rev (rev (l_list u)) (e_amt pd) with
  | Some l' => mkLog (l_idx u) (l_htlc u) (rev l') (l_mod u)
  | None => appendUpdate u pd
  end.

Fixpoint remove_first (f : entry -> bool) (l : list entry) : list entry :=
  match l with
  | [] => []
  | e :: r => if f e then r else e :: remove_first f r
  end.
(* removeUpdate (update_log.go:135): updateIndex holds the non-Add entries by LogIndex *)
Definition removeUpdate (u : ulog) (i : N) : ulog :=
  mkLog (l_idx u) (l_htlc u)
        (remove_first (fun e => negb (is_add e) && N.eqb (e_log e) i) (l_list u)) (l_mod u).
(* removeHtlc (update_log.go:144) *)
Definition removeHtlc (u : ulog) (i : N) : ulog :=
  mkLog (l_idx u) (l_htlc u)
        (remove_first (fun e => is_add e && N.eqb (e_htlc e) i) (l_list u))
        (filter (fun x => negb (N.eqb x i)) (l_mod u)).

(* compactLogs (update_log.go:168).  The Go loop walks logA while deleting the
   current node: a fold over the snapshot of logA's list. *)
Definition compact_entry (localTail remoteTail : N) (st : ulog * ulog) (e : entry) : ulog * ulog :=
  let '(la, lb) := st in
  if is_add e then st                                         (* :184 *)
  else if N.eqb (e_rmR e) 0 || N.eqb (e_rmL e) 0 then st      (* :190 *)
  else if (e_rmR e <=? remoteTail)%N && (e_rmL e <=? localTail)%N then   (* :198 *)
    if is_fee e then (removeUpdate la (e_log e), lb)          (* :203 *)
    else (removeUpdate la (e_log e), removeHtlc lb (e_parent e))   (* :211 *)
  else st.
Definition compactLog (la lb : ulog) (localTail remoteTail : N) : ulog * ulog :=
  fold_left (compact_entry localTail remoteTail) (l_list la) (la, lb).
Definition compactLogs (ourLog theirLog : ulog) (localTail remoteTail : N) : ulog * ulog :=
  let '(o1, t1) := compactLog ourLog theirLog localTail remoteTail in
  let '(t2, o2) := compactLog t1 o1 localTail remoteTail in
  (o2, t2).

(* ---------- views ---------- *)
(* fetchHTLCView (channel.go:2817), one log *)
Definition fetchHTLCView1 (u : ulog) (idx : N) : list entry :=
  filter (fun e => (e_log e <? idx)%N) (l_list u).

(* fetchParent (channel.go:3209): looked up in the FULL log, not in the view *)
Definition fetchParent (ll lr : ulog) (e : entry) (whose whoseLog : bool) : option entry :=
  match lookupHtlc (if whoseLog then ll else lr) (e_parent e) with
  | None => None                                               (* :3233 *)
  | Some a => if N.eqb (add_h whose a) 0 then None else Some a (* :3242 *)
  end.

Definition add_delta (party : bool) (d : Z * Z) (x : Z) : Z * Z :=
  if party then (fst d + x, snd d) else (fst d, snd d + x).

(* evaluateHTLCView first pass for one party (channel.go:3051-3127): returns the skip
   set of the COUNTERPARTY's adds and the balance deltas (Local, Remote) *)
Fixpoint eval_removes (ll lr : ulog) (whose party : bool) (res : list entry)
         (skip : list N) (d : Z * Z) : option (list N * (Z * Z)) :=
  match res with
  | [] => Some (skip, d)
  | e :: r =>
    match fetchParent ll lr e whose (negb party) with
    | None => None
    | Some a =>
      let d' :=
        if N.eqb (rm_h whose e) 0 then                         (* :3081 *)
          match e_type e with
          | ESettle => add_delta party d (e_amt e)             (* :3104 *)
          | _ => add_delta (negb party) d (e_amt e)            (* :3116 *)
          end
        else d in
      eval_removes ll lr whose party r (e_htlc a :: skip) d'
    end
  end.

(* second pass (channel.go:3132-3168) *)
Definition live_of (skip : list N) (v : list entry) : list entry :=
  filter (fun e => is_add e && negb (memN (e_htlc e) skip)) v.
Definition eval_adds (whose party : bool) (live : list entry) (d : Z * Z) : Z * Z :=
  fold_left (fun d e => if N.eqb (add_h whose e) 0 then add_delta party d (- e_amt e) else d)
            live d.

Fixpoint last_opt {A} (l : list A) : option A :=
  match l with [] => None | [x] => Some x | _ :: r => last_opt r end.

(* evaluateHTLCView (channel.go:3013).  vo / vt = view.Updates.Local / .Remote,
   [init_local] = the local party is the channel initiator, rate0 = view.FeePerKw.
   Result: (fee rate, live local adds, live remote adds, (delta Local, delta Remote)). *)
Definition evaluateHTLCView (ll lr : ulog) (vo vt : list entry) (whose init_local : bool)
           (rate0 : Z) : option (Z * list entry * list entry * (Z * Z)) :=
  let rate := match last_opt (filter is_fee (if init_local then vo else vt)) with   (* :3028 *)
              | Some pd => e_amt pd / 1000
              | None => rate0
              end in
  match eval_removes ll lr whose true (filter is_remove vo) [] (0, 0) with
  | None => None
  | Some (skipRemote, d1) =>
    match eval_removes ll lr whose false (filter is_remove vt) [] d1 with
    | None => None
    | Some (skipLocal, d2) =>
      let liveO := live_of skipLocal vo in
      let liveT := live_of skipRemote vt in
      Some (rate, liveO, liveT, eval_adds whose false liveT (eval_adds whose true liveO d2))
    end
  end.

(* isUncommitted (channel.go:3173) *)
Definition isUncommitted (whose : bool) (e : entry) : bool :=
  match e_type e with
  | EAdd | EFeeUpdate => N.eqb (add_h whose e) 0
  | ESettle | EFail | EMalformedFail => N.eqb (rm_h whose e) 0
  end.

(* computeView's updateState loop (channel.go:4881): every uncommitted entry OF THE VIEW
   gets setCommitHeight(whose, nextHeight); the view holds pointers into the log *)
Definition mark_log (whose : bool) (h idx : N) (u : ulog) : ulog :=
  mkLog (l_idx u) (l_htlc u)
        (map (fun e => if (e_log e <? idx)%N && isUncommitted whose e
                       then setCommitHeight whose h e else e) (l_list u))
        (l_mod u).

(* ---------- commitments ---------- *)
Record vcommit := mkVC {
  vk : commit;                 (* heights, messageIndices (the cut), balances, fee, rate, HTLCs *)
  v_ourh : N; v_theirh : N;    (* ourHtlcIndex / theirHtlcIndex *)
  v_out : list entry;          (* outgoingHTLCs, as persisted (heights stripped) *)
  v_in : list entry            (* incomingHTLCs *)
}.

Definition bal_of (p : bool) (k : commit) : Z := if p then c_balA k else c_balB k.
Definition idx_of (p : bool) (k : commit) : N := N.of_nat (n_of p k).

Definition addent_of (e : entry) : addent :=
  mkAdd (N.to_nat (e_htlc e)) (e_amt e) (e_exp e) (e_hash e).
Fixpoint insert_add (x : addent) (l : list addent) : list addent :=
  match l with
  | [] => [x]
  | y :: r => if Nat.leb (a_idx x) (a_idx y) then x :: l else y :: insert_add x r
  end.
Definition sort_adds (l : list addent) : list addent := fold_right insert_add [] l.

(* createUnsignedCommitmentTx (commitment.go:715) on gross balances, fee rate and the
   live adds of A / B: literally the tail of Model.commit_of *)
Definition finish_commit (c : cfg) (owner : bool) (height : Z) (nA nB : nat)
           (grossA grossB rate : Z) (liveA liveB : list addent) : option commit :=
  let hs := mk_htlcs c owner true rate liveA ++ mk_htlcs c owner false rate liveB in
  let n := count_ontx hs in
  let fee := fee_for_weight rate (commit_weight c + htlc_weight c * n) in
  let grossO := if opener c then grossA else grossB in
  if (grossA <? 0) || (grossB <? 0) || negb (fee * 1000 <? grossO) then None else
  let balA := if opener c then grossA - fee * 1000 else grossA in
  let balB := if opener c then grossB else grossB - fee * 1000 in
  let d := dust_sat (side c owner) in
  let own_sat := (if owner then balA else balB) / 1000 in
  let oth_sat := (if owner then balB else balA) / 1000 in
  let own_out := d <=? own_sat in
  let oth_out := d <=? oth_sat in
  let anc1 := anchors c && (own_out || (0 <? n)) in
  let anc2 := anchors c && (oth_out || (0 <? n)) in
  let outs := (if own_out then own_sat else 0) + (if oth_out then oth_sat else 0)
              + (if anc1 then anchor_size c else 0) + (if anc2 then anchor_size c else 0)
              + sum_ontx_sat hs in
  let nout := (if own_out then 1 else 0) + (if oth_out then 1 else 0)
              + (if anc1 then 1 else 0) + (if anc2 then 1 else 0) + n in
  Some (mkCommit owner height nA nB balA balB fee rate hs outs nout).

(* ---------- persisted log updates (channeldb.LogUpdate) ---------- *)
Inductive lmsg :=
| LAdd (id : N) (amt exp hash : Z) | LSettle (id : N) | LFail (id : N) | LMalformed (id : N)
| LFee (rate : Z).
Definition logupd := (N * lmsg)%type.

(* toLogUpdate (payment_descriptor.go:255) *)
Definition toLogUpdate (e : entry) : logupd :=
  (e_log e,
   match e_type e with
   | EAdd => LAdd (e_htlc e) (e_amt e) (e_exp e) (e_hash e)
   | ESettle => LSettle (e_parent e)
   | EFail => LFail (e_parent e)
   | EMalformedFail => LMalformed (e_parent e)
   | EFeeUpdate => LFee (e_amt e / 1000)
   end).

Definition upd_of_logupd (u : logupd) : upd :=
  match snd u with
  | LAdd _ a e h => UAdd a e h
  | LSettle i => USettle (N.to_nat i)
  | LFail i | LMalformed i => UFail (N.to_nat i)
  | LFee r => UFee r
  end.

(* ---------- one party ---------- *)
Record vparty := mkVP {
  vl : ulog; vr : ulog;                           (* updateLogs.Local / .Remote *)
  v_ltail : vcommit; v_ltip : option vcommit;     (* commitChains.Local *)
  v_rtail : vcommit; v_rtip : option vcommit;     (* commitChains.Remote *)
  (* channel DB (besides the commitments, which equal v_ltail / v_rtail / v_rtip) *)
  d_diff : list logupd;              (* CommitDiff.LogUpdates of the pending remote commitment *)
  d_unsigned_acked : list logupd;    (* unsignedAckedUpdatesKey *)
  d_remote_unsigned : list logupd    (* remoteUnsignedLocalUpdatesKey *)
}.

Definition vtip (t : vcommit) (o : option vcommit) : vcommit :=
  match o with Some k => k | None => t end.

(* computeView (channel.go:4818) with updateState = true, without the marking.
   The marking happens in Go BEFORE the negative-balance check; a failing call is
   preceded by validateCommitmentSanity (same view, no marking) which already
   refuses, so "no marking on failure" is what callers observe. *)
Definition computeView (c : cfg) (p : bool) (ll lr : ulog) (tip : commit) (whose : bool)
           (ourIdx theirIdx : N) : option (Z * Z * Z * list entry * list entry) :=
  let is_init := Bool.eqb p (opener c) in
  let our0 := bal_of p tip + (if is_init then 1000 * c_fee tip else 0) in          (* :4840 *)
  let their0 := bal_of (negb p) tip + (if is_init then 0 else 1000 * c_fee tip) in
  match evaluateHTLCView ll lr (fetchHTLCView1 ll ourIdx) (fetchHTLCView1 lr theirIdx)
                         whose is_init (c_rate tip) with
  | None => None
  | Some (rate, liveO, liveT, (dl, dr)) =>
    let ours := our0 + dl in
    let theirs := their0 + dr in
    if (ours <? 0) || (theirs <? 0) then None else Some (ours, theirs, rate, liveO, liveT)
  end.

(* fetchCommitmentView (channel.go:2858): (new commitment, marked local log, marked remote log) *)
Definition fetchCommitmentView (c : cfg) (p : bool) (x : vparty) (whose : bool)
           (ourIdx ourHtlc theirIdx theirHtlc : N) : option (vcommit * ulog * ulog) :=
  let tip := vk (if whose then vtip (v_ltail x) (v_ltip x) else vtip (v_rtail x) (v_rtip x)) in
  let h := c_h tip + 1 in
  match computeView c p (vl x) (vr x) tip whose ourIdx theirIdx with
  | None => None
  | Some (ours, theirs, rate, liveO, liveT) =>
    let owner := if whose then p else negb p in
    let nA := N.to_nat (if p then ourIdx else theirIdx) in
    let nB := N.to_nat (if p then theirIdx else ourIdx) in
    let grossA := if p then ours else theirs in
    let grossB := if p then theirs else ours in
    let liveA := sort_adds (map addent_of (if p then liveO else liveT)) in
    let liveB := sort_adds (map addent_of (if p then liveT else liveO)) in
    match finish_commit c owner h nA nB grossA grossB rate liveA liveB with
    | None => None
    | Some k =>
      Some (mkVC k ourHtlc theirHtlc (map strip liveO) (map strip liveT),
            mark_log whose (Z.to_N h) ourIdx (vl x),
            mark_log whose (Z.to_N h) theirIdx (vr x))
    end
  end.

(* ---------- update creation ---------- *)
Definition new_entry (t : etype) (log htlc parent : N) (amt exp hash : Z) : entry :=
  mkEntry t log htlc parent amt exp hash 0 0 0 0.

Definition with_logs (x : vparty) (l r : ulog) : vparty :=
  mkVP l r (v_ltail x) (v_ltip x) (v_rtail x) (v_rtip x)
       (d_diff x) (d_unsigned_acked x) (d_remote_unsigned x).

(* AddHTLC (channel.go:6196) / SettleHTLC (:6513) / FailHTLC (:6626) / MalformedFailHTLC
   (:6677) / UpdateFee (:9415).  The accept/reject decisions of validateAddHtlc and
   validateFeeRate are taken from the implementation (trace TSkip), as in Model.v. *)
Definition v_send (c : cfg) (p : bool) (x : vparty) (u : upd) (malformed : bool) : option vparty :=
  match u with
  | UAdd a e h =>
    if 0 <? a then
      Some (with_logs x (appendHtlc (vl x) (new_entry EAdd (l_idx (vl x)) (l_htlc (vl x)) 0 a e h))
                      (vr x))
    else None
  | USettle i | UFail i =>
    let i := N.of_nat i in
    match lookupHtlc (vr x) i with
    | None => None                                        (* ErrUnknownHtlcIndex *)
    | Some h =>
      if memN i (l_mod (vr x)) then None                  (* htlcHasModification *)
      else
        let t := match u with USettle _ => ESettle
                         | _ => if malformed then EMalformedFail else EFail end in
        Some (with_logs x
                (appendUpdate (vl x) (new_entry t (l_idx (vl x)) 0 i (e_amt h) 0
                                                (match u with USettle _ => 0 | _ => e_hash h end)))
                (markHtlcModified (vr x) i))
    end
  | UFee r =>
    if Bool.eqb p (opener c) && (0 <=? r) then
      Some (with_logs x (appendFeeUpdate (vl x) (new_entry EFeeUpdate (l_idx (vl x)) 0 0 (r * 1000) 0 0))
                      (vr x))
    else None
  end.

(* ReceiveHTLC (channel.go:6438) / ReceiveHTLCSettle (:6562) / ReceiveFailHTLC (:6721, also
   used by the link for update_fail_malformed_htlc) / ReceiveUpdateFee (:9492) *)
Definition v_recv_upd (c : cfg) (p : bool) (x : vparty) (u : upd) : option vparty :=
  match u with
  | UAdd a e h =>
    Some (with_logs x (vl x)
            (appendHtlc (vr x) (new_entry EAdd (l_idx (vr x)) (l_htlc (vr x)) 0 a e h)))
  | USettle i | UFail i =>
    let i := N.of_nat i in
    match lookupHtlc (vl x) i with
    | None => None
    | Some h =>
      if memN i (l_mod (vl x)) then None
      else
        let t := match u with USettle _ => ESettle | _ => EFail end in
        Some (with_logs x (markHtlcModified (vl x) i)
                (appendUpdate (vr x) (new_entry t (l_idx (vr x)) 0 (e_htlc h) (e_amt h) 0 (e_hash h))))
    end
  | UFee r =>
    if Bool.eqb p (opener c) then None       (* "received fee update as initiator" *)
    else Some (with_logs x (vl x)
                 (appendFeeUpdate (vr x) (new_entry EFeeUpdate (l_idx (vr x)) 0 0 (r * 1000) 0 0)))
  end.

(* ---------- the commitment dance ---------- *)
(* SignNextCommitment (channel.go:4126) + createCommitDiff (:3563) *)
Definition v_sign (c : cfg) (p : bool) (x : vparty) : res * vparty * option msg :=
  match v_rtip x with
  | Some _ => (ErrNoWindow, x, None)                                     (* :4152 *)
  | None =>
    let lt := v_ltail x in
    match fetchCommitmentView c p x false (l_idx (vl x)) (l_htlc (vl x))
                              (idx_of (negb p) (vk lt)) (v_theirh lt) with   (* :4192 *)
    | None => (ErrSanity, x, None)
    | Some (k, l', r') =>
      let h := Z.to_N (c_h (vk k)) in
      let diff := map toLogUpdate
                      (filter (fun e => N.eqb (e_addR e) h || N.eqb (e_rmR e) h) (l_list l')) in  (* :3585 *)
      (Ok, mkVP l' r' (v_ltail x) (v_ltip x) (v_rtail x) (Some k)
                diff (d_unsigned_acked x) (d_remote_unsigned x),
       Some (MSig (vk k)))
    end
  end.

(* ReceiveNewCommitment (channel.go:5364): the signature verifies iff the locally built
   descriptor is the signed one.  The height marking of fetchCommitmentView (:5419)
   precedes the verification and is NOT undone on an invalid signature. *)
Definition v_recv_sig (c : cfg) (p : bool) (x : vparty) (k : commit) : res * vparty :=
  let rt := v_rtail x in
  match fetchCommitmentView c p x true (idx_of p (vk rt)) (v_ourh rt)
                            (l_idx (vr x)) (l_htlc (vr x)) with
  | None => (ErrSanity, x)
  | Some (k', l', r') =>
    if commit_eqb (vk k') k
    then (Ok, mkVP l' r' (v_ltail x) (Some k') (v_rtail x) (v_rtip x)
                   (d_diff x) (d_unsigned_acked x) (d_remote_unsigned x))
    else (ErrSigInvalid, with_logs x l' r')
  end.

(* getUnsignedAckedUpdates (channel.go:3703) *)
Definition getUnsignedAckedUpdates (r : ulog) (lastRemoteCommitted lastLocalCommitted : N)
  : list logupd :=
  map toLogUpdate
      (filter (fun e => negb (e_log e <? lastRemoteCommitted)%N && (e_log e <? lastLocalCommitted)%N)
              (l_list r)).

(* RevokeCurrentCommitment (channel.go:5787) + UpdateChannelCommitment (channeldb/channel.go:1569) *)
Definition v_revoke (p : bool) (x : vparty) : res * vparty * option msg :=
  match v_ltip x with
  | None => (ErrNothing, x, None)
  | Some k =>
    let acked := getUnsignedAckedUpdates (vr x) (idx_of (negb p) (vk (v_rtail x)))
                                         (idx_of (negb p) (vk k)) in
    let keep := filter (fun u => negb (fst u <? idx_of p (vk k))%N) (d_remote_unsigned x) in  (* :1665 *)
    (Ok, mkVP (vl x) (vr x) k None (v_rtail x) (v_rtip x) (d_diff x) acked keep, Some MRev)
  end.

(* unsignedLocalUpdates (channel.go:10194) *)
Definition unsignedLocalUpdates (l : ulog) (remoteMessageIndex localMessageIndex : N) : list logupd :=
  map toLogUpdate
      (filter (fun e => negb (is_add e) && (e_log e <? remoteMessageIndex)%N
                        && negb (e_log e <? localMessageIndex)%N) (l_list l)).

(* ReceiveRevocation (channel.go:5889) + AdvanceCommitChainTail (channeldb/channel.go:2317);
   forwarding packages are out of scope.  NOTE: in this lnd version ReceiveRevocation
   marks no heights; it only reads them, then compacts. *)
Definition v_recv_rev (p : bool) (x : vparty) : res * vparty :=
  match v_rtip x with
  | None => (ErrNothing, x)
  | Some k =>
    let remoteChainTail := Z.to_N (c_h (vk (v_rtail x)) + 1) in          (* :5929 *)
    let localChainTail := Z.to_N (c_h (vk (v_ltail x))) in
    let peerUpd := unsignedLocalUpdates (vl x) (idx_of p (vk k))
                                        (idx_of p (vk (v_ltail x))) in   (* :6034 *)
    let acked := filter (fun u => negb (fst u <? idx_of (negb p) (vk k))%N)
                        (d_unsigned_acked x) in                          (* :2432 *)
    let '(l', r') := compactLogs (vl x) (vr x) localChainTail remoteChainTail in   (* :6100 *)
    (Ok, mkVP l' r' (v_ltail x) (v_ltip x) k None [] acked peerUpd)
  end.

(* ---------- restart: NewLightningChannel (channel.go:954) ---------- *)
(* map[uint64]uint64 writes in order; lookup = the LAST write, default 0 *)
Definition hmap := list (N * N).
Definition hput (m : hmap) (k v : N) : hmap := (k, v) :: m.
Fixpoint hget (m : hmap) (k : N) : N :=
  match m with [] => 0%N | (k', v) :: r => if N.eqb k k' then v else hget r k end.

Definition resolved_id (u : logupd) : option N :=
  match snd u with LSettle i | LFail i | LMalformed i => Some i | _ => None end.

Definition amt_of (u : ulog) (i : N) : Z * Z :=
  match lookupHtlc u i with Some h => (e_amt h, e_hash h) | None => (0, 0) end.

(* logUpdateToPayDesc (channel.go:1117), localLogUpdateToPayDesc (:1278): heights on the
   REMOTE chain; remoteLogUpdateToPayDesc (:1373): on the LOCAL chain *)
Definition payDesc_of (whose : bool) (other : ulog) (h : N) (u : logupd) : entry :=
  let e :=
    match snd u with
    | LAdd id a ex hs => new_entry EAdd (fst u) id 0 a ex hs
    | LSettle i => new_entry ESettle (fst u) 0 i (fst (amt_of other i)) 0 (snd (amt_of other i))
    | LFail i => new_entry EFail (fst u) 0 i (fst (amt_of other i)) 0 (snd (amt_of other i))
    | LMalformed i => new_entry EMalformedFail (fst u) 0 i (fst (amt_of other i)) 0 (snd (amt_of other i))
    | LFee r => new_entry EFeeUpdate (fst u) 0 0 (r * 1000) 0 0
    end in
  setCommitHeight whose h e.

(* restorePeerLocalUpdates (channel.go:1851) *)
Definition restorePeerLocalUpdates (l r : ulog) (updates : list logupd) (remoteH : N) : ulog * ulog :=
  fold_left (fun '(l, r) u =>
               let pd := payDesc_of false r remoteH u in
               (restoreUpdate l pd, if is_fee pd then r else markHtlcModified r (e_parent pd)))
            updates (l, r).

(* restorePendingLocalUpdates (channel.go:1885) *)
Definition restorePendingLocalUpdates (l r : ulog) (diff : list logupd) (pendingH : N) : ulog * ulog :=
  fold_left (fun '(l, r) u =>
               let pd := payDesc_of false r pendingH u in
               match e_type pd with
               | EAdd => (appendHtlc l pd, r)
               | EFeeUpdate => (appendUpdate l pd, r)
               | _ => (appendUpdate l pd, markHtlcModified r (e_parent pd))
               end)
            diff (l, r).

(* restorePendingRemoteUpdates (channel.go:1770) *)
Definition restorePendingRemoteUpdates (l r : ulog) (acked : list logupd) (localH : N)
           (pending : option (N * N))   (* (height, messageIndices.Remote) of the pending commit *)
  : ulog * ulog :=
  fold_left (fun '(l, r) u =>
               let pd := payDesc_of true l localH u in
               if is_add pd then (l, r)                                        (* :1801 *)
               else
                 let pd' := match pending with
                            | Some (ph, pidx) =>
                              if (e_log pd <? pidx)%N then setCommitHeight false ph pd else pd   (* :1815 *)
                            | None => pd
                            end in
                 if is_fee pd' then (l, restoreUpdate r pd')
                 else (markHtlcModified l (e_parent pd'), restoreUpdate r pd'))
            acked (l, r).

(* restoreStateLogs (channel.go:1611) *)
Definition restoreStateLogs (p : bool) (l r : ulog) (lc rc : vcommit) (pc : option vcommit)
           (diff acked peer_unsigned : list logupd) : ulog * ulog :=
  let lh := Z.to_N (c_h (vk lc)) in
  let rh := Z.to_N (c_h (vk rc)) in
  let inc0 := match pc with
              | Some k => fold_left (fun m e => hput m (e_htlc e) (Z.to_N (c_h (vk k)))) (v_in k) []
              | None => [] end in                                                    (* :1629 *)
  let inc1 := fold_left (fun m e => hput m (e_htlc e) rh) (v_in rc) inc0 in         (* :1638 *)
  let out1 := fold_left (fun m e => hput m (e_htlc e) lh) (v_out lc) [] in          (* :1643 *)
  let out2 := fold_left (fun m u => match resolved_id u with Some i => hput m i lh | None => m end)
                        acked out1 in                                                (* :1654 *)
  let inc2 := fold_left (fun m u => match resolved_id u with Some i => hput m i rh | None => m end)
                        peer_unsigned inc1 in                                        (* :1681 *)
  let r1 := fold_left (fun r e => restoreHtlc r (set_add_h false (hget inc2 (e_htlc e))
                                                           (set_add_h true lh e)))
                      (v_in lc) r in                                                 (* :1704 *)
  let l1 := fold_left (fun l e => restoreHtlc l (set_add_h true (hget out2 (e_htlc e))
                                                           (set_add_h false rh e)))
                      (v_out rc) l in                                                (* :1723 *)
  let '(l2, r2) := restorePeerLocalUpdates l1 r1 peer_unsigned rh in                 (* :1742 *)
  let '(l3, r3) := match pc with
                   | Some k => restorePendingLocalUpdates l2 r2 diff (Z.to_N (c_h (vk k)))
                   | None => (l2, r2) end in                                         (* :1751 *)
  restorePendingRemoteUpdates l3 r3 acked lh
    (match pc with Some k => Some (Z.to_N (c_h (vk k)), idx_of (negb p) (vk k)) | None => None end).

(* NewLightningChannel (channel.go:954) from the persisted state of x: the received but
   unrevoked local commitment and the unsigned log suffixes are memory only *)
Definition v_restore (p : bool) (x : vparty) : vparty :=
  let lc := v_ltail x in
  let rc := v_rtail x in
  let l0 := newUpdateLog (idx_of p (vk rc)) (v_ourh rc) in                 (* :968 *)
  let r0 := newUpdateLog (idx_of (negb p) (vk lc)) (v_theirh lc) in        (* :971 *)
  let '(l', r') := restoreStateLogs p l0 r0 lc rc (v_rtip x) (d_diff x)
                                    (d_unsigned_acked x) (d_remote_unsigned x) in
  mkVP l' r' lc None rc (v_rtip x) (d_diff x) (d_unsigned_acked x) (d_remote_unsigned x).

(* ---------- two parties ---------- *)
Record vsys := mkVS {
  vA : vparty; vB : vparty;
  vqAB : list msg; vqBA : list msg;
  vlwrA : bool; vlwrB : bool       (* persisted LastWasRevoke *)
}.

Definition vget (s : vsys) (p : bool) : vparty := if p then vA s else vB s.
Definition vset (s : vsys) (p : bool) (x : vparty) : vsys :=
  if p then mkVS x (vB s) (vqAB s) (vqBA s) (vlwrA s) (vlwrB s)
  else mkVS (vA s) x (vqAB s) (vqBA s) (vlwrA s) (vlwrB s).
Definition voutq (s : vsys) (p : bool) : list msg := if p then vqAB s else vqBA s.
Definition vset_outq (s : vsys) (p : bool) (q : list msg) : vsys :=
  if p then mkVS (vA s) (vB s) q (vqBA s) (vlwrA s) (vlwrB s)
  else mkVS (vA s) (vB s) (vqAB s) q (vlwrA s) (vlwrB s).
Definition vset_lwr (s : vsys) (p : bool) (v : bool) : vsys :=
  if p then mkVS (vA s) (vB s) (vqAB s) (vqBA s) v (vlwrB s)
  else mkVS (vA s) (vB s) (vqAB s) (vqBA s) (vlwrA s) v.
Definition vlwr (s : vsys) (p : bool) : bool := if p then vlwrA s else vlwrB s.

Definition vinit_commit (c : cfg) (owner : bool) : option vcommit :=
  match init_commit c owner with Some k => Some (mkVC k 0 0 [] []) | None => None end.
Definition vinit_party (c : cfg) (p : bool) : option vparty :=
  match vinit_commit c p, vinit_commit c (negb p) with
  | Some l, Some r => Some (mkVP (newUpdateLog 0 0) (newUpdateLog 0 0) l None r None [] [] [])
  | _, _ => None
  end.
Definition vinit (c : cfg) : option vsys :=
  match vinit_party c true, vinit_party c false with
  | Some a, Some b => Some (mkVS a b [] [] false false)
  | _, _ => None
  end.

(* the schedule language of Model.v plus the one distinction the logs keep and the
   cut-level model does not: update_fail_malformed_htlc *)
Inductive vop := VOp (o : op) | VMalformed (p : bool) (i : nat).
Definition erase (o : vop) : op :=
  match o with VOp o => o | VMalformed p i => OSend p (UFail i) end.

Definition vstep (c : cfg) (s : vsys) (o : vop) : res * vsys :=
  let send p u mal :=
    match v_send c p (vget s p) u mal with
    | Some x' => (Ok, vset_outq (vset s p x') p (voutq s p ++ [MUpd u]))
    | None => (ErrDisabled, s)
    end in
  match o with
  | VMalformed p i => send p (UFail i) true
  | VOp (OSend p u) => send p u false
  | VOp (OSign p) =>
    match v_sign c p (vget s p) with
    | (Ok, x', Some m) => (Ok, vset_lwr (vset_outq (vset s p x') p (voutq s p ++ [m])) p false)
    | (r, _, _) => (r, s)
    end
  | VOp (ORevoke p) =>
    match v_revoke p (vget s p) with
    | (Ok, x', Some m) => (Ok, vset_lwr (vset_outq (vset s p x') p (voutq s p ++ [m])) p true)
    | (r, _, _) => (r, s)
    end
  | VOp (ODeliver p) =>
    match voutq s (negb p) with
    | [] => (ErrNothing, s)
    | m :: q =>
      let x := vget s p in
      match m with
      | MUpd u =>
        match v_recv_upd c p x u with
        | Some x' => (Ok, vset_outq (vset s p x') (negb p) q)
        | None => (ErrDisabled, s)
        end
      | MSig k =>
        match v_recv_sig c p x k with
        | (Ok, x') => (Ok, vset_outq (vset s p x') (negb p) q)
        | (r, x') => (r, vset s p x')
        end
      | MRev =>
        match v_recv_rev p x with
        | (Ok, x') => (Ok, vset_outq (vset s p x') (negb p) q)
        | (r, _) => (r, s)
        end
      end
    end
  end.

Definition vrun (c : cfg) (s : vsys) (ops : list vop) : vsys :=
  fold_left (fun s o => snd (vstep c s o)) ops s.

(* ---------- reconnect (Resync.v over the incremental machine) ---------- *)
Definition v_sync_msg (x : vparty) : Z * Z :=
  (c_h (vk (v_ltail x)) + 1, c_h (vk (v_rtail x))).

(* oweCommitment(Local) (channel.go:5714) *)
Definition v_owes_commit (p : bool) (x : vparty) : bool :=
  let lt := vk (vtip (v_ltail x) (v_ltip x)) in
  let rt := vk (vtip (v_rtail x) (v_rtip x)) in
  negb (N.eqb (l_idx (vl x)) (idx_of p rt))
  || negb (Nat.eqb (n_of (negb p) lt) (n_of (negb p) rt)).

(* ProcessChanSyncMsg (channel.go:4418), same two ladders as Resync.process_sync *)
Definition v_process_sync (c : cfg) (p : bool) (x : vparty) (last_was_revoke : bool)
           (next rtail : Z) : sres * vparty * list msg * bool :=
  let local_tail_h := c_h (vk (v_ltail x)) in
  let remote_tail_h := c_h (vk (v_rtail x)) in
  let remote_tip_h := c_h (vk (vtip (v_rtail x) (v_rtip x))) in
  let l1 : (vparty * list msg * bool) + sres :=
    if local_tail_h <? rtail then inr SErrSync
    else if rtail + 1 <? local_tail_h then inr SErrSync
    else if rtail =? local_tail_h then inl (x, [], false)
    else
      if v_owes_commit p x then
        match v_sign c p x with
        | (Ok, x', Some m) => inl (x', [MRev; m], true)
        | (ErrNoWindow, _, _) => inl (x, [MRev], false)
        | _ => inr SErrSign
        end
      else inl (x, [MRev], false)
  in
  match l1 with
  | inr e => (e, x, [], false)
  | inl (x1, ups, signed) =>
    if remote_tip_h + 1 <? next then (SErrSync, x, [], false)
    else if next <=? remote_tail_h then (SErrSync, x, [], false)
    else if next =? remote_tip_h + 1 then (SOk, x1, ups, signed)
    else if next =? remote_tip_h then
      match v_rtip x with
      | None => (SErrSync, x, [], false)
      | Some k =>
        let cu := map (fun u => MUpd (upd_of_logupd u)) (d_diff x) ++ [MSig (vk k)] in
        (SOk, x1, (if last_was_revoke then cu ++ ups else ups ++ cu), signed)
      end
    else (SErrSync, x, [], false)
  end.

Fixpoint vdeliver_n (c : cfg) (s : vsys) (p : bool) (n : nat) : vsys :=
  match n with
  | O => s
  | S n' => vdeliver_n c (snd (vstep c s (VOp (ODeliver p)))) p n'
  end.

Inductive vxop := VXOp (o : vop) | VXCut (ka kb : nat).

Definition vxstep (c : cfg) (s : vsys) (o : vxop) : res * vsys :=
  match o with
  | VXOp o => vstep c s o
  | VXCut ka kb =>
    let s1 := vdeliver_n c (vdeliver_n c s true ka) false kb in
    let a := v_restore true (vA s1) in
    let b := v_restore false (vB s1) in
    let '(nextA, rtailA) := v_sync_msg a in
    let '(nextB, rtailB) := v_sync_msg b in
    let '(ra, a', outA, sa) := v_process_sync c true a (vlwrA s) nextB rtailB in
    let '(rb, b', outB, sb) := v_process_sync c false b (vlwrB s) nextA rtailA in
    match ra, rb with
    | SOk, SOk =>
      (Ok, mkVS a' b' outA outB (if sa then false else vlwrA s) (if sb then false else vlwrB s))
    | SErrSync, _ | _, SErrSync => (ErrSync, mkVS a b [] [] (vlwrA s) (vlwrB s))
    | _, _ => (ErrSanity, mkVS a b [] [] (vlwrA s) (vlwrB s))
    end
  end.

Definition vxrun (c : cfg) (s : vsys) (ops : list vxop) : vsys :=
  fold_left (fun s o => snd (vxstep c s o)) ops s.

(* ---------- projection to the cut-level model ---------- *)
(* the party of Model.v this incremental party stands for, given the global logs *)
Definition commits_view (x : vparty) : commit * option commit * commit * option commit :=
  (vk (v_ltail x), option_map vk (v_ltip x), vk (v_rtail x), option_map vk (v_rtip x)).

(* ---------- running alongside the cut-level model ---------- *)
(* the incremental machine is stepped exactly when the cut model ACCEPTS the op (the link
   discipline "settle / fail only locked-in HTLCs" is an enabledness condition of Model.v
   that lnwallet itself does not enforce) *)
Fixpoint run_along (c : cfg) (s : sys) (v : vsys) (ops : list vop) : sys * vsys :=
  match ops with
  | [] => (s, v)
  | o :: r =>
    let '(rs, s') := step c s (erase o) in
    match rs with
    | Ok => run_along c s' (snd (vstep c v o)) r
    | _ => run_along c s' v r
    end
  end.

Definition vopt_commit_eqb (a b : option commit) : bool :=
  match a, b with
  | None, None => true
  | Some x, Some y => commit_eqb x y
  | _, _ => false
  end.

(* decidable "the incremental state v stands for the cut-level state s" on what the
   properties speak about: all eight commitments, log counters, queue lengths *)
Definition refinesb (s : sys) (v : vsys) : bool :=
  let one (x : party) (y : vparty) :=
    commit_eqb (vk (v_ltail y)) (lTail x) && vopt_commit_eqb (option_map vk (v_ltip y)) (lTip x)
    && commit_eqb (vk (v_rtail y)) (rTail x) && vopt_commit_eqb (option_map vk (v_rtip y)) (rTip x)
    && N.eqb (l_idx (vl y)) (N.of_nat (length (own x)))
    && N.eqb (l_idx (vr y)) (N.of_nat (length (peer x))) in
  one (pA s) (vA v) && one (pB s) (vB v)
  && Nat.eqb (length (qAB s)) (length (vqAB v)) && Nat.eqb (length (qBA s)) (length (vqBA v)).
