(* Trace checker for the channel model: replays the schedule the Go harness
   executed on the real LightningChannel pair and compares, after every step,
   the model's four commitments and log counters of both parties with the
   dumps of the implementation. *)
From Coq Require Import List ZArith NArith Bool Arith.
From LV Require Import Channel.Model Channel.Resync.
Import ListNotations.
Local Open Scope Z_scope.

Record obs := mkObs {
  o_ltail : commit; o_ltip : option commit;
  o_rtail : commit; o_rtip : option commit;
  o_own : nat; o_peer : nat
}.

(* the call a node died in: a state-machine op of p, or the ProcessChanSyncMsg of a
   restart (nothing delivered before it; the peer's ProcessChanSyncMsg completes) *)
Inductive crashcall := CCOp (o : op) | CCSync.

Inductive tstep :=
| TOp (o : op) (expect : res)    (* model result must be [expect]; state compared afterwards *)
| TSkip                          (* implementation refused for a reason outside the model: state unchanged *)
| TReload (p : bool) (r : obs)   (* pure observation: p's state re-opened from disk *)
| TCut (ka kb : nat) (kindsA kindsB : list N)   (* disconnect + resync; kinds of the messages A / B retransmit *)
| TCrashIn (o : crashcall) (p : bool) (r : obs) (kindsA kindsB : list N).
    (* WRITE-LEVEL crash: p's node died somewhere inside its call [o]; r = p's state re-opened
       from disk; then everything in flight is lost and both sides restart + resync (= XCut 0 0).
       Accepted iff r and what follows agree with the call NOT having happened or with the call
       having COMPLETED; the replay continues from the matching model state. *)

Definition kind_of (m : msg) : N :=
  match m with
  | MUpd (UAdd _ _ _) => 1 | MUpd (USettle _) => 2 | MUpd (UFail _) => 3
  | MUpd (UFee _) => 4 | MSig _ => 5 | MRev => 6
  end%N.

Fixpoint kinds_eqb (a b : list N) : bool :=
  match a, b with
  | [], [] => true
  | x :: r, y :: r' => N.eqb x y && kinds_eqb r r'
  | _, _ => false
  end.

(* model commitment vs observed one.  The height-0 commitments are made by the
   test fixture (CreateTestChannels), not by the state machine under test, and
   their transactions carry the pre-fee balances: outs / n_out are not compared
   for them. *)
Definition ocommit_eqb (m o : commit) : bool :=
  if c_h o =? 0 then
    commit_eqb m (mkCommit (c_owner o) (c_h o) (c_nA o) (c_nB o) (c_balA o) (c_balB o)
                           (c_fee o) (c_rate o) (c_htlcs o) (c_outs m) (c_nout m))
  else commit_eqb m o.

Definition opt_commit_eqb (a b : option commit) : bool :=
  match a, b with
  | None, None => true
  | Some x, Some y => ocommit_eqb x y
  | _, _ => false
  end.

Definition res_eqb (a b : res) : bool :=
  match a, b with
  | Ok, Ok | ErrDisabled, ErrDisabled | ErrNoWindow, ErrNoWindow | ErrSanity, ErrSanity
  | ErrNothing, ErrNothing | ErrSigInvalid, ErrSigInvalid | ErrSync, ErrSync => true
  | _, _ => false
  end.

(* first differing field of a party (0 = none) *)
Definition diff_party (x : party) (o : obs) : N :=
  if negb (ocommit_eqb (lTail x) (o_ltail o)) then 2%N
  else if negb (opt_commit_eqb (lTip x) (o_ltip o)) then 3%N
  else if negb (ocommit_eqb (rTail x) (o_rtail o)) then 4%N
  else if negb (opt_commit_eqb (rTip x) (o_rtip o)) then 5%N
  else if negb (Nat.eqb (length (own x)) (o_own o)) then 6%N
  else if negb (Nat.eqb (length (peer x)) (o_peer o)) then 7%N
  else 0%N.

Definition diff_sys (s : sys) (oa ob : obs) : N :=
  match diff_party (pA s) oa with
  | 0%N => match diff_party (pB s) ob with 0%N => 0%N | d => (10 + d)%N end
  | d => d
  end.

(* one candidate of a write-level crash: p re-opened from disk must be [restore] of the
   candidate state; then disconnect (nothing delivered), resync, compare.  0 = agrees. *)
Definition crash_cand (c : cfg) (s : xsys) (p : bool) (ro : obs) (ea eb : list N)
           (oa ob : obs) : N * xsys :=
  match diff_party (restore p (get (xs s) p)) ro with
  | 0%N =>
    let '(rs, s') := xstep c s (XCut 0 0) in
    if negb (res_eqb rs Ok) then (1%N, s')
    else if negb (kinds_eqb (map kind_of (qAB (xs s'))) ea) then (40%N, s')
    else if negb (kinds_eqb (map kind_of (qBA (xs s'))) eb) then (41%N, s')
    else (diff_sys (xs s') oa ob, s')
  | d => ((30 + d)%N, s)
  end.

(* the two model states a call interrupted by a crash may leave behind:
   (result of the complete call, state after it, state as if p's part never happened).
   CCSync: the restart as a whole is XCut 0 0; without p's part p is just [restore]d
   (idempotent, C02_restore_idempotent) and keeps its LastWasRevoke flag, while the
   peer's ProcessChanSyncMsg has run. *)
Definition crash_states (c : cfg) (s : xsys) (o : crashcall) (p : bool) : res * xsys * xsys :=
  match o with
  | CCOp o' => let '(rs, s1) := xstep c s (XOp o') in (rs, s1, s)
  | CCSync =>
    let '(rs, s1) := xstep c s (XCut 0 0) in
    (rs, s1, mkX (set (xs s1) p (restore p (get (xs s) p)))
                 (if p then lwrA s else lwrA s1) (if p then lwrB s1 else lwrB s))
  end.

(* returns [] if the whole trace agrees, else [step index; code]:
   code 1 = result differs, 2..7 = field of A, 12..17 = field of B,
   20 = model could not initialise, 30+ = reload projection differs,
   40 / 41 = retransmitted message kinds of A / B differ,
   [50; x; y] = write-level crash: x = code against "the call completed", y = code
   against "the call did not happen" *)
Fixpoint check_steps (c : cfg) (s : xsys) (l : list (tstep * obs * obs)) (i : N) : list N :=
  match l with
  | [] => []
  | (t, oa, ob) :: r =>
    match t with
    | TOp o e =>
      let '(rs, s') := xstep c s (XOp o) in
      if negb (res_eqb rs e) then [i; 1%N]
      else match diff_sys (xs s') oa ob with
           | 0%N => check_steps c s' r (i + 1)%N
           | d => [i; d]
           end
    | TCut ka kb ea eb =>
      let '(rs, s') := xstep c s (XCut ka kb) in
      if negb (res_eqb rs Ok) then [i; 1%N]
      else if negb (kinds_eqb (map kind_of (qAB (xs s'))) ea) then [i; 40%N]
      else if negb (kinds_eqb (map kind_of (qBA (xs s'))) eb) then [i; 41%N]
      else match diff_sys (xs s') oa ob with
           | 0%N => check_steps c s' r (i + 1)%N
           | d => [i; d]
           end
    | TCrashIn o p ro ea eb =>
      (* candidate 1: the call completed (only if the model accepts the call);
         candidate 2: the call did not happen.  Error = [i; 50; code of 1; code of 2]. *)
      let '(rs, s1, s0) := crash_states c s o p in
      let after := if res_eqb rs Ok then crash_cand c s1 p ro ea eb oa ob else (1%N, s1) in
      match after with
      | (0%N, s') => check_steps c s' r (i + 1)%N
      | (da, _) =>
        match crash_cand c s0 p ro ea eb oa ob with
        | (0%N, s') => check_steps c s' r (i + 1)%N
        | (db, _) => [i; 50%N; da; db]
        end
      end
    | TSkip =>
      match diff_sys (xs s) oa ob with
      | 0%N => check_steps c s r (i + 1)%N
      | d => [i; d]
      end
    | TReload p ro =>
      match diff_party (restore p (get (xs s) p)) ro with
      | 0%N => match diff_sys (xs s) oa ob with
               | 0%N => check_steps c s r (i + 1)%N
               | d => [i; d]
               end
      | d => [i; (30 + d)%N]
      end
    end
  end.

Definition check_case (cs : cfg * (obs * obs) * list (tstep * obs * obs)) : list N :=
  let '(c, (ia, ib), steps) := cs in
  match xinit c with
  | None => [0%N; 20%N]
  | Some s =>
    match diff_sys (xs s) ia ib with
    | 0%N => check_steps c s steps 0%N
    | d => [0%N; (20 + d)%N]
    end
  end.

Fixpoint mismatches (cases : list (cfg * (obs * obs) * list (tstep * obs * obs))) (i : N)
  : list (N * list N) :=
  match cases with
  | [] => []
  | c :: r =>
    match check_case c with
    | [] => mismatches r (i + 1)%N
    | bad => (i, bad) :: mismatches r (i + 1)%N
    end
  end.
