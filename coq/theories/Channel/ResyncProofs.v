(* Proofs about restart (C02) and resynchronisation (C03), on top of the
   two-party invariant of Channel/Proofs.v.
   Part R1: restore is idempotent; restore keeps every signed commitment
            reproducible from the kept logs (C02). *)
From Coq Require Import List ZArith Bool Arith Lia.
From LV Require Import Channel.Model Channel.Proofs Channel.Resync Channel.Discipline.
Import ListNotations.
Local Open Scope nat_scope.

Lemma restore_idem p x : restore p (restore p x) = restore p x.
Proof.
  unfold restore. cbn [own peer lTail lTip rTail rTip].
  rewrite !firstn_firstn, !Nat.min_id. reflexivity.
Qed.

Lemma good_sym c S H lS lH k : H = negb S -> good c H S lH lS k -> good c S H lS lH k.
Proof.
  intros -> [HK [H1 H2]]. split; [|split; assumption].
  destruct S; cbn [sel negb] in *; exact HK.
Qed.

Lemma firstn_le_eq {A} m n (l1 l2 : list A) : m <= n ->
  firstn n l1 = firstn n l2 -> firstn m l1 = firstn m l2.
Proof.
  intros HL HE. rewrite <- (Nat.min_l m n HL), <- !firstn_firstn, HE. reflexivity.
Qed.

Section Restore.
Variable c : cfg.

Lemma ltail_own_bound S H xS xH qS qH :
  InvDir c S H xS xH qS qH -> InvDir c H S xH xS qH qS ->
  n_of S (lTail xS) <= n_of S (tip_of (rTail xS) (rTip xS)).
Proof. intros I1 I2. apply (lt_own_bound c _ _ _ _ _ _ I1 I2). Qed.

Lemma restore_commit_aux S H xS xH k : H = negb S ->
  good c S H (own xS) (own xH) k ->
  n_of S k <= n_of S (tip_of (rTail xS) (rTip xS)) ->
  n_of H k <= n_of H (lTail xS) ->
  n_of H (lTail xS) <= length (peer xS) ->
  firstn (n_of H (lTail xS)) (peer xS) = firstn (n_of H (lTail xS)) (own xH) ->
  let x' := restore S xS in
  n_of S k <= length (own x') /\ n_of H k <= length (peer x') /\
  commit_of c (c_owner k) (c_h k) (logA_of S x') (logB_of S x') (c_nA k) (c_nB k) = Some k.
Proof.
  intros HSH [HK [HS HH]] B1 B2 B3 J x'. subst x'. unfold restore. subst H.
  cbn [own peer]. rewrite !firstn_length. split; [lia|]. split; [lia|].
  rewrite <- HK.
  destruct S; cbn [sel negb n_of logA_of logB_of own peer] in *; apply commit_of_ext;
    rewrite firstn_firstn.
  - rewrite Nat.min_l by lia. reflexivity.
  - rewrite Nat.min_l by lia. apply (firstn_le_eq _ _ _ _ B2 J).
  - rewrite Nat.min_l by lia. apply (firstn_le_eq _ _ _ _ B2 J).
  - rewrite Nat.min_l by lia. reflexivity.
Qed.

Lemma restore_keeps S H xS xH qS qH : H = negb S ->
  InvDir c S H xS xH qS qH -> InvDir c H S xH xS qH qS ->
  let x' := restore S xS in
  forall k, In k (commits_of x') ->
  n_of S k <= length (own x') /\ n_of H k <= length (peer x') /\
  commit_of c (c_owner k) (c_h k) (logA_of S x') (logB_of S x') (c_nA k) (c_nB k) = Some k.
Proof.
  intros HSH I1 I2 x' k HK.
  pose proof (ltail_own_bound _ _ _ _ _ _ I1 I2) as HLB.
  pose proof (peer_prefix c _ _ _ _ _ _ _ I2 (le_n _)) as PP.
  destruct I1 as [j1 an nd wa wb gt gl bl m1 ph]. destruct I2 as [j1' an' nd' wa' wb' gt' gl' bl' m1' ph'].
  destruct (phase_m2 c _ _ _ _ _ _ ph) as [_ HRB]. destruct m1 as [m1a m1b].
  subst x'. unfold commits_of, restore in HK. cbn [lTail lTip rTail rTip app In] in HK.
  destruct HK as [<-|[<-|HK]].
  - eapply restore_commit_aux; try eassumption; [|lia].
    apply good_sym; [exact HSH|exact gl'].
  - eapply restore_commit_aux; eassumption.
  - destruct (rTip xS) as [k'|] eqn:HR; [|contradiction]. destruct HK as [<-|[]].
    eapply restore_commit_aux; try eassumption.
    + eapply phase_rtip_good; eassumption.
    + rewrite HR. cbn [tip_of]. lia.
    + apply m1b. reflexivity.
Qed.

Lemma inv_restore_keeps s : Inv c s -> forall p,
  let x' := restore p (get s p) in
  lTail x' = lTail (get s p) /\ rTail x' = rTail (get s p) /\ rTip x' = rTip (get s p) /\
  forall k, In k (commits_of x') ->
    n_of p k <= length (own x') /\ n_of (negb p) k <= length (peer x') /\
    commit_of c (c_owner k) (c_h k) (logA_of p x') (logB_of p x') (c_nA k) (c_nB k) = Some k.
Proof.
  intros HI p x'. split; [reflexivity|]. split; [reflexivity|]. split; [reflexivity|].
  destruct (inv_get c s HI p) as [I1 I2].
  eapply restore_keeps; try eassumption; reflexivity.
Qed.

End Restore.

Lemma reach_restore_keeps c s : reachable c s -> forall p,
  let x' := restore p (get s p) in
  lTail x' = lTail (get s p) /\ rTail x' = rTail (get s p) /\ rTip x' = rTip (get s p) /\
  forall k, In k (commits_of x') ->
    n_of p k <= length (own x') /\ n_of (negb p) k <= length (peer x') /\
    commit_of c (c_owner k) (c_h k) (logA_of p x') (logB_of p x') (c_nA k) (c_nB k) = Some k.
Proof. intros HR. apply inv_restore_keeps. apply inv_reachable. exact HR. Qed.

(* ------------------------------------------------------------------ *)
(* Part R2a: fee updates in the uncommitted part of a log              *)

Fixpoint nfee (l : list upd) : nat :=
  match l with [] => 0 | UFee _ :: r => Datatypes.S (nfee r) | _ :: r => nfee r end.

Lemma nfee_app a b : nfee (a ++ b) = nfee a + nfee b.
Proof. induction a as [|u a IH]; cbn; [reflexivity|]. destruct u; cbn; rewrite IH; reflexivity. Qed.

Lemma nfee_split n l : nfee l = nfee (firstn n l) + nfee (skipn n l).
Proof. rewrite <- nfee_app, firstn_skipn. reflexivity. Qed.

Lemma last_fee_idx_nofee l : forall i acc, nfee l = 0 -> last_fee_idx l i acc = acc.
Proof.
  induction l as [|u l IH]; intros i acc HN; [reflexivity|].
  destruct u; cbn in *; try discriminate; apply IH; exact HN.
Qed.

Lemma last_fee_idx_app l1 : forall l2 i acc,
  last_fee_idx (l1 ++ l2) i acc = last_fee_idx l2 (i + length l1) (last_fee_idx l1 i acc).
Proof.
  induction l1 as [|u l1 IH]; intros l2 i acc; cbn [app length last_fee_idx].
  - rewrite Nat.add_0_r. reflexivity.
  - destruct u; rewrite IH; f_equal; lia.
Qed.

Lemma last_fee_idx_bound l : forall i acc j, last_fee_idx l i acc = Some j ->
  acc = Some j \/ (i <= j < i + length l).
Proof.
  induction l as [|u l IH]; intros i acc j HL; cbn in HL; [left; exact HL|].
  destruct u; apply IH in HL; cbn [length];
    (destruct HL as [HL|HL]; [|right; lia]); try (left; exact HL).
  inversion HL; subst. right. lia.
Qed.

Lemma last_fee_idx_some l : forall i acc, nfee l > 0 ->
  exists j, last_fee_idx l i acc = Some j /\ i <= j.
Proof.
  induction l as [|u l IH]; intros i acc HN; cbn in HN; [lia|].
  destruct u; cbn [last_fee_idx];
    try (destruct (IH (Datatypes.S i) acc HN) as [j [HJ HL]]; exists j; split; [exact HJ|lia]).
  destruct (Nat.eq_dec (nfee l) 0) as [E|E].
  - rewrite last_fee_idx_nofee by exact E. exists i. split; [reflexivity|lia].
  - destruct (IH (Datatypes.S i) (Some i)) as [j [HJ HL]]; [lia|]. exists j. split; [exact HJ|lia].
Qed.

(* the last fee update lies below b: nothing to merge into above b *)
Lemma nfee_skipn_zero l b : b <= length l ->
  (forall j, last_fee_idx l 0 None = Some j -> j < b) -> nfee (skipn b l) = 0.
Proof.
  intros HB HL. destruct (Nat.eq_dec (nfee (skipn b l)) 0) as [E|E]; [exact E|exfalso].
  rewrite <- (firstn_skipn b l) in HL. rewrite last_fee_idx_app in HL.
  destruct (last_fee_idx_some (skipn b l) (0 + length (firstn b l))
              (last_fee_idx (firstn b l) 0 None)) as [j [HJ HLe]]; [lia|].
  specialize (HL j HJ). rewrite firstn_length in HLe. lia.
Qed.

Lemma nfee_replace n : forall l r0 r, nth_error l n = Some (UFee r0) ->
  nfee (replace_nth n l (UFee r)) = nfee l.
Proof.
  induction n as [|n IH]; intros [|x l] r0 r HN; cbn in *; try discriminate.
  - inversion HN; subst x. reflexivity.
  - destruct x; cbn; erewrite IH by exact HN; reflexivity.
Qed.

Lemma append_upd_nomerge l b u :
  (forall j, last_fee_idx l 0 None = Some j -> j < b) -> append_upd l b u = l ++ [u].
Proof.
  intros HL. unfold append_upd. destruct u; try reflexivity.
  destruct (last_fee_idx l 0 None) as [j|]; [|reflexivity].
  destruct (Nat.leb_spec b j); [|reflexivity]. specialize (HL j eq_refl). lia.
Qed.

Lemma nfee_skipn_append_upd l b u : b <= length l ->
  nfee (skipn b l) <= 1 -> nfee (skipn b (append_upd l b u)) <= 1.
Proof.
  intros HB HN. unfold append_upd.
  assert (HA : forall v, nfee [v] = 0 -> nfee (skipn b (l ++ [v])) <= 1).
  { intros v Hv. rewrite skipn_app, nfee_app. replace (b - length l) with 0 by lia.
    cbn [skipn]. lia. }
  destruct u; try (apply HA; reflexivity).
  destruct (last_fee_idx l 0 None) as [j|] eqn:HL.
  - destruct (Nat.leb_spec b j).
    + pose proof (last_fee_idx_nth _ _ HL) as [r0 HNth].
      pose proof (nfee_split b (replace_nth j l (UFee rate))) as E1.
      pose proof (nfee_split b l) as E2.
      rewrite (nfee_replace _ _ _ _ HNth) in E1.
      rewrite replace_nth_firstn in E1 by lia. lia.
    + rewrite skipn_app, nfee_app. replace (b - length l) with 0 by lia. cbn [skipn nfee].
      rewrite (nfee_skipn_zero l b HB); [lia|]. intros j' HJ. congruence.
  - rewrite skipn_app, nfee_app. replace (b - length l) with 0 by lia. cbn [skipn nfee].
    rewrite (nfee_skipn_zero l b HB); [lia|]. intros j' HJ. congruence.
Qed.

(* replaying a segment with at most one fee update onto the prefix it extends
   appends it verbatim *)
Lemma replay_segment S dl : forall log, nfee dl <= 1 ->
  replay S log (length log) (map MUpd dl) = log ++ dl.
Proof.
  intros log HN.
  assert (G : forall dl d0, nfee (d0 ++ dl) <= 1 -> nfee d0 = 0 \/ nfee dl = 0 ->
            replay S (log ++ d0) (length log) (map MUpd dl) = (log ++ d0) ++ dl).
  { clear dl HN. induction dl as [|u dl IH]; intros d0 HN HD; cbn [map replay];
      [rewrite app_nil_r; reflexivity|].
    assert (EA : append_upd (log ++ d0) (length log) u = (log ++ d0) ++ [u]).
    { destruct u; try reflexivity.
      apply append_upd_nomerge. intros j HJ.
      assert (HD0 : nfee d0 = 0) by (destruct HD as [HD|HD]; [exact HD|cbn in HD; lia]).
      rewrite last_fee_idx_app, (last_fee_idx_nofee d0) in HJ by exact HD0.
      apply last_fee_idx_bound in HJ. destruct HJ as [HJ|HJ]; [discriminate|lia]. }
    rewrite EA, <- app_assoc. rewrite (IH (d0 ++ [u])).
    - rewrite <- !app_assoc. reflexivity.
    - rewrite <- app_assoc. exact HN.
    - rewrite !nfee_app in *. cbn [nfee] in *. destruct u; cbn [nfee] in *; lia. }
  specialize (G dl [] HN). rewrite app_nil_r in G. apply G. left. reflexivity.
Qed.

(* ------------------------------------------------------------------ *)
(* Part R2: the discipline / LastWasRevoke invariant for ordinary ops  *)

Ltac ph_cases ph :=
  destruct ph as [R L NS NR E|kp R G SA L NR E|kp R G NS L NR E B|kp R G NS L LT NR B].
Ltac psimpl := cbn [own peer lTail lTip rTail rTip].

(* Per direction "S signs H's commitments"; fS = LastWasRevoke of S.
   x_d1: a received-but-unrevoked commitment was computed with the CURRENT
         own-count of the holder (no revocation consumed since; discipline).
   x_f : if S has an unacked signature k AND an undelivered revocation, the flag
         tells which of the two came first, i.e. which of H's counts k used.
   x_fe1/x_fe2: at most one fee update among the updates first covered by the
         unacked signature / not yet covered by any signature (in-place merge). *)
Record XDir (S H : bool) (xS xH : party) (qS : list msg) (fS : bool) : Prop := mkXDir {
  x_d1 : forall k, lTip xH = Some k -> n_of H k = n_of H (rTail xH);
  x_f : forall k, rTip xS = Some k -> nrev qS = 1 -> c_h (lTail xH) = c_h (rTail xS) ->
        n_of H k = n_of H (if fS then rTail xH else tip_of (rTail xH) (rTip xH));
  x_fe1 : forall k, rTip xS = Some k ->
          nfee (skipn (n_of S (rTail xS)) (firstn (n_of S k) (own xS))) <= 1;
  x_fe2 : nfee (skipn (n_of S (tip_of (rTail xS) (rTip xS))) (own xS)) <= 1
}.

Lemma xdir_ext S H xS xH qS fS xS' xH' qS' :
  XDir S H xS xH qS fS ->
  lTip xH' = lTip xH -> rTail xH' = rTail xH -> rTip xH' = rTip xH -> lTail xH' = lTail xH ->
  rTip xS' = rTip xS -> rTail xS' = rTail xS -> nrev qS' = nrev qS -> own xS' = own xS ->
  XDir S H xS' xH' qS' fS.
Proof.
  intros [d f e1 e2] E1 E2 E3 E4 E5 E6 E7 E8.
  constructor; rewrite ?E1, ?E2, ?E3, ?E4, ?E5, ?E6, ?E7, ?E8; assumption.
Qed.

Section XOps.
Variable c : cfg.

Lemma nrev_snoc_upd q u : nrev (q ++ [MUpd u]) = nrev q.
Proof. rewrite nrev_app. cbn. lia. Qed.
Lemma nrev_snoc_sig q k : nrev (q ++ [MSig k]) = nrev q.
Proof. rewrite nrev_app. cbn. lia. Qed.
Lemma nrev_snoc_rev q : nrev (q ++ [MRev]) = Datatypes.S (nrev q).
Proof. rewrite nrev_app. cbn. lia. Qed.

(* phase facts *)
Lemma phase_nrev_le S H xS xH qS qH : phase c S H xS xH qS qH -> nrev qH <= 1.
Proof. intros ph. ph_cases ph; lia. Qed.

Lemma phase_nrev1 S H xS xH qS qH : phase c S H xS xH qS qH -> nrev qH = 1 ->
  exists k, rTip xS = Some k /\ lTail xH = k /\ lTip xH = None /\ kgood c S H xS xH k.
Proof. intros ph HN. ph_cases ph; try lia. exists kp. auto. Qed.

Lemma rt_good S H xS xH qS qH : phase c S H xS xH qS qH ->
  good c S H (own xS) (own xH) (rTail xS) ->
  good c S H (own xS) (own xH) (tip_of (rTail xS) (rTip xS)).
Proof.
  intros ph gt. ph_cases ph; rewrite R; cbn [tip_of]; try exact gt; destruct G as [G _]; exact G.
Qed.

(* actor S: OSend *)
Lemma xsend_S S H xS xH qS qH fS u : H = negb S ->
  InvDir c S H xS xH qS qH -> InvDir c H S xH xS qH qS ->
  XDir S H xS xH qS fS ->
  XDir S H (mkParty (append_upd (own xS) (committed_bound S xS) u) (peer xS)
                    (lTail xS) (lTip xS) (rTail xS) (rTip xS))
       xH (qS ++ [MUpd u]) fS.
Proof.
  intros HSH I1 I2 [d f e1 e2].
  pose proof (sender_bound c _ _ _ _ _ _ I1 I2) as SB.
  destruct I1 as [j1 an nd wa wb gt gl bl m1 ph].
  pose proof (rt_good _ _ _ _ _ _ ph gt) as [_ [BS _]].
  constructor; psimpl; try assumption.
  - intros k HE HN. rewrite nrev_snoc_upd in HN. apply f; assumption.
  - intros k HE. specialize (e1 k HE).
    rewrite append_upd_firstn; [exact e1| |].
    + rewrite SB, HE. cbn [tip_of]. lia.
    + rewrite HE in BS. cbn [tip_of] in BS. exact BS.
  - rewrite SB. apply nfee_skipn_append_upd; assumption.
Qed.

(* actor S: OSign *)
Lemma xsign_S S H xS xH qS qH fS k : H = negb S ->
  InvDir c S H xS xH qS qH -> InvDir c H S xH xS qH qS ->
  XDir S H xS xH qS fS -> rTip xS = None ->
  commit_of c H (c_h (rTail xS) + 1)%Z (logA_of S xS) (logB_of S xS)
    (sel S (length (own xS)) (n_of H (lTail xS)))
    (sel S (n_of H (lTail xS)) (length (own xS))) = Some k ->
  XDir S H (set_rTip xS (Some k)) xH (qS ++ [MSig k]) false.
Proof.
  intros HSH I1 I2 [d f e1 e2] HR HK.
  pose proof (peer_prefix c _ _ _ _ _ _ _ I2 (le_n _)) as PP.
  pose proof (peer_len c _ _ _ _ _ _ I2) as PL.
  destruct I1 as [j1 an nd wa wb gt gl bl m1 ph]. destruct I2 as [j1' an' nd' wa' wb' gt' gl' bl' m1' ph'].
  apply sign_good with (xH := xH) in HK; try assumption; try lia.
  destruct HK as [_ [_ [_ [HnS HnH]]]].
  unfold set_rTip. constructor; psimpl; [exact d| | |].
  - intros k0 HE HN _. inversion HE; subst k0. rewrite nrev_snoc_sig in HN.
    destruct (phase_nrev1 _ _ _ _ _ _ ph' HN) as [k' [R' [LT' _]]].
    rewrite R'. cbn [tip_of]. rewrite HnH, LT'. reflexivity.
  - intros k0 HE. inversion HE; subst k0. rewrite HnS, firstn_all.
    rewrite HR in e2. cbn [tip_of] in e2. exact e2.
  - cbn [tip_of]. rewrite HnS, skipn_all. cbn. lia.
Qed.

(* actor H: OSign (seen from direction S) *)
Lemma xsign_H S H xS xH qS qH fS t :
  InvDir c H S xH xS qH qS -> XDir S H xS xH qS fS -> rTip xH = None ->
  XDir S H xS (set_rTip xH t) qS fS.
Proof.
  intros [j1' an' nd' wa' wb' gt' gl' bl' m1' ph'] [d f e1 e2] HR.
  unfold set_rTip. constructor; psimpl; [exact d| |exact e1|exact e2].
  intros k HE HN HC. exfalso.
  destruct (phase_nrev1 _ _ _ _ _ _ ph' HN) as [k' [R' _]]. congruence.
Qed.

(* actor S: ORevoke *)
Lemma xrevoke_S S H xS xH qS qH fS k : H = negb S ->
  InvDir c S H xS xH qS qH -> InvDir c H S xH xS qH qS ->
  XDir S H xS xH qS fS -> lTip xS = Some k ->
  XDir S H (revoked xS k) xH (qS ++ [MRev]) true.
Proof.
  intros HSH [j1 an nd wa wb gt gl bl m1 ph] [j1' an' nd' wa' wb' gt' gl' bl' m1' ph'] [d f e1 e2] HL.
  unfold revoked. constructor; psimpl; [exact d| |exact e1|exact e2].
  intros k0 HE HN HC. rewrite nrev_snoc_rev in HN.
  assert (HN0 : nrev qS = 0) by lia.
  ph_cases ph; try congruence; assert (k0 = kp) by congruence; subst k0.
  - destruct SA as [pre [post [EQ [N1 [N2 [C1 C2]]]]]].
    rewrite EQ in HN0. apply nrev_app_0 in HN0. destruct HN0 as [HN0 _].
    unfold ev_rtail in C2. rewrite HN0 in C2. exact C2.
  - apply d. exact L.
  - exfalso. destruct G as [_ [_ [Hh _]]]. rewrite LT in HC. lia.
Qed.

(* actor H: ORevoke (seen from direction S) *)
Lemma xrevoke_H S H xS xH qS qH fS k : H = negb S ->
  InvDir c S H xS xH qS qH ->
  XDir S H xS xH qS fS -> lTip xH = Some k ->
  XDir S H xS (revoked xH k) qS fS.
Proof.
  intros HSH [j1 an nd wa wb gt gl bl m1 ph] [d f e1 e2] HL.
  unfold revoked. constructor; psimpl; [intros ? ?; discriminate| |exact e1|exact e2].
  intros k0 HE HN HC. exfalso.
  ph_cases ph; try congruence. assert (k0 = kp) by congruence. subst k0.
  assert (k = kp) by congruence. subst k.
  destruct G as [_ [_ [Hh _]]]. lia.
Qed.

(* actor H: receives the head signature of qS *)
Lemma xdsig_H S H xS xH qS0 q fS k0 : H = negb S ->
  InvDir c S H xS xH (MSig k0 :: q) qS0 ->
  XDir S H xS xH (MSig k0 :: q) fS ->
  XDir S H xS (set_lTip xH (Some k0)) q fS.
Proof.
  intros HSH I1 [d f e1 e2].
  pose proof (head_sig c H S xH xS qS0 q k0) as HS.
  specialize (HS I1). destruct HS as [R [G [N2 [C1 [C2 [L [NR E]]]]]]].
  unfold set_lTip. constructor; psimpl; [| |exact e1|exact e2].
  - intros k HE. inversion HE; subst k. exact C2.
  - intros k HE HN HC. apply f; assumption.
Qed.

(* actor H: receives a revocation at the head of qS, with lTip xH = None *)
Lemma xdrev_H S H xS xH qS0 q fS k : H = negb S ->
  InvDir c H S xH xS qS0 (MRev :: q) ->
  XDir S H xS xH (MRev :: q) fS -> lTip xH = None ->
  XDir S H xS (recv_rev xH k) q fS.
Proof.
  intros HSH [j1' an' nd' wa' wb' gt' gl' bl' m1' ph'] [d f e1 e2] HL.
  unfold recv_rev. constructor; psimpl; [| |exact e1|exact e2].
  - intros k0 HE. congruence.
  - intros k0 HE HN. exfalso. apply phase_nrev_le in ph'. cbn [nrev] in ph'. lia.
Qed.

(* actor S: receives a revocation (rTail S := rTip S, rTip S := None) *)
Lemma xdrev_S S H xS xH qS fS k : rTip xS = Some k ->
  XDir S H xS xH qS fS -> XDir S H (recv_rev xS k) xH qS fS.
Proof.
  intros HR [d f e1 e2]. unfold recv_rev. constructor; psimpl; [exact d| | |].
  - intros; discriminate.
  - intros; discriminate.
  - rewrite HR in e2. exact e2.
Qed.

End XOps.

(* ---------- the extended invariant on xsys ---------- *)
Definition XInv (c : cfg) (s : xsys) : Prop :=
  Inv c (xs s) /\
  XDir true false (pA (xs s)) (pB (xs s)) (qAB (xs s)) (lwrA s) /\
  XDir false true (pB (xs s)) (pA (xs s)) (qBA (xs s)) (lwrB s).

Ltac xext X :=
  eapply xdir_ext; [exact X|..]; try reflexivity;
  cbn [nrev]; rewrite ?nrev_snoc_upd, ?nrev_snoc_sig; try reflexivity.

Lemma xinit_inv c s0 : xinit c = Some s0 -> XInv c s0.
Proof.
  unfold xinit. destruct (init_sys c) as [s|] eqn:H0; [|discriminate].
  intros HE. inversion HE; subst s0; clear HE. pose proof (inv_init c s H0) as HI.
  split; [exact HI|].
  unfold init_sys, init_party in H0.
  cbn [negb] in H0.
  destruct (init_commit c true); [|discriminate]. destruct (init_commit c false); [|discriminate].
  inversion H0; subst s; clear H0.
  split; constructor; cbn [pA pB qAB qBA xs lwrA lwrB own peer lTail lTip rTail rTip tip_of]; intros;
    try discriminate; rewrite skipn_nil; cbn; lia.
Qed.

Lemma xinv_send c s p u : XInv c s -> XInv c (snd (xstep c s (XOp (OSend p u)))).
Proof.
  intros [HI [XA XB]]. pose proof (inv_step_send c (xs s) p u HI) as HI'.
  unfold xstep. destruct (step c (xs s) (OSend p u)) as [r s'] eqn:HS. cbn [snd] in HI'.
  assert (HX : XDir true false (pA s') (pB s') (qAB s') (lwrA s) /\
               XDir false true (pB s') (pA s') (qBA s') (lwrB s)).
  { unfold step in HS. destruct (upd_enabled c p (get (xs s) p) u);
      inversion HS; subst r s'; clear HS; [|split; assumption].
    pose proof HI as [I1 I2].
    destruct p; cbn [get set outq set_outq pA pB qAB qBA]; split.
    - eapply (xsend_S c true false); try eassumption; reflexivity.
    - xext XB.
    - xext XA.
    - eapply (xsend_S c false true); try eassumption; reflexivity. }
  destruct r; cbn [snd xs lwrA lwrB]; (split; [exact HI'|exact HX]).
Qed.

Lemma xinv_sign c s p : XInv c s -> XInv c (snd (xstep c s (XOp (OSign p)))).
Proof.
  intros [HI [XA XB]]. pose proof (inv_step_sign c (xs s) p HI) as HI'.
  pose proof HI as [I1 I2].
  unfold xstep. destruct (step c (xs s) (OSign p)) as [r s'] eqn:HS. cbn [snd] in HI'.
  unfold step in HS.
  destruct (do_sign c p (get (xs s) p)) as [[r0 x'] [m|]] eqn:HD.
  2:{ assert (s' = xs s /\ r <> Ok) as [-> HR].
      { destruct r0; inversion HS; subst; split; try reflexivity; try discriminate.
        exfalso. unfold do_sign in HD. destruct (rTip (get (xs s) p)); [discriminate|].
        cbv zeta in HD. destruct (commit_of _ _ _ _ _ _ _); discriminate. }
      destruct r; try congruence; cbn [snd xs lwrA lwrB]; (split; [exact HI|split; assumption]). }
  destruct r0; try (inversion HS; subst r s'; cbn [snd xs lwrA lwrB]; split; [exact HI|split; assumption]).
  inversion HS; subst r s'; clear HS.
  apply do_sign_ok in HD. destruct HD as [k [HR [HK [-> ->]]]].
  cbn [snd].
  destruct p; cbn [get set outq set_outq pA pB qAB qBA negb set_lwr xs lwrA lwrB] in *;
    (split; [exact HI'|]); split.
  - eapply (xsign_S c true false); try eassumption; reflexivity.
  - eapply (xsign_H c false true); eassumption.
  - eapply (xsign_H c true false); eassumption.
  - eapply (xsign_S c false true); try eassumption; reflexivity.
Qed.

Lemma xinv_revoke c s p : XInv c s -> XInv c (snd (xstep c s (XOp (ORevoke p)))).
Proof.
  intros [HI [XA XB]]. pose proof (inv_step_revoke c (xs s) p HI) as HI'.
  pose proof HI as [I1 I2].
  unfold xstep. destruct (step c (xs s) (ORevoke p)) as [r s'] eqn:HS. cbn [snd] in HI'.
  unfold step in HS. unfold do_revoke in HS.
  destruct (lTip (get (xs s) p)) as [k|] eqn:HL.
  2:{ inversion HS; subst r s'. cbn [snd xs lwrA lwrB]. split; [exact HI|split; assumption]. }
  inversion HS; subst r s'; clear HS. cbn [snd].
  destruct p; cbn [get set outq set_outq pA pB qAB qBA negb set_lwr xs lwrA lwrB] in *;
    (split; [exact HI'|]); split.
  - eapply (xrevoke_S c true false); try eassumption; reflexivity.
  - eapply (xrevoke_H c false true); try eassumption; reflexivity.
  - eapply (xrevoke_H c true false); try eassumption; reflexivity.
  - eapply (xrevoke_S c false true); try eassumption; reflexivity.
Qed.

Lemma xinv_deliver c s p : XInv c s -> deliver_ok (xs s) p = true ->
  XInv c (snd (xstep c s (XOp (ODeliver p)))).
Proof.
  intros [HI [XA XB]] HD. pose proof (inv_step_deliver c (xs s) p HI) as HI'.
  pose proof HI as [I1 I2].
  unfold xstep. destruct (step c (xs s) (ODeliver p)) as [r s'] eqn:HS. cbn [snd] in HI'.
  assert (HX : XDir true false (pA s') (pB s') (qAB s') (lwrA s) /\
               XDir false true (pB s') (pA s') (qBA s') (lwrB s)).
  { unfold step in HS. unfold deliver_ok in HD.
    destruct (outq (xs s) (negb p)) as [|m q] eqn:HQ.
    { inversion HS; subst r s'. split; assumption. }
    destruct m as [u|k|].
    - inversion HS; subst r s'; clear HS.
      destruct p; cbn [get set outq set_outq pA pB qAB qBA negb] in *; rewrite HQ in *; split;
        [xext XA|xext XB|xext XA|xext XB].
    - destruct p; cbn [get set outq set_outq pA pB qAB qBA negb] in *; rewrite HQ in *.
      + rewrite (recv_sig_ok c true false _ _ _ _ _ eq_refl I2) in HS.
        inversion HS; subst r s'; clear HS. cbn [pA pB qAB qBA]. split; [xext XA|].
        eapply (xdsig_H c false true); try eassumption; reflexivity.
      + rewrite (recv_sig_ok c false true _ _ _ _ _ eq_refl I1) in HS.
        inversion HS; subst r s'; clear HS. cbn [pA pB qAB qBA]. split; [|xext XB].
        eapply (xdsig_H c true false); try eassumption; reflexivity.
    - unfold do_recv_rev in HS. destruct (rTip (get (xs s) p)) as [k|] eqn:HR.
      2:{ inversion HS; subst r s'. split; assumption. }
      inversion HS; subst r s'; clear HS.
      assert (HL : lTip (get (xs s) p) = None) by (destruct (lTip (get (xs s) p)); [discriminate|reflexivity]).
      destruct p; cbn [get set outq set_outq pA pB qAB qBA negb] in *; rewrite HQ in *; split.
      + exact (xdrev_S true false _ _ _ _ k HR XA).
      + eapply (xdrev_H c false true); try eassumption; reflexivity.
      + eapply (xdrev_H c true false); try eassumption; reflexivity.
      + exact (xdrev_S false true _ _ _ _ k HR XB). }
  destruct r; cbn [snd xs lwrA lwrB]; (split; [exact HI'|exact HX]).
Qed.

(* ------------------------------------------------------------------ *)
(* Part R3: list lemmas for truncated logs and retransmission queues   *)

Lemma add_pos_from_firstn l : forall i pos a n,
  add_pos_from l i pos = Some a -> a < pos + n -> add_pos_from (firstn n l) i pos = Some a.
Proof.
  induction l as [|u l IH]; intros i pos a n HP HL; cbn in HP; [discriminate|].
  destruct n as [|n].
  { exfalso. destruct u; try (apply add_pos_from_bound in HP; lia).
    destruct i; [inversion HP; lia|apply add_pos_from_bound in HP; lia]. }
  cbn [firstn add_pos_from].
  destruct u; try (apply IH; [exact HP|lia]).
  destruct i; [exact HP|apply IH; [exact HP|lia]].
Qed.

Lemma add_pos_firstn l i a n : add_pos l i = Some a -> a < n -> add_pos (firstn n l) i = Some a.
Proof. intros HP HL. apply add_pos_from_firstn; [exact HP|lia]. Qed.

Lemma lookup_adds_from_inv l : forall n j pos i',
  lookup_add (adds_from (firstn n l) j) i' <> None ->
  exists i a, i' = j + i /\ add_pos_from l i pos = Some a /\ a < pos + n.
Proof.
  induction l as [|u l IH]; intros n j pos i' HL.
  { exfalso. apply HL. destruct n; reflexivity. }
  destruct n as [|n]; [exfalso; apply HL; reflexivity|].
  cbn [firstn adds_from] in HL.
  destruct u.
  - cbn [lookup_add a_idx] in HL. destruct (Nat.eqb_spec i' j) as [E|E].
    + exists 0, pos. cbn. repeat split; lia.
    + destruct (IH n (Datatypes.S j) (Datatypes.S pos) i' HL) as [i [a [E1 [E2 E3]]]].
      exists (Datatypes.S i), a. cbn [add_pos_from]. repeat split; try assumption; lia.
  - destruct (IH n j (Datatypes.S pos) i' HL) as [i [a [E1 [E2 E3]]]].
    exists i, a. cbn [add_pos_from]. repeat split; try assumption; lia.
  - destruct (IH n j (Datatypes.S pos) i' HL) as [i [a [E1 [E2 E3]]]].
    exists i, a. cbn [add_pos_from]. repeat split; try assumption; lia.
  - destruct (IH n j (Datatypes.S pos) i' HL) as [i [a [E1 [E2 E3]]]].
    exists i, a. cbn [add_pos_from]. repeat split; try assumption; lia.
Qed.

Lemma lookup_adds_firstn_inv l n i :
  lookup_add (adds_of (firstn n l)) i <> None -> exists a, add_pos l i = Some a /\ a < n.
Proof.
  intros HL. destruct (lookup_adds_from_inv l n 0 0 i HL) as [i0 [a [E1 [E2 E3]]]].
  cbn in E1. subst i0. exists a. split; [exact E2|lia].
Qed.

Lemma removed_amounts_some_inv adds rems r :
  removed_amounts adds rems = Some r -> forall p, In p (map fst rems) -> lookup_add adds p <> None.
Proof.
  revert r. induction rems as [|[q s] rems IH]; intros r HR p HI; [contradiction|].
  cbn [removed_amounts] in HR. cbn [map fst In] in HI.
  destruct (lookup_add adds q) eqn:HL; [|discriminate].
  destruct (removed_amounts adds rems) as [r'|] eqn:HR'; [|discriminate].
  destruct HI as [<-|HI]; [congruence|]. eapply IH; [reflexivity|exact HI].
Qed.

(* a well-formed cut contains the parent add of each included removal *)
Lemma commit_wf_parents lA lB nA nB : commit_wf lA lB nA nB = true ->
  (forall i, In i (parents (firstn nA lA)) -> exists a, add_pos lB i = Some a /\ a < nB) /\
  (forall i, In i (parents (firstn nB lB)) -> exists a, add_pos lA i = Some a /\ a < nA).
Proof.
  unfold commit_wf. cbv zeta. rewrite !andb_true_iff. intros [[_ H1] H2].
  destruct (removed_amounts (adds_of (firstn nA lA)) (removes_of (firstn nB lB))) as [r1|] eqn:R1;
    [|discriminate].
  destruct (removed_amounts (adds_of (firstn nB lB)) (removes_of (firstn nA lA))) as [r2|] eqn:R2;
    [|discriminate].
  split; intros i HI; apply lookup_adds_firstn_inv.
  - eapply removed_amounts_some_inv; [exact R2|exact HI].
  - eapply removed_amounts_some_inv; [exact R1|exact HI].
Qed.

Lemma good_parents c S H lS lH k : H = negb S -> good c S H lS lH k ->
  forall i, In i (parents (firstn (n_of S k) lS)) -> exists a, add_pos lH i = Some a /\ a < n_of H k.
Proof.
  intros -> [HK _]. apply commit_of_inv in HK. destruct HK as [gA [gB [HW _]]].
  apply commit_wf_parents in HW. destruct HW as [W1 W2].
  destruct S; cbn [sel negb n_of] in *; assumption.
Qed.

Lemma good_firstn c S H lS lH k b1 b2 : H = negb S -> good c S H lS lH k ->
  n_of S k <= b1 -> n_of H k <= b2 -> good c S H (firstn b1 lS) (firstn b2 lH) k.
Proof.
  intros -> [HK [HS HH]] B1 B2. split; [|rewrite !firstn_length; lia].
  rewrite <- HK.
  destruct S; cbn [sel negb n_of] in *; apply commit_of_ext; rewrite firstn_firstn;
    rewrite Nat.min_l by lia; reflexivity.
Qed.

Lemma firstn_skipn_split {A} a b (l : list A) : a <= b ->
  firstn a l ++ skipn a (firstn b l) = firstn b l.
Proof.
  intros HL. rewrite <- (firstn_skipn a (firstn b l)) at 2.
  rewrite firstn_firstn, Nat.min_l by lia. reflexivity.
Qed.

Lemma upds_in_map l : upds_in (map MUpd l) = l.
Proof. induction l as [|u l IH]; cbn; [reflexivity|]. rewrite IH. reflexivity. Qed.
Lemma nsig_map l : nsig (map MUpd l) = 0.
Proof. induction l as [|u l IH]; cbn; [reflexivity|exact IH]. Qed.
Lemma nrev_map l : nrev (map MUpd l) = 0.
Proof. induction l as [|u l IH]; cbn; [reflexivity|exact IH]. Qed.
Lemma nupd_map l : nupd (map MUpd l) = length l.
Proof. unfold nupd. rewrite upds_in_map. reflexivity. Qed.

(* ------------------------------------------------------------------ *)
(* Part R4: the state after "lose the queues, restore both, retransmit" *)

Definition c1b (xS xH : party) : bool := (c_h (lTail xH) =? c_h (rTail xS))%Z.
(* S owes H a revocation: H's view of S's revoked-into height is one behind *)
Definition owes_rev (xS xH : party) : bool := (c_h (rTail xH) + 1 =? c_h (lTail xS))%Z.
Definition sigpart (S : bool) (xS xH : party) : list msg :=
  match rTip xS with
  | Some k => if c1b xS xH then diff_updates S xS ++ [MSig k] else []
  | None => []
  end.
Definition revpart (xS xH : party) : list msg := if owes_rev xS xH then [MRev] else [].
Definition mid_q (fS : bool) (sp rp : list msg) : list msg := if fS then sp ++ rp else rp ++ sp.

Section Mid.
Variable c : cfg.

Inductive cls (S H : bool) (xS xH : party) : Prop :=
| Cl0 : rTip xS = None -> lTail xH = rTail xS -> cls S H xS xH
| Cl1 k : rTip xS = Some k -> kgood c S H xS xH k -> lTail xH = rTail xS -> cls S H xS xH
| Cl3 k : rTip xS = Some k -> kgood c S H xS xH k -> lTail xH = k ->
          n_of S k <= length (peer xH) -> cls S H xS xH.

Lemma phase_cls S H xS xH qS qH : phase c S H xS xH qS qH -> cls S H xS xH.
Proof.
  intros ph. ph_cases ph.
  - apply Cl0; congruence.
  - eapply Cl1; eauto.
  - eapply Cl1; eauto.
  - eapply Cl3; eauto.
Qed.

(* whether S has an undelivered revocation, in terms of heights *)
Lemma phase_owes_rev S H xS xH qS qH : phase c S H xS xH qS qH ->
  (nrev qH = 0 /\ owes_rev xH xS = false) \/ (nrev qH = 1 /\ owes_rev xH xS = true).
Proof.
  intros ph. unfold owes_rev. ph_cases ph.
  - left. split; [exact NR|]. rewrite E. apply Z.eqb_neq. lia.
  - left. split; [exact NR|]. rewrite E. apply Z.eqb_neq. lia.
  - left. split; [exact NR|]. rewrite E. apply Z.eqb_neq. lia.
  - right. split; [exact NR|]. destruct G as [_ [_ [Hh _]]]. rewrite LT, Hh. apply Z.eqb_refl.
Qed.

(* which of H's counts an unacked signature used *)
Lemma cl1_K S H xS xH qS qH fS k :
  phase c S H xS xH qS qH -> phase c H S xH xS qH qS -> XDir S H xS xH qS fS ->
  rTip xS = Some k -> lTail xH = rTail xS ->
  n_of H k = n_of H (if Nat.eqb (nrev qS) 0 then rTail xH
                     else if fS then rTail xH else tip_of (rTail xH) (rTip xH)).
Proof.
  intros ph ph' [d f] HR HT.
  destruct (Nat.eqb_spec (nrev qS) 0) as [E0|E0].
  - ph_cases ph; try congruence; assert (k = kp) by congruence; subst k.
    + destruct SA as [pre [post [EQ [N1 [N2 [C1 C2]]]]]].
      rewrite EQ in E0. apply nrev_app_0 in E0. destruct E0 as [E0 _].
      unfold ev_rtail in C2. rewrite E0 in C2. exact C2.
    + apply d. exact L.
    + exfalso. destruct G as [_ [_ [Hh _]]]. rewrite LT in HT. rewrite HT in Hh. lia.
  - apply f; [exact HR| |rewrite HT; reflexivity].
    pose proof (phase_nrev_le c _ _ _ _ _ _ ph'). lia.
Qed.

End Mid.

Section Mid2.
Variable c : cfg.

Lemma parents_skipn_in n l i : In i (parents (skipn n l)) -> In i (parents l).
Proof.
  intros HI. rewrite <- (firstn_skipn n l), parents_app. apply in_or_app. right. exact HI.
Qed.

Lemma upto_rev_map_app l r : upto_rev (map MUpd l ++ r) = l ++ upto_rev r.
Proof. rewrite upto_rev_app_norev by apply nrev_map. rewrite upds_in_map. reflexivity. Qed.

Lemma mid_q_nil fS rp : mid_q fS [] rp = rp.
Proof. unfold mid_q. destruct fS; [reflexivity|apply app_nil_r]. Qed.

Lemma mid_dir S H xS xH qS qH fS qH' : H = negb S ->
  InvDir c S H xS xH qS qH -> InvDir c H S xH xS qH qS -> XDir S H xS xH qS fS ->
  nrev qH' = nrev (revpart (restore H xH) (restore S xS)) ->
  InvDir c S H (restore S xS) (restore H xH)
    (mid_q fS (sigpart S (restore S xS) (restore H xH)) (revpart (restore S xS) (restore H xH))) qH'.
Proof.
  intros HSH I1 I2 X HN'.
  pose proof (negb_swap _ _ HSH) as HHS.
  pose proof (ltail_own_bound c _ _ _ _ _ _ I2 I1) as HLB.
  pose proof (peer_prefix c _ _ _ _ _ _ _ I1 (le_n _)) as PF.
  pose proof X as [_ _ XE1 _].
  destruct I1 as [j1 an nd wa wb gt gl bl m1 ph]. destruct I2 as [j1' an' nd' wa' wb' gt' gl' bl' m1' ph'].
  destruct (phase_m2 c _ _ _ _ _ _ ph) as [A1 A2].
  destruct (phase_m2 c _ _ _ _ _ _ ph') as [A1' A2'].
  pose proof (phase_cls c _ _ _ _ _ _ ph) as CL.
  pose proof (phase_owes_rev c _ _ _ _ _ _ ph') as OR.
  pose proof (rt_good c _ _ _ _ _ _ ph gt) as GRT.
  pose proof (rt_good c _ _ _ _ _ _ ph' gt') as GRT'.
  destruct GRT as [_ [BS _]]. destruct GRT' as [_ [BH _]].
  destruct m1 as [m1a m1b].
  unfold sigpart, revpart, c1b, diff_updates, owes_rev in *. unfold restore in *. psimpl. cbn [own peer lTail lTip rTail rTip] in HN'.
  fold (owes_rev xH xS) in HN'. fold (owes_rev xS xH). fold (owes_rev xS xH) in OR.
  rewrite <- HHS. rewrite <- HSH.
  set (bS := n_of S (tip_of (rTail xS) (rTip xS))) in *.
  set (bH := n_of H (tip_of (rTail xH) (rTip xH))) in *.
  set (aS := n_of S (lTail xH)) in *.
  set (aH := n_of H (lTail xS)) in *.
  assert (NRP : nsig (if owes_rev xS xH then [MRev] else []) = 0 /\
                upds_in (if owes_rev xS xH then [MRev] else []) = [] /\
                upto_rev (if owes_rev xS xH then [MRev] else []) = [])
    by (destruct (owes_rev xS xH); repeat split).
  destruct NRP as [NRP1 [NRP2 NRP3]].
  fold aS in PF.
  assert (RP : forall log b, replay S log b (if owes_rev xS xH then [MRev] else []) = log)
    by (intros; destruct (owes_rev xS xH); reflexivity).
  match goal with |- InvDir _ _ _ _ _ (mid_q fS ?sp ?rp) _ => set (Q := mid_q fS sp rp) end.
  (* the three facts that depend on the class of the direction *)
  assert (QF : replay S (firstn aS (peer xH)) aS Q = firstn bS (own xS) /\
               (forall i, In i (parents (upto_rev Q)) ->
                  exists a, add_pos (own xH) i = Some a /\ a < n_of H (rTail xH)) /\
               phase c S H
                 (mkParty (firstn bS (own xS)) (firstn aH (peer xS)) (lTail xS) None (rTail xS) (rTip xS))
                 (mkParty (firstn bH (own xH)) (firstn aS (peer xH)) (lTail xH) None (rTail xH) (rTip xH))
                 Q qH').
  { destruct CL as [R T|k R G T|k R G T B].
    - (* nothing unacked *)
      subst Q. rewrite R. rewrite mid_q_nil. rewrite RP, NRP3.
      assert (aS = bS) by (subst aS bS; rewrite R, T; reflexivity).
      split; [congruence|]. split; [intros i HI; destruct HI|].
      apply Ph0; psimpl; try assumption; try reflexivity; [|congruence].
      rewrite HN'. unfold owes_rev. rewrite T.
      destruct (Z.eqb_spec (c_h (rTail xS) + 1) (c_h (rTail xS))); [lia|reflexivity].
    - (* an unacked signature the holder has not revoked into *)
      destruct G as [G [Ho [Hh Hm]]].
      assert (EB : n_of S k = bS) by (subst bS; rewrite R; reflexivity).
      assert (EA : n_of S (rTail xS) = aS) by (subst aS; rewrite T; reflexivity).
      pose proof (cl1_K c _ _ _ _ _ _ _ _ ph ph' X R T) as K.
      subst Q. rewrite R, T, Z.eqb_refl, EB, EA.
      rewrite firstn_firstn, Nat.min_id.
      set (dl := skipn aS (firstn bS (own xS))).
      assert (DL : length dl = bS - aS) by (subst dl; rewrite skipn_length, firstn_length; lia).
      assert (GP : forall i, In i (parents dl) ->
                exists a, add_pos (own xH) i = Some a /\ a < n_of H k).
      { intros i HI. subst dl. apply parents_skipn_in in HI. rewrite <- EB in HI.
        eapply good_parents; [exact HSH|exact G|exact HI]. }
      assert (NDL : nfee dl <= 1).
      { specialize (XE1 k R). rewrite EA, EB in XE1. exact XE1. }
      assert (RD : replay S (firstn aS (peer xH)) aS (map MUpd dl) = firstn bS (own xS)).
      { rewrite PF.
        replace aS with (length (firstn aS (own xS))) at 2 by (rewrite firstn_length; lia).
        rewrite replay_segment by exact NDL. apply firstn_skipn_split. exact A1. }
      assert (NQ' : nrev qH' = 0).
      { rewrite HN'. unfold owes_rev. rewrite T.
        destruct (Z.eqb_spec (c_h (rTail xS) + 1) (c_h (rTail xS))); [lia|reflexivity]. }
      assert (KG : kgood c S H
                 (mkParty (firstn bS (own xS)) (firstn aH (peer xS)) (lTail xS) None (rTail xS) (rTip xS))
                 (mkParty (firstn bH (own xH)) (firstn aS (peer xH)) (lTail xH) None (rTail xH) (rTip xH)) k).
      { split; [|split; [exact Ho|split; [exact Hh|exact Hm]]]. psimpl.
        apply good_firstn; try assumption; [lia|]. specialize (m1b k R). lia. }
      split; [|split].
      + unfold mid_q. destruct fS.
        * rewrite <- app_assoc, replay_app, RD. cbn [app replay]. apply RP.
        * destruct (owes_rev xS xH); cbn [app replay]; rewrite replay_app, RD; reflexivity.
      + intros i HI. unfold mid_q in HI. destruct fS.
        * rewrite <- app_assoc, upto_rev_map_app in HI. cbn [app upto_rev] in HI.
          rewrite NRP3, app_nil_r in HI.
          destruct (GP i HI) as [a [HP HA]]. exists a. split; [exact HP|].
          destruct (Nat.eqb (nrev qS) 0); lia.
        * destruct OR as [[N0 O0]|[N1 O1]].
          -- rewrite O0 in HI. cbn [app] in HI. rewrite upto_rev_map_app in HI.
             cbn [upto_rev] in HI. rewrite app_nil_r in HI.
             destruct (GP i HI) as [a [HP HA]]. exists a. split; [exact HP|].
             rewrite N0 in K. cbn [Nat.eqb] in K. lia.
          -- rewrite O1 in HI. cbn [app upto_rev] in HI. destruct HI.
      + eapply Ph1; psimpl; try eassumption; try reflexivity.
        unfold mid_q. destruct fS.
        * exists (map MUpd dl), (if owes_rev xS xH then [MRev] else []).
          rewrite <- app_assoc. cbn [app]. split; [reflexivity|].
          split; [apply nsig_map|]. split; [exact NRP1|]. psimpl.
          split; [unfold hb; psimpl; cbn [tip_of]; rewrite EA, RD, firstn_length; lia|].
          unfold ev_rtail. rewrite nrev_map. cbn [Nat.eqb]. psimpl.
          destruct (Nat.eqb (nrev qS) 0); exact K.
        * destruct OR as [[N0 O0]|[N1 O1]].
          -- rewrite O0. cbn [app]. exists (map MUpd dl), [].
             split; [reflexivity|]. split; [apply nsig_map|]. split; [reflexivity|]. psimpl.
             split; [unfold hb; psimpl; cbn [tip_of]; rewrite EA, RD, firstn_length; lia|].
             unfold ev_rtail. rewrite nrev_map. cbn [Nat.eqb]. psimpl.
             rewrite N0 in K. exact K.
          -- rewrite O1. exists (MRev :: map MUpd dl), [].
             split; [reflexivity|]. split; [cbn [nsig]; apply nsig_map|]. split; [reflexivity|]. psimpl.
             split; [unfold hb; psimpl; cbn [tip_of replay]; rewrite EA, RD, firstn_length; lia|].
             unfold ev_rtail. cbn [nrev]. rewrite nrev_map. cbn [Nat.eqb]. psimpl.
             rewrite N1 in K. exact K.
    - (* the holder revoked into k; its revocation was lost *)
      destruct G as [G [Ho [Hh Hm]]].
      assert (HC : (c_h (lTail xH) =? c_h (rTail xS))%Z = false).
      { rewrite T, Hh. apply Z.eqb_neq. lia. }
      assert (aS = bS) by (subst aS bS; rewrite R, T; reflexivity).
      subst Q. rewrite R, HC. rewrite mid_q_nil. rewrite RP, NRP3.
      split; [congruence|]. split; [intros i HI; destruct HI|].
      eapply Ph3; psimpl; try eassumption; try reflexivity.
      + split; [|split; [exact Ho|split; [exact Hh|exact Hm]]]. psimpl.
        apply good_firstn; try assumption; [subst bS; rewrite R; cbn [tip_of]; lia|].
        specialize (m1b k R). lia.
      + rewrite HN'. unfold owes_rev. rewrite T, Hh, Z.eqb_refl. reflexivity.
      + rewrite firstn_length. subst aS. rewrite T. lia. }
  destruct QF as [QJ [QW QP]].
  constructor; psimpl.
  - exact QJ.
  - apply amounts_nonneg_firstn. exact an.
  - apply nodup_parents_firstn. exact nd.
  - intros i HI. apply parents_firstn_in in HI. destruct (wa i HI) as [a [HP HA]].
    exists a. split; [|exact HA]. apply add_pos_firstn; [exact HP|]. fold aH in HA. lia.
  - intros i HI. rewrite parents_app in HI. apply in_app_or in HI.
    assert (HX : exists a, add_pos (own xH) i = Some a /\ a < n_of H (rTail xH)).
    { destruct HI as [HI|HI]; [|apply QW; exact HI].
      apply parents_firstn_in in HI. apply wb. rewrite parents_app. apply in_or_app. left. exact HI. }
    destruct HX as [a [HP HA]]. exists a. split; [|exact HA].
    apply add_pos_firstn; [exact HP|lia].
  - apply good_firstn; try assumption. lia.
  - apply good_firstn; try assumption.
  - rewrite firstn_length. fold aS. lia.
  - split; assumption.
  - exact QP.
Qed.

End Mid2.

(* ------------------------------------------------------------------ *)
(* Part R5: ProcessChanSyncMsg, the re-signs, and XCut                 *)

Lemma nrev_diff_updates S x : nrev (diff_updates S x) = 0.
Proof. unfold diff_updates. destruct (rTip x); [apply nrev_map|reflexivity]. Qed.

Lemma nrev_sigpart S a b : nrev (sigpart S a b) = 0.
Proof.
  unfold sigpart. destruct (rTip a); [|reflexivity]. destruct (c1b a b); [|reflexivity].
  rewrite nrev_app, nrev_diff_updates. reflexivity.
Qed.

Lemma nrev_mid_q f sp rp : nrev (mid_q f sp rp) = nrev sp + nrev rp.
Proof. unfold mid_q. destruct f; rewrite nrev_app; lia. Qed.

Lemma nrev_revpart a b : nrev (revpart a b) = if owes_rev a b then 1 else 0.
Proof. unfold revpart. destruct (owes_rev a b); reflexivity. Qed.

Section Cut.
Variable c : cfg.

Lemma mid_xdir S H xS xH qS qH fS : H = negb S ->
  InvDir c S H xS xH qS qH -> InvDir c H S xH xS qH qS -> XDir S H xS xH qS fS ->
  XDir S H (restore S xS) (restore H xH)
    (mid_q fS (sigpart S (restore S xS) (restore H xH)) (revpart (restore S xS) (restore H xH))) fS.
Proof.
  intros HSH I1 I2 X. pose proof X as [d f e1 e2].
  destruct I1 as [j1 an nd wa wb gt gl bl m1 ph]. destruct I2 as [j1' an' nd' wa' wb' gt' gl' bl' m1' ph'].
  pose proof (phase_owes_rev c _ _ _ _ _ _ ph') as OR.
  pose proof (phase_nrev_le c _ _ _ _ _ _ ph') as NL.
  constructor.
  - unfold restore. psimpl. intros; discriminate.
  - intros k HE HN HC. rewrite nrev_mid_q, nrev_sigpart, nrev_revpart in HN.
    unfold restore, owes_rev in *. cbn [own peer lTail lTip rTail rTip] in *.
    fold (owes_rev xS xH) in HN, OR.
    assert (N1 : nrev qS = 1).
    { destruct OR as [[N0 O0]|[N1 O1]]; [rewrite O0 in HN; discriminate|exact N1]. }
    assert (T : lTail xH = rTail xS).
    { ph_cases ph; try congruence. exfalso. destruct G as [_ [_ [Hh _]]].
      assert (k = kp) by congruence. subst k. rewrite LT in HC. lia. }
    pose proof (cl1_K c _ _ _ _ _ _ _ _ ph ph' X HE T) as K.
    rewrite N1 in K. exact K.
  - unfold restore. psimpl. intros k HE. rewrite HE. cbn [tip_of].
    rewrite firstn_firstn, Nat.min_id. apply e1. exact HE.
  - unfold restore. psimpl. rewrite skipn_all2; [cbn; lia|]. rewrite firstn_length. lia.
Qed.

(* heights seen by the two decision ladders *)
Definition hts (xS xH : party) : Prop :=
  (rTip xS = None /\ c_h (lTail xH) = c_h (rTail xS)) \/
  (exists k, rTip xS = Some k /\ c_h k = (c_h (rTail xS) + 1)%Z /\
             (c_h (lTail xH) = c_h (rTail xS) \/ c_h (lTail xH) = c_h k)).

Lemma phase_heights S H xS xH qS qH : phase c S H xS xH qS qH -> hts xS xH.
Proof. unfold hts.
  intros ph. ph_cases ph.
  - left. split; [exact R|congruence].
  - right. exists kp. destruct G as [_ [_ [Hh _]]]. split; [exact R|]. split; [exact Hh|]. left. congruence.
  - right. exists kp. destruct G as [_ [_ [Hh _]]]. split; [exact R|]. split; [exact Hh|]. left. congruence.
  - right. exists kp. destruct G as [_ [_ [Hh _]]]. split; [exact R|]. split; [exact Hh|]. right. congruence.
Qed.

Lemma psync_eval S H xS xH fS :
  hts xS xH -> hts xH xS ->
  let a := restore S xS in let b := restore H xH in
  process_sync c S a fS (c_h (lTail b) + 1)%Z (c_h (rTail b)) =
    if owes_rev a b then
      if owes_commit S a then
        match do_sign c S a with
        | (Ok, a', Some m) => (SOk, a', mid_q fS (sigpart S a b) [MRev] ++ [m], true)
        | (ErrNoWindow, _, _) => (SOk, a, mid_q fS (sigpart S a b) [MRev], false)
        | _ => (SErrSign, a, [], false)
        end
      else (SOk, a, mid_q fS (sigpart S a b) [MRev], false)
    else (SOk, a, mid_q fS (sigpart S a b) [], false).
Proof.
  intros HS HH a b. unfold hts in HS, HH.
  assert (La : lTail a = lTail xS) by reflexivity.
  assert (Ra : rTail a = rTail xS) by reflexivity.
  assert (Ta : rTip a = rTip xS) by reflexivity.
  assert (Lb : lTail b = lTail xH) by reflexivity.
  assert (Rb : rTail b = rTail xH) by reflexivity.
  assert (HO : (c_h (rTail xH) = c_h (lTail xS) /\ owes_rev a b = false) \/
               ((c_h (rTail xH) + 1)%Z = c_h (lTail xS) /\ owes_rev a b = true)).
  { unfold owes_rev. rewrite Rb, La.
    destruct HH as [[_ E]|[k' [_ [Hh [E|E]]]]].
    - left. split; [congruence|]. apply Z.eqb_neq. lia.
    - left. split; [congruence|]. apply Z.eqb_neq. lia.
    - right. split; [lia|]. apply Z.eqb_eq. lia. }
  unfold process_sync, sigpart, c1b. cbv zeta. rewrite La, Ra, Ta, Lb, Rb.
  destruct HO as [[E O]|[E O]]; rewrite O.
  - (* no revocation owed *)
    destruct (Z.ltb_spec (c_h (lTail xS)) (c_h (rTail xH))); [lia|].
    destruct (Z.ltb_spec (c_h (rTail xH) + 1) (c_h (lTail xS))); [lia|].
    destruct (Z.eqb_spec (c_h (rTail xH)) (c_h (lTail xS))); [|lia].
    destruct HS as [[R T]|[k [R [Hh [T|T]]]]]; rewrite R; cbn [tip_of].
    + destruct (Z.ltb_spec (c_h (rTail xS) + 1) (c_h (lTail xH) + 1)); [lia|].
      destruct (Z.leb_spec (c_h (lTail xH) + 1) (c_h (rTail xS))); [lia|].
      destruct (Z.eqb_spec (c_h (lTail xH) + 1) (c_h (rTail xS) + 1)); [|lia].
      rewrite mid_q_nil. reflexivity.
    + destruct (Z.ltb_spec (c_h k + 1) (c_h (lTail xH) + 1)); [lia|].
      destruct (Z.leb_spec (c_h (lTail xH) + 1) (c_h (rTail xS))); [lia|].
      destruct (Z.eqb_spec (c_h (lTail xH) + 1) (c_h k + 1)); [lia|].
      destruct (Z.eqb_spec (c_h (lTail xH) + 1) (c_h k)); [|lia].
      destruct (Z.eqb_spec (c_h (lTail xH)) (c_h (rTail xS))); [|lia].
      unfold mid_q. destruct fS; rewrite ?app_nil_r; reflexivity.
    + destruct (Z.ltb_spec (c_h k + 1) (c_h (lTail xH) + 1)); [lia|].
      destruct (Z.leb_spec (c_h (lTail xH) + 1) (c_h (rTail xS))); [lia|].
      destruct (Z.eqb_spec (c_h (lTail xH) + 1) (c_h k + 1)); [|lia].
      destruct (Z.eqb_spec (c_h (lTail xH)) (c_h (rTail xS))); [lia|].
      rewrite mid_q_nil. reflexivity.
  - (* a revocation is owed *)
    destruct (Z.ltb_spec (c_h (lTail xS)) (c_h (rTail xH))); [lia|].
    destruct (Z.ltb_spec (c_h (rTail xH) + 1) (c_h (lTail xS))); [lia|].
    destruct (Z.eqb_spec (c_h (rTail xH)) (c_h (lTail xS))); [lia|].
    assert (DS : forall a' m, do_sign c S a = (Ok, a', Some m) -> rTip xS = None).
    { intros a' m HD. apply do_sign_ok in HD. destruct HD as [k [HR _]]. exact HR. }
    destruct HS as [[R T]|[k [R [Hh [T|T]]]]]; rewrite R; cbn [tip_of].
    + destruct (Z.ltb_spec (c_h (rTail xS) + 1) (c_h (lTail xH) + 1)); [lia|].
      destruct (Z.leb_spec (c_h (lTail xH) + 1) (c_h (rTail xS))); [lia|].
      destruct (Z.eqb_spec (c_h (lTail xH) + 1) (c_h (rTail xS) + 1)); [|lia].
      rewrite mid_q_nil.
      destruct (owes_commit S a); [|reflexivity].
      destruct (do_sign c S a) as [[r a'] [m|]] eqn:HD; destruct r; try reflexivity.
    + destruct (Z.ltb_spec (c_h k + 1) (c_h (lTail xH) + 1)); [lia|].
      destruct (Z.leb_spec (c_h (lTail xH) + 1) (c_h (rTail xS))); [lia|].
      destruct (Z.eqb_spec (c_h (lTail xH) + 1) (c_h k + 1)); [lia|].
      destruct (Z.eqb_spec (c_h (lTail xH) + 1) (c_h k)); [|lia].
      destruct (Z.eqb_spec (c_h (lTail xH)) (c_h (rTail xS))); [|lia].
      destruct (owes_commit S a).
      * destruct (do_sign c S a) as [[r a'] [m|]] eqn:HD; destruct r; try reflexivity.
        exfalso. specialize (DS _ _ eq_refl). congruence.
      * reflexivity.
    + destruct (Z.ltb_spec (c_h k + 1) (c_h (lTail xH) + 1)); [lia|].
      destruct (Z.leb_spec (c_h (lTail xH) + 1) (c_h (rTail xS))); [lia|].
      destruct (Z.eqb_spec (c_h (lTail xH) + 1) (c_h k + 1)); [|lia].
      destruct (Z.eqb_spec (c_h (lTail xH)) (c_h (rTail xS))); [lia|].
      rewrite mid_q_nil.
      destruct (owes_commit S a); [|reflexivity].
      destruct (do_sign c S a) as [[r a'] [m|]] eqn:HD; destruct r; try reflexivity.
Qed.

(* the three possible outcomes of ProcessChanSyncMsg for one party *)
Lemma psync_cases S H xS xH fS :
  hts xS xH -> hts xH xS ->
  let a := restore S xS in let b := restore H xH in
  let Q := mid_q fS (sigpart S a b) (revpart a b) in
  let r := process_sync c S a fS (c_h (lTail b) + 1)%Z (c_h (rTail b)) in
  r = (SOk, a, Q, false) \/
  (exists a' m, do_sign c S a = (Ok, a', Some m) /\ r = (SOk, a', Q ++ [m], true)) \/
  ((exists a' m, do_sign c S a = (ErrSanity, a', m)) /\ r = (SErrSign, a, [], false)).
Proof.
  intros ph ph'. cbv zeta. pose proof (psync_eval S H _ _ fS ph ph') as E. cbv zeta in E.
  rewrite E. clear E. set (a := restore S xS). set (b := restore H xH).
  unfold revpart. destruct (owes_rev a b); [|left; reflexivity].
  destruct (owes_commit S a); [|left; reflexivity].
  destruct (do_sign c S a) as [[r a'] m] eqn:HD.
  assert (HR : r = Ok \/ r = ErrNoWindow \/ r = ErrSanity).
  { unfold do_sign in HD. destruct (rTip a); [inversion HD; auto|]. cbv zeta in HD.
    destruct (commit_of _ _ _ _ _ _ _); inversion HD; auto. }
  destruct HR as [ -> | [ -> | -> ] ].
  - destruct m as [m|].
    + right. left. exists a', m. split; reflexivity.
    + exfalso. unfold do_sign in HD. destruct (rTip a); [discriminate|]. cbv zeta in HD.
      destruct (commit_of _ _ _ _ _ _ _); discriminate.
  - left. reflexivity.
  - right. right. split; [exists a', m; reflexivity|]. destruct m; reflexivity.
Qed.

Lemma xstep_deliver s p :
  snd (xstep c s (XOp (ODeliver p))) = mkX (snd (step c (xs s) (ODeliver p))) (lwrA s) (lwrB s).
Proof. unfold xstep. destruct (step c (xs s) (ODeliver p)) as [r s']. destruct r; reflexivity. Qed.

Lemma xinv_deliver_n p n : forall s fa fb,
  XInv c (mkX s fa fb) -> deliver_n_ok c s p n = true -> XInv c (mkX (deliver_n c s p n) fa fb).
Proof.
  induction n as [|n IH]; intros s fa fb HX HD; cbn [deliver_n deliver_n_ok] in *; [exact HX|].
  apply andb_true_iff in HD. destruct HD as [HD1 HD2].
  apply IH; [|exact HD2].
  pose proof (xinv_deliver c (mkX s fa fb) p HX HD1) as HX'.
  rewrite xstep_deliver in HX'. exact HX'.
Qed.

Lemma xstep_sign_ok M p x' m :
  do_sign c p (get (xs M) p) = (Ok, x', Some m) ->
  snd (xstep c M (XOp (OSign p))) =
  set_lwr (mkX (set_outq (set (xs M) p x') p (outq (xs M) p ++ [m])) (lwrA M) (lwrB M)) p false.
Proof. intros HD. unfold xstep, step. rewrite HD. reflexivity. Qed.

(* the state after losing the queues, restoring both parties and retransmitting
   (before any re-signing) satisfies the invariant again *)
Lemma xinv_mid s1 fa fb : XInv c (mkX s1 fa fb) ->
  let a := restore true (pA s1) in let b := restore false (pB s1) in
  XInv c (mkX (mkSys a b (mid_q fa (sigpart true a b) (revpart a b))
                         (mid_q fb (sigpart false b a) (revpart b a))) fa fb).
Proof.
  intros [[I1 I2] [XA XB]] a b. cbn [xs lwrA lwrB] in *.
  split; [split|split]; cbn [xs lwrA lwrB pA pB qAB qBA].
  - eapply (mid_dir c true false); try eassumption; [reflexivity|].
    rewrite nrev_mid_q, nrev_sigpart. reflexivity.
  - eapply (mid_dir c false true); try eassumption; [reflexivity|].
    rewrite nrev_mid_q, nrev_sigpart. reflexivity.
  - eapply (mid_xdir true false); try eassumption; reflexivity.
  - eapply (mid_xdir false true); try eassumption; reflexivity.
Qed.

Theorem xcut_inv s ka kb : XInv c s -> disciplined c s (XCut ka kb) = true ->
  fst (xstep c s (XCut ka kb)) <> ErrSync /\
  (fst (xstep c s (XCut ka kb)) = Ok -> XInv c (snd (xstep c s (XCut ka kb)))).
Proof.
  intros HX HD. cbn [disciplined] in HD. apply andb_true_iff in HD. destruct HD as [HD1 HD2].
  assert (HX0 : XInv c (mkX (xs s) (lwrA s) (lwrB s))) by (destruct s; exact HX).
  pose proof (xinv_deliver_n true ka _ _ _ HX0 HD1) as HX1.
  pose proof (xinv_deliver_n false kb _ _ _ HX1 HD2) as HX2.
  unfold xstep.
  set (s1 := deliver_n c (deliver_n c (xs s) true ka) false kb) in *.
  pose proof (xinv_mid _ _ _ HX2) as HM. cbv zeta in HM.
  set (a := restore true (pA s1)) in *. set (b := restore false (pB s1)) in *.
  cbn [sync_msg].
  destruct HX2 as [[I1 I2] _]. cbn [xs] in I1, I2.
  pose proof (phase_heights _ _ _ _ _ _ (i_ph _ _ _ _ _ _ _ I1)) as HA.
  pose proof (phase_heights _ _ _ _ _ _ (i_ph _ _ _ _ _ _ _ I2)) as HB.
  pose proof (psync_cases true false _ _ (lwrA s) HA HB) as CA.
  pose proof (psync_cases false true _ _ (lwrB s) HB HA) as CB.
  cbv zeta in CA, CB. fold a b in CA, CB.
  set (QA := mid_q (lwrA s) (sigpart true a b) (revpart a b)) in *.
  set (QB := mid_q (lwrB s) (sigpart false b a) (revpart b a)) in *.
  set (M := mkX (mkSys a b QA QB) (lwrA s) (lwrB s)) in *.
  destruct CA as [CA|[[a' [ma [DA CA]]]|[_ CA]]]; rewrite CA;
  destruct CB as [CB|[[b' [mb [DB CB]]]|[_ CB]]]; rewrite CB; cbn [fst snd];
    (split; [discriminate|]); intros HOk; try discriminate.
  - exact HM.
  - pose proof (xinv_sign c M false HM) as HS.
    rewrite (xstep_sign_ok M false b' mb DB) in HS. exact HS.
  - pose proof (xinv_sign c M true HM) as HS.
    rewrite (xstep_sign_ok M true a' ma DA) in HS. exact HS.
  - pose proof (xinv_sign c M true HM) as HS.
    rewrite (xstep_sign_ok M true a' ma DA) in HS.
    match type of HS with XInv c ?M1 => pose proof (xinv_sign c M1 false HS) as HS2;
      rewrite (xstep_sign_ok M1 false b' mb DB) in HS2 end.
    exact HS2.
Qed.

End Cut.

(* ------------------------------------------------------------------ *)
(* Part R6: statements used by Props_C02.v / Props_C03.v               *)

Lemma xinv_xstep c s o : XInv c s -> disciplined c s o = true ->
  (forall ka kb, o = XCut ka kb -> fst (xstep c s o) = Ok) ->
  XInv c (snd (xstep c s o)).
Proof.
  intros HX HD HOk. destruct o as [o|ka kb].
  - destruct o as [p u|p|p|p].
    + apply xinv_send. exact HX.
    + apply xinv_sign. exact HX.
    + apply xinv_revoke. exact HX.
    + apply xinv_deliver; [exact HX|exact HD].
  - apply (xcut_inv c s ka kb HX HD). apply (HOk ka kb). reflexivity.
Qed.

Lemma dreachable_ok_xinv c s : dreachable_ok c s -> XInv c s.
Proof.
  induction 1 as [s0 H0|s o HR IH HD HOk]; [apply xinit_inv; exact H0|].
  apply xinv_xstep; assumption.
Qed.

Lemma resync_inv c s ka kb : dreachable_ok c s -> disciplined c s (XCut ka kb) = true ->
  fst (xstep c s (XCut ka kb)) = Ok -> Inv c (xs (snd (xstep c s (XCut ka kb)))).
Proof.
  intros HR HD HOk. apply dreachable_ok_xinv in HR.
  destruct (xcut_inv c s ka kb HR HD) as [_ HI]. apply HI in HOk. destruct HOk as [HI' _]. exact HI'.
Qed.

Lemma no_sync_error c s ka kb : dreachable_ok c s -> disciplined c s (XCut ka kb) = true ->
  fst (xstep c s (XCut ka kb)) <> ErrSync.
Proof.
  intros HR HD. apply dreachable_ok_xinv in HR. apply (xcut_inv c s ka kb HR HD).
Qed.

Lemma dreachable_ok_agreement c s : dreachable_ok c s -> forall p k q,
  outq (xs s) (negb p) = MSig k :: q -> fst (step c (xs s) (ODeliver p)) = Ok.
Proof. intros HR. apply dreachable_ok_xinv in HR. destruct HR as [HI _]. apply inv_agreement. exact HI. Qed.

(* ---------- C02: the commitment a restarted node would broadcast ---------- *)
Lemma revoke_advances c s p : Inv c s -> fst (step c s (ORevoke p)) = Ok ->
  c_h (lTail (get (snd (step c s (ORevoke p))) p)) = (c_h (lTail (get s p)) + 1)%Z.
Proof.
  intros HI HOk. destruct (inv_get c s HI p) as [_ I2].
  destruct I2 as [j1' an' nd' wa' wb' gt' gl' bl' m1' ph'].
  unfold step in *. unfold do_revoke in *.
  destruct (lTip (get s p)) as [k|] eqn:HL; [|discriminate]. cbn [snd].
  assert (HK : c_h k = (c_h (lTail (get s p)) + 1)%Z).
  { destruct ph' as [R L NS NR E|kp R G SA L NR E|kp R G NS L NR E B|kp R G NS L LT NR B];
      try congruence.
    assert (kp = k) by congruence. subst kp. destruct G as [_ [_ [Hh _]]]. rewrite Hh, E. reflexivity. }
  destruct p; cbn [get set set_outq pA pB lTail]; exact HK.
Qed.

Lemma restore_keeps_tail p x : lTail (restore p x) = lTail x.
Proof. reflexivity. Qed.

Lemma tail_height_monotone c s o p : Inv c s ->
  (c_h (lTail (get s p)) <= c_h (lTail (get (snd (step c s o)) p)))%Z.
Proof.
  intros HI. destruct o as [q u|q|q|q].
  - unfold step. destruct (upd_enabled c q (get s q) u); [|cbn [snd]; lia].
    destruct p, q; cbn [snd get set set_outq pA pB lTail]; lia.
  - unfold step. destruct (do_sign c q (get s q)) as [[r x'] [m|]] eqn:HD;
      destruct r; cbn [snd]; try lia.
    apply do_sign_ok in HD. destruct HD as [k [_ [_ [-> _]]]].
    destruct p, q; cbn [snd get set set_outq pA pB lTail set_rTip]; lia.
  - destruct (Bool.bool_dec p q) as [->|NE].
    + destruct (fst (step c s (ORevoke q))) eqn:HR;
        try (pose proof (revoke_advances c s q HI HR); lia);
        unfold step in *; unfold do_revoke in *; destruct (lTip (get s q)); cbn [fst snd] in *;
        try discriminate; lia.
    + unfold step. unfold do_revoke. destruct (lTip (get s q)); cbn [snd]; [|lia].
      destruct p, q; try congruence; cbn [snd get set set_outq pA pB lTail]; lia.
  - unfold step. destruct (outq s (negb q)) as [|m r]; [cbn [snd]; lia|].
    destruct m as [u|k|].
    + destruct p, q; cbn [snd get set set_outq pA pB lTail negb]; lia.
    + unfold do_recv_sig. cbv zeta.
      destruct (commit_of _ _ _ _ _ _ _) as [k'|]; [|cbn [snd]; lia].
      destruct (commit_eqb k' k); cbn [snd]; [|lia].
      destruct p, q; cbn [snd get set set_outq pA pB lTail negb]; lia.
    + unfold do_recv_rev. destruct (rTip (get s q)); cbn [snd]; [|lia].
      destruct p, q; cbn [snd get set set_outq pA pB lTail negb]; lia.
Qed.

(* a reconnect that fails with ErrSanity fails because one side's re-signature
   covers a well-formed but unaffordable cut (never because of malformed data) *)
Lemma xcut_sanity c s ka kb : XInv c s -> disciplined c s (XCut ka kb) = true ->
  fst (xstep c s (XCut ka kb)) = ErrSanity ->
  let s1 := deliver_n c (deliver_n c (xs s) true ka) false kb in
  exists p, let x := restore p (get s1 p) in
    rTip x = None /\
    commit_of c (negb p) (c_h (rTail x) + 1)%Z (logA_of p x) (logB_of p x)
              (fst (sign_cut p x)) (snd (sign_cut p x)) = None /\
    commit_wf (logA_of p x) (logB_of p x) (fst (sign_cut p x)) (snd (sign_cut p x)) = true.
Proof.
  intros HX HD. cbn [disciplined] in HD. apply andb_true_iff in HD. destruct HD as [HD1 HD2].
  assert (HX0 : XInv c (mkX (xs s) (lwrA s) (lwrB s))) by (destruct s; exact HX).
  pose proof (xinv_deliver_n c true ka _ _ _ HX0 HD1) as HX1.
  pose proof (xinv_deliver_n c false kb _ _ _ HX1 HD2) as HX2.
  unfold xstep.
  set (s1 := deliver_n c (deliver_n c (xs s) true ka) false kb) in *.
  pose proof (xinv_mid c _ _ _ HX2) as HM. cbv zeta in HM.
  set (a := restore true (pA s1)) in *. set (b := restore false (pB s1)) in *.
  cbn [sync_msg].
  destruct HX2 as [[I1 I2] _]. cbn [xs] in I1, I2.
  pose proof (phase_heights c _ _ _ _ _ _ (i_ph _ _ _ _ _ _ _ I1)) as HA.
  pose proof (phase_heights c _ _ _ _ _ _ (i_ph _ _ _ _ _ _ _ I2)) as HB.
  pose proof (psync_cases c true false _ _ (lwrA s) HA HB) as CA.
  pose proof (psync_cases c false true _ _ (lwrB s) HB HA) as CB.
  cbv zeta in CA, CB. fold a b in CA, CB.
  destruct HM as [HIM _]. cbn [xs] in HIM.
  assert (W : forall p x' m, do_sign c p (if p then a else b) = (ErrSanity, x', m) ->
     let x := if p then a else b in
     rTip x = None /\
     commit_of c (negb p) (c_h (rTail x) + 1)%Z (logA_of p x) (logB_of p x)
               (fst (sign_cut p x)) (snd (sign_cut p x)) = None /\
     commit_wf (logA_of p x) (logB_of p x) (fst (sign_cut p x)) (snd (sign_cut p x)) = true).
  { intros p x' m HDS x. destruct (inv_wf c _ HIM p) as [HW _].
    assert (EX : get {| pA := a; pB := b;
                        qAB := mid_q (lwrA s) (sigpart true a b) (revpart a b);
                        qBA := mid_q (lwrB s) (sigpart false b a) (revpart b a) |} p = x)
      by (destruct p; reflexivity).
    rewrite EX in HW. fold x in HDS. rewrite do_sign_cut in HDS.
    destruct (rTip x); [discriminate|].
    destruct (commit_of c (negb p) (c_h (rTail x) + 1)%Z (logA_of p x) (logB_of p x)
                (fst (sign_cut p x)) (snd (sign_cut p x))); [discriminate|].
    repeat split. exact HW. }
  destruct CA as [CA|[[a' [ma [DA CA]]]|[[a' [ma DA]] CA]]]; rewrite CA;
  destruct CB as [CB|[[b' [mb [DB CB]]]|[[b' [mb DB]] CB]]]; rewrite CB; cbn [fst snd];
    intros HE; try discriminate.
  - exists false. exact (W false _ _ DB).
  - exists false. exact (W false _ _ DB).
  - exists true. exact (W true _ _ DA).
  - exists true. exact (W true _ _ DA).
  - exists true. exact (W true _ _ DA).
Qed.

Lemma dreachable_ok_run c ops : forall s, dreachable_ok c s ->
  xall_ok c s ops = true -> xall_disc c s ops = true -> dreachable_ok c (xrun c s ops).
Proof.
  unfold xrun. induction ops as [|o ops IH]; intros s HR HO HD; cbn [fold_left]; [exact HR|].
  cbn [xall_ok xall_disc] in HO, HD. apply andb_true_iff in HD. destruct HD as [HD1 HD2].
  destruct (xstep c s o) as [r s'] eqn:HS. cbn [snd] in *.
  destruct r; try discriminate.
  apply IH; try assumption.
  replace s' with (snd (xstep c s o)) by (rewrite HS; reflexivity).
  apply dro_step; try assumption. intros ka kb _. rewrite HS. reflexivity.
Qed.

Lemma reach_revoke_advances c s p : reachable c s ->
  fst (step c s (ORevoke p)) = Ok ->
  c_h (lTail (get (snd (step c s (ORevoke p))) p)) = (c_h (lTail (get s p)) + 1)%Z.
Proof. intros HR. apply revoke_advances. apply inv_reachable. exact HR. Qed.

Lemma reach_tail_height_monotone c s o p : reachable c s ->
  (c_h (lTail (get s p)) <= c_h (lTail (get (snd (step c s o)) p)))%Z.
Proof. intros HR. apply tail_height_monotone. apply inv_reachable. exact HR. Qed.

(* ------------------------------------------------------------------ *)
(* Part R7: heights only — a reconnect NEVER reports a data loss, for  *)
(* every free (undisciplined) schedule, also after failed reconnects    *)

Record WDir (xS xH : party) (qS qH : list msg) : Prop := mkWDir {
  w_1 : forall k, rTip xS = Some k -> c_h k = (c_h (rTail xS) + 1)%Z;
  w_2 : forall k, lTip xH = Some k ->
        exists k', rTip xS = Some k' /\ c_h k = c_h k' /\ c_h (lTail xH) = c_h (rTail xS);
  w_3 : c_h (lTail xH) = c_h (rTail xS) \/
        (exists k, rTip xS = Some k /\ c_h (lTail xH) = c_h k /\ lTip xH = None);
  w_4 : nsig qS >= 1 -> rTip xS <> None /\ c_h (lTail xH) = c_h (rTail xS) /\ lTip xH = None;
  w_5 : nrev qH >= 1 -> nrev qH = 1 /\ exists k, rTip xS = Some k /\ c_h (lTail xH) = c_h k;
  w_6 : nsig qS <= 1
}.

Definition WInv (s : sys) : Prop :=
  WDir (pA s) (pB s) (qAB s) (qBA s) /\ WDir (pB s) (pA s) (qBA s) (qAB s).

Lemma wdir_hts xS xH qS qH : WDir xS xH qS qH -> hts xS xH.
Proof.
  intros [w1 w2 w3 w4 w5 w6]. unfold hts.
  destruct (rTip xS) as [k|] eqn:R.
  - right. exists k. split; [reflexivity|]. split; [apply w1; reflexivity|].
    destruct w3 as [E|[k' [R' [E _]]]]; [left; exact E|right]. congruence.
  - left. split; [reflexivity|]. destruct w3 as [E|[k' [R' _]]]; [exact E|discriminate].
Qed.

Lemma w_ext xS xH qS qH xS' xH' qS' qH' : WDir xS xH qS qH ->
  rTip xS' = rTip xS -> rTail xS' = rTail xS -> lTip xH' = lTip xH -> lTail xH' = lTail xH ->
  nsig qS' = nsig qS -> nrev qH' = nrev qH -> WDir xS' xH' qS' qH'.
Proof.
  intros [w1 w2 w3 w4 w5 w6] E1 E2 E3 E4 E5 E6.
  constructor; rewrite ?E1, ?E2, ?E3, ?E4, ?E5, ?E6; assumption.
Qed.

Lemma w_sign xS xH qS qH k : WDir xS xH qS qH -> rTip xS = None ->
  c_h k = (c_h (rTail xS) + 1)%Z -> WDir (set_rTip xS (Some k)) xH (qS ++ [MSig k]) qH.
Proof.
  intros [w1 w2 w3 w4 w5 w6] R Hh. unfold set_rTip.
  assert (L : lTip xH = None).
  { destruct (lTip xH) as [k0|] eqn:L; [|reflexivity].
    destruct (w2 k0 eq_refl) as [k' [R' _]]. congruence. }
  assert (E : c_h (lTail xH) = c_h (rTail xS)).
  { destruct w3 as [E|[k' [R' _]]]; [exact E|congruence]. }
  assert (NS : nsig qS = 0).
  { destruct (nsig qS) eqn:N; [reflexivity|]. exfalso. apply w4; [lia|exact R]. }
  assert (NR : nrev qH = 0).
  { destruct (nrev qH) eqn:N; [reflexivity|]. exfalso.
    destruct w5 as [_ [k' [R' _]]]; [lia|congruence]. }
  constructor; psimpl.
  - intros k0 HE. inversion HE; subst. exact Hh.
  - intros k0 HE. congruence.
  - left. exact E.
  - intros _. split; [discriminate|]. split; assumption.
  - intros HN. lia.
  - rewrite nsig_app, NS. cbn. lia.
Qed.

Lemma w_dsig xS xH q qH k0 k' : WDir xS xH (MSig k0 :: q) qH ->
  c_h k' = (c_h (tip_of (lTail xH) (lTip xH)) + 1)%Z ->
  WDir xS (set_lTip xH (Some k')) q qH.
Proof.
  intros [w1 w2 w3 w4 w5 w6] Hh. unfold set_lTip. cbn [nsig] in *.
  destruct w4 as [R [E L]]; [lia|]. rewrite L in Hh. cbn [tip_of] in Hh.
  assert (HK : exists k, rTip xS = Some k)
    by (destruct (rTip xS) as [k|]; [exists k; reflexivity|congruence]).
  destruct HK as [k RK]. pose proof (w1 k RK) as H1.
  constructor; psimpl.
  - exact w1.
  - intros k1 HE. inversion HE; subst k1. exists k. split; [exact RK|]. split; [lia|exact E].
  - left. exact E.
  - intros HN. lia.
  - intros HN. destruct (w5 HN) as [N1 [k1 [R1 E1]]]. exfalso.
    assert (k1 = k) by congruence. subst k1. lia.
  - lia.
Qed.

Lemma w_revoke xS xH qS qH k : WDir xS xH qS qH -> lTip xH = Some k ->
  WDir xS (revoked xH k) qS (qH ++ [MRev]).
Proof.
  intros [w1 w2 w3 w4 w5 w6] L. unfold revoked.
  destruct (w2 k L) as [k' [R [Hk E]]]. pose proof (w1 k' R) as H1.
  assert (NR : nrev qH = 0).
  { destruct (nrev qH) eqn:N; [reflexivity|]. exfalso.
    destruct w5 as [_ [k1 [R1 E1]]]; [lia|]. assert (k1 = k') by congruence. subst k1. lia. }
  assert (NS : nsig qS = 0).
  { destruct (nsig qS) eqn:N; [reflexivity|]. exfalso.
    destruct w4 as [_ [_ L']]; [lia|congruence]. }
  constructor; psimpl.
  - exact w1.
  - intros k0 HE. discriminate.
  - right. exists k'. split; [exact R|]. split; [exact Hk|reflexivity].
  - intros HN. lia.
  - intros _. rewrite nrev_app, NR. cbn. split; [reflexivity|]. exists k'. split; assumption.
  - lia.
Qed.

Lemma w_drev xS xH qS q k : WDir xS xH qS (MRev :: q) -> rTip xS = Some k ->
  WDir (recv_rev xS k) xH qS q.
Proof.
  intros [w1 w2 w3 w4 w5 w6] R. unfold recv_rev. cbn [nrev] in *.
  destruct w5 as [N1 [k1 [R1 E1]]]; [lia|]. assert (k1 = k) by congruence. subst k1.
  pose proof (w1 k R) as H1.
  assert (L : lTip xH = None).
  { destruct (lTip xH) as [k0|] eqn:L; [|reflexivity]. exfalso.
    destruct (w2 k0 eq_refl) as [k' [R' [_ E]]]. lia. }
  assert (NS : nsig qS = 0).
  { destruct (nsig qS) eqn:N; [reflexivity|]. exfalso.
    destruct w4 as [_ [E _]]; [lia|]. lia. }
  constructor; psimpl.
  - intros k0 HE. discriminate.
  - intros k0 HE. congruence.
  - left. exact E1.
  - intros HN. lia.
  - intros HN. lia.
  - lia.
Qed.

Section Heights.
Variable c : cfg.

Ltac wext W :=
  eapply w_ext; [exact W|..]; try reflexivity;
  rewrite ?nsig_app, ?nrev_app; cbn [nsig nrev]; lia.

Lemma winv_init s0 : init_sys c = Some s0 -> WInv s0.
Proof.
  unfold init_sys, init_party. cbn [negb].
  destruct (init_commit c true) as [ka|] eqn:HA; [|discriminate].
  destruct (init_commit c false) as [kb|] eqn:HB; [|discriminate].
  intros HE. inversion HE; subst s0; clear HE.
  split; constructor; cbn [pA pB qAB qBA own peer lTail lTip rTail rTip nsig nrev];
    try (intros; discriminate); try (intros; lia); left; reflexivity.
Qed.

Lemma winv_step s o : WInv s -> WInv (snd (step c s o)).
Proof.
  intros [WA WB]. unfold WInv. destruct o as [p u|p|p|p]; unfold step.
  - destruct (upd_enabled c p (get s p) u); [|split; assumption].
    destruct p; cbn [snd get set outq set_outq pA pB qAB qBA]; split;
      [wext WA|wext WB|wext WA|wext WB].
  - destruct (do_sign c p (get s p)) as [[r x'] [m|]] eqn:HD;
      destruct r; try (split; assumption).
    apply do_sign_ok in HD. destruct HD as [k [HR [HK [-> ->]]]].
    apply commit_of_inv in HK. destruct HK as [gA [gB [_ [_ HK]]]]. cbv zeta in HK.
    destruct HK as [_ [_ [_ [_ [Hh _]]]]].
    destruct p; cbn [snd get set outq set_outq pA pB qAB qBA negb] in *; split.
    + apply w_sign; assumption.
    + wext WB.
    + wext WA.
    + apply w_sign; assumption.
  - unfold do_revoke. destruct (lTip (get s p)) as [k|] eqn:HL; [|split; assumption].
    destruct p; cbn [snd get set outq set_outq pA pB qAB qBA negb] in *; split.
    + wext WA.
    + exact (w_revoke _ _ _ _ k WB HL).
    + exact (w_revoke _ _ _ _ k WA HL).
    + wext WB.
  - destruct (outq s (negb p)) as [|m q] eqn:HQ; [split; assumption|].
    destruct m as [u|k|].
    + destruct p; cbn [snd get set outq set_outq pA pB qAB qBA negb] in *; rewrite HQ in *; split;
        [wext WA|wext WB|wext WA|wext WB].
    + rewrite do_recv_sig_cut.
      destruct (commit_of c p (c_h (tip_of (lTail (get s p)) (lTip (get s p))) + 1)%Z
                  (logA_of p (get s p)) (logB_of p (get s p))
                  (fst (recv_cut p (get s p))) (snd (recv_cut p (get s p)))) as [k'|] eqn:HK;
        [|split; assumption].
      destruct (commit_eqb k' k); [|split; assumption].
      apply commit_of_inv in HK. destruct HK as [gA [gB [_ [_ HK]]]]. cbv zeta in HK.
      destruct HK as [_ [_ [_ [_ [Hh _]]]]].
      destruct p; cbn [snd get set outq set_outq pA pB qAB qBA negb] in *; rewrite HQ in *; split.
      * wext WA.
      * exact (w_dsig _ _ _ _ k k' WB Hh).
      * exact (w_dsig _ _ _ _ k k' WA Hh).
      * wext WB.
    + unfold do_recv_rev. destruct (rTip (get s p)) as [k|] eqn:HR; [|split; assumption].
      destruct p; cbn [snd get set outq set_outq pA pB qAB qBA negb] in *; rewrite HQ in *; split.
      * exact (w_drev _ _ _ _ k WA HR).
      * wext WB.
      * wext WA.
      * exact (w_drev _ _ _ _ k WB HR).
Qed.

Lemma winv_deliver_n p n : forall s, WInv s -> WInv (deliver_n c s p n).
Proof.
  induction n as [|n IH]; intros s HW; cbn [deliver_n]; [exact HW|].
  apply IH. apply winv_step. exact HW.
Qed.

Lemma nsig_diff_updates S x : nsig (diff_updates S x) = 0.
Proof. unfold diff_updates. destruct (rTip x); [apply nsig_map|reflexivity]. Qed.

Lemma nsig_mid_q f sp rp : nsig (mid_q f sp rp) = nsig sp + nsig rp.
Proof. unfold mid_q. destruct f; rewrite nsig_app; lia. Qed.

Lemma nsig_revpart a b : nsig (revpart a b) = 0.
Proof. unfold revpart. destruct (owes_rev a b); reflexivity. Qed.

Lemma w_restore S H xS xH qS qH : WDir xS xH qS qH ->
  WDir (restore S xS) (restore H xH) [] [].
Proof.
  intros [w1 w2 w3 w4 w5 w6]. unfold restore. constructor; psimpl; cbn [nsig nrev].
  - exact w1.
  - intros; discriminate.
  - destruct w3 as [E|[k [R [E _]]]]; [left; exact E|right; exists k; auto].
  - lia.
  - lia.
  - lia.
Qed.

Lemma w_mid S H xS xH qS qH fS fH : WDir xS xH qS qH ->
  let a := restore S xS in let b := restore H xH in
  WDir a b (mid_q fS (sigpart S a b) (revpart a b)) (mid_q fH (sigpart H b a) (revpart b a)).
Proof.
  intros [w1 w2 w3 w4 w5 w6] a b.
  assert (W3 : c_h (lTail xH) = c_h (rTail xS) \/
               (exists k, rTip xS = Some k /\ c_h (lTail xH) = c_h k /\ @None commit = None)).
  { destruct w3 as [E|[k [R [E _]]]]; [left; exact E|right; exists k; auto]. }
  constructor; rewrite ?nsig_mid_q, ?nsig_revpart, ?nrev_mid_q, ?nrev_sigpart, ?nrev_revpart.
  - exact w1.
  - subst b. unfold restore. psimpl. intros; discriminate.
  - exact W3.
  - unfold sigpart, c1b. change (rTip a) with (rTip xS). change (lTail b) with (lTail xH).
    change (rTail a) with (rTail xS). change (lTip b) with (@None commit).
    destruct (rTip xS) as [k|]; [|cbn; lia].
    destruct (Z.eqb_spec (c_h (lTail xH)) (c_h (rTail xS))); [|cbn; lia].
    intros _. split; [discriminate|]. split; [assumption|reflexivity].
  - unfold owes_rev. change (rTail a) with (rTail xS). change (lTail b) with (lTail xH).
    destruct (Z.eqb_spec (c_h (rTail xS) + 1) (c_h (lTail xH))) as [E|E]; [|lia].
    intros _. split; [reflexivity|].
    destruct W3 as [E'|[k [R [E' _]]]]; [lia|]. exists k. split; assumption.
  - unfold sigpart. destruct (rTip a); [|cbn; lia]. destruct (c1b a b); [|cbn; lia].
    rewrite nsig_app, nsig_diff_updates. cbn. lia.
Qed.

Lemma step_sign_ok M p x' m : do_sign c p (get M p) = (Ok, x', Some m) ->
  snd (step c M (OSign p)) = set_outq (set M p x') p (outq M p ++ [m]).
Proof. intros HD. unfold step. rewrite HD. reflexivity. Qed.

Theorem wcut s ka kb : WInv (xs s) ->
  fst (xstep c s (XCut ka kb)) <> ErrSync /\ WInv (xs (snd (xstep c s (XCut ka kb)))).
Proof.
  intros HW.
  pose proof (winv_deliver_n false kb _ (winv_deliver_n true ka _ HW)) as HW2.
  unfold xstep.
  set (s1 := deliver_n c (deliver_n c (xs s) true ka) false kb) in *.
  destruct HW2 as [WA WB].
  pose proof (w_mid true false _ _ _ _ (lwrA s) (lwrB s) WA) as MA.
  pose proof (w_mid false true _ _ _ _ (lwrB s) (lwrA s) WB) as MB.
  pose proof (w_restore true false _ _ _ _ WA) as RA.
  pose proof (w_restore false true _ _ _ _ WB) as RB.
  cbv zeta in MA, MB.
  pose proof (psync_cases c true false _ _ (lwrA s) (wdir_hts _ _ _ _ WA) (wdir_hts _ _ _ _ WB)) as CA.
  pose proof (psync_cases c false true _ _ (lwrB s) (wdir_hts _ _ _ _ WB) (wdir_hts _ _ _ _ WA)) as CB.
  cbv zeta in CA, CB.
  set (a := restore true (pA s1)) in *. set (b := restore false (pB s1)) in *.
  cbn [sync_msg].
  set (QA := mid_q (lwrA s) (sigpart true a b) (revpart a b)) in *.
  set (QB := mid_q (lwrB s) (sigpart false b a) (revpart b a)) in *.
  assert (HM : WInv (mkSys a b QA QB)) by (split; assumption).
  assert (HR : WInv (mkSys a b [] [])) by (split; assumption).
  destruct CA as [CA|[[a' [ma [DA CA]]]|[_ CA]]]; rewrite CA;
  destruct CB as [CB|[[b' [mb [DB CB]]]|[_ CB]]]; rewrite CB; cbn [fst snd xs];
    (split; [discriminate|]); try exact HR.
  - exact HM.
  - pose proof (winv_step _ (OSign false) HM) as HS.
    rewrite (step_sign_ok (mkSys a b QA QB) false b' mb DB) in HS. exact HS.
  - pose proof (winv_step _ (OSign true) HM) as HS.
    rewrite (step_sign_ok (mkSys a b QA QB) true a' ma DA) in HS. exact HS.
  - pose proof (winv_step _ (OSign true) HM) as HS.
    rewrite (step_sign_ok (mkSys a b QA QB) true a' ma DA) in HS.
    match type of HS with WInv ?M1 => pose proof (winv_step M1 (OSign false) HS) as HS2;
      rewrite (step_sign_ok M1 false b' mb DB) in HS2 end.
    exact HS2.
Qed.

Lemma xstep_xop_xs s o : xs (snd (xstep c s (XOp o))) = snd (step c (xs s) o).
Proof.
  unfold xstep. destruct (step c (xs s) o) as [r s']. destruct r, o; try destruct p; reflexivity.
Qed.

Lemma winv_xstep s o : WInv (xs s) -> WInv (xs (snd (xstep c s o))).
Proof.
  intros HW. destruct o as [o|ka kb].
  - rewrite xstep_xop_xs. apply winv_step. exact HW.
  - apply wcut. exact HW.
Qed.

Lemma winv_xrun ops : forall s, WInv (xs s) -> WInv (xs (xrun c s ops)).
Proof.
  unfold xrun. induction ops as [|o ops IH]; intros s HW; cbn [fold_left]; [exact HW|].
  apply IH. apply winv_xstep. exact HW.
Qed.

Lemma xreachable_winv s : xreachable c s -> WInv (xs s).
Proof.
  intros [s0 [ops [H0 ->]]]. apply winv_xrun. unfold xinit in H0.
  destruct (init_sys c) as [s'|] eqn:HI; [|discriminate]. inversion H0; subst s0.
  cbn [xs]. apply winv_init. exact HI.
Qed.

Lemma free_no_sync_error s ka kb : xreachable c s -> fst (xstep c s (XCut ka kb)) <> ErrSync.
Proof. intros HR. apply wcut. apply xreachable_winv. exact HR. Qed.

Lemma dreachable_xreachable s : dreachable c s -> xreachable c s.
Proof.
  induction 1 as [s0 H0|s o HR IH HD].
  - exists s0, []. split; [exact H0|reflexivity].
  - destruct IH as [s0 [ops [H0 ->]]]. exists s0, (ops ++ [o]). split; [exact H0|].
    unfold xrun. rewrite fold_left_app. reflexivity.
Qed.

Lemma dreachable_no_sync_error s ka kb : dreachable c s -> fst (xstep c s (XCut ka kb)) <> ErrSync.
Proof. intros HR. apply free_no_sync_error. apply dreachable_xreachable. exact HR. Qed.

End Heights.
