(* Proofs about restart (C02) and resynchronisation (C03), on top of the
   two-party invariant of Channel/Proofs.v.
   Part R1: restore is idempotent; restore keeps every signed commitment
            reproducible from the kept logs (C02). *)
From Coq Require Import List ZArith Bool Arith Lia.
From LV Require Import Channel.Model Channel.Proofs Channel.Resync Channel.Discipline.
Import ListNotations.
Local Open Scope nat_scope.

Lemma restore_idem p x : restore p (restore p x) = restore p x.
Proof.
  unfold restore. cbn [own peer lTail lTip rTail rTip].
  rewrite !firstn_firstn, !Nat.min_id. reflexivity.
Qed.

Lemma good_sym c S H lS lH k : H = negb S -> good c H S lH lS k -> good c S H lS lH k.
Proof.
  intros -> [HK [H1 H2]]. split; [|split; assumption].
  destruct S; cbn [sel negb] in *; exact HK.
Qed.

Section Restore.
Variable c : cfg.

(* cuts never run ahead of the signer's newest remote commitment *)
Lemma phase_m2 S H xS xH qS qH : phase c S H xS xH qS qH ->
  n_of S (lTail xH) <= n_of S (tip_of (rTail xS) (rTip xS)) /\
  n_of S (rTail xS) <= n_of S (tip_of (rTail xS) (rTip xS)).
Proof.
  intros ph.
  destruct ph as [R L NS NR E|kp R G SA L NR E|kp R G NS L NR E B|kp R G NS L LT NR B];
    rewrite R; cbn [tip_of]; try (destruct G as [_ [_ [_ HM]]]); subst; try rewrite <- E; lia.
Qed.

Lemma ltail_own_bound S H xS xH qS qH :
  InvDir c S H xS xH qS qH -> InvDir c H S xH xS qH qS ->
  n_of S (lTail xS) <= n_of S (tip_of (rTail xS) (rTip xS)).
Proof.
  intros [j1 an nd wa wb gt gl bl m1 ph] [j1' an' nd' wa' wb' gt' gl' bl' m1' ph'].
  destruct (phase_m2 _ _ _ _ _ _ ph) as [HA _]. destruct m1' as [m1a m1b].
  destruct ph' as [R L NS NR E|kp R G SA L NR E|kp R G NS L NR E B|kp R G NS L LT NR B];
    try (rewrite <- E; lia).
  subst kp. specialize (m1b _ R). lia.
Qed.

Lemma restore_commit_aux S H xS xH e k : H = negb S ->
  good c S H (own xS) (own xH) k ->
  n_of S k <= n_of S (tip_of (rTail xS) (rTip xS)) ->
  n_of H k <= n_of H (lTail xS) ->
  n_of H (lTail xS) <= length (peer xS) -> peer xS ++ e = own xH ->
  let x' := restore S xS in
  n_of S k <= length (own x') /\ n_of H k <= length (peer x') /\
  commit_of c (c_owner k) (c_h k) (logA_of S x') (logB_of S x') (c_nA k) (c_nB k) = Some k.
Proof.
  intros HSH [HK [HS HH]] B1 B2 B3 J x'. subst x'. unfold restore. subst H.
  cbn [own peer]. rewrite !firstn_length. split; [lia|]. split; [lia|].
  rewrite <- HK.
  destruct S; cbn [sel negb n_of logA_of logB_of own peer] in *; apply commit_of_ext;
    rewrite firstn_firstn.
  - rewrite Nat.min_l by lia. reflexivity.
  - rewrite Nat.min_l by lia. eapply firstn_prefix; [exact J|lia].
  - rewrite Nat.min_l by lia. eapply firstn_prefix; [exact J|lia].
  - rewrite Nat.min_l by lia. reflexivity.
Qed.

Lemma restore_keeps S H xS xH qS qH : H = negb S ->
  InvDir c S H xS xH qS qH -> InvDir c H S xH xS qH qS ->
  let x' := restore S xS in
  forall k, In k (commits_of x') ->
  n_of S k <= length (own x') /\ n_of H k <= length (peer x') /\
  commit_of c (c_owner k) (c_h k) (logA_of S x') (logB_of S x') (c_nA k) (c_nB k) = Some k.
Proof.
  intros HSH I1 I2 x' k HK.
  pose proof (ltail_own_bound _ _ _ _ _ _ I1 I2) as HLB.
  destruct I1 as [j1 an nd wa wb gt gl bl m1 ph]. destruct I2 as [j1' an' nd' wa' wb' gt' gl' bl' m1' ph'].
  destruct (phase_m2 _ _ _ _ _ _ ph) as [_ HRB]. destruct m1 as [m1a m1b].
  subst x'. unfold commits_of, restore in HK. cbn [lTail lTip rTail rTip app In] in HK.
  destruct HK as [<-|[<-|HK]].
  - eapply restore_commit_aux; try eassumption; [|lia].
    apply good_sym; [exact HSH|exact gl'].
  - eapply restore_commit_aux; eassumption.
  - destruct (rTip xS) as [k'|] eqn:HR; [|contradiction]. destruct HK as [<-|[]].
    eapply restore_commit_aux; try eassumption.
    + eapply phase_rtip_good; eassumption.
    + rewrite HR. cbn [tip_of]. lia.
    + apply m1b. reflexivity.
Qed.

Lemma inv_restore_keeps s : Inv c s -> forall p,
  let x' := restore p (get s p) in
  lTail x' = lTail (get s p) /\ rTail x' = rTail (get s p) /\ rTip x' = rTip (get s p) /\
  forall k, In k (commits_of x') ->
    n_of p k <= length (own x') /\ n_of (negb p) k <= length (peer x') /\
    commit_of c (c_owner k) (c_h k) (logA_of p x') (logB_of p x') (c_nA k) (c_nB k) = Some k.
Proof.
  intros HI p x'. split; [reflexivity|]. split; [reflexivity|]. split; [reflexivity|].
  destruct (inv_get c s HI p) as [I1 I2].
  eapply restore_keeps; try eassumption; reflexivity.
Qed.

End Restore.

Lemma reach_restore_keeps c s : reachable c s -> forall p,
  let x' := restore p (get s p) in
  lTail x' = lTail (get s p) /\ rTail x' = rTail (get s p) /\ rTip x' = rTip (get s p) /\
  forall k, In k (commits_of x') ->
    n_of p k <= length (own x') /\ n_of (negb p) k <= length (peer x') /\
    commit_of c (c_owner k) (c_h k) (logA_of p x') (logB_of p x') (c_nA k) (c_nB k) = Some k.
Proof. intros HR. apply inv_restore_keeps. apply inv_reachable. exact HR. Qed.

(* ------------------------------------------------------------------ *)
(* Part R2: the discipline / LastWasRevoke invariant for ordinary ops  *)

Ltac ph_cases ph :=
  destruct ph as [R L NS NR E|kp R G SA L NR E|kp R G NS L NR E B|kp R G NS L LT NR B].
Ltac psimpl := cbn [own peer lTail lTip rTail rTip].

(* Per direction "S signs H's commitments"; fS = LastWasRevoke of S.
   x_d1: a received-but-unrevoked commitment was computed with the CURRENT
         own-count of the holder (no revocation consumed since; discipline).
   x_f : if S has an unacked signature k AND an undelivered revocation, the flag
         tells which of the two came first, i.e. which of H's counts k used. *)
Record XDir (S H : bool) (xS xH : party) (qS : list msg) (fS : bool) : Prop := mkXDir {
  x_d1 : forall k, lTip xH = Some k -> n_of H k = n_of H (rTail xH);
  x_f : forall k, rTip xS = Some k -> nrev qS = 1 -> c_h (lTail xH) = c_h (rTail xS) ->
        n_of H k = n_of H (if fS then rTail xH else tip_of (rTail xH) (rTip xH))
}.

Lemma xdir_ext S H xS xH qS fS xS' xH' qS' :
  XDir S H xS xH qS fS ->
  lTip xH' = lTip xH -> rTail xH' = rTail xH -> rTip xH' = rTip xH -> lTail xH' = lTail xH ->
  rTip xS' = rTip xS -> rTail xS' = rTail xS -> nrev qS' = nrev qS ->
  XDir S H xS' xH' qS' fS.
Proof.
  intros [d f] E1 E2 E3 E4 E5 E6 E7. constructor; rewrite ?E1, ?E2, ?E3, ?E4, ?E5, ?E6, ?E7; assumption.
Qed.

Section XOps.
Variable c : cfg.

Lemma nrev_snoc_upd q u : nrev (q ++ [MUpd u]) = nrev q.
Proof. rewrite nrev_app. cbn. lia. Qed.
Lemma nrev_snoc_sig q k : nrev (q ++ [MSig k]) = nrev q.
Proof. rewrite nrev_app. cbn. lia. Qed.
Lemma nrev_snoc_rev q : nrev (q ++ [MRev]) = Datatypes.S (nrev q).
Proof. rewrite nrev_app. cbn. lia. Qed.

(* phase facts *)
Lemma phase_nrev_le S H xS xH qS qH : phase c S H xS xH qS qH -> nrev qH <= 1.
Proof. intros ph. ph_cases ph; lia. Qed.

Lemma phase_nrev1 S H xS xH qS qH : phase c S H xS xH qS qH -> nrev qH = 1 ->
  exists k, rTip xS = Some k /\ lTail xH = k /\ lTip xH = None /\ kgood c S H xS xH k.
Proof. intros ph HN. ph_cases ph; try lia. exists kp. auto. Qed.

(* actor S: OSign *)
Lemma xsign_S S H xS xH qS qH fS k : H = negb S ->
  InvDir c S H xS xH qS qH -> InvDir c H S xH xS qH qS ->
  XDir S H xS xH qS fS -> rTip xS = None ->
  commit_of c H (c_h (rTail xS) + 1)%Z (logA_of S xS) (logB_of S xS)
    (sel S (length (own xS)) (n_of H (lTail xS)))
    (sel S (n_of H (lTail xS)) (length (own xS))) = Some k ->
  XDir S H (set_rTip xS (Some k)) xH (qS ++ [MSig k]) false.
Proof.
  intros HSH [j1 an nd wa wb gt gl bl m1 ph] [j1' an' nd' wa' wb' gt' gl' bl' m1' ph'] [d f] HR HK.
  unfold set_rTip. constructor; psimpl; [exact d|].
  intros k0 HE HN _. inversion HE; subst k0. rewrite nrev_snoc_sig in HN.
  destruct (phase_nrev1 _ _ _ _ _ _ ph' HN) as [k' [R' [LT' _]]].
  rewrite R'. cbn [tip_of].
  assert (HL : length (own xH) = length (peer xS) + nupd qH).
  { rewrite <- j1', app_length. reflexivity. }
  apply sign_good with (xH := xH) in HK; try assumption; try lia.
  2:{ eapply firstn_prefix; [exact j1'|exact bl']. }
  destruct HK as [_ [_ [_ [_ HnH]]]]. rewrite HnH, LT'. reflexivity.
Qed.

(* actor H: OSign (seen from direction S) *)
Lemma xsign_H S H xS xH qS qH fS t :
  InvDir c H S xH xS qH qS -> XDir S H xS xH qS fS -> rTip xH = None ->
  XDir S H xS (set_rTip xH t) qS fS.
Proof.
  intros [j1' an' nd' wa' wb' gt' gl' bl' m1' ph'] [d f] HR.
  unfold set_rTip. constructor; psimpl; [exact d|].
  intros k HE HN HC. exfalso.
  destruct (phase_nrev1 _ _ _ _ _ _ ph' HN) as [k' [R' _]]. congruence.
Qed.

(* actor S: ORevoke *)
Lemma xrevoke_S S H xS xH qS qH fS k : H = negb S ->
  InvDir c S H xS xH qS qH -> InvDir c H S xH xS qH qS ->
  XDir S H xS xH qS fS -> lTip xS = Some k ->
  XDir S H (revoked xS k) xH (qS ++ [MRev]) true.
Proof.
  intros HSH [j1 an nd wa wb gt gl bl m1 ph] [j1' an' nd' wa' wb' gt' gl' bl' m1' ph'] [d f] HL.
  unfold revoked. constructor; psimpl; [exact d|].
  intros k0 HE HN HC. rewrite nrev_snoc_rev in HN.
  assert (HN0 : nrev qS = 0) by lia.
  ph_cases ph; try congruence; assert (k0 = kp) by congruence; subst k0.
  - destruct SA as [pre [post [EQ [N1 [N2 [C1 C2]]]]]].
    rewrite EQ in HN0. apply nrev_app_0 in HN0. destruct HN0 as [HN0 _].
    unfold ev_rtail in C2. rewrite HN0 in C2. exact C2.
  - apply d. exact L.
  - exfalso. destruct G as [_ [_ [Hh _]]]. rewrite LT in HC. lia.
Qed.

(* actor H: ORevoke (seen from direction S) *)
Lemma xrevoke_H S H xS xH qS qH fS k : H = negb S ->
  InvDir c S H xS xH qS qH ->
  XDir S H xS xH qS fS -> lTip xH = Some k ->
  XDir S H xS (revoked xH k) qS fS.
Proof.
  intros HSH [j1 an nd wa wb gt gl bl m1 ph] [d f] HL.
  unfold revoked. constructor; psimpl; [intros ? ?; discriminate|].
  intros k0 HE HN HC. exfalso.
  ph_cases ph; try congruence. assert (k0 = kp) by congruence. subst k0.
  assert (k = kp) by congruence. subst k.
  destruct G as [_ [_ [Hh _]]]. lia.
Qed.

(* actor H: receives the head signature of qS *)
Lemma xdsig_H S H xS xH qS0 q fS k0 : H = negb S ->
  InvDir c S H xS xH (MSig k0 :: q) qS0 ->
  XDir S H xS xH (MSig k0 :: q) fS ->
  XDir S H xS (set_lTip xH (Some k0)) q fS.
Proof.
  intros HSH I1 [d f].
  pose proof (head_sig c H S xH xS qS0 q k0) as HS.
  (* head_sig is stated for the direction whose holder receives: instantiate *)
  specialize (HS I1). destruct HS as [R [G [N2 [C1 [C2 [L [NR E]]]]]]].
  unfold set_lTip. constructor; psimpl.
  - intros k HE. inversion HE; subst k. exact C2.
  - intros k HE HN HC. apply f; assumption.
Qed.

(* actor H: receives a revocation at the head of qS, with lTip xH = None *)
Lemma xdrev_H S H xS xH qS0 q fS k : H = negb S ->
  InvDir c H S xH xS qS0 (MRev :: q) ->
  XDir S H xS xH (MRev :: q) fS -> lTip xH = None ->
  XDir S H xS (recv_rev xH k) q fS.
Proof.
  intros HSH [j1' an' nd' wa' wb' gt' gl' bl' m1' ph'] [d f] HL.
  unfold recv_rev. constructor; psimpl.
  - intros k0 HE. congruence.
  - intros k0 HE HN. exfalso. apply phase_nrev_le in ph'. cbn [nrev] in ph'. lia.
Qed.

(* actor S: receives a revocation (rTip S := None) *)
Lemma xdrev_S S H xS xH qS fS k :
  XDir S H xS xH qS fS -> XDir S H (recv_rev xS k) xH qS fS.
Proof.
  intros [d f]. unfold recv_rev. constructor; psimpl; [exact d|]. intros; discriminate.
Qed.

End XOps.

(* ---------- the extended invariant on xsys ---------- *)
Definition XInv (c : cfg) (s : xsys) : Prop :=
  Inv c (xs s) /\
  XDir true false (pA (xs s)) (pB (xs s)) (qAB (xs s)) (lwrA s) /\
  XDir false true (pB (xs s)) (pA (xs s)) (qBA (xs s)) (lwrB s).

Ltac xext X :=
  eapply xdir_ext; [exact X|..]; try reflexivity;
  cbn [nrev]; rewrite ?nrev_snoc_upd, ?nrev_snoc_sig; try reflexivity.

Lemma xinit_inv c s0 : xinit c = Some s0 -> XInv c s0.
Proof.
  unfold xinit. destruct (init_sys c) as [s|] eqn:H0; [|discriminate].
  intros HE. inversion HE; subst s0; clear HE. pose proof (inv_init c s H0) as HI.
  split; [exact HI|].
  unfold init_sys, init_party in H0.
  cbn [negb] in H0.
  destruct (init_commit c true); [|discriminate]. destruct (init_commit c false); [|discriminate].
  inversion H0; subst s; clear H0.
  split; constructor; cbn; intros; discriminate.
Qed.

Lemma xinv_send c s p u : XInv c s -> XInv c (snd (xstep c s (XOp (OSend p u)))).
Proof.
  intros [HI [XA XB]]. pose proof (inv_step_send c (xs s) p u HI) as HI'.
  unfold xstep. destruct (step c (xs s) (OSend p u)) as [r s'] eqn:HS. cbn [snd] in HI'.
  assert (HX : XDir true false (pA s') (pB s') (qAB s') (lwrA s) /\
               XDir false true (pB s') (pA s') (qBA s') (lwrB s)).
  { unfold step in HS. destruct (upd_enabled c p (get (xs s) p) u);
      inversion HS; subst r s'; clear HS; [|split; assumption].
    destruct p; cbn [get set outq set_outq pA pB qAB qBA]; split; [xext XA|xext XB|xext XA|xext XB]. }
  destruct r; cbn [snd xs lwrA lwrB]; (split; [exact HI'|exact HX]).
Qed.

Lemma xinv_sign c s p : XInv c s -> XInv c (snd (xstep c s (XOp (OSign p)))).
Proof.
  intros [HI [XA XB]]. pose proof (inv_step_sign c (xs s) p HI) as HI'.
  pose proof HI as [I1 I2].
  unfold xstep. destruct (step c (xs s) (OSign p)) as [r s'] eqn:HS. cbn [snd] in HI'.
  unfold step in HS.
  destruct (do_sign c p (get (xs s) p)) as [[r0 x'] [m|]] eqn:HD.
  2:{ assert (s' = xs s /\ r <> Ok) as [-> HR].
      { destruct r0; inversion HS; subst; split; try reflexivity; try discriminate.
        exfalso. unfold do_sign in HD. destruct (rTip (get (xs s) p)); [discriminate|].
        cbv zeta in HD. destruct (commit_of _ _ _ _ _ _ _); discriminate. }
      destruct r; try congruence; cbn [snd xs lwrA lwrB]; (split; [exact HI|split; assumption]). }
  destruct r0; try (inversion HS; subst r s'; cbn [snd xs lwrA lwrB]; split; [exact HI|split; assumption]).
  inversion HS; subst r s'; clear HS.
  apply do_sign_ok in HD. destruct HD as [k [HR [HK [-> ->]]]].
  cbn [snd].
  destruct p; cbn [get set outq set_outq pA pB qAB qBA negb set_lwr xs lwrA lwrB] in *;
    (split; [exact HI'|]); split.
  - eapply (xsign_S c true false); try eassumption; reflexivity.
  - eapply (xsign_H c false true); eassumption.
  - eapply (xsign_H c true false); eassumption.
  - eapply (xsign_S c false true); try eassumption; reflexivity.
Qed.

Lemma xinv_revoke c s p : XInv c s -> XInv c (snd (xstep c s (XOp (ORevoke p)))).
Proof.
  intros [HI [XA XB]]. pose proof (inv_step_revoke c (xs s) p HI) as HI'.
  pose proof HI as [I1 I2].
  unfold xstep. destruct (step c (xs s) (ORevoke p)) as [r s'] eqn:HS. cbn [snd] in HI'.
  unfold step in HS. unfold do_revoke in HS.
  destruct (lTip (get (xs s) p)) as [k|] eqn:HL.
  2:{ inversion HS; subst r s'. cbn [snd xs lwrA lwrB]. split; [exact HI|split; assumption]. }
  inversion HS; subst r s'; clear HS. cbn [snd].
  destruct p; cbn [get set outq set_outq pA pB qAB qBA negb set_lwr xs lwrA lwrB] in *;
    (split; [exact HI'|]); split.
  - eapply (xrevoke_S c true false); try eassumption; reflexivity.
  - eapply (xrevoke_H c false true); try eassumption; reflexivity.
  - eapply (xrevoke_H c true false); try eassumption; reflexivity.
  - eapply (xrevoke_S c false true); try eassumption; reflexivity.
Qed.

Lemma xinv_deliver c s p : XInv c s -> deliver_ok (xs s) p = true ->
  XInv c (snd (xstep c s (XOp (ODeliver p)))).
Proof.
  intros [HI [XA XB]] HD. pose proof (inv_step_deliver c (xs s) p HI) as HI'.
  pose proof HI as [I1 I2].
  unfold xstep. destruct (step c (xs s) (ODeliver p)) as [r s'] eqn:HS. cbn [snd] in HI'.
  assert (HX : XDir true false (pA s') (pB s') (qAB s') (lwrA s) /\
               XDir false true (pB s') (pA s') (qBA s') (lwrB s)).
  { unfold step in HS. unfold deliver_ok in HD.
    destruct (outq (xs s) (negb p)) as [|m q] eqn:HQ.
    { inversion HS; subst r s'. split; assumption. }
    destruct m as [u|k|].
    - inversion HS; subst r s'; clear HS.
      destruct p; cbn [get set outq set_outq pA pB qAB qBA negb] in *; rewrite HQ in *; split;
        [xext XA|xext XB|xext XA|xext XB].
    - destruct p; cbn [get set outq set_outq pA pB qAB qBA negb] in *; rewrite HQ in *.
      + rewrite (recv_sig_ok c true false _ _ _ _ _ eq_refl I2) in HS.
        inversion HS; subst r s'; clear HS. cbn [pA pB qAB qBA]. split; [xext XA|].
        eapply (xdsig_H c false true); try eassumption; reflexivity.
      + rewrite (recv_sig_ok c false true _ _ _ _ _ eq_refl I1) in HS.
        inversion HS; subst r s'; clear HS. cbn [pA pB qAB qBA]. split; [|xext XB].
        eapply (xdsig_H c true false); try eassumption; reflexivity.
    - unfold do_recv_rev in HS. destruct (rTip (get (xs s) p)) as [k|] eqn:HR.
      2:{ inversion HS; subst r s'. split; assumption. }
      inversion HS; subst r s'; clear HS.
      assert (HL : lTip (get (xs s) p) = None) by (destruct (lTip (get (xs s) p)); [discriminate|reflexivity]).
      destruct p; cbn [get set outq set_outq pA pB qAB qBA negb] in *; rewrite HQ in *; split.
      + exact (xdrev_S true false _ _ _ _ k XA).
      + eapply (xdrev_H c false true); try eassumption; reflexivity.
      + eapply (xdrev_H c true false); try eassumption; reflexivity.
      + exact (xdrev_S false true _ _ _ _ k XB). }
  destruct r; cbn [snd xs lwrA lwrB]; (split; [exact HI'|exact HX]).
Qed.

(* ------------------------------------------------------------------ *)
(* Part R3: list lemmas for truncated logs and retransmission queues   *)

Lemma add_pos_from_firstn l : forall i pos a n,
  add_pos_from l i pos = Some a -> a < pos + n -> add_pos_from (firstn n l) i pos = Some a.
Proof.
  induction l as [|u l IH]; intros i pos a n HP HL; cbn in HP; [discriminate|].
  destruct n as [|n].
  { exfalso. destruct u; try (apply add_pos_from_bound in HP; lia).
    destruct i; [inversion HP; lia|apply add_pos_from_bound in HP; lia]. }
  cbn [firstn add_pos_from].
  destruct u; try (apply IH; [exact HP|lia]).
  destruct i; [exact HP|apply IH; [exact HP|lia]].
Qed.

Lemma add_pos_firstn l i a n : add_pos l i = Some a -> a < n -> add_pos (firstn n l) i = Some a.
Proof. intros HP HL. apply add_pos_from_firstn; [exact HP|lia]. Qed.

Lemma lookup_adds_from_inv l : forall n j pos i',
  lookup_add (adds_from (firstn n l) j) i' <> None ->
  exists i a, i' = j + i /\ add_pos_from l i pos = Some a /\ a < pos + n.
Proof.
  induction l as [|u l IH]; intros n j pos i' HL.
  { exfalso. apply HL. destruct n; reflexivity. }
  destruct n as [|n]; [exfalso; apply HL; reflexivity|].
  cbn [firstn adds_from] in HL.
  destruct u.
  - cbn [lookup_add a_idx] in HL. destruct (Nat.eqb_spec i' j) as [E|E].
    + exists 0, pos. cbn. repeat split; lia.
    + destruct (IH n (Datatypes.S j) (Datatypes.S pos) i' HL) as [i [a [E1 [E2 E3]]]].
      exists (Datatypes.S i), a. cbn [add_pos_from]. repeat split; try assumption; lia.
  - destruct (IH n j (Datatypes.S pos) i' HL) as [i [a [E1 [E2 E3]]]].
    exists i, a. cbn [add_pos_from]. repeat split; try assumption; lia.
  - destruct (IH n j (Datatypes.S pos) i' HL) as [i [a [E1 [E2 E3]]]].
    exists i, a. cbn [add_pos_from]. repeat split; try assumption; lia.
  - destruct (IH n j (Datatypes.S pos) i' HL) as [i [a [E1 [E2 E3]]]].
    exists i, a. cbn [add_pos_from]. repeat split; try assumption; lia.
Qed.

Lemma lookup_adds_firstn_inv l n i :
  lookup_add (adds_of (firstn n l)) i <> None -> exists a, add_pos l i = Some a /\ a < n.
Proof.
  intros HL. destruct (lookup_adds_from_inv l n 0 0 i HL) as [i0 [a [E1 [E2 E3]]]].
  cbn in E1. subst i0. exists a. split; [exact E2|lia].
Qed.

Lemma removed_amounts_some_inv adds rems r :
  removed_amounts adds rems = Some r -> forall p, In p (map fst rems) -> lookup_add adds p <> None.
Proof.
  revert r. induction rems as [|[q s] rems IH]; intros r HR p HI; [contradiction|].
  cbn [removed_amounts] in HR. cbn [map fst In] in HI.
  destruct (lookup_add adds q) eqn:HL; [|discriminate].
  destruct (removed_amounts adds rems) as [r'|] eqn:HR'; [|discriminate].
  destruct HI as [<-|HI]; [congruence|]. eapply IH; [reflexivity|exact HI].
Qed.

(* a well-formed cut contains the parent add of each included removal *)
Lemma commit_wf_parents lA lB nA nB : commit_wf lA lB nA nB = true ->
  (forall i, In i (parents (firstn nA lA)) -> exists a, add_pos lB i = Some a /\ a < nB) /\
  (forall i, In i (parents (firstn nB lB)) -> exists a, add_pos lA i = Some a /\ a < nA).
Proof.
  unfold commit_wf. cbv zeta. rewrite !andb_true_iff. intros [[_ H1] H2].
  destruct (removed_amounts (adds_of (firstn nA lA)) (removes_of (firstn nB lB))) as [r1|] eqn:R1;
    [|discriminate].
  destruct (removed_amounts (adds_of (firstn nB lB)) (removes_of (firstn nA lA))) as [r2|] eqn:R2;
    [|discriminate].
  split; intros i HI; apply lookup_adds_firstn_inv.
  - eapply removed_amounts_some_inv; [exact R2|exact HI].
  - eapply removed_amounts_some_inv; [exact R1|exact HI].
Qed.

Lemma good_parents c S H lS lH k : H = negb S -> good c S H lS lH k ->
  forall i, In i (parents (firstn (n_of S k) lS)) -> exists a, add_pos lH i = Some a /\ a < n_of H k.
Proof.
  intros -> [HK _]. apply commit_of_inv in HK. destruct HK as [gA [gB [HW _]]].
  apply commit_wf_parents in HW. destruct HW as [W1 W2].
  destruct S; cbn [sel negb n_of] in *; assumption.
Qed.

Lemma good_firstn c S H lS lH k b1 b2 : H = negb S -> good c S H lS lH k ->
  n_of S k <= b1 -> n_of H k <= b2 -> good c S H (firstn b1 lS) (firstn b2 lH) k.
Proof.
  intros -> [HK [HS HH]] B1 B2. split; [|rewrite !firstn_length; lia].
  rewrite <- HK.
  destruct S; cbn [sel negb n_of] in *; apply commit_of_ext; rewrite firstn_firstn;
    rewrite Nat.min_l by lia; reflexivity.
Qed.

Lemma firstn_skipn_split {A} a b (l : list A) : a <= b ->
  firstn a l ++ skipn a (firstn b l) = firstn b l.
Proof.
  intros HL. rewrite <- (firstn_skipn a (firstn b l)) at 2.
  rewrite firstn_firstn, Nat.min_l by lia. reflexivity.
Qed.

Lemma upds_in_map l : upds_in (map MUpd l) = l.
Proof. induction l as [|u l IH]; cbn; [reflexivity|]. rewrite IH. reflexivity. Qed.
Lemma nsig_map l : nsig (map MUpd l) = 0.
Proof. induction l as [|u l IH]; cbn; [reflexivity|exact IH]. Qed.
Lemma nrev_map l : nrev (map MUpd l) = 0.
Proof. induction l as [|u l IH]; cbn; [reflexivity|exact IH]. Qed.
Lemma nupd_map l : nupd (map MUpd l) = length l.
Proof. unfold nupd. rewrite upds_in_map. reflexivity. Qed.

(* ------------------------------------------------------------------ *)
(* Part R4: the state after "lose the queues, restore both, retransmit" *)

Definition c1b (xS xH : party) : bool := (c_h (lTail xH) =? c_h (rTail xS))%Z.
(* S owes H a revocation: H's view of S's revoked-into height is one behind *)
Definition owes_rev (xS xH : party) : bool := (c_h (rTail xH) + 1 =? c_h (lTail xS))%Z.
Definition sigpart (S : bool) (xS xH : party) : list msg :=
  match rTip xS with
  | Some k => if c1b xS xH then diff_updates S xS ++ [MSig k] else []
  | None => []
  end.
Definition revpart (xS xH : party) : list msg := if owes_rev xS xH then [MRev] else [].
Definition mid_q (fS : bool) (sp rp : list msg) : list msg := if fS then sp ++ rp else rp ++ sp.

Section Mid.
Variable c : cfg.

Inductive cls (S H : bool) (xS xH : party) : Prop :=
| Cl0 : rTip xS = None -> lTail xH = rTail xS -> cls S H xS xH
| Cl1 k : rTip xS = Some k -> kgood c S H xS xH k -> lTail xH = rTail xS -> cls S H xS xH
| Cl3 k : rTip xS = Some k -> kgood c S H xS xH k -> lTail xH = k ->
          n_of S k <= length (peer xH) -> cls S H xS xH.

Lemma phase_cls S H xS xH qS qH : phase c S H xS xH qS qH -> cls S H xS xH.
Proof.
  intros ph. ph_cases ph.
  - apply Cl0; congruence.
  - eapply Cl1; eauto.
  - eapply Cl1; eauto.
  - eapply Cl3; eauto.
Qed.

(* whether S has an undelivered revocation, in terms of heights *)
Lemma phase_owes_rev S H xS xH qS qH : phase c S H xS xH qS qH ->
  (nrev qH = 0 /\ owes_rev xH xS = false) \/ (nrev qH = 1 /\ owes_rev xH xS = true).
Proof.
  intros ph. unfold owes_rev. ph_cases ph.
  - left. split; [exact NR|]. rewrite E. apply Z.eqb_neq. lia.
  - left. split; [exact NR|]. rewrite E. apply Z.eqb_neq. lia.
  - left. split; [exact NR|]. rewrite E. apply Z.eqb_neq. lia.
  - right. split; [exact NR|]. destruct G as [_ [_ [Hh _]]]. rewrite LT, Hh. apply Z.eqb_refl.
Qed.

(* which of H's counts an unacked signature used *)
Lemma cl1_K S H xS xH qS qH fS k :
  phase c S H xS xH qS qH -> phase c H S xH xS qH qS -> XDir S H xS xH qS fS ->
  rTip xS = Some k -> lTail xH = rTail xS ->
  n_of H k = n_of H (if Nat.eqb (nrev qS) 0 then rTail xH
                     else if fS then rTail xH else tip_of (rTail xH) (rTip xH)).
Proof.
  intros ph ph' [d f] HR HT.
  destruct (Nat.eqb_spec (nrev qS) 0) as [E0|E0].
  - ph_cases ph; try congruence; assert (k = kp) by congruence; subst k.
    + destruct SA as [pre [post [EQ [N1 [N2 [C1 C2]]]]]].
      rewrite EQ in E0. apply nrev_app_0 in E0. destruct E0 as [E0 _].
      unfold ev_rtail in C2. rewrite E0 in C2. exact C2.
    + apply d. exact L.
    + exfalso. destruct G as [_ [_ [Hh _]]]. rewrite LT in HT. rewrite HT in Hh. lia.
  - apply f; [exact HR| |rewrite HT; reflexivity].
    pose proof (phase_nrev_le c _ _ _ _ _ _ ph'). lia.
Qed.

End Mid.

Section Mid2.
Variable c : cfg.

Lemma rt_good S H xS xH qS qH : phase c S H xS xH qS qH ->
  good c S H (own xS) (own xH) (rTail xS) ->
  good c S H (own xS) (own xH) (tip_of (rTail xS) (rTip xS)).
Proof.
  intros ph gt. ph_cases ph; rewrite R; cbn [tip_of]; try exact gt; destruct G as [G _]; exact G.
Qed.

Lemma parents_skipn_in n l i : In i (parents (skipn n l)) -> In i (parents l).
Proof.
  intros HI. rewrite <- (firstn_skipn n l), parents_app. apply in_or_app. right. exact HI.
Qed.

Lemma upto_rev_map_app l r : upto_rev (map MUpd l ++ r) = l ++ upto_rev r.
Proof. rewrite upto_rev_app_norev by apply nrev_map. rewrite upds_in_map. reflexivity. Qed.

Lemma mid_q_nil fS rp : mid_q fS [] rp = rp.
Proof. unfold mid_q. destruct fS; [reflexivity|apply app_nil_r]. Qed.

Lemma mid_dir S H xS xH qS qH fS qH' : H = negb S ->
  InvDir c S H xS xH qS qH -> InvDir c H S xH xS qH qS -> XDir S H xS xH qS fS ->
  nrev qH' = nrev (revpart (restore H xH) (restore S xS)) ->
  InvDir c S H (restore S xS) (restore H xH)
    (mid_q fS (sigpart S (restore S xS) (restore H xH)) (revpart (restore S xS) (restore H xH))) qH'.
Proof.
  intros HSH I1 I2 X HN'.
  pose proof (negb_swap _ _ HSH) as HHS.
  pose proof (ltail_own_bound c _ _ _ _ _ _ I2 I1) as HLB.
  destruct I1 as [j1 an nd wa wb gt gl bl m1 ph]. destruct I2 as [j1' an' nd' wa' wb' gt' gl' bl' m1' ph'].
  destruct (phase_m2 c _ _ _ _ _ _ ph) as [A1 A2].
  destruct (phase_m2 c _ _ _ _ _ _ ph') as [A1' A2'].
  pose proof (phase_cls c _ _ _ _ _ _ ph) as CL.
  pose proof (phase_owes_rev c _ _ _ _ _ _ ph') as OR.
  pose proof (rt_good _ _ _ _ _ _ ph gt) as GRT.
  pose proof (rt_good _ _ _ _ _ _ ph' gt') as GRT'.
  destruct GRT as [_ [BS _]]. destruct GRT' as [_ [BH _]].
  destruct m1 as [m1a m1b].
  unfold sigpart, revpart, c1b, diff_updates, owes_rev in *. unfold restore in *. psimpl. cbn [own peer lTail lTip rTail rTip] in HN'.
  fold (owes_rev xH xS) in HN'. fold (owes_rev xS xH). fold (owes_rev xS xH) in OR.
  rewrite <- HHS. rewrite <- HSH.
  set (bS := n_of S (tip_of (rTail xS) (rTip xS))) in *.
  set (bH := n_of H (tip_of (rTail xH) (rTip xH))) in *.
  set (aS := n_of S (lTail xH)) in *.
  set (aH := n_of H (lTail xS)) in *.
  assert (NRP : nsig (if owes_rev xS xH then [MRev] else []) = 0 /\
                upds_in (if owes_rev xS xH then [MRev] else []) = [] /\
                upto_rev (if owes_rev xS xH then [MRev] else []) = [])
    by (destruct (owes_rev xS xH); repeat split).
  destruct NRP as [NRP1 [NRP2 NRP3]].
  assert (PF : firstn aS (peer xH) = firstn aS (own xS)) by (eapply firstn_prefix; [exact j1|exact bl]).
  match goal with |- InvDir _ _ _ _ _ (mid_q fS ?sp ?rp) _ => set (Q := mid_q fS sp rp) end.
  (* the three facts that depend on the class of the direction *)
  assert (QF : firstn aS (peer xH) ++ upds_in Q = firstn bS (own xS) /\
               (forall i, In i (parents (upto_rev Q)) ->
                  exists a, add_pos (own xH) i = Some a /\ a < n_of H (rTail xH)) /\
               phase c S H
                 (mkParty (firstn bS (own xS)) (firstn aH (peer xS)) (lTail xS) None (rTail xS) (rTip xS))
                 (mkParty (firstn bH (own xH)) (firstn aS (peer xH)) (lTail xH) None (rTail xH) (rTip xH))
                 Q qH').
  { destruct CL as [R T|k R G T|k R G T B].
    - (* nothing unacked *)
      subst Q. rewrite R. rewrite mid_q_nil. rewrite NRP2, NRP3, app_nil_r.
      assert (aS = bS) by (subst aS bS; rewrite R, T; reflexivity).
      split; [congruence|]. split; [intros i HI; destruct HI|].
      apply Ph0; psimpl; try assumption; try reflexivity; [|congruence].
      rewrite HN'. unfold owes_rev. rewrite T.
      destruct (Z.eqb_spec (c_h (rTail xS) + 1) (c_h (rTail xS))); [lia|reflexivity].
    - (* an unacked signature the holder has not revoked into *)
      destruct G as [G [Ho [Hh Hm]]].
      assert (EB : n_of S k = bS) by (subst bS; rewrite R; reflexivity).
      assert (EA : n_of S (rTail xS) = aS) by (subst aS; rewrite T; reflexivity).
      pose proof (cl1_K c _ _ _ _ _ _ _ _ ph ph' X R T) as K.
      subst Q. rewrite R, T, Z.eqb_refl, EB, EA.
      rewrite firstn_firstn, Nat.min_id.
      set (dl := skipn aS (firstn bS (own xS))).
      assert (DL : length dl = bS - aS) by (subst dl; rewrite skipn_length, firstn_length; lia).
      assert (GP : forall i, In i (parents dl) ->
                exists a, add_pos (own xH) i = Some a /\ a < n_of H k).
      { intros i HI. subst dl. apply parents_skipn_in in HI. rewrite <- EB in HI.
        eapply good_parents; [exact HSH|exact G|exact HI]. }
      assert (NQ' : nrev qH' = 0).
      { rewrite HN'. unfold owes_rev. rewrite T.
        destruct (Z.eqb_spec (c_h (rTail xS) + 1) (c_h (rTail xS))); [lia|reflexivity]. }
      assert (KG : kgood c S H
                 (mkParty (firstn bS (own xS)) (firstn aH (peer xS)) (lTail xS) None (rTail xS) (rTip xS))
                 (mkParty (firstn bH (own xH)) (firstn aS (peer xH)) (lTail xH) None (rTail xH) (rTip xH)) k).
      { split; [|split; [exact Ho|split; [exact Hh|exact Hm]]]. psimpl.
        apply good_firstn; try assumption; [lia|]. specialize (m1b k R). lia. }
      split; [|split].
      + unfold mid_q. destruct fS; rewrite !upds_in_app, upds_in_map, NRP2; cbn [upds_in];
          rewrite ?app_nil_r; cbn [app]; rewrite PF; apply firstn_skipn_split; exact A1.
      + intros i HI. unfold mid_q in HI. destruct fS.
        * rewrite <- app_assoc, upto_rev_map_app in HI. cbn [app upto_rev] in HI.
          rewrite NRP3, app_nil_r in HI.
          destruct (GP i HI) as [a [HP HA]]. exists a. split; [exact HP|].
          destruct (Nat.eqb (nrev qS) 0); lia.
        * destruct OR as [[N0 O0]|[N1 O1]].
          -- rewrite O0 in HI. cbn [app] in HI. rewrite upto_rev_map_app in HI.
             cbn [upto_rev] in HI. rewrite app_nil_r in HI.
             destruct (GP i HI) as [a [HP HA]]. exists a. split; [exact HP|].
             rewrite N0 in K. cbn [Nat.eqb] in K. lia.
          -- rewrite O1 in HI. cbn [app upto_rev] in HI. destruct HI.
      + eapply Ph1; psimpl; try eassumption; try reflexivity.
        unfold mid_q. destruct fS.
        * exists (map MUpd dl), (if owes_rev xS xH then [MRev] else []).
          rewrite <- app_assoc. cbn [app]. split; [reflexivity|].
          split; [apply nsig_map|]. split; [exact NRP1|]. psimpl.
          split; [rewrite firstn_length, nupd_map; lia|].
          unfold ev_rtail. rewrite nrev_map. cbn [Nat.eqb]. psimpl.
          destruct (Nat.eqb (nrev qS) 0); exact K.
        * destruct OR as [[N0 O0]|[N1 O1]].
          -- rewrite O0. cbn [app]. exists (map MUpd dl), [].
             split; [reflexivity|]. split; [apply nsig_map|]. split; [reflexivity|]. psimpl.
             split; [rewrite firstn_length, nupd_map; lia|].
             unfold ev_rtail. rewrite nrev_map. cbn [Nat.eqb]. psimpl.
             rewrite N0 in K. exact K.
          -- rewrite O1. exists (MRev :: map MUpd dl), [].
             split; [reflexivity|]. split; [cbn [nsig]; apply nsig_map|]. split; [reflexivity|]. psimpl.
             split; [rewrite firstn_length; unfold nupd; cbn [upds_in]; rewrite upds_in_map; lia|].
             unfold ev_rtail. cbn [nrev]. rewrite nrev_map. cbn [Nat.eqb]. psimpl.
             rewrite N1 in K. exact K.
    - (* the holder revoked into k; its revocation was lost *)
      destruct G as [G [Ho [Hh Hm]]].
      assert (HC : (c_h (lTail xH) =? c_h (rTail xS))%Z = false).
      { rewrite T, Hh. apply Z.eqb_neq. lia. }
      assert (aS = bS) by (subst aS bS; rewrite R, T; reflexivity).
      subst Q. rewrite R, HC. rewrite mid_q_nil. rewrite NRP2, NRP3, app_nil_r.
      split; [congruence|]. split; [intros i HI; destruct HI|].
      eapply Ph3; psimpl; try eassumption; try reflexivity.
      + split; [|split; [exact Ho|split; [exact Hh|exact Hm]]]. psimpl.
        apply good_firstn; try assumption; [subst bS; rewrite R; cbn [tip_of]; lia|].
        specialize (m1b k R). lia.
      + rewrite HN'. unfold owes_rev. rewrite T, Hh, Z.eqb_refl. reflexivity.
      + rewrite firstn_length. subst aS. rewrite T. lia. }
  destruct QF as [QJ [QW QP]].
  constructor; psimpl.
  - exact QJ.
  - apply amounts_nonneg_firstn. exact an.
  - apply nodup_parents_firstn. exact nd.
  - intros i HI. apply parents_firstn_in in HI. destruct (wa i HI) as [a [HP HA]].
    exists a. split; [|exact HA]. apply add_pos_firstn; [exact HP|]. fold aH in HA. lia.
  - intros i HI. rewrite parents_app in HI. apply in_app_or in HI.
    assert (HX : exists a, add_pos (own xH) i = Some a /\ a < n_of H (rTail xH)).
    { destruct HI as [HI|HI]; [|apply QW; exact HI].
      apply parents_firstn_in in HI. apply wb. rewrite parents_app. apply in_or_app. left. exact HI. }
    destruct HX as [a [HP HA]]. exists a. split; [|exact HA].
    apply add_pos_firstn; [exact HP|lia].
  - apply good_firstn; try assumption. lia.
  - apply good_firstn; try assumption.
  - rewrite firstn_length. fold aS. lia.
  - split; assumption.
  - exact QP.
Qed.

End Mid2.
