(* Proofs about restart (C02) and resynchronisation (C03), on top of the
   two-party invariant of Channel/Proofs.v.
   Part R1: restore is idempotent; restore keeps every signed commitment
            reproducible from the kept logs (C02). *)
From Coq Require Import List ZArith Bool Arith Lia.
From LV Require Import Channel.Model Channel.Proofs Channel.Resync.
Import ListNotations.
Local Open Scope nat_scope.

Lemma restore_idem p x : restore p (restore p x) = restore p x.
Proof.
  unfold restore. cbn [own peer lTail lTip rTail rTip].
  rewrite !firstn_firstn, !Nat.min_id. reflexivity.
Qed.

Lemma good_sym c S H lS lH k : H = negb S -> good c H S lH lS k -> good c S H lS lH k.
Proof.
  intros -> [HK [H1 H2]]. split; [|split; assumption].
  destruct S; cbn [sel negb] in *; exact HK.
Qed.

Section Restore.
Variable c : cfg.

(* cuts never run ahead of the signer's newest remote commitment *)
Lemma phase_m2 S H xS xH qS qH : phase c S H xS xH qS qH ->
  n_of S (lTail xH) <= n_of S (tip_of (rTail xS) (rTip xS)) /\
  n_of S (rTail xS) <= n_of S (tip_of (rTail xS) (rTip xS)).
Proof.
  intros ph.
  destruct ph as [R L NS NR E|kp R G SA L NR E|kp R G NS L NR E B|kp R G NS L LT NR B];
    rewrite R; cbn [tip_of]; try (destruct G as [_ [_ [_ HM]]]); subst; try rewrite <- E; lia.
Qed.

Lemma ltail_own_bound S H xS xH qS qH :
  InvDir c S H xS xH qS qH -> InvDir c H S xH xS qH qS ->
  n_of S (lTail xS) <= n_of S (tip_of (rTail xS) (rTip xS)).
Proof.
  intros [j1 an nd wa wb gt gl bl m1 ph] [j1' an' nd' wa' wb' gt' gl' bl' m1' ph'].
  destruct (phase_m2 _ _ _ _ _ _ ph) as [HA _]. destruct m1' as [m1a m1b].
  destruct ph' as [R L NS NR E|kp R G SA L NR E|kp R G NS L NR E B|kp R G NS L LT NR B];
    try (rewrite <- E; lia).
  subst kp. specialize (m1b _ R). lia.
Qed.

Lemma restore_commit_aux S H xS xH e k : H = negb S ->
  good c S H (own xS) (own xH) k ->
  n_of S k <= n_of S (tip_of (rTail xS) (rTip xS)) ->
  n_of H k <= n_of H (lTail xS) ->
  n_of H (lTail xS) <= length (peer xS) -> peer xS ++ e = own xH ->
  let x' := restore S xS in
  n_of S k <= length (own x') /\ n_of H k <= length (peer x') /\
  commit_of c (c_owner k) (c_h k) (logA_of S x') (logB_of S x') (c_nA k) (c_nB k) = Some k.
Proof.
  intros HSH [HK [HS HH]] B1 B2 B3 J x'. subst x'. unfold restore. subst H.
  cbn [own peer]. rewrite !firstn_length. split; [lia|]. split; [lia|].
  rewrite <- HK.
  destruct S; cbn [sel negb n_of logA_of logB_of own peer] in *; apply commit_of_ext;
    rewrite firstn_firstn.
  - rewrite Nat.min_l by lia. reflexivity.
  - rewrite Nat.min_l by lia. eapply firstn_prefix; [exact J|lia].
  - rewrite Nat.min_l by lia. eapply firstn_prefix; [exact J|lia].
  - rewrite Nat.min_l by lia. reflexivity.
Qed.

Lemma restore_keeps S H xS xH qS qH : H = negb S ->
  InvDir c S H xS xH qS qH -> InvDir c H S xH xS qH qS ->
  let x' := restore S xS in
  forall k, In k (commits_of x') ->
  n_of S k <= length (own x') /\ n_of H k <= length (peer x') /\
  commit_of c (c_owner k) (c_h k) (logA_of S x') (logB_of S x') (c_nA k) (c_nB k) = Some k.
Proof.
  intros HSH I1 I2 x' k HK.
  pose proof (ltail_own_bound _ _ _ _ _ _ I1 I2) as HLB.
  destruct I1 as [j1 an nd wa wb gt gl bl m1 ph]. destruct I2 as [j1' an' nd' wa' wb' gt' gl' bl' m1' ph'].
  destruct (phase_m2 _ _ _ _ _ _ ph) as [_ HRB]. destruct m1 as [m1a m1b].
  subst x'. unfold commits_of, restore in HK. cbn [lTail lTip rTail rTip app In] in HK.
  destruct HK as [<-|[<-|HK]].
  - eapply restore_commit_aux; try eassumption; [|lia].
    apply good_sym; [exact HSH|exact gl'].
  - eapply restore_commit_aux; eassumption.
  - destruct (rTip xS) as [k'|] eqn:HR; [|contradiction]. destruct HK as [<-|[]].
    eapply restore_commit_aux; try eassumption.
    + eapply phase_rtip_good; eassumption.
    + rewrite HR. cbn [tip_of]. lia.
    + apply m1b. reflexivity.
Qed.

Lemma inv_restore_keeps s : Inv c s -> forall p,
  let x' := restore p (get s p) in
  lTail x' = lTail (get s p) /\ rTail x' = rTail (get s p) /\ rTip x' = rTip (get s p) /\
  forall k, In k (commits_of x') ->
    n_of p k <= length (own x') /\ n_of (negb p) k <= length (peer x') /\
    commit_of c (c_owner k) (c_h k) (logA_of p x') (logB_of p x') (c_nA k) (c_nB k) = Some k.
Proof.
  intros HI p x'. split; [reflexivity|]. split; [reflexivity|]. split; [reflexivity|].
  destruct (inv_get c s HI p) as [I1 I2].
  eapply restore_keeps; try eassumption; reflexivity.
Qed.

End Restore.

Lemma reach_restore_keeps c s : reachable c s -> forall p,
  let x' := restore p (get s p) in
  lTail x' = lTail (get s p) /\ rTail x' = rTail (get s p) /\ rTip x' = rTip (get s p) /\
  forall k, In k (commits_of x') ->
    n_of p k <= length (own x') /\ n_of (negb p) k <= length (peer x') /\
    commit_of c (c_owner k) (c_h k) (logA_of p x') (logB_of p x') (c_nA k) (c_nB k) = Some k.
Proof. intros HR. apply inv_restore_keeps. apply inv_reachable. exact HR. Qed.

(* ------------------------------------------------------------------ *)
(* Part R2: the discipline / LastWasRevoke invariant for ordinary ops  *)

Ltac ph_cases ph :=
  destruct ph as [R L NS NR E|kp R G SA L NR E|kp R G NS L NR E B|kp R G NS L LT NR B].
Ltac psimpl := cbn [own peer lTail lTip rTail rTip].

(* Per direction "S signs H's commitments"; fS = LastWasRevoke of S.
   x_d1: a received-but-unrevoked commitment was computed with the CURRENT
         own-count of the holder (no revocation consumed since; discipline).
   x_f : if S has an unacked signature k AND an undelivered revocation, the flag
         tells which of the two came first, i.e. which of H's counts k used. *)
Record XDir (S H : bool) (xS xH : party) (qS : list msg) (fS : bool) : Prop := mkXDir {
  x_d1 : forall k, lTip xH = Some k -> n_of H k = n_of H (rTail xH);
  x_f : forall k, rTip xS = Some k -> nrev qS = 1 -> c_h (lTail xH) = c_h (rTail xS) ->
        n_of H k = n_of H (if fS then rTail xH else tip_of (rTail xH) (rTip xH))
}.

Lemma xdir_ext S H xS xH qS fS xS' xH' qS' :
  XDir S H xS xH qS fS ->
  lTip xH' = lTip xH -> rTail xH' = rTail xH -> rTip xH' = rTip xH -> lTail xH' = lTail xH ->
  rTip xS' = rTip xS -> rTail xS' = rTail xS -> nrev qS' = nrev qS ->
  XDir S H xS' xH' qS' fS.
Proof.
  intros [d f] E1 E2 E3 E4 E5 E6 E7. constructor; rewrite ?E1, ?E2, ?E3, ?E4, ?E5, ?E6, ?E7; assumption.
Qed.

Section XOps.
Variable c : cfg.

Lemma nrev_snoc_upd q u : nrev (q ++ [MUpd u]) = nrev q.
Proof. rewrite nrev_app. cbn. lia. Qed.
Lemma nrev_snoc_sig q k : nrev (q ++ [MSig k]) = nrev q.
Proof. rewrite nrev_app. cbn. lia. Qed.
Lemma nrev_snoc_rev q : nrev (q ++ [MRev]) = Datatypes.S (nrev q).
Proof. rewrite nrev_app. cbn. lia. Qed.

(* phase facts *)
Lemma phase_nrev_le S H xS xH qS qH : phase c S H xS xH qS qH -> nrev qH <= 1.
Proof. intros ph. ph_cases ph; lia. Qed.

Lemma phase_nrev1 S H xS xH qS qH : phase c S H xS xH qS qH -> nrev qH = 1 ->
  exists k, rTip xS = Some k /\ lTail xH = k /\ lTip xH = None /\ kgood c S H xS xH k.
Proof. intros ph HN. ph_cases ph; try lia. exists kp. auto. Qed.

(* actor S: OSign *)
Lemma xsign_S S H xS xH qS qH fS k : H = negb S ->
  InvDir c S H xS xH qS qH -> InvDir c H S xH xS qH qS ->
  XDir S H xS xH qS fS -> rTip xS = None ->
  commit_of c H (c_h (rTail xS) + 1)%Z (logA_of S xS) (logB_of S xS)
    (sel S (length (own xS)) (n_of H (lTail xS)))
    (sel S (n_of H (lTail xS)) (length (own xS))) = Some k ->
  XDir S H (set_rTip xS (Some k)) xH (qS ++ [MSig k]) false.
Proof.
  intros HSH [j1 an nd wa wb gt gl bl m1 ph] [j1' an' nd' wa' wb' gt' gl' bl' m1' ph'] [d f] HR HK.
  unfold set_rTip. constructor; psimpl; [exact d|].
  intros k0 HE HN _. inversion HE; subst k0. rewrite nrev_snoc_sig in HN.
  destruct (phase_nrev1 _ _ _ _ _ _ ph' HN) as [k' [R' [LT' _]]].
  rewrite R'. cbn [tip_of].
  assert (HL : length (own xH) = length (peer xS) + nupd qH).
  { rewrite <- j1', app_length. reflexivity. }
  apply sign_good with (xH := xH) in HK; try assumption; try lia.
  2:{ eapply firstn_prefix; [exact j1'|exact bl']. }
  destruct HK as [_ [_ [_ [_ HnH]]]]. rewrite HnH, LT'. reflexivity.
Qed.

(* actor S: ORevoke *)
Lemma xrevoke_S S H xS xH qS qH fS k : H = negb S ->
  InvDir c S H xS xH qS qH -> InvDir c H S xH xS qH qS ->
  XDir S H xS xH qS fS -> lTip xS = Some k ->
  XDir S H (revoked xS k) xH (qS ++ [MRev]) true.
Proof.
  intros HSH [j1 an nd wa wb gt gl bl m1 ph] [j1' an' nd' wa' wb' gt' gl' bl' m1' ph'] [d f] HL.
  unfold revoked. constructor; psimpl; [exact d|].
  intros k0 HE HN HC. rewrite nrev_snoc_rev in HN.
  assert (HN0 : nrev qS = 0) by lia.
  ph_cases ph; try congruence; assert (k0 = kp) by congruence; subst k0.
  - destruct SA as [pre [post [EQ [N1 [N2 [C1 C2]]]]]].
    rewrite EQ in HN0. apply nrev_app_0 in HN0. destruct HN0 as [HN0 _].
    unfold ev_rtail in C2. rewrite HN0 in C2. exact C2.
  - apply d. exact L.
  - exfalso. destruct G as [_ [_ [Hh _]]]. rewrite LT in HC. lia.
Qed.

(* actor H: ORevoke (seen from direction S) *)
Lemma xrevoke_H S H xS xH qS qH fS k : H = negb S ->
  InvDir c S H xS xH qS qH ->
  XDir S H xS xH qS fS -> lTip xH = Some k ->
  XDir S H xS (revoked xH k) qS fS.
Proof.
  intros HSH [j1 an nd wa wb gt gl bl m1 ph] [d f] HL.
  unfold revoked. constructor; psimpl; [intros ? ?; discriminate|].
  intros k0 HE HN HC. exfalso.
  ph_cases ph; try congruence. assert (k0 = kp) by congruence. subst k0.
  assert (k = kp) by congruence. subst k.
  destruct G as [_ [_ [Hh _]]]. lia.
Qed.

(* actor H: receives the head signature of qS *)
Lemma xdsig_H S H xS xH qS0 q fS k0 : H = negb S ->
  InvDir c S H xS xH (MSig k0 :: q) qS0 ->
  XDir S H xS xH (MSig k0 :: q) fS ->
  XDir S H xS (set_lTip xH (Some k0)) q fS.
Proof.
  intros HSH I1 [d f].
  pose proof (head_sig c H S xH xS qS0 q k0) as HS.
  (* head_sig is stated for the direction whose holder receives: instantiate *)
  specialize (HS I1). destruct HS as [R [G [N2 [C1 [C2 [L [NR E]]]]]]].
  unfold set_lTip. constructor; psimpl.
  - intros k HE. inversion HE; subst k. exact C2.
  - intros k HE HN HC. apply f; assumption.
Qed.

(* actor H: receives a revocation at the head of qS, with lTip xH = None *)
Lemma xdrev_H S H xS xH qS0 q fS k : H = negb S ->
  InvDir c H S xH xS qS0 (MRev :: q) ->
  XDir S H xS xH (MRev :: q) fS -> lTip xH = None ->
  XDir S H xS (recv_rev xH k) q fS.
Proof.
  intros HSH [j1' an' nd' wa' wb' gt' gl' bl' m1' ph'] [d f] HL.
  unfold recv_rev. constructor; psimpl.
  - intros k0 HE. congruence.
  - intros k0 HE HN. exfalso. apply phase_nrev_le in ph'. cbn [nrev] in ph'. lia.
Qed.

End XOps.

(* ---------- the extended invariant on xsys ---------- *)
Definition XInv (c : cfg) (s : xsys) : Prop :=
  Inv c (xs s) /\
  XDir true false (pA (xs s)) (pB (xs s)) (qAB (xs s)) (lwrA s) /\
  XDir false true (pB (xs s)) (pA (xs s)) (qBA (xs s)) (lwrB s).

Ltac xext X :=
  eapply xdir_ext; [exact X|..]; try reflexivity;
  cbn [nrev]; rewrite ?nrev_snoc_upd, ?nrev_snoc_sig; try reflexivity.

Lemma xinit_inv c s0 : xinit c = Some s0 -> XInv c s0.
Proof.
  unfold xinit. destruct (init_sys c) as [s|] eqn:H0; [|discriminate].
  intros HE. inversion HE; subst s0; clear HE. pose proof (inv_init c s H0) as HI.
  split; [exact HI|].
  unfold init_sys, init_party in H0.
  destruct (init_commit c true); [|discriminate]. destruct (init_commit c (negb true)); [|discriminate].
  cbn [negb] in H0. destruct (init_commit c false); [|discriminate].
  inversion H0; subst s; clear H0.
  split; constructor; cbn; intros; discriminate.
Qed.

Lemma xinv_send c s p u : XInv c s -> XInv c (snd (xstep c s (XOp (OSend p u)))).
Proof.
  intros [HI [XA XB]]. pose proof (inv_step_send c (xs s) p u HI) as HI'.
  unfold xstep. destruct (step c (xs s) (OSend p u)) as [r s'] eqn:HS. cbn [snd] in HI'.
  assert (HX : XDir true false (pA s') (pB s') (qAB s') (lwrA s) /\
               XDir false true (pB s') (pA s') (qBA s') (lwrB s)).
  { unfold step in HS. destruct (upd_enabled c p (get (xs s) p) u);
      inversion HS; subst r s'; clear HS; [|split; assumption].
    destruct p; cbn [get set outq set_outq pA pB qAB qBA]; split; [xext XA|xext XB|xext XA|xext XB]. }
  destruct r; cbn [snd xs lwrA lwrB]; (split; [exact HI'|exact HX]).
Qed.

Lemma xinv_sign c s p : XInv c s -> XInv c (snd (xstep c s (XOp (OSign p)))).
Proof.
  intros [HI [XA XB]]. pose proof (inv_step_sign c (xs s) p HI) as HI'.
  pose proof HI as [I1 I2].
  unfold xstep. destruct (step c (xs s) (OSign p)) as [r s'] eqn:HS. cbn [snd] in HI'.
  unfold step in HS.
  destruct (do_sign c p (get (xs s) p)) as [[r0 x'] [m|]] eqn:HD.
  2:{ assert (s' = xs s /\ r <> Ok) as [-> HR].
      { destruct r0; inversion HS; subst; split; try reflexivity; try discriminate.
        exfalso. unfold do_sign in HD. destruct (rTip (get (xs s) p)); [discriminate|].
        cbv zeta in HD. destruct (commit_of _ _ _ _ _ _ _); discriminate. }
      destruct r; try congruence; cbn [snd xs lwrA lwrB]; (split; [exact HI|split; assumption]). }
  destruct r0; try (inversion HS; subst r s'; cbn [snd xs lwrA lwrB]; split; [exact HI|split; assumption]).
  inversion HS; subst r s'; clear HS.
  apply do_sign_ok in HD. destruct HD as [k [HR [HK [-> ->]]]].
  cbn [snd]. split; [exact HI'|].
  destruct p; cbn [get set outq set_outq pA pB qAB qBA negb set_lwr xs lwrA lwrB] in *; split.
  - eapply xsign_S; try eassumption; reflexivity.
  - xext XB.
  - xext XA.
  - eapply xsign_S; try eassumption; reflexivity.
Qed.

Lemma xinv_revoke c s p : XInv c s -> XInv c (snd (xstep c s (XOp (ORevoke p)))).
Proof.
  intros [HI [XA XB]]. pose proof (inv_step_revoke c (xs s) p HI) as HI'.
  pose proof HI as [I1 I2].
  unfold xstep. destruct (step c (xs s) (ORevoke p)) as [r s'] eqn:HS. cbn [snd] in HI'.
  unfold step in HS. unfold do_revoke in HS.
  destruct (lTip (get (xs s) p)) as [k|] eqn:HL.
  2:{ inversion HS; subst r s'. cbn [snd xs lwrA lwrB]. split; [exact HI|split; assumption]. }
  inversion HS; subst r s'; clear HS. cbn [snd]. split; [exact HI'|].
  destruct p; cbn [get set outq set_outq pA pB qAB qBA negb set_lwr xs lwrA lwrB] in *; split.
  - eapply (xrevoke_S c true false); try eassumption; reflexivity.
  - eapply (xrevoke_H c false true); try eassumption; reflexivity.
  - eapply (xrevoke_H c true false); try eassumption; reflexivity.
  - eapply (xrevoke_S c false true); try eassumption; reflexivity.
Qed.

Lemma xinv_deliver c s p : XInv c s -> deliver_ok (xs s) p = true ->
  XInv c (snd (xstep c s (XOp (ODeliver p)))).
Proof.
  intros [HI [XA XB]] HD. pose proof (inv_step_deliver c (xs s) p HI) as HI'.
  pose proof HI as [I1 I2].
  unfold xstep. destruct (step c (xs s) (ODeliver p)) as [r s'] eqn:HS. cbn [snd] in HI'.
  assert (HX : XDir true false (pA s') (pB s') (qAB s') (lwrA s) /\
               XDir false true (pB s') (pA s') (qBA s') (lwrB s)).
  { unfold step in HS. unfold deliver_ok in HD.
    destruct (outq (xs s) (negb p)) as [|m q] eqn:HQ.
    { inversion HS; subst r s'. split; assumption. }
    destruct m as [u|k|].
    - inversion HS; subst r s'; clear HS.
      destruct p; cbn [get set outq set_outq pA pB qAB qBA negb] in *; rewrite HQ in *; split;
        [xext XA|xext XB|xext XA|xext XB].
    - destruct p; cbn [get set outq set_outq pA pB qAB qBA negb] in *; rewrite HQ in *.
      + rewrite (recv_sig_ok c true false _ _ _ _ _ eq_refl I2) in HS.
        inversion HS; subst r s'; clear HS. cbn [pA pB qAB qBA]. split; [xext XA|].
        eapply (xdsig_H c false true); try eassumption; reflexivity.
      + rewrite (recv_sig_ok c false true _ _ _ _ _ eq_refl I1) in HS.
        inversion HS; subst r s'; clear HS. cbn [pA pB qAB qBA]. split; [|xext XB].
        eapply (xdsig_H c true false); try eassumption; reflexivity.
    - unfold do_recv_rev in HS. destruct (rTip (get (xs s) p)) as [k|] eqn:HR.
      2:{ inversion HS; subst r s'. split; assumption. }
      inversion HS; subst r s'; clear HS.
      destruct (lTip (get (xs s) p)) eqn:HL; [discriminate|].
      destruct p; cbn [get set outq set_outq pA pB qAB qBA negb] in *; rewrite HQ in *; split.
      + xext XA.
      + eapply (xdrev_H c false true); try eassumption; reflexivity.
      + eapply (xdrev_H c true false); try eassumption; reflexivity.
      + xext XB. }
  destruct r; cbn [snd xs lwrA lwrB]; (split; [exact HI'|exact HX]).
Qed.
