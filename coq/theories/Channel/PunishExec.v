(* Trace checker for the C04 / C05 ledger layer (correspondence by vm_compute).

   C04: replays the schedule the Go harness executed on the real channel pair
   in the WRAPPER model (Punish.wrun) and compares, for every revoked height the
   harness punished, (a) the model's revocation-log entry with the descriptor
   of the transaction the cheater really held (dumped before it revoked), and
   (b) Punish.retribution of that descriptor with the breached outputs the real
   NewBreachRetribution produced (kind code, amount).
   C05: compares Punish.resolutions of a dumped descriptor with the resolutions
   the real NewLocalForceCloseSummary / NewUnilateralCloseSummary produced
   (kind code, commitment-output value, finally swept value). *)
From Coq Require Import List ZArith NArith Bool Arith.
From LV Require Import Channel.Model Channel.Resync Channel.Exec Channel.Punish.
Import ListNotations.
Local Open Scope Z_scope.

Definition item := (N * Z * Z)%type.

Definition item_leb (a b : item) : bool :=
  let '(ka, xa, ya) := a in let '(kb, xb, yb) := b in
  if N.ltb ka kb then true else if N.ltb kb ka then false
  else if xa <? xb then true else if xb <? xa then false
  else ya <=? yb.

Definition item_eqb (a b : item) : bool :=
  let '(ka, xa, ya) := a in let '(kb, xb, yb) := b in
  N.eqb ka kb && (xa =? xb) && (ya =? yb).

Fixpoint insert (x : item) (l : list item) : list item :=
  match l with
  | [] => [x]
  | y :: r => if item_leb x y then x :: l else y :: insert x r
  end.
Definition canon (l : list item) : list item := fold_right insert [] l.

Fixpoint items_eqb (a b : list item) : bool :=
  match a, b with
  | [], [] => true
  | x :: r, y :: r' => item_eqb x y && items_eqb r r'
  | _, _ => false
  end.

(* (victim, height, descriptor the cheater held, breached outputs observed) *)
Definition rev_entry := (bool * nat * commit * option (list item))%type.

Definition retribution_items (c : cfg) (k : commit) (victim : bool) : list item :=
  map (fun x => (okind_code (fst x), snd x, 0)) (retribution c k victim).

(* codes: 2000+i  revocation-log entry i differs from the held descriptor
          2500+i  the model has no entry although the whole trace was replayed
          3000+i  retribution list differs *)
Definition check_rev (c : cfg) (w : wsys) (full : bool) (i : N) (e : rev_entry) : list N :=
  let '(v, h, k, obs) := e in
  (match obs with
   | Some l => if items_eqb (canon (retribution_items c k v)) (canon l) then [] else [3000 + i]%N
   | None => []
   end)
  ++ match nth_error (revlog (wg w) v) h with
     | Some k' => if ocommit_eqb k' k then [] else [2000 + i]%N
     | None => if full then [2500 + i]%N else []
     end.

Fixpoint check_revs (c : cfg) (w : wsys) (full : bool) (i : N) (l : list rev_entry) : list N :=
  match l with
  | [] => []
  | e :: r => check_rev c w full i e ++ check_revs c w full (i + 1)%N r
  end.

(* (configuration, the ops the real pair executed successfully, whole trace
   replayable?, revoked heights) *)
Definition case04 :=
  (cfg * list xop * bool * list rev_entry)%type.

Definition check_case04 (cs : case04) : list N :=
  let '(c, ops, full, revs) := cs in
  match winit c with
  | None => [20%N]
  | Some w0 => check_revs c (wrun c w0 ops) full 0%N revs
  end.

Fixpoint mismatches04 (cases : list case04) (i : N) : list (N * list N) :=
  match cases with
  | [] => []
  | c :: r =>
    match check_case04 c with
    | [] => mismatches04 r (i + 1)%N
    | bad => (i, bad) :: mismatches04 r (i + 1)%N
    end
  end.

(* ---------- C05 ---------- *)
Definition resolution_items (c : cfg) (k : commit) (who : bool) : list item :=
  map (fun r => (rkind_code (r_kind r), r_out r, r_final r)) (resolutions c k who).

(* (descriptor, who, observed resolutions, observed total of commitment outputs claimed) *)
Definition res_entry := (commit * bool * list item * Z)%type.

Fixpoint check_ress (c : cfg) (i : N) (l : list res_entry) : list N :=
  match l with
  | [] => []
  | (k, who, obs, total) :: r =>
    (if items_eqb (canon (resolution_items c k who)) (canon obs) then [] else [4000 + i]%N)
    ++ (if claimable c k who =? total then [] else [5000 + i]%N)
    ++ check_ress c (i + 1)%N r
  end.

Definition case05 := (cfg * list res_entry)%type.

Fixpoint mismatches05 (cases : list case05) (i : N) : list (N * list N) :=
  match cases with
  | [] => []
  | (c, l) :: r =>
    match check_ress c 0%N l with
    | [] => mismatches05 r (i + 1)%N
    | bad => (i, bad) :: mismatches05 r (i + 1)%N
    end
  end.
