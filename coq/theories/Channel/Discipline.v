(* Link discipline for the resynchronisation theorems (C03).  Definitions only.
   lnd's link revokes immediately after accepting a commitment, so it never
   processes a revoke_and_ack while it still holds a received-but-unrevoked
   local commitment (lTip = Some _).  [disciplined] restricts deliveries
   (plain ones and the prefix deliveries of an XCut) accordingly. *)
From Coq Require Import List ZArith Bool Arith.
From LV Require Import Channel.Model Channel.Resync.
Import ListNotations.

Definition deliver_ok (s : sys) (p : bool) : bool :=
  match outq s (negb p) with
  | MRev :: _ => match lTip (get s p) with None => true | Some _ => false end
  | _ => true
  end.

Fixpoint deliver_n_ok (c : cfg) (s : sys) (p : bool) (n : nat) : bool :=
  match n with
  | O => true
  | S n' => deliver_ok s p && deliver_n_ok c (snd (step c s (ODeliver p))) p n'
  end.

Definition disciplined (c : cfg) (s : xsys) (o : xop) : bool :=
  match o with
  | XOp (ODeliver p) => deliver_ok (xs s) p
  | XCut ka kb =>
    deliver_n_ok c (xs s) true ka && deliver_n_ok c (deliver_n c (xs s) true ka) false kb
  | _ => true
  end.

Inductive dreachable (c : cfg) : xsys -> Prop :=
| dr_init s0 : xinit c = Some s0 -> dreachable c s0
| dr_step s o : dreachable c s -> disciplined c s o = true ->
                dreachable c (snd (xstep c s o)).

(* free (undisciplined) reachability *)
Definition xreachable (c : cfg) (s : xsys) : Prop :=
  exists s0 ops, xinit c = Some s0 /\ s = xrun c s0 ops.

(* disciplined reachability in which every reconnect succeeded (a failed XCut —
   ErrSanity because a re-sign is not payable — ends the link; the state it
   leaves behind, restored parties with empty queues, is not a protocol state) *)
Inductive dreachable_ok (c : cfg) : xsys -> Prop :=
| dro_init s0 : xinit c = Some s0 -> dreachable_ok c s0
| dro_step s o : dreachable_ok c s -> disciplined c s o = true ->
                 (forall ka kb, o = XCut ka kb -> fst (xstep c s o) = Ok) ->
                 dreachable_ok c (snd (xstep c s o)).

(* boolean checkers used by the examples: every step Ok / every step disciplined *)
Fixpoint xall_ok (c : cfg) (s : xsys) (ops : list xop) : bool :=
  match ops with
  | [] => true
  | o :: r => match xstep c s o with (Ok, s') => xall_ok c s' r | _ => false end
  end.

Fixpoint xall_disc (c : cfg) (s : xsys) (ops : list xop) : bool :=
  match ops with
  | [] => true
  | o :: r => disciplined c s o && xall_disc c (snd (xstep c s o)) r
  end.

