(* Non-vacuity for the C01 theorems: a concrete well-formed configuration and a
   46-op asynchronous schedule (adds both ways incl. a dust one, a fee update,
   overlapping signatures, revocations, a settle and two fails) whose every
   step returns Ok and which ends quiescent with non-trivial balances; a state
   with a signature at the head of a queue (hypothesis of C01_agreement); and
   an OSign refused with ErrSanity (hypothesis of C01_sign_refusal_is_money).
   These are TESTS by vm_compute, not theorems about all schedules. *)
From Coq Require Import List ZArith Bool Arith Lia.
From LV Require Import Channel.Model Channel.Proofs.
Import ListNotations.
Local Open Scope Z_scope.

Definition ex_cfg : cfg :=
  mkCfg 1000000 true 1124 172 666 706 330 true
        (mkSide 354 10000) (mkSide 573 10000)
        599340000 400000000 2500.

Example ex_cfg_ok : cfg_ok ex_cfg.
Proof. unfold cfg_ok, ex_cfg. cbn. lia. Qed.

Definition A := true.
Definition B := false.

Definition ex_round1 : list op :=
  [ OSend A (UAdd 50000000 500 11);      (* A offers 50k sat *)
    OSend B (UAdd 30000000 510 22);      (* B offers 30k sat *)
    OSend A (UAdd 200000 520 33);        (* A offers 200 sat: dust on both commitments *)
    ODeliver B; ODeliver A; ODeliver B;
    OSign A; OSign B;                    (* overlapping signatures *)
    ODeliver B; ODeliver A;
    ORevoke A; ORevoke B;
    ODeliver B; ODeliver A;
    OSign A; ODeliver B; ORevoke B; ODeliver A;
    OSign B; ODeliver A; ORevoke A; ODeliver B ].

Definition ex_round2 : list op :=
  [ OSend B (USettle 0);                 (* B settles A's 50k HTLC *)
    OSend A (UFail 0);                   (* A fails B's 30k HTLC *)
    OSend A (UFee 3000);
    OSend B (UFail 1);                   (* B fails A's dust HTLC *)
    ODeliver A; ODeliver A; ODeliver B; ODeliver B;
    OSign A; OSign B;
    ODeliver B; ODeliver A;
    ORevoke A; ORevoke B;
    ODeliver B; ODeliver A;
    OSign A; ODeliver B; ORevoke B; ODeliver A;
    OSign B; ODeliver A; ORevoke A; ODeliver B ].

Definition ex_ops : list op := ex_round1 ++ ex_round2.

Fixpoint all_ok (c : cfg) (s : sys) (ops : list op) : bool :=
  match ops with
  | [] => true
  | o :: r => match step c s o with (Ok, s') => all_ok c s' r | _ => false end
  end.

Definition from_init (f : sys -> bool) : bool :=
  match init_sys ex_cfg with Some s0 => f s0 | None => false end.

Example ex_length : (length ex_ops = 46)%nat.
Proof. reflexivity. Qed.

Example ex_all_ok : from_init (fun s0 => all_ok ex_cfg s0 ex_ops) = true.
Proof. vm_compute. reflexivity. Qed.

Definition quiescentb (s : sys) : bool :=
  match qAB s, qBA s, lTip (pA s), rTip (pA s), lTip (pB s), rTip (pB s) with
  | [], [], None, None, None, None => true
  | _, _, _, _, _, _ => false
  end.

Lemma quiescentb_ok s : quiescentb s = true -> quiescent s.
Proof.
  unfold quiescentb, quiescent.
  destruct (qAB s), (qBA s), (lTip (pA s)), (rTip (pA s)), (lTip (pB s)), (rTip (pB s));
    try discriminate. intros _. repeat split.
Qed.

(* the final state is reachable, quiescent, all logs fully committed, and the
   balances moved by exactly the settled 50k sat (fee 3000 * 1124 / 1000 = 3372 sat) *)
Example ex_final :
  exists s, reachable ex_cfg s /\ quiescent s /\
    c_nA (lTail (pA s)) = 4%nat /\ c_nB (lTail (pA s)) = 3%nat /\
    c_h (lTail (pA s)) = 4 /\ c_h (lTail (pB s)) = 4 /\
    c_htlcs (lTail (pA s)) = [] /\
    c_rate (lTail (pA s)) = 3000 /\ c_fee (lTail (pA s)) = 3372 /\
    c_balA (lTail (pA s)) = 599340000 - 50000000 - 3372000 /\
    c_balB (lTail (pA s)) = 400000000 + 50000000 /\
    lTail (pA s) = rTail (pB s).
Proof.
  destruct (init_sys ex_cfg) as [s0|] eqn:H0; [|vm_compute in H0; discriminate].
  exists (run ex_cfg s0 ex_ops). split; [exists s0, ex_ops; split; [exact H0|reflexivity]|].
  vm_compute in H0. inversion H0; subst s0; clear H0.
  split; [apply quiescentb_ok; vm_compute; reflexivity|].
  vm_compute. repeat split.
Qed.

(* mid-schedule (after the two overlapping signatures): both commitments carry
   HTLCs, the dust one has no output, and a signature heads each queue *)
Example ex_sig_in_flight :
  exists s k q, reachable ex_cfg s /\ outq s (negb B) = MSig k :: q /\
    map h_ontx (c_htlcs k) = [true; false] /\ c_nA k = 2%nat /\ c_nB k = 0%nat.
Proof.
  destruct (init_sys ex_cfg) as [s0|] eqn:H0; [|vm_compute in H0; discriminate].
  eexists (run ex_cfg s0 (firstn 8 ex_ops)), _, _.
  split; [exists s0, (firstn 8 ex_ops); split; [exact H0|reflexivity]|].
  vm_compute in H0. inversion H0; subst s0; clear H0.
  vm_compute. repeat split.
Qed.

(* an unaffordable add: accepted into the log (the model leaves the decision to
   commit_of), then OSign is refused with ErrSanity *)
Example ex_sign_refused :
  exists s, reachable ex_cfg s /\ fst (step ex_cfg s (OSign A)) = ErrSanity.
Proof.
  destruct (init_sys ex_cfg) as [s0|] eqn:H0; [|vm_compute in H0; discriminate].
  exists (run ex_cfg s0 [OSend A (UAdd 700000000 500 1)]).
  split; [exists s0, [OSend A (UAdd 700000000 500 1)]; split; [exact H0|reflexivity]|].
  vm_compute in H0. inversion H0; subst s0; clear H0.
  vm_compute. reflexivity.
Qed.

(* disabled operations are refused without a state change *)
Example ex_disabled :
  from_init (fun s0 =>
    match step ex_cfg s0 (OSend B (USettle 0)), step ex_cfg s0 (ORevoke A),
          step ex_cfg s0 (ODeliver A), step ex_cfg s0 (OSend B (UFee 1000)) with
    | (ErrDisabled, _), (ErrNothing, _), (ErrNothing, _), (ErrDisabled, _) => true
    | _, _, _, _ => false
    end) = true.
Proof. vm_compute. reflexivity. Qed.

(* in-place fee merging (lnwallet appendFeeUpdate): two uncommitted update_fee
   in a row occupy ONE log entry on both sides although two messages travel;
   once the first is covered by a signature the next one is appended; the
   commitments signed afterwards are accepted (agreement across merges) *)
Example ex_fee_merge :
  from_init (fun s0 =>
    let ops := [ OSend A (UFee 3000); OSend A (UFee 3500); ODeliver B; ODeliver B;
                 OSign A; OSend A (UFee 4000); OSend A (UFee 4500);
                 ODeliver B; ODeliver B; ODeliver B; ORevoke B; ODeliver A;
                 OSign A; ODeliver B; ORevoke B; ODeliver A ] in
    let s := run ex_cfg s0 ops in
    all_ok ex_cfg s0 ops
    && (length (own (pA s)) =? 2)%nat && (length (peer (pB s)) =? 2)%nat
    && (c_rate (lTail (pB s)) =? 4500) && (c_h (lTail (pB s)) =? 2)) = true.
Proof. vm_compute. reflexivity. Qed.
