(* Trace checker (correspondence by vm_compute) for the breach arbiter's
   retribution flow: the batches of spends the harness handed to the REAL
   updateBreachInfo are replayed on BrarFlow.update_info, and after every
   (re)build the slice and every justice variant the real createJusticeTx
   produced (outpoint id, level, witness SHAPE observed on the signed
   transaction, on-chain amount, in slice order) must equal BrarFlow.build. *)
From Coq Require Import List NArith Bool Arith.
From LV Require Import Channel.BrarFlow.
Import ListNotations.

Definition kind_of_code (n : N) : okind :=
  match n with
  | 1%N => KCommitOwn | 2%N => KCommitRevoke | 3%N => KHtlcOffered | 4%N => KHtlcAccepted
  | _ => KSecond
  end.

Definition how_of (c a : N) : how := if (c =? 0)%N then HRevoke else HSecond a.

(* the witness shape a layout has on a transaction.  segwit v0: 1 = <sig> <1>
   <script> (revocation clause of a to_local / second-level script), 2 = <sig>
   <revocation key> <script> (HTLC script), 3 = our own to_remote (<sig> <key> or
   <sig> <script>); taproot: 4 = key spend, 5 = script path (<sig> <script>
   <control block>) *)
Definition shape (taproot : bool) (w : wkind) : N :=
  if taproot then match w with WCommitOwn | WCommitRevoke => 5%N | _ => 4%N end
  else match w with
       | WCommitOwn => 3%N
       | WCommitRevoke | WSecondRevoke => 1%N
       | WHtlcRevoke _ => 2%N
       end.

Definition oin := (N * bool * N * N)%type.   (* id, second level?, shape, amount *)
Definition obs := (list oin * list oin * list oin * list (list oin))%type.

Definition oin_of (tap : bool) (j : jin) : oin := (j_id j, j_second j, shape tap (j_w j), j_amt j).

Definition obs_of (tap : bool) (v : variants) : obs :=
  (map (oin_of tap) (v_all v), map (oin_of tap) (v_commit v), map (oin_of tap) (v_htlc v),
   map (map (oin_of tap)) (v_second v)).

Definition oin_eqb (a b : oin) : bool :=
  let '(i, s, w, m) := a in let '(i', s', w', m') := b in
  (i =? i')%N && Bool.eqb s s' && (w =? w')%N && (m =? m')%N.

Fixpoint oins_eqb (a b : list oin) : bool :=
  match a, b with
  | [], [] => true
  | x :: r, y :: r' => oin_eqb x y && oins_eqb r r'
  | _, _ => false
  end.

Fixpoint oinss_eqb (a b : list (list oin)) : bool :=
  match a, b with
  | [], [] => true
  | x :: r, y :: r' => oins_eqb x y && oinss_eqb r r'
  | _, _ => false
  end.

Definition obs_eqb (a b : obs) : bool :=
  let '(a1, a2, a3, a4) := a in let '(b1, b2, b3, b4) := b in
  oins_eqb a1 b1 && oins_eqb a2 b2 && oins_eqb a3 b3 && oinss_eqb a4 b4.

(* (code, batch, observed build): code 0 = first build, 1 = restart from the
   store then build, 2 = updateBreachInfo(batch) then build (an empty observed
   build = the arbiter considered the breach resolved).  batch entries: (slice
   index, 0 = spent through the revocation path / terminal | 1 = spent by a
   second-level transaction, amount of its output) *)
Definition op := (N * list (nat * N * N) * obs)%type.
(* (taproot?, newRetributionInfo's slice as (id, kind code, amount), ops) *)
Definition fcase := (bool * list (N * N * N) * list op)%type.

Fixpoint run_flow (tap : bool) (l0 l : list bout) (ops : list op) (i : N) : list N :=
  match ops with
  | [] => []
  | (c, sp, ob) :: r =>
    let l' := if (c =? 0)%N then Some l
              else if (c =? 1)%N then Some l0
              else update_info l (map (fun e => let '(i, cd, a) := e in (i, how_of cd a)) sp) in
    match l' with
    | None => [(1000 + i)%N]
    | Some l2 =>
      (if obs_eqb (obs_of tap (build l2)) ob then [] else [i]) ++ run_flow tap l0 l2 r (i + 1)%N
    end
  end.

Definition check_flow (c : fcase) : list N :=
  let '(tap, l0c, ops) := c in
  let l0 := map (fun e => let '(i, k, a) := e in mkB i (kind_of_code k) a) l0c in
  run_flow tap l0 l0 ops 0%N.

Fixpoint mismatches_flow (cases : list fcase) (i : N) : list (N * list N) :=
  match cases with
  | [] => []
  | c :: r =>
    match check_flow c with
    | [] => mismatches_flow r (i + 1)%N
    | bad => (i, bad) :: mismatches_flow r (i + 1)%N
    end
  end.
