(* C01view - restart: NewLightningChannel (v_restore) rebuilds, from the persisted state, a party
   that stands for the cut-level [restore p x].
   T1/T2  restoreStateLogs computed (restoreHtlc folds, restorePeerLocalUpdates,
          restorePendingLocalUpdates, restorePendingRemoteUpdates).
   T3  what is persisted: HL (HTLC list of a commitment), PList (a persisted list of log updates),
       CInv / PInv.   T4  the rebuilt logs, explicitly.   T5  the height maps.
   T6/T7  which HtlcIndexes the persisted data mention; heights given to the Adds.
   T8-T11  the rebuilt logs satisfy LogCorr with the maximal frontiers.
   T12  the rebuilt heights lie in the ranges of VInv.   T13/T14  CorrX of the rebuilt party. *)
From Coq Require Import List ZArith NArith Bool Arith Lia Permutation.
From LV Require Import Channel.Model Channel.Resync Channel.Proofs Channel.View Channel.ViewProofs
     Channel.ViewRefine Channel.ViewSim.
Import ListNotations.

(* ---------- T1: restoreStateLogs computed ---------- *)
Lemma lookup_list_eq u u' i : l_list u = l_list u' -> lookupHtlc u i = lookupHtlc u' i.
Proof. unfold lookupHtlc. intros ->. reflexivity. Qed.

Lemma lookup_none_app u es i :
  lookupHtlc u i = None -> (forall e, In e es -> is_add e = true -> e_htlc e <> i) ->
  find (fun e => is_add e && N.eqb (e_htlc e) i) (l_list u ++ es) = None.
Proof.
  unfold lookupHtlc. intros H HE.
  induction (l_list u) as [|a r IH]; cbn in *.
  - induction es as [|x es IHe]; [reflexivity|]. cbn.
    destruct (is_add x) eqn:AX; cbn.
    + destruct (N.eqb_spec (e_htlc x) i) as [E|NE]; [exfalso; apply (HE x (or_introl eq_refl) AX E)|].
      apply IHe. intros e IN. apply HE. now right.
    + apply IHe. intros e IN. apply HE. now right.
  - destruct (is_add a && N.eqb (e_htlc a) i); [discriminate|]. apply IH, H.
Qed.

(* restoreHtlc over a list of Adds with pairwise distinct HtlcIndex, none of them in the log yet *)
Lemma restoreHtlc_fold (f : entry -> entry) : forall es l,
  (forall e, In e es -> is_add (f e) = true) ->
  NoDup (map (fun e => e_htlc (f e)) es) ->
  (forall e, In e es -> lookupHtlc l (e_htlc (f e)) = None) ->
  let l' := fold_left (fun l e => restoreHtlc l (f e)) es l in
  l_list l' = l_list l ++ map f es /\ l_idx l' = l_idx l /\ l_htlc l' = l_htlc l /\ l_mod l' = l_mod l.
Proof.
  induction es as [|x es IH]; intros l HA ND HN; cbn [fold_left map].
  - rewrite app_nil_r. auto.
  - cbn in ND. inversion ND as [|? ? NI ND']; subst.
    assert (STEP : restoreHtlc l (f x) = mkLog (l_idx l) (l_htlc l) (l_list l ++ [f x]) (l_mod l)).
    { unfold restoreHtlc. rewrite (HN x (or_introl eq_refl)). reflexivity. }
    rewrite STEP.
    destruct (IH (mkLog (l_idx l) (l_htlc l) (l_list l ++ [f x]) (l_mod l))) as [A [B [C D]]].
    + intros e IN. apply HA. now right.
    + exact ND'.
    + intros e IN. unfold lookupHtlc. cbn [l_list].
      apply lookup_none_app; [apply HN; now right|].
      intros z [<-|[]] _ E. apply NI. rewrite E. apply (in_map (fun e0 => e_htlc (f e0))), IN.
    + cbn zeta in *. cbn [l_list l_idx l_htlc l_mod] in *. rewrite A, <- app_assoc. auto.
Qed.

Definition subset_mod (u u' : ulog) (extra : list N) : Prop :=
  forall i, memN i (l_mod u') = true -> memN i (l_mod u) = true \/ In i extra.

Lemma markmod_subset u i : subset_mod u (markHtlcModified u i) [i].
Proof. intros j M. apply markmod_mem in M. destruct M as [->|M]; [right; now left|left; exact M]. Qed.

Lemma payDesc_list_eq w r r' h u : l_list r = l_list r' -> payDesc_of w r h u = payDesc_of w r' h u.
Proof. intros E. unfold payDesc_of, amt_of. destruct (snd u); rewrite ?(lookup_list_eq r r' _ E); reflexivity. Qed.

Definition lu_parent (u : logupd) : list N :=
  match snd u with LSettle i | LFail i | LMalformed i => [i] | LAdd _ _ _ _ => [0%N] | LFee _ => [] end.

(* restorePeerLocalUpdates *)
Lemma restorePeerLocalUpdates_spec : forall us l r h,
  let st := restorePeerLocalUpdates l r us h in
  l_list (fst st) = l_list l ++ map (payDesc_of false r h) us /\
  l_idx (fst st) = l_idx l /\ l_htlc (fst st) = l_htlc l /\ l_mod (fst st) = l_mod l /\
  l_list (snd st) = l_list r /\ l_idx (snd st) = l_idx r /\ l_htlc (snd st) = l_htlc r /\
  subset_mod r (snd st) (flat_map lu_parent us).
Proof.
  unfold restorePeerLocalUpdates. induction us as [|u us IH]; intros l r h; cbn [fold_left map flat_map].
  - rewrite app_nil_r. repeat split; auto. intros i M. now left.
  - set (pd := payDesc_of false r h u).
    set (r1 := if is_fee pd then r else markHtlcModified r (e_parent pd)).
    assert (ER : l_list r1 = l_list r) by (unfold r1; destruct (is_fee pd); reflexivity).
    destruct (IH (restoreUpdate l pd) r1 h) as [A [B [C [D [E [F [G H]]]]]]].
    cbn zeta in *. rewrite A, B, C, D, E, F, G. cbn [restoreUpdate l_list l_idx l_htlc l_mod].
    rewrite <- app_assoc. cbn [app].
    assert (EM : map (payDesc_of false r1 h) us = map (payDesc_of false r h) us).
    { apply map_ext. intros z. apply payDesc_list_eq, ER. }
    rewrite EM. repeat split; auto; try (unfold r1; destruct (is_fee pd); reflexivity).
    intros i M. destruct (H i M) as [M1|M1]; [|right; apply in_or_app; now right].
    unfold r1 in M1. destruct (is_fee pd) eqn:FP; [left; exact M1|].
    apply markmod_mem in M1. destruct M1 as [->|M1]; [|left; exact M1].
    right. apply in_or_app. left. unfold pd, payDesc_of, lu_parent in *.
    destruct (snd u); cbn in FP |- *; try discriminate; rewrite ?sch_parent; cbn; auto.
    all: unfold setCommitHeight; cbn; auto.
Qed.

Definition is_ladd (u : logupd) : bool := match snd u with LAdd _ _ _ _ => true | _ => false end.
Definition is_lfee (u : logupd) : bool := match snd u with LFee _ => true | _ => false end.

Lemma payDesc_type w o h u : e_type (payDesc_of w o h u) =
  match snd u with LAdd _ _ _ _ => EAdd | LSettle _ => ESettle | LFail _ => EFail
                 | LMalformed _ => EMalformedFail | LFee _ => EFeeUpdate end.
Proof. unfold payDesc_of. rewrite sch_type. destruct (snd u); reflexivity. Qed.
Lemma payDesc_is_add w o h u : is_add (payDesc_of w o h u) = is_ladd u.
Proof. unfold is_add, is_ladd. rewrite payDesc_type. destruct (snd u); reflexivity. Qed.
Lemma payDesc_is_fee w o h u : is_fee (payDesc_of w o h u) = is_lfee u.
Proof. unfold is_fee, is_lfee. rewrite payDesc_type. destruct (snd u); reflexivity. Qed.
Lemma payDesc_log w o h u : e_log (payDesc_of w o h u) = fst u.
Proof. unfold payDesc_of. rewrite sch_log. destruct (snd u); reflexivity. Qed.
Lemma payDesc_parent w o h u : In (e_parent (payDesc_of w o h u)) (lu_parent u) \/ is_lfee u = true.
Proof. unfold payDesc_of, lu_parent, is_lfee. rewrite sch_parent. destruct (snd u); cbn; auto. Qed.

Definition lu_mark (u : logupd) : list N :=
  match snd u with LSettle i | LFail i | LMalformed i => [i] | _ => [] end.

(* restorePendingLocalUpdates *)
Lemma restorePendingLocalUpdates_spec : forall us l r h,
  let st := restorePendingLocalUpdates l r us h in
  l_list (fst st) = l_list l ++ map (payDesc_of false r h) us /\
  l_idx (fst st) = (l_idx l + N.of_nat (length us))%N /\
  l_htlc (fst st) = (l_htlc l + N.of_nat (length (filter is_ladd us)))%N /\
  l_mod (fst st) = l_mod l /\
  l_list (snd st) = l_list r /\ l_idx (snd st) = l_idx r /\ l_htlc (snd st) = l_htlc r /\
  subset_mod r (snd st) (flat_map lu_mark us).
Proof.
  unfold restorePendingLocalUpdates. induction us as [|u us IH]; intros l r h; cbn [fold_left map flat_map length filter].
  - rewrite app_nil_r. cbn. rewrite !N.add_0_r. repeat (match goal with |- _ /\ _ => split end); auto. intros i M. now left.
  - set (pd := payDesc_of false r h u).
    assert (CASE : exists l1 r1,
      (match e_type pd with
       | EAdd => (appendHtlc l pd, r)
       | EFeeUpdate => (appendUpdate l pd, r)
       | _ => (appendUpdate l pd, markHtlcModified r (e_parent pd)) end) = (l1, r1) /\
      l_list l1 = l_list l ++ [pd] /\ l_idx l1 = (l_idx l + 1)%N /\
      l_htlc l1 = (l_htlc l + (if is_ladd u then 1 else 0))%N /\ l_mod l1 = l_mod l /\
      l_list r1 = l_list r /\ l_idx r1 = l_idx r /\ l_htlc r1 = l_htlc r /\
      subset_mod r r1 (lu_mark u)).
    { pose proof (payDesc_type false r h u) as T. fold pd in T. unfold is_ladd.
      pose proof (payDesc_parent false r h u) as PP. fold pd in PP. unfold is_lfee, lu_parent in PP. unfold lu_mark.
      destruct (snd u) eqn:SU; rewrite T; eexists _, _; (split; [reflexivity|]);
        cbn [appendHtlc appendUpdate l_list l_idx l_htlc l_mod markHtlcModified];
        repeat split; auto; try lia; try (intros i M; now left).
      all: intros i M; apply markmod_mem in M; destruct M as [->|M]; [|left; exact M];
           right; destruct PP as [PP|PP]; [exact PP|discriminate]. }
    destruct CASE as [l1 [r1 [E [A1 [A2 [A3 [A4 [B1 [B2 [B3 B4]]]]]]]]]]. rewrite E.
    destruct (IH l1 r1 h) as [A [B [C [D [E' [F [G H]]]]]]]. cbn zeta in *.
    rewrite A, B, C, D, E', F, G, A1, A2, A3, A4, B1, B2, B3, <- app_assoc. cbn [app].
    assert (EM : map (payDesc_of false r1 h) us = map (payDesc_of false r h) us).
    { apply map_ext. intros z. apply payDesc_list_eq, B1. }
    rewrite EM. repeat split; auto; try lia.
    + destruct (is_ladd u); cbn [length]; lia.
    + intros i M. destruct (H i M) as [M1|M1]; [|right; apply in_or_app; now right].
      destruct (B4 i M1) as [M2|M2]; [left; exact M2|right; apply in_or_app; now left].
Qed.

(* restorePendingRemoteUpdates *)
Definition acked_entry (l : ulog) (localH : N) (pending : option (N * N)) (u : logupd) : entry :=
  let pd := payDesc_of true l localH u in
  match pending with
  | Some (ph, pidx) => if (e_log pd <? pidx)%N then setCommitHeight false ph pd else pd
  | None => pd
  end.

Lemma restorePendingRemoteUpdates_spec pending localH : forall us l r,
  let st := restorePendingRemoteUpdates l r us localH pending in
  l_list (snd st) = l_list r ++ map (acked_entry l localH pending) (filter (fun u => negb (is_ladd u)) us) /\
  l_idx (snd st) = l_idx r /\ l_htlc (snd st) = l_htlc r /\ l_mod (snd st) = l_mod r /\
  l_list (fst st) = l_list l /\ l_idx (fst st) = l_idx l /\ l_htlc (fst st) = l_htlc l /\
  subset_mod l (fst st) (flat_map lu_parent (filter (fun u => negb (is_ladd u)) us)).
Proof.
  unfold restorePendingRemoteUpdates. induction us as [|u us IH]; intros l r; cbn [fold_left map flat_map filter].
  - rewrite app_nil_r. repeat (match goal with |- _ /\ _ => split end); auto. intros i M. now left.
  - cbv zeta. rewrite (payDesc_is_add true l localH u). set (pd := payDesc_of true l localH u).
    destruct (is_ladd u) eqn:LA; cbn [negb].
    + apply IH.
    + set (pd' := match pending with
                  | Some (ph, pidx) => if (e_log pd <? pidx)%N then setCommitHeight false ph pd else pd
                  | None => pd end).
      assert (EPD : pd' = acked_entry l localH pending u) by reflexivity.
      assert (FP : is_fee pd' = is_lfee u).
      { unfold pd'. destruct pending as [[ph pidx]|]; [destruct (_ <? _)%N|];
          unfold is_fee; rewrite ?sch_type; apply (payDesc_is_fee true l localH u). }
      assert (PP : In (e_parent pd') (lu_parent u) \/ is_lfee u = true).
      { unfold pd'. destruct pending as [[ph pidx]|]; [destruct (_ <? _)%N|];
          rewrite ?sch_parent; apply (payDesc_parent true l localH u). }
      set (l1 := if is_fee pd' then l else markHtlcModified l (e_parent pd')).
      assert (EL1 : l_list l1 = l_list l) by (unfold l1; destruct (is_fee pd'); reflexivity).
      replace (if is_fee pd' then (l, restoreUpdate r pd') else (markHtlcModified l (e_parent pd'), restoreUpdate r pd'))
        with (l1, restoreUpdate r pd') by (unfold l1; destruct (is_fee pd'); reflexivity).
      destruct (IH l1 (restoreUpdate r pd')) as [A [B [C [D [E [F [G H]]]]]]]. cbn zeta in *.
      rewrite A, B, C, D, E, F, G. cbn [restoreUpdate l_list l_idx l_htlc l_mod map]. rewrite <- app_assoc. cbn [app].
      assert (EM : map (acked_entry l1 localH pending) (filter (fun u0 => negb (is_ladd u0)) us)
                   = map (acked_entry l localH pending) (filter (fun u0 => negb (is_ladd u0)) us)).
      { apply map_ext. intros z. unfold acked_entry. rewrite (payDesc_list_eq true l1 l localH z EL1). reflexivity. }
      rewrite EM, <- EPD. repeat split; auto; try (unfold l1; destruct (is_fee pd'); reflexivity).
      intros i M. destruct (H i M) as [M1|M1]; [|right; apply in_or_app; now right].
      unfold l1 in M1. destruct (is_fee pd') eqn:FF; [left; exact M1|].
      apply markmod_mem in M1. destruct M1 as [->|M1]; [|left; exact M1].
      right. apply in_or_app. left. destruct PP as [PP|PP]; [exact PP|congruence].
Qed.

(* ---------- T3: what is persisted ---------- *)
Definition heights0 (e : entry) : Prop :=
  e_addL e = 0%N /\ e_addR e = 0%N /\ e_rmL e = 0%N /\ e_rmR e = 0%N.
Definition not_named (Lo : list upd) (n j : nat) : Prop := ~ In j (parents (firstn n Lo)).

(* the HTLC list of a commitment with cut (nX, nY): exactly the Adds of L below nX that no settle /
   fail of Lo below nY names, as stripped entries *)
Record HL (L Lo : list upd) (nX nY : nat) (l : list entry) : Prop := mkHL {
  hl_nd : NoDup (map idx l);
  hl_in : forall e, In e l -> is_add e = true /\ heights0 e /\ corr_entry L Lo e /\ idx e < nX /\
                               not_named Lo nY (nadds (firstn (idx e) L));
  hl_all : forall i a ex h, i < nX -> nth_error L i = Some (UAdd a ex h) ->
           not_named Lo nY (nadds (firstn i L)) -> exists e, In e l /\ idx e = i
}.

Definition upd_lmsg (L : list upd) (i : nat) (m : lmsg) : Prop :=
  match nth_error L i, m with
  | Some (UAdd a e h), LAdd id a' e' h' =>
    id = N.of_nat (nadds (firstn i L)) /\ a' = a /\ e' = e /\ h' = h
  | Some (USettle j), LSettle id => id = N.of_nat j
  | Some (UFail j), LFail id => id = N.of_nat j
  | Some (UFail j), LMalformed id => id = N.of_nat j
  | Some (UFee r), LFee r' => r' = r
  | _, _ => False
  end.

Definition lidx (u : logupd) : nat := N.to_nat (fst u).

(* a persisted list of log updates: the updates of L with index in [lo, hi) - all of them
   (all = true) or at least every non-Add *)
Record PList (L : list upd) (us : list logupd) (lo hi : nat) (all : bool) : Prop := mkPL {
  pl_nd : NoDup (map lidx us);
  pl_in : forall u, In u us -> lo <= lidx u /\ lidx u < hi /\ upd_lmsg L (lidx u) (snd u);
  pl_all : forall i, lo <= i -> i < hi ->
           (all = true \/ forall a e h, nth_error L i <> Some (UAdd a e h)) ->
           exists u, In u us /\ lidx u = i;
  pl_fee : inc (map lidx (filter is_lfee us))
}.

Record CInv (p : bool) (x : party) (k : vcommit) : Prop := mkCI {
  ci_out : HL (own x) (peer x) (n_of p (vk k)) (n_of (negb p) (vk k)) (v_out k);
  ci_in : HL (peer x) (own x) (n_of (negb p) (vk k)) (n_of p (vk k)) (v_in k);
  ci_oh : v_ourh k = N.of_nat (nadds (firstn (n_of p (vk k)) (own x)));
  ci_th : v_theirh k = N.of_nat (nadds (firstn (n_of (negb p) (vk k)) (peer x)));
  ci_pos : 0 < n_of p (vk k) \/ 0 < n_of (negb p) (vk k) -> (0 < c_h (vk k))%Z
}.

Record PInv (p : bool) (x : party) (y : vparty) : Prop := mkPI {
  pi_lt : CInv p x (v_ltail y);
  pi_rt : CInv p x (v_rtail y);
  pi_lp : forall k, v_ltip y = Some k -> CInv p x k;
  pi_rp : forall k, v_rtip y = Some k -> CInv p x k;
  pi_diff : forall k, v_rtip y = Some k ->
            PList (own x) (d_diff y) (n_of p (vk (v_rtail y))) (n_of p (vk k)) true;
  pi_ru : PList (own x) (d_remote_unsigned y) (n_of p (vk (v_ltail y))) (n_of p (vk (v_rtail y))) false;
  pi_ru_na : forall u, In u (d_remote_unsigned y) -> is_ladd u = false;
  pi_ack : PList (peer x) (d_unsigned_acked y) (n_of (negb p) (vk (v_rtail y)))
                 (n_of (negb p) (vk (v_ltail y))) false
}.

(* HtlcIndexes of a commitment's HTLC list are pairwise distinct *)
Lemma hl_htlc_inj L Lo nX nY l e1 e2 : HL L Lo nX nY l -> In e1 l -> In e2 l -> e_htlc e1 = e_htlc e2 -> e1 = e2.
Proof.
  intros H I1 I2 E.
  destruct (hl_in _ _ _ _ _ H e1 I1) as [A1 [_ [C1 _]]]. destruct (hl_in _ _ _ _ _ H e2 I2) as [A2 [_ [C2 _]]].
  unfold corr_entry, is_add in *.
  destruct (nth_error L (idx e1)) as [[a1 x1 h1|?|?|?]|] eqn:N1; try tauto;
    try (destruct C1 as [T _]; rewrite T in A1; discriminate);
    try (destruct C1 as [[T|T] _]; rewrite T in A1; discriminate).
  destruct (nth_error L (idx e2)) as [[a2 x2 h2|?|?|?]|] eqn:N2; try tauto;
    try (destruct C2 as [T _]; rewrite T in A2; discriminate);
    try (destruct C2 as [[T|T] _]; rewrite T in A2; discriminate).
  destruct C1 as [_ [_ [_ [_ H1]]]]. destruct C2 as [_ [_ [_ [_ H2]]]].
  pose proof (nth_add_pos _ _ _ _ _ N1) as P1. pose proof (nth_add_pos _ _ _ _ _ N2) as P2.
  assert (EQ : nadds (firstn (idx e1) L) = nadds (firstn (idx e2) L)) by lia.
  rewrite EQ, P2 in P1. injection P1 as P1.
  eapply (nodup_map_inj idx l); eauto. apply (hl_nd _ _ _ _ _ H).
Qed.

Lemma hl_htlc_nodup L Lo nX nY l (f : entry -> entry) : HL L Lo nX nY l ->
  (forall e, e_htlc (f e) = e_htlc e) -> NoDup (map (fun e => e_htlc (f e)) l).
Proof.
  intros H HF. apply nodup_map_local.
  - eapply NoDup_map_inv, (hl_nd _ _ _ _ _ H).
  - intros a b IA IB E. rewrite !HF in E. eapply hl_htlc_inj; eauto.
Qed.

(* ---------- T4: the logs NewLightningChannel rebuilds, explicitly ---------- *)
Definition lhN (y : vparty) : N := Z.to_N (c_h (vk (v_ltail y))).
Definition rhN (y : vparty) : N := Z.to_N (c_h (vk (v_rtail y))).
Definition r_inc0 (y : vparty) : hmap :=
  match v_rtip y with
  | Some k => fold_left (fun m e => hput m (e_htlc e) (Z.to_N (c_h (vk k)))) (v_in k) []
  | None => [] end.
Definition r_inc1 (y : vparty) : hmap := fold_left (fun m e => hput m (e_htlc e) (rhN y)) (v_in (v_rtail y)) (r_inc0 y).
Definition r_out1 (y : vparty) : hmap := fold_left (fun m e => hput m (e_htlc e) (lhN y)) (v_out (v_ltail y)) [].
Definition r_out2 (y : vparty) : hmap :=
  fold_left (fun m u => match resolved_id u with Some i => hput m i (lhN y) | None => m end)
            (d_unsigned_acked y) (r_out1 y).
Definition r_inc2 (y : vparty) : hmap :=
  fold_left (fun m u => match resolved_id u with Some i => hput m i (rhN y) | None => m end)
            (d_remote_unsigned y) (r_inc1 y).
Definition fO (y : vparty) (e : entry) : entry :=
  set_add_h true (hget (r_out2 y) (e_htlc e)) (set_add_h false (rhN y) e).
Definition fI (y : vparty) (e : entry) : entry :=
  set_add_h false (hget (r_inc2 y) (e_htlc e)) (set_add_h true (lhN y) e).
Definition r_pend (p : bool) (y : vparty) : option (N * N) :=
  match v_rtip y with Some k => Some (Z.to_N (c_h (vk k)), idx_of (negb p) (vk k)) | None => None end.

Section Restored.
Variables (p : bool) (y : vparty).
Let lc := v_ltail y.
Let rc := v_rtail y.
Let lh := lhN y.
Let rh := rhN y.
Let pend := r_pend p y.
Variables (LO LP : list upd) (nO nP mO mP : nat).
Hypothesis HO : HL LO LP nO nP (v_out rc).
Hypothesis HI : HL LP LO mP mO (v_in lc).

Lemma set_add_h_htlc w h e : e_htlc (set_add_h w h e) = e_htlc e. Proof. destruct w; reflexivity. Qed.
Lemma set_add_h_is_add w h e : is_add (set_add_h w h e) = is_add e. Proof. destruct w; reflexivity. Qed.

Lemma restored_logs :
  exists l' r' rI,
    v_restore p y = mkVP l' r' lc None rc (v_rtip y) (d_diff y) (d_unsigned_acked y) (d_remote_unsigned y) /\
    l_list rI = map (fI y) (v_in lc) /\
    l_list l' = map (fO y) (v_out rc) ++ map (payDesc_of false rI rh) (d_remote_unsigned y)
                ++ match v_rtip y with
                   | Some k => map (payDesc_of false rI (Z.to_N (c_h (vk k)))) (d_diff y)
                   | None => [] end /\
    l_idx l' = (idx_of p (vk rc) + match v_rtip y with Some _ => N.of_nat (length (d_diff y)) | None => 0 end)%N /\
    l_htlc l' = (v_ourh rc + match v_rtip y with Some _ => N.of_nat (length (filter is_ladd (d_diff y))) | None => 0 end)%N /\
    l_list r' = map (fI y) (v_in lc) ++ map (acked_entry l' lh pend) (filter (fun u => negb (is_ladd u)) (d_unsigned_acked y)) /\
    l_idx r' = idx_of (negb p) (vk lc) /\ l_htlc r' = v_theirh lc /\
    (forall i, memN i (l_mod l') = true ->
       In i (flat_map lu_parent (filter (fun u => negb (is_ladd u)) (d_unsigned_acked y)))) /\
    (forall i, memN i (l_mod r') = true ->
       In i (flat_map lu_parent (d_remote_unsigned y)) \/
       In i (match v_rtip y with Some _ => flat_map lu_mark (d_diff y) | None => [] end)).
Proof.
  unfold v_restore, restoreStateLogs. cbv zeta.
  change (fold_left (fun m u => match resolved_id u with Some i => hput m i (Z.to_N (c_h (vk (v_ltail y)))) | None => m end) (d_unsigned_acked y) (fold_left (fun m e => hput m (e_htlc e) (Z.to_N (c_h (vk (v_ltail y))))) (v_out (v_ltail y)) [])) with (r_out2 y).
  change (fold_left (fun m u => match resolved_id u with Some i => hput m i (Z.to_N (c_h (vk (v_rtail y)))) | None => m end) (d_remote_unsigned y) (fold_left (fun m e => hput m (e_htlc e) (Z.to_N (c_h (vk (v_rtail y))))) (v_in (v_rtail y)) match v_rtip y with Some k => fold_left (fun m e => hput m (e_htlc e) (Z.to_N (c_h (vk k)))) (v_in k) [] | None => [] end)) with (r_inc2 y).
  fold lc rc. change (Z.to_N (c_h (vk lc))) with lh. change (Z.to_N (c_h (vk rc))) with rh.
  (* the two restoreHtlc folds *)
  set (r0 := newUpdateLog (idx_of (negb p) (vk lc)) (v_theirh lc)).
  set (l0 := newUpdateLog (idx_of p (vk rc)) (v_ourh rc)).
  destruct (restoreHtlc_fold (fI y) (v_in lc) r0) as [R1 [R2 [R3 R4]]].
  { intros e IN. unfold fI. rewrite !set_add_h_is_add. apply (hl_in _ _ _ _ _ HI e IN). }
  { apply (hl_htlc_nodup _ _ _ _ _ (fI y) HI). intros e. unfold fI. rewrite !set_add_h_htlc. reflexivity. }
  { intros e IN. reflexivity. }
  destruct (restoreHtlc_fold (fO y) (v_out rc) l0) as [L1 [L2 [L3 L4]]].
  { intros e IN. unfold fO. rewrite !set_add_h_is_add. apply (hl_in _ _ _ _ _ HO e IN). }
  { apply (hl_htlc_nodup _ _ _ _ _ (fO y) HO). intros e. unfold fO. rewrite !set_add_h_htlc. reflexivity. }
  { intros e IN. reflexivity. }
  cbn zeta in R1, R2, R3, R4, L1, L2, L3, L4.
  change (fun r e => restoreHtlc r (set_add_h false (hget (r_inc2 y) (e_htlc e)) (set_add_h true lh e)))
    with (fun r e => restoreHtlc r (fI y e)).
  change (fun l e => restoreHtlc l (set_add_h true (hget (r_out2 y) (e_htlc e)) (set_add_h false rh e)))
    with (fun l e => restoreHtlc l (fO y e)).
  set (r1 := fold_left (fun r e => restoreHtlc r (fI y e)) (v_in lc) r0) in *.
  set (l1 := fold_left (fun l e => restoreHtlc l (fO y e)) (v_out rc) l0) in *.
  pose proof (restorePeerLocalUpdates_spec (d_remote_unsigned y) l1 r1 rh) as P2.
  destruct (restorePeerLocalUpdates l1 r1 (d_remote_unsigned y) rh) as [l2 r2]. cbn [fst snd] in P2.
  destruct P2 as [A1 [A2 [A3 [A4 [A5 [A6 [A7 A8]]]]]]].
  set (st3 := match v_rtip y with
              | Some k => restorePendingLocalUpdates l2 r2 (d_diff y) (Z.to_N (c_h (vk k)))
              | None => (l2, r2) end).
  assert (P3 : l_list (fst st3) = l_list l2 ++ match v_rtip y with
                  | Some k => map (payDesc_of false r2 (Z.to_N (c_h (vk k)))) (d_diff y) | None => [] end /\
               l_idx (fst st3) = (l_idx l2 + match v_rtip y with Some _ => N.of_nat (length (d_diff y)) | None => 0 end)%N /\
               l_htlc (fst st3) = (l_htlc l2 + match v_rtip y with Some _ => N.of_nat (length (filter is_ladd (d_diff y))) | None => 0 end)%N /\
               l_mod (fst st3) = l_mod l2 /\
               l_list (snd st3) = l_list r2 /\ l_idx (snd st3) = l_idx r2 /\ l_htlc (snd st3) = l_htlc r2 /\
               subset_mod r2 (snd st3) (match v_rtip y with Some _ => flat_map lu_mark (d_diff y) | None => [] end)).
  { unfold st3. destruct (v_rtip y) as [k|].
    - apply restorePendingLocalUpdates_spec.
    - cbn [fst snd]. rewrite app_nil_r, !N.add_0_r. repeat (match goal with |- _ /\ _ => split end); auto.
      intros i M. now left. }
  destruct st3 as [l3 r3]. cbn [fst snd] in P3. destruct P3 as [B1 [B2 [B3 [B4 [B5 [B6 [B7 B8]]]]]]].
  pose proof (restorePendingRemoteUpdates_spec pend lh (d_unsigned_acked y) l3 r3) as P4.
  change (match v_rtip y with Some k => Some (Z.to_N (c_h (vk k)), idx_of (negb p) (vk k)) | None => None end) with pend.
  destruct (restorePendingRemoteUpdates l3 r3 (d_unsigned_acked y) lh pend) as [l4 r4]. cbn [fst snd] in P4.
  destruct P4 as [C1 [C2 [C3 [C4 [C5 [C6 [C7 C8]]]]]]].
  exists l4, r4, r1. split; [reflexivity|].
  assert (ER2 : forall h u, payDesc_of false r2 h u = payDesc_of false r1 h u)
    by (intros; apply payDesc_list_eq, A5).
  assert (EL4 : forall u, acked_entry l3 lh pend u = acked_entry l4 lh pend u).
  { intros u. unfold acked_entry. rewrite (payDesc_list_eq true l3 l4 lh u (eq_sym C5)). reflexivity. }
  split; [exact R1|]. split.
  { rewrite C5, B1, A1, L1. cbn [newUpdateLog l_list app]. rewrite <- app_assoc. f_equal. f_equal.
    destruct (v_rtip y); [|reflexivity]. apply map_ext. intros u. apply ER2. }
  split; [rewrite C6, B2, A2, L2; reflexivity|]. split; [rewrite C7, B3, A3, L3; reflexivity|].
  split.
  { rewrite C1, B5, A5, R1. cbn [newUpdateLog l_list app]. f_equal. apply map_ext. exact EL4. }
  split; [rewrite C2, B6, A6, R2; reflexivity|]. split; [rewrite C3, B7, A7, R3; reflexivity|].
  split.
  - intros i M. destruct (C8 i M) as [M1|M1]; [|exact M1]. exfalso.
    rewrite B4, A4, L4 in M1. cbn in M1. discriminate.
  - intros i M. rewrite C4 in M. destruct (B8 i M) as [M1|M1]; [|right; exact M1].
    destruct (A8 i M1) as [M2|M2]; [|left; exact M2]. exfalso. rewrite R4 in M2. cbn in M2. discriminate.
Qed.
End Restored.

(* ---------- T5: the height maps of restoreStateLogs ---------- *)
Lemma hget_fold_put {A} (key : A -> N) (v : N) : forall es m j,
  hget (fold_left (fun m e => hput m (key e) v) es m) j =
  if existsb (fun e => N.eqb (key e) j) es then v else hget m j.
Proof.
  induction es as [|e es IH]; intros m j; cbn [fold_left existsb]; [reflexivity|].
  rewrite IH. destruct (existsb _ es).
  - destruct (key e =? j)%N; reflexivity.
  - unfold hput. cbn [hget orb]. rewrite N.eqb_sym. destruct (key e =? j)%N; reflexivity.
Qed.

Lemma hget_fold_put_opt {A} (key : A -> option N) (v : N) : forall es m j,
  hget (fold_left (fun m u => match key u with Some i => hput m i v | None => m end) es m) j =
  if existsb (fun u => match key u with Some i => N.eqb i j | None => false end) es then v else hget m j.
Proof.
  induction es as [|e es IH]; intros m j; cbn [fold_left existsb]; [reflexivity|].
  rewrite IH. destruct (existsb _ es).
  - destruct (key e) as [i|]; [destruct (i =? j)%N|]; reflexivity.
  - destruct (key e) as [i|]; [|reflexivity]. unfold hput. cbn [hget orb]. rewrite N.eqb_sym.
    destruct (i =? j)%N; reflexivity.
Qed.

Definition has_htlc (l : list entry) (j : N) : bool := existsb (fun e => N.eqb (e_htlc e) j) l.
Definition resolves (us : list logupd) (j : N) : bool :=
  existsb (fun u => match resolved_id u with Some i => N.eqb i j | None => false end) us.

Lemma r_out2_spec y j :
  hget (r_out2 y) j = if resolves (d_unsigned_acked y) j || has_htlc (v_out (v_ltail y)) j then lhN y else 0%N.
Proof.
  unfold r_out2, r_out1. rewrite hget_fold_put_opt, hget_fold_put. fold (resolves (d_unsigned_acked y) j).
  fold (has_htlc (v_out (v_ltail y)) j). destruct (resolves _ j), (has_htlc _ j); reflexivity.
Qed.

Lemma r_inc2_spec y j :
  hget (r_inc2 y) j =
  if resolves (d_remote_unsigned y) j || has_htlc (v_in (v_rtail y)) j then rhN y
  else match v_rtip y with
       | Some k => if has_htlc (v_in k) j then Z.to_N (c_h (vk k)) else 0%N
       | None => 0%N end.
Proof.
  unfold r_inc2, r_inc1, r_inc0. rewrite hget_fold_put_opt, hget_fold_put.
  fold (resolves (d_remote_unsigned y) j). fold (has_htlc (v_in (v_rtail y)) j).
  destruct (resolves _ j), (has_htlc (v_in (v_rtail y)) j); cbn [orb]; try reflexivity.
  destruct (v_rtip y) as [k|]; [|reflexivity]. rewrite hget_fold_put. reflexivity.
Qed.

Lemma has_htlc_iff l j : has_htlc l j = true <-> exists e, In e l /\ e_htlc e = j.
Proof.
  unfold has_htlc. rewrite existsb_exists. split; intros [e [IN E]]; exists e; split; auto; apply N.eqb_eq; auto.
Qed.
Lemma resolves_iff us j : resolves us j = true <-> exists u, In u us /\ resolved_id u = Some j.
Proof.
  unfold resolves. rewrite existsb_exists. split; intros [u [IN E]]; exists u; split; auto.
  - destruct (resolved_id u) as [i|]; [apply N.eqb_eq in E; congruence|discriminate].
  - rewrite E. apply N.eqb_refl.
Qed.

(* ---------- T6: which HtlcIndexes the persisted data mention ---------- *)
Definition is_removal_of (u : upd) (j : nat) : Prop := u = USettle j \/ u = UFail j.

Lemma named_iff L n j : In j (parents (firstn n L)) <->
  exists i u, i < n /\ nth_error L i = Some u /\ is_removal_of u j.
Proof.
  split.
  - intros IN. destruct (parents_firstn_nth _ _ _ IN) as [i [LT [NE|NE]]]; eexists i, _; split; eauto;
      split; eauto; [left|right]; reflexivity.
  - intros [i [u [LT [NE [->| ->]]]]]; apply (nth_parent _ i); rewrite !nth_firstn by exact LT; auto.
Qed.

Lemma hl_has L Lo nX nY l j a : HL L Lo nX nY l -> add_pos L j = Some a ->
  (has_htlc l (N.of_nat j) = true <-> a < nX /\ not_named Lo nY j).
Proof.
  intros H AP. rewrite has_htlc_iff. split.
  - intros [e [IN EH]]. destruct (hl_in _ _ _ _ _ H e IN) as [A [_ [C [LT NN]]]].
    unfold corr_entry, is_add in *.
    destruct (nth_error L (idx e)) as [[a1 x1 h1|?|?|?]|] eqn:N1; try tauto;
      try (destruct C as [T _]; rewrite T in A; discriminate);
      try (destruct C as [[T|T] _]; rewrite T in A; discriminate).
    destruct C as [_ [_ [_ [_ HH]]]]. assert (EJ : nadds (firstn (idx e) L) = j) by lia.
    pose proof (nth_add_pos _ _ _ _ _ N1) as P1. rewrite EJ, AP in P1. injection P1 as ->.
    rewrite EJ in NN. auto.
  - intros [LT NN]. destruct (add_pos_nth _ _ _ AP) as [am [ex [h [NE NA]]]].
    destruct (hl_all _ _ _ _ _ H a am ex h LT NE) as [e [IN EI]]; [rewrite NA; exact NN|].
    exists e. split; [exact IN|]. destruct (hl_in _ _ _ _ _ H e IN) as [_ [_ [C _]]].
    unfold corr_entry in C. rewrite EI, NE in C. destruct C as [_ [_ [_ [_ HH]]]]. rewrite HH, NA. reflexivity.
Qed.

Lemma resolved_lmsg L i m j : upd_lmsg L i m ->
  (match m with LSettle k | LFail k | LMalformed k => Some k | _ => None end = Some (N.of_nat j) <->
   exists u, nth_error L i = Some u /\ is_removal_of u j).
Proof.
  unfold upd_lmsg, is_removal_of. intros U.
  destruct (nth_error L i) as [u0|] eqn:NE; [|destruct m; tauto].
  destruct u0 as [a e h|k|k|r]; destruct m as [id a' e' h'|id|id|id|r']; try tauto.
  - split; [discriminate|]. intros [u [E R]]. injection E as <-. destruct R; discriminate.
  - subst id. split.
    + intros E. injection E as E. apply Nat2N.inj in E. subst k. eexists. split; [reflexivity|now left].
    + intros [u [E R]]. injection E as <-. destruct R as [R|R]; [injection R as ->; reflexivity|discriminate].
  - subst id. split.
    + intros E. injection E as E. apply Nat2N.inj in E. subst k. eexists. split; [reflexivity|now right].
    + intros [u [E R]]. injection E as <-. destruct R as [R|R]; [discriminate|injection R as ->; reflexivity].
  - subst id. split.
    + intros E. injection E as E. apply Nat2N.inj in E. subst k. eexists. split; [reflexivity|now right].
    + intros [u [E R]]. injection E as <-. destruct R as [R|R]; [discriminate|injection R as ->; reflexivity].
  - split; [discriminate|]. intros [u [E R]]. injection E as <-. destruct R; discriminate.
Qed.

Lemma resolves_plist L us lo hi all j : PList L us lo hi all ->
  (resolves us (N.of_nat j) = true <->
   exists i u, lo <= i /\ i < hi /\ nth_error L i = Some u /\ is_removal_of u j).
Proof.
  intros PL. rewrite resolves_iff. split.
  - intros [u [IN R]]. destruct (pl_in _ _ _ _ _ PL u IN) as [A [B C]].
    unfold resolved_id in R. apply (resolved_lmsg L (lidx u) (snd u) j C) in R.
    destruct R as [u0 [NE RM]]. exists (lidx u), u0. auto.
  - intros [i [u0 [A [B [NE RM]]]]].
    destruct (pl_all _ _ _ _ _ PL i A B) as [u [IN EI]].
    { right. intros a e h E. rewrite NE in E. injection E as ->. destruct RM; discriminate. }
    exists u. split; [exact IN|]. destruct (pl_in _ _ _ _ _ PL u IN) as [_ [_ C]].
    unfold resolved_id. apply (resolved_lmsg L (lidx u) (snd u) j C). rewrite EI. eauto.
Qed.

(* ---------- T7: heights given by restoreStateLogs to the Adds ---------- *)
Section RestoreFacts.
Variables (c : cfg) (p : bool) (x : party) (y : vparty) (Fo Fp : nat).
Hypothesis CX : CorrX c p x y Fo Fp.
Hypothesis PI : PInv p x y.
Let CO := cx_corr _ _ _ _ _ _ CX.
Let LO := own x.
Let LP := peer x.
Let lO := n_of p (lTail x).
Let lP := n_of (negb p) (lTail x).
Let rO := n_of p (rTail x).
Let rP := n_of (negb p) (rTail x).
Let kO := n_of p (tip_of (rTail x) (rTip x)).
Let kP := n_of (negb p) (tip_of (rTail x) (rTip x)).

Lemma cuts : lO <= rO /\ rO <= kO /\ kO <= length LO /\ rP <= kP /\ kP <= lP /\ lP <= length LP.
Proof. pose proof (idx_chain c p x y Fo Fp CO) as IC. unfold lO, rO, kO, rP, kP, lP, LO, LP. lia. Qed.

Lemma vk_lt : vk (v_ltail y) = lTail x. Proof. apply CO. Qed.
Lemma vk_rt : vk (v_rtail y) = rTail x. Proof. apply CO. Qed.

Lemma hl_out_rc : HL LO LP rO rP (v_out (v_rtail y)).
Proof. pose proof (ci_out _ _ _ (pi_rt _ _ _ PI)) as H. rewrite vk_rt in H. exact H. Qed.
Lemma hl_in_rc : HL LP LO rP rO (v_in (v_rtail y)).
Proof. pose proof (ci_in _ _ _ (pi_rt _ _ _ PI)) as H. rewrite vk_rt in H. exact H. Qed.
Lemma hl_out_lc : HL LO LP lO lP (v_out (v_ltail y)).
Proof. pose proof (ci_out _ _ _ (pi_lt _ _ _ PI)) as H. rewrite vk_lt in H. exact H. Qed.
Lemma hl_in_lc : HL LP LO lP lO (v_in (v_ltail y)).
Proof. pose proof (ci_in _ _ _ (pi_lt _ _ _ PI)) as H. rewrite vk_lt in H. exact H. Qed.
Lemma pl_ack : PList LP (d_unsigned_acked y) rP lP false.
Proof. pose proof (pi_ack _ _ _ PI) as H. rewrite vk_lt, vk_rt in H. exact H. Qed.
Lemma pl_ru : PList LO (d_remote_unsigned y) lO rO false.
Proof. pose proof (pi_ru _ _ _ PI) as H. rewrite vk_lt, vk_rt in H. exact H. Qed.

Lemma pf_own j : In j (parents LO) -> exists a, add_pos LP j = Some a /\ a < lP /\ a < rP.
Proof. apply (co_pfo _ _ _ _ _ _ CO). Qed.
Lemma pf_peer j : In j (parents LP) -> exists a, add_pos LO j = Some a /\ a < lO /\ a < rO.
Proof. apply (co_pfp _ _ _ _ _ _ CO). Qed.

Lemma removal_parent L i u j : nth_error L i = Some u -> is_removal_of u j -> In j (parents L).
Proof. intros NE [->| ->]; apply (nth_parent _ i); auto. Qed.

(* an own Add that is live at the remote tail: its LOCAL add height is set iff it lies below
   the local tail's cut *)
Lemma own_add_local e :
  In e (v_out (v_rtail y)) ->
  (resolves (d_unsigned_acked y) (e_htlc e) || has_htlc (v_out (v_ltail y)) (e_htlc e) = true
   <-> idx e < lO).
Proof.
  intros IN. destruct (hl_in _ _ _ _ _ hl_out_rc e IN) as [A [_ [C [LT NN]]]].
  pose proof cuts as CU.
  unfold corr_entry, is_add in *.
  destruct (nth_error LO (idx e)) as [[a1 x1 h1|?|?|?]|] eqn:N1; try tauto;
    try (destruct C as [T _]; rewrite T in A; discriminate);
    try (destruct C as [[T|T] _]; rewrite T in A; discriminate).
  destruct C as [_ [_ [_ [_ HH]]]]. set (j := nadds (firstn (idx e) LO)) in *.
  pose proof (nth_add_pos _ _ _ _ _ N1) as AP. fold j in AP. rewrite HH.
  rewrite orb_true_iff, (resolves_plist _ _ _ _ _ j pl_ack), (hl_has _ _ _ _ _ j (idx e) hl_out_lc AP).
  split.
  - intros [[i' [u [G1 [G2 [NE RM]]]]]|[G _]]; [|exact G].
    destruct (pf_peer j (removal_parent _ _ _ _ NE RM)) as [a [AP2 [L1 L2]]]. rewrite AP in AP2.
    injection AP2 as <-. exact L1.
  - intros LL. destruct (in_dec Nat.eq_dec j (parents (firstn lP LP))) as [NM|NM]; [left|right; auto].
    apply named_iff in NM. destruct NM as [i' [u [G1 [NE RM]]]]. exists i', u. repeat split; auto.
    destruct (Nat.lt_ge_cases i' rP) as [H|H]; [exfalso|exact H].
    apply NN, named_iff. eauto.
Qed.

(* a peer Add that is live at the local tail: its REMOTE add height *)
Lemma peer_add_remote e :
  In e (v_in (v_ltail y)) ->
  (idx e < rP -> resolves (d_remote_unsigned y) (e_htlc e) || has_htlc (v_in (v_rtail y)) (e_htlc e) = true) /\
  (rP <= idx e -> resolves (d_remote_unsigned y) (e_htlc e) || has_htlc (v_in (v_rtail y)) (e_htlc e) = false) /\
  (rP <= idx e -> forall k, v_rtip y = Some k ->
     (has_htlc (v_in k) (e_htlc e) = true <-> idx e < kP)).
Proof.
  intros IN. destruct (hl_in _ _ _ _ _ hl_in_lc e IN) as [A [_ [C [LT NN]]]].
  pose proof cuts as CU.
  unfold corr_entry, is_add in *.
  destruct (nth_error LP (idx e)) as [[a1 x1 h1|?|?|?]|] eqn:N1; try tauto;
    try (destruct C as [T _]; rewrite T in A; discriminate);
    try (destruct C as [[T|T] _]; rewrite T in A; discriminate).
  destruct C as [_ [_ [_ [_ HH]]]]. set (j := nadds (firstn (idx e) LP)) in *.
  pose proof (nth_add_pos _ _ _ _ _ N1) as AP. fold j in AP. rewrite HH.
  (* no own removal at all names j unless j's position is below rP *)
  assert (NONE : rP <= idx e -> forall i u, nth_error LO i = Some u -> is_removal_of u j -> False).
  { intros GE i u NE RM. destruct (pf_own j (removal_parent _ _ _ _ NE RM)) as [a [AP2 [L1 L2]]].
    rewrite AP in AP2. injection AP2 as <-. lia. }
  split; [|split].
  - intros LL. apply orb_true_iff.
    rewrite (resolves_plist _ _ _ _ _ j pl_ru), (hl_has _ _ _ _ _ j (idx e) hl_in_rc AP).
    destruct (in_dec Nat.eq_dec j (parents (firstn rO LO))) as [NM|NM]; [left|right; auto].
    apply named_iff in NM. destruct NM as [i' [u [G1 [NE RM]]]]. exists i', u. repeat split; auto.
    destruct (Nat.lt_ge_cases i' lO) as [H|H]; [exfalso|exact H]. apply NN, named_iff. eauto.
  - intros GE. apply orb_false_iff. split.
    + destruct (resolves _ _) eqn:R; [|reflexivity]. exfalso.
      apply (resolves_plist _ _ _ _ _ j pl_ru) in R. destruct R as [i' [u [_ [_ [NE RM]]]]]. eapply NONE; eauto.
    + destruct (has_htlc _ _) eqn:R; [|reflexivity]. exfalso.
      apply (hl_has _ _ _ _ _ j (idx e) hl_in_rc AP) in R. lia.
  - intros GE k RT. pose proof (ci_in _ _ _ (pi_rp _ _ _ PI k RT)) as HK.
    assert (EK : vk k = tip_of (rTail x) (rTip x)).
    { pose proof (co_rp _ _ _ _ _ _ CO) as RP. rewrite RT in RP. cbn in RP. unfold tip_of. rewrite <- RP. reflexivity. }
    rewrite EK in HK. fold kO kP LO LP in HK.
    rewrite (hl_has _ _ _ _ _ j (idx e) HK AP). split; [tauto|]. intros LL. split; [exact LL|].
    intros NM. apply named_iff in NM. destruct NM as [i' [u [G1 [NE RM]]]]. eapply NONE; eauto.
Qed.
End RestoreFacts.

(* ---------- T8: the restored entries stand for the truncated update lists ---------- *)
Lemma nth_firstn_lt {A} (l : list A) n i : i < n -> nth_error (firstn n l) i = nth_error l i.
Proof. apply nth_firstn. Qed.
Lemma firstn_firstn_le {A} (l : list A) i n : i <= n -> firstn i (firstn n l) = firstn i l.
Proof. intros H. rewrite firstn_firstn. f_equal. lia. Qed.

Lemma amt_in_firstn L n j a : add_pos L j = Some a -> a < n ->
  amt_in (adds_of (firstn n L)) j = amt_in (adds_of L) j.
Proof.
  intros AP LT. unfold amt_in.
  destruct (lookup_add (adds_of (firstn n L)) j) as [v|] eqn:E.
  - rewrite (lookup_firstn_full _ _ _ _ E). reflexivity.
  - exfalso. eapply lookup_adds_firstn; eauto.
Qed.

(* corr_entry on prefixes *)
Lemma corr_firstn L Lo e n m :
  idx e < n -> corr_entry L Lo e ->
  (forall j, (nth_error L (idx e) = Some (USettle j) \/ nth_error L (idx e) = Some (UFail j)) ->
             exists a, add_pos Lo j = Some a /\ a < m) ->
  corr_entry (firstn n L) (firstn m Lo) e.
Proof.
  intros LT C HP. unfold corr_entry in *. rewrite nth_firstn_lt by exact LT.
  rewrite (firstn_firstn_le L (idx e) n) by lia.
  destruct (nth_error L (idx e)) as [[a ex h|j|j|r]|]; auto.
  - destruct (HP j (or_introl eq_refl)) as [a [AP LA]]. rewrite (amt_in_firstn _ _ _ _ AP LA). exact C.
  - destruct (HP j (or_intror eq_refl)) as [a [AP LA]]. rewrite (amt_in_firstn _ _ _ _ AP LA). exact C.
Qed.

(* an entry rebuilt from a persisted log update *)
Lemma payDesc_corr L Lo w other h u :
  upd_lmsg L (lidx u) (snd u) ->
  (forall j, (nth_error L (lidx u) = Some (USettle j) \/ nth_error L (lidx u) = Some (UFail j)) ->
             fst (amt_of other (N.of_nat j)) = amt_in (adds_of Lo) j) ->
  corr_entry L Lo (payDesc_of w other h u).
Proof.
  intros U HA. unfold corr_entry, idx. rewrite payDesc_log. fold (lidx u).
  unfold upd_lmsg in U. unfold payDesc_of.
  destruct (nth_error L (lidx u)) as [[a e hs|j|j|r]|] eqn:NE; destruct (snd u) as [id a' e' h'|id|id|id|r'];
    try tauto; rewrite ?sch_type, ?sch_amt, ?sch_exp, ?sch_hash, ?sch_htlc, ?sch_parent; cbn [new_entry e_type e_amt e_exp e_hash e_htlc e_parent].
  - destruct U as [-> [-> [-> ->]]]. auto.
  - subst id. rewrite (HA j (or_introl eq_refl)). auto.
  - subst id. rewrite (HA j (or_intror eq_refl)). auto.
  - subst id. rewrite (HA j (or_intror eq_refl)). auto.
  - subst r'. auto.
Qed.

Lemma find_app {A} (f : A -> bool) a b : find f (a ++ b) = match find f a with Some x => Some x | None => find f b end.
Proof. induction a as [|x a IH]; cbn; [reflexivity|]. destruct (f x); auto. Qed.

(* the amount a rebuilt settle / fail takes from the rebuilt Adds of the other log *)
Lemma amt_of_hl L Lo nX nY l (f : entry -> entry) (U : ulog) rest j a :
  HL L Lo nX nY l -> l_list U = map f l ++ rest ->
  (forall e, is_add (f e) = is_add e /\ e_htlc (f e) = e_htlc e /\ e_amt (f e) = e_amt e) ->
  add_pos L j = Some a -> a < nX -> not_named Lo nY j ->
  fst (amt_of U (N.of_nat j)) = amt_in (adds_of L) j.
Proof.
  intros H EL HF AP LT NN.
  pose proof (proj2 (hl_has _ _ _ _ _ j a H AP) (conj LT NN)) as HH0. apply has_htlc_iff in HH0.
  destruct HH0 as [e0 [I0 E0]].
  unfold amt_of, lookupHtlc. rewrite EL, find_app.
  destruct (find (fun e => is_add e && N.eqb (e_htlc e) (N.of_nat j)) (map f l)) as [z|] eqn:F.
  2:{ exfalso. assert (IN : In (f e0) (map f l)) by (apply in_map, I0).
      apply (find_none _ _ F) in IN. destruct (HF e0) as [A1 [A2 _]].
      rewrite A1, A2, E0, N.eqb_refl in IN.
      destruct (hl_in _ _ _ _ _ H e0 I0) as [AA _]. rewrite AA in IN. discriminate. }
  apply find_some in F. destruct F as [IZ PZ]. apply in_map_iff in IZ. destruct IZ as [e [<- IE]].
  destruct (HF e) as [A1 [A2 A3]]. rewrite A1, A2 in PZ. apply andb_true_iff in PZ. destruct PZ as [AE HE].
  apply N.eqb_eq in HE. cbn [fst]. rewrite A3.
  destruct (hl_in _ _ _ _ _ H e IE) as [_ [_ [C _]]]. unfold corr_entry, is_add in *.
  destruct (nth_error L (idx e)) as [[am ex h|?|?|?]|] eqn:NE; try tauto;
    try (destruct C as [T _]; rewrite T in AE; discriminate);
    try (destruct C as [[T|T] _]; rewrite T in AE; discriminate).
  destruct C as [_ [EA [_ [_ HH]]]]. assert (EJ : nadds (firstn (idx e) L) = j) by lia.
  rewrite EA, <- EJ. symmetry. eapply nth_add_amt, NE.
Qed.

(* ---------- T9: the rebuilt logs carry exactly the present indices ---------- *)
Definition is_uadd (u : upd) : bool := match u with UAdd _ _ _ => true | _ => false end.

Lemma upd_lmsg_add L i m : upd_lmsg L i m ->
  exists u, nth_error L i = Some u /\ is_uadd u = match m with LAdd _ _ _ _ => true | _ => false end.
Proof.
  unfold upd_lmsg. destruct (nth_error L i) as [[a e h|j|j|r]|]; destruct m; try tauto; intros _; eexists; split; reflexivity.
Qed.

Lemma corr_add_nth L Lo e : corr_entry L Lo e -> is_add e = true ->
  exists a ex h, nth_error L (idx e) = Some (UAdd a ex h) /\ e_htlc e = N.of_nat (nadds (firstn (idx e) L)).
Proof.
  unfold corr_entry, is_add. intros C A.
  destruct (nth_error L (idx e)) as [[a ex h|?|?|?]|]; try tauto.
  - exists a, ex, h. tauto.
  - destruct C as [T _]. rewrite T in A. discriminate.
  - destruct C as [[T|T] _]; rewrite T in A; discriminate.
  - destruct C as [T _]. rewrite T in A. discriminate.
Qed.

Lemma present_add L Lo Ft Fo i a ex h : nth_error L i = Some (UAdd a ex h) ->
  (present L Lo Ft Fo i = true <-> not_named Lo Fo (nadds (firstn i L))).
Proof.
  intros NE. unfold present, removed_below, not_named. rewrite NE, negb_true_iff. split.
  - intros E IN. assert (existsb (Nat.eqb (nadds (firstn i L))) (parents (firstn Fo Lo)) = true); [|congruence].
    apply existsb_exists. eexists. split; [exact IN|apply Nat.eqb_refl].
  - intros NI. destruct (existsb _ _) eqn:E; [|reflexivity]. exfalso. apply NI.
    apply existsb_exists in E. destruct E as [z [IZ EZ]]. apply Nat.eqb_eq in EZ. subst z. exact IZ.
Qed.
Lemma present_nonadd L Lo Ft Fo i u : nth_error L i = Some u -> is_uadd u = false ->
  (present L Lo Ft Fo i = true <-> Ft <= i).
Proof. intros NE NA. unfold present. rewrite NE. destruct u; try discriminate; apply Nat.leb_le. Qed.

Lemma nodup_app3 {A} (a b : list A) : NoDup a -> NoDup b -> (forall z, In z a -> In z b -> False) -> NoDup (a ++ b).
Proof.
  induction a as [|x a IH]; intros NA NB D; [exact NB|]. cbn. inversion NA as [|? ? NI NA']; subst.
  constructor.
  - intros IN. apply in_app_or in IN. destruct IN as [IN|IN]; [tauto|]. apply (D x); [now left|exact IN].
  - apply IH; auto. intros z IZ. apply D. now right.
Qed.

Section Perm.
Variables (c : cfg) (p : bool) (x : party) (y : vparty) (Fo Fp : nat).
Hypothesis CX : CorrX c p x y Fo Fp.
Hypothesis PI : PInv p x y.
Let CO := cx_corr _ _ _ _ _ _ CX.
Let LO := own x.
Let LP := peer x.
Let lO := n_of p (lTail x).
Let lP := n_of (negb p) (lTail x).
Let rO := n_of p (rTail x).
Let rP := n_of (negb p) (rTail x).
Let kO := n_of p (tip_of (rTail x) (rTip x)).
Let kP := n_of (negb p) (tip_of (rTail x) (rTip x)).
Let D := match v_rtip y with Some _ => d_diff y | None => [] end.

Lemma pl_D : PList LO D rO kO true.
Proof.
  unfold D. pose proof (co_rp _ _ _ _ _ _ CO) as RP.
  destruct (v_rtip y) as [k|] eqn:RT.
  - pose proof (pi_diff _ _ _ PI k RT) as H. rewrite (vk_rt c p x y Fo Fp CX) in H.
    cbn in RP. unfold kO, tip_of. rewrite <- RP. exact H.
  - cbn in RP. unfold kO, tip_of. rewrite <- RP. split.
    + constructor.
    + intros u [].
    + intros i H1 H2. unfold rO in *. lia.
    + exact I.
Qed.

Lemma own_indices :
  Permutation (map idx (v_out (v_rtail y)) ++ map lidx (d_remote_unsigned y) ++ map lidx D)
              (filter (present (firstn kO LO) (firstn lP LP) lO rP) (seq 0 (length (firstn kO LO)))).
Proof.
  pose proof (cuts c p x y Fo Fp CX) as CU. fold lO rO kO rP kP lP LO LP in CU.
  pose proof (hl_out_rc c p x y Fo Fp CX PI) as HO. fold LO LP rO rP in HO.
  pose proof (pl_ru c p x y Fo Fp CX PI) as PR. fold LO lO rO in PR.
  pose proof pl_D as PD.
  assert (LEN : length (firstn kO LO) = kO) by (rewrite firstn_length; lia).
  assert (NTH : forall i, i < kO -> nth_error (firstn kO LO) i = nth_error LO i) by (intros; apply nth_firstn; assumption).
  assert (NAD : forall i, i < kO -> nadds (firstn i (firstn kO LO)) = nadds (firstn i LO))
    by (intros; rewrite firstn_firstn_le by lia; reflexivity).
  assert (NNM : forall j, not_named (firstn lP LP) rP j <-> not_named LP rP j)
    by (intros j; unfold not_named; rewrite firstn_firstn_le by lia; tauto).
  assert (RU_NA : forall u, In u (d_remote_unsigned y) -> exists w, nth_error LO (lidx u) = Some w /\ is_uadd w = false).
  { intros u IN. destruct (pl_in _ _ _ _ _ PR u IN) as [_ [_ U]]. destruct (upd_lmsg_add _ _ _ U) as [w [NE EA]].
    exists w. split; [exact NE|]. rewrite EA. pose proof (pi_ru_na _ _ _ PI u IN) as NA. unfold is_ladd in NA.
    destruct (snd u); auto; discriminate. }
  apply NoDup_Permutation.
  - apply nodup_app3; [apply (hl_nd _ _ _ _ _ HO)|apply nodup_app3; [apply (pl_nd _ _ _ _ _ PR)|apply (pl_nd _ _ _ _ _ PD)|]|].
    + intros z I1 I2. apply in_map_iff in I1, I2. destruct I1 as [u1 [<- I1]], I2 as [u2 [E2 I2]].
      destruct (pl_in _ _ _ _ _ PR u1 I1) as [_ [A _]]. destruct (pl_in _ _ _ _ _ PD u2 I2) as [B _]. lia.
    + intros z I1 I2. apply in_map_iff in I1. destruct I1 as [e [<- I1]].
      destruct (hl_in _ _ _ _ _ HO e I1) as [AE [_ [C [LT _]]]].
      destruct (corr_add_nth _ _ _ C AE) as [a [ex [h [NE _]]]].
      apply in_app_or in I2. destruct I2 as [I2|I2]; apply in_map_iff in I2; destruct I2 as [u [E2 I2]].
      * destruct (RU_NA u I2) as [w [NW NA]]. rewrite E2, NE in NW. injection NW as <-. discriminate.
      * destruct (pl_in _ _ _ _ _ PD u I2) as [B _]. lia.
  - apply NoDup_filter, seq_NoDup.
  - intros i. rewrite filter_In, in_seq, LEN, !in_app_iff, !in_map_iff. split.
    + intros [[e [<- IE]]|[[u [<- IU]]|[u [<- IU]]]].
      * destruct (hl_in _ _ _ _ _ HO e IE) as [AE [_ [C [LT NN]]]].
        destruct (corr_add_nth _ _ _ C AE) as [a [ex [h [NE _]]]].
        split; [lia|]. apply (present_add _ _ _ _ _ a ex h); [rewrite NTH by lia; exact NE|].
        rewrite NAD by lia. apply NNM, NN.
      * destruct (pl_in _ _ _ _ _ PR u IU) as [A [B _]]. destruct (RU_NA u IU) as [w [NW NA]].
        split; [lia|]. apply (present_nonadd _ _ _ _ _ w); [rewrite NTH by lia; exact NW|exact NA|exact A].
      * destruct (pl_in _ _ _ _ _ PD u IU) as [A [B U]]. split; [lia|].
        destruct (upd_lmsg_add _ _ _ U) as [w [NW _]]. destruct (is_uadd w) eqn:AW.
        -- destruct w as [a ex h| | |]; try discriminate.
           apply (present_add _ _ _ _ _ a ex h); [rewrite NTH by lia; exact NW|]. rewrite NAD by lia.
           apply NNM. intros NM. apply named_iff in NM. destruct NM as [i' [u' [_ [NE' RM]]]].
           destruct (pf_peer c p x y Fo Fp CX _ (removal_parent _ _ _ _ NE' RM)) as [a0 [AP [_ L2]]].
           pose proof (nth_add_pos _ _ _ _ _ NW) as AP'. change (own x) with LO in AP. rewrite AP' in AP. injection AP as <-. fold rO in L2. lia.
        -- apply (present_nonadd _ _ _ _ _ w); [rewrite NTH by lia; exact NW|exact AW|lia].
    + intros [[_ LT] PR']. cbn [plus] in LT.
      destruct (nth_error LO i) as [w|] eqn:NW; [|apply nth_error_None in NW; lia].
      destruct (is_uadd w) eqn:AW.
      * destruct w as [a ex h| | |]; try discriminate.
        apply (present_add _ _ _ _ _ a ex h) in PR'; [|rewrite NTH by lia; exact NW].
        rewrite NAD in PR' by lia. apply NNM in PR'.
        destruct (Nat.lt_ge_cases i rO) as [H|H].
        -- left. destruct (hl_all _ _ _ _ _ HO i a ex h H NW PR') as [e [IE EI]]. eauto.
        -- right. right. destruct (pl_all _ _ _ _ _ PD i H LT (or_introl eq_refl)) as [u [IU EU]]. eauto.
      * apply (present_nonadd _ _ _ _ _ w) in PR'; [|rewrite NTH by lia; exact NW|exact AW].
        destruct (Nat.lt_ge_cases i rO) as [H|H].
        -- right. left. destruct (pl_all _ _ _ _ _ PR i PR' H) as [u [IU EU]]; [|eauto].
           right. intros a e h E. rewrite NW in E. injection E as ->. discriminate.
        -- right. right. destruct (pl_all _ _ _ _ _ PD i H LT (or_introl eq_refl)) as [u [IU EU]]. eauto.
Qed.

Definition nonadd_acked := filter (fun u => negb (is_ladd u)) (d_unsigned_acked y).

Lemma peer_indices :
  Permutation (map idx (v_in (v_ltail y)) ++ map lidx nonadd_acked)
              (filter (present (firstn lP LP) (firstn kO LO) rP lO) (seq 0 (length (firstn lP LP)))).
Proof.
  pose proof (cuts c p x y Fo Fp CX) as CU. fold lO rO kO rP kP lP LO LP in CU.
  pose proof (hl_in_lc c p x y Fo Fp CX PI) as HI. fold LO LP lO lP in HI.
  pose proof (pl_ack c p x y Fo Fp CX PI) as PA. fold LP rP lP in PA.
  assert (LEN : length (firstn lP LP) = lP) by (rewrite firstn_length; lia).
  assert (NTH : forall i, i < lP -> nth_error (firstn lP LP) i = nth_error LP i) by (intros; apply nth_firstn; assumption).
  assert (NAD : forall i, i < lP -> nadds (firstn i (firstn lP LP)) = nadds (firstn i LP))
    by (intros; rewrite firstn_firstn_le by lia; reflexivity).
  assert (NNM : forall j, not_named (firstn kO LO) lO j <-> not_named LO lO j)
    by (intros j; unfold not_named; rewrite firstn_firstn_le by lia; tauto).
  assert (NA_IN : forall u, In u nonadd_acked -> In u (d_unsigned_acked y) /\
                   exists w, nth_error LP (lidx u) = Some w /\ is_uadd w = false).
  { intros u IN. unfold nonadd_acked in IN. apply filter_In in IN. destruct IN as [IN NA]. split; [exact IN|].
    destruct (pl_in _ _ _ _ _ PA u IN) as [_ [_ U]]. destruct (upd_lmsg_add _ _ _ U) as [w [NE EA]].
    exists w. split; [exact NE|]. rewrite EA. unfold is_ladd in NA. destruct (snd u); auto; discriminate. }
  apply NoDup_Permutation.
  - apply nodup_app3; [apply (hl_nd _ _ _ _ _ HI)| |].
    + unfold nonadd_acked. pose proof (pl_nd _ _ _ _ _ PA) as ND. clear - ND.
      induction (d_unsigned_acked y) as [|u l IH]; cbn; [constructor|]. cbn in ND. inversion ND as [|? ? NI ND']; subst.
      destruct (negb (is_ladd u)); cbn; [constructor|]; auto.
      intros IN. apply NI. apply in_map_iff in IN. destruct IN as [z [E IZ]]. apply filter_In in IZ.
      rewrite <- E. apply in_map. tauto.
    + intros z I1 I2. apply in_map_iff in I1, I2. destruct I1 as [e [<- I1]], I2 as [u [E2 I2]].
      destruct (hl_in _ _ _ _ _ HI e I1) as [AE [_ [C [LT _]]]].
      destruct (corr_add_nth _ _ _ C AE) as [a [ex [h [NE _]]]].
      destruct (NA_IN u I2) as [_ [w [NW NA]]]. rewrite E2, NE in NW. injection NW as <-. discriminate.
  - apply NoDup_filter, seq_NoDup.
  - intros i. rewrite filter_In, in_seq, LEN, !in_app_iff, !in_map_iff. split.
    + intros [[e [<- IE]]|[u [<- IU]]].
      * destruct (hl_in _ _ _ _ _ HI e IE) as [AE [_ [C [LT NN]]]].
        destruct (corr_add_nth _ _ _ C AE) as [a [ex [h [NE _]]]].
        split; [lia|]. apply (present_add _ _ _ _ _ a ex h); [rewrite NTH by lia; exact NE|].
        rewrite NAD by lia. apply NNM, NN.
      * destruct (NA_IN u IU) as [IA [w [NW NA]]]. destruct (pl_in _ _ _ _ _ PA u IA) as [A [B _]].
        split; [lia|]. apply (present_nonadd _ _ _ _ _ w); [rewrite NTH by lia; exact NW|exact NA|exact A].
    + intros [[_ LT] PR']. cbn [plus] in LT.
      destruct (nth_error LP i) as [w|] eqn:NW; [|apply nth_error_None in NW; lia].
      destruct (is_uadd w) eqn:AW.
      * destruct w as [a ex h| | |]; try discriminate.
        apply (present_add _ _ _ _ _ a ex h) in PR'; [|rewrite NTH by lia; exact NW].
        rewrite NAD in PR' by lia. apply NNM in PR'.
        left. destruct (hl_all _ _ _ _ _ HI i a ex h LT NW PR') as [e [IE EI]]. eauto.
      * apply (present_nonadd _ _ _ _ _ w) in PR'; [|rewrite NTH by lia; exact NW|exact AW].
        right. destruct (pl_all _ _ _ _ _ PA i PR' LT) as [u [IU EU]].
        { right. intros a e h E. rewrite NW in E. injection E as ->. discriminate. }
        exists u. split; [exact EU|]. unfold nonadd_acked. apply filter_In. split; [exact IU|].
        destruct (pl_in _ _ _ _ _ PA u IU) as [_ [_ U]]. destruct (upd_lmsg_add _ _ _ U) as [w' [NW' EA]].
        rewrite EU, NW in NW'. injection NW' as <-. rewrite AW in EA. unfold is_ladd. destruct (snd u); auto; discriminate.
Qed.
End Perm.

(* ---------- T10: LogCorr of the rebuilt logs ---------- *)
Lemma corr_entry_ext L Lo e e' :
  e_type e' = e_type e -> e_log e' = e_log e -> e_htlc e' = e_htlc e -> e_parent e' = e_parent e ->
  e_amt e' = e_amt e -> e_exp e' = e_exp e -> e_hash e' = e_hash e ->
  corr_entry L Lo e -> corr_entry L Lo e'.
Proof. unfold corr_entry, idx. intros -> -> -> -> -> -> ->. auto. Qed.

Lemma corr_set_add_h L Lo w h e : corr_entry L Lo e -> corr_entry L Lo (set_add_h w h e).
Proof. apply corr_entry_ext; destruct w; reflexivity. Qed.
Lemma corr_sch L Lo w h e : corr_entry L Lo e -> corr_entry L Lo (setCommitHeight w h e).
Proof.
  apply corr_entry_ext; [apply sch_type|apply sch_log|apply sch_htlc|apply sch_parent|apply sch_amt|apply sch_exp|apply sch_hash].
Qed.

Lemma upd_lmsg_firstn L n i m : i < n -> upd_lmsg L i m -> upd_lmsg (firstn n L) i m.
Proof.
  intros LT U. unfold upd_lmsg in *. rewrite nth_firstn by exact LT. rewrite firstn_firstn_le by lia. exact U.
Qed.

Lemma inc_app : forall a b, inc a -> inc b -> (forall x y, In x a -> In y b -> x < y) -> inc (a ++ b).
Proof.
  induction a as [|x a IH]; intros b HA HB HL; [exact HB|]. cbn in *. destruct HA as [H1 H2]. split.
  - intros z IZ. apply in_app_or in IZ. destruct IZ as [IZ|IZ]; [apply H1, IZ|apply HL; auto].
  - apply IH; auto.
Qed.

Lemma idx_set_add_h w h e : idx (set_add_h w h e) = idx e. Proof. destruct w; reflexivity. Qed.
Lemma idx_payDesc w o h u : idx (payDesc_of w o h u) = lidx u.
Proof. unfold idx, lidx. rewrite payDesc_log. reflexivity. Qed.

Lemma acked_entry_log l h pd u : e_log (acked_entry l h pd u) = fst u.
Proof. unfold acked_entry. destruct pd as [[ph pi]|]; [destruct (_ <? _)%N|]; rewrite ?sch_log; apply payDesc_log. Qed.
Lemma idx_acked l h pd u : idx (acked_entry l h pd u) = lidx u.
Proof. unfold idx, lidx. rewrite acked_entry_log. reflexivity. Qed.
Lemma acked_entry_is_fee l h pd u : is_fee (acked_entry l h pd u) = is_lfee u.
Proof.
  unfold acked_entry. destruct pd as [[ph pi]|]; [destruct (_ <? _)%N|];
    unfold is_fee; rewrite ?sch_type; apply (payDesc_is_fee true l h u).
Qed.

Lemma filter_fee_map_add (f : entry -> entry) l : (forall e, In e l -> is_add (f e) = true) -> filter is_fee (map f l) = [].
Proof.
  induction l as [|a r IH]; intros H; [reflexivity|]. cbn.
  assert (is_fee (f a) = false).
  { pose proof (H a (or_introl eq_refl)) as A. unfold is_add, is_fee in *. destruct (e_type (f a)); try discriminate; reflexivity. }
  rewrite H0. apply IH. intros e IN. apply H. now right.
Qed.
Lemma filter_fee_payDesc w o h us : map idx (filter is_fee (map (payDesc_of w o h) us)) = map lidx (filter is_lfee us).
Proof.
  induction us as [|u us IH]; [reflexivity|]. cbn. rewrite payDesc_is_fee. destruct (is_lfee u); cbn; rewrite ?idx_payDesc, IH; reflexivity.
Qed.
Lemma filter_fee_acked l h pd us : map idx (filter is_fee (map (acked_entry l h pd) us)) = map lidx (filter is_lfee us).
Proof.
  induction us as [|u us IH]; [reflexivity|]. cbn. rewrite acked_entry_is_fee. destruct (is_lfee u); cbn; rewrite ?idx_acked, IH; reflexivity.
Qed.
Lemma filter_lfee_nonadd us : filter is_lfee (filter (fun u => negb (is_ladd u)) us) = filter is_lfee us.
Proof.
  induction us as [|u us IH]; [reflexivity|]. cbn [filter].
  destruct (is_ladd u) eqn:A; cbn [negb].
  - assert (F : is_lfee u = false) by (unfold is_ladd, is_lfee in *; destruct (snd u); congruence).
    rewrite F. exact IH.
  - cbn [filter]. destruct (is_lfee u); rewrite IH; reflexivity.
Qed.

Lemma set_add_h_amt w h e : e_amt (set_add_h w h e) = e_amt e. Proof. destruct w; reflexivity. Qed.
Lemma fI_keeps y e : is_add (fI y e) = is_add e /\ e_htlc (fI y e) = e_htlc e /\ e_amt (fI y e) = e_amt e.
Proof. unfold fI. rewrite !set_add_h_is_add, !set_add_h_htlc, !set_add_h_amt. auto. Qed.
Lemma fO_keeps y e : is_add (fO y e) = is_add e /\ e_htlc (fO y e) = e_htlc e /\ e_amt (fO y e) = e_amt e.
Proof. unfold fO. rewrite !set_add_h_is_add, !set_add_h_htlc, !set_add_h_amt. auto. Qed.

Section RestoreLC.
Variables (c : cfg) (p : bool) (x : party) (y : vparty) (Fo Fp : nat).
Hypothesis CX : CorrX c p x y Fo Fp.
Hypothesis PI : PInv p x y.
Let CO := cx_corr _ _ _ _ _ _ CX.
Let LO := own x.
Let LP := peer x.
Let lO := n_of p (lTail x).
Let lP := n_of (negb p) (lTail x).
Let rO := n_of p (rTail x).
Let rP := n_of (negb p) (rTail x).
Let kO := n_of p (tip_of (rTail x) (rTip x)).
Let D := match v_rtip y with Some _ => d_diff y | None => [] end.

(* own log *)
Lemma restore_logcorr_own (l' rI : ulog) hk :
  l_list rI = map (fI y) (v_in (v_ltail y)) ->
  l_list l' = map (fO y) (v_out (v_rtail y)) ++ map (payDesc_of false rI (rhN y)) (d_remote_unsigned y)
              ++ map (payDesc_of false rI hk) D ->
  LogCorr (firstn kO LO) (firstn lP LP) l' lO rP.
Proof.
  intros ERI EL.
  pose proof (cuts c p x y Fo Fp CX) as CU. fold lO rO kO rP lP LO LP in CU.
  pose proof (hl_out_rc c p x y Fo Fp CX PI) as HO. fold LO LP rO rP in HO.
  pose proof (hl_in_lc c p x y Fo Fp CX PI) as HI. fold LO LP lO lP in HI.
  pose proof (pl_ru c p x y Fo Fp CX PI) as PR. fold LO lO rO in PR.
  pose proof (pl_D c p x y Fo Fp CX PI) as PD. fold LO rO kO D in PD.
  (* amounts of the parents of rebuilt own removals *)
  assert (AMT : forall u lo hi all, PList LO (u :: nil) lo hi all \/ True -> lO <= lidx u -> lidx u < kO ->
                upd_lmsg LO (lidx u) (snd u) ->
                forall j, (nth_error (firstn kO LO) (lidx u) = Some (USettle j) \/
                           nth_error (firstn kO LO) (lidx u) = Some (UFail j)) ->
                fst (amt_of rI (N.of_nat j)) = amt_in (adds_of (firstn lP LP)) j).
  { intros u _ _ _ _ GE LT U j NE. rewrite !nth_firstn in NE by exact LT.
    destruct (pf_own c p x y Fo Fp CX j (nth_parent _ _ _ NE)) as [a [AP [L1 L2]]]. fold LP lP in AP, L1.
    rewrite (amt_in_firstn _ _ _ _ AP L1).
    apply (amt_of_hl LP LO lP lO (v_in (v_ltail y)) (fI y) rI [] j a HI);
      [rewrite app_nil_r; exact ERI|apply fI_keeps|exact AP|exact L1|].
    apply (nodup_parent_above LO lO (lidx u) j (co_ndo _ _ _ _ _ _ CO) GE NE). }
  split.
  - rewrite EL, !map_app, !map_map.
    rewrite (map_ext (fun e => idx (fO y e)) idx) by (intros e; unfold fO; rewrite !idx_set_add_h; reflexivity).
    rewrite (map_ext (fun u => idx (payDesc_of false rI (rhN y) u)) lidx) by (intros; apply idx_payDesc).
    rewrite (map_ext (fun u => idx (payDesc_of false rI hk u)) lidx) by (intros; apply idx_payDesc).
    apply (own_indices c p x y Fo Fp CX PI).
  - rewrite EL, !filter_app, !map_app.
    rewrite filter_fee_map_add, !filter_fee_payDesc.
    2:{ intros e IN. unfold fO. rewrite !set_add_h_is_add. apply (hl_in _ _ _ _ _ HO e IN). }
    cbn [map app]. apply inc_app; [apply (pl_fee _ _ _ _ _ PR)|apply (pl_fee _ _ _ _ _ PD)|].
    intros a b IA IB. apply in_map_iff in IA, IB. destruct IA as [u1 [<- I1]], IB as [u2 [<- I2]].
    apply filter_In in I1, I2. destruct (pl_in _ _ _ _ _ PR u1 (proj1 I1)) as [_ [A _]].
    destruct (pl_in _ _ _ _ _ PD u2 (proj1 I2)) as [B _]. lia.
  - intros e IN. rewrite EL in IN. apply in_app_or in IN. destruct IN as [IN|IN].
    + apply in_map_iff in IN. destruct IN as [e0 [<- I0]]. unfold fO. apply corr_set_add_h, corr_set_add_h.
      destruct (hl_in _ _ _ _ _ HO e0 I0) as [AE [_ [C [LT _]]]].
      apply corr_firstn; [lia|exact C|]. intros j NE. exfalso.
      destruct (corr_add_nth _ _ _ C AE) as [a [ex [h [N1 _]]]]. rewrite N1 in NE. destruct NE; discriminate.
    + apply in_app_or in IN. destruct IN as [IN|IN]; apply in_map_iff in IN; destruct IN as [u [<- IU]].
      * destruct (pl_in _ _ _ _ _ PR u IU) as [A [B U]].
        apply payDesc_corr; [apply upd_lmsg_firstn; [lia|exact U]|].
        apply (AMT u 0 0 false (or_intror I)); auto; lia.
      * destruct (pl_in _ _ _ _ _ PD u IU) as [A [B U]].
        apply payDesc_corr; [apply upd_lmsg_firstn; [lia|exact U]|].
        apply (AMT u 0 0 false (or_intror I)); auto; lia.
Qed.

(* peer log *)
Lemma restore_logcorr_peer (l' r' : ulog) lh pd rest :
  l_list l' = map (fO y) (v_out (v_rtail y)) ++ rest ->
  l_list r' = map (fI y) (v_in (v_ltail y)) ++ map (acked_entry l' lh pd) (nonadd_acked y) ->
  LogCorr (firstn lP LP) (firstn kO LO) r' rP lO.
Proof.
  intros EL ER.
  pose proof (cuts c p x y Fo Fp CX) as CU. fold lO rO kO rP lP LO LP in CU.
  pose proof (hl_out_rc c p x y Fo Fp CX PI) as HO. fold LO LP rO rP in HO.
  pose proof (hl_in_lc c p x y Fo Fp CX PI) as HI. fold LO LP lO lP in HI.
  pose proof (pl_ack c p x y Fo Fp CX PI) as PA. fold LP rP lP in PA.
  split.
  - rewrite ER, !map_app, !map_map.
    rewrite (map_ext (fun e => idx (fI y e)) idx) by (intros e; unfold fI; rewrite !idx_set_add_h; reflexivity).
    rewrite (map_ext (fun u => idx (acked_entry l' lh pd u)) lidx) by (intros; apply idx_acked).
    apply (peer_indices c p x y Fo Fp CX PI).
  - rewrite ER, !filter_app, !map_app. rewrite filter_fee_map_add, filter_fee_acked.
    2:{ intros e IN. unfold fI. rewrite !set_add_h_is_add. apply (hl_in _ _ _ _ _ HI e IN). }
    cbn [app]. unfold nonadd_acked. rewrite filter_lfee_nonadd. apply (pl_fee _ _ _ _ _ PA).
  - intros e IN. rewrite ER in IN. apply in_app_or in IN. destruct IN as [IN|IN].
    + apply in_map_iff in IN. destruct IN as [e0 [<- I0]]. unfold fI. apply corr_set_add_h, corr_set_add_h.
      destruct (hl_in _ _ _ _ _ HI e0 I0) as [AE [_ [C [LT _]]]].
      apply corr_firstn; [lia|exact C|]. intros j NE. exfalso.
      destruct (corr_add_nth _ _ _ C AE) as [a [ex [h [N1 _]]]]. rewrite N1 in NE. destruct NE; discriminate.
    + apply in_map_iff in IN. destruct IN as [u [<- IU]]. unfold nonadd_acked in IU. apply filter_In in IU.
      destruct IU as [IU _]. destruct (pl_in _ _ _ _ _ PA u IU) as [A [B U]].
      assert (C0 : corr_entry (firstn lP LP) (firstn kO LO) (payDesc_of true l' lh u)).
      { apply payDesc_corr; [apply upd_lmsg_firstn; [lia|exact U]|].
        intros j NE. rewrite !nth_firstn in NE by exact B.
        destruct (pf_peer c p x y Fo Fp CX j (nth_parent _ _ _ NE)) as [a [AP [L1 L2]]]. fold LO rO in AP, L2.
        rewrite (amt_in_firstn LO kO j a AP) by lia.
        apply (amt_of_hl LO LP rO rP (v_out (v_rtail y)) (fO y) l' rest j a HO EL);
          [apply fO_keeps|exact AP|exact L2|].
        apply (nodup_parent_above LP rP (lidx u) j (co_ndp _ _ _ _ _ _ CO) A NE). }
      unfold acked_entry; cbv zeta. destruct pd as [[ph pi]|]; [destruct (_ <? pi)%N; [apply corr_sch; exact C0|exact C0]|exact C0].
Qed.
End RestoreLC.

(* ---------- T12: the heights restoreStateLogs assigns lie in the ranges of VInv ---------- *)
Lemma committed_add w e : is_add e = true -> committed w e = add_h w e.
Proof. unfold committed, is_remove, is_add. destruct (e_type e); try discriminate; reflexivity. Qed.

Lemma fO_heights y e : add_h true (fO y e) = hget (r_out2 y) (e_htlc e) /\ add_h false (fO y e) = rhN y.
Proof. unfold fO, set_add_h, add_h. cbn. auto. Qed.
Lemma fI_heights y e : add_h true (fI y e) = lhN y /\ add_h false (fI y e) = hget (r_inc2 y) (e_htlc e).
Proof. unfold fI, set_add_h, add_h. cbn. auto. Qed.

Lemma fO_log y e : e_log (fO y e) = e_log e. Proof. unfold fO, set_add_h. reflexivity. Qed.
Lemma fI_log y e : e_log (fI y e) = e_log e. Proof. unfold fI, set_add_h. reflexivity. Qed.

Lemma payDesc_committed_same w o h u : committed w (payDesc_of w o h u) = h.
Proof. unfold payDesc_of. apply sch_committed_same. Qed.
Lemma payDesc_committed_other w o h u : committed (negb w) (payDesc_of w o h u) = 0%N.
Proof.
  unfold payDesc_of. rewrite sch_committed_other. destruct (snd u); apply new_entry_committed.
Qed.

Lemma acked_committed_true l h pd u : committed true (acked_entry l h pd u) = h.
Proof.
  unfold acked_entry; cbv zeta. destruct pd as [[ph pi]|]; [destruct (_ <? pi)%N|];
    rewrite ?(sch_committed_other false); apply payDesc_committed_same.
Qed.
Lemma acked_committed_false l h pd u : committed false (acked_entry l h pd u) =
  match pd with Some (ph, pi) => if (fst u <? pi)%N then ph else 0%N | None => 0%N end.
Proof.
  unfold acked_entry; cbv zeta. rewrite payDesc_log. destruct pd as [[ph pi]|].
  - destruct (fst u <? pi)%N; [apply sch_committed_same|apply (payDesc_committed_other true)].
  - apply (payDesc_committed_other true).
Qed.

Lemma plist_all_length L us lo hi : lo <= hi -> PList L us lo hi true -> length us = hi - lo.
Proof.
  intros LE PL. rewrite <- (map_length lidx us), <- (seq_length (hi - lo) lo).
  apply Permutation_length, NoDup_Permutation; [apply (pl_nd _ _ _ _ _ PL)|apply seq_NoDup|].
  intros i. rewrite in_seq, in_map_iff. split.
  - intros [u [<- IU]]. destruct (pl_in _ _ _ _ _ PL u IU) as [A [B _]]. lia.
  - intros [A B]. destruct (pl_all _ _ _ _ _ PL i A) as [u [IU EU]]; [lia|now left|]. eauto.
Qed.

Section RestoreVInv.
Variables (c : cfg) (p : bool) (x : party) (y : vparty) (Fo Fp : nat).
Hypothesis CX : CorrX c p x y Fo Fp.
Hypothesis PI : PInv p x y.
Let CO := cx_corr _ _ _ _ _ _ CX.
Let LO := own x.
Let LP := peer x.
Let lO := n_of p (lTail x).
Let lP := n_of (negb p) (lTail x).
Let rO := n_of p (rTail x).
Let rP := n_of (negb p) (rTail x).
Let kO := n_of p (tip_of (rTail x) (rTip x)).
Let kP := n_of (negb p) (tip_of (rTail x) (rTip x)).
Let D := match v_rtip y with Some _ => d_diff y | None => [] end.
Let hk := match v_rtip y with Some k => Z.to_N (c_h (vk k)) | None => 0%N end.

Lemma restore_vinv (l' r' rI : ulog) dd da dr :
  l_list l' = map (fO y) (v_out (v_rtail y)) ++ map (payDesc_of false rI (rhN y)) (d_remote_unsigned y)
              ++ map (payDesc_of false rI hk) D ->
  l_list r' = map (fI y) (v_in (v_ltail y)) ++ map (acked_entry l' (lhN y) (r_pend p y)) (nonadd_acked y) ->
  l_idx l' = N.of_nat kO -> l_idx r' = N.of_nat lP ->
  VInv p (mkVP l' r' (v_ltail y) None (v_rtail y) (v_rtip y) dd da dr).
Proof.
  intros EL ER IL IR.
  pose proof (cuts c p x y Fo Fp CX) as CU. fold lO rO kO rP kP lP LO LP in CU.
  pose proof (hl_out_rc c p x y Fo Fp CX PI) as HO. fold LO LP rO rP in HO.
  pose proof (hl_in_lc c p x y Fo Fp CX PI) as HI. fold LO LP lO lP in HI.
  pose proof (pl_ru c p x y Fo Fp CX PI) as PR. fold LO lO rO in PR.
  pose proof (pl_ack c p x y Fo Fp CX PI) as PA. fold LP rP lP in PA.
  pose proof (pl_D c p x y Fo Fp CX PI) as PD. fold LO rO kO D in PD.
  pose proof (co_inv _ _ _ _ _ _ CO) as VI.
  pose proof (vk_lt c p x y Fo Fp CX) as KL. pose proof (vk_rt c p x y Fo Fp CX) as KR.
  pose proof (rtipv_eq c p x y Fo Fp CO) as KT.
  assert (IXL : forall q, ix q (v_ltail y) = N.of_nat (n_of q (lTail x))) by (intros; unfold ix, idx_of; rewrite KL; reflexivity).
  assert (IXR : forall q, ix q (v_rtail y) = N.of_nat (n_of q (rTail x))) by (intros; unfold ix, idx_of; rewrite KR; reflexivity).
  assert (IXT : forall q, ix q (rtipv y) = N.of_nat (n_of q (tip_of (rTail x) (rTip x)))) by (intros; unfold ix, idx_of; rewrite KT; reflexivity).
  (* positivity of the tail heights *)
  assert (LHP : 0 < lO \/ 0 < lP -> (0 < lhN y)%N).
  { intros H. pose proof (ci_pos _ _ _ (pi_lt _ _ _ PI)) as P. rewrite KL in P. unfold lhN. rewrite KL. fold lO lP in P. specialize (P H). lia. }
  assert (RHP : 0 < rO \/ 0 < rP -> (0 < rhN y)%N).
  { intros H. pose proof (ci_pos _ _ _ (pi_rt _ _ _ PI)) as P. rewrite KR in P. unfold rhN. rewrite KR. fold rO rP in P. specialize (P H). lia. }
  (* the pending commitment *)
  assert (HKF : (hN (v_rtail y) <= hN (rtipv y))%N /\
                (forall k, v_rtip y = Some k -> hk = hN k /\ (hN (v_rtail y) < hk)%N /\ hN (rtipv y) = hk) /\
                (v_rtip y = None -> kO = rO /\ kP = rP)).
  { split; [apply (hN_tip_r _ _ VI)|]. split.
    - intros k RT. unfold hk, rtipv, vtip, hN. rewrite RT. repeat split; auto.
      destruct (vi_hr _ _ VI) as [A B]. specialize (B k RT). lia.
    - intros RT. pose proof (co_rp _ _ _ _ _ _ CO) as RP. rewrite RT in RP. cbn in RP.
      unfold kO, kP, tip_of. rewrite <- RP. auto. }
  destruct HKF as [HK0 [HKS HKN]].
  constructor; unfold ltipv, rtipv;
    cbn [vl vr v_ltail v_ltip v_rtail v_rtip vtip].
  - split; [apply (vi_hl _ _ VI)|discriminate].
  - apply (vi_hr _ _ VI).
  - fold (rtipv y). rewrite IL, !IXL, !IXR, IXT. fold lO rO kO. lia.
  - fold (rtipv y). rewrite IR, !IXL, !IXR, IXT. fold lP rP kP. lia.
  - (* own log, remote chain *)
    fold (rtipv y). rewrite IXR, IXT. fold rO kO. intros e IN. rewrite EL in IN.
    apply in_app_or in IN. destruct IN as [IN|IN]; [|apply in_app_or in IN; destruct IN as [IN|IN]];
      apply in_map_iff in IN; destruct IN as [u [<- IU]].
    + destruct (hl_in _ _ _ _ _ HO u IU) as [AE [_ [_ [LT _]]]].
      rewrite committed_add by (unfold fO; rewrite !set_add_h_is_add; exact AE).
      rewrite (proj2 (fO_heights y u)). rewrite fO_log.
      assert ((0 < rhN y)%N) by (apply RHP; lia).
      unfold in_range, idx in *. change (hN (v_rtail y)) with (rhN y). lia.
    + destruct (pl_in _ _ _ _ _ PR u IU) as [A [B _]]. rewrite payDesc_committed_same, payDesc_log.
      assert ((0 < rhN y)%N) by (apply RHP; lia).
      unfold in_range, lidx in *. change (hN (v_rtail y)) with (rhN y). lia.
    + destruct (pl_in _ _ _ _ _ PD u IU) as [A [B _]]. rewrite payDesc_committed_same, payDesc_log.
      assert (exists k, v_rtip y = Some k) as [k RT].
      { unfold D in IU. destruct (v_rtip y); [eauto|destruct IU]. }
      destruct (HKS k RT) as [E1 [E2 E3]]. unfold in_range, lidx in *. lia.
  - (* own log, local chain *)
    rewrite IXL. fold lO. intros e IN. rewrite EL in IN.
    apply in_app_or in IN. destruct IN as [IN|IN]; [|apply in_app_or in IN; destruct IN as [IN|IN]];
      apply in_map_iff in IN; destruct IN as [u [<- IU]].
    + destruct (hl_in _ _ _ _ _ HO u IU) as [AE _].
      rewrite committed_add by (unfold fO; rewrite !set_add_h_is_add; exact AE).
      rewrite (proj1 (fO_heights y u)), r_out2_spec. rewrite fO_log.
      pose proof (own_add_local c p x y Fo Fp CX PI u IU) as OA. fold lO in OA.
      destruct (resolves _ _ || has_htlc _ _) eqn:E.
      * assert (idx u < lO) by (apply OA; reflexivity). assert ((0 < lhN y)%N) by (apply LHP; lia).
        unfold in_range, idx in *. change (hN (v_ltail y)) with (lhN y). lia.
      * assert (~ idx u < lO) by (intros H; apply OA in H; discriminate).
        unfold in_range, idx in *. lia.
    + destruct (pl_in _ _ _ _ _ PR u IU) as [A [B _]].
      rewrite (payDesc_committed_other false), payDesc_log. unfold in_range, lidx in *. lia.
    + destruct (pl_in _ _ _ _ _ PD u IU) as [A [B _]].
      rewrite (payDesc_committed_other false), payDesc_log. unfold in_range, lidx in *. lia.
  - (* peer log, remote chain *)
    fold (rtipv y). rewrite IXR, IXT. fold rP kP. intros e IN. rewrite ER in IN.
    apply in_app_or in IN. destruct IN as [IN|IN]; apply in_map_iff in IN; destruct IN as [u [<- IU]].
    + destruct (hl_in _ _ _ _ _ HI u IU) as [AE [_ [_ [LT _]]]].
      rewrite committed_add by (unfold fI; rewrite !set_add_h_is_add; exact AE).
      rewrite (proj2 (fI_heights y u)), r_inc2_spec. rewrite fI_log.
      destruct (peer_add_remote c p x y Fo Fp CX PI u IU) as [P1 [P2 P3]]. fold rP kP in P1, P2, P3.
      destruct (Nat.lt_ge_cases (idx u) rP) as [H|H].
      * rewrite (P1 H). assert ((0 < rhN y)%N) by (apply RHP; lia).
        unfold in_range, idx in *. change (hN (v_rtail y)) with (rhN y). lia.
      * rewrite (P2 H). destruct (v_rtip y) as [k|] eqn:RT.
        -- destruct (HKS k eq_refl) as [E1 [E2 E3]]. specialize (P3 H k eq_refl).
           destruct (has_htlc (v_in k) (e_htlc u)) eqn:HH.
           ++ assert (idx u < kP) by (apply P3; reflexivity). unfold hk in *. unfold in_range, idx in *. lia.
           ++ assert (~ idx u < kP) by (intros X; apply P3 in X; discriminate). unfold in_range, idx in *. lia.
        -- destruct (HKN eq_refl) as [E1 E2]. unfold in_range, idx in *. lia.
    + unfold nonadd_acked in IU. apply filter_In in IU. destruct IU as [IU _].
      destruct (pl_in _ _ _ _ _ PA u IU) as [A [B _]].
      rewrite acked_committed_false, acked_entry_log. unfold r_pend.
      destruct (v_rtip y) as [k|] eqn:RT.
      * destruct (HKS k eq_refl) as [E1 [E2 E3]].
        assert (EKP : idx_of (negb p) (vk k) = N.of_nat kP).
        { pose proof (co_rp _ _ _ _ _ _ CO) as RP. rewrite RT in RP. cbn in RP. unfold kP, tip_of, idx_of. rewrite <- RP. reflexivity. }
        rewrite EKP. unfold hk in *.
        destruct (fst u <? N.of_nat kP)%N eqn:LTB; [apply N.ltb_lt in LTB|apply N.ltb_ge in LTB];
          unfold in_range, lidx in *; lia.
      * destruct (HKN eq_refl) as [E1 E2]. unfold in_range, lidx in *. lia.
  - (* peer log, local chain *)
    rewrite IXL. fold lP. intros e IN. rewrite ER in IN.
    apply in_app_or in IN. destruct IN as [IN|IN]; apply in_map_iff in IN; destruct IN as [u [<- IU]].
    + destruct (hl_in _ _ _ _ _ HI u IU) as [AE [_ [_ [LT _]]]].
      rewrite committed_add by (unfold fI; rewrite !set_add_h_is_add; exact AE).
      rewrite (proj1 (fI_heights y u)). rewrite fI_log.
      assert ((0 < lhN y)%N) by (apply LHP; lia).
      unfold in_range, idx in *. change (hN (v_ltail y)) with (lhN y). lia.
    + unfold nonadd_acked in IU. apply filter_In in IU. destruct IU as [IU _].
      destruct (pl_in _ _ _ _ _ PA u IU) as [A [B _]].
      rewrite acked_committed_true, acked_entry_log.
      assert ((0 < lhN y)%N) by (apply LHP; lia).
      unfold in_range, lidx in *. change (hN (v_ltail y)) with (lhN y). lia.
Qed.
End RestoreVInv.

(* ---------- T13: counting the Adds of a persisted segment ---------- *)
Definition uadd_at (L : list upd) (i : nat) : bool :=
  match nth_error L i with Some u => is_uadd u | None => false end.

Lemma firstn_S_nth {A} (L : list A) n u : nth_error L n = Some u -> firstn (S n) L = firstn n L ++ [u].
Proof.
  revert n. induction L as [|x L IH]; intros [|n] NE; cbn in *; try discriminate.
  - injection NE as ->. reflexivity.
  - f_equal. apply IH, NE.
Qed.

Lemma nadds_firstn_count L : forall n, n <= length L ->
  nadds (firstn n L) = length (filter (uadd_at L) (seq 0 n)).
Proof.
  induction n as [|n IH]; intros LE; [reflexivity|].
  destruct (nth_error L n) as [u|] eqn:NE; [|apply nth_error_None in NE; lia].
  rewrite (firstn_S_nth L n u NE), nadds_snoc, seq_S, filter_app, app_length, IH by lia. cbn [plus filter].
  replace (uadd_at L n) with (is_uadd u) by (unfold uadd_at; rewrite NE; reflexivity).
  destruct u; reflexivity.
Qed.

Lemma count_split (f : nat -> bool) a b : a <= b ->
  length (filter f (seq 0 b)) = length (filter f (seq 0 a)) + length (filter f (seq a (b - a))).
Proof.
  intros LE. replace b with (a + (b - a)) at 1 by lia. rewrite seq_app, filter_app, app_length. reflexivity.
Qed.

Lemma plist_add_count L us lo hi : lo <= hi -> hi <= length L -> PList L us lo hi true ->
  nadds (firstn hi L) = nadds (firstn lo L) + length (filter is_ladd us).
Proof.
  intros LE LH PL. rewrite !nadds_firstn_count by lia. rewrite (count_split (uadd_at L) lo hi LE). f_equal.
  rewrite <- (map_length lidx (filter is_ladd us)). apply Permutation_length, NoDup_Permutation.
  - apply NoDup_filter, seq_NoDup.
  - pose proof (pl_nd _ _ _ _ _ PL) as ND. clear - ND.
    induction us as [|u l IH]; cbn; [constructor|]. cbn in ND. inversion ND as [|? ? NI ND']; subst.
    destruct (is_ladd u); cbn; [constructor|]; auto.
    intros IN. apply NI. apply in_map_iff in IN. destruct IN as [z [E IZ]]. apply filter_In in IZ.
    rewrite <- E. apply in_map. tauto.
  - intros i. rewrite filter_In, in_seq, in_map_iff. split.
    + intros [[A B] UA]. destruct (pl_all _ _ _ _ _ PL i A) as [u [IU EU]]; [lia|now left|].
      exists u. split; [exact EU|]. apply filter_In. split; [exact IU|].
      destruct (pl_in _ _ _ _ _ PL u IU) as [_ [_ U]]. destruct (upd_lmsg_add _ _ _ U) as [w [NW EA]].
      unfold uadd_at in UA. rewrite <- EU, NW in UA. rewrite UA in EA. unfold is_ladd. destruct (snd u); auto; discriminate.
    + intros [u [<- IU]]. apply filter_In in IU. destruct IU as [IU LA].
      destruct (pl_in _ _ _ _ _ PL u IU) as [A [B U]]. split; [lia|].
      destruct (upd_lmsg_add _ _ _ U) as [w [NW EA]]. unfold uadd_at. rewrite NW, EA.
      unfold is_ladd in LA. destruct (snd u); auto; discriminate.
Qed.

Lemma add_pos_firstn L n j a : add_pos L j = Some a -> a < n -> add_pos (firstn n L) j = Some a.
Proof.
  intros AP LT. destruct (add_pos_nth _ _ _ AP) as [am [ex [h [NE NA]]]].
  rewrite <- NA. rewrite <- (firstn_firstn_le L a n) by lia. apply (nth_add_pos _ _ am ex h).
  rewrite nth_firstn by exact LT. exact NE.
Qed.

Lemma payDesc_fee_eq w o h u : fee_eq (payDesc_of w o h u).
Proof. unfold payDesc_of. apply sch_fee_eq. destruct (snd u); apply new_entry_fee_eq. Qed.
Lemma acked_fee_eq l h pd u : fee_eq (acked_entry l h pd u).
Proof.
  unfold acked_entry; cbv zeta. destruct pd as [[ph pi]|]; [destruct (_ <? pi)%N; [apply sch_fee_eq|]|]; apply payDesc_fee_eq.
Qed.
Lemma add_fee_eq e : is_add e = true -> fee_eq e.
Proof. unfold fee_eq, is_add, is_fee. destruct (e_type e); discriminate || (intros _ X; discriminate). Qed.

(* ---------- T14: NewLightningChannel rebuilds a party that stands for [restore p x] ---------- *)
Lemma lu_mark_parent L u i : upd_lmsg L (lidx u) (snd u) -> In i (lu_mark u) ->
  exists j, i = N.of_nat j /\ (nth_error L (lidx u) = Some (USettle j) \/ nth_error L (lidx u) = Some (UFail j)).
Proof.
  unfold upd_lmsg, lu_mark. destruct (nth_error L (lidx u)) as [[a e h|j|j|r]|]; destruct (snd u); try tauto;
    intros U IN; cbn in IN; try tauto; destruct IN as [<-|[]]; subst; eauto.
Qed.
Lemma lu_parent_nonadd u : is_ladd u = false -> lu_parent u = lu_mark u.
Proof. unfold is_ladd, lu_parent, lu_mark. destruct (snd u); auto; discriminate. Qed.

Section RestoreThm.
Variables (c : cfg) (p : bool) (x : party) (y : vparty) (Fo Fp : nat).
Hypothesis CX : CorrX c p x y Fo Fp.
Hypothesis PI : PInv p x y.

Theorem restore_corrx :
  CorrX c p (restore p x) (v_restore p y) (n_of p (lTail x)) (n_of (negb p) (rTail x)).
Proof.
  pose proof (cx_corr _ _ _ _ _ _ CX) as CO.
  pose proof (cuts c p x y Fo Fp CX) as CU.
  pose proof (hl_out_rc c p x y Fo Fp CX PI) as HO. pose proof (hl_in_lc c p x y Fo Fp CX PI) as HI.
  pose proof (pl_ru c p x y Fo Fp CX PI) as PR. pose proof (pl_ack c p x y Fo Fp CX PI) as PA.
  pose proof (pl_D c p x y Fo Fp CX PI) as PD.
  pose proof (vk_lt c p x y Fo Fp CX) as KL. pose proof (vk_rt c p x y Fo Fp CX) as KR.
  set (LO := own x) in *. set (LP := peer x) in *.
  set (lO := n_of p (lTail x)) in *. set (lP := n_of (negb p) (lTail x)) in *.
  set (rO := n_of p (rTail x)) in *. set (rP := n_of (negb p) (rTail x)) in *.
  set (kO := n_of p (tip_of (rTail x) (rTip x))) in *. set (kP := n_of (negb p) (tip_of (rTail x) (rTip x))) in *.
  set (D := match v_rtip y with Some _ => d_diff y | None => [] end) in *.
  set (hk := match v_rtip y with Some k => Z.to_N (c_h (vk k)) | None => 0%N end).
  destruct (restored_logs p y LO LP rO rP lO lP HO HI)
    as [l' [r' [rI [EV [ERI [EL [IL [HL' [ER [IR [HR [ML MR]]]]]]]]]]]].
  (* normalise the list forms *)
  assert (EL2 : l_list l' = map (fO y) (v_out (v_rtail y)) ++ map (payDesc_of false rI (rhN y)) (d_remote_unsigned y)
                            ++ map (payDesc_of false rI hk) D).
  { rewrite EL. unfold D, hk. destruct (v_rtip y); reflexivity. }
  assert (ER2 : l_list r' = map (fI y) (v_in (v_ltail y)) ++ map (acked_entry l' (lhN y) (r_pend p y)) (nonadd_acked y))
    by exact ER.
  assert (LEND : length D = kO - rO) by (apply (plist_all_length LO); [lia|exact PD]).
  assert (IL2 : l_idx l' = N.of_nat kO).
  { rewrite IL. unfold idx_of. rewrite KR. fold rO. unfold D in LEND. destruct (v_rtip y); cbn [length] in LEND; lia. }
  assert (IR2 : l_idx r' = N.of_nat lP) by (rewrite IR; unfold idx_of; rewrite KL; reflexivity).
  assert (CNT : nadds (firstn kO LO) = nadds (firstn rO LO) + length (filter is_ladd D))
    by (apply plist_add_count; [lia|lia|exact PD]).
  rewrite EV. unfold restore. fold LO LP lO lP rO rP. fold kO.
  assert (LENO : length (firstn kO LO) = kO) by (rewrite firstn_length; lia).
  assert (LENP : length (firstn lP LP) = lP) by (rewrite firstn_length; lia).
  constructor.
  - constructor; cbn [own peer lTail lTip rTail rTip vl vr v_ltail v_ltip v_rtail v_rtip option_map].
    + exact KL.
    + reflexivity.
    + exact KR.
    + apply CO.
    + rewrite LENO. exact IL2.
    + rewrite LENP. exact IR2.
    + apply (restore_logcorr_own c p x y Fo Fp CX PI l' rI hk ERI EL2).
    + apply (restore_logcorr_peer c p x y Fo Fp CX PI l' r' (lhN y) (r_pend p y) _ EL2 ER2).
    + apply (restore_vinv c p x y Fo Fp CX PI l' r' rI _ _ _ EL2 ER2 IL2 IR2).
    + fold lO rO. lia.
    + fold lP rP. lia.
    + (* good *)
      intros k IN. unfold commits_of in IN. cbn [lTail lTip rTail rTip app] in IN.
      assert (INX : In k (commits_of x)).
      { unfold commits_of. cbn in IN |- *. destruct (lTip x), (rTip x); cbn in IN |- *; intuition auto. }
      pose proof (co_good _ _ _ _ _ _ CO k INX) as G.
      assert (CUT : n_of p k <= kO /\ n_of (negb p) k <= lP).
      { pose proof (idx_chain c p x y Fo Fp CO) as IC. fold lO lP rO rP kO kP in IC.
        cbn in IN. unfold kO, kP, tip_of in *. destruct (rTip x); cbn in IN;
          repeat (destruct IN as [<-|IN]; [lia|]); destruct IN. }
      unfold good_local, logA_of, logB_of in *. cbn [own peer]. rewrite <- G. fold LO LP.
      unfold n_of in CUT. destruct p; cbn [negb] in *; apply commit_of_ext; apply firstn_firstn_le; lia.
    + intros j IN. apply parents_firstn_in in IN.
      destruct (co_pfo _ _ _ _ _ _ CO j IN) as [a [AP [L1 L2]]]. exists a. fold LP lP rP in AP, L1, L2.
      split; [apply add_pos_firstn; assumption|]. fold lP rP. lia.
    + intros j IN. apply parents_firstn_in in IN.
      destruct (co_pfp _ _ _ _ _ _ CO j IN) as [a [AP [L1 L2]]]. exists a. fold LO lO rO in AP, L1, L2.
      split; [apply add_pos_firstn; [assumption|lia]|]. fold lO rO. lia.
    + apply nodup_parents_firstn, CO.
    + apply nodup_parents_firstn, CO.
  - cbn [own vl]. rewrite HL'. rewrite (ci_oh _ _ _ (pi_rt _ _ _ PI)), KR. fold LO rO. rewrite CNT.
    unfold D. destruct (v_rtip y); cbn [filter length]; lia.
  - cbn [peer vr]. rewrite HR, (ci_th _ _ _ (pi_lt _ _ _ PI)), KL. reflexivity.
  - (* modified set of the rebuilt peer log: own removals *)
    cbn [own vr]. intros i M.
    assert (IN : In i (flat_map lu_mark (d_remote_unsigned y ++ D))).
    { rewrite flat_map_app. apply in_or_app. destruct (MR i M) as [H|H].
      - left. apply in_flat_map in H. destruct H as [u [IU IL0]]. apply in_flat_map. exists u. split; [exact IU|].
        rewrite <- lu_parent_nonadd; [exact IL0|apply (pi_ru_na _ _ _ PI u IU)].
      - right. unfold D. destruct (v_rtip y); exact H. }
    apply in_flat_map in IN. destruct IN as [u [IU IM]].
    assert (UB : lidx u < kO /\ upd_lmsg LO (lidx u) (snd u)).
    { apply in_app_or in IU. destruct IU as [IU|IU].
      - destruct (pl_in _ _ _ _ _ PR u IU) as [_ [B U]]. split; [lia|exact U].
      - destruct (pl_in _ _ _ _ _ PD u IU) as [_ [B U]]. split; [lia|exact U]. }
    destruct UB as [UB U]. destruct (lu_mark_parent LO u i U IM) as [j [-> NE]]. rewrite Nat2N.id.
    apply (nth_parent _ (lidx u)). rewrite !nth_firstn by exact UB. exact NE.
  - cbn [peer vl]. intros i M. specialize (ML i M). apply in_flat_map in ML. destruct ML as [u [IU IL0]].
    apply filter_In in IU. destruct IU as [IU NA]. apply negb_true_iff in NA.
    rewrite (lu_parent_nonadd u NA) in IL0.
    destruct (pl_in _ _ _ _ _ PA u IU) as [_ [B U]].
    destruct (lu_mark_parent LP u i U IL0) as [j [-> NE]]. rewrite Nat2N.id.
    apply (nth_parent _ (lidx u)). rewrite !nth_firstn by exact B. exact NE.
  - cbn [vl]. intros e IN. rewrite EL2 in IN. apply in_app_or in IN. destruct IN as [IN|IN].
    + apply in_map_iff in IN. destruct IN as [e0 [<- I0]]. apply add_fee_eq.
      unfold fO. rewrite !set_add_h_is_add. apply (hl_in _ _ _ _ _ HO e0 I0).
    + apply in_app_or in IN. destruct IN as [IN|IN]; apply in_map_iff in IN; destruct IN as [u [<- _]]; apply payDesc_fee_eq.
  - cbn [vr]. intros e IN. rewrite ER2 in IN. apply in_app_or in IN. destruct IN as [IN|IN].
    + apply in_map_iff in IN. destruct IN as [e0 [<- I0]]. apply add_fee_eq.
      unfold fI. rewrite !set_add_h_is_add. apply (hl_in _ _ _ _ _ HI e0 I0).
    + apply in_map_iff in IN. destruct IN as [u [<- _]]. apply acked_fee_eq.
  - cbn [v_rtip v_rtail]. apply CX.
Qed.
End RestoreThm.

