(* Non-vacuity of the C04_rebuild_* theorems: a concrete retribution (both
   commitment outputs, three HTLCs), a concrete reachable history with two
   advanced HTLCs, a split batch, our own sweeps of the remaining first-level
   outputs, slice compaction moving the converted entries to slots 0 and 1, a
   RESTART from the store and the replay of the whole history - ending in a
   quiescent state that tracks exactly the two second-level outputs. *)
From Coq Require Import List NArith Bool Arith.
From LV Require Import Channel.BrarFlow Channel.BrarFlowProofs Channel.BrarFlowExec.
Import ListNotations.
Local Open Scope N_scope.

Definition bx_l0 : list bout :=
  [mkB 0 KCommitOwn 1000; mkB 1 KCommitRevoke 2000; mkB 2 KHtlcOffered 300;
   mkB 3 KHtlcAccepted 400; mkB 4 KHtlcOffered 500].

Example bx_wf : wf0 bx_l0.
Proof.
  split.
  - simpl. repeat constructor; simpl; intuition discriminate.
  - intros o H. simpl in H. intuition (subst; reflexivity).
Qed.

Definition bx_s0 := init bx_l0.
Definition bx_s1 := mkSt (tracked bx_s0) (set_chain (ch bx_s0) 2 (StSecond 290)).
Definition bx_s2 := mkSt (tracked bx_s1) (set_chain (ch bx_s1) 4 (StSecond 480)).
(* the spend of slot 4 is consumed first, alone *)
Definition bx_l3 := [mkB 0 KCommitOwn 1000; mkB 1 KCommitRevoke 2000; mkB 2 KHtlcOffered 300;
                     mkB 3 KHtlcAccepted 400; mkB 4 KSecond 480].
Definition bx_s3 := mkSt bx_l3 (ch bx_s2).
Definition bx_l4 := [mkB 0 KCommitOwn 1000; mkB 1 KCommitRevoke 2000; mkB 2 KSecond 290;
                     mkB 3 KHtlcAccepted 400; mkB 4 KSecond 480].
Definition bx_s4 := mkSt bx_l4 (ch bx_s3).
(* our commit-outputs and HTLC-outputs justice transactions confirm *)
Definition bx_s5 := mkSt (tracked bx_s4) (set_chain (ch bx_s4) 0 StGoneFirst).
Definition bx_s6 := mkSt (tracked bx_s5) (set_chain (ch bx_s5) 1 StGoneFirst).
Definition bx_s7 := mkSt (tracked bx_s6) (set_chain (ch bx_s6) 3 StGoneFirst).
(* compaction: the converted entries move to slots 0 and 1 *)
Definition bx_l8 := [mkB 2 KSecond 290; mkB 4 KSecond 480].
Definition bx_s8 := mkSt bx_l8 (ch bx_s7).
(* restart: the store still holds the ORIGINAL retribution *)
Definition bx_s9 := mkSt bx_l0 (ch bx_s8).
Definition bx_s10 := mkSt bx_l8 (ch bx_s9).

Ltac bx_batch :=
  split; [simpl; repeat constructor; simpl; intuition discriminate|
          intros i h H; simpl in H;
          repeat (destruct H as [H|H]; [inversion H; subst; eexists; split; reflexivity|]);
          destruct H].

Example bx_reach : reach bx_l0 bx_s10.
Proof.
  assert (Hh2 : htlc_id bx_l0 2) by (exists (mkB 2 KHtlcOffered 300); simpl; auto 10).
  assert (Hh4 : htlc_id bx_l0 4) by (exists (mkB 4 KHtlcOffered 500); simpl; auto 10).
  apply RStep with bx_s9.
  apply RStep with bx_s8.
  apply RStep with bx_s7.
  apply RStep with bx_s6.
  apply RStep with bx_s5.
  apply RStep with bx_s4.
  apply RStep with bx_s3.
  apply RStep with bx_s2.
  apply RStep with bx_s1.
  apply RStep with bx_s0.
  apply RInit.
  - apply SAdvance; [reflexivity|exact Hh2].
  - apply SAdvance; [reflexivity|exact Hh4].
  - apply SConsume with (sp := [(4%nat, HSecond 480)]); [bx_batch|reflexivity].
  - apply SConsume with (sp := [(2%nat, HSecond 290)]); [bx_batch|reflexivity].
  - apply SSpendFirst. reflexivity.
  - apply SSpendFirst. reflexivity.
  - apply SSpendFirst. reflexivity.
  - apply SConsume with (sp := [(3%nat, HRevoke); (0%nat, HRevoke); (1%nat, HRevoke)]);
      [bx_batch|reflexivity].
  - apply SRestart.
  - (* after the restart every original entry is reported spent at once *)
    apply SConsume with (sp := [(1%nat, HRevoke); (4%nat, HSecond 480); (0%nat, HRevoke);
                                (2%nat, HSecond 290); (3%nat, HRevoke)]);
      [bx_batch|reflexivity].
Qed.

Example bx_quiescent : quiescent bx_s10.
Proof. intros o H. simpl in H. intuition (subst; reflexivity). Qed.

(* what the theorems say about this state *)
Example bx_tracked : tracked bx_s10 = [mkB 2 KSecond 290; mkB 4 KSecond 480].
Proof. reflexivity. Qed.

Example bx_build :
  obs_of false (build (tracked bx_s10)) =
  ([(2, true, 1, 290); (4, true, 1, 480)], [], [],
   [[(2, true, 1, 290)]; [(4, true, 1, 480)]]).
Proof. reflexivity. Qed.

(* the mid-history state s4 (both HTLCs converted, nothing swept) is quiescent
   too: five inputs, two of them second-level *)
Example bx_quiescent_mid : quiescent bx_s4.
Proof. intros o H. simpl in H. intuition (subst; reflexivity). Qed.

Example bx_build_mid :
  obs_of false (build (tracked bx_s4)) =
  ([(0, false, 3, 1000); (1, false, 1, 2000); (2, true, 1, 290); (3, false, 2, 400);
    (4, true, 1, 480)],
   [(0, false, 3, 1000); (1, false, 1, 2000)], [(3, false, 2, 400)],
   [[(2, true, 1, 290)]; [(4, true, 1, 480)]]).
Proof. reflexivity. Qed.

(* the trace checker accepts this history and rejects a first-level witness
   shape on a converted output (what a cached witness generator produces) *)
Definition bx_case (bad_shape : N) : fcase :=
  (false, [(0, 1, 1000); (1, 2, 2000); (2, 3, 300); (3, 4, 400); (4, 3, 500)],
   [(0, [], ([(0, false, 3, 1000); (1, false, 1, 2000); (2, false, 2, 300); (3, false, 2, 400);
              (4, false, 2, 500)],
             [(0, false, 3, 1000); (1, false, 1, 2000)],
             [(2, false, 2, 300); (3, false, 2, 400); (4, false, 2, 500)], []));
    (2, [(4%nat, 1, 480)],
        ([(0, false, 3, 1000); (1, false, 1, 2000); (2, false, 2, 300); (3, false, 2, 400);
          (4, true, bad_shape, 480)],
         [(0, false, 3, 1000); (1, false, 1, 2000)],
         [(2, false, 2, 300); (3, false, 2, 400)], [[(4, true, bad_shape, 480)]]))]).

Example bx_exec_ok : mismatches_flow [bx_case 1] 0 = [].
Proof. reflexivity. Qed.

Example bx_exec_detects : mismatches_flow [bx_case 2] 0 = [(0, [1])].
Proof. reflexivity. Qed.
