(* Trace checkers (correspondence by vm_compute) for
   - the state hint (C04): SetStateNumHint / GetStateNumHint of the real code on
     every captured commitment transaction and on boundary probes;
   - the commitment sort and the HTLC <-> output <-> signature assignment
     (C05_htlc_sig_index): transactions, populateHtlcIndexes results on the
     signer and on the verifier side and the order in which the verifier consumed
     the HTLC signatures of the real commit_sig. *)
From Coq Require Import List ZArith NArith Bool Arith.
From LV Require Import Channel.StateHint Channel.CommitSort.
Import ListNotations.

(* ---------- state hint ---------- *)
(* (obfuscator, height, #inputs, code, sequence, locktime, GetStateNumHint)
   code 0: SetStateNumHint succeeded, the transaction then has (sequence,
           locktime) and GetStateNumHint returns the last component
        1: "greater state num than max"   2: "exactly 1 input"
        9: GetStateNumHint only, on a transaction with arbitrary (sequence,
           locktime) *)
Definition hint_case := (N * N * N * N * N * N * N)%type.

Definition check_hint (hc : hint_case) : bool :=
  let '(obf, h, n_in, code, sq, lt, got) := hc in
  if (code =? 9)%N then (get_hint sq lt obf =? got)%N
  else match set_hint_tx n_in h obf with
       | HintOk sq' lt' => (code =? 0)%N && (sq' =? sq)%N && (lt' =? lt)%N
                           && (get_hint sq lt obf =? got)%N
       | HintErrTooLarge => (code =? 1)%N
       | HintErrInputs => (code =? 2)%N
       end.

Fixpoint check_hints (l : list hint_case) (i : N) : list N :=
  match l with
  | [] => []
  | hc :: r => (if check_hint hc then [] else [i]) ++ check_hints r (i + 1)%N
  end.

Fixpoint mismatches_hint (cases : list (list hint_case)) (i : N) : list (N * list N) :=
  match cases with
  | [] => []
  | c :: r =>
    match check_hints c 0%N with
    | [] => mismatches_hint r (i + 1)%N
    | bad => (i, bad) :: mismatches_hint r (i + 1)%N
    end
  end.

(* ---------- commitment sort / signature index ---------- *)
Fixpoint outs_eqb (a b : list out) : bool :=
  match a, b with
  | [], [] => true
  | x :: r, y :: r' => out_eqb x y && outs_eqb r r'
  | _, _ => false
  end.

Definition onat_eqb (a b : option nat) : bool :=
  match a, b with
  | None, None => true
  | Some x, Some y => (x =? y)%nat
  | _, _ => false
  end.

Fixpoint assigned_eqb (l : assigned) (obs : list (option nat)) : bool :=
  match l, obs with
  | [], [] => true
  | (_, a) :: r, b :: r' => onat_eqb a b && assigned_eqb r r'
  | _, _ => false
  end.

Definition slot_eqb (a b : slot) : bool :=
  let '(i, d, x) := a in let '(j, e, y) := b in
  (i =? j)%nat && Bool.eqb d e && (x =? y)%N.

Fixpoint slots_eqb (a b : list slot) : bool :=
  match a, b with
  | [], [] => true
  | x :: r, y :: r' => slot_eqb x y && slots_eqb r r'
  | _, _ => false
  end.

(* One signed commitment.  [so] / [vo]: the HTLCs offered by the signer / by
   the verifier, each in the order of the implementation's view slice.
   Observed on the SIGNER: the transaction and remoteOutputIndex per HTLC;
   on the VERIFIER (if it received the commit_sig): the transaction,
   localOutputIndex per HTLC, and (if the commit_sig could be read) the slots
   in the order their signatures sit in commit_sig.htlc_signatures. *)
Record sort_case := mkSortCase {
  sc_base : list out;
  sc_so : list hd;
  sc_vo : list hd;
  sc_stx : option (list out * list (option nat) * list (option nat));   (* tx, idx of so, idx of vo *)
  sc_vtx : option (list out * list (option nat) * list (option nat));
  sc_sigs : option (list slot)
}.

(* codes: 6000+i signer tx   6200+i signer assignment   6400+i verifier tx
          6600+i verifier assignment   6800+i order of consumed signatures
          7000+i the model's two sides disagree (refutes C05_htlc_sig_index)
          7200+i out_sortedb false on an observed transaction
          7400+i the observed scripts violate the hypothesis CommitSort.pk_facts *)
Definition check_sort (i : N) (c : sort_case) : list N :=
  let base := sc_base c in let so := sc_so c in let vo := sc_vo c in
  (match sc_stx c with
   | None => []
   | Some (tx, iso, ivo) =>
     (if outs_eqb (signer_tx base so vo) tx then [] else [6000 + i]%N)
     ++ (if out_sortedb tx then [] else [7200 + i]%N)
     ++ match signer_view base so vo with
        | Some (lo, li) => if assigned_eqb lo iso && assigned_eqb li ivo then [] else [6200 + i]%N
        | None => [6200 + i]%N
        end
   end)
  ++ (match sc_vtx c with
      | None => []
      | Some (tx, iso, ivo) =>
        (if outs_eqb (verifier_tx base so vo) tx then [] else [6400 + i]%N)
        ++ (if out_sortedb tx then [] else [7200 + i]%N)
        ++ match verifier_view base so vo with
           | Some (lo, li) => if assigned_eqb lo ivo && assigned_eqb li iso then [] else [6600 + i]%N
           | None => [6600 + i]%N
           end
      end)
  ++ (match sc_sigs c with
      | None => []
      | Some obs =>
        match verifier_sigs base so vo with
        | Some l => if slots_eqb l obs then [] else [6800 + i]%N
        | None => [6800 + i]%N
        end
      end)
  ++ (match signer_sigs base so vo, verifier_sigs base so vo with
      | Some a, Some b => if slots_eqb a b then [] else [7000 + i]%N
      | _, _ => [7000 + i]%N
      end)
  ++ (if pk_factsb so vo then [] else [7400 + i]%N).

Fixpoint check_sorts (l : list sort_case) (i : N) : list N :=
  match l with
  | [] => []
  | c :: r => check_sort i c ++ check_sorts r (i + 1)%N
  end.

Fixpoint mismatches_sort (cases : list (list sort_case)) (i : N) : list (N * list N) :=
  match cases with
  | [] => []
  | c :: r =>
    match check_sorts c 0%N with
    | [] => mismatches_sort r (i + 1)%N
    | bad => (i, bad) :: mismatches_sort r (i + 1)%N
    end
  end.
