(* C01view - proofs about the incremental machine of View.v.
   Part 1  setCommitHeight / mark_log at entry level: heights are written once.
   Part 2  one log, one chain: heights lie in the range dictated by the chain's cuts.
   Part 3  the party invariant VInv and its preservation by send / receive of updates.
   Part 4  ... by SignNextCommitment, ReceiveNewCommitment, RevokeCurrentCommitment,
           ReceiveRevocation (compaction only removes).
   Part 5  the two-party system: VInvS in every state of every schedule.
   Part 6  (b) after a view is committed, re-evaluating it moves no balance.
   Part 7  (c) what compactLogs removes.   Part 8  (d, partial) restart = f(channel DB). *)
From Coq Require Import List ZArith NArith Bool Arith Lia.
From LV Require Import Channel.Model Channel.Resync Channel.Proofs Channel.View.
Import ListNotations.
Local Open Scope N_scope.

(* ---------- Part 1: setCommitHeight / mark_log, entry level ---------- *)
(* the height that says "this entry's effect is applied on chain w" *)
Definition committed (w : bool) (e : entry) : N := if is_remove e then rm_h w e else add_h w e.

Lemma isUncommitted_committed w e : isUncommitted w e = N.eqb (committed w e) 0.
Proof. unfold isUncommitted, committed, is_remove. destruct (e_type e); reflexivity. Qed.

Lemma sch_type w h e : e_type (setCommitHeight w h e) = e_type e.
Proof. unfold setCommitHeight, set_add_h, set_rm_h. destruct (e_type e) eqn:E, w; cbn; auto. Qed.
Lemma sch_log w h e : e_log (setCommitHeight w h e) = e_log e.
Proof. unfold setCommitHeight, set_add_h, set_rm_h. destruct (e_type e), w; reflexivity. Qed.
Lemma sch_htlc w h e : e_htlc (setCommitHeight w h e) = e_htlc e.
Proof. unfold setCommitHeight, set_add_h, set_rm_h. destruct (e_type e), w; reflexivity. Qed.
Lemma sch_parent w h e : e_parent (setCommitHeight w h e) = e_parent e.
Proof. unfold setCommitHeight, set_add_h, set_rm_h. destruct (e_type e), w; reflexivity. Qed.
Lemma sch_amt w h e : e_amt (setCommitHeight w h e) = e_amt e.
Proof. unfold setCommitHeight, set_add_h, set_rm_h. destruct (e_type e), w; reflexivity. Qed.

Lemma sch_committed_same w h e : committed w (setCommitHeight w h e) = h.
Proof.
  unfold committed, is_remove. rewrite sch_type.
  unfold setCommitHeight, set_add_h, set_rm_h, rm_h, add_h. destruct (e_type e), w; reflexivity.
Qed.
Lemma sch_other w h e :
  add_h (negb w) (setCommitHeight w h e) = add_h (negb w) e /\
  rm_h (negb w) (setCommitHeight w h e) = rm_h (negb w) e.
Proof. unfold setCommitHeight, set_add_h, set_rm_h, rm_h, add_h. destruct (e_type e), w; split; reflexivity. Qed.
Lemma sch_committed_other w h e : committed (negb w) (setCommitHeight w h e) = committed (negb w) e.
Proof.
  unfold committed, is_remove. rewrite sch_type. destruct (sch_other w h e) as [A B].
  rewrite A, B. reflexivity.
Qed.

(* the function mark_log maps over the list *)
Definition markfn (w : bool) (h idx : N) (e : entry) : entry :=
  if (e_log e <? idx) && isUncommitted w e then setCommitHeight w h e else e.

Lemma mark_log_list w h idx u : l_list (mark_log w h idx u) = map (markfn w h idx) (l_list u).
Proof. reflexivity. Qed.

Lemma markfn_log w h idx e : e_log (markfn w h idx e) = e_log e.
Proof. unfold markfn. destruct (_ && _); [apply sch_log|reflexivity]. Qed.
Lemma markfn_type w h idx e : e_type (markfn w h idx e) = e_type e.
Proof. unfold markfn. destruct (_ && _); [apply sch_type|reflexivity]. Qed.
Lemma markfn_htlc w h idx e : e_htlc (markfn w h idx e) = e_htlc e.
Proof. unfold markfn. destruct (_ && _); [apply sch_htlc|reflexivity]. Qed.
Lemma markfn_parent w h idx e : e_parent (markfn w h idx e) = e_parent e.
Proof. unfold markfn. destruct (_ && _); [apply sch_parent|reflexivity]. Qed.
Lemma markfn_amt w h idx e : e_amt (markfn w h idx e) = e_amt e.
Proof. unfold markfn. destruct (_ && _); [apply sch_amt|reflexivity]. Qed.

(* (a), entry level: a height that is set is never overwritten; an unset one inside
   the view becomes exactly nextHeight; the other chain's heights are untouched *)
Lemma markfn_committed w h idx e :
  committed w (markfn w h idx e) =
  if (e_log e <? idx) && N.eqb (committed w e) 0 then h else committed w e.
Proof.
  unfold markfn. rewrite isUncommitted_committed.
  destruct ((e_log e <? idx) && (committed w e =? 0)); [apply sch_committed_same|reflexivity].
Qed.
Lemma markfn_set_once w h idx e : committed w e <> 0 -> markfn w h idx e = e.
Proof.
  intros H. unfold markfn. rewrite isUncommitted_committed.
  apply N.eqb_neq in H. rewrite H, andb_false_r. reflexivity.
Qed.
Lemma markfn_other_chain w h idx e :
  add_h (negb w) (markfn w h idx e) = add_h (negb w) e /\
  rm_h (negb w) (markfn w h idx e) = rm_h (negb w) e.
Proof. unfold markfn. destruct (_ && _); [apply sch_other|auto]. Qed.
Lemma markfn_committed_other w h idx e :
  committed (negb w) (markfn w h idx e) = committed (negb w) e.
Proof. unfold markfn. destruct (_ && _); [apply sch_committed_other|auto]. Qed.

(* ---------- Part 2: heights reflect cuts (one log, one chain) ---------- *)
Definition in_range (H i tailIdx tipIdx htail htip : N) : Prop :=
  (i < tailIdx -> 0 < H <= htail) /\
  (tailIdx <= i < tipIdx -> htail < H <= htip) /\
  (tipIdx <= i -> H = 0).

Definition log_ok (w : bool) (l : list entry) (tailIdx tipIdx htail htip : N) : Prop :=
  forall e, In e l -> in_range (committed w e) (e_log e) tailIdx tipIdx htail htip.

Lemma log_ok_mark_same w l tI pI hT hP h idx :
  log_ok w l tI pI hT hP -> tI <= pI -> pI <= idx -> hT <= hP -> hP < h ->
  log_ok w (map (markfn w h idx) l) tI idx hT h.
Proof.
  intros OK L0 L1 L2 L3 e' IN. apply in_map_iff in IN. destruct IN as [e [<- IN]].
  specialize (OK e IN).
  rewrite markfn_committed, markfn_log. unfold in_range in *.
  destruct (e_log e <? idx) eqn:LT; [apply N.ltb_lt in LT|apply N.ltb_ge in LT]; cbn [andb].
  - destruct (committed w e =? 0) eqn:Z0; [apply N.eqb_eq in Z0|apply N.eqb_neq in Z0]; lia.
  - lia.
Qed.

Lemma log_ok_mark_other w l tI pI hT hP h idx :
  log_ok w l tI pI hT hP -> log_ok w (map (markfn (negb w) h idx) l) tI pI hT hP.
Proof.
  intros OK e' IN. apply in_map_iff in IN. destruct IN as [e [<- IN]].
  rewrite markfn_log. replace w with (negb (negb w)) at 1 by apply negb_involutive.
  rewrite markfn_committed_other, negb_involutive. apply OK, IN.
Qed.

Lemma log_ok_advance w l tI pI hT hP :
  log_ok w l tI pI hT hP -> tI <= pI -> hT <= hP -> log_ok w l pI pI hP hP.
Proof.
  intros OK L0 L1 e IN. specialize (OK e IN). unfold in_range in *. lia.
Qed.

Lemma log_ok_sub w l l' tI pI hT hP :
  (forall e, In e l' -> In e l) -> log_ok w l tI pI hT hP -> log_ok w l' tI pI hT hP.
Proof. intros S OK e IN. apply OK, S, IN. Qed.

Lemma log_ok_snoc w l pd tI pI hT hP :
  log_ok w l tI pI hT hP -> pI <= e_log pd -> tI <= pI -> committed w pd = 0 ->
  log_ok w (l ++ [pd]) tI pI hT hP.
Proof.
  intros OK L T Z e IN. apply in_app_or in IN. destruct IN as [IN|[<-|[]]]; [apply OK, IN|].
  rewrite Z. unfold in_range. lia.
Qed.

(* ---------- Part 3: the party invariant ---------- *)
Definition hN (k : vcommit) : N := Z.to_N (c_h (vk k)).
Definition ltipv (x : vparty) := vtip (v_ltail x) (v_ltip x).
Definition rtipv (x : vparty) := vtip (v_rtail x) (v_rtip x).
Definition ix (p : bool) (k : vcommit) : N := idx_of p (vk k).

Record VInv (p : bool) (x : vparty) : Prop := mkVInv {
  vi_hl : (0 <= c_h (vk (v_ltail x)))%Z /\
          (forall k, v_ltip x = Some k -> (c_h (vk (v_ltail x)) < c_h (vk k))%Z);
  vi_hr : (0 <= c_h (vk (v_rtail x)))%Z /\
          (forall k, v_rtip x = Some k -> (c_h (vk (v_rtail x)) < c_h (vk k))%Z);
  (* own updates: local chain <= remote chain <= log *)
  vi_own : ix p (v_ltail x) <= ix p (ltipv x) /\ ix p (ltipv x) <= ix p (v_rtail x) /\
           ix p (v_rtail x) <= ix p (rtipv x) /\ ix p (rtipv x) <= l_idx (vl x);
  (* peer updates: remote chain <= local chain <= log *)
  vi_peer : ix (negb p) (v_rtail x) <= ix (negb p) (rtipv x) /\
            ix (negb p) (rtipv x) <= ix (negb p) (v_ltail x) /\
            ix (negb p) (v_ltail x) <= ix (negb p) (ltipv x) /\
            ix (negb p) (ltipv x) <= l_idx (vr x);
  vi_ownR : log_ok false (l_list (vl x)) (ix p (v_rtail x)) (ix p (rtipv x))
                   (hN (v_rtail x)) (hN (rtipv x));
  vi_ownL : log_ok true (l_list (vl x)) (ix p (v_ltail x)) (ix p (ltipv x))
                   (hN (v_ltail x)) (hN (ltipv x));
  vi_peerR : log_ok false (l_list (vr x)) (ix (negb p) (v_rtail x)) (ix (negb p) (rtipv x))
                    (hN (v_rtail x)) (hN (rtipv x));
  vi_peerL : log_ok true (l_list (vr x)) (ix (negb p) (v_ltail x)) (ix (negb p) (ltipv x))
                    (hN (v_ltail x)) (hN (ltipv x))
}.

Lemma hN_tip_l p x : VInv p x -> hN (v_ltail x) <= hN (ltipv x).
Proof.
  intros I. destruct (vi_hl _ _ I) as [A B]. unfold ltipv, vtip, hN.
  destruct (v_ltip x) eqn:E; [specialize (B _ eq_refl); lia|lia].
Qed.
Lemma hN_tip_r p x : VInv p x -> hN (v_rtail x) <= hN (rtipv x).
Proof.
  intros I. destruct (vi_hr _ _ I) as [A B]. unfold rtipv, vtip, hN.
  destruct (v_rtip x) eqn:E; [specialize (B _ eq_refl); lia|lia].
Qed.

(* new entries carry no height *)
Lemma new_entry_committed w t a b c0 d e f : committed w (new_entry t a b c0 d e f) = 0.
Proof. unfold committed, new_entry, is_remove, rm_h, add_h; cbn. destruct t, w; reflexivity. Qed.

Lemma set_amt_committed w a e : committed w (set_amt a e) = committed w e.
Proof. unfold committed, set_amt, is_remove, rm_h, add_h; cbn. reflexivity. Qed.

Lemma merge_fee_rev_in a : forall l l', merge_fee_rev l a = Some l' ->
  forall e', In e' l' -> exists e, In e l /\ (e' = e \/ e' = set_amt a e).
Proof.
  induction l as [|x r IH]; cbn; intros l' H e' IN; [discriminate|].
  destruct (is_fee x).
  - destruct (_ && _); [|discriminate]. injection H as <-. destruct IN as [<-|IN].
    + exists x. split; [now left|now right].
    + exists e'. split; [now right|now left].
  - destruct (merge_fee_rev r a) eqn:M; [|discriminate]. injection H as <-.
    destruct IN as [<-|IN].
    + exists x. split; [now left|now left].
    + destruct (IH _ eq_refl _ IN) as [e [I1 I2]]. exists e. split; [now right|exact I2].
Qed.

Lemma log_ok_feemerge w l a l' tI pI hT hP :
  merge_fee_rev (rev l) a = Some l' -> log_ok w l tI pI hT hP -> log_ok w (rev l') tI pI hT hP.
Proof.
  intros M OK e' IN. apply in_rev in IN.
  destruct (merge_fee_rev_in a _ _ M _ IN) as [e [I1 [->| ->]]]; apply in_rev in I1.
  - apply OK, I1.
  - rewrite set_amt_committed. apply (OK e I1).
Qed.

(* appending to a log (any of the four append flavours used by send / receive) *)
Definition appended (u u' : ulog) : Prop :=
  (exists pd, l_list u' = l_list u ++ [pd] /\ e_log pd = l_idx u /\ l_idx u' = l_idx u + 1 /\
              (forall w, committed w pd = 0)) \/
  (exists a l', merge_fee_rev (rev (l_list u)) a = Some l' /\ l_list u' = rev l' /\ l_idx u' = l_idx u).

Lemma appended_ok w u u' tI pI hT hP :
  appended u u' -> log_ok w (l_list u) tI pI hT hP -> tI <= pI -> pI <= l_idx u ->
  log_ok w (l_list u') tI pI hT hP /\ l_idx u <= l_idx u'.
Proof.
  intros [[pd [L [E [I Z]]]]|[a [l' [M [L I]]]]] OK T B; rewrite L, I.
  - split; [|lia]. apply log_ok_snoc; [exact OK| rewrite E; exact B | exact T | apply Z].
  - split; [|lia]. eapply log_ok_feemerge; eauto.
Qed.

Lemma appendHtlc_appended u t b c0 d e f :
  appended u (appendHtlc u (new_entry t (l_idx u) b c0 d e f)).
Proof. left. eexists. repeat split; try reflexivity. intros; apply new_entry_committed. Qed.
Lemma appendUpdate_appended u t b c0 d e f :
  appended u (appendUpdate u (new_entry t (l_idx u) b c0 d e f)).
Proof. left. eexists. repeat split; try reflexivity. intros; apply new_entry_committed. Qed.
Lemma appendFeeUpdate_appended u t b c0 d e f :
  appended u (appendFeeUpdate u (new_entry t (l_idx u) b c0 d e f)).
Proof.
  unfold appendFeeUpdate. destruct (merge_fee_rev _ _) eqn:M.
  - right. do 2 eexists. split; [exact M|]. split; reflexivity.
  - apply appendUpdate_appended.
Qed.

(* rebuilding the invariant when only the logs change by appends *)
Lemma vinv_logs p x l' r' :
  VInv p x ->
  (l_list l' = l_list (vl x) /\ l_idx l' = l_idx (vl x) \/ appended (vl x) l') -> (l_list r' = l_list (vr x) /\ l_idx r' = l_idx (vr x) \/ appended (vr x) r') ->
  VInv p (with_logs x l' r').
Proof.
  intros I HL HR. destruct I as [hl hr own peer oR oL pR pL].
  assert (OWN : log_ok false (l_list l') (ix p (v_rtail x)) (ix p (rtipv x)) (hN (v_rtail x)) (hN (rtipv x))
                /\ log_ok true (l_list l') (ix p (v_ltail x)) (ix p (ltipv x)) (hN (v_ltail x)) (hN (ltipv x))
                /\ l_idx (vl x) <= l_idx l').
  { destruct HL as [[E1 E2]|A]; [rewrite E1, E2; split; [exact oR|split; [exact oL|lia]]|].
    destruct (appended_ok false _ _ _ _ _ _ A oR) as [X1 X2]; [lia|lia|].
    destruct (appended_ok true _ _ _ _ _ _ A oL) as [Y1 Y2]; [lia|lia|]. auto. }
  assert (PEER : log_ok false (l_list r') (ix (negb p) (v_rtail x)) (ix (negb p) (rtipv x)) (hN (v_rtail x)) (hN (rtipv x))
                /\ log_ok true (l_list r') (ix (negb p) (v_ltail x)) (ix (negb p) (ltipv x)) (hN (v_ltail x)) (hN (ltipv x))
                /\ l_idx (vr x) <= l_idx r').
  { destruct HR as [[E1 E2]|A]; [rewrite E1, E2; split; [exact pR|split; [exact pL|lia]]|].
    destruct (appended_ok false _ _ _ _ _ _ A pR) as [X1 X2]; [lia|lia|].
    destruct (appended_ok true _ _ _ _ _ _ A pL) as [Y1 Y2]; [lia|lia|]. auto. }
  destruct OWN as [O1 [O2 O3]], PEER as [P1 [P2 P3]].
  constructor; cbn [with_logs vl vr v_ltail v_ltip v_rtail v_rtip]; unfold ltipv, rtipv in *;
    cbn [with_logs vl vr v_ltail v_ltip v_rtail v_rtip]; auto; try lia.
Qed.

Lemma v_send_inv c p x u m x' : v_send c p x u m = Some x' -> VInv p x -> VInv p x'.
Proof.
  unfold v_send. intros H I. destruct u.
  - destruct (0 <? amt)%Z; [|discriminate]. injection H as <-.
    apply vinv_logs; [exact I|right; apply appendHtlc_appended|left; split; reflexivity].
  - destruct (lookupHtlc _ _); [|discriminate]. destruct (memN _ _); [discriminate|].
    injection H as <-.
    apply vinv_logs; [exact I|right; apply appendUpdate_appended|left; split; reflexivity].
  - destruct (lookupHtlc _ _); [|discriminate]. destruct (memN _ _); [discriminate|].
    injection H as <-.
    apply vinv_logs; [exact I|right; apply appendUpdate_appended|left; split; reflexivity].
  - destruct (_ && _); [|discriminate]. injection H as <-.
    apply vinv_logs; [exact I|right; apply appendFeeUpdate_appended|left; split; reflexivity].
Qed.

Lemma v_recv_upd_inv c p x u x' : v_recv_upd c p x u = Some x' -> VInv p x -> VInv p x'.
Proof.
  unfold v_recv_upd. intros H I. destruct u.
  - injection H as <-.
    apply vinv_logs; [exact I|left; split; reflexivity|right; apply appendHtlc_appended].
  - destruct (lookupHtlc _ _); [|discriminate]. destruct (memN _ _); [discriminate|].
    injection H as <-.
    apply vinv_logs; [exact I|left; split; reflexivity|right; apply appendUpdate_appended].
  - destruct (lookupHtlc _ _); [|discriminate]. destruct (memN _ _); [discriminate|].
    injection H as <-.
    apply vinv_logs; [exact I|left; split; reflexivity|right; apply appendUpdate_appended].
  - destruct (Bool.eqb _ _); [discriminate|]. injection H as <-.
    apply vinv_logs; [exact I|left; split; reflexivity|right; apply appendFeeUpdate_appended].
Qed.

Lemma finish_commit_fields c o h nA nB gA gB r la lb k :
  finish_commit c o h nA nB gA gB r la lb = Some k ->
  c_owner k = o /\ c_h k = h /\ c_nA k = nA /\ c_nB k = nB.
Proof.
  unfold finish_commit. destruct (_ || _); [discriminate|]. intros H. injection H as <-.
  cbn. auto.
Qed.

Lemma idx_of_mk (p : bool) (k : commit) (a b : N) :
  c_nA k = N.to_nat (if p then a else b) -> c_nB k = N.to_nat (if p then b else a) ->
  idx_of p k = a /\ idx_of (negb p) k = b.
Proof.
  unfold idx_of, n_of. intros A B. destruct p; cbn; rewrite A, B, !N2Nat.id; auto.
Qed.

(* what fetchCommitmentView returns *)
Lemma fetchCommitmentView_spec c p x whose oi oh ti th k l' r' :
  fetchCommitmentView c p x whose oi oh ti th = Some (k, l', r') ->
  let tip := vk (if whose then ltipv x else rtipv x) in
  c_h (vk k) = (c_h tip + 1)%Z /\ ix p k = oi /\ ix (negb p) k = ti /\
  l' = mark_log whose (Z.to_N (c_h tip + 1)) oi (vl x) /\
  r' = mark_log whose (Z.to_N (c_h tip + 1)) ti (vr x).
Proof.
  unfold fetchCommitmentView, ltipv, rtipv. cbn zeta.
  destruct (computeView _ _ _ _ _ _ _ _) as [[[[[ours theirs] rate] lo] lt]|]; [|discriminate].
  destruct (finish_commit _ _ _ _ _ _ _ _ _ _) as [k0|] eqn:F; [|discriminate].
  intros H. injection H as <- <- <-. cbn [vk].
  destruct (finish_commit_fields _ _ _ _ _ _ _ _ _ _ _ F) as [_ [Hh [HA HB]]].
  destruct (idx_of_mk p k0 oi ti HA HB) as [I1 I2]. unfold ix. cbn [vk]. auto.
Qed.

Lemma mark_log_idx w h i u : l_idx (mark_log w h i u) = l_idx u.
Proof. reflexivity. Qed.

(* ---- SignNextCommitment ---- *)
Lemma v_sign_inv c p x x' m : v_sign c p x = (Ok, x', m) -> VInv p x -> VInv p x'.
Proof.
  unfold v_sign. intros H I.
  destruct (v_rtip x) eqn:RT; [discriminate|].
  destruct (fetchCommitmentView _ _ _ _ _ _ _ _) as [[[k l'] r']|] eqn:F; [|discriminate].
  injection H as <- _.
  apply fetchCommitmentView_spec in F. cbn zeta in F. destruct F as [Hh [I1 [I2 [-> ->]]]].
  pose proof (hN_tip_l _ _ I) as HL. pose proof (hN_tip_r _ _ I) as HR.
  destruct I as [hl hr own peer oR oL pR pL].
  unfold rtipv, ltipv in *. rewrite RT in *. cbn [vtip] in *.
  fold (ix (negb p) (v_ltail x)) in I2.
  remember (Z.to_N (c_h (vk (v_rtail x)) + 1)) as h eqn:Eh.
  assert (HH : hN (v_rtail x) < h /\ hN k = h) by (unfold hN; rewrite Hh, Eh; lia).
  constructor; cbn [vl vr v_ltail v_ltip v_rtail v_rtip vtip]; unfold rtipv, ltipv;
    cbn [vl vr v_ltail v_ltip v_rtail v_rtip vtip]; rewrite ?mark_log_idx, ?mark_log_list.
  - exact hl.
  - split; [apply hr|]. intros k0 E. injection E as <-. lia.
  - rewrite I1. lia.
  - rewrite I2. lia.
  - rewrite I1. destruct HH as [H1 H2]; rewrite H2.
    apply (log_ok_mark_same false _ _ _ _ _ h (l_idx (vl x)) oR);
      [apply N.le_refl|apply own|apply N.le_refl|exact H1].
  - apply (log_ok_mark_other true), oL.
  - rewrite I2. destruct HH as [H1 H2]; rewrite H2.
    apply (log_ok_mark_same false _ _ _ _ _ h _ pR);
      [apply N.le_refl|apply peer|apply N.le_refl|exact H1].
  - apply (log_ok_mark_other true), pL.
Qed.

(* ---- ReceiveNewCommitment (accepted signature) ---- *)
Lemma v_recv_sig_inv c p x k0 x' : v_recv_sig c p x k0 = (Ok, x') -> VInv p x -> VInv p x'.
Proof.
  unfold v_recv_sig. intros H I.
  destruct (fetchCommitmentView _ _ _ _ _ _ _ _) as [[[k l'] r']|] eqn:F; [|discriminate].
  destruct (commit_eqb _ _); [|discriminate]. injection H as <-.
  apply fetchCommitmentView_spec in F. cbn zeta in F. destruct F as [Hh [I1 [I2 [-> ->]]]].
  pose proof (hN_tip_l _ _ I) as HL. pose proof (hN_tip_r _ _ I) as HR.
  destruct I as [hl hr own peer oR oL pR pL].
  fold (ix p (v_rtail x)) in I1.
  remember (Z.to_N (c_h (vk (ltipv x)) + 1)) as h eqn:Eh.
  assert (H0 : (0 <= c_h (vk (ltipv x)))%Z).
  { unfold ltipv, vtip. destruct (v_ltip x) eqn:E; [pose proof (proj2 hl _ eq_refl); lia|apply hl]. }
  assert (HH : hN (ltipv x) < h /\ hN k = h) by (unfold hN; rewrite Hh, Eh; lia).
  assert (HT : (c_h (vk (v_ltail x)) < c_h (vk k))%Z).
  { rewrite Hh. unfold ltipv, vtip in *. destruct (v_ltip x) eqn:E; [pose proof (proj2 hl _ eq_refl); lia|lia]. }
  constructor; cbn [vl vr v_ltail v_ltip v_rtail v_rtip vtip]; unfold rtipv, ltipv in *;
    cbn [vl vr v_ltail v_ltip v_rtail v_rtip vtip]; rewrite ?mark_log_idx, ?mark_log_list.
  - split; [apply hl|]. intros k1 E. injection E as <-. exact HT.
  - exact hr.
  - rewrite I1. lia.
  - rewrite I2. lia.
  - apply (log_ok_mark_other false), oR.
  - rewrite I1. destruct HH as [H1 H2]; rewrite H2.
    apply (log_ok_mark_same true _ _ _ _ _ h _ oL);
      [apply own|apply own|exact HL|exact H1].
  - apply (log_ok_mark_other false), pR.
  - rewrite I2. destruct HH as [H1 H2]; rewrite H2.
    apply (log_ok_mark_same true _ _ _ _ _ h _ pL);
      [apply peer|apply peer|exact HL|exact H1].
Qed.

(* ---- RevokeCurrentCommitment ---- *)
Lemma v_revoke_inv p x x' m : v_revoke p x = (Ok, x', m) -> VInv p x -> VInv p x'.
Proof.
  unfold v_revoke. intros H I. destruct (v_ltip x) as [k|] eqn:LT; [|discriminate].
  injection H as <- _.
  pose proof (hN_tip_l _ _ I) as HL.
  destruct I as [hl hr own peer oR oL pR pL].
  unfold rtipv, ltipv in *. rewrite LT in *. cbn [vtip] in *.
  constructor; cbn [vl vr v_ltail v_ltip v_rtail v_rtip vtip]; unfold rtipv, ltipv;
    cbn [vl vr v_ltail v_ltip v_rtail v_rtip vtip].
  - split; [pose proof (proj2 hl _ eq_refl); lia|discriminate].
  - exact hr.
  - lia.
  - lia.
  - exact oR.
  - apply (log_ok_advance true _ _ _ _ _ oL); lia.
  - exact pR.
  - apply (log_ok_advance true _ _ _ _ _ pL); lia.
Qed.

(* ---- compaction only removes ---- *)
Lemma remove_first_in f l e : In e (remove_first f l) -> In e l.
Proof.
  induction l as [|a r IH]; cbn; [auto|]. destruct (f a); [auto|].
  intros [->|H]; [now left|right; auto].
Qed.

Definition sub_log (u u' : ulog) : Prop :=
  (forall e, In e (l_list u') -> In e (l_list u)) /\ l_idx u' = l_idx u.

Lemma sub_log_refl u : sub_log u u. Proof. split; auto. Qed.
Lemma sub_log_trans a b c0 : sub_log a b -> sub_log b c0 -> sub_log a c0.
Proof. intros [A1 A2] [B1 B2]. split; [auto|congruence]. Qed.
Lemma removeUpdate_sub u i : sub_log u (removeUpdate u i).
Proof. split; [apply remove_first_in|reflexivity]. Qed.
Lemma removeHtlc_sub u i : sub_log u (removeHtlc u i).
Proof. split; [apply remove_first_in|reflexivity]. Qed.

Lemma compact_entry_sub lt rt la lb e :
  sub_log la (fst (compact_entry lt rt (la, lb) e)) /\ sub_log lb (snd (compact_entry lt rt (la, lb) e)).
Proof.
  unfold compact_entry. destruct (is_add e); [split; apply sub_log_refl|].
  destruct (_ || _); [split; apply sub_log_refl|].
  destruct (_ && _); [|split; apply sub_log_refl].
  destruct (is_fee e); cbn; split; try apply sub_log_refl; try apply removeUpdate_sub; apply removeHtlc_sub.
Qed.

Lemma compactLog_sub lt rt : forall es la lb,
  sub_log la (fst (fold_left (compact_entry lt rt) es (la, lb))) /\
  sub_log lb (snd (fold_left (compact_entry lt rt) es (la, lb))).
Proof.
  induction es as [|e r IH]; intros la lb; cbn [fold_left]; [split; apply sub_log_refl|].
  destruct (compact_entry lt rt (la, lb) e) as [la1 lb1] eqn:E.
  pose proof (compact_entry_sub lt rt la lb e) as [S1 S2]. rewrite E in S1, S2. cbn in S1, S2.
  destruct (IH la1 lb1) as [T1 T2]. split; eapply sub_log_trans; eauto.
Qed.

Lemma compactLogs_sub l r lt rt l' r' :
  compactLogs l r lt rt = (l', r') -> sub_log l l' /\ sub_log r r'.
Proof.
  unfold compactLogs, compactLog.
  destruct (fold_left _ (l_list l) (l, r)) as [o1 t1] eqn:E1.
  destruct (fold_left _ (l_list t1) (t1, o1)) as [t2 o2] eqn:E2.
  intros H. injection H as <- <-.
  pose proof (compactLog_sub lt rt (l_list l) l r) as [A1 A2]. rewrite E1 in A1, A2. cbn in A1, A2.
  pose proof (compactLog_sub lt rt (l_list t1) t1 o1) as [B1 B2]. rewrite E2 in B1, B2. cbn in B1, B2.
  split; eapply sub_log_trans; eauto.
Qed.

(* ---- ReceiveRevocation ---- *)
Lemma v_recv_rev_inv p x x' : v_recv_rev p x = (Ok, x') -> VInv p x -> VInv p x'.
Proof.
  unfold v_recv_rev. intros H I. destruct (v_rtip x) as [k|] eqn:RT; [|discriminate].
  destruct (compactLogs _ _ _ _) as [l' r'] eqn:C. injection H as <-.
  apply compactLogs_sub in C. destruct C as [[S1 E1] [S2 E2]].
  pose proof (hN_tip_r _ _ I) as HR.
  destruct I as [hl hr own peer oR oL pR pL].
  unfold rtipv, ltipv in *. rewrite RT in *. cbn [vtip] in *.
  constructor; cbn [vl vr v_ltail v_ltip v_rtail v_rtip vtip]; unfold rtipv, ltipv;
    cbn [vl vr v_ltail v_ltip v_rtail v_rtip vtip]; rewrite ?E1, ?E2.
  - exact hl.
  - split; [pose proof (proj2 hr _ eq_refl); lia|discriminate].
  - lia.
  - lia.
  - apply (log_ok_sub false _ _ _ _ _ _ S1). apply (log_ok_advance false _ _ _ _ _ oR); lia.
  - apply (log_ok_sub true _ _ _ _ _ _ S1), oL.
  - apply (log_ok_sub false _ _ _ _ _ _ S2). apply (log_ok_advance false _ _ _ _ _ pR); lia.
  - apply (log_ok_sub true _ _ _ _ _ _ S2), pL.
Qed.

(* ---------- Part 5: the two-party system, any schedule ---------- *)
Definition VInvS (s : vsys) : Prop := VInv true (vA s) /\ VInv false (vB s).

Lemma vinvs_get s p : VInvS s -> VInv p (vget s p).
Proof. intros [A B]. destruct p; assumption. Qed.
Lemma vinvs_set s p x : VInvS s -> VInv p x -> VInvS (vset s p x).
Proof. intros [A B] I. destruct p; split; assumption. Qed.
Lemma vinvs_outq s p q : VInvS s -> VInvS (vset_outq s p q).
Proof. intros [A B]. destruct p; split; assumption. Qed.
Lemma vinvs_lwr s p b : VInvS s -> VInvS (vset_lwr s p b).
Proof. intros [A B]. destruct p; split; assumption. Qed.

Lemma init_commit_fields c o k : init_commit c o = Some k -> c_h k = 0%Z /\ c_nA k = 0%nat /\ c_nB k = 0%nat.
Proof.
  unfold init_commit. intros H. apply commit_of_inv in H.
  destruct H as [gA [gB [_ [_ H]]]]. cbn zeta in H. tauto.
Qed.

Lemma vinit_party_inv c p x : vinit_party c p = Some x -> VInv p x.
Proof.
  unfold vinit_party, vinit_commit. destruct (init_commit c p) as [l|] eqn:L; [|discriminate].
  destruct (init_commit c (negb p)) as [r|] eqn:R; [|discriminate].
  intros H. injection H as <-.
  destruct (init_commit_fields _ _ _ L) as [L1 [L2 L3]].
  destruct (init_commit_fields _ _ _ R) as [R1 [R2 R3]].
  assert (IX : forall q, ix q (mkVC l 0 0 [] []) = 0 /\ ix q (mkVC r 0 0 [] []) = 0).
  { intros q. unfold ix, idx_of, n_of; cbn. destruct q; rewrite ?L2, ?L3, ?R2, ?R3; auto. }
  destruct (IX p) as [A1 A2], (IX (negb p)) as [B1 B2].
  constructor; unfold ltipv, rtipv; cbn [vl vr v_ltail v_ltip v_rtail v_rtip vtip newUpdateLog l_list l_idx].
  - cbn [vk]. split; [lia|discriminate].
  - cbn [vk]. split; [lia|discriminate].
  - rewrite A1, A2. lia.
  - rewrite B1, B2. lia.
  - intros e [].
  - intros e [].
  - intros e [].
  - intros e [].
Qed.

Lemma vinit_inv c s : vinit c = Some s -> VInvS s.
Proof.
  unfold vinit. destruct (vinit_party c true) eqn:A; [|discriminate].
  destruct (vinit_party c false) eqn:B; [|discriminate].
  intros H. injection H as <-. split; cbn; eapply vinit_party_inv; eauto.
Qed.

(* every step that does not REJECT A SIGNATURE preserves the invariant (after a rejected
   signature the link fails the channel; ReceiveNewCommitment has then already marked heights) *)
Lemma vstep_inv c s o : fst (vstep c s o) <> ErrSigInvalid -> VInvS s -> VInvS (snd (vstep c s o)).
Proof.
  intros NE I. unfold vstep in *.
  assert (SEND : forall p u m,
            VInvS (snd (match v_send c p (vget s p) u m with
                        | Some x' => (Ok, vset_outq (vset s p x') p (voutq s p ++ [MUpd u]))
                        | None => (ErrDisabled, s) end))).
  { intros p u m. destruct (v_send c p (vget s p) u m) eqn:E; cbn; [|exact I].
    apply vinvs_outq, vinvs_set; [exact I|]. eapply v_send_inv; eauto. apply vinvs_get, I. }
  destruct o as [[p u|p|p|p]|p i]; try apply SEND.
  - destruct (v_sign c p (vget s p)) as [[r x'] m] eqn:E.
    destruct r; try exact I. destruct m; [|exact I]. cbn.
    apply vinvs_lwr, vinvs_outq, vinvs_set; [exact I|]. eapply v_sign_inv; eauto. apply vinvs_get, I.
  - destruct (v_revoke p (vget s p)) as [[r x'] m] eqn:E.
    destruct r; try exact I. destruct m; [|exact I]. cbn.
    apply vinvs_lwr, vinvs_outq, vinvs_set; [exact I|]. eapply v_revoke_inv; eauto. apply vinvs_get, I.
  - destruct (voutq s (negb p)) as [|m q]; [exact I|]. destruct m as [u|k|].
    + destruct (v_recv_upd c p (vget s p) u) eqn:E; cbn; [|exact I].
      apply vinvs_outq, vinvs_set; [exact I|]. eapply v_recv_upd_inv; eauto. apply vinvs_get, I.
    + pose proof (vinvs_get s p I) as Ip.
      destruct (v_recv_sig c p (vget s p) k) as [r x'] eqn:E.
      assert (C : r = Ok \/ (r = ErrSanity /\ x' = vget s p) \/ r = ErrSigInvalid).
      { unfold v_recv_sig in E.
        destruct (fetchCommitmentView _ _ _ _ _ _ _ _) as [[[k' l'] r']|].
        - destruct (commit_eqb _ _); injection E as <- <-; auto.
        - injection E as <- <-. auto. }
      destruct C as [->|[[-> ->]| ->]]; cbn in *.
      * apply vinvs_outq, vinvs_set; [exact I|]. eapply v_recv_sig_inv; eauto.
      * apply vinvs_set; assumption.
      * congruence.
    + destruct (v_recv_rev p (vget s p)) as [r x'] eqn:E.
      destruct r; try exact I. cbn.
      apply vinvs_outq, vinvs_set; [exact I|]. eapply v_recv_rev_inv; eauto. apply vinvs_get, I.
Qed.

Fixpoint no_sig_rejected (c : cfg) (s : vsys) (ops : list vop) : Prop :=
  match ops with
  | [] => True
  | o :: r => fst (vstep c s o) <> ErrSigInvalid /\ no_sig_rejected c (snd (vstep c s o)) r
  end.

Lemma vrun_inv c : forall ops s, VInvS s -> no_sig_rejected c s ops -> VInvS (vrun c s ops).
Proof.
  induction ops as [|o r IH]; intros s I N; [exact I|].
  destruct N as [N1 N2]. cbn [vrun fold_left]. apply IH; [apply vstep_inv; assumption|exact N2].
Qed.

(* ---------- Part 6: (b) balance effects are applied exactly once per chain ---------- *)
Section Once.
Variables (whose : bool) (h oi ti : N).
Hypothesis Hh : h <> 0.
Let mkL := markfn whose h oi.
Let mkR := markfn whose h ti.

Lemma filter_map_comm {A} (f : A -> bool) (g : A -> A) l :
  (forall x, f (g x) = f x) -> filter f (map g l) = map g (filter f l).
Proof.
  intros E. induction l as [|a r IH]; cbn; [reflexivity|]. rewrite E.
  destruct (f a); cbn; rewrite IH; reflexivity.
Qed.

Lemma find_map_comm {A} (f : A -> bool) (g : A -> A) l :
  (forall x, f (g x) = f x) -> find f (map g l) = option_map g (find f l).
Proof.
  intros E. induction l as [|a r IH]; cbn; [reflexivity|]. rewrite E.
  destruct (f a); cbn; [reflexivity|apply IH].
Qed.

Lemma last_opt_map {A} (g : A -> A) l : last_opt (map g l) = option_map g (last_opt l).
Proof.
  induction l as [|a r IH]; cbn; [reflexivity|]. destruct r as [|b r']; [reflexivity|].
  cbn [map] in *. exact IH.
Qed.

Lemma is_add_mark w' i e : is_add (markfn w' h i e) = is_add e.
Proof. unfold is_add. rewrite markfn_type. reflexivity. Qed.
Lemma is_remove_mark w' i e : is_remove (markfn w' h i e) = is_remove e.
Proof. unfold is_remove. rewrite markfn_type. reflexivity. Qed.
Lemma is_fee_mark w' i e : is_fee (markfn w' h i e) = is_fee e.
Proof. unfold is_fee. rewrite markfn_type. reflexivity. Qed.

Lemma fetch_mark i u : fetchHTLCView1 (mark_log whose h i u) i = map (markfn whose h i) (fetchHTLCView1 u i).
Proof.
  unfold fetchHTLCView1. rewrite mark_log_list. apply filter_map_comm.
  intros x. rewrite markfn_log. reflexivity.
Qed.

Lemma lookup_mark i u j :
  lookupHtlc (mark_log whose h i u) j = option_map (markfn whose h i) (lookupHtlc u j).
Proof.
  unfold lookupHtlc. rewrite mark_log_list. apply find_map_comm.
  intros x. rewrite is_add_mark, markfn_htlc. reflexivity.
Qed.

Lemma add_h_mark_nz i a : is_add a = true -> add_h whose a <> 0 -> add_h whose (markfn whose h i a) <> 0.
Proof. intros A NZ. rewrite markfn_set_once; [exact NZ|]. unfold committed. unfold is_add, is_remove in *. destruct (e_type a); try discriminate; exact NZ. Qed.

Lemma find_some_add u j a : lookupHtlc u j = Some a -> is_add a = true.
Proof. unfold lookupHtlc. intros H. apply find_some in H. destruct H as [_ H]. apply andb_true_iff in H. tauto. Qed.

(* the parent of a resolution is found again in the marked logs, same HtlcIndex *)
Lemma fetchParent_mark ll lr e wl a :
  fetchParent ll lr e whose wl = Some a ->
  exists a', fetchParent (mark_log whose h oi ll) (mark_log whose h ti lr)
                         (markfn whose h (if wl then ti else oi) e) whose wl = Some a' /\
             e_htlc a' = e_htlc a.
Proof.
  unfold fetchParent. rewrite markfn_parent.
  destruct wl.
  - rewrite lookup_mark. destruct (lookupHtlc ll (e_parent e)) as [b|] eqn:L; [|discriminate]. cbn.
    destruct (add_h whose b =? 0) eqn:Z; [discriminate|]. intros H; injection H as <-.
    apply N.eqb_neq in Z. pose proof (add_h_mark_nz oi b (find_some_add _ _ _ L) Z) as NZ.
    apply N.eqb_neq in NZ. rewrite NZ. eexists. split; [reflexivity|apply markfn_htlc].
  - rewrite lookup_mark. destruct (lookupHtlc lr (e_parent e)) as [b|] eqn:L; [|discriminate]. cbn.
    destruct (add_h whose b =? 0) eqn:Z; [discriminate|]. intros H; injection H as <-.
    apply N.eqb_neq in Z. pose proof (add_h_mark_nz ti b (find_some_add _ _ _ L) Z) as NZ.
    apply N.eqb_neq in NZ. rewrite NZ. eexists. split; [reflexivity|apply markfn_htlc].
Qed.

Lemma rm_h_marked_nz i e : is_remove e = true -> (e_log e <? i) = true -> rm_h whose (markfn whose h i e) <> 0.
Proof.
  intros R LT. pose proof (markfn_committed whose h i e) as C. rewrite LT in C. cbn [andb] in C.
  assert (E : committed whose (markfn whose h i e) = rm_h whose (markfn whose h i e)).
  { unfold committed. rewrite is_remove_mark, R. reflexivity. }
  rewrite <- E, C. destruct (committed whose e =? 0) eqn:Z; [exact Hh|apply N.eqb_neq, Z].
Qed.
Lemma add_h_marked_nz i e : is_add e = true -> (e_log e <? i) = true -> add_h whose (markfn whose h i e) <> 0.
Proof.
  intros R LT. pose proof (markfn_committed whose h i e) as C. rewrite LT in C. cbn [andb] in C.
  assert (E : committed whose (markfn whose h i e) = add_h whose (markfn whose h i e)).
  { unfold committed. rewrite is_remove_mark. unfold is_add, is_remove in *. destruct (e_type e); try discriminate; reflexivity. }
  rewrite <- E, C. destruct (committed whose e =? 0) eqn:Z; [exact Hh|apply N.eqb_neq, Z].
Qed.

(* first pass on the marked logs: same skip set, NO balance effect *)
Lemma eval_removes_mark ll lr (party : bool) : forall res skip d skip' d' d0,
  (forall e, In e res -> is_remove e = true /\ (e_log e <? (if party then oi else ti)) = true) ->
  eval_removes ll lr whose party res skip d = Some (skip', d') ->
  eval_removes (mark_log whose h oi ll) (mark_log whose h ti lr) whose party
               (map (markfn whose h (if party then oi else ti)) res) skip d0 = Some (skip', d0).
Proof.
  induction res as [|e r IH]; intros skip d skip' d' d0 V H; cbn in *.
  - injection H as <- _. reflexivity.
  - destruct (fetchParent ll lr e whose (negb party)) as [a|] eqn:F; [|discriminate].
    destruct (fetchParent_mark ll lr e (negb party) a F) as [a' [F' EH]].
    replace (if negb party then ti else oi) with (if party then oi else ti) in F' by (destruct party; reflexivity).
    rewrite F', EH.
    destruct (V e (or_introl eq_refl)) as [R LT].
    pose proof (rm_h_marked_nz _ e R LT) as NZ. apply N.eqb_neq in NZ. rewrite NZ.
    eapply IH; [intros x IN; apply V; now right|exact H].
Qed.

Lemma live_of_mark i skip v : live_of skip (map (markfn whose h i) v) = map (markfn whose h i) (live_of skip v).
Proof. unfold live_of. apply filter_map_comm. intros x. rewrite is_add_mark, markfn_htlc. reflexivity. Qed.

Lemma eval_adds_mark i (party : bool) : forall live d,
  (forall e, In e live -> is_add e = true /\ (e_log e <? i) = true) ->
  eval_adds whose party (map (markfn whose h i) live) d = d.
Proof.
  unfold eval_adds. induction live as [|e r IH]; intros d V; cbn; [reflexivity|].
  destruct (V e (or_introl eq_refl)) as [A LT].
  pose proof (add_h_marked_nz i e A LT) as NZ. apply N.eqb_neq in NZ. rewrite NZ.
  apply IH. intros x IN. apply V. now right.
Qed.

Lemma in_view u i e : In e (fetchHTLCView1 u i) -> (e_log e <? i) = true.
Proof. unfold fetchHTLCView1. intros H. apply filter_In in H. tauto. Qed.

Theorem eval_after_mark ll lr il rate0 rate lo lt d :
  evaluateHTLCView ll lr (fetchHTLCView1 ll oi) (fetchHTLCView1 lr ti) whose il rate0
    = Some (rate, lo, lt, d) ->
  evaluateHTLCView (mark_log whose h oi ll) (mark_log whose h ti lr)
                   (fetchHTLCView1 (mark_log whose h oi ll) oi)
                   (fetchHTLCView1 (mark_log whose h ti lr) ti) whose il rate0
    = Some (rate, map mkL lo, map mkR lt, (0, 0)%Z).
Proof.
  unfold evaluateHTLCView. rewrite !fetch_mark.
  rewrite !(filter_map_comm is_remove) by (intros; apply is_remove_mark).
  destruct (eval_removes ll lr whose true (filter is_remove (fetchHTLCView1 ll oi)) [] (0, 0)%Z) as [[sR d1]|] eqn:E1; [|discriminate].
  destruct (eval_removes ll lr whose false (filter is_remove (fetchHTLCView1 lr ti)) [] d1) as [[sL d2]|] eqn:E2; [|discriminate].
  intros H. injection H as <- <- <- _.
  rewrite (eval_removes_mark ll lr true _ _ _ _ _ (0,0)%Z) with (1 := fun e IN => conj (proj2 (proj1 (filter_In _ _ _) IN)) (in_view _ _ _ (proj1 (proj1 (filter_In _ _ _) IN)))) (2 := E1).
  rewrite (eval_removes_mark ll lr false _ _ _ _ _ (0,0)%Z) with (1 := fun e IN => conj (proj2 (proj1 (filter_In _ _ _) IN)) (in_view _ _ _ (proj1 (proj1 (filter_In _ _ _) IN)))) (2 := E2).
  rewrite !live_of_mark.
  rewrite (eval_adds_mark oi true), (eval_adds_mark ti false).
  - f_equal. f_equal. f_equal. f_equal.
    destruct il.
    + rewrite (filter_map_comm is_fee) by (intros; apply is_fee_mark). rewrite last_opt_map.
      destruct (last_opt (filter is_fee (fetchHTLCView1 ll oi))); cbn; [rewrite markfn_amt|]; reflexivity.
    + rewrite (filter_map_comm is_fee) by (intros; apply is_fee_mark). rewrite last_opt_map.
      destruct (last_opt (filter is_fee (fetchHTLCView1 lr ti))); cbn; [rewrite markfn_amt|]; reflexivity.
  - intros e IN. unfold live_of in IN. apply filter_In in IN. destruct IN as [IN A].
    apply andb_true_iff in A. split; [tauto|eapply in_view; eauto].
  - intros e IN. unfold live_of in IN. apply filter_In in IN. destruct IN as [IN A].
    apply andb_true_iff in A. split; [tauto|eapply in_view; eauto].
Qed.
End Once.

Lemma etype_eq_dec (a b : etype) : {a = b} + {a <> b}.
Proof. decide equality. Qed.
Lemma entry_eq_dec (a b : entry) : {a = b} + {a <> b}.
Proof. decide equality; try apply N.eq_dec; try apply Z.eq_dec; apply etype_eq_dec. Qed.
Lemma in_dec_entry (e : entry) (l : list entry) : {In e l} + {~ In e l}.
Proof. apply in_dec, entry_eq_dec. Qed.

(* ---------- Part 7: (c) what compaction removes ---------- *)
(* the eviction condition of compactLogs (update_log.go:184-199) *)
Definition compactable (lt rt : N) (e : entry) : bool :=
  negb (is_add e) && negb (N.eqb (e_rmR e) 0 || N.eqb (e_rmL e) 0)
  && ((e_rmR e <=? rt) && (e_rmL e <=? lt)).

Lemma remove_first_removed f l e : In e l -> ~ In e (remove_first f l) -> f e = true.
Proof.
  induction l as [|a r IH]; cbn; [tauto|]. destruct (f a) eqn:F.
  - intros [<-|IN] N; [exact F|tauto].
  - intros [<-|IN] N; [exfalso; apply N; now left|]. apply IH; [exact IN|]. intros X. apply N. now right.
Qed.

(* one pass of compactLog: whatever disappears from logA is a non-Add entry carrying the
   LogIndex of an entry that met the eviction condition; whatever disappears from logB is
   the Add named by an evicted settle / fail *)
Definition gone_a (lt rt : N) (es : list entry) (e : entry) : Prop :=
  is_add e = false /\ exists e0, In e0 es /\ compactable lt rt e0 = true /\ e_log e = e_log e0.
Definition gone_b (lt rt : N) (es : list entry) (e : entry) : Prop :=
  is_add e = true /\ exists e0, In e0 es /\ compactable lt rt e0 = true /\ is_fee e0 = false /\
                                e_htlc e = e_parent e0.

Lemma compactLog_gone lt rt : forall es la lb,
  let st := fold_left (compact_entry lt rt) es (la, lb) in
  (forall e, In e (l_list la) -> ~ In e (l_list (fst st)) -> gone_a lt rt es e) /\
  (forall e, In e (l_list lb) -> ~ In e (l_list (snd st)) -> gone_b lt rt es e).
Proof.
  induction es as [|x r IH]; intros la lb; cbn [fold_left].
  - cbn. split; intros e IN N; tauto.
  - destruct (compact_entry lt rt (la, lb) x) as [la1 lb1] eqn:E.
    destruct (IH la1 lb1) as [A B]. cbn zeta in *.
    assert (WA : forall P : entry -> Prop, (forall e, gone_a lt rt r e -> gone_a lt rt (x :: r) e)).
    { intros _ e [G1 [e0 [I0 G2]]]. split; [exact G1|]. exists e0. split; [now right|exact G2]. }
    assert (WB : forall e, gone_b lt rt r e -> gone_b lt rt (x :: r) e).
    { intros e [G1 [e0 [I0 G2]]]. split; [exact G1|]. exists e0. split; [now right|exact G2]. }
    unfold compact_entry in E.
    destruct (is_add x) eqn:AX.
    { injection E as <- <-. split; intros e IN N; [apply (WA (fun _ => True)), A|apply WB, B]; auto. }
    destruct (N.eqb (e_rmR x) 0 || N.eqb (e_rmL x) 0) eqn:ZX.
    { injection E as <- <-. split; intros e IN N; [apply (WA (fun _ => True)), A|apply WB, B]; auto. }
    destruct ((e_rmR x <=? rt) && (e_rmL x <=? lt)) eqn:CX.
    2:{ injection E as <- <-. split; intros e IN N; [apply (WA (fun _ => True)), A|apply WB, B]; auto. }
    assert (CP : compactable lt rt x = true) by (unfold compactable; rewrite AX, ZX, CX; reflexivity).
    assert (GA : forall e, In e (l_list la) -> ~ In e (l_list (removeUpdate la (e_log x))) ->
                           gone_a lt rt (x :: r) e).
    { intros e IN N. apply (remove_first_removed _ _ _ IN) in N. apply andb_true_iff in N.
      destruct N as [N1 N2]. apply negb_true_iff in N1. apply N.eqb_eq in N2.
      split; [exact N1|]. exists x. split; [now left|]. split; [exact CP|exact N2]. }
    destruct (is_fee x) eqn:FX; injection E as <- <-.
    + split; intros e IN N.
      * destruct (in_dec_entry e (l_list (removeUpdate la (e_log x)))) as [Y|Y];
          [apply (WA (fun _ => True)), A; auto|apply GA; auto].
      * apply WB, B; auto.
    + split; intros e IN N.
      * destruct (in_dec_entry e (l_list (removeUpdate la (e_log x)))) as [Y|Y];
          [apply (WA (fun _ => True)), A; auto|apply GA; auto].
      * destruct (in_dec_entry e (l_list (removeHtlc lb (e_parent x)))) as [Y|Y]; [apply WB, B; auto|].
        apply (remove_first_removed _ _ _ IN) in Y. apply andb_true_iff in Y. destruct Y as [Y1 Y2].
        apply N.eqb_eq in Y2. split; [exact Y1|]. exists x. split; [now left|]. auto.
Qed.

(* both passes of compactLogs, seen from the first log *)
Lemma compactLogs_gone l r lt rt l' r' :
  compactLogs l r lt rt = (l', r') ->
  forall e, In e (l_list l) -> ~ In e (l_list l') ->
  gone_a lt rt (l_list l) e \/ gone_b lt rt (l_list r) e.
Proof.
  unfold compactLogs, compactLog.
  destruct (fold_left _ (l_list l) (l, r)) as [o1 t1] eqn:E1.
  destruct (fold_left _ (l_list t1) (t1, o1)) as [t2 o2] eqn:E2.
  intros H. injection H as <- <-. intros e IN N.
  pose proof (compactLog_gone lt rt (l_list l) l r) as [A1 _]. rewrite E1 in A1. cbn in A1.
  pose proof (compactLog_gone lt rt (l_list t1) t1 o1) as [_ B2]. rewrite E2 in B2. cbn in B2.
  pose proof (compactLog_sub lt rt (l_list l) l r) as [_ S]. rewrite E1 in S. cbn in S.
  destruct (in_dec_entry e (l_list o1)) as [Y|Y]; [|left; apply A1; auto].
  right. destruct (B2 e Y N) as [G1 [e0 [I0 G2]]]. split; [exact G1|].
  exists e0. split; [apply S, I0|exact G2].
Qed.

(* ... and under the invariant an evictable settle / fail of the own log lies below the cut of
   BOTH tails: every commitment held (tails, tips) and every later one includes it, and its
   balance effect is already applied on both chains *)
Lemma compactable_below_tails p x k e0 :
  VInv p x -> v_rtip x = Some k -> In e0 (l_list (vl x)) -> is_remove e0 = true ->
  compactable (hN (v_ltail x)) (hN k) e0 = true ->
  e_log e0 < ix p (v_ltail x) /\ e_log e0 < ix p k.
Proof.
  intros I RT IN R C. destruct I as [hl hr own peer oR oL pR pL].
  unfold rtipv, ltipv in *. rewrite RT in *. cbn [vtip] in *.
  specialize (oR e0 IN). specialize (oL e0 IN). unfold committed in oR, oL. rewrite R in oR, oL.
  unfold compactable in C. apply andb_true_iff in C. destruct C as [C C2].
  apply andb_true_iff in C. destruct C as [_ C1]. apply negb_true_iff, orb_false_iff in C1.
  destruct C1 as [Z1 Z2]. apply N.eqb_neq in Z1, Z2.
  apply andb_true_iff in C2. destruct C2 as [C2 C3]. apply N.leb_le in C2, C3.
  unfold rm_h in *. unfold in_range in *. clear - oR oL Z1 Z2 C2 C3. lia.
Qed.

(* ---------- Part 8: (d, partial) a restart is a function of the channel DB ---------- *)
Lemma v_restore_idem p x : v_restore p (v_restore p x) = v_restore p x.
Proof.
  unfold v_restore.
  destruct (restoreStateLogs p _ _ (v_ltail x) (v_rtail x) (v_rtip x) (d_diff x)
                             (d_unsigned_acked x) (d_remote_unsigned x)) as [l' r'] eqn:E.
  cbn [v_ltail v_rtail v_rtip d_diff d_unsigned_acked d_remote_unsigned]. rewrite E. reflexivity.
Qed.

Lemma v_restore_disk_only p x y :
  v_ltail x = v_ltail y -> v_rtail x = v_rtail y -> v_rtip x = v_rtip y ->
  d_diff x = d_diff y -> d_unsigned_acked x = d_unsigned_acked y ->
  d_remote_unsigned x = d_remote_unsigned y -> v_restore p x = v_restore p y.
Proof. unfold v_restore. intros -> -> -> -> -> ->. reflexivity. Qed.

(* ---------- Part 9: summary forms used by Props_C01view ---------- *)
Lemma markfn_spec w h idx e :
  let e' := markfn w h idx e in
  (committed w e <> 0 -> e' = e) /\
  (idx <= e_log e -> e' = e) /\
  (committed w e = 0 -> e_log e < idx -> committed w e' = h) /\
  add_h (negb w) e' = add_h (negb w) e /\ rm_h (negb w) e' = rm_h (negb w) e /\
  e_type e' = e_type e /\ e_log e' = e_log e /\ e_htlc e' = e_htlc e /\
  e_parent e' = e_parent e /\ e_amt e' = e_amt e.
Proof.
  cbn zeta. split; [apply markfn_set_once|]. split.
  { intros L. unfold markfn. apply N.ltb_ge in L. rewrite L. reflexivity. }
  split.
  { intros Z L. rewrite markfn_committed. apply N.ltb_lt in L. rewrite L, Z. reflexivity. }
  destruct (markfn_other_chain w h idx e) as [A B].
  repeat split; auto using markfn_type, markfn_log, markfn_htlc, markfn_parent, markfn_amt.
Qed.

(* (a) in its crisp form: a height is set iff the entry lies below the cut of the chain's tip *)
Lemma log_ok_unset_iff w l tI pI hT hP e :
  log_ok w l tI pI hT hP -> tI <= pI -> In e l -> (committed w e = 0 <-> pI <= e_log e).
Proof. intros OK T IN. specialize (OK e IN). unfold in_range in OK. lia. Qed.

Lemma vinv_unset_iff p x : VInv p x ->
  (forall e, In e (l_list (vl x)) ->
     (committed false e = 0 <-> ix p (rtipv x) <= e_log e) /\
     (committed true e = 0 <-> ix p (ltipv x) <= e_log e)) /\
  (forall e, In e (l_list (vr x)) ->
     (committed false e = 0 <-> ix (negb p) (rtipv x) <= e_log e) /\
     (committed true e = 0 <-> ix (negb p) (ltipv x) <= e_log e)).
Proof.
  intros I. destruct I as [hl hr own peer oR oL pR pL].
  split; intros e IN; split; eapply log_ok_unset_iff; eauto; lia.
Qed.

(* the commitment construction of the incremental machine IS commit_of's, once the gross
   balances, the fee rate and the live HTLC sets of the cut are given *)
Lemma commit_of_finish c o h lA lB nA nB :
  commit_of c o h lA lB nA nB =
  let uA := firstn nA lA in let uB := firstn nB lB in
  if negb (nodupb (map fst (removes_of uB)) && nodupb (map fst (removes_of uA))) then None else
  match removed_amounts (adds_of uA) (removes_of uB), removed_amounts (adds_of uB) (removes_of uA) with
  | Some (setA, failA), Some (setB, failB) =>
    finish_commit c o h nA nB
      (gross0A c - sum_adds (adds_of uA) + failA + setB)%Z
      (gross0B c - sum_adds (adds_of uB) + failB + setA)%Z
      (last_fee (if opener c then uA else uB) (rate0 c))
      (live_adds (adds_of uA) (removes_of uB)) (live_adds (adds_of uB) (removes_of uA))
  | _, _ => None
  end.
Proof.
  unfold commit_of, finish_commit. cbv zeta.
  destruct (negb _); [reflexivity|].
  destruct (removed_amounts _ _) as [[sA fA]|]; [|reflexivity].
  destruct (removed_amounts _ _) as [[sB fB]|]; reflexivity.
Qed.

Lemma vrun_inv_init c s0 ops : vinit c = Some s0 -> no_sig_rejected c s0 ops -> VInvS (vrun c s0 ops).
Proof. intros H. apply vrun_inv. exact (vinit_inv c s0 H). Qed.

Lemma v_restore_partial p x :
  v_restore p (v_restore p x) = v_restore p x /\
  forall y, v_ltail x = v_ltail y -> v_rtail x = v_rtail y -> v_rtip x = v_rtip y ->
            d_diff x = d_diff y -> d_unsigned_acked x = d_unsigned_acked y ->
            d_remote_unsigned x = d_remote_unsigned y -> v_restore p x = v_restore p y.
Proof. split; [apply v_restore_idem|apply v_restore_disk_only]. Qed.
