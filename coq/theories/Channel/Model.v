(* Channel commitment state machine (lnwallet/channel.go, commitment.go) at the
   level of the GLOBAL LEDGER: two append-only update logs, and commitments
   described declaratively by a CUT (how many updates of each log they
   include).  Definitions only.  See DESIGN.md §4 C01 "proof architecture".

   Parties are booleans: true = A (the channel opener in the harness), false = B.
   All amounts are Z (msat unless named _sat); indices are nat; heights Z. *)
From Coq Require Import List ZArith Bool Arith Lia.
Import ListNotations.
Local Open Scope Z_scope.

(* ---------- updates ---------- *)
Inductive upd :=
| UAdd (amt expiry hash : Z)        (* HtlcIndex = number of earlier UAdd in the same log *)
| USettle (parent : nat)            (* parent = HtlcIndex of an add in the OTHER party's log *)
| UFail (parent : nat)              (* update_fail_htlc and update_fail_malformed_htlc *)
| UFee (rate : Z).                  (* update_fee, opener only *)

Record side_cfg := mkSide { dust_sat : Z; reserve_sat : Z }.

Record cfg := mkCfg {
  capacity_sat : Z;
  anchors : bool;
  commit_weight : Z;       (* CommitWeight(chanType) *)
  htlc_weight : Z;         (* input.HTLCWeight *)
  timeout_weight : Z;      (* weight used by HtlcTimeoutFee; 0 for zero-fee-htlc/taproot *)
  success_weight : Z;      (* weight used by HtlcSuccessFee *)
  anchor_size : Z;         (* AnchorSize (sat) *)
  opener : bool;           (* who pays the commitment fee *)
  sideA : side_cfg; sideB : side_cfg;
  gross0A : Z; gross0B : Z;   (* initial balances (msat) with the commit fee added back to the opener *)
  rate0 : Z                (* initial fee_per_kw *)
}.

Definition side (c : cfg) (p : bool) : side_cfg := if p then sideA c else sideB c.

(* ---------- commitment descriptor (stands for the transaction) ---------- *)
Record htlc := mkHtlc {
  h_from : bool;   (* offerer *)
  h_amt : Z; h_idx : nat; h_exp : Z; h_hash : Z;
  h_ontx : bool    (* has an output on this commitment (not dust for the owner) *)
}.

Record commit := mkCommit {
  c_owner : bool;  (* whose commitment transaction this is *)
  c_h : Z;         (* height *)
  c_nA : nat; c_nB : nat;          (* the cut: updates of A's / B's log included *)
  c_balA : Z; c_balB : Z;          (* msat, after the fee was taken from the opener *)
  c_fee : Z;                       (* sat *)
  c_rate : Z;                      (* fee_per_kw *)
  c_htlcs : list htlc;             (* A's live adds (by index) then B's live adds *)
  c_outs : Z;                      (* sum of output values, sat *)
  c_nout : Z                       (* number of outputs *)
}.

(* ---------- declarative content of a cut ---------- *)
Record addent := mkAdd { a_idx : nat; a_amt : Z; a_exp : Z; a_hash : Z }.

Fixpoint adds_from (l : list upd) (i : nat) : list addent :=
  match l with
  | [] => []
  | UAdd a e h :: r => mkAdd i a e h :: adds_from r (S i)
  | _ :: r => adds_from r i
  end.
Definition adds_of (l : list upd) := adds_from l 0.

Fixpoint removes_of (l : list upd) : list (nat * bool) :=   (* parent, settled? *)
  match l with
  | [] => []
  | USettle p :: r => (p, true) :: removes_of r
  | UFail p :: r => (p, false) :: removes_of r
  | _ :: r => removes_of r
  end.

Definition last_fee (l : list upd) (d : Z) : Z :=
  fold_left (fun r u => match u with UFee x => x | _ => r end) l d.

Fixpoint lookup_add (adds : list addent) (i : nat) : option Z :=
  match adds with
  | [] => None
  | x :: r => if Nat.eqb i (a_idx x) then Some (a_amt x) else lookup_add r i
  end.

Fixpoint nodupb (l : list nat) : bool :=
  match l with
  | [] => true
  | x :: r => negb (existsb (Nat.eqb x) r) && nodupb r
  end.

(* amounts (settled, failed) removed from [adds] by [rems]; None if a removal
   names an add that is not included in the cut (fetchParent would fail) *)
Fixpoint removed_amounts (adds : list addent) (rems : list (nat * bool))
  : option (Z * Z) :=
  match rems with
  | [] => Some (0, 0)
  | (p, s) :: r =>
    match lookup_add adds p, removed_amounts adds r with
    | Some a, Some (st, fl) => Some (if s then (st + a, fl) else (st, fl + a))
    | _, _ => None
    end
  end.

Definition sum_adds (adds : list addent) : Z :=
  fold_right (fun x acc => a_amt x + acc) 0 adds.

Definition live_adds (adds : list addent) (rems : list (nat * bool)) :=
  filter (fun x => negb (existsb (fun r => Nat.eqb (fst r) (a_idx x)) rems)) adds.

(* chainfee.SatPerKWeight.FeeForWeight: rate * weight / 1000 (non-negative operands) *)
Definition fee_for_weight (rate w : Z) : Z := (rate * w) / 1000.

(* HtlcIsDust on [owner]'s commitment for an HTLC offered by [from]:
   the owner's own offers are swept by a timeout tx, received ones by a success tx *)
Definition htlc_is_dust (c : cfg) (owner from : bool) (rate amt_msat : Z) : bool :=
  let w := if Bool.eqb owner from then timeout_weight c else success_weight c in
  (amt_msat / 1000 - fee_for_weight rate w) <? dust_sat (side c owner).

Definition mk_htlcs (c : cfg) (owner from : bool) (rate : Z)
           (adds : list addent) : list htlc :=
  map (fun x => mkHtlc from (a_amt x) (a_idx x) (a_exp x) (a_hash x)
                       (negb (htlc_is_dust c owner from rate (a_amt x)))) adds.

Definition count_ontx (hs : list htlc) : Z :=
  Z.of_nat (length (filter h_ontx hs)).

Definition sum_ontx_sat (hs : list htlc) : Z :=
  fold_right (fun h acc => (if h_ontx h then h_amt h / 1000 else 0) + acc) 0 hs.

Definition sum_htlc_msat (hs : list htlc) : Z :=
  fold_right (fun h acc => h_amt h + acc) 0 hs.

(* [commit_of c owner height logA logB nA nB]: the commitment that includes the
   first nA updates of A's log and the first nB of B's.  None when
   - a removal in the cut names an add outside the cut or an add is removed twice
     (unreachable for protocol-following peers: theorem wf_reachable), or
   - a gross balance is negative / the opener cannot pay the fee
     (validateCommitmentSanity refuses: ErrBelowChanReserve). *)
Definition commit_of (c : cfg) (owner : bool) (height : Z)
           (logA logB : list upd) (nA nB : nat) : option commit :=
  let uA := firstn nA logA in
  let uB := firstn nB logB in
  let addsA := adds_of uA in
  let addsB := adds_of uB in
  let remsByB := removes_of uB in     (* B removes A's adds *)
  let remsByA := removes_of uA in
  if negb (nodupb (map fst remsByB) && nodupb (map fst remsByA)) then None else
  match removed_amounts addsA remsByB, removed_amounts addsB remsByA with
  | Some (setA, failA), Some (setB, failB) =>
    (* A's adds settled by B pay B; failed ones return to A *)
    let grossA := gross0A c - sum_adds addsA + failA + setB in
    let grossB := gross0B c - sum_adds addsB + failB + setA in
    let rate := last_fee (if opener c then uA else uB) (rate0 c) in
    let hs := mk_htlcs c owner true rate (live_adds addsA remsByB) ++
              mk_htlcs c owner false rate (live_adds addsB remsByA) in
    let n := count_ontx hs in
    let fee := fee_for_weight rate (commit_weight c + htlc_weight c * n) in
    let grossO := if opener c then grossA else grossB in
    if (grossA <? 0) || (grossB <? 0) || negb (fee * 1000 <? grossO) then None else
    let balA := if opener c then grossA - fee * 1000 else grossA in
    let balB := if opener c then grossB else grossB - fee * 1000 in
    let d := dust_sat (side c owner) in
    let own_sat := (if owner then balA else balB) / 1000 in
    let oth_sat := (if owner then balB else balA) / 1000 in
    let own_out := d <=? own_sat in
    let oth_out := d <=? oth_sat in
    let anc1 := anchors c && (own_out || (0 <? n)) in
    let anc2 := anchors c && (oth_out || (0 <? n)) in
    let outs := (if own_out then own_sat else 0) + (if oth_out then oth_sat else 0)
                + (if anc1 then anchor_size c else 0) + (if anc2 then anchor_size c else 0)
                + sum_ontx_sat hs in
    let nout := (if own_out then 1 else 0) + (if oth_out then 1 else 0)
                + (if anc1 then 1 else 0) + (if anc2 then 1 else 0) + n in
    Some (mkCommit owner height nA nB balA balB fee rate hs outs nout)
  | _, _ => None
  end.

(* ---------- the property predicates on a descriptor ---------- *)
Definition conserved (c : cfg) (k : commit) : Prop :=
  c_balA k + c_balB k + sum_htlc_msat (c_htlcs k) + 1000 * c_fee k
  + (if anchors c then 2000 * anchor_size c else 0) = 1000 * capacity_sat c
  /\ c_outs k + c_fee k <= capacity_sat c.

Definition conservedb (c : cfg) (k : commit) : bool :=
  (c_balA k + c_balB k + sum_htlc_msat (c_htlcs k) + 1000 * c_fee k
   + (if anchors c then 2000 * anchor_size c else 0) =? 1000 * capacity_sat c)
  && (c_outs k + c_fee k <=? capacity_sat c).

(* well-formed configuration: what the funding flow establishes *)
Definition cfg_ok (c : cfg) : Prop :=
  gross0A c + gross0B c + (if anchors c then 2000 * anchor_size c else 0)
    = 1000 * capacity_sat c
  /\ 0 <= gross0A c /\ 0 <= gross0B c
  /\ 0 <= anchor_size c /\ 0 <= commit_weight c /\ 0 <= htlc_weight c
  /\ 0 <= rate0 c.

(* ---------- two parties, two FIFOs ---------- *)
Inductive msg :=
| MUpd (u : upd)
| MSig (k : commit)    (* commitment_signed: stands for signatures over exactly this descriptor *)
| MRev.                (* revoke_and_ack *)

Record party := mkParty {
  own : list upd;           (* own update log (index = LogIndex) *)
  peer : list upd;          (* counterparty updates received *)
  lTail : commit; lTip : option commit;    (* local chain: last revoked-into / received not yet revoked *)
  rTail : commit; rTip : option commit     (* remote chain: last acked / signed not yet acked *)
}.

Record sys := mkSys {
  pA : party; pB : party;
  qAB : list msg;    (* A -> B *)
  qBA : list msg     (* B -> A *)
}.

Definition get (s : sys) (p : bool) : party := if p then pA s else pB s.
Definition set (s : sys) (p : bool) (x : party) : sys :=
  if p then mkSys x (pB s) (qAB s) (qBA s) else mkSys (pA s) x (qAB s) (qBA s).
(* queue of messages SENT BY p *)
Definition outq (s : sys) (p : bool) : list msg := if p then qAB s else qBA s.
Definition set_outq (s : sys) (p : bool) (q : list msg) : sys :=
  if p then mkSys (pA s) (pB s) q (qBA s) else mkSys (pA s) (pB s) (qAB s) q.

(* cut component belonging to party p *)
Definition n_of (p : bool) (k : commit) : nat := if p then c_nA k else c_nB k.

(* logs in absolute (A, B) order as known by party p *)
Definition logA_of (p : bool) (x : party) : list upd := if p then own x else peer x.
Definition logB_of (p : bool) (x : party) : list upd := if p then peer x else own x.

Definition init_commit (c : cfg) (owner : bool) : option commit :=
  commit_of c owner 0 [] [] 0 0.

Definition init_party (c : cfg) (p : bool) : option party :=
  match init_commit c p, init_commit c (negb p) with
  | Some l, Some r => Some (mkParty [] [] l None r None)
  | _, _ => None
  end.

Definition init_sys (c : cfg) : option sys :=
  match init_party c true, init_party c false with
  | Some a, Some b => Some (mkSys a b [] [])
  | _, _ => None
  end.

(* ---------- enabledness of a removal (DESIGN §4 C01) ---------- *)
(* p may settle/fail the peer's HTLC #i only when the add is included in p's
   revoked-into local commitment AND in the acked remote commitment, and p has
   not already removed it. *)
Fixpoint add_pos_from (l : list upd) (i : nat) (pos : nat) : option nat :=
  match l with
  | [] => None
  | UAdd _ _ _ :: r => match i with O => Some pos | S i' => add_pos_from r i' (S pos) end
  | _ :: r => add_pos_from r i (S pos)
  end.
Definition add_pos (l : list upd) (i : nat) : option nat := add_pos_from l i 0.

Definition removal_enabled (p : bool) (x : party) (i : nat) : bool :=
  match add_pos (peer x) i with
  | None => false
  | Some pos =>
    Nat.ltb pos (n_of (negb p) (lTail x)) && Nat.ltb pos (n_of (negb p) (rTail x))
    && negb (existsb (fun r => Nat.eqb (fst r) i) (removes_of (own x)))
  end.

Definition upd_enabled (c : cfg) (p : bool) (x : party) (u : upd) : bool :=
  match u with
  | UAdd a _ _ => 0 <? a
  | USettle i | UFail i => removal_enabled p x i
  | UFee r => Bool.eqb p (opener c) && (0 <=? r)
  end.

(* ---------- steps ---------- *)
Inductive op :=
| OSend (p : bool) (u : upd)     (* AddHTLC / SettleHTLC / FailHTLC / UpdateFee + enqueue *)
| OSign (p : bool)               (* SignNextCommitment + enqueue commit_sig *)
| ORevoke (p : bool)             (* RevokeCurrentCommitment + enqueue revoke_and_ack *)
| ODeliver (p : bool).           (* p receives the head of the queue towards it *)

Inductive res := Ok | ErrDisabled | ErrNoWindow | ErrSanity | ErrNothing | ErrSigInvalid
  | ErrSync.   (* only produced by the reconnect step of Resync.v *)

Definition tip_of (tail : commit) (tip : option commit) : commit :=
  match tip with Some k => k | None => tail end.

(* updateLog.appendFeeUpdate (lnwallet/update_log.go): a fee update is merged IN
   PLACE into the newest fee update of the log when that one has not yet been
   committed on either chain (its index is not below any commitment's cut);
   the update_fee message is sent either way.  Everything else is appended. *)
Fixpoint last_fee_idx (l : list upd) (i : nat) (acc : option nat) : option nat :=
  match l with
  | [] => acc
  | UFee _ :: r => last_fee_idx r (S i) (Some i)
  | _ :: r => last_fee_idx r (S i) acc
  end.

Fixpoint replace_nth (n : nat) (l : list upd) (u : upd) : list upd :=
  match l, n with
  | [], _ => []
  | _ :: r, O => u :: r
  | x :: r, S n' => x :: replace_nth n' r u
  end.

Definition append_upd (log : list upd) (bound : nat) (u : upd) : list upd :=
  match u with
  | UFee _ =>
    match last_fee_idx log 0 None with
    | Some j => if Nat.leb bound j then replace_nth j log u else log ++ [u]
    | None => log ++ [u]
    end
  | _ => log ++ [u]
  end.

(* number of entries of [who]'s log already covered by some commitment held by x *)
Definition committed_bound (who : bool) (x : party) : nat :=
  Nat.max (n_of who (tip_of (lTail x) (lTip x))) (n_of who (tip_of (rTail x) (rTip x))).

(* SignNextCommitment by p: remote commitment (owner = negb p) including all own
   updates and the peer updates p has acked (those in its local tail). *)
Definition do_sign (c : cfg) (p : bool) (x : party) : res * party * option msg :=
  match rTip x with
  | Some _ => (ErrNoWindow, x, None)
  | None =>
    let nown := length (own x) in
    let npeer := n_of (negb p) (lTail x) in
    let nA := if p then nown else npeer in
    let nB := if p then npeer else nown in
    match commit_of c (negb p) (c_h (rTail x) + 1) (logA_of p x) (logB_of p x) nA nB with
    | None => (ErrSanity, x, None)
    | Some k => (Ok, mkParty (own x) (peer x) (lTail x) (lTip x) (rTail x) (Some k), Some (MSig k))
    end
  end.

Definition commit_eqb (a b : commit) : bool.
Proof.
  refine (Bool.eqb (c_owner a) (c_owner b) && (c_h a =? c_h b)
          && Nat.eqb (c_nA a) (c_nA b) && Nat.eqb (c_nB a) (c_nB b)
          && (c_balA a =? c_balA b) && (c_balB a =? c_balB b)
          && (c_fee a =? c_fee b) && (c_rate a =? c_rate b)
          && (c_outs a =? c_outs b) && (c_nout a =? c_nout b)
          && _).
  exact ((fix eq (l1 l2 : list htlc) : bool :=
            match l1, l2 with
            | [], [] => true
            | x :: r1, y :: r2 =>
              Bool.eqb (h_from x) (h_from y) && (h_amt x =? h_amt y)
              && Nat.eqb (h_idx x) (h_idx y) && (h_exp x =? h_exp y)
              && (h_hash x =? h_hash y) && Bool.eqb (h_ontx x) (h_ontx y) && eq r1 r2
            | _, _ => false
            end) (c_htlcs a) (c_htlcs b)).
Defined.

(* ReceiveNewCommitment by p of a signature over descriptor k: p builds its own
   view (all received peer updates, own updates the peer has acked) and the
   signature verifies iff the descriptors coincide. *)
Definition do_recv_sig (c : cfg) (p : bool) (x : party) (k : commit) : res * party :=
  let npeer := length (peer x) in
  let nown := n_of p (rTail x) in
  let nA := if p then nown else npeer in
  let nB := if p then npeer else nown in
  match commit_of c p (c_h (tip_of (lTail x) (lTip x)) + 1) (logA_of p x) (logB_of p x) nA nB with
  | None => (ErrSanity, x)
  | Some k' =>
    if commit_eqb k' k
    then (Ok, mkParty (own x) (peer x) (lTail x) (Some k') (rTail x) (rTip x))
    else (ErrSigInvalid, x)
  end.

Definition do_revoke (x : party) : res * party * option msg :=
  match lTip x with
  | None => (ErrNothing, x, None)
  | Some k => (Ok, mkParty (own x) (peer x) k None (rTail x) (rTip x), Some MRev)
  end.

Definition do_recv_rev (x : party) : res * party :=
  match rTip x with
  | None => (ErrNothing, x)
  | Some k => (Ok, mkParty (own x) (peer x) (lTail x) (lTip x) k None)
  end.

Definition step (c : cfg) (s : sys) (o : op) : res * sys :=
  match o with
  | OSend p u =>
    let x := get s p in
    if upd_enabled c p x u then
      let x' := mkParty (append_upd (own x) (committed_bound p x) u) (peer x)
                        (lTail x) (lTip x) (rTail x) (rTip x) in
      (Ok, set_outq (set s p x') p (outq s p ++ [MUpd u]))
    else (ErrDisabled, s)
  | OSign p =>
    match do_sign c p (get s p) with
    | (Ok, x', Some m) => (Ok, set_outq (set s p x') p (outq s p ++ [m]))
    | (r, _, _) => (r, s)
    end
  | ORevoke p =>
    match do_revoke (get s p) with
    | (Ok, x', Some m) => (Ok, set_outq (set s p x') p (outq s p ++ [m]))
    | (r, _, _) => (r, s)
    end
  | ODeliver p =>
    match outq s (negb p) with
    | [] => (ErrNothing, s)
    | m :: q =>
      let x := get s p in
      match m with
      | MUpd u =>
        let x' := mkParty (own x) (append_upd (peer x) (committed_bound (negb p) x) u)
                          (lTail x) (lTip x) (rTail x) (rTip x) in
        (Ok, set_outq (set s p x') (negb p) q)
      | MSig k =>
        match do_recv_sig c p x k with
        | (Ok, x') => (Ok, set_outq (set s p x') (negb p) q)
        | (r, _) => (r, s)
        end
      | MRev =>
        match do_recv_rev x with
        | (Ok, x') => (Ok, set_outq (set s p x') (negb p) q)
        | (r, _) => (r, s)
        end
      end
    end
  end.

Definition run (c : cfg) (s : sys) (ops : list op) : sys :=
  fold_left (fun s o => snd (step c s o)) ops s.

(* all commitments currently held by a party *)
Definition commits_of (x : party) : list commit :=
  lTail x :: rTail x :: (match lTip x with Some k => [k] | None => [] end)
  ++ (match rTip x with Some k => [k] | None => [] end).

Definition quiescent (s : sys) : Prop :=
  qAB s = [] /\ qBA s = [] /\
  lTip (pA s) = None /\ rTip (pA s) = None /\ lTip (pB s) = None /\ rTip (pB s) = None.
