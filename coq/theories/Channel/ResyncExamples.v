(* Witnesses (vm_compute) about the reconnect step of Channel/Resync.v.
   W1 (free schedules): a party that consumes a revoke_and_ack while holding an
      unrevoked received commitment, then loses the link, rejects the
      retransmitted commitment signature (ErrSigInvalid).
   W2 (DISCIPLINED schedule): XCut returns ErrSanity although nobody lost data:
      a party must re-send its revocation, owes a commitment, and the re-sign of
      the combined cut is not payable (fee-update / add race).  Never ErrSync.
   W3 (DISCIPLINED schedule, non-vacuity of C03_resync_inv): two reconnects, the
      first losing both commitment signatures (one already received), the second
      losing a revocation and re-signing; every step Ok, ends quiescent. *)
From Coq Require Import List ZArith Bool Arith Lia.
From LV Require Import Channel.Model Channel.Proofs Channel.Resync Channel.Discipline Channel.ResyncProofs.
Import ListNotations.
Local Open Scope Z_scope.

Definition A := true.
Definition B := false.

(* ---------- W1 ---------- *)
Definition w1_cfg : cfg :=
  mkCfg 1000000 true 1124 172 666 706 330 true
        (mkSide 354 10000) (mkSide 573 10000)
        599340000 400000000 2500.

Definition w1_ops : list xop :=
  [ XOp (OSend B (UAdd 30000000 510 22)); XOp (ODeliver A); XOp (OSign B);
    XOp (OSend A (UAdd 50000000 500 11)); XOp (OSign A);
    XOp (ODeliver A); XOp (ORevoke A);
    XCut 0 3;                      (* B consumes [add; sig; rev], then the link drops *)
    XOp (ODeliver B) ].            (* B re-receives the add *)

Example w1_free_rev_refuted :
  cfg_ok w1_cfg /\
  exists s0 s k q, xinit w1_cfg = Some s0 /\ s = xrun w1_cfg s0 w1_ops /\
    xall_ok w1_cfg s0 w1_ops = true /\
    outq (xs s) (negb B) = MSig k :: q /\
    fst (step w1_cfg (xs s) (ODeliver B)) = ErrSigInvalid.
Proof.
  split; [unfold cfg_ok, w1_cfg; cbn; lia|].
  destruct (xinit w1_cfg) as [s0|] eqn:H0; [|vm_compute in H0; discriminate].
  eexists s0, _, _, _. split; [reflexivity|]. split; [reflexivity|].
  vm_compute in H0. inversion H0; subst s0; clear H0.
  vm_compute. repeat split.
Qed.

(* ---------- W2 ---------- *)
Definition w2_cfg : cfg :=
  mkCfg 1000000 false 724 172 663 703 0 false
        (mkSide 354 10000) (mkSide 573 10000)
        990000000 10000000 2500.

Definition w2_ops : list xop :=
  [ XOp (OSend B (UFee 13000));              (* opener raises the fee: payable with 0 HTLCs *)
    XOp (OSend A (UAdd 50000000 500 11));    (* a non-dust HTLC: payable at the old rate *)
    XOp (ODeliver A); XOp (ODeliver B);
    XOp (OSign B); XOp (OSign A);
    XOp (ODeliver B); XOp (ORevoke B);
    XOp (ODeliver A); XOp (ORevoke A);
    XOp (ODeliver A) ].                      (* A gets B's revocation; A's own is in flight *)

Example w2_disciplined_resign_refused :
  cfg_ok w2_cfg /\
  exists s0 s, xinit w2_cfg = Some s0 /\ s = xrun w2_cfg s0 w2_ops /\
    xall_ok w2_cfg s0 w2_ops = true /\
    xall_disc w2_cfg s0 (w2_ops ++ [XCut 0 0]) = true /\
    fst (xstep w2_cfg s (XCut 0 0)) = ErrSanity /\
    (* the cause: A must re-send its revocation, owes a commitment, and re-signing fails *)
    fst (fst (do_sign w2_cfg A (restore A (pA (xs s))))) = ErrSanity.
Proof.
  split; [unfold cfg_ok, w2_cfg; cbn; lia|].
  destruct (xinit w2_cfg) as [s0|] eqn:H0; [|vm_compute in H0; discriminate].
  eexists s0, _. split; [reflexivity|]. split; [reflexivity|].
  vm_compute in H0. inversion H0; subst s0; clear H0.
  vm_compute. repeat split.
Qed.

(* ---------- W3 ---------- *)
Definition w3_ops : list xop :=
  [ XOp (OSend A (UAdd 50000000 500 11)); XOp (OSend B (UAdd 30000000 510 22));
    XOp (OSend A (UFee 3000)); XOp (OSend A (UFee 3500));   (* merged in place *)
    XOp (ODeliver B); XOp (ODeliver A); XOp (ODeliver B); XOp (ODeliver B);
    XOp (OSign A); XOp (OSign B);
    XOp (ODeliver B);              (* B holds A's signature, unrevoked *)
    XCut 0 0;                      (* both signatures are lost (B's copy by restore) *)
    XOp (ODeliver B); XOp (ODeliver B); XOp (ODeliver B);   (* add, fee, sig again *)
    XOp (ODeliver A); XOp (ODeliver A);                     (* add, sig again *)
    XOp (ORevoke B); XOp (ORevoke A);
    XCut 1 0;                      (* A gets B's revocation; A's own is lost *)
    XOp (ODeliver B); XOp (ODeliver B);                     (* A's revocation + new signature *)
    XOp (ORevoke B); XOp (ODeliver A);
    XOp (OSign B); XOp (ODeliver A); XOp (ORevoke A); XOp (ODeliver B) ].

Definition xquiescentb (s : xsys) : bool :=
  match qAB (xs s), qBA (xs s), lTip (pA (xs s)), rTip (pA (xs s)),
        lTip (pB (xs s)), rTip (pB (xs s)) with
  | [], [], None, None, None, None => true
  | _, _, _, _, _, _ => false
  end.

Example w3_resync_ok :
  exists s0 s, xinit w1_cfg = Some s0 /\ s = xrun w1_cfg s0 w3_ops /\ dreachable_ok w1_cfg s /\
    xall_ok w1_cfg s0 w3_ops = true /\ xall_disc w1_cfg s0 w3_ops = true /\
    xquiescentb s = true /\
    lTail (pA (xs s)) = rTail (pB (xs s)) /\ rTail (pA (xs s)) = lTail (pB (xs s)) /\
    length (own (pA (xs s))) = 2%nat /\ c_rate (lTail (pA (xs s))) = 3500 /\
    c_nA (lTail (pA (xs s))) = 2%nat /\ c_nB (lTail (pA (xs s))) = 1%nat /\
    c_h (lTail (pA (xs s))) = 2 /\ c_h (lTail (pB (xs s))) = 2.
Proof.
  destruct (xinit w1_cfg) as [s0|] eqn:H0; [|vm_compute in H0; discriminate].
  eexists s0, _. split; [reflexivity|]. split; [reflexivity|].
  assert (HOK : xall_ok w1_cfg s0 w3_ops = true /\ xall_disc w1_cfg s0 w3_ops = true).
  { vm_compute in H0. inversion H0; subst s0. vm_compute. split; reflexivity. }
  split; [apply dreachable_ok_run; [apply dro_init; exact H0|apply HOK|apply HOK]|].
  vm_compute in H0. inversion H0; subst s0; clear H0 HOK.
  vm_compute. repeat split.
Qed.
