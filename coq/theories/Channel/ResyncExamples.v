(* Witnesses (vm_compute) about the reconnect step of Channel/Resync.v.
   W1 (free schedules): a party that consumes a revoke_and_ack while holding an
      unrevoked received commitment, then loses the link, rejects the
      retransmitted commitment signature (ErrSigInvalid).
   W2 (DISCIPLINED schedule): XCut returns ErrSync although nobody lost data,
      because process_sync maps a re-signing failure (do_sign = ErrSanity: the
      opener cannot pay the fee of the combined cut) to SErrSync. *)
From Coq Require Import List ZArith Bool Arith Lia.
From LV Require Import Channel.Model Channel.Proofs Channel.Resync Channel.Discipline.
Import ListNotations.
Local Open Scope Z_scope.

Definition A := true.
Definition B := false.

Fixpoint xall_ok (c : cfg) (s : xsys) (ops : list xop) : bool :=
  match ops with
  | [] => true
  | o :: r => match xstep c s o with (Ok, s') => xall_ok c s' r | _ => false end
  end.

Fixpoint xall_disc (c : cfg) (s : xsys) (ops : list xop) : bool :=
  match ops with
  | [] => true
  | o :: r => disciplined c s o && xall_disc c (snd (xstep c s o)) r
  end.

(* ---------- W1 ---------- *)
Definition w1_cfg : cfg :=
  mkCfg 1000000 true 1124 172 666 706 330 true
        (mkSide 354 10000) (mkSide 573 10000)
        599340000 400000000 2500.

Definition w1_ops : list xop :=
  [ XOp (OSend B (UAdd 30000000 510 22)); XOp (ODeliver A); XOp (OSign B);
    XOp (OSend A (UAdd 50000000 500 11)); XOp (OSign A);
    XOp (ODeliver A); XOp (ORevoke A);
    XCut 0 3;                      (* B consumes [add; sig; rev], then the link drops *)
    XOp (ODeliver B) ].            (* B re-receives the add *)

Example w1_free_rev_refuted :
  cfg_ok w1_cfg /\
  exists s0 s k q, xinit w1_cfg = Some s0 /\ s = xrun w1_cfg s0 w1_ops /\
    xall_ok w1_cfg s0 w1_ops = true /\
    outq (xs s) (negb B) = MSig k :: q /\
    fst (step w1_cfg (xs s) (ODeliver B)) = ErrSigInvalid.
Proof.
  split; [unfold cfg_ok, w1_cfg; cbn; lia|].
  destruct (xinit w1_cfg) as [s0|] eqn:H0; [|vm_compute in H0; discriminate].
  eexists s0, _, _, _. split; [reflexivity|]. split; [reflexivity|].
  vm_compute in H0. inversion H0; subst s0; clear H0.
  vm_compute. repeat split.
Qed.

(* ---------- W2 ---------- *)
Definition w2_cfg : cfg :=
  mkCfg 1000000 false 724 172 663 703 0 false
        (mkSide 354 10000) (mkSide 573 10000)
        990000000 10000000 2500.

Definition w2_ops : list xop :=
  [ XOp (OSend B (UFee 13000));              (* opener raises the fee: payable with 0 HTLCs *)
    XOp (OSend A (UAdd 50000000 500 11));    (* a non-dust HTLC: payable at the old rate *)
    XOp (ODeliver A); XOp (ODeliver B);
    XOp (OSign B); XOp (OSign A);
    XOp (ODeliver B); XOp (ORevoke B);
    XOp (ODeliver A); XOp (ORevoke A);
    XOp (ODeliver A) ].                      (* A gets B's revocation; A's own is in flight *)

Example w2_disciplined_sync_error :
  cfg_ok w2_cfg /\
  exists s0 s, xinit w2_cfg = Some s0 /\ s = xrun w2_cfg s0 w2_ops /\
    xall_ok w2_cfg s0 w2_ops = true /\
    xall_disc w2_cfg s0 (w2_ops ++ [XCut 0 0]) = true /\
    fst (xstep w2_cfg s (XCut 0 0)) = ErrSync /\
    (* the cause: A must re-send its revocation, owes a commitment, and re-signing fails *)
    fst (fst (do_sign w2_cfg A (restore A (pA (xs s))))) = ErrSanity.
Proof.
  split; [unfold cfg_ok, w2_cfg; cbn; lia|].
  destruct (xinit w2_cfg) as [s0|] eqn:H0; [|vm_compute in H0; discriminate].
  eexists s0, _. split; [reflexivity|]. split; [reflexivity|].
  vm_compute in H0. inversion H0; subst s0; clear H0.
  vm_compute. repeat split.
Qed.
