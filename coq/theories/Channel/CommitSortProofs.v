(* Proofs about the commitment sort and the HTLC <-> output <-> signature
   assignment (Channel/CommitSort.v). *)
From Coq Require Import List ZArith NArith Bool Arith Lia Permutation Sorting.Sorted.
From LV Require Import Channel.CommitSort.
Import ListNotations.

(* ====================================================================== *)
(* A. the order                                                            *)
(* ====================================================================== *)
Lemma bytes_cmp_eq : forall a b, bytes_cmp a b = Eq <-> a = b.
Proof.
  induction a as [|x a IH]; intros [|y b]; cbn; split; intro H; try congruence; try reflexivity.
  - destruct (N.compare x y) eqn:E; try discriminate.
    apply N.compare_eq_iff in E. apply IH in H. congruence.
  - inversion H; subst. rewrite N.compare_refl. apply IH. reflexivity.
Qed.

Lemma bytes_eqb_eq : forall a b, bytes_eqb a b = true <-> a = b.
Proof.
  intros a b. unfold bytes_eqb. rewrite <- bytes_cmp_eq.
  destruct (bytes_cmp a b); split; congruence.
Qed.

Lemma bytes_cmp_opp : forall a b, bytes_cmp b a = CompOpp (bytes_cmp a b).
Proof.
  induction a as [|x a IH]; intros [|y b]; cbn; try reflexivity.
  rewrite (N.compare_antisym x y). destruct (N.compare x y); cbn; auto.
Qed.

Lemma bytes_cmp_trans : forall a b c,
  bytes_cmp a b = Lt -> bytes_cmp b c = Lt -> bytes_cmp a c = Lt.
Proof.
  induction a as [|x a IH]; intros [|y b] [|z c]; cbn; try congruence; auto.
  intros H1 H2.
  destruct (N.compare x y) eqn:E1; destruct (N.compare y z) eqn:E2;
    destruct (N.compare x z) eqn:E3; try congruence;
    rewrite ?N.compare_eq_iff, ?N.compare_lt_iff, ?N.compare_gt_iff in *; try lia; eauto.
Qed.

Definition out_cmp (a b : out) : comparison :=
  match Z.compare (o_val a) (o_val b) with
  | Eq => match bytes_cmp (o_pk a) (o_pk b) with
          | Eq => N.compare (o_cltv a) (o_cltv b)
          | c => c
          end
  | c => c
  end.

Lemma out_less_cmp : forall a b,
  out_less a b = match out_cmp a b with Lt => true | _ => false end.
Proof.
  intros a b. unfold out_less, out_cmp.
  destruct (Z.compare_spec (o_val a) (o_val b)) as [E|E|E].
  - rewrite (proj2 (Z.eqb_eq _ _) E). cbn [negb].
    destruct (bytes_cmp (o_pk a) (o_pk b)); auto.
  - rewrite (proj2 (Z.eqb_neq _ _)) by lia. cbn [negb]. apply Z.ltb_lt. exact E.
  - rewrite (proj2 (Z.eqb_neq _ _)) by lia. cbn [negb]. apply Z.ltb_ge. lia.
Qed.

Lemma out_cmp_eq : forall a b, out_cmp a b = Eq -> a = b.
Proof.
  intros [va pa ca] [vb pb cb]. unfold out_cmp. cbn.
  destruct (Z.compare_spec va vb) as [E0|E0|E0]; try discriminate.
  destruct (bytes_cmp pa pb) eqn:E; try discriminate.
  intro H. apply N.compare_eq_iff in H. apply bytes_cmp_eq in E. congruence.
Qed.

Lemma out_cmp_refl : forall a, out_cmp a a = Eq.
Proof.
  intros a. unfold out_cmp. rewrite Z.compare_refl.
  rewrite (proj2 (bytes_cmp_eq _ _) eq_refl). apply N.compare_refl.
Qed.

Lemma out_cmp_opp : forall a b, out_cmp b a = CompOpp (out_cmp a b).
Proof.
  intros a b. unfold out_cmp.
  rewrite (Z.compare_antisym (o_val a) (o_val b)).
  destruct (Z.compare (o_val a) (o_val b)); cbn; auto.
  rewrite (bytes_cmp_opp (o_pk a) (o_pk b)).
  destruct (bytes_cmp (o_pk a) (o_pk b)); cbn; auto.
  apply N.compare_antisym.
Qed.

Lemma out_cmp_trans : forall a b c, out_cmp a b = Lt -> out_cmp b c = Lt -> out_cmp a c = Lt.
Proof.
  intros a b c. unfold out_cmp.
  destruct (Z.compare_spec (o_val a) (o_val b)) as [E1|E1|E1]; try discriminate;
  destruct (Z.compare_spec (o_val b) (o_val c)) as [E2|E2|E2]; try discriminate;
  destruct (Z.compare_spec (o_val a) (o_val c)) as [E3|E3|E3]; try lia; auto.
  destruct (bytes_cmp (o_pk a) (o_pk b)) eqn:B1; try discriminate;
  destruct (bytes_cmp (o_pk b) (o_pk c)) eqn:B2; try discriminate.
  - apply bytes_cmp_eq in B1, B2. rewrite B1, B2, (proj2 (bytes_cmp_eq _ _) eq_refl).
    rewrite !N.compare_lt_iff. lia.
  - apply bytes_cmp_eq in B1. rewrite B1, B2. auto.
  - apply bytes_cmp_eq in B2. rewrite <- B2, B1. auto.
  - rewrite (bytes_cmp_trans _ _ _ B1 B2). auto.
Qed.

Definition out_le (a b : out) : Prop := out_cmp a b <> Gt.

Lemma out_le_total : forall a b, out_le a b \/ out_le b a.
Proof.
  intros a b. unfold out_le. rewrite (out_cmp_opp a b).
  destruct (out_cmp a b); cbn; [left|left|right]; congruence.
Qed.

Lemma out_le_antisym : forall a b, out_le a b -> out_le b a -> a = b.
Proof.
  intros a b. unfold out_le. rewrite (out_cmp_opp a b).
  destruct (out_cmp a b) eqn:E; cbn; try congruence.
  intros _ _. apply out_cmp_eq, E.
Qed.

Lemma out_le_trans : forall a b c, out_le a b -> out_le b c -> out_le a c.
Proof.
  intros a b c. unfold out_le. intros H1 H2.
  destruct (out_cmp a b) eqn:E1; try congruence.
  - apply out_cmp_eq in E1. subst. exact H2.
  - destruct (out_cmp b c) eqn:E2; try congruence.
    + apply out_cmp_eq in E2. subst. rewrite E1. discriminate.
    + rewrite (out_cmp_trans _ _ _ E1 E2). discriminate.
Qed.

Lemma out_less_false_le : forall a b, out_less b a = false <-> out_le a b.
Proof.
  intros a b. rewrite out_less_cmp. unfold out_le. rewrite (out_cmp_opp a b).
  destruct (out_cmp a b); cbn; split; congruence.
Qed.

Lemma out_eqb_eq : forall a b, out_eqb a b = true <-> a = b.
Proof.
  intros [va pa ca] [vb pb cb]. unfold out_eqb. cbn.
  rewrite !andb_true_iff, Z.eqb_eq, N.eqb_eq, bytes_eqb_eq. split.
  - intros [[? ?] ?]. congruence.
  - intro H. inversion H. auto.
Qed.

(* a generic fact: two sorted permutations coincide when the order is
   antisymmetric on the members *)
Lemma sorted_perm_eq : forall (A : Type) (le : A -> A -> Prop) (l1 l2 : list A),
  (forall a b, In a l1 -> In b l1 -> le a b -> le b a -> a = b) ->
  Permutation l1 l2 -> StronglySorted le l1 -> StronglySorted le l2 -> l1 = l2.
Proof.
  intros A le. induction l1 as [|a r1 IH]; intros l2 Anti P S1 S2.
  - apply Permutation_nil in P. congruence.
  - destruct l2 as [|b r2]; [apply Permutation_sym, Permutation_nil in P; discriminate|].
    inversion S1 as [|? ? S1' F1]; subst. inversion S2 as [|? ? S2' F2]; subst.
    assert (Ia : In a (b :: r2)) by (eapply Permutation_in; [exact P|left; reflexivity]).
    assert (Ib : In b (a :: r1)) by (eapply Permutation_in; [apply Permutation_sym, P|left; reflexivity]).
    assert (E : a = b).
    { destruct Ia as [->|Ia]; [reflexivity|]. destruct Ib as [Ib|Ib]; [exact Ib|].
      rewrite Forall_forall in F1, F2.
      apply Anti; [left; reflexivity|right; exact Ib|apply F1, Ib|apply F2, Ia]. }
    subst b. f_equal. apply IH; auto.
    + intros x y Hx Hy. apply Anti; right; assumption.
    + eapply Permutation_cons_inv, P.
Qed.

Lemma out_insert_perm : forall x l, Permutation (x :: l) (out_insert x l).
Proof.
  induction l as [|y r IH]; cbn; [apply Permutation_refl|].
  destruct (out_less x y); [apply Permutation_refl|].
  eapply perm_trans; [apply perm_swap|]. apply perm_skip, IH.
Qed.

Lemma commit_sort_perm : forall l, Permutation l (commit_sort l).
Proof.
  induction l as [|x r IH]; cbn; [constructor|].
  eapply perm_trans; [apply perm_skip, IH|]. apply out_insert_perm.
Qed.

Lemma out_insert_sorted : forall x l,
  StronglySorted out_le l -> StronglySorted out_le (out_insert x l).
Proof.
  induction l as [|y r IH]; intro S; cbn.
  - constructor; constructor.
  - inversion S as [|? ? S' F]; subst.
    destruct (out_less x y) eqn:L.
    + constructor; [exact S|].
      assert (Lxy : out_le x y).
      { unfold out_le. rewrite out_less_cmp in L. destruct (out_cmp x y); congruence. }
      constructor; [exact Lxy|].
      rewrite Forall_forall in *. intros z Hz. eapply out_le_trans; [exact Lxy|apply F, Hz].
    + constructor; [apply IH, S'|].
      apply out_less_false_le in L.
      rewrite Forall_forall in *. intros z Hz.
      apply (Permutation_in _ (Permutation_sym (out_insert_perm x r))) in Hz.
      destruct Hz as [<-|Hz]; [exact L|apply F, Hz].
Qed.

Lemma commit_sort_sorted : forall l, StronglySorted out_le (commit_sort l).
Proof.
  induction l as [|x r IH]; cbn; [constructor|]. apply out_insert_sorted, IH.
Qed.

Lemma out_sortedb_sorted : forall l, out_sortedb l = true -> StronglySorted out_le l.
Proof.
  intros l H. apply Sorted_StronglySorted.
  - intros a b c. apply out_le_trans.
  - induction l as [|a r IH]; [constructor|].
    cbn in H. destruct r as [|b r'].
    + constructor; constructor.
    + apply andb_true_iff in H. destruct H as [H1 H2].
      constructor; [apply IH, H2|]. constructor.
      apply out_less_false_le. apply negb_true_iff, H1.
Qed.

Lemma sorted_out_sortedb : forall l, StronglySorted out_le l -> out_sortedb l = true.
Proof.
  induction l as [|a r IH]; intro S; [reflexivity|].
  inversion S as [|? ? S' F]; subst. cbn. destruct r as [|b r']; [reflexivity|].
  apply andb_true_iff. split; [|apply IH, S'].
  apply negb_true_iff, out_less_false_le. inversion F; assumption.
Qed.

(* Whatever (unstable) sorting algorithm is used: a permutation of the outputs
   that is in Less-order IS commit_sort of them. *)
Lemma commit_sort_canonical : forall l l',
  Permutation l l' -> out_sortedb l' = true -> l' = commit_sort l.
Proof.
  intros l l' P S. apply sorted_perm_eq with (le := out_le).
  - intros a b _ _. apply out_le_antisym.
  - eapply perm_trans; [apply Permutation_sym, P|apply commit_sort_perm].
  - apply out_sortedb_sorted, S.
  - apply commit_sort_sorted.
Qed.

Lemma commit_sort_sortedb : forall l, out_sortedb (commit_sort l) = true.
Proof. intro l. apply sorted_out_sortedb, commit_sort_sorted. Qed.

Lemma commit_sort_perm_eq : forall l l', Permutation l l' -> commit_sort l = commit_sort l'.
Proof.
  intros l l' P. apply commit_sort_canonical.
  - eapply perm_trans; [apply Permutation_sym, P|apply commit_sort_perm].
  - apply commit_sort_sortedb.
Qed.

(* both parties build the same transaction *)
Lemma build_tx_swap : forall base a b, build_tx base a b = build_tx base b a.
Proof.
  intros base a b. unfold build_tx. apply commit_sort_perm_eq.
  apply Permutation_app_head, Permutation_app_comm.
Qed.

(* ====================================================================== *)
(* B. locateOutputIndex / populateHtlcIndexes                              *)
(* ====================================================================== *)
Lemma matches_out : forall h o, matches h o = true -> o = out_of h.
Proof.
  intros h [v p c]. unfold matches, out_of. cbn.
  rewrite !andb_true_iff, Z.eqb_eq, N.eqb_eq, bytes_eqb_eq. intros [[? ?] ?]. congruence.
Qed.

Lemma matches_self : forall h, matches h (out_of h) = true.
Proof.
  intros h. unfold matches, out_of. cbn.
  rewrite !andb_true_iff, Z.eqb_eq, N.eqb_eq, bytes_eqb_eq. auto.
Qed.

Lemma dup_elem_app : forall hash i d e,
  dup_elem hash i (d ++ e) = dup_elem hash i d || dup_elem hash i e.
Proof. intros. unfold dup_elem. apply existsb_app. Qed.

Lemma dup_elem_in : forall hash i d, dup_elem hash i d = true <-> In (hash, i) d.
Proof.
  intros hash i d. unfold dup_elem. rewrite existsb_exists. split.
  - intros ([a b] & Hin & E). cbn in E. apply andb_true_iff in E. destruct E as [E1 E2].
    apply N.eqb_eq in E1. apply Nat.eqb_eq in E2. subst. exact Hin.
  - intro Hin. exists (hash, i). split; [exact Hin|]. cbn.
    rewrite N.eqb_refl, Nat.eqb_refl. reflexivity.
Qed.

Lemma locate_some : forall h tx d k i, locate h tx d k = Some i ->
  k <= i /\ nth_error tx (i - k) = Some (out_of h) /\ dup_elem (h_hash h) i d = false.
Proof.
  intros h. induction tx as [|a r IH]; cbn; intros d k i H; [discriminate|].
  destruct (matches h a && negb (dup_elem (h_hash h) k d)) eqn:E.
  - inversion H; subst. apply andb_true_iff in E. destruct E as [M D].
    apply matches_out in M. subst a. rewrite Nat.sub_diag. cbn.
    repeat split; auto. apply negb_true_iff, D.
  - apply IH in H. destruct H as (L & Hn & D). split; [lia|]. split; [|exact D].
    replace (i - k) with (S (i - S k)) by lia. exact Hn.
Qed.

Lemma locate_none : forall h tx d k, locate h tx d k = None ->
  forall j, nth_error tx j = Some (out_of h) -> dup_elem (h_hash h) (k + j) d = true.
Proof.
  intros h. induction tx as [|a r IH]; cbn; intros d k H j Hj; [destruct j; discriminate|].
  destruct (matches h a && negb (dup_elem (h_hash h) k d)) eqn:E; [discriminate|].
  destruct j as [|j]; cbn in Hj.
  - inversion Hj; subst a. rewrite matches_self in E. cbn in E. rewrite Nat.add_0_r.
    destruct (dup_elem (h_hash h) k d); [reflexivity|discriminate].
  - replace (k + S j) with (S k + j) by lia. eapply IH; eauto.
Qed.

Lemma locate_irrel : forall h tx d e k,
  (forall j, nth_error tx j = Some (out_of h) -> dup_elem (h_hash h) (k + j) e = false) ->
  locate h tx (d ++ e) k = locate h tx d k.
Proof.
  intros h. induction tx as [|a r IH]; cbn; intros d e k H; [reflexivity|].
  assert (Hr : forall j, nth_error r j = Some (out_of h) -> dup_elem (h_hash h) (S k + j) e = false).
  { intros j Hj. replace (S k + j) with (k + S j) by lia. apply H. exact Hj. }
  rewrite dup_elem_app. destruct (matches h a) eqn:M; cbn [andb].
  - apply matches_out in M. subst a. pose proof (H 0 eq_refl) as H0. rewrite Nat.add_0_r in H0.
    rewrite H0, orb_false_r. destruct (dup_elem (h_hash h) k d); cbn [negb]; [|reflexivity].
    apply IH, Hr.
  - apply IH, Hr.
Qed.

Definition idxs (l : assigned) : list nat :=
  flat_map (fun p => match snd p with Some i => [i] | None => [] end) l.

Definition d_from (tx : list out) (hs : list hd) (d : dups) : Prop :=
  forall hash i, In (hash, i) d ->
    exists g, In g hs /\ h_on g = true /\ h_hash g = hash /\ nth_error tx i = Some (out_of g).

Lemma d_from_incl : forall tx hs hs' d, incl hs hs' -> d_from tx hs d -> d_from tx hs' d.
Proof.
  intros tx hs hs' d I F hash i Hin. destruct (F _ _ Hin) as (g & Hg & R). exists g. split; auto.
Qed.

Lemma populate_list_irrel : forall tx hs d e,
  (forall h, In h hs -> h_on h = true ->
     forall j, nth_error tx j = Some (out_of h) -> dup_elem (h_hash h) j e = false) ->
  populate_list tx hs (d ++ e) =
  match populate_list tx hs d with Some (l, d') => Some (l, d' ++ e) | None => None end.
Proof.
  intros tx. induction hs as [|a r IH]; cbn; intros d e H; [reflexivity|].
  assert (Hr : forall h, In h r -> h_on h = true ->
            forall j, nth_error tx j = Some (out_of h) -> dup_elem (h_hash h) j e = false)
    by (intros; eapply H; eauto).
  destruct (h_on a) eqn:On.
  - rewrite locate_irrel by (intros j Hj; cbn; apply (H a); auto).
    destruct (locate a tx d 0) as [i|]; [|reflexivity].
    change ((h_hash a, i) :: d ++ e) with (((h_hash a, i) :: d) ++ e).
    rewrite IH by exact Hr. destruct (populate_list tx r ((h_hash a, i) :: d)) as [[l d']|]; reflexivity.
  - rewrite IH by exact Hr. destruct (populate_list tx r d) as [[l d']|]; reflexivity.
Qed.

Lemma populate_list_dups : forall tx hs d l d', populate_list tx hs d = Some (l, d') ->
  exists dn, d' = dn ++ d /\ d_from tx hs dn /\ map snd dn = rev (idxs l) /\ map fst l = hs /\
    length (idxs l) = n_on hs /\
    (forall h oi, In (h, oi) l -> (oi = None <-> h_on h = false)) /\
    (forall h i, In (h, Some i) l -> nth_error tx i = Some (out_of h)).
Proof.
  intros tx. induction hs as [|a r IH]; cbn; intros d l d' H.
  - inversion H; subst. exists []. repeat split; try reflexivity; try (intros; contradiction).
    intros ? ? [].
  - unfold n_on. cbn [filter]. destruct (h_on a) eqn:On.
    + destruct (locate a tx d 0) as [i|] eqn:L; [|discriminate].
      destruct (populate_list tx r ((h_hash a, i) :: d)) as [[l0 d0]|] eqn:P; [|discriminate].
      inversion H; subst. destruct (IH _ _ _ P) as (dn & -> & F & M & Mf & Ln & Hn & Hi).
      apply locate_some in L. destruct L as (_ & Lnth & _). rewrite Nat.sub_0_r in Lnth.
      exists (dn ++ [(h_hash a, i)]). rewrite <- app_assoc. cbn [app].
      split; [reflexivity|]. split.
      { intros hash j Hin. apply in_app_or in Hin. destruct Hin as [Hin|[E|[]]].
        - destruct (F _ _ Hin) as (g & Hg & R). exists g. split; [right; exact Hg|exact R].
        - inversion E; subst. exists a. repeat split; auto. left; reflexivity. }
      split; [rewrite map_app, M; reflexivity|]. split; [cbn; congruence|].
      split; [cbn; f_equal; exact Ln|]. split.
      { intros h oi [E|Hin]; [inversion E; subst; split; congruence|apply Hn, Hin]. }
      { intros h j [E|Hin]; [inversion E; subst; exact Lnth|apply Hi, Hin]. }
    + destruct (populate_list tx r d) as [[l0 d0]|] eqn:P; [|discriminate].
      inversion H; subst. destruct (IH _ _ _ P) as (dn & -> & F & M & Mf & Ln & Hn & Hi).
      exists dn. split; [reflexivity|]. split.
      { intros hash j Hin. destruct (F _ _ Hin) as (g & Hg & R). exists g. split; [right; exact Hg|exact R]. }
      split; [exact M|]. split; [cbn; congruence|]. split; [exact Ln|]. split.
      { intros h oi [E|Hin]; [inversion E; subst; split; auto|apply Hn, Hin]. }
      { intros h j [E|Hin]; [inversion E|apply Hi, Hin]. }
Qed.

Lemma populate_list_app : forall tx a b d,
  populate_list tx (a ++ b) d =
  match populate_list tx a d with
  | None => None
  | Some (la, d1) => match populate_list tx b d1 with
                     | None => None
                     | Some (lb, d2) => Some (la ++ lb, d2)
                     end
  end.
Proof.
  intros tx. induction a as [|x a IH]; cbn; intros b d.
  - destruct (populate_list tx b d) as [[lb d2]|]; reflexivity.
  - destruct (h_on x).
    + destruct (locate x tx d 0) as [i|]; [|reflexivity]. rewrite IH.
      destruct (populate_list tx a ((h_hash x, i) :: d)) as [[la d1]|]; [|reflexivity].
      destruct (populate_list tx b d1) as [[lb d2]|]; reflexivity.
    + rewrite IH. destruct (populate_list tx a d) as [[la d1]|]; [|reflexivity].
      destruct (populate_list tx b d1) as [[lb d2]|]; reflexivity.
Qed.

(* The two slices do not interfere when no script of one equals a script of
   the other: the order in which populateHtlcIndexes walks them is irrelevant. *)
Lemma populate_indep : forall tx a b,
  (forall x y, on_tx a x -> on_tx b y -> h_pk x <> h_pk y) ->
  populate tx a b = match populate_list tx a [], populate_list tx b [] with
                    | Some (la, _), Some (lb, _) => Some (la, lb)
                    | _, _ => None
                    end.
Proof.
  intros tx a b Hd. unfold populate.
  destruct (populate_list tx a []) as [[la da]|] eqn:Ea; [|reflexivity].
  destruct (populate_list_dups _ _ _ _ _ Ea) as (dn & -> & F & _).
  rewrite app_nil_r. pose proof (populate_list_irrel tx b [] dn) as Hir. cbn [app] in Hir.
  rewrite Hir.
  - destruct (populate_list tx b []) as [[lb db]|]; reflexivity.
  - intros h Hin Hon j Hj. destruct (dup_elem (h_hash h) j dn) eqn:D; [|reflexivity].
    apply dup_elem_in in D. destruct (F _ _ D) as (g & Hg & Hgon & _ & Hnth).
    rewrite Hj in Hnth. inversion Hnth as [[Hs Hp Hc]]. exfalso.
    apply (Hd g h); [split; assumption|split; assumption|]. symmetry. exact Hp.
Qed.

(* ====================================================================== *)
(* C/D. every non-dust HTLC is located, at pairwise distinct outputs        *)
(* ====================================================================== *)
Definition out_eq_dec : forall a b : out, {a = b} + {a <> b}.
Proof.
  intros a b. destruct (out_eqb a b) eqn:E.
  - left. apply out_eqb_eq, E.
  - right. intro H. apply out_eqb_eq in H. congruence.
Defined.

Fixpoint positions (o : out) (tx : list out) (k : nat) : list nat :=
  match tx with
  | [] => []
  | x :: r => (if out_eq_dec x o then [k] else []) ++ positions o r (S k)
  end.

Lemma positions_length : forall o tx k, length (positions o tx k) = count_occ out_eq_dec tx o.
Proof.
  intros o. induction tx as [|x r IH]; intro k; cbn; [reflexivity|].
  destruct (out_eq_dec x o); cbn; rewrite IH; reflexivity.
Qed.

Lemma positions_in : forall o tx k i, In i (positions o tx k) ->
  k <= i /\ nth_error tx (i - k) = Some o.
Proof.
  intros o. induction tx as [|x r IH]; intros k i H; cbn in H; [contradiction|].
  apply in_app_or in H. destruct H as [H|H].
  - destruct (out_eq_dec x o) as [->|]; [|contradiction]. destruct H as [<-|[]].
    rewrite Nat.sub_diag. split; [lia|reflexivity].
  - apply IH in H. destruct H as [L Hn]. split; [lia|].
    replace (i - k) with (S (i - S k)) by lia. exact Hn.
Qed.

Lemma positions_nodup : forall o tx k, NoDup (positions o tx k).
Proof.
  intros o. induction tx as [|x r IH]; intro k; cbn; [constructor|].
  destruct (out_eq_dec x o); cbn; [|apply IH].
  constructor; [|apply IH]. intro H. apply positions_in in H. lia.
Qed.

Section Located.
  Variable tx : list out.
  Variable all : list hd.
  Hypothesis pk_hash_all : forall a b, In a all -> h_on a = true -> In b all -> h_on b = true ->
    h_pk a = h_pk b -> h_hash a = h_hash b.

  Definition at_out (o : out) (i : nat) : bool :=
    match nth_error tx i with Some o' => out_eqb o' o | None => false end.
  Definition taken (d : dups) (o : out) : nat := length (filter (at_out o) (map snd d)).
  Definition cnt (l : list out) (o : out) : nat := count_occ out_eq_dec l o.

  Lemma locate_fresh : forall h d i, In h all -> h_on h = true -> d_from tx all d ->
    locate h tx d 0 = Some i -> ~ In i (map snd d) /\ nth_error tx i = Some (out_of h).
  Proof.
    intros h d i Hh Hon F L. apply locate_some in L. destruct L as (_ & Hnth & Hdup).
    rewrite Nat.sub_0_r in Hnth. split; [|exact Hnth].
    intro Hin. apply in_map_iff in Hin. destruct Hin as ([hash i'] & E & Hin). cbn in E. subst i'.
    destruct (F _ _ Hin) as (g & Hg & Hgon & Hgh & Hgn).
    rewrite Hnth in Hgn. inversion Hgn as [[Hs Hp Hc]].
    assert (h_hash h = hash) by (rewrite <- Hgh; apply pk_hash_all; auto).
    subst hash. apply dup_elem_in in Hin. congruence.
  Qed.

  Lemma populate_list_ok : forall hs d, incl hs all -> d_from tx all d -> NoDup (map snd d) ->
    (forall o, cnt (htlc_outs hs) o + taken d o <= cnt tx o) ->
    exists l d', populate_list tx hs d = Some (l, d') /\ NoDup (map snd d').
  Proof.
    induction hs as [|h r IH]; intros d I F N C; cbn.
    - exists [], d. split; [reflexivity|exact N].
    - assert (Ir : incl r all) by (intros x Hx; apply I; right; exact Hx).
      assert (Hh : In h all) by (apply I; left; reflexivity).
      destruct (h_on h) eqn:On.
      + destruct (locate h tx d 0) as [i|] eqn:L.
        * destruct (locate_fresh h d i Hh On F L) as [Fr Hnth].
          destruct (IH ((h_hash h, i) :: d)) as (l & d' & P & N'); auto.
          { intros hash j [E|Hin]; [|apply F, Hin]. inversion E; subst.
            exists h. repeat split; auto. }
          { cbn. constructor; assumption. }
          { intro o. specialize (C o). unfold htlc_outs in C. cbn [filter] in C. rewrite On in C.
            cbn [map] in C. unfold cnt in *. cbn [count_occ] in C.
            unfold taken in *. cbn [map snd filter]. unfold at_out at 1. rewrite Hnth.
            destruct (out_eq_dec (out_of h) o) as [E|E].
            - rewrite (proj2 (out_eqb_eq _ _) E). cbn [length]. unfold htlc_outs. lia.
            - destruct (out_eqb (out_of h) o) eqn:E'; [apply out_eqb_eq in E'; contradiction|].
              unfold htlc_outs. lia. }
          exists ((h, Some i) :: l), d'. rewrite P. split; [reflexivity|exact N'].
        * exfalso. specialize (C (out_of h)).
          unfold htlc_outs in C. cbn [filter] in C. rewrite On in C. cbn [map] in C.
          unfold cnt in C. cbn [count_occ] in C.
          destruct (out_eq_dec (out_of h) (out_of h)) as [_|Ne]; [|apply Ne; reflexivity].
          rewrite <- (positions_length (out_of h) tx 0) in C.
          assert (Inc : incl (positions (out_of h) tx 0) (filter (at_out (out_of h)) (map snd d))).
          { intros j Hj. apply positions_in in Hj. destruct Hj as [_ Hj]. rewrite Nat.sub_0_r in Hj.
            apply filter_In. split.
            - pose proof (locate_none h tx d 0 L j Hj) as D. cbn in D. apply dup_elem_in in D.
              apply in_map_iff. exists (h_hash h, j). split; [reflexivity|exact D].
            - unfold at_out. rewrite Hj. apply out_eqb_eq. reflexivity. }
          apply NoDup_incl_length in Inc; [|apply positions_nodup]. unfold taken in C. lia.
      + destruct (IH d) as (l & d' & P & N'); auto.
        { intro o. specialize (C o). unfold htlc_outs in C. cbn [filter] in C. rewrite On in C. exact C. }
        exists ((h, None) :: l), d'. rewrite P. split; [reflexivity|exact N'].
  Qed.
End Located.

Lemma htlc_outs_app : forall a b, htlc_outs (a ++ b) = htlc_outs a ++ htlc_outs b.
Proof. intros. unfold htlc_outs. rewrite filter_app, map_app. reflexivity. Qed.

Lemma idxs_app : forall a b, idxs (a ++ b) = idxs a ++ idxs b.
Proof. intros. unfold idxs. apply flat_map_app. Qed.

Lemma on_tx_app : forall a b h, on_tx (a ++ b) h <-> on_tx a h \/ on_tx b h.
Proof.
  intros a b h. unfold on_tx. rewrite in_app_iff. tauto.
Qed.

(* Both slices are located, on the transaction both parties build, at
   pairwise distinct outputs that carry exactly the HTLC's (value, script,
   cltv); the result does not depend on which slice is walked first. *)
Lemma views_agree : forall base so vo, pk_facts so vo ->
  exists lo li,
    signer_view base so vo = Some (lo, li) /\
    verifier_view base so vo = Some (li, lo) /\
    map fst lo = so /\ map fst li = vo /\
    length (idxs lo) = n_on so /\ length (idxs li) = n_on vo /\
    (forall h oi, In (h, oi) (lo ++ li) -> (oi = None <-> h_on h = false)) /\
    (forall h i, In (h, Some i) (lo ++ li) ->
       nth_error (signer_tx base so vo) i = Some (out_of h)) /\
    NoDup (idxs lo ++ idxs li).
Proof.
  intros base so vo [Hhash Hdir].
  set (tx := signer_tx base so vo).
  assert (Hall : forall a b, In a (so ++ vo) -> h_on a = true -> In b (so ++ vo) -> h_on b = true ->
            h_pk a = h_pk b -> h_hash a = h_hash b).
  { intros a b Ha Oa Hb Ob. apply Hhash; split; assumption. }
  destruct (populate_list_ok tx (so ++ vo) Hall (so ++ vo) []) as (l & d' & P & N).
  - apply incl_refl.
  - intros ? ? [].
  - constructor.
  - intro o. unfold taken. cbn. rewrite Nat.add_0_r. unfold cnt, tx, signer_tx, build_tx.
    rewrite <- (proj1 (Permutation_count_occ out_eq_dec _ _) (commit_sort_perm _) o).
    rewrite htlc_outs_app, !count_occ_app. lia.
  - rewrite populate_list_app in P.
    destruct (populate_list tx so []) as [[lo d1]|] eqn:Pso; [|discriminate].
    destruct (populate_list tx vo d1) as [[li d2]|] eqn:Pvo; [|discriminate].
    inversion P; subst l d2. clear P.
    destruct (populate_list_dups _ _ _ _ _ Pso) as (dn1 & E1 & _ & M1 & F1 & L1 & O1 & I1).
    destruct (populate_list_dups _ _ _ _ _ Pvo) as (dn2 & E2 & _ & M2 & F2 & L2 & O2 & I2).
    exists lo, li.
    assert (SV : signer_view base so vo = Some (lo, li)).
    { unfold signer_view, populate. fold tx. rewrite Pso, Pvo. reflexivity. }
    split; [exact SV|].
    assert (Pvo0 : exists dv, populate_list tx vo [] = Some (li, dv)).
    { unfold signer_view in SV. fold tx in SV.
      rewrite (populate_indep tx so vo) in SV by exact Hdir. rewrite Pso in SV.
      destruct (populate_list tx vo []) as [[li' dv]|]; [|discriminate].
      inversion SV; subst. exists dv. reflexivity. }
    destruct Pvo0 as (dv & Pvo0).
    split.
    { unfold verifier_view, verifier_tx. rewrite build_tx_swap. fold (signer_tx base so vo). fold tx.
      rewrite (populate_indep tx vo so).
      - rewrite Pvo0, Pso. reflexivity.
      - intros x y Hx Hy E. apply (Hdir y x Hy Hx). symmetry. exact E. }
    split; [exact F1|]. split; [exact F2|]. split; [exact L1|]. split; [exact L2|]. split.
    { intros h oi Hin. apply in_app_or in Hin. destruct Hin; [apply O1|apply O2]; assumption. }
    split.
    { intros h i Hin. apply in_app_or in Hin. destruct Hin; [apply I1|apply I2]; assumption. }
    subst d1 d'. rewrite app_nil_r in *. rewrite map_app, M1, M2, <- rev_app_distr in N.
    apply NoDup_rev in N. rewrite rev_involutive in N. exact N.
Qed.

(* ====================================================================== *)
(* E. the order of the signatures                                          *)
(* ====================================================================== *)
Definition slot_le (a b : slot) : Prop := slot_index a <= slot_index b.

Lemma slot_insert_perm : forall x l, Permutation (x :: l) (slot_insert x l).
Proof.
  induction l as [|y r IH]; cbn; [apply Permutation_refl|].
  destruct (slot_index x <=? slot_index y); [apply Permutation_refl|].
  eapply perm_trans; [apply perm_swap|]. apply perm_skip, IH.
Qed.

Lemma slot_sort_perm : forall l, Permutation l (slot_sort l).
Proof.
  induction l as [|x r IH]; cbn; [constructor|].
  eapply perm_trans; [apply perm_skip, IH|]. apply slot_insert_perm.
Qed.

Lemma slot_insert_sorted : forall x l,
  StronglySorted slot_le l -> StronglySorted slot_le (slot_insert x l).
Proof.
  induction l as [|y r IH]; intro S; cbn.
  - constructor; constructor.
  - inversion S as [|? ? S' F]; subst.
    destruct (slot_index x <=? slot_index y) eqn:L.
    + apply Nat.leb_le in L. constructor; [exact S|]. constructor; [exact L|].
      rewrite Forall_forall in *. intros z Hz. specialize (F z Hz). unfold slot_le in *. lia.
    + apply Nat.leb_gt in L. constructor; [apply IH, S'|].
      rewrite Forall_forall in *. intros z Hz.
      apply (Permutation_in _ (Permutation_sym (slot_insert_perm x r))) in Hz.
      destruct Hz as [<-|Hz]; [unfold slot_le; lia|apply F, Hz].
Qed.

Lemma slot_sort_sorted : forall l, StronglySorted slot_le (slot_sort l).
Proof.
  induction l as [|x r IH]; cbn; [constructor|]. apply slot_insert_sorted, IH.
Qed.

Lemma jobs_index : forall b l, map slot_index (jobs_of b l) = idxs l.
Proof.
  intros b. induction l as [|[h [i|]] r IH]; cbn; [reflexivity| |exact IH].
  f_equal. exact IH.
Qed.

Lemma jobs_in : forall b l s, In s (jobs_of b l) <->
  exists h i, In (h, Some i) l /\ s = (i, b, h_idx h).
Proof.
  intros b l s. unfold jobs_of. rewrite in_flat_map. split.
  - intros ([h [i|]] & Hin & Hs); cbn in Hs; [|contradiction].
    destruct Hs as [<-|[]]. exists h, i. split; [exact Hin|reflexivity].
  - intros (h & i & Hin & ->). exists (h, Some i). split; [exact Hin|left; reflexivity].
Qed.

Lemma nodup_map_inj : forall (A B : Type) (f : A -> B) (l : list A) a b,
  NoDup (map f l) -> In a l -> In b l -> f a = f b -> a = b.
Proof.
  intros A B f. induction l as [|x r IH]; intros a b N Ha Hb E; [contradiction|].
  cbn in N. inversion N as [|? ? Nx Nr]; subst.
  destruct Ha as [->|Ha]; destruct Hb as [->|Hb]; auto.
  - exfalso. apply Nx. rewrite E. apply in_map, Hb.
  - exfalso. apply Nx. rewrite <- E. apply in_map, Ha.
Qed.

Lemma nodup_app_disj : forall (A : Type) (a b : list A) x,
  NoDup (a ++ b) -> In x a -> In x b -> False.
Proof.
  intros A. induction a as [|y r IH]; intros b x N Ha Hb; [contradiction|].
  cbn in N. inversion N as [|? ? Ny Nr]; subst. destruct Ha as [->|Ha].
  - apply Ny, in_or_app. right. exact Hb.
  - eapply IH; eauto.
Qed.

Lemma nodup_app_split : forall (A : Type) (a b : list A), NoDup (a ++ b) -> NoDup a /\ NoDup b.
Proof.
  intros A. induction a as [|y r IH]; intros b N; cbn in N.
  - split; [constructor|exact N].
  - inversion N as [|? ? Ny Nr]; subst. destruct (IH _ Nr) as [Na Nb]. split; [|exact Nb].
    constructor; [|exact Na]. intro H. apply Ny, in_or_app. left. exact H.
Qed.

Lemma idxs_in : forall l h i, In (h, Some i) l -> In i (idxs l).
Proof.
  intros l h i H. unfold idxs. apply in_flat_map. exists (h, Some i). split; [exact H|left; reflexivity].
Qed.

Lemma idxs_unique : forall l h h' i, NoDup (idxs l) ->
  In (h, Some i) l -> In (h', Some i) l -> h = h'.
Proof.
  induction l as [|[g [j|]] r IH]; intros h h' i N H1 H2; [contradiction| |].
  - cbn in N. inversion N as [|? ? Nj Nr]; subst.
    destruct H1 as [E1|H1]; destruct H2 as [E2|H2].
    + congruence.
    + inversion E1; subst. exfalso. apply Nj. eapply idxs_in, H2.
    + inversion E2; subst. exfalso. apply Nj. eapply idxs_in, H1.
    + eapply IH; eauto.
  - cbn in N. destruct H1 as [E1|H1]; [discriminate|]. destruct H2 as [E2|H2]; [discriminate|].
    eapply IH; eauto.
Qed.

Lemma index_lookup_some : forall l i h, index_lookup l i = Some h -> In (h, Some i) l.
Proof.
  intros l i h. unfold index_lookup.
  destruct (find _ (rev l)) as [[g [j|]]|] eqn:F; try discriminate.
  - intro E. inversion E; subst. apply find_some in F. destruct F as [Hin Hj]. cbn in Hj.
    apply Nat.eqb_eq in Hj. subst. apply in_rev. exact Hin.
  - apply find_some in F. destruct F as [_ Hj]. cbn in Hj. discriminate.
Qed.

Lemma index_lookup_none : forall l i, index_lookup l i = None -> forall h, ~ In (h, Some i) l.
Proof.
  intros l i. unfold index_lookup.
  destruct (find _ (rev l)) as [p|] eqn:F; [discriminate|].
  intros _ h Hin. apply in_rev in Hin. pose proof (find_none _ _ F _ Hin) as E. cbn in E.
  rewrite Nat.eqb_refl in E. discriminate.
Qed.

Lemma flat_seq_sorted : forall (f : nat -> list slot) n a,
  (forall i s, In s (f i) -> slot_index s = i) -> (forall i, length (f i) <= 1) ->
  StronglySorted slot_le (flat_map f (seq a n)) /\ NoDup (flat_map f (seq a n)) /\
  (forall s, In s (flat_map f (seq a n)) -> a <= slot_index s).
Proof.
  intros f. induction n as [|n IH]; intros a Hk Hl; cbn.
  - split; [constructor|]. split; [constructor|]. intros s [].
  - destruct (IH (S a) Hk Hl) as (S & N & B). pose proof (Hl a) as La. pose proof (Hk a) as Ka.
    destruct (f a) as [|s [|s' t]]; cbn in *; try lia.
    + split; [exact S|]. split; [exact N|]. intros s Hs. apply B in Hs. lia.
    + assert (E : slot_index s = a) by (apply Ka; left; reflexivity).
      split.
      { constructor; [exact S|]. apply Forall_forall. intros z Hz. apply B in Hz. unfold slot_le. lia. }
      split.
      { constructor; [|exact N]. intro Hin. apply B in Hin. lia. }
      intros z [<-|Hz]; [lia|]. apply B in Hz. lia.
Qed.

Lemma sigs_agree : forall n lo li,
  NoDup (idxs lo ++ idxs li) -> (forall i, In i (idxs lo ++ idxs li) -> i < n) ->
  slot_sort (jobs_of false li ++ jobs_of true lo) = verifier_slots n li lo.
Proof.
  intros n lo li N B.
  set (J := jobs_of false li ++ jobs_of true lo).
  set (f := fun i => match index_lookup lo i with
                     | Some h => [(i, true, h_idx h)]
                     | None => match index_lookup li i with
                               | Some h => [(i, false, h_idx h)]
                               | None => []
                               end
                     end).
  destruct (nodup_app_split _ _ _ N) as [Nlo Nli].
  assert (NJk : NoDup (map slot_index J)).
  { unfold J. rewrite map_app, !jobs_index.
    eapply Permutation_NoDup; [apply Permutation_app_comm|exact N]. }
  assert (Hk : forall i s, In s (f i) -> slot_index s = i).
  { intros i s. unfold f. destruct (index_lookup lo i); [intros [<-|[]]; reflexivity|].
    destruct (index_lookup li i); [intros [<-|[]]; reflexivity|intros []]. }
  assert (Hl : forall i, length (f i) <= 1).
  { intro i. unfold f. destruct (index_lookup lo i); [cbn; lia|].
    destruct (index_lookup li i); cbn; lia. }
  destruct (flat_seq_sorted f n 0 Hk Hl) as (SV & NV & _).
  change (flat_map f (seq 0 n)) with (verifier_slots n li lo) in SV, NV.
  apply sorted_perm_eq with (le := slot_le).
  - intros a b Ha Hb L1 L2.
    apply (Permutation_in _ (Permutation_sym (slot_sort_perm J))) in Ha, Hb.
    apply (nodup_map_inj _ _ slot_index J); auto. unfold slot_le in *. lia.
  - eapply perm_trans; [apply Permutation_sym, slot_sort_perm|].
    apply NoDup_Permutation; [eapply NoDup_map_inv, NJk|exact NV|].
    intro s. unfold verifier_slots. fold f. rewrite in_flat_map. unfold J. rewrite in_app_iff, !jobs_in.
    split.
    + intros [(h & i & Hin & ->)|(h & i & Hin & ->)].
      * assert (Ii : In i (idxs li)) by (eapply idxs_in, Hin).
        exists i. split; [apply in_seq; split; [lia|]; cbn; apply B, in_or_app; right; exact Ii|].
        unfold f. destruct (index_lookup lo i) as [h'|] eqn:E1.
        { exfalso. apply index_lookup_some in E1. eapply (nodup_app_disj _ _ _ i N); [eapply idxs_in, E1|exact Ii]. }
        destruct (index_lookup li i) as [h'|] eqn:E2.
        { apply index_lookup_some in E2. rewrite (idxs_unique li h h' i Nli Hin E2). left; reflexivity. }
        { exfalso. eapply index_lookup_none; eauto. }
      * assert (Ii : In i (idxs lo)) by (eapply idxs_in, Hin).
        exists i. split; [apply in_seq; split; [lia|]; cbn; apply B, in_or_app; left; exact Ii|].
        unfold f. destruct (index_lookup lo i) as [h'|] eqn:E1.
        { apply index_lookup_some in E1. rewrite (idxs_unique lo h h' i Nlo Hin E1). left; reflexivity. }
        { exfalso. eapply index_lookup_none; eauto. }
    + intros (i & _ & Hs). unfold f in Hs.
      destruct (index_lookup lo i) as [h|] eqn:E1.
      { destruct Hs as [<-|[]]. right. exists h, i. split; [apply index_lookup_some, E1|reflexivity]. }
      destruct (index_lookup li i) as [h|] eqn:E2; [|contradiction].
      destruct Hs as [<-|[]]. left. exists h, i. split; [apply index_lookup_some, E2|reflexivity].
  - apply slot_sort_sorted.
  - exact SV.
Qed.

Lemma pk_factsb_sound : forall so vo, pk_factsb so vo = true -> pk_facts so vo.
Proof.
  intros so vo H. unfold pk_factsb in H. apply andb_true_iff in H. destruct H as [H1 H2].
  rewrite forallb_forall in H1, H2. split.
  - intros a b [Ha Oa] [Hb Ob] E.
    assert (Fa : In a (filter h_on (so ++ vo))) by (apply filter_In; auto).
    assert (Fb : In b (filter h_on (so ++ vo))) by (apply filter_In; auto).
    specialize (H1 a Fa). rewrite forallb_forall in H1. specialize (H1 b Fb).
    rewrite (proj2 (bytes_eqb_eq _ _) E) in H1. apply N.eqb_eq, H1.
  - intros a b [Ha Oa] [Hb Ob] E.
    assert (Fa : In a (filter h_on so)) by (apply filter_In; auto).
    assert (Fb : In b (filter h_on vo)) by (apply filter_In; auto).
    specialize (H2 a Fa). rewrite forallb_forall in H2. specialize (H2 b Fb).
    rewrite (proj2 (bytes_eqb_eq _ _) E) in H2. discriminate.
Qed.

(* ====================================================================== *)
(* the property                                                            *)
(* ====================================================================== *)
(* For every set of commitment outputs and every two lists of HTLCs (any
   amounts, hashes, expiries, duplicates, dust flags): signer and verifier
   build the same transaction, populateHtlcIndexes succeeds on both sides and
   assigns every non-dust HTLC the same output on both sides — an output that
   carries exactly this HTLC's (value, script, cltv), distinct HTLCs distinct
   outputs — and the list of signature slots (output index, direction, HTLC
   index) in the order the signer SENDS the signatures is the list in the
   order the verifier CONSUMES them; there is exactly one slot per non-dust
   HTLC. *)
Lemma htlc_sig_index : forall base so vo, pk_facts so vo ->
  verifier_tx base so vo = signer_tx base so vo /\
  exists lo li sigs,
    signer_view base so vo = Some (lo, li) /\
    verifier_view base so vo = Some (li, lo) /\
    map fst lo = so /\ map fst li = vo /\
    (forall h oi, In (h, oi) (lo ++ li) -> (oi = None <-> h_on h = false)) /\
    (forall h i, In (h, Some i) (lo ++ li) ->
       nth_error (signer_tx base so vo) i = Some (out_of h)) /\
    NoDup (idxs lo ++ idxs li) /\
    signer_sigs base so vo = Some sigs /\
    verifier_sigs base so vo = Some sigs /\
    length sigs = n_on so + n_on vo /\
    (forall s, In s sigs <->
       (exists h i, In (h, Some i) lo /\ s = (i, true, h_idx h)) \/
       (exists h i, In (h, Some i) li /\ s = (i, false, h_idx h))).
Proof.
  intros base so vo PK.
  assert (TX : verifier_tx base so vo = signer_tx base so vo)
    by (unfold verifier_tx, signer_tx; apply build_tx_swap).
  split; [exact TX|].
  destruct (views_agree base so vo PK) as (lo & li & SV & VV & F1 & F2 & L1 & L2 & O & I & N).
  set (sigs := slot_sort (jobs_of false li ++ jobs_of true lo)).
  exists lo, li, sigs.
  assert (SS : signer_sigs base so vo = Some sigs) by (unfold signer_sigs; rewrite SV; reflexivity).
  assert (B : forall i, In i (idxs lo ++ idxs li) -> i < length (signer_tx base so vo)).
  { intros i Hi. assert (exists h, In (h, Some i) (lo ++ li)) as (h & Hin).
    { rewrite <- idxs_app in Hi. unfold idxs in Hi. apply in_flat_map in Hi.
      destruct Hi as ([h [j|]] & Hin & Hj); cbn in Hj; [|contradiction].
      destruct Hj as [<-|[]]. exists h. exact Hin. }
    apply I in Hin. apply nth_error_Some. congruence. }
  assert (VS : verifier_sigs base so vo = Some sigs).
  { unfold verifier_sigs. rewrite VV, TX. unfold sigs. f_equal. symmetry. apply sigs_agree; assumption. }
  repeat (split; [assumption|]).
  split.
  - unfold sigs. rewrite <- (Permutation_length (slot_sort_perm _)), app_length.
    rewrite <- (map_length slot_index (jobs_of false li)), <- (map_length slot_index (jobs_of true lo)).
    rewrite !jobs_index. lia.
  - intro s. unfold sigs. split.
    + intro Hs. apply (Permutation_in _ (Permutation_sym (slot_sort_perm _))) in Hs.
      apply in_app_or in Hs. destruct Hs as [Hs|Hs]; apply jobs_in in Hs; [right|left]; exact Hs.
    + intro Hs. apply (Permutation_in _ (slot_sort_perm _)). apply in_or_app.
      destruct Hs as [Hs|Hs]; apply jobs_in in Hs; [right|left]; exact Hs.
Qed.
