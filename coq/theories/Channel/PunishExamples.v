(* Non-vacuity witnesses (vm_compute) for Props_C04 / Props_C05: a concrete
   anchor-channel history with a non-dust HTLC, a dust HTLC, a disconnect that
   loses a revoke_and_ack (retransmitted by the reconnect) and three revoked
   commitments; the hypotheses of the theorems hold on it and the functions
   give non-trivial values. *)
From Coq Require Import List ZArith Bool Arith Lia.
From LV Require Import Channel.Model Channel.Proofs Channel.Resync Channel.Discipline
                       Channel.Punish Channel.PunishProofs.
Import ListNotations.
Local Open Scope Z_scope.

Definition A := true.
Definition B := false.

Definition px_cfg : cfg :=
  mkCfg 1000000 true 1124 172 666 706 330 true
        (mkSide 354 10000) (mkSide 573 10000)
        599340000 400000000 2500.

Definition px_ops : list xop :=
  [ XOp (OSend A (UAdd 50000000 500 11));   (* 50 000 sat: has an output everywhere *)
    XOp (OSend B (UAdd 400000 510 22));     (* 400 sat: dust on both commitments *)
    XOp (ODeliver B); XOp (ODeliver A);
    XOp (OSign A); XOp (ODeliver B); XOp (ORevoke B); XOp (ODeliver A);
    XOp (OSign B); XOp (ODeliver A); XOp (ORevoke A);
    XCut 0 0;             (* A's revoke_and_ack is lost; the reconnect resends it AND re-signs *)
    XOp (ODeliver B); XOp (ODeliver B); XOp (ORevoke B); XOp (ODeliver A) ].

Definition px_w : option wsys :=
  match winit px_cfg with Some w => Some (wrun px_cfg w px_ops) | None => None end.

Example px_cfg_ok : cfg_ok px_cfg.
Proof. unfold cfg_ok, px_cfg; cbn; lia. Qed.

(* the state is reachable, A's revocation log holds B's heights 0 and 1, B's holds
   A's height 0, the histories are one / two entries longer, and the retribution
   of B's revoked height 1 claims A's to_remote, B's to_local and the HTLC A offered *)
Example px_history :
  exists w, px_w = Some w /\ wreachable px_cfg w /\
    length (held (wg w) A) = 2%nat /\ length (held (wg w) B) = 3%nat /\
    map (fun k => retribution px_cfg k A) (revlog (wg w) A)
      = [ [(KToRemote, 596530); (KToLocal, 400000)];
          [(KToRemote, 546100); (KToLocal, 400000); (KHtlcOffered, 50000)] ] /\
    map (fun k => retribution px_cfg k B) (revlog (wg w) B)
      = [ [(KToRemote, 400000); (KToLocal, 596530)] ].
Proof.
  destruct (winit px_cfg) as [w0|] eqn:H0; [|vm_compute in H0; discriminate].
  exists (wrun px_cfg w0 px_ops). split; [unfold px_w; rewrite H0; reflexivity|].
  split; [exists w0, px_ops; split; [exact H0|reflexivity]|].
  vm_compute in H0. inversion H0; subst w0; clear H0.
  vm_compute. repeat split.
Qed.

(* every reconnect of the schedule succeeded and every step was enabled *)
Example px_all_ok :
  exists x0, xinit px_cfg = Some x0 /\ xall_ok px_cfg x0 px_ops = true /\
             xall_disc px_cfg x0 px_ops = true.
Proof.
  destruct (xinit px_cfg) as [x0|] eqn:H0; [|vm_compute in H0; discriminate].
  exists x0. split; [reflexivity|]. vm_compute in H0. inversion H0; subst x0; clear H0.
  vm_compute. split; reflexivity.
Qed.

(* C05 on A's commitments of the final state: A's own height-1 commitment (the
   400-sat HTLC of B is live but has no output: B's main output is 399 600) and
   B's height-2 commitment as A sees it. *)
Example px_resolutions :
  exists w, px_w = Some w /\
    map (fun k => (c_h k, c_owner k, resolutions px_cfg k A, claimable px_cfg k A,
                   claimable px_cfg k B, c_outs k, c_nout k, dust_loss_msat px_cfg k B))
        (commits_of (get (xs (wx w)) A))
    = [ (1, true,
         [mkRes RCommit 546100 546100; mkRes RHtlcTimeout 50000 48335],
         596100, 449600, 996360, 5, 400000);
        (2, false,
         [mkRes RCommit 546100 546100; mkRes RHtlcTimeout 50000 50000],
         596100, 449600, 996360, 5, 400000) ].
Proof.
  destruct (winit px_cfg) as [w0|] eqn:H0; [|vm_compute in H0; discriminate].
  exists (wrun px_cfg w0 px_ops). split; [unfold px_w; rewrite H0; reflexivity|].
  vm_compute in H0. inversion H0; subst w0; clear H0.
  vm_compute. reflexivity.
Qed.
