(* C01view - restart, part 2: the persisted-data invariant PInv (ViewRestore.v) holds in every
   reachable state of the incremental machine, hence restore_corrx applies to every reachable state.
   U1  HL / PList / CInv only read prefixes of the logs; shapes of log entries.
   U2  the HTLC lists a commitment view persists (live_of) satisfy HL.
   U3  persisted lists of log updates cut out of a log (toLogUpdate of a filter) satisfy PList.
   U4  PInvS through update creation / delivery.   U5  ... through SignNextCommitment.
   U6  ... through ReceiveNewCommitment.   U7  ... through RevokeCurrentCommitment / ReceiveRevocation.
   U8  ... through a restart.   U9  initially; Sim2 = Sim + PInvS is an invariant of every schedule;
   restore_reachable. *)
From Coq Require Import List ZArith NArith Bool Arith Lia Permutation.
From LV Require Import Channel.Model Channel.Resync Channel.Proofs Channel.View Channel.ViewProofs
     Channel.ViewRefine Channel.ViewSim Channel.ViewRestore.
Import ListNotations.

(* ---------- U1: the persisted-data invariant only reads prefixes ---------- *)
Lemma nth_prefix {A} (L L' : list A) n i : firstn n L' = firstn n L -> i < n -> nth_error L' i = nth_error L i.
Proof. intros E LT. rewrite <- (nth_firstn L' n i LT), <- (nth_firstn L n i LT), E. reflexivity. Qed.
Lemma firstn_prefix_le {A} (L L' : list A) n i : firstn n L' = firstn n L -> i <= n -> firstn i L' = firstn i L.
Proof. intros E LE. rewrite <- (firstn_firstn_le L' i n LE), <- (firstn_firstn_le L i n LE), E. reflexivity. Qed.

Lemma corr_add_prefix L L' Lo Lo' e n : firstn n L' = firstn n L -> idx e < n -> is_add e = true ->
  corr_entry L Lo e -> corr_entry L' Lo' e.
Proof.
  intros E LT A C. destruct (corr_add_nth _ _ _ C A) as [a [ex [h [NE HH]]]].
  unfold corr_entry in *. rewrite (nth_prefix L L' n _ E LT), (firstn_prefix_le L L' n _ E) by lia.
  rewrite NE in *. exact C.
Qed.

Lemma HL_ext L L' Lo Lo' nX nY l :
  firstn nX L' = firstn nX L -> firstn nY Lo' = firstn nY Lo -> HL L Lo nX nY l -> HL L' Lo' nX nY l.
Proof.
  intros EX EY [A B C]. split.
  - exact A.
  - intros e IN. destruct (B e IN) as [AE [H0 [CE [LT NN]]]].
    split; [exact AE|]. split; [exact H0|]. split; [eapply corr_add_prefix; eauto|]. split; [exact LT|].
    unfold not_named in *. rewrite EY, (firstn_prefix_le L L' nX _ EX) by lia. exact NN.
  - intros i a ex h LT NE NN. apply (C i a ex h LT).
    + rewrite <- (nth_prefix L L' nX i EX LT). exact NE.
    + unfold not_named in *. rewrite EY, (firstn_prefix_le L L' nX _ EX) in NN by lia. exact NN.
Qed.

Lemma upd_lmsg_prefix L L' n i m : firstn n L' = firstn n L -> i < n -> upd_lmsg L i m -> upd_lmsg L' i m.
Proof.
  intros E LT U. unfold upd_lmsg in *. rewrite (nth_prefix L L' n i E LT), (firstn_prefix_le L L' n i E) by lia. exact U.
Qed.

Lemma PList_ext L L' us lo hi all : firstn hi L' = firstn hi L -> PList L us lo hi all -> PList L' us lo hi all.
Proof.
  intros E [A B C D]. split; auto.
  - intros u IN. destruct (B u IN) as [B1 [B2 B3]]. split; [exact B1|]. split; [exact B2|]. eapply upd_lmsg_prefix; eauto.
  - intros i H1 H2 H3. apply (C i H1 H2). destruct H3 as [H3|H3]; [now left|right].
    intros a e h NE. apply (H3 a e h). rewrite (nth_prefix L L' hi i E H2). exact NE.
Qed.

Lemma CInv_ext p x x' k :
  firstn (n_of p (vk k)) (own x') = firstn (n_of p (vk k)) (own x) ->
  firstn (n_of (negb p) (vk k)) (peer x') = firstn (n_of (negb p) (vk k)) (peer x) ->
  CInv p x k -> CInv p x' k.
Proof.
  intros EO EP [A B C D E]. split.
  - eapply HL_ext; eauto.
  - eapply HL_ext; eauto.
  - rewrite C, EO. reflexivity.
  - rewrite D, EP. reflexivity.
  - exact E.
Qed.

(* shapes of log entries: Adds never carry remove heights, settles / fails never add heights *)
Definition shape (e : entry) : Prop :=
  (is_add e = true -> e_rmL e = 0%N /\ e_rmR e = 0%N) /\
  (is_remove e = true -> e_addL e = 0%N /\ e_addR e = 0%N).

Lemma shape_new t a b c0 d e f : shape (new_entry t a b c0 d e f).
Proof. split; intros _; split; reflexivity. Qed.
Lemma shape_sch w h e : shape e -> shape (setCommitHeight w h e).
Proof.
  unfold shape, is_add, is_remove, setCommitHeight, set_add_h, set_rm_h. intros [A B].
  destruct (e_type e) eqn:T, w; cbn; rewrite ?T; split; intros X; try discriminate; auto.
Qed.
Lemma shape_markfn w h i e : shape e -> shape (markfn w h i e).
Proof. unfold markfn. destruct (_ && _); [apply shape_sch|auto]. Qed.
Lemma shape_set_amt a e : shape e -> shape (set_amt a e).
Proof. unfold shape, is_add, is_remove, set_amt. cbn. auto. Qed.
Lemma shape_set_add_h w h e : is_add e = true -> shape e -> shape (set_add_h w h e).
Proof.
  unfold shape, is_add, is_remove, set_add_h. intros A [S1 S2]. destruct w; cbn; split; intros X; auto;
    destruct (e_type e); discriminate.
Qed.

(* ---------- U2: the HTLC lists stored with a new commitment ---------- *)
Lemma eval_removes_skip ll lr w party : forall res skip d sk' d',
  eval_removes ll lr w party res skip d = Some (sk', d') -> sk' = rev (map e_parent res) ++ skip.
Proof.
  induction res as [|e r IH]; intros skip d sk' d' H; cbn in H.
  - injection H as <- _. reflexivity.
  - destruct (fetchParent ll lr e w (negb party)) as [a|] eqn:F; [|discriminate].
    destruct (fetchParent_spec _ _ _ _ _ _ F) as [_ [_ [EH _]]].
    apply IH in H. rewrite H. cbn [map rev]. rewrite <- app_assoc, EH. reflexivity.
Qed.

Lemma evaluate_lives ll lr vo vt w il rate0 rate lo lt d :
  evaluateHTLCView ll lr vo vt w il rate0 = Some (rate, lo, lt, d) ->
  lo = live_of (rev (map e_parent (filter is_remove vt))) vo /\
  lt = live_of (rev (map e_parent (filter is_remove vo))) vt.
Proof.
  unfold evaluateHTLCView.
  destruct (eval_removes ll lr w true (filter is_remove vo) [] (0, 0)%Z) as [[sR d1]|] eqn:E1; [|discriminate].
  destruct (eval_removes ll lr w false (filter is_remove vt) [] d1) as [[sL d2]|] eqn:E2; [|discriminate].
  intros H. injection H as _ <- <- _.
  apply eval_removes_skip in E1, E2. rewrite app_nil_r in E1, E2. subst. auto.
Qed.

Section Live.
Variables (LX LY : list upd) (UX UY : ulog) (FX FY : nat).
Hypothesis LCX : LogCorr LX LY UX FX FY.
Hypothesis LCY : LogCorr LY LX UY FY FX.
Variables (nX nY : nat).
Hypothesis HX : nX <= length LX.
Hypothesis HY : FY <= nY /\ nY <= length LY.

Let sk := rev (map e_parent (filter is_remove (fetchHTLCView1 UY (N.of_nat nY)))).

Lemma live_char e : In e (live_of sk (fetchHTLCView1 UX (N.of_nat nX))) <->
  In e (l_list UX) /\ idx e < nX /\ is_add e = true /\ not_named LY nY (nadds (firstn (idx e) LX)).
Proof.
  assert (LIVE : In e (live_of sk (fetchHTLCView1 UX (N.of_nat nX))) <->
                 In e (l_list UX) /\ idx e < nX /\ is_add e = true /\ ~ In (e_htlc e) sk).
  { unfold live_of. rewrite filter_In, view_in, andb_true_iff, negb_true_iff. unfold memN. split.
    - intros [[A B] [C D]]. repeat split; auto. intros IN.
      assert (existsb (N.eqb (e_htlc e)) sk = true); [|congruence].
      apply existsb_exists. exists (e_htlc e). split; [exact IN|apply N.eqb_refl].
    - intros [A [B [C D]]]. repeat split; auto.
      destruct (existsb _ sk) eqn:E; [|reflexivity]. exfalso. apply D.
      apply existsb_exists in E. destruct E as [s [IS ES]]. apply N.eqb_eq in ES. subst s. exact IS. }
  rewrite LIVE. split; intros [IE [LT [AE H]]]; (split; [exact IE|split; [exact LT|split; [exact AE|]]]).
  - destruct (add_entry _ _ _ _ _ LCX e IE AE) as [a [ex [h [NE [_ [_ [_ HH]]]]]]].
    intros INP. apply named_iff in INP. destruct INP as [i' [u [LT' [NE' RM]]]].
    destruct (Nat.lt_ge_cases i' FY) as [LF|GF].
    + destruct (lc_in _ _ _ _ _ LCX e IE) as [_ PR]. apply (present_add _ _ _ _ _ a ex h NE) in PR.
      apply PR. apply named_iff. eauto.
    + destruct (lc_present _ _ _ _ _ LCY i') as [r [IR ER]]; [lia| |].
      { apply (present_nonadd _ _ _ _ _ u NE'); [destruct RM as [->| ->]; reflexivity|exact GF]. }
      apply H. unfold sk. rewrite <- in_rev. apply in_map_iff. exists r.
      pose proof (lc_ent _ _ _ _ _ LCY r IR) as C. unfold corr_entry in C. rewrite ER, NE' in C.
      assert (RR : is_remove r = true /\ e_parent r = e_htlc e).
      { destruct RM as [->| ->].
        - destruct C as [T [P _]]. unfold is_remove. rewrite T, P, HH. auto.
        - destruct C as [[T|T] [P _]]; unfold is_remove; rewrite T, P, HH; auto. }
      split; [apply RR|]. apply filter_In. split; [|apply RR]. apply view_in. split; [exact IR|lia].
  - intros IS. unfold sk in IS. rewrite <- in_rev in IS. apply in_map_iff in IS. destruct IS as [r [EP IR]].
    apply filter_In in IR. destruct IR as [IR RR]. apply view_in in IR. destruct IR as [IR LR].
    destruct (remove_entry _ _ _ _ _ LCY r IR RR) as [j [EJ [NR _]]].
    destruct (add_entry _ _ _ _ _ LCX e IE AE) as [a [ex [h [NE [_ [_ [_ HH]]]]]]].
    apply H. assert (j = nadds (firstn (idx e) LX)) by lia. subst j.
    apply (nth_parent _ (idx r)). rewrite !nth_firstn by exact LR. exact NR.
Qed.

Lemma strip_idx e : idx (strip e) = idx e. Proof. reflexivity. Qed.

Lemma live_HL : HL LX LY nX nY (map strip (live_of sk (fetchHTLCView1 UX (N.of_nat nX)))).
Proof.
  split.
  - rewrite map_map. rewrite (map_ext (fun e => idx (strip e)) idx) by reflexivity.
    assert (ND : NoDup (map idx (l_list UX))) by apply (lc_nodup _ _ _ _ _ LCX).
    unfold live_of, fetchHTLCView1. clear - ND.
    induction (l_list UX) as [|a r IH]; cbn; [constructor|]. cbn in ND. inversion ND as [|? ? NI ND']; subst.
    destruct (e_log a <? N.of_nat nX)%N; cbn; [|auto].
    destruct (is_add a && negb (memN (e_htlc a) sk)); cbn; [|auto]. constructor; [|auto].
    intros IN. apply NI. apply in_map_iff in IN. destruct IN as [z [E IZ]]. apply filter_In in IZ.
    destruct IZ as [IZ _]. apply filter_In in IZ. rewrite <- E. apply in_map. tauto.
  - intros e' IN. apply in_map_iff in IN. destruct IN as [e [<- IE]]. apply live_char in IE.
    destruct IE as [IE [LT [AE NN]]]. split; [exact AE|]. split; [repeat split; reflexivity|].
    split; [|split; [exact LT|exact NN]].
    apply (corr_entry_ext LX LY e); try reflexivity. apply (lc_ent _ _ _ _ _ LCX e IE).
  - intros i a ex h LT NE NN.
    destruct (lc_present _ _ _ _ _ LCX i) as [e [IE EI]]; [lia| |].
    { apply (present_add _ _ _ _ _ a ex h NE). intros IN. apply NN. apply named_iff in IN.
      destruct IN as [i' [u [L' [N' R']]]]. apply named_iff. exists i', u. split; [lia|auto]. }
    exists (strip e). split; [|exact EI]. apply in_map. apply live_char.
    pose proof (lc_ent _ _ _ _ _ LCX e IE) as C. unfold corr_entry in C. rewrite EI, NE in C.
    split; [exact IE|]. split; [lia|]. split; [unfold is_add; destruct C as [T _]; rewrite T; reflexivity|].
    rewrite EI. exact NN.
Qed.
End Live.

(* ---------- U3: persisted lists cut out of a log ---------- *)
Lemma toLogUpdate_lidx e : lidx (toLogUpdate e) = idx e. Proof. reflexivity. Qed.

Lemma toLogUpdate_lmsg L Lo e : corr_entry L Lo e -> upd_lmsg L (idx e) (snd (toLogUpdate e)).
Proof.
  unfold corr_entry, upd_lmsg, toLogUpdate. cbn [snd].
  destruct (nth_error L (idx e)) as [[a ex h|j|j|r]|]; try tauto.
  - intros [T [A [X [H HH]]]]. rewrite T. auto.
  - intros [T [P _]]. rewrite T. exact P.
  - intros [[T|T] [P _]]; rewrite T; exact P.
  - intros [T A]. rewrite T, A. apply Z.div_mul. lia.
Qed.

Lemma toLogUpdate_is_lfee e : is_lfee (toLogUpdate e) = is_fee e.
Proof. unfold is_lfee, is_fee, toLogUpdate. cbn. destruct (e_type e); reflexivity. Qed.
Lemma toLogUpdate_is_ladd e : is_ladd (toLogUpdate e) = is_add e.
Proof. unfold is_ladd, is_add, toLogUpdate. cbn. destruct (e_type e); reflexivity. Qed.

Lemma nodup_map_filter_e (P : entry -> bool) l : NoDup (map idx l) -> NoDup (map idx (filter P l)).
Proof.
  induction l as [|a r IH]; cbn; intros ND; [constructor|]. inversion ND as [|? ? NI ND']; subst.
  destruct (P a); cbn; [constructor|]; auto.
  intros IN. apply NI. apply in_map_iff in IN. destruct IN as [z [E IZ]]. apply filter_In in IZ.
  rewrite <- E. apply in_map. tauto.
Qed.

Lemma lfee_toLogUpdate l : map lidx (filter is_lfee (map toLogUpdate l)) = map idx (filter is_fee l).
Proof.
  induction l as [|a r IH]; [reflexivity|]. cbn [map filter]. rewrite toLogUpdate_is_lfee.
  destruct (is_fee a); cbn [map]; rewrite IH; reflexivity.
Qed.

Lemma plist_of_log L Lo U Ft Fo (P : entry -> bool) lo hi all :
  LogCorr L Lo U Ft Fo -> hi <= length L ->
  (forall e, In e (l_list U) -> P e = true -> lo <= idx e /\ idx e < hi) ->
  (forall e, In e (l_list U) -> lo <= idx e -> idx e < hi -> (all = true \/ is_add e = false) -> P e = true) ->
  (forall i, lo <= i -> i < hi -> (all = true \/ forall a e h, nth_error L i <> Some (UAdd a e h)) ->
             present L Lo Ft Fo i = true) ->
  PList L (map toLogUpdate (filter P (l_list U))) lo hi all.
Proof.
  intros LC HL P1 P2 PR. split.
  - rewrite map_map. rewrite (map_ext (fun e => lidx (toLogUpdate e)) idx) by reflexivity.
    apply nodup_map_filter_e, (lc_nodup _ _ _ _ _ LC).
  - intros u IN. apply in_map_iff in IN. destruct IN as [e [<- IE]]. apply filter_In in IE. destruct IE as [IE PE].
    destruct (P1 e IE PE) as [A B]. rewrite toLogUpdate_lidx. split; [exact A|]. split; [exact B|].
    eapply toLogUpdate_lmsg, (lc_ent _ _ _ _ _ LC), IE.
  - intros i A B C. destruct (lc_present _ _ _ _ _ LC i) as [e [IE EI]]; [lia|apply PR; assumption|].
    exists (toLogUpdate e). split; [|rewrite toLogUpdate_lidx; exact EI].
    apply in_map, filter_In. split; [exact IE|]. apply P2; try lia; auto.
    destruct C as [C|C]; [now left|right].
    pose proof (lc_ent _ _ _ _ _ LC e IE) as CE. unfold corr_entry in CE. rewrite EI in CE. unfold is_add.
    destruct (nth_error L i) as [[a ex h|j|j|r]|] eqn:NE; try tauto.
    + exfalso. eapply C; reflexivity.
    + destruct CE as [T _]. rewrite T. reflexivity.
    + destruct CE as [[T|T] _]; rewrite T; reflexivity.
    + destruct CE as [T _]. rewrite T. reflexivity.
  - rewrite lfee_toLogUpdate, filter_filter_comm. apply inc_map_filter_e, (lc_fee _ _ _ _ _ LC).
Qed.

(* a persisted list filtered from below *)
Lemma plist_filter_ge L us lo lo' hi all :
  lo <= lo' -> PList L us lo hi all ->
  PList L (filter (fun u => negb (fst u <? N.of_nat lo')%N) us) lo' hi all.
Proof.
  intros LE [A B C D].
  assert (KEEP : forall u, negb (fst u <? N.of_nat lo')%N = true <-> lo' <= lidx u).
  { intros u. rewrite negb_true_iff, N.ltb_ge. unfold lidx. lia. }
  split.
  - clear - A. induction us as [|u l IH]; cbn; [constructor|]. cbn in A. inversion A as [|? ? NI ND']; subst.
    destruct (negb _); cbn; [constructor|]; auto.
    intros IN. apply NI. apply in_map_iff in IN. destruct IN as [z [E IZ]]. apply filter_In in IZ.
    rewrite <- E. apply in_map. tauto.
  - intros u IN. apply filter_In in IN. destruct IN as [IN K]. apply KEEP in K. destruct (B u IN) as [B1 [B2 B3]]. auto.
  - intros i H1 H2 H3. destruct (C i) as [u [IU EU]]; [lia|exact H2|exact H3|].
    exists u. split; [|exact EU]. apply filter_In. split; [exact IU|]. apply KEEP. lia.
  - rewrite filter_filter_comm.
    clear - D. induction (filter is_lfee us) as [|u l IH]; cbn; [exact I|]. cbn in D. destruct D as [D1 D2].
    destruct (negb _); cbn; [|auto]. split; [|auto].
    intros z IZ. apply in_map_iff in IZ. destruct IZ as [q [<- IQ]]. apply filter_In in IQ.
    apply D1, in_map, IQ.
Qed.

(* ---------- U4: PInv is kept by update creation / delivery ---------- *)
Record PInvS (p : bool) (x : party) (y : vparty) : Prop := mkPS {
  ps_pi : PInv p x y;
  ps_shl : forall e, In e (l_list (vl y)) -> shape e;
  ps_shr : forall e, In e (l_list (vr y)) -> shape e
}.

Section Grow.
Variables (c : cfg) (p : bool) (x : party) (y : vparty) (Fo Fp : nat).
Hypothesis CX : CorrX c p x y Fo Fp.
Hypothesis PI : PInv p x y.
Let CO := cx_corr _ _ _ _ _ _ CX.

Lemma vcommit_cuts k :
  k = v_ltail y \/ k = v_rtail y \/ v_ltip y = Some k \/ v_rtip y = Some k ->
  In (vk k) (commits_of x).
Proof.
  unfold commits_of. pose proof (co_lt _ _ _ _ _ _ CO) as E1. pose proof (co_rt _ _ _ _ _ _ CO) as E3.
  pose proof (co_lp _ _ _ _ _ _ CO) as E2. pose proof (co_rp _ _ _ _ _ _ CO) as E4.
  intros [->|[->|[H|H]]].
  - left. auto.
  - right. left. auto.
  - rewrite H in E2. cbn in E2. rewrite <- E2. right. right. cbn. now left.
  - rewrite H in E4. cbn in E4. rewrite <- E4. right. right. apply in_or_app. right. now left.
Qed.

Lemma pinv_grow (x' : party) (y' : vparty) :
  lTail x' = lTail x -> lTip x' = lTip x -> rTail x' = rTail x -> rTip x' = rTip x ->
  v_ltail y' = v_ltail y -> v_ltip y' = v_ltip y -> v_rtail y' = v_rtail y -> v_rtip y' = v_rtip y ->
  d_diff y' = d_diff y -> d_unsigned_acked y' = d_unsigned_acked y -> d_remote_unsigned y' = d_remote_unsigned y ->
  (forall k, In k (commits_of x) -> firstn (n_of p k) (own x') = firstn (n_of p k) (own x) /\
                                    firstn (n_of (negb p) k) (peer x') = firstn (n_of (negb p) k) (peer x)) ->
  PInv p x' y'.
Proof.
  intros A1 A2 A3 A4 B1 B2 B3 B4 C1 C2 C3 HF.
  assert (CI : forall k, k = v_ltail y \/ k = v_rtail y \/ v_ltip y = Some k \/ v_rtip y = Some k ->
               CInv p x k -> CInv p x' k).
  { intros k HK. destruct (HF _ (vcommit_cuts k HK)) as [E1 E2]. apply CInv_ext; assumption. }
  destruct PI as [P1 P2 P3 P4 P5 P6 P7 P8].
  split; rewrite ?B1, ?B2, ?B3, ?B4, ?C1, ?C2, ?C3.
  - apply CI; auto.
  - apply CI; auto.
  - intros k H. apply CI; auto.
  - intros k H. apply CI; auto.
  - intros k H. eapply PList_ext; [|apply (P5 k H)]. apply (HF _ (vcommit_cuts k (or_intror (or_intror (or_intror H))))).
  - eapply PList_ext; [|exact P6]. apply (HF _ (vcommit_cuts (v_rtail y) (or_intror (or_introl eq_refl)))).
  - exact P7.
  - eapply PList_ext; [|exact P8]. apply (HF _ (vcommit_cuts (v_ltail y) (or_introl eq_refl))).
Qed.
End Grow.

Lemma append_for_all (P : entry -> Prop) u U pd :
  (forall e, In e (l_list U) -> P e) -> P pd -> (forall a e, P e -> P (set_amt a e)) ->
  forall e, In e (l_list (append_for u U pd)) -> P e.
Proof.
  intros H HP HS e IN. unfold append_for in IN.
  assert (SN : In e (l_list U ++ [pd]) -> P e).
  { intros I2. apply in_app_or in I2. destruct I2 as [I2|[<-|[]]]; auto. }
  destruct u; try (apply SN, IN).
  unfold appendFeeUpdate in IN. destruct (merge_fee_rev (rev (l_list U)) (e_amt pd)) as [l'|] eqn:M.
  - cbn [l_list] in IN. apply in_rev in IN.
    destruct (merge_fee_rev_in _ _ _ M e IN) as [e0 [I0 [->| ->]]]; apply in_rev in I0; auto.
  - apply SN, IN.
Qed.

Lemma entry_for_shape u a b m am hs : shape (entry_for u a b m am hs).
Proof. unfold entry_for. destruct u; try destruct m; apply shape_new. Qed.

Section SendRecv.
Variables (c : cfg) (p : bool) (x : party) (y : vparty) (Fo Fp : nat).
Hypothesis CX : CorrX c p x y Fo Fp.
Hypothesis PS : PInvS p x y.

Lemma send_pinvs u mal y' :
  upd_enabled c p x u = true -> v_send c p y u mal = Some y' ->
  PInvS p (set_own x (append_upd (own x) (committed_bound p x) u)) y'.
Proof.
  intros EN VS.
  destruct (send_shape c p x y Fo Fp CX u mal EN) as [amt [hash [vr' [VS' [E1 _]]]]].
  rewrite VS in VS'. injection VS' as ->.
  split.
  - apply (pinv_grow c p x y Fo Fp CX (ps_pi _ _ _ PS)); try reflexivity.
    intros k IN. destruct (commit_cut_le c p x y Fo Fp CX k IN) as [A [B _]].
    split; [|reflexivity]. cbn [set_own own]. apply append_upd_firstn; assumption.
  - cbn [with_logs vl]. apply append_for_all; [apply PS|apply entry_for_shape|intros; apply shape_set_amt; assumption].
  - cbn [with_logs vr]. rewrite E1. apply PS.
Qed.

Lemma recv_upd_form u y' : v_recv_upd c p y u = Some y' ->
  exists amt hash vl',
    y' = with_logs y vl' (append_for u (vr y) (entry_for u (l_idx (vr y)) (l_htlc (vr y)) false amt hash)) /\
    l_list vl' = l_list (vl y).
Proof.
  unfold v_recv_upd. destruct u as [a e h|i|i|r].
  - intros H. injection H as <-. exists 0%Z, 0%Z, (vl y). auto.
  - destruct (lookupHtlc (vl y) (N.of_nat i)) as [h|] eqn:LK; [|discriminate].
    destruct (memN _ _); [discriminate|]. intros H. injection H as <-.
    exists (e_amt h), (e_hash h), (markHtlcModified (vl y) (N.of_nat i)). split; [|reflexivity].
    unfold lookupHtlc in LK. apply find_some in LK. destruct LK as [_ PK]. apply andb_true_iff in PK.
    destruct PK as [_ EH]. apply N.eqb_eq in EH. rewrite EH. reflexivity.
  - destruct (lookupHtlc (vl y) (N.of_nat i)) as [h|] eqn:LK; [|discriminate].
    destruct (memN _ _); [discriminate|]. intros H. injection H as <-.
    exists (e_amt h), (e_hash h), (markHtlcModified (vl y) (N.of_nat i)). split; [|reflexivity].
    unfold lookupHtlc in LK. apply find_some in LK. destruct LK as [_ PK]. apply andb_true_iff in PK.
    destruct PK as [_ EH]. apply N.eqb_eq in EH. rewrite EH. reflexivity.
  - destruct (Bool.eqb p (opener c)); [discriminate|]. intros H. injection H as <-.
    exists 0%Z, 0%Z, (vl y). auto.
Qed.

Lemma recv_upd_pinvs u y' :
  v_recv_upd c p y u = Some y' ->
  PInvS p (set_peer x (append_upd (peer x) (committed_bound (negb p) x) u)) y'.
Proof.
  intros VS. destruct (recv_upd_form u y' VS) as [amt [hash [vl' [-> E1]]]].
  split.
  - apply (pinv_grow c p x y Fo Fp CX (ps_pi _ _ _ PS)); try reflexivity.
    intros k IN. destruct (commit_cut_le c p x y Fo Fp CX k IN) as [_ [_ [A B]]].
    split; [reflexivity|]. cbn [set_peer peer]. apply append_upd_firstn; assumption.
  - cbn [with_logs vl]. rewrite E1. apply PS.
  - cbn [with_logs vr]. apply append_for_all; [apply PS|apply entry_for_shape|intros; apply shape_set_amt; assumption].
Qed.
End SendRecv.

(* ---------- U5: PInv through SignNextCommitment / ReceiveNewCommitment ---------- *)
Lemma fetch_struct c p y w oi oh ti th k l' r' :
  fetchCommitmentView c p y w oi oh ti th = Some (k, l', r') ->
  v_out k = map strip (live_of (rev (map e_parent (filter is_remove (fetchHTLCView1 (vr y) ti))))
                               (fetchHTLCView1 (vl y) oi)) /\
  v_in k = map strip (live_of (rev (map e_parent (filter is_remove (fetchHTLCView1 (vl y) oi))))
                              (fetchHTLCView1 (vr y) ti)) /\
  v_ourh k = oh /\ v_theirh k = th.
Proof.
  unfold fetchCommitmentView, computeView. cbv zeta.
  destruct (evaluateHTLCView _ _ _ _ _ _ _) as [[[[rate lo] lt] [dl dr]]|] eqn:EV; [|discriminate].
  destruct (_ || _); [discriminate|].
  destruct (finish_commit _ _ _ _ _ _ _ _ _ _) as [k0|]; [|discriminate].
  intros H. injection H as <- _ _. cbn [v_out v_in v_ourh v_theirh].
  destruct (evaluate_lives _ _ _ _ _ _ _ _ _ _ _ EV) as [-> ->]. auto.
Qed.

Lemma mark_log_shape w h i U : (forall e, In e (l_list U) -> shape e) ->
  forall e, In e (l_list (mark_log w h i U)) -> shape e.
Proof.
  intros H e IN. rewrite mark_log_list in IN. apply in_map_iff in IN. destruct IN as [e0 [<- I0]].
  apply shape_markfn, H, I0.
Qed.

(* raw remote heights vs [committed false] *)
Lemma raw_remote e h : shape e -> fee_eq e -> h <> 0%N ->
  (N.eqb (e_addR e) h || N.eqb (e_rmR e) h = true <-> committed false e = h).
Proof.
  intros [S1 S2] FE HN. unfold committed, rm_h, add_h, fee_eq, is_fee, is_add, is_remove in *.
  rewrite orb_true_iff, !N.eqb_eq.
  destruct (e_type e) eqn:T.
  - destruct (S1 eq_refl) as [_ Z]. rewrite Z. split; [intros [H|H]; [exact H|congruence]|auto].
  - destruct (S2 eq_refl) as [_ Z]. rewrite Z. split; [intros [H|H]; [congruence|exact H]|auto].
  - destruct (S2 eq_refl) as [_ Z]. rewrite Z. split; [intros [H|H]; [congruence|exact H]|auto].
  - destruct (S2 eq_refl) as [_ Z]. rewrite Z. split; [intros [H|H]; [congruence|exact H]|auto].
  - destruct (FE eq_refl) as [_ E]. rewrite E. tauto.
Qed.

Section Sign.
Variables (c : cfg) (p : bool) (x : party) (y : vparty) (Fo Fp : nat).
Hypothesis CX : CorrX c p x y Fo Fp.
Hypothesis PS : PInvS p x y.

Lemma sign_pinvs x' m y' :
  do_sign c p x = (Ok, x', Some m) -> v_sign c p y = (Ok, y', Some m) ->
  CorrX c p x' y' Fo Fp -> PInvS p x' y'.
Proof.
  intros DS VS CX'. pose proof (cx_corr _ _ _ _ _ _ CX) as CO. pose proof (cx_corr _ _ _ _ _ _ CX') as CO'.
  destruct (do_sign_ok c p x x' m DS) as [k [RN [CK [-> ->]]]].
  pose proof (idx_chain c p x y Fo Fp CO) as IC. rewrite RN in IC. cbn [tip_of] in IC.
  unfold v_sign in VS. destruct (v_rtip y) eqn:RT; [discriminate|].
  destruct (fetchCommitmentView _ _ _ _ _ _ _ _) as [[[k' l'] r']|] eqn:F; [|discriminate].
  injection VS as <- EM.
  destruct (fetch_struct _ _ _ _ _ _ _ _ _ _ _ F) as [VO [VIN [VOH VTH]]].
  pose proof (fetchCommitmentView_spec _ _ _ _ _ _ _ _ _ _ _ F) as FS. cbn zeta in FS.
  assert (RV : rtipv y = v_rtail y) by (unfold rtipv, vtip; rewrite RT; reflexivity). rewrite RV in FS.
  destruct FS as [HH [I1 [I2 [-> ->]]]].
  pose proof (co_lt _ _ _ _ _ _ CO) as KL. pose proof (co_rt _ _ _ _ _ _ CO) as KR.
  pose proof (co_io _ _ _ _ _ _ CO) as IO.
  set (len := length (own x)) in *. set (lP := n_of (negb p) (lTail x)) in *. set (rO := n_of p (rTail x)) in *.
  assert (NK : n_of p (vk k') = len /\ n_of (negb p) (vk k') = lP).
  { unfold ix, idx_of in I1, I2. rewrite IO in I1. rewrite KL in I2. fold lP in I2. lia. }
  destruct NK as [NK1 NK2].
  pose proof (ps_pi _ _ _ PS) as PI. destruct PI as [P1 P2 P3 P4 P5 P6 P7 P8].
  pose proof (co_fo _ _ _ _ _ _ CO) as FO. pose proof (co_fp _ _ _ _ _ _ CO) as FP.
  split; [split|..]; cbn [set_rTip own peer lTail lTip rTail rTip vl vr v_ltail v_ltip v_rtail v_rtip
                          d_diff d_unsigned_acked d_remote_unsigned].
  - apply (CInv_ext p x); [reflexivity|reflexivity|exact P1].
  - apply (CInv_ext p x); [reflexivity|reflexivity|exact P2].
  - intros k0 H0. apply (CInv_ext p x); [reflexivity|reflexivity|exact (P3 k0 H0)].
  - intros k0 E. injection E as <-. split.
    + rewrite NK1, NK2, VO, IO, KL. fold lP. cbn [set_rTip own peer].
      apply (live_HL (own x) (peer x) (vl y) (vr y) Fo Fp (co_lo _ _ _ _ _ _ CO) (co_lpe _ _ _ _ _ _ CO) len lP); [lia|].
      fold lP in FP. lia.
    + rewrite NK1, NK2, VIN, IO, KL. fold lP. cbn [set_rTip own peer].
      apply (live_HL (peer x) (own x) (vr y) (vl y) Fp Fo (co_lpe _ _ _ _ _ _ CO) (co_lo _ _ _ _ _ _ CO) lP len); [lia|].
      fold len. lia.
    + rewrite NK1, VOH, (cx_ho _ _ _ _ _ _ CX). cbn [set_rTip own]. unfold len. rewrite firstn_all. reflexivity.
    + rewrite NK2, VTH, (ci_th _ _ _ P1), KL. reflexivity.
    + intros _. rewrite HH. pose proof (proj1 (vi_hr _ _ (co_inv _ _ _ _ _ _ CO))). lia.
  - (* the CommitDiff *)
    intros k0 E. injection E as <-. rewrite NK1.
    replace (n_of p (vk (v_rtail y))) with rO by (unfold rO; rewrite KR; reflexivity). cbn [set_rTip own].
    set (h := Z.to_N (c_h (vk k'))).
    pose proof (co_inv _ _ _ _ _ _ CO') as VI'. cbn [vl] in *.
    assert (HNZ : h <> 0%N).
    { unfold h. rewrite HH. pose proof (proj1 (vi_hr _ _ (co_inv _ _ _ _ _ _ CO))). lia. }
    assert (HS : (h = hN (v_rtail y) + 1)%N /\ hN k' = h).
    { unfold hN, h. rewrite HH. pose proof (proj1 (vi_hr _ _ (co_inv _ _ _ _ _ _ CO))). split; [lia|reflexivity]. }
    assert (RNG : forall e, In e (l_list (mark_log false (Z.to_N (c_h (vk (v_rtail y)) + 1)) (l_idx (vl y)) (vl y))) ->
                  (N.eqb (e_addR e) h || N.eqb (e_rmR e) h = true <-> rO <= idx e /\ idx e < len)).
    { intros e IE. pose proof (vi_ownR _ _ VI' e IE) as R. cbn [vl v_rtail v_rtip] in R.
      unfold rtipv, vtip in R. cbn [v_rtail v_rtip] in R.
      assert (SH : shape e) by (eapply mark_log_shape; [apply (ps_shl _ _ _ PS)|exact IE]).
      assert (FE : fee_eq e) by (apply (cx_feel _ _ _ _ _ _ CX'); exact IE).
      rewrite (raw_remote e h SH FE HNZ).
      assert (EA : ix p (v_rtail y) = N.of_nat rO) by (unfold ix, idx_of; rewrite KR; reflexivity).
      assert (EB : ix p k' = N.of_nat len) by (unfold ix, idx_of; rewrite NK1; reflexivity).
      rewrite EA, EB in R. destruct HS as [H1 H2]. rewrite H2 in R. unfold in_range, idx in *. lia. }
    pose proof (co_lo _ _ _ _ _ _ CO') as LC'. cbn [vl set_rTip own peer] in LC'.
    apply (plist_of_log (own x) (peer x) _ Fo Fp _ rO len true LC').
    + cbn [set_rTip own]. fold len. lia.
    + intros e IE PE. apply (RNG e IE), PE.
    + intros e IE A B _. apply (RNG e IE). auto.
    + intros i A B _. cbn [set_rTip own peer].
      destruct (nth_error (own x) i) as [u|] eqn:NE; [|apply nth_error_None in NE; fold len in NE; lia].
      destruct (is_uadd u) eqn:AU.
      * destruct u as [a ex hh| | |]; try discriminate. apply (present_add _ _ _ _ _ a ex hh NE).
        intros NM. apply named_iff in NM. destruct NM as [i' [u' [_ [NE' RM]]]].
        destruct (co_pfp _ _ _ _ _ _ CO _ (removal_parent _ _ _ _ NE' RM)) as [a0 [AP [_ L2]]].
        rewrite (nth_add_pos _ _ _ _ _ NE) in AP. injection AP as <-. fold rO in L2. lia.
      * apply (present_nonadd _ _ _ _ _ u NE AU). fold rO in FO. lia.
  - exact P6.
  - exact P7.
  - exact P8.
  - apply mark_log_shape, PS.
  - apply mark_log_shape, PS.
Qed.
End Sign.

Section RecvSig.
Variables (c : cfg) (p : bool) (x : party) (y : vparty) (Fo Fp : nat).
Hypothesis CX : CorrX c p x y Fo Fp.
Hypothesis PS : PInvS p x y.

Lemma recv_sig_pinvs k0 x' y' :
  do_recv_sig c p x k0 = (Ok, x') -> v_recv_sig c p y k0 = (Ok, y') -> PInvS p x' y'.
Proof.
  intros DS VS. pose proof (cx_corr _ _ _ _ _ _ CX) as CO.
  pose proof (idx_chain c p x y Fo Fp CO) as IC.
  unfold do_recv_sig in DS. cbv zeta in DS.
  destruct (commit_of c p _ _ _ _ _) as [k|] eqn:CK; [|discriminate].
  destruct (commit_eqb k k0); [|discriminate]. injection DS as <-.
  unfold v_recv_sig in VS.
  destruct (fetchCommitmentView _ _ _ _ _ _ _ _) as [[[k' l'] r']|] eqn:F; [|discriminate].
  destruct (commit_eqb (vk k') k0); [|discriminate]. injection VS as <-.
  destruct (fetch_struct _ _ _ _ _ _ _ _ _ _ _ F) as [VO [VIN [VOH VTH]]].
  pose proof (fetchCommitmentView_spec _ _ _ _ _ _ _ _ _ _ _ F) as FS. cbn zeta in FS.
  destruct FS as [HH [I1 [I2 [-> ->]]]].
  pose proof (co_lt _ _ _ _ _ _ CO) as KL. pose proof (co_rt _ _ _ _ _ _ CO) as KR.
  pose proof (co_ip _ _ _ _ _ _ CO) as IP.
  set (len := length (peer x)) in *. set (rO := n_of p (rTail x)) in *.
  assert (NK : n_of p (vk k') = rO /\ n_of (negb p) (vk k') = len).
  { unfold ix, idx_of in I1, I2. rewrite KR in I1. fold rO in I1. rewrite IP in I2. lia. }
  destruct NK as [NK1 NK2].
  pose proof (ps_pi _ _ _ PS) as PI. destruct PI as [P1 P2 P3 P4 P5 P6 P7 P8].
  pose proof (co_fo _ _ _ _ _ _ CO) as FO. pose proof (co_fp _ _ _ _ _ _ CO) as FP.
  set (x' := mkParty (own x) (peer x) (lTail x) (Some k) (rTail x) (rTip x)).
  split; [split|..]; cbn [vl vr v_ltail v_ltip v_rtail v_rtip d_diff d_unsigned_acked d_remote_unsigned].
  - apply (CInv_ext p x); [reflexivity|reflexivity|exact P1].
  - apply (CInv_ext p x); [reflexivity|reflexivity|exact P2].
  - intros k1 E. injection E as <-. split.
    + rewrite NK1, NK2, VO, IP. unfold idx_of. rewrite KR. fold rO. cbn [own peer].
      apply (live_HL (own x) (peer x) (vl y) (vr y) Fo Fp (co_lo _ _ _ _ _ _ CO) (co_lpe _ _ _ _ _ _ CO) rO len); [lia|].
      fold len. lia.
    + rewrite NK1, NK2, VIN, IP. unfold idx_of. rewrite KR. fold rO. cbn [own peer].
      apply (live_HL (peer x) (own x) (vr y) (vl y) Fp Fo (co_lpe _ _ _ _ _ _ CO) (co_lo _ _ _ _ _ _ CO) len rO); [lia|].
      fold rO in FO. lia.
    + rewrite NK1, VOH, (ci_oh _ _ _ P2), KR. reflexivity.
    + rewrite NK2, VTH, (cx_hp _ _ _ _ _ _ CX). cbn [peer]. unfold len. rewrite firstn_all. reflexivity.
    + intros _. rewrite HH.
      assert ((0 <= c_h (vk (ltipv y)))%Z).
      { pose proof (vi_hl _ _ (co_inv _ _ _ _ _ _ CO)) as [A B]. unfold ltipv, vtip.
        destruct (v_ltip y) as [kk|] eqn:E; [specialize (B kk eq_refl); lia|exact A]. }
      lia.
  - intros k1 H1. apply (CInv_ext p x); [reflexivity|reflexivity|exact (P4 k1 H1)].
  - intros k1 H1. exact (P5 k1 H1).
  - exact P6.
  - exact P7.
  - exact P8.
  - apply mark_log_shape, PS.
  - apply mark_log_shape, PS.
Qed.
End RecvSig.

(* ---------- U7: PInv through RevokeCurrentCommitment / ReceiveRevocation ---------- *)
Section Revoke.
Variables (c : cfg) (p : bool) (x : party) (y : vparty) (Fo Fp : nat).
Hypothesis CX : CorrX c p x y Fo Fp.
Hypothesis PS : PInvS p x y.

Lemma revoke_pinvs x' m y' :
  do_revoke x = (Ok, x', Some m) -> v_revoke p y = (Ok, y', Some m) -> PInvS p x' y'.
Proof.
  intros DR VS. pose proof (cx_corr _ _ _ _ _ _ CX) as CO.
  destruct (do_revoke_ok x x' m DR) as [k [LT [-> ->]]].
  pose proof (idx_chain c p x y Fo Fp CO) as IC. rewrite LT in IC. cbn [tip_of] in IC.
  pose proof (co_lp _ _ _ _ _ _ CO) as LP. rewrite LT in LP.
  unfold v_revoke in VS. destruct (v_ltip y) as [k'|] eqn:VL; [|discriminate]. cbn in LP. injection LP as EK.
  injection VS as <-.
  pose proof (co_lt _ _ _ _ _ _ CO) as KL. pose proof (co_rt _ _ _ _ _ _ CO) as KR.
  pose proof (ps_pi _ _ _ PS) as PI. destruct PI as [P1 P2 P3 P4 P5 P6 P7 P8].
  pose proof (co_fo _ _ _ _ _ _ CO) as FO. pose proof (co_fp _ _ _ _ _ _ CO) as FP.
  split; [split|..]; cbn [revoked vl vr v_ltail v_ltip v_rtail v_rtip d_diff d_unsigned_acked d_remote_unsigned].
  - apply (CInv_ext p x); [reflexivity|reflexivity|exact (P3 k' VL)].
  - apply (CInv_ext p x); [reflexivity|reflexivity|exact P2].
  - discriminate.
  - intros k1 H1. apply (CInv_ext p x); [reflexivity|reflexivity|exact (P4 k1 H1)].
  - intros k1 H1. exact (P5 k1 H1).
  - cbn [own]. unfold idx_of. eapply plist_filter_ge; [|exact P6]. rewrite EK, KL; lia.
  - intros u IN. apply filter_In in IN. apply P7, IN.
  - cbn [peer]. unfold getUnsignedAckedUpdates.
    apply (plist_of_log (peer x) (own x) (vr y) Fp Fo _ _ _ false (co_lpe _ _ _ _ _ _ CO)).
    + rewrite EK. lia.
    + intros e IE PE. apply andb_true_iff in PE. destruct PE as [A B]. apply negb_true_iff, N.ltb_ge in A.
      apply N.ltb_lt in B. unfold idx_of, idx in *. lia.
    + intros e IE A B _. apply andb_true_iff. split; [apply negb_true_iff, N.ltb_ge|apply N.ltb_lt];
        unfold idx_of, idx in *; lia.
    + intros i A B [C|C]; [discriminate|].
      destruct (nth_error (peer x) i) as [u|] eqn:NE; [|apply nth_error_None in NE; rewrite EK in B; lia].
      apply (present_nonadd _ _ _ _ _ u NE).
      * destruct u; try reflexivity. exfalso. eapply C; reflexivity.
      * rewrite KR in A. lia.
  - apply PS.
  - apply PS.
Qed.

Lemma recv_rev_pinvs x' y' :
  do_recv_rev x = (Ok, x') -> v_recv_rev p y = (Ok, y') -> PInvS p x' y'.
Proof.
  intros DR VS. pose proof (cx_corr _ _ _ _ _ _ CX) as CO.
  destruct (do_recv_rev_ok x x' DR) as [k [RT ->]].
  pose proof (idx_chain c p x y Fo Fp CO) as IC. rewrite RT in IC. cbn [tip_of] in IC.
  pose proof (co_rp _ _ _ _ _ _ CO) as RP. rewrite RT in RP.
  unfold v_recv_rev in VS. destruct (v_rtip y) as [k'|] eqn:VR; [|discriminate]. cbn in RP. injection RP as EK.
  destruct (compactLogs _ _ _ _) as [l' r'] eqn:CL. injection VS as <-.
  apply compactLogs_sub in CL. destruct CL as [[S1 _] [S2 _]].
  pose proof (co_lt _ _ _ _ _ _ CO) as KL. pose proof (co_rt _ _ _ _ _ _ CO) as KR.
  pose proof (ps_pi _ _ _ PS) as PI. destruct PI as [P1 P2 P3 P4 P5 P6 P7 P8].
  pose proof (co_fo _ _ _ _ _ _ CO) as FO. pose proof (co_fp _ _ _ _ _ _ CO) as FP.
  split; [split|..]; cbn [recv_rev vl vr v_ltail v_ltip v_rtail v_rtip d_diff d_unsigned_acked d_remote_unsigned].
  - apply (CInv_ext p x); [reflexivity|reflexivity|exact P1].
  - apply (CInv_ext p x); [reflexivity|reflexivity|exact (P4 k' VR)].
  - intros k1 H1. apply (CInv_ext p x); [reflexivity|reflexivity|exact (P3 k1 H1)].
  - discriminate.
  - discriminate.
  - cbn [own]. unfold unsignedLocalUpdates.
    apply (plist_of_log (own x) (peer x) (vl y) Fo Fp _ _ _ false (co_lo _ _ _ _ _ _ CO)).
    + rewrite EK. lia.
    + intros e IE PE. apply andb_true_iff in PE. destruct PE as [PE B]. apply andb_true_iff in PE. destruct PE as [_ A].
      apply negb_true_iff, N.ltb_ge in B. apply N.ltb_lt in A. unfold idx_of, idx in *. lia.
    + intros e IE A B [C|C]; [discriminate|]. rewrite C. cbn [negb andb].
      apply andb_true_iff. split; [apply N.ltb_lt|apply negb_true_iff, N.ltb_ge]; unfold idx_of, idx in *; lia.
    + intros i A B [C|C]; [discriminate|].
      destruct (nth_error (own x) i) as [u|] eqn:NE; [|apply nth_error_None in NE; rewrite EK in B; lia].
      apply (present_nonadd _ _ _ _ _ u NE).
      * destruct u; try reflexivity. exfalso. eapply C; reflexivity.
      * rewrite KL in A. lia.
  - intros u IN. unfold unsignedLocalUpdates in IN. apply in_map_iff in IN. destruct IN as [e [<- IE]].
    apply filter_In in IE. destruct IE as [_ PE]. apply andb_true_iff in PE. destruct PE as [PE _].
    apply andb_true_iff in PE. destruct PE as [NA _]. rewrite toLogUpdate_is_ladd. apply negb_true_iff, NA.
  - cbn [peer]. unfold idx_of. eapply plist_filter_ge; [|exact P8]. rewrite EK, KR; lia.
  - intros e IN. apply (ps_shl _ _ _ PS), S1, IN.
  - intros e IN. apply (ps_shr _ _ _ PS), S2, IN.
Qed.
End Revoke.

(* ---------- U8: PInv through a restart, and initially ---------- *)
Lemma shape_heights0 e : heights0 e -> shape e.
Proof. intros [A [B [C D]]]. split; intros _; auto. Qed.

Lemma shape_payDesc w o h u : shape (payDesc_of w o h u).
Proof. unfold payDesc_of. apply shape_sch. destruct (snd u); apply shape_new. Qed.

Lemma shape_acked l h pd u : shape (acked_entry l h pd u).
Proof.
  unfold acked_entry. destruct pd as [[ph pidx]|]; [|apply shape_payDesc].
  destruct (_ <? _)%N; [apply shape_sch|]; apply shape_payDesc.
Qed.

Section RestorePI.
Variables (c : cfg) (p : bool) (x : party) (y : vparty) (Fo Fp : nat).
Hypothesis CX : CorrX c p x y Fo Fp.
Hypothesis PS : PInvS p x y.

Lemma restore_pinvs : PInvS p (restore p x) (v_restore p y).
Proof.
  pose proof (ps_pi _ _ _ PS) as PI.
  pose proof (cx_corr _ _ _ _ _ _ CX) as CO.
  pose proof (idx_chain c p x y Fo Fp CO) as IC.
  pose proof (hl_out_rc c p x y Fo Fp CX PI) as HO. pose proof (hl_in_lc c p x y Fo Fp CX PI) as HI.
  pose proof (co_lt _ _ _ _ _ _ CO) as KL. pose proof (co_rt _ _ _ _ _ _ CO) as KR.
  pose proof (co_rp _ _ _ _ _ _ CO) as KP.
  destruct (restored_logs p y _ _ _ _ _ _ HO HI)
    as [l' [r' [rI [EV [ERI [EL [IL [HL' [ER [IR [HR [ML MR]]]]]]]]]]]].
  rewrite EV.
  assert (CI : forall k, n_of p (vk k) <= n_of p (tip_of (rTail x) (rTip x)) ->
                         n_of (negb p) (vk k) <= n_of (negb p) (lTail x) ->
                         CInv p x k -> CInv p (restore p x) k).
  { intros k A B. apply CInv_ext; unfold restore; cbn [own peer]; apply firstn_firstn_le; assumption. }
  destruct PI as [P1 P2 P3 P4 P5 P6 P7 P8].
  assert (TP : forall k, v_rtip y = Some k -> vk k = tip_of (rTail x) (rTip x)).
  { intros k H. rewrite H in KP. cbn in KP. destruct (rTip x); [|discriminate]. cbn in *. congruence. }
  split; [split|..]; cbn [vl vr v_ltail v_ltip v_rtail v_rtip d_diff d_unsigned_acked d_remote_unsigned].
  - apply CI; [rewrite KL; lia|rewrite KL; lia|exact P1].
  - apply CI; [rewrite KR; lia|rewrite KR; lia|exact P2].
  - discriminate.
  - intros k H. apply CI; [rewrite (TP k H); lia|rewrite (TP k H); lia|exact (P4 k H)].
  - intros k H. eapply PList_ext; [|exact (P5 k H)]. unfold restore; cbn [own].
    apply firstn_firstn_le. rewrite (TP k H). lia.
  - eapply PList_ext; [|exact P6]. unfold restore; cbn [own]. apply firstn_firstn_le. rewrite KR. lia.
  - exact P7.
  - eapply PList_ext; [|exact P8]. unfold restore; cbn [peer]. apply firstn_firstn_le. rewrite KL. lia.
  - intros e IN. rewrite EL in IN. apply in_app_or in IN. destruct IN as [IN|IN].
    + apply in_map_iff in IN. destruct IN as [e0 [<- I0]]. destruct (hl_in _ _ _ _ _ HO e0 I0) as [A [H0 _]].
      unfold fO. apply shape_set_add_h; [rewrite set_add_h_is_add; exact A|].
      apply shape_set_add_h; [exact A|]. apply shape_heights0, H0.
    + apply in_app_or in IN. destruct IN as [IN|IN].
      * apply in_map_iff in IN. destruct IN as [u [<- _]]. apply shape_payDesc.
      * destruct (v_rtip y); [|destruct IN]. apply in_map_iff in IN. destruct IN as [u [<- _]]. apply shape_payDesc.
  - intros e IN. rewrite ER in IN. apply in_app_or in IN. destruct IN as [IN|IN].
    + apply in_map_iff in IN. destruct IN as [e0 [<- I0]]. destruct (hl_in _ _ _ _ _ HI e0 I0) as [A [H0 _]].
      unfold fI. apply shape_set_add_h; [rewrite set_add_h_is_add; exact A|].
      apply shape_set_add_h; [exact A|]. apply shape_heights0, H0.
    + apply in_map_iff in IN. destruct IN as [u [<- _]]. apply shape_acked.
Qed.
End RestorePI.

(* ---------- U9: the persisted-data invariant holds in every reachable state ---------- *)
Lemma HL_nil L Lo : HL L Lo 0 0 [].
Proof. split; [constructor|intros e []|intros; lia]. Qed.

Lemma PList_nil L n all : PList L [] n n all.
Proof. split; [constructor|intros u []|intros; lia|exact I]. Qed.

Lemma pinvs_init c p x y : init_party c p = Some x -> vinit_party c p = Some y -> PInvS p x y.
Proof.
  unfold init_party, vinit_party, vinit_commit.
  destruct (init_commit c p) as [l|] eqn:L; [|discriminate].
  destruct (init_commit c (negb p)) as [r|] eqn:R; [|discriminate].
  intros H1 H2. injection H1 as <-. injection H2 as <-.
  assert (G : forall o k0, init_commit c o = Some k0 -> c_nA k0 = 0 /\ c_nB k0 = 0).
  { intros o k0 H. unfold init_commit in H. apply commit_of_inv in H.
    destruct H as [gA [gB [_ [_ H]]]]. cbv zeta in H. tauto. }
  assert (N0 : forall o k0 q, init_commit c o = Some k0 -> n_of q k0 = 0).
  { intros o k0 q H. destruct (G o k0 H). destruct q; assumption. }
  assert (CI : forall o k0, init_commit c o = Some k0 ->
               CInv p (mkParty [] [] l None r None) (mkVC k0 0 0 [] [])).
  { intros o k0 H. split; cbn [vk v_out v_in v_ourh v_theirh own peer]; rewrite ?(N0 o k0 _ H).
    - apply HL_nil.
    - apply HL_nil.
    - reflexivity.
    - reflexivity.
    - lia. }
  split; [split|..]; cbn [vl vr v_ltail v_ltip v_rtail v_rtip d_diff d_unsigned_acked d_remote_unsigned
                           vk own peer newUpdateLog l_list]; try discriminate.
  - apply (CI p l L).
  - apply (CI (negb p) r R).
  - rewrite (N0 _ _ p L), (N0 _ _ p R). apply PList_nil.
  - intros u [].
  - rewrite (N0 _ _ (negb p) L), (N0 _ _ (negb p) R). apply PList_nil.
  - intros e [].
  - intros e [].
Qed.

Record Sim2 (c : cfg) (s : sys) (v : vsys) : Prop := mkSim2 {
  s2_sim : Sim c s v;
  s2_pi : forall p, PInvS p (get s p) (vget v p)
}.

Lemma pinvs_update (s s' : sys) (v v' : vsys) p :
  (forall q, PInvS q (get s q) (vget v q)) ->
  PInvS p (get s' p) (vget v' p) ->
  get s' (negb p) = get s (negb p) -> vget v' (negb p) = vget v (negb p) ->
  forall q, PInvS q (get s' q) (vget v' q).
Proof.
  intros A B E1 E2 q. destruct (Bool.eqb q p) eqn:E.
  - apply eqb_prop in E. subst q. exact B.
  - assert (q = negb p) by (destruct q, p; try discriminate; reflexivity). subst q. rewrite E1, E2. apply A.
Qed.

Theorem sim2_step c s v o s' :
  Sim2 c s v -> step c s (erase o) = (Ok, s') ->
  exists v', vstep c v o = (Ok, v') /\ Sim2 c s' v'.
Proof.
  intros [SM PA] ST. destruct (sim_step c s v o s' SM ST) as [v' [VS SM']].
  exists v'. split; [exact VS|]. split; [exact SM'|].
  assert (SEND : forall p u mal, step c s (OSend p u) = (Ok, s') ->
            (match v_send c p (vget v p) u mal with
             | Some x' => (Ok, vset_outq (vset v p x') p (voutq v p ++ [MUpd u]))
             | None => (ErrDisabled, v) end) = (Ok, v') ->
            forall q, PInvS q (get s' q) (vget v' q)).
  { intros p u mal H VS'. cbn [step] in H. destruct (upd_enabled c p (get s p) u) eqn:EN; [|discriminate].
    injection H as <-. destruct (sm_p _ _ _ SM p) as [Fo [Fp CX]].
    destruct (v_send c p (vget v p) u mal) as [y'|] eqn:VY; [|discriminate]. injection VS' as <-.
    apply (pinvs_update s _ v _ p PA).
    - rewrite get_setq, get_set, vget_setq, vget_set.
      apply (send_pinvs c p _ _ Fo Fp CX (PA p) u mal y' EN VY).
    - rewrite get_setq, get_set_o. reflexivity.
    - rewrite vget_setq, vget_set_o. reflexivity. }
  destruct o as [[p u|p|p|p]|p i]; cbn [erase] in ST; cbn [vstep] in VS.
  - apply (SEND p u false ST VS).
  - (* sign *)
    cbn [step] in ST. destruct (do_sign c p (get s p)) as [[r x'] om] eqn:DS.
    assert (r = Ok /\ exists m, om = Some m /\ s' = set_outq (set s p x') p (outq s p ++ [m])).
    { unfold do_sign in DS. destruct (rTip (get s p)); [injection DS as <- <- <-; discriminate|].
      cbv zeta in DS. destruct (commit_of _ _ _ _ _ _ _); injection DS as <- <- <-; [|discriminate].
      injection ST as <-. eauto. }
    destruct H as [-> [m [-> ->]]].
    destruct (sm_p _ _ _ SM p) as [Fo [Fp CX]].
    destruct (sign_corrx c p _ _ Fo Fp CX x' m DS) as [y' [VY CX']]. rewrite VY in VS. injection VS as <-.
    apply (pinvs_update s _ v _ p PA).
    + rewrite get_setq, get_set, vget_lwr, vget_setq, vget_set.
      apply (sign_pinvs c p _ _ Fo Fp CX (PA p) x' m y' DS VY CX').
    + rewrite get_setq, get_set_o. reflexivity.
    + rewrite vget_lwr, vget_setq, vget_set_o. reflexivity.
  - (* revoke *)
    cbn [step] in ST. destruct (do_revoke (get s p)) as [[r x'] om] eqn:DS.
    assert (r = Ok /\ exists m, om = Some m /\ s' = set_outq (set s p x') p (outq s p ++ [m])).
    { unfold do_revoke in DS. destruct (lTip (get s p)); injection DS as <- <- <-; [|discriminate].
      injection ST as <-. eauto. }
    destruct H as [-> [m [-> ->]]].
    destruct (sm_p _ _ _ SM p) as [Fo [Fp CX]].
    destruct (revoke_corrx c p _ _ Fo Fp CX x' m DS) as [y' [VY CX']]. rewrite VY in VS. injection VS as <-.
    apply (pinvs_update s _ v _ p PA).
    + rewrite get_setq, get_set, vget_lwr, vget_setq, vget_set.
      apply (revoke_pinvs c p _ _ Fo Fp CX (PA p) x' m y' DS VY).
    + rewrite get_setq, get_set_o. reflexivity.
    + rewrite vget_lwr, vget_setq, vget_set_o. reflexivity.
  - (* deliver *)
    cbn [step] in ST. rewrite (sm_q _ _ _ SM (negb p)) in VS.
    destruct (outq s (negb p)) as [|m q] eqn:Q; [discriminate|].
    destruct (sm_p _ _ _ SM p) as [Fo [Fp CX]].
    destruct m as [u|k|].
    + injection ST as <-.
      destruct (v_recv_upd c p (vget v p) u) as [y'|] eqn:VY; [|discriminate]. injection VS as <-.
      apply (pinvs_update s _ v _ p PA).
      * rewrite get_setq, get_set, vget_setq, vget_set.
        apply (recv_upd_pinvs c p _ _ Fo Fp CX (PA p) u y' VY).
      * rewrite get_setq, get_set_o. reflexivity.
      * rewrite vget_setq, vget_set_o. reflexivity.
    + destruct (do_recv_sig c p (get s p) k) as [r x'] eqn:DS.
      assert (r = Ok /\ s' = set_outq (set s p x') (negb p) q).
      { destruct r; try discriminate. injection ST as <-. auto. }
      destruct H as [-> ->].
      destruct (recv_sig_corrx c p _ _ Fo Fp CX k x' DS) as [y' [VY CX']]. rewrite VY in VS. injection VS as <-.
      apply (pinvs_update s _ v _ p PA).
      * rewrite get_setq, get_set, vget_setq, vget_set.
        apply (recv_sig_pinvs c p _ _ Fo Fp CX (PA p) k x' y' DS VY).
      * rewrite get_setq, get_set_o. reflexivity.
      * rewrite vget_setq, vget_set_o. reflexivity.
    + destruct (do_recv_rev (get s p)) as [r x'] eqn:DS.
      assert (r = Ok /\ s' = set_outq (set s p x') (negb p) q).
      { destruct r; try discriminate. injection ST as <-. auto. }
      destruct H as [-> ->].
      destruct (recv_rev_corrx c p _ _ Fo Fp CX x' DS) as [y' [Fo' [Fp' [VY CX']]]]. rewrite VY in VS. injection VS as <-.
      apply (pinvs_update s _ v _ p PA).
      * rewrite get_setq, get_set, vget_setq, vget_set.
        apply (recv_rev_pinvs c p _ _ Fo Fp CX (PA p) x' y' DS VY).
      * rewrite get_setq, get_set_o. reflexivity.
      * rewrite vget_setq, vget_set_o. reflexivity.
  - apply (SEND p (UFail i) true ST VS).
Qed.

Lemma sim2_init c s0 v0 : init_sys c = Some s0 -> vinit c = Some v0 -> Sim2 c s0 v0.
Proof.
  intros HS HV. split; [apply sim_init; assumption|].
  unfold init_sys in HS. unfold vinit in HV.
  destruct (init_party c true) as [a|] eqn:A; [|discriminate].
  destruct (init_party c false) as [b|] eqn:B; [|discriminate].
  destruct (vinit_party c true) as [ya|] eqn:YA; [|discriminate].
  destruct (vinit_party c false) as [yb|] eqn:YB; [|discriminate].
  injection HS as <-. injection HV as <-.
  intros p. destruct p; cbn; eapply pinvs_init; eassumption.
Qed.

Lemma run_along_sim2 c : forall ops s v, Sim2 c s v ->
  Sim2 c (fst (run_along c s v ops)) (snd (run_along c s v ops)).
Proof.
  induction ops as [|o r IH]; intros s v SM; [exact SM|].
  cbn [run_along].
  destruct (step c s (erase o)) as [rs s'] eqn:ST. cbn [snd].
  destruct rs.
  1:{ destruct (sim2_step c s v o s' SM ST) as [v' [VS SM']]. rewrite VS. cbn [snd]. apply IH, SM'. }
  all: assert (s' = s) by (eapply step_err_same; [exact ST|discriminate]); subst s'; apply IH, SM.
Qed.

(* (d), for every reachable state: whenever the process dies, the state NewLightningChannel rebuilds
   from what is on disk (v_restore) stands for Resync.restore of the cut-level state, in the full
   sense of CorrX: same four commitments, logs = the present entries with heights in the VInv
   ranges, frontiers at the two tails' cuts *)
Theorem restore_reachable c s0 v0 vops :
  init_sys c = Some s0 -> vinit c = Some v0 ->
  let (s, v) := run_along c s0 v0 vops in
  forall p,
    CorrX c p (restore p (get s p)) (v_restore p (vget v p))
          (n_of p (lTail (get s p))) (n_of (negb p) (rTail (get s p))) /\
    PInvS p (restore p (get s p)) (v_restore p (vget v p)).
Proof.
  intros HS HV. pose proof (run_along_sim2 c vops s0 v0 (sim2_init c s0 v0 HS HV)) as [SM PA].
  destruct (run_along c s0 v0 vops) as [s v]. cbn [fst snd] in *.
  intros p. destruct (sm_p _ _ _ SM p) as [Fo [Fp CX]]. split.
  - apply (restore_corrx c p _ _ Fo Fp CX (ps_pi _ _ _ (PA p))).
  - apply (restore_pinvs c p _ _ Fo Fp CX (PA p)).
Qed.

(* the persisted data of every reachable state satisfy PInvS *)
Theorem pinv_reachable c s0 v0 vops :
  init_sys c = Some s0 -> vinit c = Some v0 ->
  let (s, v) := run_along c s0 v0 vops in forall p, PInvS p (get s p) (vget v p).
Proof.
  intros HS HV. pose proof (run_along_sim2 c vops s0 v0 (sim2_init c s0 v0 HS HV)) as [SM PA].
  destruct (run_along c s0 v0 vops) as [s v]. exact PA.
Qed.

(* (d) spelled out: the party rebuilt after a crash in ANY reachable state satisfies the height
   invariant VInv, holds exactly the persisted commitments (no local tip), and its log counters
   are the cuts [Resync.restore] truncates the cut-level logs to *)
Theorem restore_reachable_vinv c s0 v0 vops :
  init_sys c = Some s0 -> vinit c = Some v0 ->
  let (s, v) := run_along c s0 v0 vops in
  forall p,
    let x := get s p in let y' := v_restore p (vget v p) in
    VInv p y' /\
    commits_view y' = (lTail x, None, rTail x, rTip x) /\
    l_idx (vl y') = N.of_nat (n_of p (tip_of (rTail x) (rTip x))) /\
    l_idx (vr y') = N.of_nat (n_of (negb p) (lTail x)).
Proof.
  intros HS HV. pose proof (restore_reachable c s0 v0 vops HS HV) as R.
  pose proof (run_along_sim2 c vops s0 v0 (sim2_init c s0 v0 HS HV)) as [SM _].
  destruct (run_along c s0 v0 vops) as [s v]. cbn [fst snd] in SM.
  intros p. cbv zeta. destruct (R p) as [CX _]. pose proof (cx_corr _ _ _ _ _ _ CX) as CO.
  destruct (sm_p _ _ _ SM p) as [Fo [Fp CX0]].
  pose proof (idx_chain c p _ _ Fo Fp (cx_corr _ _ _ _ _ _ CX0)) as IC.
  split; [exact (co_inv _ _ _ _ _ _ CO)|]. split.
  - unfold commits_view. rewrite (co_lt _ _ _ _ _ _ CO), (co_lp _ _ _ _ _ _ CO), (co_rt _ _ _ _ _ _ CO),
      (co_rp _ _ _ _ _ _ CO). reflexivity.
  - rewrite (co_io _ _ _ _ _ _ CO), (co_ip _ _ _ _ _ _ CO). unfold restore. cbn [own peer].
    rewrite !firstn_length. split; f_equal; lia.
Qed.

