(* Executable model of lnd/brontide/noise.go (cipherState, symmetricState,
   handshakeState, Machine: acts one..three, split, WriteMessage, Flush,
   ReadHeader/ReadBody/ReadMessage).  Definitions only; proofs live in
   Proofs.v, property theorems in Props.v.

   Crypto is symbolic: the AEAD (ChaCha20-Poly1305 Seal/Open), HKDF-SHA256,
   SHA-256 digest chaining, secp256k1 key generation / ECDH / point
   (de)serialisation are Section variables.  Exec.v instantiates them with a
   "tagging" AEAD so that the model runs under vm_compute.

   K  : 32-byte secrets and digests (keys, salts, chaining key, handshake hash,
        ECDH outputs)
   W  : one byte on the wire (in Go: byte; kept abstract so that the tagging
        instantiation can record which encryption a byte came from)
   wb : a plain byte on the wire; wv reads it back. *)
From Coq Require Import List NArith Bool.
Import ListNotations.
Local Open Scope N_scope.

(* noise.go constants *)
Definition key_rotation_interval : N := 1000.   (* keyRotationInterval *)
Definition mac_size : N := 16.                  (* macSize *)
Definition length_header_size : N := 2.         (* lengthHeaderSize *)
Definition enc_header_size : N := 18.           (* encHeaderSize *)
Definition max_uint16 : N := 65535.             (* math.MaxUint16 *)
Definition act_one_size : N := 50.
Definition act_two_size : N := 50.
Definition act_three_size : N := 66.
Definition handshake_version : N := 0.

Definition u64 (x : N) : N := x mod 2 ^ 64.

Definition len {A} (l : list A) : N := N.of_nat (length l).

(* binary.BigEndian.PutUint16(buf, uint16(n)) *)
Definition be16 (n : N) : list N := [(n / 256) mod 256; n mod 256].
(* binary.BigEndian.Uint16: Go panics on fewer than 2 bytes; a successful
   Open of an 18-byte ciphertext always yields exactly 2. *)
Definition of_be16 (bs : list N) : option N :=
  match bs with
  | [a; b] => Some (a * 256 + b)
  | _ => None
  end.

(* "lightning" *)
Definition prologue : list N := [108; 105; 103; 104; 116; 110; 105; 110; 103].

Inductive err :=
| EVersion      (* invalid handshake version *)
| EParse        (* btcec.ParsePubKey failed *)
| EMac          (* AEAD Open failed *)
| EEof          (* io.ReadFull: EOF / ErrUnexpectedEOF *)
| ETooLong      (* ErrMaxMessageLengthExceeded *)
| ENotFlushed   (* ErrMessageNotFlushed *)
| EState.       (* calling order violated (Go would nil-deref); never exercised *)

Inductive res (A : Type) := Ok (a : A) | Err (e : err).
Arguments Ok {A}.
Arguments Err {A}.

(* error returned by brontide.Conn.Write: none, an error of the Machine
   (WriteMessage), the error of the underlying net.Conn (a timeout), or the
   model's loop fuel ran out (proved impossible: C11_conn_stream_roundtrip) *)
Inductive cerr := CNone | CMach (e : err) | CWriter | CFuel.

Section Noise.
  Variables (K W SK PK : Type).
  Variable wb : N -> W.
  Variable wv : W -> option N.
  (* AEAD: key, nonce counter, associated data (None = nil), plaintext *)
  Variable enc : K -> N -> option K -> list N -> list W.
  Variable dec : K -> N -> option K -> list W -> option (list N).
  (* hkdf.New(sha256, secret, salt, nil): salt, secret (None = empty) ->
     (first 32 bytes, second 32 bytes) *)
  Variable hkdf : K -> option K -> K * K.
  Variable zeroK : K.                       (* [32]byte{} *)
  Variable h0 : K.                          (* sha256(protocolName) *)
  Variable mixb : K -> list N -> K.         (* sha256(h || plain bytes) *)
  Variable mixc : K -> list W -> K.         (* sha256(h || ciphertext) *)
  Variable pub : SK -> PK.
  Variable dh : SK -> PK -> K.              (* sha256(compressed shared point) *)
  Variable ser : PK -> list N.              (* SerializeCompressed, 33 bytes *)
  Variable parse : list N -> option PK.     (* btcec.ParsePubKey *)

  (* ---------------- cipherState ---------------- *)
  (* cs_epoch is a ghost counter: number of rotateKey calls since
     InitializeKeyWithSalt.  The harness reconstructs it by watching
     secretKey change. *)
  Record cstate := mkCS { cs_nonce : N; cs_key : K; cs_salt : K; cs_epoch : N }.

  Definition cs_zero : cstate := mkCS 0 zeroK zeroK 0.

  (* InitializeKey: key := k, nonce := 0 (salt untouched) *)
  Definition initialize_key (c : cstate) (k : K) : cstate :=
    mkCS 0 k (cs_salt c) (cs_epoch c).

  (* InitializeKeyWithSalt on a fresh cipherState{} *)
  Definition initialize_key_with_salt (salt k : K) : cstate := mkCS 0 k salt 0.

  (* rotateKey: (salt', key') := hkdf(salt, key); InitializeKey(key') *)
  Definition rotate_key (c : cstate) : cstate :=
    let '(s', k') := hkdf (cs_salt c) (Some (cs_key c)) in
    mkCS 0 k' s' (cs_epoch c + 1).

  (* the deferred block of Encrypt/Decrypt: nonce++ (uint64), rotate at 1000 *)
  Definition advance (c : cstate) : cstate :=
    let n' := u64 (cs_nonce c + 1) in
    if N.eqb n' key_rotation_interval
    then rotate_key (mkCS n' (cs_key c) (cs_salt c) (cs_epoch c))
    else mkCS n' (cs_key c) (cs_salt c) (cs_epoch c).

  Definition cs_encrypt (c : cstate) (ad : option K) (p : list N) : list W * cstate :=
    (enc (cs_key c) (cs_nonce c) ad p, advance c).

  (* the nonce advances whether or not Open succeeds *)
  Definition cs_decrypt (c : cstate) (ad : option K) (ct : list W)
    : option (list N) * cstate :=
    (dec (cs_key c) (cs_nonce c) ad ct, advance c).

  (* ---------------- symmetricState ---------------- *)
  Record sstate := mkSS { ss_cs : cstate; ss_ck : K; ss_h : K }.

  Definition mix_key (s : sstate) (input : K) : sstate :=
    let '(ck', tk) := hkdf (ss_ck s) (Some input) in
    mkSS (initialize_key (ss_cs s) tk) ck' (ss_h s).

  Definition mix_hash_b (s : sstate) (d : list N) : sstate :=
    mkSS (ss_cs s) (ss_ck s) (mixb (ss_h s) d).

  Definition mix_hash_c (s : sstate) (d : list W) : sstate :=
    mkSS (ss_cs s) (ss_ck s) (mixc (ss_h s) d).

  Definition encrypt_and_hash (s : sstate) (p : list N) : list W * sstate :=
    let '(ct, c') := cs_encrypt (ss_cs s) (Some (ss_h s)) p in
    (ct, mix_hash_c (mkSS c' (ss_ck s) (ss_h s)) ct).

  Definition decrypt_and_hash (s : sstate) (ct : list W) : option (list N) * sstate :=
    let '(r, c') := cs_decrypt (ss_cs s) (Some (ss_h s)) ct in
    match r with
    | None => (None, mkSS c' (ss_ck s) (ss_h s))
    | Some p => (Some p, mix_hash_c (mkSS c' (ss_ck s) (ss_h s)) ct)
    end.

  Definition initialize_symmetric : sstate :=
    mkSS (initialize_key cs_zero zeroK) h0 h0.

  (* ---------------- handshakeState / Machine ---------------- *)
  Record machine := mkM {
    m_sym : sstate;
    m_initiator : bool;
    m_local_static : SK;
    m_local_eph : option SK;
    m_remote_static : option PK;
    m_remote_eph : option PK;
    m_send : cstate;
    m_recv : cstate;
    m_hdr : list W;          (* nextHeaderSend *)
    m_body : list W          (* nextBodySend *)
  }.

  Definition set_sym (m : machine) (s : sstate) : machine :=
    mkM s (m_initiator m) (m_local_static m) (m_local_eph m) (m_remote_static m)
        (m_remote_eph m) (m_send m) (m_recv m) (m_hdr m) (m_body m).

  (* NewBrontideMachine(true, local, remotePub) *)
  Definition new_initiator (local : SK) (remote : PK) : machine :=
    let s := mix_hash_b (mix_hash_b initialize_symmetric prologue) (ser remote) in
    mkM s true local None (Some remote) None cs_zero cs_zero [] [].

  (* NewBrontideMachine(false, local, nil) *)
  Definition new_responder (local : SK) : machine :=
    let s := mix_hash_b (mix_hash_b initialize_symmetric prologue) (ser (pub local)) in
    mkM s false local None None None cs_zero cs_zero [] [].

  (* split() *)
  Definition split (m : machine) : machine :=
    let ck := ss_ck (m_sym m) in
    let '(k1, k2) := hkdf ck None in
    let '(sk, rk) := if m_initiator m then (k1, k2) else (k2, k1) in
    mkM (m_sym m) (m_initiator m) (m_local_static m) (m_local_eph m) (m_remote_static m)
        (m_remote_eph m) (initialize_key_with_salt ck sk) (initialize_key_with_salt ck rk)
        (m_hdr m) (m_body m).

  Fixpoint unwrap_bytes (ws : list W) : option (list N) :=
    match ws with
    | [] => Some []
    | w :: r =>
      match wv w, unwrap_bytes r with
      | Some b, Some bs => Some (b :: bs)
      | _, _ => None
      end
    end.

  Definition parse_w (ws : list W) : option PK :=
    match unwrap_bytes ws with
    | Some bs => parse bs
    | None => None
    end.

  Definition version_ok (w : W) : bool :=
    match wv w with
    | Some v => N.eqb v handshake_version
    | None => false
    end.

  (* GenActOne; eph is what ephemeralGen() returns *)
  Definition gen_act_one (m : machine) (eph : SK) : res (list W * machine) :=
    match m_remote_static m with
    | None => Err EState
    | Some rs =>
      let e := ser (pub eph) in
      let s1 := mix_hash_b (m_sym m) e in
      let s2 := mix_key s1 (dh eph rs) in
      let '(tag, s3) := encrypt_and_hash s2 [] in
      let m' := mkM s3 (m_initiator m) (m_local_static m) (Some eph) (m_remote_static m)
                    (m_remote_eph m) (m_send m) (m_recv m) (m_hdr m) (m_body m) in
      Ok (wb handshake_version :: map wb e ++ tag, m')
    end.

  (* shared by RecvActOne / RecvActTwo: version, e := act[1:34], p := act[34:] *)
  Definition recv_eph_act (m : machine) (act : list W) (dh_key : PK -> option K)
    : res machine :=
    match act with
    | [] => Err EVersion
    | v :: rest =>
      if negb (version_ok v) then Err EVersion else
      let e := firstn 33 rest in
      let p := skipn 33 rest in
      match parse_w e with
      | None => Err EParse
      | Some re =>
        match dh_key re with
        | None => Err EState
        | Some s =>
          let s1 := mix_hash_b (m_sym m) (ser re) in
          let s2 := mix_key s1 s in
          let '(r, s3) := decrypt_and_hash s2 p in
          match r with
          | None => Err EMac
          | Some _ =>
            Ok (mkM s3 (m_initiator m) (m_local_static m) (m_local_eph m)
                    (m_remote_static m) (Some re) (m_send m) (m_recv m)
                    (m_hdr m) (m_body m))
          end
        end
      end
    end.

  (* RecvActOne: es := ecdh(remoteEphemeral, localStatic) *)
  Definition recv_act_one (m : machine) (act : list W) : res machine :=
    recv_eph_act m act (fun re => Some (dh (m_local_static m) re)).

  (* GenActTwo: ee := ecdh(remoteEphemeral, localEphemeral) *)
  Definition gen_act_two (m : machine) (eph : SK) : res (list W * machine) :=
    match m_remote_eph m with
    | None => Err EState
    | Some re =>
      let e := ser (pub eph) in
      let s1 := mix_hash_b (m_sym m) e in
      let s2 := mix_key s1 (dh eph re) in
      let '(tag, s3) := encrypt_and_hash s2 [] in
      let m' := mkM s3 (m_initiator m) (m_local_static m) (Some eph) (m_remote_static m)
                    (m_remote_eph m) (m_send m) (m_recv m) (m_hdr m) (m_body m) in
      Ok (wb handshake_version :: map wb e ++ tag, m')
    end.

  (* RecvActTwo: ee := ecdh(remoteEphemeral, localEphemeral) *)
  Definition recv_act_two (m : machine) (act : list W) : res machine :=
    recv_eph_act m act
      (fun re => match m_local_eph m with Some le => Some (dh le re) | None => None end).

  (* GenActThree *)
  Definition gen_act_three (m : machine) : res (list W * machine) :=
    match m_remote_eph m with
    | None => Err EState
    | Some re =>
      let '(ct, s1) := encrypt_and_hash (m_sym m) (ser (pub (m_local_static m))) in
      let s2 := mix_key s1 (dh (m_local_static m) re) in
      let '(tag, s3) := encrypt_and_hash s2 [] in
      Ok (wb handshake_version :: ct ++ tag, split (set_sym m s3))
    end.

  (* RecvActThree: s := act[1:50], p := act[50:] *)
  Definition recv_act_three (m : machine) (act : list W) : res machine :=
    match act with
    | [] => Err EVersion
    | v :: rest =>
      if negb (version_ok v) then Err EVersion else
      let s := firstn 49 rest in
      let p := skipn 49 rest in
      let '(r, s1) := decrypt_and_hash (m_sym m) s in
      match r with
      | None => Err EMac
      | Some pkb =>
        match parse pkb with
        | None => Err EParse
        | Some rs =>
          match m_local_eph m with
          | None => Err EState
          | Some le =>
            let s2 := mix_key s1 (dh le rs) in
            let '(r2, s3) := decrypt_and_hash s2 p in
            match r2 with
            | None => Err EMac
            | Some _ =>
              Ok (split (mkM s3 (m_initiator m) (m_local_static m) (m_local_eph m)
                             (Some rs) (m_remote_eph m) (m_send m) (m_recv m)
                             (m_hdr m) (m_body m)))
            end
          end
        end
      end
    end.

  (* ---------------- transport: sender ---------------- *)
  (* The sending half of a Machine: sendCipher + nextHeaderSend/nextBodySend. *)
  Record sender := mkSnd { sn_cs : cstate; sn_hdr : list W; sn_body : list W }.

  (* WriteMessage *)
  Definition write_message (s : sender) (p : list N) : res sender :=
    if N.ltb max_uint16 (len p) then Err ETooLong else
    match sn_hdr s, sn_body s with
    | [], [] =>
      let '(h, c1) := cs_encrypt (sn_cs s) None (be16 (len p)) in
      let '(b, c2) := cs_encrypt c1 None p in
      Ok (mkSnd c2 h b)
    | _, _ => Err ENotFlushed
    end.

  (* One call w.Write(buf) of the io.Writer handed to Flush is described by
     (k, e): the writer takes min k (len buf) bytes and reports an error iff
     e or it took fewer than len buf bytes (the io.Writer contract: a short
     write returns a non-nil error). *)
  Definition wresp := (N * bool)%type.

  Definition w_take {A} (r : wresp) (buf : list A) : N := N.min (fst r) (len buf).
  Definition w_err {A} (r : wresp) (buf : list A) : bool :=
    snd r || N.ltb (fst r) (len buf).

  Definition firstN {A} (n : N) (l : list A) := firstn (N.to_nat n) l.
  Definition skipN {A} (n : N) (l : list A) := skipn (N.to_nat n) l.

  (* the three MAC-accounting cases of Flush *)
  Definition flush_count (n start end_ : N) : N :=
    if N.ltb mac_size start && N.leb end_ mac_size then n - (mac_size - end_)
    else if N.ltb mac_size start && N.ltb mac_size end_ then n
    else 0.

  Record flush_out := mkFO {
    fo_sender : sender;
    fo_written : list W;     (* bytes the writer took during this call *)
    fo_n : N;                (* returned plaintext count *)
    fo_err : bool;           (* returned a (timeout) error *)
    fo_calls : N             (* number of w.Write calls made *)
  }.

  (* Flush(w): rh answers the header Write (if one is made), rb the body
     Write (if one is made). *)
  Definition flush (s : sender) (rh rb : wresp) : flush_out :=
    let hdr := sn_hdr s in
    let do_body (s1 : sender) (out : list W) (calls : N) :=
      match sn_body s1 with
      | [] => mkFO s1 out 0 false calls
      | body =>
        let n := w_take rb body in
        let rest := skipN n body in
        let nn := flush_count n (n + len rest) (len rest) in
        mkFO (mkSnd (sn_cs s1) (sn_hdr s1) rest) (out ++ firstN n body) nn
             (w_err rb body) (calls + 1)
      end in
    match hdr with
    | [] => do_body s [] 0
    | _ =>
      let n := w_take rh hdr in
      let s1 := mkSnd (sn_cs s) (skipN n hdr) (sn_body s) in
      if w_err rh hdr then mkFO s1 (firstN n hdr) 0 true 1
      else do_body s1 (firstN n hdr) 1
    end.

  (* releaseBuffers (also Conn.ClearPendingSend): the references to a buffered
     header / body are dropped, whatever is left of them is never written.  The
     buffer pools the byte slices are returned to are process-wide runtime
     state outside this model: here nothing is shared between two senders. *)
  Definition release_buffers (s : sender) : sender := mkSnd (sn_cs s) [] [].

  (* ---------------- transport: receiver ---------------- *)
  (* ReadHeader on a reader holding [stream]; returns the rest of the stream.
     io.ReadFull consumes whatever is there when it hits EOF. *)
  Definition read_header (c : cstate) (stream : list W)
    : res N * cstate * list W :=
    if N.ltb (len stream) enc_header_size then (Err EEof, c, [])
    else
      let '(r, c') := cs_decrypt c None (firstN enc_header_size stream) in
      let rest := skipN enc_header_size stream in
      match r with
      | None => (Err EMac, c', rest)
      | Some pl =>
        match of_be16 pl with
        | None => (Err EMac, c', rest)   (* unreachable for a real AEAD *)
        | Some l => (Ok (l + mac_size), c', rest)
        end
      end.

  (* ReadBody with a buffer of pkt_len bytes *)
  Definition read_body (c : cstate) (stream : list W) (pkt_len : N)
    : res (list N) * cstate * list W :=
    if N.ltb (len stream) pkt_len then (Err EEof, c, [])
    else
      let '(r, c') := cs_decrypt c None (firstN pkt_len stream) in
      let rest := skipN pkt_len stream in
      match r with
      | None => (Err EMac, c', rest)
      | Some p => (Ok p, c', rest)
      end.

  (* ReadMessage *)
  Definition read_message (c : cstate) (stream : list W)
    : res (list N) * cstate * list W :=
    match read_header c stream with
    | (Err e, c', rest) => (Err e, c', rest)
    | (Ok l, c', rest) => read_body c' rest l
    end.

  (* ---------------- brontide.Conn (conn.go) ---------------- *)
  (* The net.Conn under a Conn is described, for writing, by the list of its
     answers to successive Write calls (missing answers: takes everything),
     and for reading by the bytes it will deliver before EOF. *)
  Definition w_all : wresp := (4294967296, false).

  (* c.noise.Flush(c.conn): the header Write (if a header is pending) consumes
     the first answer, the body Write (if made) the next one *)
  Definition flush_l (s : sender) (rs : list wresp) : flush_out * list wresp :=
    let rh := nth 0 rs w_all in
    let rb := match sn_hdr s with [] => nth 0 rs w_all | _ => nth 1 rs w_all end in
    let fo := flush s rh rb in
    (fo, skipN (fo_calls fo) rs).

  Record cw_out := mkCW {
    cw_snd : sender;
    cw_written : list W;        (* bytes the net.Conn took during this call *)
    cw_n : N;                   (* returned count *)
    cw_err : cerr;              (* returned error *)
    cw_msgs : list (list N);    (* ghost: chunks accepted by WriteMessage *)
    cw_calls : N;               (* net.Conn Write calls made *)
    cw_rest : list wresp        (* answers not consumed *)
  }.

  (* the chunking loop of Conn.Write: written = bytesWritten, chunk = chunkSize *)
  Fixpoint conn_write_loop (fuel : nat) (s : sender) (b : list N) (written chunk : N)
           (rs : list wresp) (out : list W) (msgs : list (list N)) (calls : N) : cw_out :=
    match fuel with
    | O => mkCW s out written CFuel msgs calls rs
    | S f =>
      if N.ltb written (len b) then
        let chunk' := if N.ltb (len b) (written + chunk) then len b - written else chunk in
        let c := firstN chunk' (skipN written b) in
        match write_message s c with
        | Err e => mkCW s out written (CMach e) msgs calls rs
        | Ok s1 =>
          let '(fo, rs') := flush_l s1 rs in
          let written' := written + fo_n fo in
          let out' := out ++ fo_written fo in
          if fo_err fo
          then mkCW (fo_sender fo) out' written' CWriter (msgs ++ [c]) (calls + fo_calls fo) rs'
          else conn_write_loop f (fo_sender fo) b written' chunk' rs' out' (msgs ++ [c])
                               (calls + fo_calls fo)
        end
      else mkCW s out written CNone msgs calls rs
    end.

  (* Conn.Write(b) *)
  Definition conn_write (s : sender) (b : list N) (rs : list wresp) : cw_out :=
    if N.leb (len b) max_uint16 then
      match write_message s b with
      | Err e => mkCW s [] 0 (CMach e) [] 0 rs
      | Ok s1 =>
        let '(fo, rs') := flush_l s1 rs in
        mkCW (fo_sender fo) (fo_written fo) (fo_n fo) (if fo_err fo then CWriter else CNone)
             [b] (fo_calls fo) rs'
      end
    else conn_write_loop (S (length b)) s b 0 max_uint16 rs [] [] 0.

  (* bytes.Buffer.Read(p) with len(p) = k on the read buffer: an empty buffer
     gives io.EOF unless k = 0 *)
  Definition buf_read (buf : list N) (k : N) : res (list N) * list N :=
    match buf with
    | [] => if N.eqb k 0 then (Ok [], []) else (Err EEof, [])
    | _ => (Ok (firstN k buf), skipN k buf)
    end.

  (* the reading half of a Conn: recvCipher, readBuf, what the net.Conn holds *)
  Record creader := mkCR { cr_cs : cstate; cr_buf : list N; cr_stream : list W }.

  (* Conn.Read(b) with len(b) = k *)
  Definition conn_read (r : creader) (k : N) : res (list N) * creader :=
    match cr_buf r with
    | [] =>
      match read_message (cr_cs r) (cr_stream r) with
      | (Err e, c', rest) => (Err e, mkCR c' [] rest)
      | (Ok p, c', rest) => let '(o, buf') := buf_read p k in (o, mkCR c' buf' rest)
      end
    | buf => let '(o, buf') := buf_read buf k in (o, mkCR (cr_cs r) buf' (cr_stream r))
    end.

  (* ReadNextMessage / ReadNextHeader / ReadNextBody go straight to the
     Machine; readBuf is not consulted *)
  Definition conn_read_next_message (r : creader) : res (list N) * creader :=
    let '(o, c', rest) := read_message (cr_cs r) (cr_stream r) in (o, mkCR c' (cr_buf r) rest).
  Definition conn_read_next_header (r : creader) : res N * creader :=
    let '(o, c', rest) := read_header (cr_cs r) (cr_stream r) in (o, mkCR c' (cr_buf r) rest).
  Definition conn_read_next_body (r : creader) (pkt_len : N) : res (list N) * creader :=
    let '(o, c', rest) := read_body (cr_cs r) (cr_stream r) pkt_len in (o, mkCR c' (cr_buf r) rest).

  (* successive Conn.Read calls with buffer sizes ks *)
  Fixpoint conn_reads (ks : list N) (r : creader) : list (res (list N)) * creader :=
    match ks with
    | [] => ([], r)
    | k :: ks' =>
      let '(o, r') := conn_read r k in
      let '(os, r'') := conn_reads ks' r' in
      (o :: os, r'')
    end.

  (* ---------------- specification-side definitions ---------------- *)
  (* the honest encoding of one message under cipher state c *)
  Definition frame (c : cstate) (p : list N) : list W * cstate :=
    let '(h, c1) := cs_encrypt c None (be16 (len p)) in
    let '(b, c2) := cs_encrypt c1 None p in
    (h ++ b, c2).

  Fixpoint ideal_stream (c : cstate) (msgs : list (list N)) : list W * cstate :=
    match msgs with
    | [] => ([], c)
    | p :: r =>
      let '(f, c') := frame c p in
      let '(s, c'') := ideal_stream c' r in
      (f ++ s, c'')
    end.

  (* n successful ReadMessage calls *)
  Fixpoint read_n (n : nat) (c : cstate) (stream : list W)
    : option (list (list N) * cstate * list W) :=
    match n with
    | O => Some ([], c, stream)
    | S k =>
      match read_message c stream with
      | (Ok p, c', rest) =>
        match read_n k c' rest with
        | Some (ps, c'', rest') => Some (p :: ps, c'', rest')
        | None => None
        end
      | (Err _, _, _) => None
      end
    end.

  (* position of a cipher state in its (epoch, nonce) order *)
  Definition cs_pos (c : cstate) : N * N := (cs_epoch c, cs_nonce c).

  (* sender op sequences: any interleaving of WriteMessage and Flush *)
  Inductive sop :=
  | SWrite (p : list N)
  | SFlush (rh rb : wresp).

  (* ghost state around a sender: everything the writer has taken so far, the
     messages WriteMessage accepted, the plaintext counts Flush returned, and
     the (epoch, nonce) pairs handed to Seal. *)
  Record srun := mkRun {
    r_snd : sender;
    r_wire : list W;
    r_accepted : list (list N);
    r_counted : N;
    r_used : list (N * N)
  }.

  Definition srun_step (r : srun) (o : sop) : srun :=
    match o with
    | SWrite p =>
      match write_message (r_snd r) p with
      | Ok s' =>
        let c := sn_cs (r_snd r) in
        mkRun s' (r_wire r) (r_accepted r ++ [p]) (r_counted r)
              (r_used r ++ [cs_pos c; cs_pos (advance c)])
      | Err _ => r
      end
    | SFlush rh rb =>
      let fo := flush (r_snd r) rh rb in
      mkRun (fo_sender fo) (r_wire r ++ fo_written fo) (r_accepted r)
            (r_counted r + fo_n fo) (r_used r)
    end.

  Definition srun_init (c : cstate) : srun := mkRun (mkSnd c [] []) [] [] 0 [].

  Definition srun_all (c : cstate) (ops : list sop) : srun :=
    fold_left srun_step ops (srun_init c).
End Noise.

Arguments mkCS {K}.
Arguments cs_nonce {K}.
Arguments cs_key {K}.
Arguments cs_salt {K}.
Arguments cs_epoch {K}.
Arguments mkSnd {K W}.
Arguments sn_cs {K W}.
Arguments sn_hdr {K W}.
Arguments sn_body {K W}.
