(* C11: the three-act handshake of the Noise model.
   handshake_agrees : functional crypto only (Open(Seal) = id, ECDH commutes,
                      parse(ser) = id).
   handshake_rejects: ideal AEAD with key binding, injective ECDH/HKDF. *)
From Coq Require Import List NArith ZArith Bool Lia.
From Coq Require Import ZifyBool ZifyN ZifyNat.
From LV Require Import Noise.Model Noise.Spec Noise.Proofs.
Import ListNotations.
Local Open Scope N_scope.

Lemma firstn_app_len : forall A n (a b : list A), length a = n -> firstn n (a ++ b) = a.
Proof.
  intros A n a b H. subst n. rewrite firstn_app, Nat.sub_diag, firstn_all. cbn.
  apply app_nil_r.
Qed.

Lemma skipn_app_len : forall A n (a b : list A), length a = n -> skipn n (a ++ b) = b.
Proof.
  intros A n a b H. subst n. rewrite skipn_app, Nat.sub_diag, skipn_all. reflexivity.
Qed.

Section Hs.
  Variables (K W SK PK : Type).
  Variable wb : N -> W.
  Variable wv : W -> option N.
  Variable enc : K -> N -> option K -> list N -> list W.
  Variable dec : K -> N -> option K -> list W -> option (list N).
  Variable hkdf : K -> option K -> K * K.
  Variable zeroK : K.
  Variable h0 : K.
  Variable mixb : K -> list N -> K.
  Variable mixc : K -> list W -> K.
  Variable pub : SK -> PK.
  Variable dh : SK -> PK -> K.
  Variable ser : PK -> list N.
  Variable parse : list N -> option PK.

  Notation mach := (machine K W SK PK).
  Notation sst := (sstate K).
  Notation eah := (encrypt_and_hash K W enc hkdf mixc).
  Notation dah := (decrypt_and_hash K W dec hkdf mixc).
  Notation mixk := (mix_key K hkdf).
  Notation mixhb := (mix_hash_b K mixb).
  Notation new_i := (new_initiator K W SK PK zeroK h0 mixb ser).
  Notation new_r := (new_responder K W SK PK zeroK h0 mixb pub ser).
  Notation gen1 := (gen_act_one K W SK PK wb enc hkdf mixb mixc pub dh ser).
  Notation rcv1 := (recv_act_one K W SK PK wv dec hkdf mixb mixc dh ser parse).
  Notation gen2 := (gen_act_two K W SK PK wb enc hkdf mixb mixc pub dh ser).
  Notation rcv2 := (recv_act_two K W SK PK wv dec hkdf mixb mixc dh ser parse).
  Notation gen3 := (gen_act_three K W SK PK wb enc hkdf mixc pub dh ser).
  Notation rcv3 := (recv_act_three K W SK PK wv dec hkdf mixc dh parse).
  Notation rcv_eph := (recv_eph_act K W SK PK wv dec hkdf mixb mixc ser parse).
  Notation splt := (split K W SK PK hkdf).

  Notation hs_honest :=
    (Spec.hs_honest K W SK PK wb wv enc dec hkdf zeroK h0 mixb mixc pub dh ser parse).

  Hypothesis wv_wb : forall n, wv (wb n) = Some n.

  Lemma unwrap_map_wb : forall l, unwrap_bytes W wv (map wb l) = Some l.
  Proof.
    induction l as [| b l IH]; cbn; [reflexivity |]. rewrite wv_wb, IH. reflexivity.
  Qed.

  Lemma version_ok_wb0 : version_ok W wv (wb handshake_version) = true.
  Proof. unfold version_ok. rewrite wv_wb. reflexivity. Qed.

  Lemma version_bad : forall w, wv w <> Some handshake_version -> version_ok W wv w = false.
  Proof.
    intros w H. unfold version_ok. destruct (wv w) as [v |]; [| reflexivity].
    destruct (N.eqb_spec v handshake_version); [subst; contradiction | reflexivity].
  Qed.

  (* a version byte other than 0 makes every Recv fail at once *)
  Lemma version_rejected : forall (m : mach) w rest,
      wv w <> Some handshake_version ->
      rcv1 m (w :: rest) = Err EVersion /\ rcv2 m (w :: rest) = Err EVersion /\
      rcv3 m (w :: rest) = Err EVersion.
  Proof.
    intros m w rest H. unfold recv_act_one, recv_act_two, recv_eph_act, recv_act_three.
    rewrite (version_bad w H). cbn. repeat split; reflexivity.
  Qed.

  Section Functional.
    Hypothesis dec_enc : forall k n ad p, dec k n ad (enc k n ad p) = Some p.
    Hypothesis enc_len : forall k n ad p, len (enc k n ad p) = len p + mac_size.
    Hypothesis ser_len : forall p, length (ser p) = 33%nat.
    Hypothesis parse_ser : forall p, parse (ser p) = Some p.
    Hypothesis dh_comm : forall a b, dh a (pub b) = dh b (pub a).

    Lemma dah_eah : forall (s : sst) p,
        dah s (fst (eah s p)) = (Some p, snd (eah s p)).
    Proof.
      intros s p. unfold encrypt_and_hash, decrypt_and_hash, cs_encrypt, cs_decrypt.
      cbn [fst snd]. rewrite dec_enc. reflexivity.
    Qed.

    Lemma enc_length : forall k n ad p, length (enc k n ad p) = (length p + 16)%nat.
    Proof.
      intros. pose proof (enc_len k n ad p) as H. unfold len, mac_size in H. lia.
    Qed.

    Lemma eah_length : forall (s : sst) p, length (fst (eah s p)) = (length p + 16)%nat.
    Proof.
      intros s p. unfold encrypt_and_hash, cs_encrypt. cbn [fst]. apply enc_length.
    Qed.

    Lemma recv_eph_ok : forall (m : mach) e k dhk,
        dhk e = Some k ->
        let s2 := mixk (mixhb (m_sym _ _ _ _ m) (ser e)) k in
        rcv_eph m (wb handshake_version :: map wb (ser e) ++ fst (eah s2 [])) dhk
        = Ok (mkM K W SK PK (snd (eah s2 [])) (m_initiator _ _ _ _ m) (m_local_static _ _ _ _ m)
                  (m_local_eph _ _ _ _ m) (m_remote_static _ _ _ _ m) (Some e)
                  (m_send _ _ _ _ m) (m_recv _ _ _ _ m) (m_hdr _ _ _ _ m) (m_body _ _ _ _ m)).
    Proof.
      intros m e k dhk Hk s2. unfold recv_eph_act.
      rewrite version_ok_wb0. cbn [negb].
      assert (Hl : length (map wb (ser e)) = 33%nat) by (rewrite map_length; apply ser_len).
      rewrite (firstn_app_len _ _ _ _ Hl), (skipn_app_len _ _ _ _ Hl).
      unfold parse_w. rewrite unwrap_map_wb, parse_ser, Hk.
      fold s2. rewrite dah_eah. reflexivity.
    Qed.

    Theorem handshake_agrees : forall ls rs ei er,
        exists a1 a2 a3 i3 r3,
          hs_honest ls rs ei er (pub rs) = Ok (a1, a2, a3, i3, r3) /\
          m_send _ _ _ _ i3 = m_recv _ _ _ _ r3 /\
          m_recv _ _ _ _ i3 = m_send _ _ _ _ r3 /\
          m_remote_static _ _ _ _ r3 = Some (pub ls) /\
          length a1 = 50%nat /\ length a2 = 50%nat /\ length a3 = 66%nat.
    Proof.
      intros ls rs ei er. unfold hs_honest.
      (* act one *)
      unfold gen_act_one at 1. cbn [new_initiator m_remote_static m_sym].
      set (sI0 := mixhb (mixhb (initialize_symmetric K zeroK h0) prologue) (ser (pub rs))).
      set (s2 := mixk (mixhb sI0 (ser (pub ei))) (dh ei (pub rs))).
      destruct (eah s2 []) as [tag1 s3] eqn:E1.
      unfold recv_act_one.
      pose proof (recv_eph_ok (new_r rs) (pub ei) (dh rs (pub ei))
                              (fun re => Some (dh (m_local_static _ _ _ _ (new_r rs)) re)) eq_refl) as R1.
      cbn [new_responder m_sym m_local_static m_initiator m_local_eph m_remote_static m_send
                         m_recv m_hdr m_body] in R1.
      fold sI0 in R1. rewrite <- (dh_comm ei rs) in R1. fold s2 in R1. rewrite E1 in R1.
      cbn [fst snd] in R1. cbn [new_responder m_local_static]. rewrite R1. clear R1.
      (* act two *)
      unfold gen_act_two at 1. cbn [m_remote_eph m_sym].
      set (t2 := mixk (mixhb s3 (ser (pub er))) (dh er (pub ei))).
      destruct (eah t2 []) as [tag2 t3] eqn:E2.
      unfold recv_act_two.
      cbn [new_initiator m_local_eph m_sym m_initiator m_local_static m_remote_static m_remote_eph
                       m_send m_recv m_hdr m_body].
      pose proof (recv_eph_ok
                    (mkM K W SK PK s3 true ls (Some ei) (Some (pub rs)) None
                         (cs_zero K zeroK) (cs_zero K zeroK) [] [])
                    (pub er) (dh ei (pub er))
                    (fun re => Some (dh ei re)) eq_refl) as R2.
      cbn [m_sym m_local_static m_initiator m_local_eph m_remote_static m_send
                 m_recv m_hdr m_body] in R2.
      rewrite (dh_comm ei er) in R2. fold t2 in R2. rewrite E2 in R2. cbn [fst snd] in R2.
      rewrite R2. clear R2.
      (* act three *)
      unfold gen_act_three. cbn [m_remote_eph m_sym m_local_static].
      destruct (eah t3 (ser (pub ls))) as [ct u1] eqn:E3.
      set (u2 := mixk u1 (dh ls (pub er))).
      destruct (eah u2 []) as [tag3 u3] eqn:E4.
      unfold recv_act_three. rewrite version_ok_wb0. cbn [negb m_sym].
      assert (Hct : length ct = 49%nat).
      { pose proof (eah_length t3 (ser (pub ls))) as H. rewrite E3 in H. cbn [fst] in H.
        rewrite ser_len in H. exact H. }
      rewrite (firstn_app_len _ _ _ _ Hct), (skipn_app_len _ _ _ _ Hct).
      pose proof (dah_eah t3 (ser (pub ls))) as D3. rewrite E3 in D3. cbn [fst snd] in D3.
      rewrite D3, parse_ser. cbn [m_local_eph].
      rewrite (dh_comm er ls). fold u2.
      pose proof (dah_eah u2 []) as D4. rewrite E4 in D4. cbn [fst snd] in D4. rewrite D4.
      do 5 eexists. split; [reflexivity |].
      unfold split, set_sym. cbn [m_sym m_initiator m_send m_recv m_remote_static].
      destruct (hkdf (ss_ck K u3) None) as [k1 k2].
      cbn [m_send m_recv m_remote_static].
      assert (Ht1 : length tag1 = 16%nat).
      { pose proof (eah_length s2 []) as H. rewrite E1 in H. exact H. }
      assert (Ht2 : length tag2 = 16%nat).
      { pose proof (eah_length t2 []) as H. rewrite E2 in H. exact H. }
      assert (Ht3 : length tag3 = 16%nat).
      { pose proof (eah_length u2 []) as H. rewrite E4 in H. exact H. }
      repeat split; cbn [length]; rewrite ?app_length, ?map_length, ?ser_len; lia.
    Qed.
  End Functional.

  Section Ideal.
    (* ideal AEAD: Open succeeds only on the Seal output for the same key,
       nonce and associated data ... *)
    Hypothesis ideal_aead : forall k n ad c p, dec k n ad c = Some p -> c = enc k n ad p.
    (* ... and a ciphertext is bound to its key *)
    Hypothesis enc_key_inj : forall k k' n ad ad' p p', enc k n ad p = enc k' n ad' p' -> k = k'.
    Hypothesis enc_len : forall k n ad p, len (enc k n ad p) = len p + mac_size.
    Hypothesis ser_len : forall p, length (ser p) = 33%nat.
    Hypothesis parse_ser : forall p, parse (ser p) = Some p.
    Hypothesis dh_comm : forall a b, dh a (pub b) = dh b (pub a).
    (* ECDH with a fixed secret separates public keys; HKDF separates inputs *)
    Hypothesis dh_inj : forall a P P', dh a P = dh a P' -> P = P'.
    Hypothesis hkdf_inj : forall s a b, snd (hkdf s (Some a)) = snd (hkdf s (Some b)) -> a = b.
    (* Open(Seal p) = p; a 33-byte string parses to at most one point
       (compressed encoding is canonical) *)
    Hypothesis dec_enc : forall k n ad p, dec k n ad (enc k n ad p) = Some p.
    Hypothesis parse_inj : forall (a b : list N) (P : PK),
        length a = 33%nat -> length b = 33%nat -> parse a = Some P -> parse b = Some P -> a = b.

    (* RecvActOne/Two on [0 | ser e | tag']: accepted only if tag' is the Seal
       output under the receiver's own derived key and digest *)
    Lemma recv_eph_accept_inv : forall (m : mach) e tag' dhk k m',
        dhk e = Some k -> length tag' = 16%nat ->
        rcv_eph m (wb handshake_version :: map wb (ser e) ++ tag') dhk = Ok m' ->
        let s2 := mixk (mixhb (m_sym _ _ _ _ m) (ser e)) k in
        tag' = fst (eah s2 []).
    Proof.
      intros m e tag' dhk k m' Hk Hl Hr s2. unfold recv_eph_act in Hr.
      rewrite version_ok_wb0 in Hr. cbn [negb] in Hr.
      assert (Hl33 : length (map wb (ser e)) = 33%nat) by (rewrite map_length; apply ser_len).
      rewrite (firstn_app_len _ _ _ _ Hl33), (skipn_app_len _ _ _ _ Hl33) in Hr.
      unfold parse_w in Hr. rewrite unwrap_map_wb, parse_ser, Hk in Hr. fold s2 in Hr.
      unfold decrypt_and_hash, cs_decrypt in Hr.
      destruct (dec (cs_key (ss_cs K s2)) (cs_nonce (ss_cs K s2)) (Some (ss_h K s2)) tag')
        as [p |] eqn:Ed; [| discriminate].
      apply ideal_aead in Ed.
      assert (Hp : p = []).
      { pose proof (enc_len (cs_key (ss_cs K s2)) (cs_nonce (ss_cs K s2)) (Some (ss_h K s2)) p) as H.
        rewrite <- Ed in H. unfold len, mac_size in H. destruct p; [reflexivity | cbn in H; lia]. }
      subst p. unfold encrypt_and_hash, cs_encrypt. cbn [fst]. exact Ed.
    Qed.

    Lemma mixk_key : forall (s : sst) a,
        cs_key (ss_cs K (mixk s a)) = snd (hkdf (ss_ck K s) (Some a)) /\
        cs_nonce (ss_cs K (mixk s a)) = 0.
    Proof.
      intros s a. unfold mix_key. destruct (hkdf (ss_ck K s) (Some a)) as [ck tk].
      cbn. split; reflexivity.
    Qed.

    (* two Seal outputs made right after mixKey under the same chaining key
       coincide only if the ECDH inputs coincide *)
    Lemma eah_mixk_inj : forall (s s' : sst) a b,
        ss_ck K s = ss_ck K s' ->
        fst (eah (mixk s a) []) = fst (eah (mixk s' b) []) -> a = b.
    Proof.
      intros s s' a b Hck H. unfold encrypt_and_hash, cs_encrypt in H. cbn [fst] in H.
      destruct (mixk_key s a) as (Ka & Na). destruct (mixk_key s' b) as (Kb & Nb).
      rewrite Na, Nb in H. apply enc_key_inj in H. rewrite Ka, Kb, Hck in H.
      apply hkdf_inj in H. exact H.
    Qed.


    (* ---------------- act three ---------------- *)
    Notation a3ct := (act3_ct K W SK PK enc hkdf mixc ser).
    Notation a3tag := (act3_tag K W SK PK enc hkdf mixc dh ser).

    Lemma enc_length_i : forall k n ad p, length (enc k n ad p) = (length p + 16)%nat.
    Proof.
      intros. pose proof (enc_len k n ad p) as H. unfold len, mac_size in H. lia.
    Qed.

    Lemma a3ct_length : forall (m : mach) P, length (a3ct m P) = 49%nat.
    Proof.
      intros m P. unfold act3_ct, encrypt_and_hash, cs_encrypt. cbn [fst].
      rewrite enc_length_i, ser_len. reflexivity.
    Qed.

    Lemma eah_ck : forall (s : sst) p, ss_ck K (snd (eah s p)) = ss_ck K s.
    Proof. intros s p. unfold encrypt_and_hash, cs_encrypt, mix_hash_c. reflexivity. Qed.

    Lemma split_remote_static : forall (m : mach),
        m_remote_static _ _ _ _ (splt m) = m_remote_static _ _ _ _ m.
    Proof.
      intros m. unfold split. destruct (hkdf (ss_ck K (m_sym _ _ _ _ m)) None) as [k1 k2].
      destruct (m_initiator _ _ _ _ m); reflexivity.
    Qed.

    (* RecvActThree never reports anything but a MAC or a parse error on an
       act with version byte 0 *)
    Lemma recv3_err_class : forall (m : mach) le rest e,
        m_local_eph _ _ _ _ m = Some le ->
        rcv3 m (wb handshake_version :: rest) = Err e -> e = EMac \/ e = EParse.
    Proof.
      intros m le rest e Hle. unfold recv_act_three. rewrite version_ok_wb0. cbn [negb].
      destruct (dah (m_sym _ _ _ _ m) (firstn 49 rest)) as [[pkb |] s1];
        [| intros H; inversion H; auto].
      destruct (parse pkb) as [rs |]; [| intros H; inversion H; auto].
      rewrite Hle.
      destruct (dah (mixk s1 (dh le rs)) (skipn 49 rest)) as [[p2 |] s3]; intros H; inversion H; auto.
    Qed.

    (* the ONLY act three a responder accepts is, byte for byte, the one an
       honest initiator with some static key P computes from the same
       transcript; P is the key the responder then records *)
    Lemma recv3_accept_inv : forall (m : mach) le c' t' m',
        m_local_eph _ _ _ _ m = Some le ->
        length c' = 49%nat -> length t' = 16%nat ->
        rcv3 m (wb handshake_version :: c' ++ t') = Ok m' ->
        exists P, c' = a3ct m P /\ t' = a3tag m le P /\ m_remote_static _ _ _ _ m' = Some P.
    Proof.
      intros m le c' t' m' Hle Hc Ht. unfold recv_act_three.
      rewrite version_ok_wb0. cbn [negb].
      rewrite (firstn_app_len _ _ _ _ Hc), (skipn_app_len _ _ _ _ Hc).
      unfold decrypt_and_hash at 1. unfold cs_decrypt.
      set (s0 := m_sym _ _ _ _ m).
      destruct (dec (cs_key (ss_cs K s0)) (cs_nonce (ss_cs K s0)) (Some (ss_h K s0)) c')
        as [pkb |] eqn:Ed; [| discriminate].
      apply ideal_aead in Ed.
      assert (Hpkb : length pkb = 33%nat).
      { pose proof (enc_length_i (cs_key (ss_cs K s0)) (cs_nonce (ss_cs K s0)) (Some (ss_h K s0)) pkb) as H.
        rewrite <- Ed, Hc in H. lia. }
      destruct (parse pkb) as [P |] eqn:Ep; [| discriminate].
      rewrite Hle.
      assert (Epk : pkb = ser P).
      { apply (parse_inj pkb (ser P) P); auto. }
      subst pkb.
      assert (Ect : c' = a3ct m P).
      { unfold act3_ct, encrypt_and_hash, cs_encrypt. cbn [fst]. exact Ed. }
      assert (Es1 : mix_hash_c K W mixc
                      (mkSS K (advance K hkdf (ss_cs K s0)) (ss_ck K s0) (ss_h K s0)) c'
                    = snd (eah s0 (ser P))).
      { unfold encrypt_and_hash, cs_encrypt. cbn [snd]. rewrite <- Ed. reflexivity. }
      rewrite Es1.
      set (s2 := mixk (snd (eah s0 (ser P))) (dh le P)).
      unfold decrypt_and_hash, cs_decrypt.
      destruct (dec (cs_key (ss_cs K s2)) (cs_nonce (ss_cs K s2)) (Some (ss_h K s2)) t')
        as [p2 |] eqn:Ed2; [| discriminate].
      apply ideal_aead in Ed2.
      assert (Hp2 : p2 = []).
      { pose proof (enc_length_i (cs_key (ss_cs K s2)) (cs_nonce (ss_cs K s2)) (Some (ss_h K s2)) p2) as H.
        rewrite <- Ed2, Ht in H. destruct p2; [reflexivity | cbn in H; lia]. }
      subst p2. intros H. inversion H; subst m'; clear H.
      exists P. split; [exact Ect |]. split.
      - unfold act3_tag. fold s0. fold s2. unfold encrypt_and_hash, cs_encrypt. cbn [fst]. exact Ed2.
      - rewrite split_remote_static. reflexivity.
    Qed.

    (* the final MAC of act three changed in any way: refused *)
    Lemma recv3_tag_changed : forall (m : mach) le P t',
        m_local_eph _ _ _ _ m = Some le ->
        length t' = 16%nat -> t' <> a3tag m le P ->
        rcv3 m (wb handshake_version :: a3ct m P ++ t') = Err EMac.
    Proof.
      intros m le P t' Hle Ht Hne.
      destruct (rcv3 m (wb handshake_version :: a3ct m P ++ t')) as [m' | e] eqn:Er.
      - exfalso.
        destruct (recv3_accept_inv m le _ _ m' Hle (a3ct_length m P) Ht Er) as (P' & Ec & Et & _).
        (* same ciphertext => same plaintext => same key *)
        unfold act3_ct, encrypt_and_hash, cs_encrypt in Ec. cbn [fst] in Ec.
        assert (Es : Some (ser P) = Some (ser P')).
        { rewrite <- (dec_enc (cs_key (ss_cs K (m_sym _ _ _ _ m))) (cs_nonce (ss_cs K (m_sym _ _ _ _ m)))
                              (Some (ss_h K (m_sym _ _ _ _ m))) (ser P)).
          rewrite Ec. apply dec_enc. }
        inversion Es as [Es'].
        assert (EP : Some P = Some P') by (rewrite <- (parse_ser P), Es'; apply parse_ser).
        inversion EP; subst P'. contradiction.
      - revert Er. unfold recv_act_three. rewrite version_ok_wb0. cbn [negb].
        rewrite (firstn_app_len _ _ _ _ (a3ct_length m P)), (skipn_app_len _ _ _ _ (a3ct_length m P)).
        unfold act3_ct. rewrite (dah_eah dec_enc). rewrite parse_ser, Hle.
        destruct (dah _ t') as [[p2 |] s3]; intros H; inversion H; reflexivity.
    Qed.

    (* the encrypted static key of act three (49 bytes: ciphertext and its
       MAC) changed in any way while the final MAC is kept: refused *)
    Lemma recv3_ct_changed : forall (m : mach) le P c',
        m_local_eph _ _ _ _ m = Some le ->
        length c' = 49%nat -> c' <> a3ct m P ->
        exists e, rcv3 m (wb handshake_version :: c' ++ a3tag m le P) = Err e /\
                  (e = EMac \/ e = EParse).
    Proof.
      intros m le P c' Hle Hc Hne.
      assert (Ht : length (a3tag m le P) = 16%nat).
      { unfold act3_tag, encrypt_and_hash at 1, cs_encrypt. cbn [fst]. rewrite enc_length_i. reflexivity. }
      destruct (rcv3 m (wb handshake_version :: c' ++ a3tag m le P)) as [m' | e] eqn:Er.
      - exfalso.
        destruct (recv3_accept_inv m le _ _ m' Hle Hc Ht Er) as (P' & Ec & Et & _).
        unfold act3_tag in Et. apply eah_mixk_inj in Et; [| rewrite !eah_ck; reflexivity].
        apply dh_inj in Et. subst P'. contradiction.
      - exists e. split; [reflexivity |]. eapply recv3_err_class; eassumption.
    Qed.

    Theorem handshake_rejects :
      (* (a) dialling any static key other than the responder's: act one is refused *)
      (forall ls rs ei target a1 i1,
          target <> pub rs ->
          gen1 (new_i ls target) ei = Ok (a1, i1) ->
          rcv1 (new_r rs) a1 = Err EMac) /\
      (* (b) a version byte other than 0 is refused by every act *)
      (forall (m : mach) w rest,
          wv w <> Some handshake_version ->
          rcv1 m (w :: rest) = Err EVersion /\ rcv2 m (w :: rest) = Err EVersion /\
          rcv3 m (w :: rest) = Err EVersion) /\
      (* (c) act one / act two with the MAC bytes changed in any way are refused *)
      (forall (m : mach) e tag',
          length tag' = 16%nat ->
          tag' <> fst (eah (mixk (mixhb (m_sym _ _ _ _ m) (ser e))
                                 (dh (m_local_static _ _ _ _ m) e)) []) ->
          rcv1 m (wb handshake_version :: map wb (ser e) ++ tag') = Err EMac) /\
      (forall (m : mach) le e tag',
          m_local_eph _ _ _ _ m = Some le ->
          length tag' = 16%nat ->
          tag' <> fst (eah (mixk (mixhb (m_sym _ _ _ _ m) (ser e)) (dh le e)) []) ->
          rcv2 m (wb handshake_version :: map wb (ser e) ++ tag') = Err EMac) /\
      (* (d) act one / act two with the ephemeral key replaced (the MAC kept) are refused *)
      (forall (m : mach) e e' tag,
          e' <> e ->
          tag = fst (eah (mixk (mixhb (m_sym _ _ _ _ m) (ser e))
                               (dh (m_local_static _ _ _ _ m) e)) []) ->
          rcv1 m (wb handshake_version :: map wb (ser e') ++ tag) = Err EMac) /\
      (forall (m : mach) le e e' tag,
          m_local_eph _ _ _ _ m = Some le ->
          e' <> e ->
          tag = fst (eah (mixk (mixhb (m_sym _ _ _ _ m) (ser e)) (dh le e)) []) ->
          rcv2 m (wb handshake_version :: map wb (ser e') ++ tag) = Err EMac) /\
      (* (e) an accepted act three is byte for byte the honest one of the static key learnt *)
      (forall (m : mach) le c' t' m',
          m_local_eph _ _ _ _ m = Some le ->
          length c' = 49%nat -> length t' = 16%nat ->
          rcv3 m (wb handshake_version :: c' ++ t') = Ok m' ->
          exists P, c' = a3ct m P /\ t' = a3tag m le P /\ m_remote_static _ _ _ _ m' = Some P) /\
      (* (f) act three with the encrypted static key (ciphertext or its MAC) changed, final MAC kept *)
      (forall (m : mach) le P c',
          m_local_eph _ _ _ _ m = Some le ->
          length c' = 49%nat -> c' <> a3ct m P ->
          exists e, rcv3 m (wb handshake_version :: c' ++ a3tag m le P) = Err e /\
                    (e = EMac \/ e = EParse)) /\
      (* (g) act three with the final MAC changed *)
      (forall (m : mach) le P t',
          m_local_eph _ _ _ _ m = Some le ->
          length t' = 16%nat -> t' <> a3tag m le P ->
          rcv3 m (wb handshake_version :: a3ct m P ++ t') = Err EMac).
    Proof.
      assert (Hlen16 : forall (s : sst), length (fst (eah s [])) = 16%nat).
      { intros s. unfold encrypt_and_hash, cs_encrypt. cbn [fst].
        pose proof (enc_len (cs_key (ss_cs K s)) (cs_nonce (ss_cs K s)) (Some (ss_h K s)) []) as H.
        unfold len, mac_size in H. cbn [length] in H. lia. }
      (* a Recv that does not return Ok on a well-formed act returns EMac *)
      assert (Hmac : forall (m : mach) e tag' dhk k,
                 dhk e = Some k ->
                 (forall m', rcv_eph m (wb handshake_version :: map wb (ser e) ++ tag') dhk <> Ok m') ->
                 rcv_eph m (wb handshake_version :: map wb (ser e) ++ tag') dhk = Err EMac).
      { intros m e tag' dhk k Hk Hno. revert Hno. unfold recv_eph_act.
        rewrite version_ok_wb0. cbn [negb].
        assert (Hl33 : length (map wb (ser e)) = 33%nat) by (rewrite map_length; apply ser_len).
        rewrite (firstn_app_len _ _ _ _ Hl33), (skipn_app_len _ _ _ _ Hl33).
        unfold parse_w. rewrite unwrap_map_wb, parse_ser, Hk.
        destruct (dah _ tag') as [[p |] s3]; intros Hno; [| reflexivity].
        exfalso. eapply Hno. reflexivity. }
      split; [| split; [exact version_rejected | split; [| split; [| split; [| split; [|
        split; [exact recv3_accept_inv | split; [exact recv3_ct_changed | exact recv3_tag_changed]]]]]]]].
      - (* (a) *)
        intros ls rs ei target a1 i1 Hne Hg.
        unfold gen_act_one in Hg. cbn [new_initiator m_remote_static m_sym] in Hg.
        set (sI0 := mixhb (mixhb (initialize_symmetric K zeroK h0) prologue) (ser target)) in *.
        set (s2 := mixk (mixhb sI0 (ser (pub ei))) (dh ei target)) in *.
        destruct (eah s2 []) as [tag s3] eqn:E1. inversion Hg; subst a1 i1; clear Hg.
        unfold recv_act_one.
        apply (Hmac _ _ _ _ (dh rs (pub ei))); [reflexivity |].
        intros m' Hok.
        apply (recv_eph_accept_inv _ _ _ _ (dh rs (pub ei))) in Hok;
          [| reflexivity | pose proof (Hlen16 s2) as H; rewrite E1 in H; exact H].
        cbn [new_responder m_sym m_local_static] in Hok.
        assert (Et : tag = fst (eah s2 [])) by (rewrite E1; reflexivity).
        rewrite Et in Hok. unfold s2 in Hok.
        apply eah_mixk_inj in Hok; [| reflexivity].
        rewrite <- (dh_comm ei rs) in Hok. apply dh_inj in Hok. contradiction.
      - (* (c) act one *)
        intros m e tag' Hl Hne. unfold recv_act_one.
        apply (Hmac _ _ _ _ (dh (m_local_static _ _ _ _ m) e)); [reflexivity |].
        intros m' Hok.
        apply (recv_eph_accept_inv _ _ _ _ (dh (m_local_static _ _ _ _ m) e)) in Hok;
          [| reflexivity | exact Hl].
        contradiction.
      - (* (c) act two *)
        intros m le e tag' Hle Hl Hne. unfold recv_act_two. rewrite Hle.
        apply (Hmac _ _ _ _ (dh le e)); [reflexivity |].
        intros m' Hok.
        apply (recv_eph_accept_inv _ _ _ _ (dh le e)) in Hok; [| reflexivity | exact Hl].
        contradiction.
      - (* (d) act one *)
        intros m e e' tag Hne Ht. unfold recv_act_one.
        apply (Hmac _ _ _ _ (dh (m_local_static _ _ _ _ m) e')); [reflexivity |].
        intros m' Hok.
        apply (recv_eph_accept_inv _ _ _ _ (dh (m_local_static _ _ _ _ m) e')) in Hok;
          [| reflexivity | rewrite Ht; apply Hlen16].
        rewrite Ht in Hok. apply eah_mixk_inj in Hok; [| reflexivity].
        apply dh_inj in Hok. symmetry in Hok. contradiction.
      - (* (d) act two *)
        intros m le e e' tag Hle Hne Ht. unfold recv_act_two. rewrite Hle.
        apply (Hmac _ _ _ _ (dh le e')); [reflexivity |].
        intros m' Hok.
        apply (recv_eph_accept_inv _ _ _ _ (dh le e')) in Hok;
          [| reflexivity | rewrite Ht; apply Hlen16].
        rewrite Ht in Hok. apply eah_mixk_inj in Hok; [| reflexivity].
        apply dh_inj in Hok. symmetry in Hok. contradiction.
    Qed.
  End Ideal.
End Hs.
