(* Concrete "tagging" instantiation of the Noise model and the trace checker
   used by the correspondence run (props/c11.py).

   Wire symbols: a plain byte (WB), byte i of the encrypted body of a Seal
   call (WE: key, nonce, index, plaintext byte), one of its 16 MAC bytes (WM:
   key, nonce, associated data, the whole plaintext, index), or junk (WX).
   Seal k n ad p = the WE symbols of p followed by the 16 WM symbols; Open
   accepts exactly that.  32-byte secrets are numbers produced by a toy
   mixing function (collisions are as unlikely as for a 61-bit hash; they
   only matter for the predictions of this file, never for a theorem). *)
From Coq Require Import List NArith Bool.
From LV Require Import Noise.Model.
Import ListNotations.
Local Open Scope N_scope.

Inductive wsym :=
| WB (b : N)
| WE (k n i b : N)
| WM (k n : N) (ad : option N) (p : list N) (j : N)
| WX.

Fixpoint bytes_eqb (a b : list N) : bool :=
  match a, b with
  | [], [] => true
  | x :: a', y :: b' => N.eqb x y && bytes_eqb a' b'
  | _, _ => false
  end.

Definition optN_eqb (a b : option N) : bool :=
  match a, b with
  | None, None => true
  | Some x, Some y => N.eqb x y
  | _, _ => false
  end.

Definition wsym_eqb (a b : wsym) : bool :=
  match a, b with
  | WB x, WB y => N.eqb x y
  | WM k n ad p j, WM k' n' ad' p' j' =>
    N.eqb k k' && N.eqb n n' && optN_eqb ad ad' && N.eqb j j' && bytes_eqb p p'
  | WE k n i b, WE k' n' i' b' => N.eqb k k' && N.eqb n n' && N.eqb i i' && N.eqb b b'
  | WX, WX => true
  | _, _ => false
  end.

Fixpoint wlist_eqb (a b : list wsym) : bool :=
  match a, b with
  | [], [] => true
  | x :: a', y :: b' => wsym_eqb x y && wlist_eqb a' b'
  | _, _ => false
  end.

Definition t_wb (b : N) : wsym := WB b.
Definition t_wv (w : wsym) : option N := match w with WB b => Some b | _ => None end.

Definition mac_idx : list N := [0;1;2;3;4;5;6;7;8;9;10;11;12;13;14;15].

Fixpoint enc_body (k n i : N) (p : list N) : list wsym :=
  match p with
  | [] => []
  | b :: r => WE k n i b :: enc_body k n (i + 1) r
  end.

Definition t_enc (k n : N) (ad : option N) (p : list N) : list wsym :=
  enc_body k n 0 p ++ map (WM k n ad p) mac_idx.

Fixpoint dec_body (k n i : N) (ws : list wsym) : option (list N) :=
  match ws with
  | [] => Some []
  | WE k' n' i' b :: r =>
    if N.eqb k k' && N.eqb n n' && N.eqb i i' then
      match dec_body k n (i + 1) r with Some bs => Some (b :: bs) | None => None end
    else None
  | _ :: _ => None
  end.

Fixpoint t_unwrap (ws : list wsym) : option (list N) :=
  match ws with
  | [] => Some []
  | WB b :: r => match t_unwrap r with Some bs => Some (b :: bs) | None => None end
  | _ :: _ => None
  end.

Definition t_dec (k n : N) (ad : option N) (c : list wsym) : option (list N) :=
  let l := length c in
  if Nat.ltb l 16 then None else
  match dec_body k n 0 (firstn (l - 16) c) with
  | None => None
  | Some p =>
    if wlist_eqb (skipn (l - 16) c) (map (WM k n ad p) mac_idx) then Some p else None
  end.

(* toy 61-bit mixing (no division: fold the high bits back with land/shiftr) *)
Definition M61 : N := 2305843009213693951.
Definition fold61 (x : N) : N := N.land x M61 + N.shiftr x 61.
Definition mix3 (tag a b : N) : N :=
  let t := fold61 (fold61 (a * 2654435761 + b * 40503 + tag * 2246822519 + 3266489917)) in
  fold61 (fold61 (t * t + t * 374761393 + 668265263)).

Definition t_hkdf (salt : N) (ikm : option N) : N * N :=
  let i := match ikm with None => 0 | Some x => x + 1 end in
  (mix3 1 salt i, mix3 2 salt i).

Fixpoint pack_be (bs : list N) (acc : N) : N :=
  match bs with [] => acc | b :: r => pack_be r (N.shiftl acc 8 + b) end.

Definition t_mixb (h : N) (bs : list N) : N := mix3 3 h (fold61 (fold61 (fold61 (pack_be bs 1)))).

(* cheap per-symbol code; the digest of a ciphertext only has to separate the
   ciphertexts that Open accepts, and Open accepts exactly one *)
Definition wsym_code (w : wsym) : N :=
  match w with
  | WB b => b
  | WE k n i b => k + n * 7 + i * 13 + b + 1000
  | WM k n ad p j => k + n * 7 + j * 17 + (match ad with None => 0 | Some a => a + 1 end) + 2000
  | WX => 999
  end.

Definition t_mixc (h : N) (ws : list wsym) : N :=
  mix3 9 h (fold_left (fun acc w => fold61 (N.shiftl acc 5 + wsym_code w)) ws 5).

(* toy Diffie-Hellman in (Z/P61)^*: pub a = G^... replaced by a*G, shared = a*b*G *)
Definition Gtoy : N := 1234567891011.
Definition P61 : N := 2305843009213693951.
Definition t_pub (sk : N) : N := (sk * Gtoy) mod P61.
Definition t_dh (sk pk : N) : N := mix3 11 ((sk * pk) mod P61) 0.

Fixpoint be_n (n : nat) (x : N) : list N :=
  match n with
  | O => []
  | S p => be_n p (x / 256) ++ [x mod 256]
  end.
Fixpoint of_be (bs : list N) (acc : N) : N :=
  match bs with [] => acc | b :: r => of_be r (acc * 256 + b) end.

Definition t_ser (pk : N) : list N := 2 :: be_n 32 pk.
Definition t_parse (bs : list N) : option N :=
  match bs with
  | f :: r => if (N.eqb f 2 || N.eqb f 3) && Nat.eqb (length r) 32 then Some (of_be r 0) else None
  | [] => None
  end.

Definition t_zero : N := 0.
Definition t_h0 : N := 424242.

Notation X f := (f N wsym N N) (only parsing).

Definition tcs := cstate N.
Definition tmachine := machine N wsym N N.
Definition tsender := sender N wsym.

Definition x_new_initiator := new_initiator N wsym N N t_zero t_h0 t_mixb t_ser.
Definition x_new_responder := new_responder N wsym N N t_zero t_h0 t_mixb t_pub t_ser.
Definition x_gen_act_one := gen_act_one N wsym N N t_wb t_enc t_hkdf t_mixb t_mixc t_pub t_dh t_ser.
Definition x_recv_act_one := recv_act_one N wsym N N t_wv t_dec t_hkdf t_mixb t_mixc t_dh t_ser t_parse.
Definition x_gen_act_two := gen_act_two N wsym N N t_wb t_enc t_hkdf t_mixb t_mixc t_pub t_dh t_ser.
Definition x_recv_act_two := recv_act_two N wsym N N t_wv t_dec t_hkdf t_mixb t_mixc t_dh t_ser t_parse.
Definition x_gen_act_three := gen_act_three N wsym N N t_wb t_enc t_hkdf t_mixc t_pub t_dh t_ser.
Definition x_recv_act_three := recv_act_three N wsym N N t_wv t_dec t_hkdf t_mixc t_dh t_parse.
Definition x_write_message := write_message N wsym t_enc t_hkdf.
Definition x_flush := flush N wsym.
Definition x_read_message := read_message N wsym t_dec t_hkdf.

(* ------------------------------------------------------------------ *)
(* handshake cases *)

Inductive tamper :=
| TVersion (v : N)     (* act[0] := v *)
| TEphBad              (* ephemeral key bytes changed, no longer parse *)
| TEphOther            (* ephemeral key bytes changed, parse to another point *)
| TFlip (off : N)      (* AEAD output byte at offset off changed *)
| TAlt                 (* the same act of a parallel session (other ephemerals) *)
| TReflect.            (* act one fed back as act two *)

Fixpoint set_nth {A} (n : nat) (x : A) (l : list A) : list A :=
  match l, n with
  | [], _ => []
  | _ :: r, O => x :: r
  | y :: r, S k => y :: set_nth k x r
  end.

Definition err_code (e : err) : N :=
  match e with
  | EVersion => 1 | EParse => 2 | EMac => 3 | EEof => 4
  | ETooLong => 5 | ENotFlushed => 6 | EState => 7
  end.

Definition apply_tamper (act alt refl : list wsym) (t : tamper) : list wsym :=
  match t with
  | TVersion v => set_nth 0 (WB v) act
  | TEphBad => set_nth 1 (WB 9) act
  | TEphOther =>
    match t_unwrap (firstn 33 (skipn 1 act)) with
    | Some bs =>
      let pk := match t_parse bs with Some pk => pk | None => of_be (tl bs) 0 end in
      firstn 1 act ++ map WB (t_ser (pk + 1)) ++ skipn 34 act
    | None => act
    end
  | TFlip off => set_nth (N.to_nat off) WX act
  | TAlt => alt
  | TReflect => refl
  end.

Definition apply_tampers (act alt refl : list wsym) (ts : list tamper) : list wsym :=
  fold_left (fun a t => apply_tamper a alt refl t) ts act.

Record hs_case := mkHs {
  hc_rs : N; hc_ls : N; hc_ei : N; hc_er : N;
  hc_target : N;            (* secret key whose public key the initiator dials *)
  hc_alt_ei : N; hc_alt_er : N;
  hc_t1 : list tamper; hc_t2 : list tamper; hc_t3 : list tamper;
  hc_obs : list N;          (* result codes of RecvActOne/Two/Three, up to the first failure *)
  hc_agree : bool           (* both key pairs and the learnt static key agree *)
}.

Definition cs_eqb (a b : tcs) : bool :=
  N.eqb (cs_nonce a) (cs_nonce b) && N.eqb (cs_key a) (cs_key b) &&
  N.eqb (cs_salt a) (cs_salt b).

(* untampered acts of a session; [] when a step fails *)
Definition hs_acts (rs ls ei er target : N) : list wsym * list wsym * list wsym :=
  let i0 := x_new_initiator ls (t_pub target) in
  let r0 := x_new_responder rs in
  match x_gen_act_one i0 ei with
  | Err _ => ([], [], [])
  | Ok (a1, i1) =>
    match x_recv_act_one r0 a1 with
    | Err _ => (a1, [], [])
    | Ok r1 =>
      match x_gen_act_two r1 er with
      | Err _ => (a1, [], [])
      | Ok (a2, r2) =>
        match x_recv_act_two i1 a2 with
        | Err _ => (a1, a2, [])
        | Ok i2 =>
          match x_gen_act_three i2 with
          | Err _ => (a1, a2, [])
          | Ok (a3, _) => (a1, a2, a3)
          end
        end
      end
    end
  end.

(* returns (codes, agree, final initiator, final responder) *)
Definition hs_run (c : hs_case)
  : list N * bool * option (tmachine * tmachine) :=
  let is_alt t := match t with TAlt => true | _ => false end in
  let '(b1, b2, b3) :=
      if existsb is_alt (hc_t1 c ++ hc_t2 c ++ hc_t3 c)
      then hs_acts (hc_rs c) (hc_ls c) (hc_alt_ei c) (hc_alt_er c) (hc_target c)
      else ([], [], []) in
  let i0 := x_new_initiator (hc_ls c) (t_pub (hc_target c)) in
  let r0 := x_new_responder (hc_rs c) in
  match x_gen_act_one i0 (hc_ei c) with
  | Err e => ([100 + err_code e], false, None)
  | Ok (a1, i1) =>
    let a1' := apply_tampers a1 b1 a1 (hc_t1 c) in
    match x_recv_act_one r0 a1' with
    | Err e => ([err_code e], false, None)
    | Ok r1 =>
      match x_gen_act_two r1 (hc_er c) with
      | Err e => ([0; 100 + err_code e], false, None)
      | Ok (a2, r2) =>
        let a2' := apply_tampers a2 b2 a1' (hc_t2 c) in
        match x_recv_act_two i1 a2' with
        | Err e => ([0; err_code e], false, None)
        | Ok i2 =>
          match x_gen_act_three i2 with
          | Err e => ([0; 0; 100 + err_code e], false, None)
          | Ok (a3, i3) =>
            let a3' := apply_tampers a3 b3 a3 (hc_t3 c) in
            match x_recv_act_three r2 a3' with
            | Err e => ([0; 0; err_code e], false, None)
            | Ok r3 =>
              let agree :=
                  cs_eqb (m_send _ _ _ _ i3) (m_recv _ _ _ _ r3) &&
                  cs_eqb (m_recv _ _ _ _ i3) (m_send _ _ _ _ r3) &&
                  optN_eqb (m_remote_static _ _ _ _ r3) (Some (t_pub (hc_ls c))) in
              ([0; 0; 0], agree, Some (i3, r3))
            end
          end
        end
      end
    end
  end.

Definition hs_check (c : hs_case) : bool :=
  let '(codes, agree, _) := hs_run c in
  bytes_eqb codes (hc_obs c) && Bool.eqb agree (hc_agree c).

(* ------------------------------------------------------------------ *)
(* transport cases *)

(* MSeq n a: the n bytes a, a+1, ... counted modulo 251 (a < 251) *)
Inductive msg := MLit (bs : list N) | MRep (n b : N) | MSeq (n a : N).

Fixpoint seq_bytes (n : nat) (a : N) : list N :=
  match n with
  | O => []
  | S k => a :: seq_bytes k (if N.eqb (a + 1) 251 then 0 else a + 1)
  end.

Definition msg_bytes (m : msg) : list N :=
  match m with
  | MLit bs => bs
  | MRep n b => repeat b (N.to_nat n)
  | MSeq n a => seq_bytes (N.to_nat n) a
  end.

Inductive ptamper :=
| PFlip (off : N)                       (* byte at off changed *)
| PTrunc (n : N)                        (* keep the first n bytes *)
| PCut (off l : N)                      (* remove l bytes at off *)
| PIns (src : bool) (off l at_ : N).    (* insert history_src[off, off+l) at at_ *)

Inductive top :=
| TWrite (d : bool) (m : msg) (code : N) (se sn : N)
| TFlush (d : bool) (rh rb : N * bool) (n : N) (e : bool) (calls took : N)
| TRead (d : bool) (code : N) (m : option msg) (re rn : N)
| TMany (d : bool) (cnt : N) (m : msg) (okc : N) (se sn re rn : N)
| TTamp (d : bool) (t : ptamper)
| TClear (d : bool).     (* Machine.releaseBuffers (Conn.ClearPendingSend) *)

Record chan := mkCh {
  ch_snd : tsender;
  ch_rcv : tcs;
  ch_pipe : list wsym;     (* written, not yet read *)
  ch_hist : list (list wsym)   (* everything the writer ever took: chunks, newest first *)
}.

Record tstate := mkTS { ts_ir : chan; ts_ri : chan }.   (* initiator->responder, responder->initiator *)

Definition get_ch (s : tstate) (d : bool) := if d then ts_ir s else ts_ri s.
Definition set_ch (s : tstate) (d : bool) (c : chan) :=
  if d then mkTS c (ts_ri s) else mkTS (ts_ir s) c.

Definition pos_ok (c : tcs) (e n : N) : bool := N.eqb (cs_epoch c) e && N.eqb (cs_nonce c) n.

Definition optbytes_eqb (a b : option (list N)) : bool :=
  match a, b with
  | None, None => true
  | Some x, Some y => bytes_eqb x y
  | _, _ => false
  end.

Definition apply_ptamper (s : tstate) (d : bool) (t : ptamper) : tstate :=
  let c := get_ch s d in
  let p := ch_pipe c in
  let p' :=
    match t with
    | PFlip off => set_nth (N.to_nat off) WX p
    | PTrunc n => firstn (N.to_nat n) p
    | PCut off l => firstn (N.to_nat off) p ++ skipn (N.to_nat (off + l)) p
    | PIns src off l at_ =>
      let h := concat (rev (ch_hist (get_ch s src))) in
      let seg := firstn (N.to_nat l) (skipn (N.to_nat off) h) in
      firstn (N.to_nat at_) p ++ seg ++ skipn (N.to_nat at_) p
    end in
  set_ch s d (mkCh (ch_snd c) (ch_rcv c) p' (ch_hist c)).

Definition unlimited : N * bool := (1000000, false).

(* one write + full flush + read; returns (state, roundtrip ok) *)
Definition many_step (s : tstate) (d : bool) (pb : list N) : tstate * bool :=
  let c := get_ch s d in
  match x_write_message (ch_snd c) pb with
  | Err _ => (s, false)
  | Ok sn1 =>
    let fo := x_flush sn1 unlimited unlimited in
    let pipe := ch_pipe c ++ fo_written _ _ fo in
    let '(r, rc, rest) := x_read_message (ch_rcv c) pipe in
    let c' := mkCh (fo_sender _ _ fo) rc rest (fo_written _ _ fo :: ch_hist c) in
    (set_ch s d c',
     match r with Ok q => bytes_eqb q pb && negb (fo_err _ _ fo) | Err _ => false end)
  end.

Fixpoint many_loop (n : nat) (s : tstate) (d : bool) (pb : list N) (okc : N) : tstate * N :=
  match n with
  | O => (s, okc)
  | S k =>
    let '(s', ok) := many_step s d pb in
    many_loop k s' d pb (if ok then okc + 1 else okc)
  end.

Definition tstep (s : tstate) (o : top) : tstate * bool :=
  match o with
  | TWrite d m code se sn =>
    let c := get_ch s d in
    match x_write_message (ch_snd c) (msg_bytes m) with
    | Ok sn1 =>
      (set_ch s d (mkCh sn1 (ch_rcv c) (ch_pipe c) (ch_hist c)),
       N.eqb code 0 && pos_ok (sn_cs sn1) se sn)
    | Err e => (s, N.eqb code (err_code e) && pos_ok (sn_cs (ch_snd c)) se sn)
    end
  | TFlush d rh rb n e calls took =>
    let c := get_ch s d in
    let fo := x_flush (ch_snd c) rh rb in
    (set_ch s d (mkCh (fo_sender _ _ fo) (ch_rcv c) (ch_pipe c ++ fo_written _ _ fo)
                      (fo_written _ _ fo :: ch_hist c)),
     N.eqb (fo_n _ _ fo) n && Bool.eqb (fo_err _ _ fo) e && N.eqb (fo_calls _ _ fo) calls &&
     N.eqb (len (fo_written _ _ fo)) took)
  | TRead d code m re rn =>
    let c := get_ch s d in
    let '(r, rc, rest) := x_read_message (ch_rcv c) (ch_pipe c) in
    (set_ch s d (mkCh (ch_snd c) rc rest (ch_hist c)),
     pos_ok rc re rn &&
     match r with
     | Ok q => N.eqb code 0 && optbytes_eqb (Some q) (option_map msg_bytes m)
     | Err e => N.eqb code (err_code e) && match m with None => true | Some _ => false end
     end)
  | TMany d cnt m okc se sn re rn =>
    let '(s', k) := many_loop (N.to_nat cnt) s d (msg_bytes m) 0 in
    let c := get_ch s' d in
    (s', N.eqb k okc && pos_ok (sn_cs (ch_snd c)) se sn && pos_ok (ch_rcv c) re rn)
  | TTamp d t => (apply_ptamper s d t, true)
  | TClear d =>
    let c := get_ch s d in
    (set_ch s d (mkCh (release_buffers N wsym (ch_snd c)) (ch_rcv c) (ch_pipe c) (ch_hist c)), true)
  end.

Fixpoint trun (s : tstate) (ops : list top) (i : N) (bad : list N) : list N :=
  match ops with
  | [] => rev bad
  | o :: r =>
    let '(s', ok) := tstep s o in
    trun s' r (i + 1) (if ok then bad else i :: bad)
  end.

(* keys of every transport case: responder static 11, initiator static 12,
   ephemerals 13 / 14 (the real keys are seeded; the model only needs four
   distinct identities) *)
Definition tr_handshake : hs_case := mkHs 11 12 13 14 11 15 16 [] [] [] [0;0;0] true.

Definition mk_tstate (ir : tmachine * tmachine) : tstate :=
  let i := fst ir in
  let r := snd ir in
  mkTS (mkCh (mkSnd (m_send _ _ _ _ i) [] []) (m_recv _ _ _ _ r) [] [])
       (mkCh (mkSnd (m_send _ _ _ _ r) [] []) (m_recv _ _ _ _ i) [] []).

Definition tr_init : option tstate :=
  Eval vm_compute in option_map mk_tstate (snd (hs_run tr_handshake)).

(* ------------------------------------------------------------------ *)
(* brontide.Conn cases: two Conns over scripted in-memory net.Conns *)

Definition x_conn_write := conn_write N wsym t_enc t_hkdf.
Definition x_flush_l := flush_l N wsym.
Definition x_conn_read := conn_read N wsym t_dec t_hkdf.
Definition x_conn_read_next_message := conn_read_next_message N wsym t_dec t_hkdf.
Definition x_conn_read_next_header := conn_read_next_header N wsym t_dec t_hkdf.
Definition x_conn_read_next_body := conn_read_next_body N wsym t_dec t_hkdf.

Definition cerr_code (e : cerr) : N :=
  match e with
  | CNone => 0
  | CMach e => err_code e
  | CWriter => 8
  | CFuel => 9
  end.

Inductive kop :=
| KWrite (d : bool) (m : msg) (rs : list (N * bool)) (n code calls took : N)   (* Conn.Write *)
| KWriteMsg (d : bool) (m : msg) (code : N)                                     (* Conn.WriteMessage *)
| KFlush (d : bool) (rs : list (N * bool)) (n code calls took : N)              (* Conn.Flush *)
| KRead (d : bool) (k : N) (code : N) (out : option msg)                        (* Conn.Read, len(b) = k *)
| KReadNext (d : bool) (code : N) (out : option msg)                            (* ReadNextMessage *)
| KReadHdr (d : bool) (code : N) (l : N)                                        (* ReadNextHeader *)
| KReadBody (d : bool) (l : N) (code : N) (out : option msg)                    (* ReadNextBody *)
| KClear (d : bool).                                                            (* ClearPendingSend *)

(* one direction: the sending half of one Conn, the reading half of the other *)
Record kchan := mkKC { kc_snd : tsender; kc_rd : creader N wsym }.
Record kstate := mkKS { ks_ir : kchan; ks_ri : kchan }.

Definition get_kc (s : kstate) (d : bool) := if d then ks_ir s else ks_ri s.
Definition set_kc (s : kstate) (d : bool) (c : kchan) :=
  if d then mkKS c (ks_ri s) else mkKS (ks_ir s) c.

Definition rd_feed (r : creader N wsym) (ws : list wsym) : creader N wsym :=
  mkCR N wsym (cr_cs N wsym r) (cr_buf N wsym r) (cr_stream N wsym r ++ ws).

Definition res_check (r : res (list N)) (code : N) (out : option msg) : bool :=
  match r with
  | Ok q => N.eqb code 0 && optbytes_eqb (Some q) (option_map msg_bytes out)
  | Err e => N.eqb code (err_code e) && match out with None => true | Some _ => false end
  end.

Definition kstep (s : kstate) (o : kop) : kstate * bool :=
  match o with
  | KWrite d m rs n code calls took =>
    let c := get_kc s d in
    let w := x_conn_write (kc_snd c) (msg_bytes m) rs in
    (set_kc s d (mkKC (cw_snd _ _ w) (rd_feed (kc_rd c) (cw_written _ _ w))),
     N.eqb (cw_n _ _ w) n && N.eqb (cerr_code (cw_err _ _ w)) code &&
     N.eqb (cw_calls _ _ w) calls && N.eqb (len (cw_written _ _ w)) took)
  | KWriteMsg d m code =>
    let c := get_kc s d in
    match x_write_message (kc_snd c) (msg_bytes m) with
    | Ok s1 => (set_kc s d (mkKC s1 (kc_rd c)), N.eqb code 0)
    | Err e => (s, N.eqb code (err_code e))
    end
  | KFlush d rs n code calls took =>
    let c := get_kc s d in
    let fo := fst (x_flush_l (kc_snd c) rs) in
    (set_kc s d (mkKC (fo_sender _ _ fo) (rd_feed (kc_rd c) (fo_written _ _ fo))),
     N.eqb (fo_n _ _ fo) n && N.eqb (if fo_err _ _ fo then 8 else 0) code &&
     N.eqb (fo_calls _ _ fo) calls && N.eqb (len (fo_written _ _ fo)) took)
  | KRead d k code out =>
    let c := get_kc s d in
    let '(r, rd') := x_conn_read (kc_rd c) k in
    (set_kc s d (mkKC (kc_snd c) rd'), res_check r code out)
  | KReadNext d code out =>
    let c := get_kc s d in
    let '(r, rd') := x_conn_read_next_message (kc_rd c) in
    (set_kc s d (mkKC (kc_snd c) rd'), res_check r code out)
  | KReadHdr d code l =>
    let c := get_kc s d in
    let '(r, rd') := x_conn_read_next_header (kc_rd c) in
    (set_kc s d (mkKC (kc_snd c) rd'),
     match r with
     | Ok l' => N.eqb code 0 && N.eqb l l'
     | Err e => N.eqb code (err_code e)
     end)
  | KReadBody d l code out =>
    let c := get_kc s d in
    let '(r, rd') := x_conn_read_next_body (kc_rd c) l in
    (set_kc s d (mkKC (kc_snd c) rd'), res_check r code out)
  | KClear d =>
    let c := get_kc s d in
    (set_kc s d (mkKC (release_buffers N wsym (kc_snd c)) (kc_rd c)), true)
  end.

Fixpoint krun (s : kstate) (ops : list kop) (i : N) (bad : list N) : list N :=
  match ops with
  | [] => rev bad
  | o :: r =>
    let '(s', ok) := kstep s o in
    krun s' r (i + 1) (if ok then bad else i :: bad)
  end.

Definition mk_kstate (ir : tmachine * tmachine) : kstate :=
  let i := fst ir in
  let r := snd ir in
  mkKS (mkKC (mkSnd (m_send _ _ _ _ i) [] []) (mkCR N wsym (m_recv _ _ _ _ r) [] []))
       (mkKC (mkSnd (m_send _ _ _ _ r) [] []) (mkCR N wsym (m_recv _ _ _ _ i) [] [])).

Definition kr_init : option kstate :=
  Eval vm_compute in option_map mk_kstate (snd (hs_run tr_handshake)).

Inductive case :=
| CHs (c : hs_case)
| CTr (ops : list top)
| CCn (ops : list kop).

(* indices of the ops on which model and implementation disagree *)
Definition check_case_with (init : option tstate) (c : case) : list N :=
  match c with
  | CHs h => if hs_check h then [] else [0]
  | CTr ops =>
    match init with
    | Some s => trun s ops 0 []
    | None => [999999]
    end
  | CCn ops =>
    match kr_init with
    | Some s => krun s ops 0 []
    | None => [999999]
    end
  end.

Fixpoint mismatches_with (chk : case -> list N) (cases : list case) (i : N)
  : list (N * list N) :=
  match cases with
  | [] => []
  | c :: r =>
    match chk c with
    | [] => mismatches_with chk r (i + 1)
    | bad => (i, bad) :: mismatches_with chk r (i + 1)
    end
  end.

Definition check_case : case -> list N := check_case_with tr_init.
Definition mismatches : list case -> N -> list (N * list N) := mismatches_with check_case.
