(* C11: specification-side definitions used in the theorem statements of
   Props.v.  Definitions only (no lemmas, no proofs): Props.v can be read from
   Model.v + this file alone. *)
From Coq Require Import List NArith Bool.
From LV Require Import Noise.Model.
Import ListNotations.
Local Open Scope N_scope.

(* lexicographic order on (rotation epoch, nonce) *)
Definition lex_lt (a b : N * N) : Prop :=
  fst a < fst b \/ (fst a = fst b /\ snd a < snd b).

(* total plaintext length of a list of messages *)
Definition total_len (ms : list (list N)) : N := fold_right (fun p a => len p + a) 0 ms.

(* plaintext of the sender's t-th Seal call when it sends msgs: header of
   message 0, body of message 0, header of message 1, ... *)
Fixpoint slot_plain (msgs : list (list N)) (t : nat) : option (list N) :=
  match msgs, t with
  | [], _ => None
  | m :: _, O => Some (be16 (len m))
  | m :: _, S O => Some m
  | _ :: r, S (S k) => slot_plain r k
  end.

(* what a sequence of Conn.Read calls returns, computed on PLAINTEXT: buf is
   the unread rest of the current message, msgs the messages still to come.
   Each call returns at most k bytes of the current message and keeps the
   rest; it never crosses a message boundary.  An empty message and the end
   of the stream give io.EOF (bytes.Buffer.Read on an empty buffer). *)
Fixpoint spec_reads (ks : list N) (buf : list N) (msgs : list (list N))
  : list (res (list N)) :=
  match ks with
  | [] => []
  | k :: ks' =>
    match buf with
    | _ :: _ => Ok (firstN k buf) :: spec_reads ks' (skipN k buf) msgs
    | [] =>
      match msgs with
      | [] => Err EEof :: spec_reads ks' [] []
      | [] :: ms => (if N.eqb k 0 then Ok [] else Err EEof) :: spec_reads ks' [] ms
      | m :: ms => Ok (firstN k m) :: spec_reads ks' (skipN k m) ms
      end
    end
  end.

(* the bytes handed to the caller by a sequence of reads *)
Fixpoint delivered (outs : list (res (list N))) : list N :=
  match outs with
  | [] => []
  | Ok p :: r => p ++ delivered r
  | Err _ :: r => delivered r
  end.

Section Spec.
  Variables (K W SK PK : Type).
  Variable wb : N -> W.
  Variable wv : W -> option N.
  Variable enc : K -> N -> option K -> list N -> list W.
  Variable dec : K -> N -> option K -> list W -> option (list N).
  Variable hkdf : K -> option K -> K * K.
  Variable zeroK : K.
  Variable h0 : K.
  Variable mixb : K -> list N -> K.
  Variable mixc : K -> list W -> K.
  Variable pub : SK -> PK.
  Variable dh : SK -> PK -> K.
  Variable ser : PK -> list N.
  Variable parse : list N -> option PK.

  (* the cipher state after t Seal/Open calls *)
  Fixpoint chain (c : cstate K) (t : nat) : cstate K :=
    match t with O => c | S k => chain (advance K hkdf c) k end.

  (* INT-CTXT stated symbolically for one direction of a session: every Seal
     output under the t-th (key, nonce) of the chain (t < bound) that occurs
     anywhere in the byte stream S' is the one the honest sender of msgs
     produced at its t-th Seal call *)
  Definition no_forgery (c0 : cstate K) (msgs : list (list N)) (S' : list W) (bound : nat) : Prop :=
    forall t pre post p,
      (t < bound)%nat ->
      S' = pre ++ enc (cs_key (chain c0 t)) (cs_nonce (chain c0 t)) None p ++ post ->
      slot_plain msgs t = Some p.

  (* the six calls of an undisturbed handshake; [target] is the static public
     key the initiator dials *)
  Definition hs_honest (ls rs ei er : SK) (target : PK)
    : res (list W * list W * list W * machine K W SK PK * machine K W SK PK) :=
    match gen_act_one K W SK PK wb enc hkdf mixb mixc pub dh ser
                      (new_initiator K W SK PK zeroK h0 mixb ser ls target) ei with
    | Err e => Err e
    | Ok (a1, i1) =>
      match recv_act_one K W SK PK wv dec hkdf mixb mixc dh ser parse
                         (new_responder K W SK PK zeroK h0 mixb pub ser rs) a1 with
      | Err e => Err e
      | Ok r1 =>
        match gen_act_two K W SK PK wb enc hkdf mixb mixc pub dh ser r1 er with
        | Err e => Err e
        | Ok (a2, r2) =>
          match recv_act_two K W SK PK wv dec hkdf mixb mixc dh ser parse i1 a2 with
          | Err e => Err e
          | Ok i2 =>
            match gen_act_three K W SK PK wb enc hkdf mixc pub dh ser i2 with
            | Err e => Err e
            | Ok (a3, i3) =>
              match recv_act_three K W SK PK wv dec hkdf mixc dh parse r2 a3 with
              | Err e => Err e
              | Ok r3 => Ok (a1, a2, a3, i3, r3)
              end
            end
          end
        end
      end
    end.

  (* Act three as the responder in state m (local ephemeral le) expects it
     from an initiator whose static key is P:
       act3_ct  = Seal(temp key 2, digest, ser P)            49 bytes
       act3_tag = Seal(temp key 3 = mixKey(dh le P), digest', [])  16 bytes *)
  Definition act3_ct (m : machine K W SK PK) (P : PK) : list W :=
    fst (encrypt_and_hash K W enc hkdf mixc (m_sym K W SK PK m) (ser P)).

  Definition act3_tag (m : machine K W SK PK) (le : SK) (P : PK) : list W :=
    fst (encrypt_and_hash K W enc hkdf mixc
           (mix_key K hkdf (snd (encrypt_and_hash K W enc hkdf mixc (m_sym K W SK PK m) (ser P)))
                    (dh le P)) []).

  (* ---------------- brontide.Conn: sender op sequences ---------------- *)
  (* any interleaving of Conn.Write(b) (chunking), Conn.WriteMessage(b) and
     Conn.Flush(); rs = answers of the net.Conn to the Write calls it gets *)
  Inductive cop :=
  | CoWrite (b : list N) (rs : list wresp)
  | CoWriteMessage (b : list N)
  | CoFlush (rs : list wresp).

  Definition payload (o : cop) : list N :=
    match o with
    | CoWrite b _ => b
    | CoWriteMessage b => b
    | CoFlush _ => []
    end.

  (* ghost state around the sending half of a Conn: bytes the net.Conn took,
     the records accepted by WriteMessage, (count, error) returned per call *)
  Record crun := mkCRun {
    cn_snd : sender K W;
    cn_wire : list W;
    cn_msgs : list (list N);
    cn_results : list (N * cerr)
  }.

  Definition crun_step (r : crun) (o : cop) : crun :=
    match o with
    | CoWrite b rs =>
      let w := conn_write K W enc hkdf (cn_snd r) b rs in
      mkCRun (cw_snd K W w) (cn_wire r ++ cw_written K W w) (cn_msgs r ++ cw_msgs K W w)
             (cn_results r ++ [(cw_n K W w, cw_err K W w)])
    | CoWriteMessage b =>
      match write_message K W enc hkdf (cn_snd r) b with
      | Ok s' => mkCRun s' (cn_wire r) (cn_msgs r ++ [b]) (cn_results r ++ [(0, CNone)])
      | Err e => mkCRun (cn_snd r) (cn_wire r) (cn_msgs r) (cn_results r ++ [(0, CMach e)])
      end
    | CoFlush rs =>
      let fo := fst (flush_l K W (cn_snd r) rs) in
      mkCRun (fo_sender K W fo) (cn_wire r ++ fo_written K W fo) (cn_msgs r)
             (cn_results r ++ [(fo_n K W fo, if fo_err K W fo then CWriter else CNone)])
    end.

  Definition crun_init (c : cstate K) : crun := mkCRun (mkSnd c [] []) [] [] [].

  Definition crun_all (c : cstate K) (ops : list cop) : crun :=
    fold_left crun_step ops (crun_init c).

  (* sum of the counts returned so far *)
  Definition returned (rs : list (N * cerr)) : N := fold_right (fun x a => fst x + a) 0 rs.

  (* the call handed ALL of its payload to the Machine: Conn.Write returned no
     error, or a single-record Conn.Write was cut short by the net.Conn (the
     record stays buffered: retry with Conn.Flush); WriteMessage returned no
     error.  Flush calls carry no payload. *)
  Definition committed_all (o : cop) (x : N * cerr) : Prop :=
    match o with
    | CoWrite b _ => snd x = CNone \/ (snd x = CWriter /\ len b <= max_uint16)
    | CoWriteMessage _ => snd x = CNone
    | CoFlush _ => True
    end.
End Spec.

(* ---------------- several sessions alive in one process ---------------- *)
(* What the sending half of ONE session can be asked to do: a WriteMessage /
   Flush (sop of Model.v) or releaseBuffers (Conn.ClearPendingSend). *)
Inductive mop := MOp (o : sop) | MRelease.

(* the WriteMessage / Flush calls among them *)
Fixpoint strip (ops : list mop) : list sop :=
  match ops with
  | [] => []
  | MOp o :: r => o :: strip r
  | MRelease :: r => strip r
  end.

(* a schedule names the session of every step; the steps of session i, in order *)
Definition proj (i : nat) (sched : list (nat * mop)) : list mop :=
  map snd (filter (fun x => Nat.eqb (fst x) i) sched).

Fixpoint upd_nth {A} (i : nat) (f : A -> A) (l : list A) : list A :=
  match l, i with
  | [], _ => []
  | x :: r, O => f x :: r
  | x :: r, S k => x :: upd_nth k f r
  end.

Section Multi.
  Variables (K W : Type).
  Variable enc : K -> N -> option K -> list N -> list W.
  Variable hkdf : K -> option K -> K * K.

  Definition srun_release (r : srun K W) : srun K W :=
    mkRun K W (release_buffers K W (r_snd K W r)) (r_wire K W r) (r_accepted K W r)
          (r_counted K W r) (r_used K W r).

  Definition mrun_step (r : srun K W) (o : mop) : srun K W :=
    match o with
    | MOp o' => srun_step K W enc hkdf r o'
    | MRelease => srun_release r
    end.

  (* the process: one run per session, nothing shared; a step touches the
     session it names (a step naming no session does nothing) *)
  Definition proc_step (st : list (srun K W)) (x : nat * mop) : list (srun K W) :=
    upd_nth (fst x) (fun r => mrun_step r (snd x)) st.

  Definition proc_run (st : list (srun K W)) (sched : list (nat * mop)) : list (srun K W) :=
    fold_left proc_step sched st.

  (* every release among ops happens with nothing buffered (it is redundant:
     the no-op after a complete Flush, writeHandler's ClearPendingSend) *)
  Fixpoint releases_idle (r : srun K W) (ops : list mop) : Prop :=
    match ops with
    | [] => True
    | o :: rest =>
      match o with
      | MRelease => sn_hdr (r_snd K W r) = [] /\ sn_body (r_snd K W r) = []
      | MOp _ => True
      end /\ releases_idle (mrun_step r o) rest
    end.
End Multi.
