(* C11: authenticity of the transport stream under an ideal AEAD.

   Hypotheses (all explicit):
   * ideal   : Open succeeds only on the Seal output for the same key, nonce,
               associated data:  dec k n ad c = Some p -> c = enc k n ad p
   * no_forgery (INT-CTXT stated symbolically, per stream): every ciphertext
     that occurs anywhere in the adversary's byte stream and is a Seal output
     under the t-th (key, nonce) of this direction's chain is the one the
     honest sender produced at its t-th Seal call.  For an honest sender this
     is what AEAD unforgeability gives TOGETHER WITH nonce uniqueness
     (C11_nonce_unique) and the separation of keys between rotation epochs and
     directions (an HKDF collision otherwise).
   The adversary's stream is otherwise arbitrary: modified, truncated,
   re-ordered, replayed, reflected, spliced. *)
From Coq Require Import List NArith ZArith Bool Lia.
From Coq Require Import ZifyBool ZifyN ZifyNat.
From LV Require Import Noise.Model Noise.Spec Noise.Proofs.
Import ListNotations.
Local Open Scope N_scope.

Section Tamper.
  Variables (K W : Type).
  Variable enc : K -> N -> option K -> list N -> list W.
  Variable dec : K -> N -> option K -> list W -> option (list N).
  Variable hkdf : K -> option K -> K * K.

  Notation cst := (cstate K).
  Notation adv := (advance K hkdf).
  Notation frm := (frame K W enc hkdf).
  Notation ideal := (ideal_stream K W enc hkdf).
  Notation rmsg := (read_message K W dec hkdf).
  Notation rdn := (read_n K W dec hkdf).

  Notation chain := (Spec.chain K hkdf).
  Notation no_forgery := (Spec.no_forgery K W enc hkdf).

  Hypothesis ideal_aead : forall k n ad c p, dec k n ad c = Some p -> c = enc k n ad p.

  Lemma read_message_ok_inv : forall (c : cst) S' q c' rest,
      rmsg c S' = (Ok q, c', rest) ->
      exists pl,
        S' = enc (cs_key c) (cs_nonce c) None pl
             ++ enc (cs_key (adv c)) (cs_nonce (adv c)) None q ++ rest /\
        c' = adv (adv c).
  Proof.
    intros c S' q c' rest. unfold read_message, read_header.
    destruct (N.ltb (len S') enc_header_size); [discriminate |].
    unfold cs_decrypt.
    destruct (dec (cs_key c) (cs_nonce c) None (firstN enc_header_size S')) as [pl |] eqn:Eh;
      [| discriminate].
    destruct (of_be16 pl) as [l |]; [| discriminate].
    unfold read_body.
    destruct (N.ltb (len (skipN enc_header_size S')) (l + mac_size)); [discriminate |].
    unfold cs_decrypt.
    destruct (dec (cs_key (adv c)) (cs_nonce (adv c)) None
                  (firstN (l + mac_size) (skipN enc_header_size S'))) as [q' |] eqn:Eb;
      [| discriminate].
    intros H; inversion H; subst q' c' rest; clear H.
    apply ideal_aead in Eh. apply ideal_aead in Eb.
    exists pl. split; [| reflexivity].
    rewrite <- Eh, <- Eb, firstN_skipN, firstN_skipN. reflexivity.
  Qed.

  Lemma no_forgery_tail : forall c0 m msgs f S' b,
      no_forgery c0 (m :: msgs) (f ++ S') (S (S b)) ->
      no_forgery (adv (adv c0)) msgs S' b.
  Proof.
    intros c0 m msgs f S' b H t pre post p Ht E.
    specialize (H (S (S t)) (f ++ pre) post p).
    cbn [chain slot_plain] in H. apply H; [lia |].
    rewrite E, <- app_assoc. reflexivity.
  Qed.

  Theorem read_authentic : forall j (c0 : cst) msgs S' qs c' rest,
      no_forgery c0 msgs S' (2 * j) ->
      rdn j c0 S' = Some (qs, c', rest) ->
      qs = firstn j msgs /\ (j <= length msgs)%nat /\
      S' = fst (ideal c0 qs) ++ rest /\ c' = snd (ideal c0 qs).
  Proof.
    induction j as [| j IH]; intros c0 msgs S' qs c' rest Hnf Hr.
    - cbn in Hr. inversion Hr; subst. cbn. repeat split; lia.
    - cbn [read_n] in Hr.
      destruct (rmsg c0 S') as [[[q |] c1] rest1] eqn:Em; [| discriminate].
      destruct (rdn j c1 rest1) as [[[ps c2] rest2] |] eqn:Er; [| discriminate].
      inversion Hr; subst qs c' rest; clear Hr.
      apply read_message_ok_inv in Em. destruct Em as (pl & ES & Ec1).
      (* slot 0: the header, slot 1: the body *)
      pose proof (Hnf 0%nat [] _ pl ltac:(lia) ES) as H0.
      pose proof (Hnf 1%nat (enc (cs_key c0) (cs_nonce c0) None pl) rest1 q ltac:(lia) ES) as H1.
      destruct msgs as [| m msgs]; [discriminate |].
      cbn [slot_plain] in H0, H1. inversion H0; subst pl. inversion H1; subst q. clear H0 H1.
      assert (Hf : frm c0 m = (enc (cs_key c0) (cs_nonce c0) None (be16 (len m)) ++
                               enc (cs_key (adv c0)) (cs_nonce (adv c0)) None m, c1)).
      { unfold frame, cs_encrypt. rewrite Ec1. reflexivity. }
      rewrite app_assoc in ES.
      assert (Hnf' : no_forgery c1 msgs rest1 (2 * j)).
      { rewrite Ec1. eapply no_forgery_tail. rewrite <- ES.
        replace (S (S (2 * j))) with (2 * S j)%nat by lia. exact Hnf. }
      specialize (IH c1 msgs rest1 ps c2 rest2 Hnf' Er).
      destruct IH as (Eq & Hle & ES2 & Ec2).
      cbn [firstn ideal_stream length]. rewrite Hf.
      destruct (ideal c1 ps) as [s c3] eqn:Ei. cbn [fst snd] in *.
      repeat split.
      + rewrite Eq. reflexivity.
      + lia.
      + rewrite ES, ES2, <- !app_assoc. reflexivity.
      + exact Ec2.
  Qed.

  (* the first affected read fails: if the stream carries the honest frames
     of the first i messages and then anything that does not start with the
     honest frame of message i, then i+1 reads cannot all succeed *)
  Theorem first_affected_read_fails : forall i (c0 : cst) msgs X,
      no_forgery c0 msgs (fst (ideal c0 (firstn i msgs)) ++ X) (2 * S i) ->
      (forall m rest, nth_error msgs i = Some m ->
                      X <> fst (frm (snd (ideal c0 (firstn i msgs))) m) ++ rest) ->
      rdn (S i) c0 (fst (ideal c0 (firstn i msgs)) ++ X) = None.
  Proof.
    intros i c0 msgs X Hnf Hx.
    destruct (rdn (S i) c0 (fst (ideal c0 (firstn i msgs)) ++ X))
      as [[[qs c'] rest] |] eqn:Er; [| reflexivity].
    exfalso.
    destruct (read_authentic _ _ _ _ _ _ _ Hnf Er) as (Eq & Hle & ES & Ec).
    destruct (nth_error msgs i) as [m |] eqn:En.
    2:{ apply nth_error_None in En. lia. }
    assert (Efs : firstn (S i) msgs = firstn i msgs ++ [m]).
    { clear - En. revert msgs En. induction i as [| i IH]; intros [| a msgs] En; try discriminate.
      - cbn in En. inversion En; reflexivity.
      - cbn [firstn app]. f_equal. apply IH. exact En. }
    rewrite Eq, Efs in ES. rewrite (ideal_app K W enc hkdf) in ES.
    destruct (ideal c0 (firstn i msgs)) as [s1 c1] eqn:E1. cbn [fst snd] in *.
    cbn [ideal_stream] in ES. destruct (frm c1 m) as [f c2] eqn:Ef. cbn [fst] in ES.
    rewrite app_nil_r, <- app_assoc in ES. apply app_inv_head in ES.
    apply (Hx m rest eq_refl). rewrite Ef. exact ES.
  Qed.
End Tamper.
