(* Lemmas and invariants for the Noise model (C11).  All statements are about
   the generic model of Model.v: the crypto functions are Section variables and
   every hypothesis on them is explicit. *)
From Coq Require Import List NArith ZArith Bool Lia Sorted.
From Coq Require Import ZifyBool ZifyN ZifyNat.
From LV Require Import Noise.Model Noise.Spec.
Import ListNotations.
Local Open Scope N_scope.

Ltac Zify.zify_post_hook ::= Z.div_mod_to_equations.

Lemma lex_lt_trans : forall a b c, lex_lt a b -> lex_lt b c -> lex_lt a c.
Proof. unfold lex_lt; intros a b c H1 H2; lia. Qed.

Lemma lex_lt_irrefl : forall a, ~ lex_lt a a.
Proof. unfold lex_lt; intros a H; lia. Qed.

Lemma len_app : forall A (a b : list A), len (a ++ b) = len a + len b.
Proof. intros; unfold len; rewrite app_length; lia. Qed.

Lemma len_nil : forall A, len (@nil A) = 0.
Proof. reflexivity. Qed.

Lemma firstN_app_exact : forall A (a b : list A), firstN (len a) (a ++ b) = a.
Proof.
  intros; unfold firstN, len. rewrite Nat2N.id.
  rewrite firstn_app, Nat.sub_diag, firstn_all. simpl. apply app_nil_r.
Qed.

Lemma skipN_app_exact : forall A (a b : list A), skipN (len a) (a ++ b) = b.
Proof.
  intros; unfold skipN, len. rewrite Nat2N.id.
  rewrite skipn_app, Nat.sub_diag, skipn_all. reflexivity.
Qed.

Lemma firstN_skipN : forall A n (l : list A), firstN n l ++ skipN n l = l.
Proof. intros; apply firstn_skipn. Qed.

Lemma len_skipN : forall A n (l : list A), len (skipN n l) = len l - n.
Proof. intros; unfold len, skipN. rewrite skipn_length. lia. Qed.

Lemma firstN_all : forall A n (l : list A), len l <= n -> firstN n l = l.
Proof. intros A n l H; unfold firstN, len in *. apply firstn_all2. lia. Qed.

Lemma skipN_all : forall A n (l : list A), len l <= n -> skipN n l = [].
Proof. intros A n l H; unfold skipN, len in *. apply skipn_all2. lia. Qed.

Lemma be16_len : forall n, len (be16 n) = 2.
Proof. reflexivity. Qed.

Lemma of_be16_be16 : forall n, n <= max_uint16 -> of_be16 (be16 n) = Some n.
Proof.
  intros n H. unfold be16, of_be16, max_uint16 in *. f_equal. lia.
Qed.

Section Proofs.
  Variables (K W : Type).
  Variable enc : K -> N -> option K -> list N -> list W.
  Variable dec : K -> N -> option K -> list W -> option (list N).
  Variable hkdf : K -> option K -> K * K.

  Notation cst := (cstate K).
  Notation adv := (advance K hkdf).
  Notation cenc := (cs_encrypt K W enc hkdf).
  Notation cdec := (cs_decrypt K W dec hkdf).
  Notation wmsg := (write_message K W enc hkdf).
  Notation fl := (flush K W).
  Notation frm := (frame K W enc hkdf).
  Notation ideal := (ideal_stream K W enc hkdf).
  Notation rmsg := (read_message K W dec hkdf).
  Notation rdn := (read_n K W dec hkdf).
  Notation sstep := (srun_step K W enc hkdf).
  Notation sall := (srun_all K W enc hkdf).
  Notation pos := (cs_pos K).

  (* ---------------- cipher state ---------------- *)
  Lemma advance_nonce_lt : forall c : cst,
      cs_nonce c < key_rotation_interval -> cs_nonce (adv c) < key_rotation_interval.
  Proof.
    intros c H. unfold advance, u64, key_rotation_interval in *.
    destruct (N.eqb_spec ((cs_nonce c + 1) mod 2 ^ 64) 1000) as [E | E].
    - unfold rotate_key. cbn [cs_salt cs_key]. destruct (hkdf _ _). cbn. lia.
    - cbn [cs_nonce]. rewrite N.mod_small in * by lia. lia.
  Qed.

  Lemma advance_pos_lt : forall c : cst,
      cs_nonce c < key_rotation_interval -> lex_lt (pos c) (pos (adv c)).
  Proof.
    intros c H. unfold advance, u64, key_rotation_interval, cs_pos, lex_lt in *.
    destruct (N.eqb_spec ((cs_nonce c + 1) mod 2 ^ 64) 1000) as [E | E].
    - unfold rotate_key. cbn [cs_salt cs_key cs_epoch]. destruct (hkdf _ _). cbn. lia.
    - cbn. rewrite N.mod_small by lia. lia.
  Qed.

  (* ---------------- nonce uniqueness ---------------- *)
  Definition used_inv (r : srun K W) : Prop :=
    cs_nonce (sn_cs (r_snd K W r)) < key_rotation_interval /\
    StronglySorted lex_lt (r_used K W r) /\
    Forall (fun p => lex_lt p (pos (sn_cs (r_snd K W r)))) (r_used K W r) /\
    Forall (fun p => snd p < key_rotation_interval) (r_used K W r).

  Lemma sorted_snoc : forall (l : list (N * N)) x,
      StronglySorted lex_lt l -> Forall (fun p => lex_lt p x) l ->
      StronglySorted lex_lt (l ++ [x]).
  Proof.
    induction l as [| a l IH]; intros x Hs Hf; cbn.
    - constructor; constructor.
    - inversion Hs; subst. inversion Hf; subst. constructor.
      + apply IH; assumption.
      + apply Forall_app; split; [assumption | constructor; [assumption | constructor]].
  Qed.

  Lemma write_message_cs : forall s p s',
      wmsg s p = Ok s' -> sn_cs s' = adv (adv (sn_cs s)).
  Proof.
    intros s p s'. unfold write_message.
    destruct (N.ltb max_uint16 (len p)); [discriminate |].
    destruct (sn_hdr s); [| discriminate]. destruct (sn_body s); [| discriminate].
    cbn. intros H; inversion H; reflexivity.
  Qed.

  Lemma flush_cs : forall s rh rb, sn_cs (fo_sender K W (fl s rh rb)) = sn_cs s.
  Proof.
    intros s rh rb. unfold flush.
    destruct (sn_hdr s) eqn:Eh.
    - destruct (sn_body s); reflexivity.
    - destruct (w_err rh (w :: l)); cbn; [reflexivity |].
      destruct (sn_body s); reflexivity.
  Qed.

  Lemma used_inv_step : forall r o, used_inv r -> used_inv (sstep r o).
  Proof.
    intros r o (Hn & Hs & Hf & Hb). destruct o as [p | rh rb]; cbn [srun_step].
    - destruct (wmsg (r_snd K W r) p) as [s' |] eqn:E; [| repeat split; assumption].
      pose proof (write_message_cs _ _ _ E) as Ec.
      set (c := sn_cs (r_snd K W r)) in *.
      pose proof (advance_nonce_lt c Hn) as Hn1.
      pose proof (advance_nonce_lt _ Hn1) as Hn2.
      pose proof (advance_pos_lt c Hn) as Hp1.
      pose proof (advance_pos_lt _ Hn1) as Hp2.
      unfold used_inv; cbn [r_snd r_used]. rewrite Ec.
      repeat split.
      + exact Hn2.
      + change (r_used K W r ++ [pos c; pos (adv c)])
          with (r_used K W r ++ [pos c] ++ [pos (adv c)]).
        rewrite app_assoc. apply sorted_snoc.
        * apply sorted_snoc; assumption.
        * apply Forall_app; split.
          -- eapply Forall_impl; [| exact Hf]. intros a Ha.
             eapply lex_lt_trans; [exact Ha | exact Hp1].
          -- constructor; [exact Hp1 | constructor].
      + apply Forall_app; split.
        * eapply Forall_impl; [| exact Hf]. intros a Ha.
          eapply lex_lt_trans; [exact Ha |]. eapply lex_lt_trans; [exact Hp1 | exact Hp2].
        * constructor; [eapply lex_lt_trans; [exact Hp1 | exact Hp2] |].
          constructor; [exact Hp2 | constructor].
      + apply Forall_app; split; [assumption |].
        constructor; [exact Hn |]. constructor; [exact Hn1 | constructor].
    - unfold used_inv; cbn [r_snd r_used]. rewrite flush_cs. repeat split; assumption.
  Qed.

  Lemma used_inv_all : forall ops r, used_inv r -> used_inv (fold_left sstep ops r).
  Proof.
    induction ops as [| o ops IH]; intros r H; cbn; [assumption |].
    apply IH, used_inv_step, H.
  Qed.

  Lemma sorted_nodup : forall l : list (N * N), StronglySorted lex_lt l -> NoDup l.
  Proof.
    induction l as [| a l IH]; intros H; [constructor |].
    inversion H; subst. constructor; [| apply IH; assumption].
    intros Hin. rewrite Forall_forall in H3. apply (lex_lt_irrefl a), H3, Hin.
  Qed.

  Theorem nonce_unique : forall (c : cst) ops,
      cs_nonce c < key_rotation_interval ->
      let r := sall c ops in
      StronglySorted lex_lt (r_used K W r) /\
      Forall (fun p => snd p < key_rotation_interval) (r_used K W r) /\
      NoDup (r_used K W r).
  Proof.
    intros c ops Hn r.
    assert (H : used_inv r).
    { apply used_inv_all. unfold used_inv, srun_init; cbn. repeat split; auto; constructor. }
    destruct H as (_ & Hs & _ & Hb). repeat split; auto. apply sorted_nodup, Hs.
  Qed.

  (* ---------------- sender: wire ++ pending = honest encoding ---------------- *)
  Lemma ideal_app : forall a b (c : cst),
      ideal c (a ++ b) =
      let '(s1, c1) := ideal c a in let '(s2, c2) := ideal c1 b in (s1 ++ s2, c2).
  Proof.
    induction a as [| p a IH]; intros b c; cbn [app ideal_stream].
    - destruct (ideal c b); reflexivity.
    - destruct (frm c p) as [f c']. rewrite IH.
      destruct (ideal c' a) as [s1 c1]. destruct (ideal c1 b) as [s2 c2].
      rewrite app_assoc. reflexivity.
  Qed.

  Lemma total_len_app : forall a b, total_len (a ++ b) = total_len a + total_len b.
  Proof.
    induction a as [| p a IH]; intros b; [reflexivity |].
    change (total_len ((p :: a) ++ b)) with (len p + total_len (a ++ b)).
    change (total_len (p :: a)) with (len p + total_len a). rewrite IH. lia.
  Qed.

  Lemma flush_count_spec : forall n L e,
      e = L - n -> n <= L -> flush_count n L e + (e - mac_size) = L - mac_size.
  Proof.
    intros n L e He Hn. unfold flush_count, mac_size.
    destruct (N.ltb_spec 16 L); destruct (N.leb_spec e 16); cbn [andb];
      try destruct (N.ltb_spec 16 e); lia.
  Qed.

  Lemma flush_spec : forall s rh rb,
      let fo := fl s rh rb in
      fo_written K W fo ++ sn_hdr (fo_sender K W fo) ++ sn_body (fo_sender K W fo)
      = sn_hdr s ++ sn_body s /\
      fo_n K W fo + (len (sn_body (fo_sender K W fo)) - mac_size)
      = len (sn_body s) - mac_size.
  Proof.
    intros s rh rb.
    assert (Hbody : forall (out : list W) (s1 : sender K W) calls,
               let fo := match sn_body s1 with
                         | [] => mkFO K W s1 out 0 false calls
                         | w :: l =>
                           let body := w :: l in
                           let n := w_take rb body in
                           let rest := skipN n body in
                           mkFO K W (mkSnd (sn_cs s1) (sn_hdr s1) rest) (out ++ firstN n body)
                                (flush_count n (n + len rest) (len rest)) (w_err rb body)
                                (calls + 1)
                         end in
               sn_hdr s1 = [] ->
               fo_written K W fo ++ sn_hdr (fo_sender K W fo) ++ sn_body (fo_sender K W fo)
               = out ++ sn_body s1 /\
               fo_n K W fo + (len (sn_body (fo_sender K W fo)) - mac_size)
               = len (sn_body s1) - mac_size).
    { intros out s1 calls fo Hh. subst fo. destruct (sn_body s1) as [| w l] eqn:Eb.
      - cbn [fo_written fo_sender fo_n]. rewrite Hh, Eb. cbn [app].
        split; [reflexivity | apply N.add_0_l].
      - cbn [fo_written fo_sender fo_n sn_hdr sn_body]. rewrite Hh. cbn [app].
        set (body := w :: l). set (n := w_take rb body).
        assert (Hn : n <= len body) by (unfold n, w_take; lia).
        split.
        + rewrite <- app_assoc, firstN_skipN. reflexivity.
        + rewrite len_skipN. replace (n + (len body - n)) with (len body) by lia.
          apply flush_count_spec; [reflexivity | exact Hn]. }
    unfold flush. destruct (sn_hdr s) as [| w l] eqn:Eh.
    - pose proof (Hbody [] s 0 Eh) as Hb0. rewrite Eh in Hb0. exact Hb0.
    - set (hdr := w :: l).
      destruct (w_err rh hdr) eqn:Ee.
      + cbn [fo_written fo_sender fo_n sn_hdr sn_body]. split; [| lia].
        rewrite app_assoc, firstN_skipN. reflexivity.
      + assert (Hfull : len hdr <= w_take rh hdr).
        { unfold w_err in Ee. unfold w_take. apply orb_false_iff in Ee. lia. }
        assert (Hk : len hdr <= fst rh) by (unfold w_take in Hfull; lia).
        assert (Ht : w_take rh hdr = len hdr) by (unfold w_take in *; lia).
        rewrite Ht.
        specialize (Hbody (firstN (len hdr) hdr) (mkSnd (sn_cs s) (skipN (len hdr) hdr) (sn_body s)) 1).
        cbn [sn_hdr sn_body sn_cs] in Hbody.
        rewrite (skipN_all _ (len hdr) hdr) in * by lia.
        rewrite (firstN_all _ (len hdr) hdr) in * by lia.
        specialize (Hbody eq_refl). exact Hbody.
  Qed.

  Hypothesis enc_len : forall k n ad p, len (enc k n ad p) = len p + mac_size.

  Definition snd_inv (c0 : cst) (r : srun K W) : Prop :=
    let s := r_snd K W r in
    exists ms lastl partial sms cm,
      r_accepted K W r = ms ++ lastl /\ (length lastl <= 1)%nat /\
      ideal c0 ms = (sms, cm) /\
      r_wire K W r = sms ++ partial /\
      ideal cm lastl = (partial ++ sn_hdr s ++ sn_body s, sn_cs s) /\
      r_counted K W r + (len (sn_body s) - mac_size) = total_len (r_accepted K W r) /\
      Forall (fun p => len p <= max_uint16) (r_accepted K W r).

  Lemma snd_inv_init : forall c0, snd_inv c0 (srun_init K W c0).
  Proof.
    intros c0. exists [], [], [], [], c0. cbn. repeat split; auto.
  Qed.

  Lemma snd_inv_step : forall c0 r o, snd_inv c0 r -> snd_inv c0 (sstep r o).
  Proof.
    intros c0 r o (ms & lastl & partial & sms & cm & Ha & Hl & Hi & Hw & Hp & Hc & Hf).
    destruct o as [p | rh rb]; cbn [srun_step].
    - destruct (wmsg (r_snd K W r) p) as [s' |] eqn:E;
        [| exists ms, lastl, partial, sms, cm; repeat split; assumption].
      unfold write_message in E.
      destruct (N.ltb_spec max_uint16 (len p)) as [Hlen | Hlen]; [discriminate |].
      destruct (sn_hdr (r_snd K W r)) eqn:Eh; [| discriminate].
      destruct (sn_body (r_snd K W r)) eqn:Eb; [| discriminate].
      cbn in E. inversion E; subst s'; clear E.
      cbn [app] in Hp. rewrite app_nil_r in Hp.
      exists (ms ++ lastl), [p], [], (sms ++ partial), (sn_cs (r_snd K W r)).
      cbn [r_accepted r_snd r_wire r_counted sn_hdr sn_body sn_cs].
      repeat split.
      + rewrite Ha. reflexivity.
      + cbn; lia.
      + rewrite ideal_app, Hi, Hp. reflexivity.
      + rewrite Hw, app_nil_r. reflexivity.
      + cbn. rewrite app_nil_r. reflexivity.
      + rewrite total_len_app. change (total_len [p]) with (len p + 0).
        try rewrite Eb in Hc. change (len (@nil W)) with 0 in Hc.
        rewrite enc_len. unfold mac_size in *. lia.
      + apply Forall_app; split; [assumption | constructor; [assumption | constructor]].
    - pose proof (flush_spec (r_snd K W r) rh rb) as (Hs1 & Hs2).
      exists ms, lastl, (partial ++ fo_written K W (fl (r_snd K W r) rh rb)), sms, cm.
      cbn [r_accepted r_snd r_wire r_counted].
      repeat split; try assumption.
      + rewrite Hw, app_assoc. reflexivity.
      + rewrite flush_cs. rewrite <- app_assoc, Hs1. exact Hp.
      + rewrite <- Hc, <- Hs2. lia.
  Qed.

  Lemma snd_inv_all : forall c0 ops r, snd_inv c0 r -> snd_inv c0 (fold_left sstep ops r).
  Proof.
    induction ops as [| o ops IH]; intros r H; cbn; [assumption |].
    apply IH, snd_inv_step, H.
  Qed.

  (* ---------------- receiver on the honest stream ---------------- *)
  Hypothesis dec_enc : forall k n ad p, dec k n ad (enc k n ad p) = Some p.

  Lemma read_frame : forall (c : cst) p tail,
      len p <= max_uint16 ->
      rmsg c (fst (frm c p) ++ tail) = (Ok p, snd (frm c p), tail).
  Proof.
    intros c p tail Hp. unfold frame, cs_encrypt. cbn [fst snd].
    set (h := enc (cs_key c) (cs_nonce c) None (be16 (len p))).
    set (c1 := adv c).
    set (b := enc (cs_key c1) (cs_nonce c1) None p).
    assert (Hh : len h = enc_header_size) by (unfold h; rewrite enc_len; reflexivity).
    assert (Hb : len b = len p + mac_size) by (unfold b; apply enc_len).
    unfold read_message, read_header.
    rewrite <- app_assoc.
    destruct (N.ltb_spec (len (h ++ b ++ tail)) enc_header_size) as [Hlt | _].
    { rewrite len_app in Hlt. lia. }
    rewrite <- Hh, firstN_app_exact, skipN_app_exact.
    unfold cs_decrypt. fold c1. unfold h at 1. rewrite dec_enc.
    rewrite of_be16_be16 by assumption.
    unfold read_body.
    destruct (N.ltb_spec (len (b ++ tail)) (len p + mac_size)) as [Hlt | _].
    { rewrite len_app in Hlt. lia. }
    rewrite <- Hb, firstN_app_exact, skipN_app_exact.
    unfold cs_decrypt. unfold b at 1. rewrite dec_enc. reflexivity.
  Qed.

  Lemma read_ideal : forall ms (c : cst) tail,
      Forall (fun p => len p <= max_uint16) ms ->
      rdn (length ms) c (fst (ideal c ms) ++ tail) = Some (ms, snd (ideal c ms), tail).
  Proof.
    induction ms as [| p ms IH]; intros c tail Hf; cbn [length read_n ideal_stream].
    - reflexivity.
    - inversion Hf; subst.
      pose proof (read_frame c p (fst (ideal (snd (frm c p)) ms) ++ tail) H1) as Hr.
      destruct (frm c p) as [f c'] eqn:Ef. cbn [fst snd] in *.
      destruct (ideal c' ms) as [s c''] eqn:Ei. cbn [fst snd] in *.
      rewrite <- app_assoc, Hr.
      specialize (IH c' tail H2). rewrite Ei in IH. cbn [fst snd] in IH. rewrite IH.
      reflexivity.
  Qed.

  (* reading a strict prefix of a frame never yields data *)
  Lemma read_partial : forall (c : cst) p part rest,
      len p <= max_uint16 ->
      fst (frm c p) = part ++ rest -> rest <> [] ->
      exists c', rmsg c part = (Err EEof, c', []).
  Proof.
    intros c p part rest Hp Hsplit Hne.
    unfold frame, cs_encrypt in Hsplit. cbn [fst] in Hsplit.
    set (h := enc (cs_key c) (cs_nonce c) None (be16 (len p))) in *.
    set (c1 := adv c) in *.
    set (b := enc (cs_key c1) (cs_nonce c1) None p) in *.
    assert (Hh : len h = enc_header_size) by (unfold h; rewrite enc_len; reflexivity).
    assert (Hb : len b = len p + mac_size) by (unfold b; apply enc_len).
    assert (Hr : 0 < len rest).
    { destruct rest; [contradiction |]. unfold len; cbn; lia. }
    assert (Hlen : len part + len rest = enc_header_size + len p + mac_size).
    { rewrite <- len_app, <- Hsplit, len_app. lia. }
    unfold read_message, read_header.
    destruct (N.ltb_spec (len part) enc_header_size) as [Hlt | Hge].
    { eexists; reflexivity. }
    (* the header is complete: part = h ++ part' *)
    assert (Hpart : part = h ++ skipN (len h) part).
    { rewrite <- (firstN_skipN _ (len h) part) at 1. f_equal.
      assert (E : firstN (len h) (part ++ rest) = firstN (len h) (h ++ b)) by (rewrite Hsplit; reflexivity).
      rewrite firstN_app_exact in E.
      transitivity (firstN (len h) (part ++ rest)); [| exact E].
      unfold firstN. rewrite firstn_app.
      replace (N.to_nat (len h) - length part)%nat with 0%nat by (unfold len in *; lia).
      cbn. rewrite app_nil_r. reflexivity. }
    set (part' := skipN (len h) part) in *.
    rewrite Hpart. rewrite <- Hh, firstN_app_exact, skipN_app_exact.
    unfold cs_decrypt. fold c1. unfold h at 1. rewrite dec_enc.
    rewrite of_be16_be16 by assumption.
    unfold read_body.
    assert (Hp' : len part' + len rest = len p + mac_size).
    { rewrite Hpart, len_app in Hlen. lia. }
    destruct (N.ltb_spec (len part') (len p + mac_size)) as [Hlt | Hge2].
    { eexists; reflexivity. }
    lia.
  Qed.

  Theorem stream_roundtrip : forall (c : cst) ops,
      let r := sall c ops in
      let s := r_snd K W r in
      (* nothing duplicated, nothing lost: wire ++ pending = honest encoding *)
      r_wire K W r ++ sn_hdr s ++ sn_body s = fst (ideal c (r_accepted K W r)) /\
      sn_cs s = snd (ideal c (r_accepted K W r)) /\
      (* Flush's counts add up to the plaintext handed to the writer *)
      r_counted K W r + (len (sn_body s) - mac_size) = total_len (r_accepted K W r) /\
      (* the peer reads back every completely flushed message, in order *)
      (sn_hdr s = [] -> sn_body s = [] ->
       rdn (length (r_accepted K W r)) c (r_wire K W r)
       = Some (r_accepted K W r, sn_cs s, [])) /\
      (* ... and with a message still (partly) buffered: all earlier ones,
         then an error, never data *)
      (sn_hdr s ++ sn_body s <> [] ->
       exists ms p part c1,
         r_accepted K W r = ms ++ [p] /\
         rdn (length ms) c (r_wire K W r) = Some (ms, c1, part) /\
         exists c2, rmsg c1 part = (Err EEof, c2, [])).
  Proof.
    intros c ops r s.
    assert (H : snd_inv c r) by (apply snd_inv_all, snd_inv_init).
    destruct H as (ms & lastl & partial & sms & cm & Ha & Hl & Hi & Hw & Hp & Hc & Hf).
    fold s in Hp, Hc.
    assert (Hid : ideal c (r_accepted K W r) = (sms ++ partial ++ sn_hdr s ++ sn_body s, sn_cs s)).
    { rewrite Ha, ideal_app, Hi, Hp. reflexivity. }
    rewrite Hid. cbn [fst snd].
    split; [rewrite Hw, <- app_assoc; reflexivity |].
    split; [reflexivity |]. split; [exact Hc |]. split.
    - intros Eh Eb. rewrite Eh, Eb in *. cbn [app] in *.
      pose proof (read_ideal (r_accepted K W r) c [] Hf) as Hr.
      rewrite Hid in Hr. cbn [fst snd] in Hr. rewrite !app_nil_r in Hr.
      rewrite Hw. exact Hr.
    - intros Hne.
      destruct lastl as [| p [| q l]].
      + cbn in Hp. inversion Hp as [[E1 E2]].
        destruct partial; [| discriminate]. cbn in E1. rewrite <- E1 in Hne. contradiction.
      + rewrite Ha in Hf. apply Forall_app in Hf. destruct Hf as (Hf1 & Hf2).
        inversion Hf2; subst.
        exists ms, p, partial, cm. split; [exact Ha |]. split.
        * pose proof (read_ideal ms c partial Hf1) as Hr. rewrite Hi in Hr. cbn [fst snd] in Hr.
          rewrite Hw. exact Hr.
        * cbn [ideal_stream] in Hp. destruct (frm cm p) as [f c'] eqn:Ef.
          inversion Hp as [[E1 E2]]. rewrite app_nil_r in E1.
          apply (read_partial cm p partial (sn_hdr s ++ sn_body s)); try assumption.
          rewrite Ef. exact E1.
      + cbn in Hl. lia.
  Qed.
End Proofs.
