(* C11 bridge (tie T1): the brontide framing constants REGENERATED from the lnd
   tree (Gen/GenConsts.v) equal the constants of the hand-written model
   Noise/Model.v that the C11 theorems are stated about.  A source edit of
   keyRotationInterval / macSize / lengthHeaderSize / encHeaderSize changes
   the generated side and breaks a lemma here. *)
From Coq Require Import ZArith NArith.
From LV Require Import Gen.GenConsts Noise.Model.
Local Open Scope Z_scope.

Lemma gen_key_rotation_interval_eq : brontide_keyRotationInterval = Z.of_N key_rotation_interval.
Proof. reflexivity. Qed.

Lemma gen_mac_size_eq : brontide_macSize = Z.of_N mac_size.
Proof. reflexivity. Qed.

Lemma gen_length_header_size_eq : brontide_lengthHeaderSize = Z.of_N length_header_size.
Proof. reflexivity. Qed.

Lemma gen_enc_header_size_eq : brontide_encHeaderSize = Z.of_N enc_header_size.
Proof. reflexivity. Qed.

(* the model's enc_header_size is the sum the Go constant is defined as *)
Lemma gen_enc_header_size_sum :
  brontide_encHeaderSize = Z.of_N (length_header_size + mac_size).
Proof. reflexivity. Qed.
