(* C11: brontide.Conn over the Machine model.
   - every Conn.Write / WriteMessage / Flush sequence is a sequence of Machine
     WriteMessage / Flush calls (simulation), so C11_stream_roundtrip carries
     over to the bytes the net.Conn takes;
   - the chunking loop of Conn.Write terminates, commits a prefix of its
     argument in records of at most 65535 bytes and all of it when it returns
     no error;
   - Conn.Read over the honest stream behaves like spec_reads on plaintext. *)
From Coq Require Import List NArith ZArith Bool Lia.
From Coq Require Import ZifyBool ZifyN ZifyNat.
From LV Require Import Noise.Model Noise.Spec Noise.Proofs.
Import ListNotations.
Local Open Scope N_scope.

Lemma firstn_add : forall A (a c : nat) (l : list A),
    firstn (a + c) l = firstn a l ++ firstn c (skipn a l).
Proof.
  induction a as [| a IH]; intros c l; [reflexivity |].
  destruct l as [| x l]; cbn [Nat.add firstn skipn app].
  - rewrite firstn_nil. reflexivity.
  - rewrite IH. reflexivity.
Qed.

Lemma firstN_add : forall A (a c : N) (l : list A),
    firstN (a + c) l = firstN a l ++ firstN c (skipN a l).
Proof. intros. unfold firstN, skipN. rewrite N2Nat.inj_add. apply firstn_add. Qed.

Lemma len_firstN : forall A n (l : list A), len (firstN n l) = N.min n (len l).
Proof. intros. unfold len, firstN. rewrite firstn_length. lia. Qed.

Lemma firstN_0 : forall A (l : list A), firstN 0 l = [].
Proof. reflexivity. Qed.

Lemma total_len_concat : forall ms, total_len ms = len (concat ms).
Proof.
  induction ms as [| m ms IH]; [reflexivity |].
  cbn [concat]. rewrite len_app, <- IH. reflexivity.
Qed.

Lemma returned_snoc : forall l x, returned (l ++ [x]) = returned l + fst x.
Proof.
  induction l as [| y l IH]; intros x; cbn [app returned fold_right].
  - lia.
  - fold (returned (l ++ [x])). fold (returned l). rewrite IH. lia.
Qed.

(* ---------------- pure facts about spec_reads ---------------- *)
Lemma spec_reads_prefix : forall ks buf msgs,
    exists rest, buf ++ concat msgs = delivered (spec_reads ks buf msgs) ++ rest.
Proof.
  induction ks as [| k ks IH]; intros buf msgs; cbn [spec_reads].
  - exists (buf ++ concat msgs). reflexivity.
  - destruct buf as [| b0 bl].
    + destruct msgs as [| m ms].
      * cbn [delivered]. destruct (IH [] []) as (rest & E). exists rest. exact E.
      * destruct m as [| a m'].
        -- destruct (IH [] ms) as (rest & E). exists rest.
           destruct (N.eqb k 0); cbn [delivered concat app] in *; exact E.
        -- destruct (IH (skipN k (a :: m')) ms) as (rest & E). exists rest.
           cbn [delivered concat app]. rewrite <- app_assoc, <- E.
           rewrite app_assoc, firstN_skipN. reflexivity.
    + destruct (IH (skipN k (b0 :: bl)) msgs) as (rest & E). exists rest.
      cbn [delivered]. rewrite <- app_assoc, <- E.
      rewrite app_assoc, firstN_skipN. reflexivity.
Qed.

Lemma spec_reads_complete : forall ks buf msgs,
    Forall (fun k => 0 < k) ks ->
    (length buf + length (concat msgs) + length msgs <= length ks)%nat ->
    delivered (spec_reads ks buf msgs) = buf ++ concat msgs.
Proof.
  induction ks as [| k ks IH]; intros buf msgs Hpos Hlen; cbn [spec_reads].
  - cbn [length] in Hlen. destruct buf; [| cbn in Hlen; lia].
    destruct msgs; [reflexivity | cbn in Hlen; lia].
  - inversion Hpos as [| k' ks' Hk Hpos']; subst. cbn [length] in Hlen.
    destruct buf as [| b0 bl].
    + destruct msgs as [| m ms].
      * cbn [delivered]. rewrite IH; [reflexivity | assumption | cbn; lia].
      * destruct m as [| a m'].
        -- destruct (N.eqb_spec k 0) as [E | _]; [lia |]. cbn [delivered concat app length] in *.
           rewrite IH; [reflexivity | assumption | cbn [length]; lia].
        -- cbn [delivered]. cbn [concat] in Hlen. rewrite app_length in Hlen.
           rewrite IH; [| assumption |].
           ++ cbn [concat app]. rewrite (app_assoc (firstN k (a :: m'))), firstN_skipN. reflexivity.
           ++ unfold skipN. rewrite skipn_length. cbn [length] in *. lia.
    + cbn [delivered]. rewrite IH; [| assumption |].
      * rewrite app_assoc, firstN_skipN. reflexivity.
      * unfold skipN. rewrite skipn_length. cbn [length] in *. lia.
Qed.

Section ConnProofs.
  Variables (K W : Type).
  Variable enc : K -> N -> option K -> list N -> list W.
  Variable dec : K -> N -> option K -> list W -> option (list N).
  Variable hkdf : K -> option K -> K * K.

  Notation cst := (cstate K).
  Notation wmsg := (write_message K W enc hkdf).
  Notation fl := (flush K W).
  Notation fll := (flush_l K W).
  Notation cwl := (conn_write_loop K W enc hkdf).
  Notation cwr := (conn_write K W enc hkdf).
  Notation ideal := (ideal_stream K W enc hkdf).
  Notation rmsg := (read_message K W dec hkdf).
  Notation rdn := (read_n K W dec hkdf).
  Notation sstep := (srun_step K W enc hkdf).
  Notation sall := (srun_all K W enc hkdf).
  Notation cstep := (crun_step K W enc hkdf).
  Notation call := (crun_all K W enc hkdf).
  Notation crd := (conn_read K W dec hkdf).
  Notation crds := (conn_reads K W dec hkdf).

  (* ---------------- Flush helpers ---------------- *)
  Lemma flush_l_flush : forall s rs, exists rh rb, fst (fll s rs) = fl s rh rb.
  Proof. intros s rs. unfold flush_l. cbn [fst]. eauto. Qed.

  Lemma flush_noerr_done : forall s rh rb,
      fo_err K W (fl s rh rb) = false ->
      sn_hdr (fo_sender K W (fl s rh rb)) = [] /\ sn_body (fo_sender K W (fl s rh rb)) = [].
  Proof.
    intros s rh rb. unfold flush.
    destruct (sn_hdr s) as [| hw hl] eqn:Eh.
    - destruct (sn_body s) as [| bw bl] eqn:Eb.
      + cbn. intros _. auto.
      + cbn [fo_err fo_sender sn_hdr sn_body]. intros He. split; [try reflexivity; try exact Eh |].
        apply skipN_all. unfold w_err in He. apply orb_false_iff in He. destruct He as (_ & He).
        unfold w_take. lia.
    - destruct (w_err rh (hw :: hl)) eqn:Ee.
      + cbn [fo_err]. discriminate.
      + assert (Hh : skipN (w_take rh (hw :: hl)) (hw :: hl) = []).
        { apply skipN_all. unfold w_err in Ee. apply orb_false_iff in Ee. destruct Ee as (_ & Ee).
          unfold w_take. lia. }
        cbn [sn_body sn_hdr sn_cs]. destruct (sn_body s) as [| bw bl] eqn:Eb.
        * cbn. intros _. auto.
        * cbn [fo_err fo_sender sn_hdr sn_body]. intros He. split; [exact Hh |].
          apply skipN_all. unfold w_err in He. apply orb_false_iff in He. destruct He as (_ & He).
          unfold w_take. lia.
  Qed.

  Lemma write_message_ok : forall s c s1,
      wmsg s c = Ok s1 ->
      len c <= max_uint16 /\ sn_hdr s = [] /\ sn_body s = [] /\
      sn_body s1 = enc (cs_key (advance K hkdf (sn_cs s))) (cs_nonce (advance K hkdf (sn_cs s))) None c.
  Proof.
    intros s c s1. unfold write_message.
    destruct (N.ltb_spec max_uint16 (len c)) as [Hl | Hl]; [discriminate |].
    destruct (sn_hdr s); [| discriminate]. destruct (sn_body s); [| discriminate].
    cbn. intros H; inversion H; subst s1. cbn. repeat split; auto.
  Qed.

  Hypothesis enc_len : forall k n ad p, len (enc k n ad p) = len p + mac_size.

  (* a Flush that returns no error right after WriteMessage(c) returns len c
     and leaves nothing buffered *)
  Lemma write_flush_count : forall s c s1 rh rb,
      wmsg s c = Ok s1 -> fo_err K W (fl s1 rh rb) = false ->
      fo_n K W (fl s1 rh rb) = len c /\
      sn_hdr (fo_sender K W (fl s1 rh rb)) = [] /\ sn_body (fo_sender K W (fl s1 rh rb)) = [].
  Proof.
    intros s c s1 rh rb Hw He.
    destruct (flush_noerr_done s1 rh rb He) as (Hh & Hb).
    destruct (write_message_ok _ _ _ Hw) as (_ & _ & _ & Ebody).
    pose proof (flush_spec K W enc dec s1 rh rb) as (_ & Hc). cbn zeta in Hc.
    rewrite Hb, Ebody, enc_len in Hc. change (len (@nil W)) with 0 in Hc.
    unfold mac_size in Hc. split; [lia | split; assumption].
  Qed.

  (* ---------------- simulation by Machine op sequences ---------------- *)
  Definition sim (cr : crun K W) (sr : srun K W) : Prop :=
    cn_snd K W cr = r_snd K W sr /\ cn_wire K W cr = r_wire K W sr /\
    cn_msgs K W cr = r_accepted K W sr /\ returned (cn_results K W cr) = r_counted K W sr.

  Lemma sstep_write_ok : forall (sr : srun K W) c s1,
      wmsg (r_snd K W sr) c = Ok s1 ->
      let sr1 := sstep sr (SWrite c) in
      r_snd K W sr1 = s1 /\ r_wire K W sr1 = r_wire K W sr /\
      r_accepted K W sr1 = r_accepted K W sr ++ [c] /\ r_counted K W sr1 = r_counted K W sr.
  Proof. intros sr c s1 H. cbn [srun_step]. rewrite H. cbn. repeat split. Qed.

  Lemma loop_sim : forall fuel s b written chunk rs out msgs calls (sr : srun K W),
      r_snd K W sr = s ->
      exists sops dw dm dn,
        let sr' := fold_left sstep sops sr in
        let o := cwl fuel s b written chunk rs out msgs calls in
        r_snd K W sr' = cw_snd K W o /\
        cw_written K W o = out ++ dw /\ cw_msgs K W o = msgs ++ dm /\ cw_n K W o = written + dn /\
        r_wire K W sr' = r_wire K W sr ++ dw /\ r_accepted K W sr' = r_accepted K W sr ++ dm /\
        r_counted K W sr' = r_counted K W sr + dn.
  Proof.
    induction fuel as [| f IH]; intros s b written chunk rs out msgs calls sr Hs;
      cbn [conn_write_loop].
    - exists [], [], [], 0. cbn. rewrite !app_nil_r, !N.add_0_r. repeat split; auto.
    - destruct (N.ltb written (len b)).
      2:{ exists [], [], [], 0. cbn. rewrite !app_nil_r, !N.add_0_r. repeat split; auto. }
      set (chunk' := if N.ltb (len b) (written + chunk) then len b - written else chunk).
      set (c := firstN chunk' (skipN written b)).
      destruct (wmsg s c) as [s1 | e] eqn:Ew.
      2:{ exists [], [], [], 0. cbn. rewrite !app_nil_r, !N.add_0_r. repeat split; auto. }
      destruct (fll s1 rs) as [fo rs'] eqn:Ef.
      destruct (flush_l_flush s1 rs) as (rh & rb & Efl). rewrite Ef in Efl. cbn [fst] in Efl.
      rewrite <- Hs in Ew.
      destruct (sstep_write_ok sr c s1 Ew) as (E1 & E2 & E3 & E4).
      set (sr1 := sstep sr (SWrite c)) in *.
      set (sr2 := sstep sr1 (SFlush rh rb)).
      assert (F1 : r_snd K W sr2 = fo_sender K W fo) by (unfold sr2; cbn [srun_step r_snd r_wire r_accepted r_counted]; rewrite E1, <- Efl; reflexivity).
      assert (F2 : r_wire K W sr2 = r_wire K W sr ++ fo_written K W fo)
        by (unfold sr2; cbn [srun_step r_snd r_wire r_accepted r_counted]; rewrite E1, E2, <- Efl; reflexivity).
      assert (F3 : r_accepted K W sr2 = r_accepted K W sr ++ [c]) by (unfold sr2; cbn [srun_step r_snd r_wire r_accepted r_counted]; rewrite E3; reflexivity).
      assert (F4 : r_counted K W sr2 = r_counted K W sr + fo_n K W fo)
        by (unfold sr2; cbn [srun_step r_snd r_wire r_accepted r_counted]; rewrite E1, E4, <- Efl; reflexivity).
      destruct (fo_err K W fo).
      + exists [SWrite c; SFlush rh rb], (fo_written K W fo), [c], (fo_n K W fo).
        cbn [fold_left]. fold sr1. fold sr2. cbn [cw_snd cw_written cw_msgs cw_n].
        repeat split; auto.
      + destruct (IH (fo_sender K W fo) b (written + fo_n K W fo) chunk' rs'
                     (out ++ fo_written K W fo) (msgs ++ [c]) (calls + fo_calls K W fo) sr2 F1)
          as (sops & dw & dm & dn & H).
        cbn zeta in H. destruct H as (H1 & H2 & H3 & H4 & H5 & H6 & H7).
        exists (SWrite c :: SFlush rh rb :: sops), (fo_written K W fo ++ dw), ([c] ++ dm),
          (fo_n K W fo + dn).
        cbn [fold_left]. fold sr1. fold sr2. cbn zeta.
        rewrite H1, H2, H3, H4, H5, H6, H7, F2, F3, F4, <- !app_assoc.
        repeat split; auto; lia.
  Qed.

  Lemma conn_write_sim : forall s b rs (sr : srun K W),
      r_snd K W sr = s ->
      exists sops,
        let sr' := fold_left sstep sops sr in
        let o := cwr s b rs in
        r_snd K W sr' = cw_snd K W o /\
        r_wire K W sr' = r_wire K W sr ++ cw_written K W o /\
        r_accepted K W sr' = r_accepted K W sr ++ cw_msgs K W o /\
        r_counted K W sr' = r_counted K W sr + cw_n K W o.
  Proof.
    intros s b rs sr Hs. unfold conn_write.
    destruct (N.leb (len b) max_uint16).
    - destruct (wmsg s b) as [s1 | e] eqn:Ew.
      + destruct (fll s1 rs) as [fo rs'] eqn:Ef.
        destruct (flush_l_flush s1 rs) as (rh & rb & Efl). rewrite Ef in Efl. cbn [fst] in Efl.
        rewrite <- Hs in Ew.
        destruct (sstep_write_ok sr b s1 Ew) as (E1 & E2 & E3 & E4).
        exists [SWrite b; SFlush rh rb]. cbn [fold_left]. cbn zeta.
        set (sr1 := sstep sr (SWrite b)) in *.
        cbn [srun_step r_snd r_wire r_accepted r_counted cw_snd cw_written cw_msgs cw_n].
        rewrite E1, E2, E3, E4, <- Efl. repeat split; reflexivity.
      + exists []. cbn. rewrite !app_nil_r, N.add_0_r. repeat split; auto.
    - destruct (loop_sim (S (length b)) s b 0 max_uint16 rs [] [] 0 sr Hs)
        as (sops & dw & dm & dn & H).
      cbn zeta in H. destruct H as (H1 & H2 & H3 & H4 & H5 & H6 & H7).
      exists sops. cbn zeta. rewrite H1, H2, H3, H4, H5, H6, H7. cbn [app].
      repeat split; auto.
  Qed.

  Lemma crun_step_sim : forall cr sr o,
      sim cr sr -> exists sops, sim (cstep cr o) (fold_left sstep sops sr).
  Proof.
    intros cr sr o (S1 & S2 & S3 & S4). destruct o as [b rs | b | rs]; cbn [crun_step].
    - destruct (conn_write_sim (cn_snd K W cr) b rs sr (eq_sym S1)) as (sops & H).
      cbn zeta in H. destruct H as (H1 & H2 & H3 & H4).
      exists sops. unfold sim. cbn [cn_snd cn_wire cn_msgs cn_results].
      rewrite returned_snoc. cbn [fst]. rewrite H1, H2, H3, H4, S2, S3, S4. repeat split.
    - destruct (wmsg (cn_snd K W cr) b) as [s1 | e] eqn:Ew.
      + rewrite S1 in Ew. destruct (sstep_write_ok sr b s1 Ew) as (E1 & E2 & E3 & E4).
        exists [SWrite b]. cbn [fold_left]. unfold sim. cbn [cn_snd cn_wire cn_msgs cn_results].
        rewrite returned_snoc. cbn [fst]. rewrite E1, E2, E3, E4, S2, S3, S4, N.add_0_r.
        repeat split.
      + exists []. cbn [fold_left]. unfold sim. cbn [cn_snd cn_wire cn_msgs cn_results].
        rewrite returned_snoc. cbn [fst]. rewrite N.add_0_r. repeat split; assumption.
    - destruct (flush_l_flush (cn_snd K W cr) rs) as (rh & rb & Efl).
      exists [SFlush rh rb]. cbn [fold_left srun_step]. unfold sim.
      cbn [cn_snd cn_wire cn_msgs cn_results r_snd r_wire r_accepted r_counted].
      rewrite returned_snoc. cbn [fst]. rewrite Efl, S1, S2, S3, S4. repeat split.
  Qed.

  Lemma crun_all_sim : forall ops cr sr,
      sim cr sr -> exists sops, sim (fold_left cstep ops cr) (fold_left sstep sops sr).
  Proof.
    induction ops as [| o ops IH]; intros cr sr H; cbn [fold_left].
    - exists []. exact H.
    - destruct (crun_step_sim cr sr o H) as (s1 & H1).
      destruct (IH _ _ H1) as (s2 & H2).
      exists (s1 ++ s2). rewrite fold_left_app. exact H2.
  Qed.

  Lemma sim_init : forall c, sim (crun_init K W c) (srun_init K W c).
  Proof. intros c. unfold sim. cbn. repeat split. Qed.

  (* ---------------- the chunking loop: termination and what it commits ---------------- *)
  Lemma loop_commit : forall fuel s b written chunk rs out msgs calls,
      concat msgs = firstN written b -> written <= len b -> 1 <= chunk -> chunk <= max_uint16 ->
      len b - written < N.of_nat fuel ->
      Forall (fun m => len m <= max_uint16) msgs ->
      let o := cwl fuel s b written chunk rs out msgs calls in
      cw_err K W o <> CFuel /\
      Forall (fun m => len m <= max_uint16) (cw_msgs K W o) /\
      exists tail, b = concat (cw_msgs K W o) ++ tail /\
                   (cw_err K W o = CNone ->
                    tail = [] /\ cw_n K W o = len b /\
                    (sn_hdr s = [] -> sn_body s = [] ->
                     sn_hdr (cw_snd K W o) = [] /\ sn_body (cw_snd K W o) = [])).
  Proof.
    induction fuel as [| f IH]; intros s b written chunk rs out msgs calls Hc Hw Hch Hmx Hf Hall;
      cbn [conn_write_loop].
    - lia.
    - destruct (N.ltb_spec written (len b)) as [Hlt | Hge].
      2:{ cbn [cw_err cw_msgs cw_n cw_snd]. split; [discriminate |]. split; [assumption |].
          exists []. assert (written = len b) by lia. subst written.
          rewrite app_nil_r, Hc. split; [symmetry; apply firstN_all; lia |].
          intros _. repeat split; auto. }
      set (chunk' := if N.ltb (len b) (written + chunk) then len b - written else chunk).
      assert (Hc1 : 1 <= chunk' /\ chunk' <= len b - written /\ chunk' <= max_uint16).
      { unfold chunk'. destruct (N.ltb_spec (len b) (written + chunk)); lia. }
      set (c := firstN chunk' (skipN written b)).
      assert (Hlc : len c = chunk').
      { unfold c. rewrite len_firstN, len_skipN. lia. }
      assert (Hcat : concat (msgs ++ [c]) = firstN (written + chunk') b).
      { rewrite concat_app. cbn [concat]. rewrite app_nil_r, Hc. unfold c.
        symmetry. apply firstN_add. }
      assert (Hall' : Forall (fun m => len m <= max_uint16) (msgs ++ [c])).
      { apply Forall_app. split; [assumption |]. constructor; [lia | constructor]. }
      destruct (wmsg s c) as [s1 | e] eqn:Ew.
      2:{ cbn [cw_err cw_msgs cw_n]. split; [discriminate |]. split; [assumption |].
          exists (skipN written b). rewrite Hc, firstN_skipN. split; [reflexivity |]. discriminate. }
      destruct (fll s1 rs) as [fo rs'] eqn:Ef.
      destruct (flush_l_flush s1 rs) as (rh & rb & Efl). rewrite Ef in Efl. cbn [fst] in Efl.
      destruct (fo_err K W fo) eqn:Ee.
      + cbn [cw_err cw_msgs cw_n]. split; [discriminate |]. split; [assumption |].
        exists (skipN (written + chunk') b). rewrite Hcat, firstN_skipN.
        split; [reflexivity |]. discriminate.
      + rewrite Efl in Ee. destruct (write_flush_count s c s1 rh rb Ew Ee) as (En & Eh & Eb).
        rewrite <- Efl in En, Eh, Eb. rewrite En, Hlc.
        specialize (IH (fo_sender K W fo) b (written + chunk') chunk' rs'
                       (out ++ fo_written K W fo) (msgs ++ [c]) (calls + fo_calls K W fo)
                       Hcat ltac:(lia) ltac:(lia) ltac:(lia) ltac:(lia) Hall').
        cbn zeta in IH. destruct IH as (I1 & I2 & tail & I3 & I4).
        split; [exact I1 |]. split; [exact I2 |]. exists tail. split; [exact I3 |].
        intros Hn. destruct (I4 Hn) as (J1 & J2 & J3). repeat split; auto; apply J3; assumption.
  Qed.

  (* Conn.Write(b): records of at most 65535 bytes, a prefix of b is committed;
     all of b when no error is returned or when a single-record write was cut
     short by the net.Conn; the fuel of the model's loop never runs out *)
  Theorem conn_write_commit : forall s b rs,
      let o := cwr s b rs in
      cw_err K W o <> CFuel /\
      Forall (fun m => len m <= max_uint16) (cw_msgs K W o) /\
      exists tail,
        b = concat (cw_msgs K W o) ++ tail /\
        (cw_err K W o = CNone \/ (cw_err K W o = CWriter /\ len b <= max_uint16) -> tail = []) /\
        (cw_err K W o = CNone ->
         cw_n K W o = len b /\
         (sn_hdr s = [] -> sn_body s = [] ->
          sn_hdr (cw_snd K W o) = [] /\ sn_body (cw_snd K W o) = [])).
  Proof.
    intros s b rs. unfold conn_write.
    destruct (N.leb_spec (len b) max_uint16) as [Hle | Hgt].
    - destruct (wmsg s b) as [s1 | e] eqn:Ew.
      + destruct (fll s1 rs) as [fo rs'] eqn:Ef.
        destruct (flush_l_flush s1 rs) as (rh & rb & Efl). rewrite Ef in Efl. cbn [fst] in Efl.
        cbn [cw_err cw_msgs cw_n cw_snd].
        split; [destruct (fo_err K W fo); discriminate |].
        split; [constructor; [assumption | constructor] |].
        exists []. cbn [concat]. rewrite !app_nil_r. split; [reflexivity |].
        split; [reflexivity |].
        destruct (fo_err K W fo) eqn:Ee; [discriminate |]. intros _.
        rewrite Efl in Ee. destruct (write_flush_count s b s1 rh rb Ew Ee) as (En & Eh & Eb).
        rewrite <- Efl in En, Eh, Eb. repeat split; auto.
      + cbn [cw_err cw_msgs cw_n]. split; [discriminate |]. split; [constructor |].
        exists b. split; [reflexivity |]. split.
        * intros [H | (H & _)]; discriminate.
        * discriminate.
    - pose proof (loop_commit (S (length b)) s b 0 max_uint16 rs [] [] 0 eq_refl) as H.
      specialize (H ltac:(lia) ltac:(unfold max_uint16; lia) ltac:(lia)
                    ltac:(unfold len; lia) ltac:(constructor)).
      cbn zeta in H. destruct H as (H1 & H2 & tail & H3 & H4).
      split; [exact H1 |]. split; [exact H2 |]. exists tail. split; [exact H3 |]. split.
      + intros [Hn | (_ & Hl)]; [apply H4; exact Hn | lia].
      + intros Hn. destruct (H4 Hn) as (_ & J2 & J3). split; assumption.
  Qed.

  (* ---------------- results align with the ops; what was committed ---------------- *)
  Lemma crun_committed : forall ops cr,
      exists newres,
        cn_results K W (fold_left cstep ops cr) = cn_results K W cr ++ newres /\
        length newres = length ops /\
        Forall (fun x => snd x <> CFuel) newres /\
        (Forall2 committed_all ops newres ->
         concat (cn_msgs K W (fold_left cstep ops cr)) =
         concat (cn_msgs K W cr) ++ concat (map payload ops)).
  Proof.
    induction ops as [| o ops IH]; intros cr; cbn [fold_left].
    - exists []. rewrite !app_nil_r. repeat split; auto.
    - destruct (IH (cstep cr o)) as (nr & R1 & R0 & R2 & R3).
      assert (Hstep : exists x dm,
                 cn_results K W (cstep cr o) = cn_results K W cr ++ [x] /\
                 cn_msgs K W (cstep cr o) = cn_msgs K W cr ++ dm /\
                 snd x <> CFuel /\
                 (committed_all o x -> concat dm = payload o)).
      { destruct o as [b rs | b | rs]; cbn [crun_step].
        - pose proof (conn_write_commit (cn_snd K W cr) b rs) as H. cbn zeta in H.
          destruct H as (H1 & _ & tail & H3 & H4 & _).
          eexists; eexists. cbn [cn_results cn_msgs]. split; [reflexivity |].
          split; [reflexivity |]. cbn [snd]. split; [exact H1 |].
          cbn [committed_all payload snd]. intros Hc. rewrite (H4 Hc), app_nil_r in H3.
          symmetry; exact H3.
        - destruct (wmsg (cn_snd K W cr) b) as [s1 | e].
          + exists (0, CNone), [b]. cbn. rewrite app_nil_r. repeat split; auto. discriminate.
          + exists (0, CMach e), []. cbn. rewrite app_nil_r. repeat split; auto; discriminate.
        - eexists; exists []. cbn [cn_results cn_msgs]. rewrite app_nil_r.
          split; [reflexivity |]. split; [reflexivity |]. cbn [snd].
          split; [destruct (fo_err _ _ _); discriminate | reflexivity]. }
      destruct Hstep as (x & dm & X1 & X2 & X3 & X4).
      exists (x :: nr). rewrite R1, X1, <- app_assoc. split; [reflexivity |].
      split; [cbn [length]; rewrite R0; reflexivity |].
      split; [constructor; assumption |].
      intros HF. inversion HF as [| o' x' ops' nr' Hox Hrest]; subst.
      rewrite (R3 Hrest), X2, concat_app, (X4 Hox). cbn [map concat].
      rewrite <- app_assoc. reflexivity.
  Qed.

  (* ---------------- reader ---------------- *)
  Lemma read_message_nil : forall c : cst, rmsg c [] = (Err EEof, c, []).
  Proof. reflexivity. Qed.

  Lemma conn_reads_spec : forall ks msgs (c c' : cst) stream buf,
      rdn (length msgs) c stream = Some (msgs, c', []) ->
      fst (crds ks (mkCR K W c buf stream)) = spec_reads ks buf msgs.
  Proof.
    induction ks as [| k ks IH]; intros msgs c c' stream buf Hr; [reflexivity |].
    cbn [conn_reads spec_reads]. unfold conn_read. cbn [cr_buf cr_cs cr_stream].
    destruct buf as [| b0 bl].
    - destruct msgs as [| m ms].
      + cbn in Hr. inversion Hr; subst stream c'. rewrite read_message_nil.
        specialize (IH [] c c [] [] eq_refl).
        destruct (crds ks (mkCR K W c [] [])) as [os r'']. cbn [fst] in *. rewrite IH. reflexivity.
      + cbn [length read_n] in Hr.
        destruct (rmsg c stream) as [[[q | e] c1] rest]; [| discriminate].
        destruct (rdn (length ms) c1 rest) as [[[ps c2] rest2] |] eqn:Er; [| discriminate].
        inversion Hr; subst q ps c2 rest2.
        destruct m as [| a m'].
        * cbn [buf_read].
          specialize (IH ms c1 c' rest [] Er).
          destruct (N.eqb k 0);
            destruct (crds ks (mkCR K W c1 [] rest)) as [os r'']; cbn [fst] in *; rewrite IH; reflexivity.
        * cbn [buf_read].
          specialize (IH ms c1 c' rest (skipN k (a :: m')) Er).
          destruct (crds ks (mkCR K W c1 (skipN k (a :: m')) rest)) as [os r'']. cbn [fst] in *.
          rewrite IH. reflexivity.
    - cbn [buf_read].
      specialize (IH msgs c c' stream (skipN k (b0 :: bl)) Hr).
      destruct (crds ks (mkCR K W c (skipN k (b0 :: bl)) stream)) as [os r'']. cbn [fst] in *.
      rewrite IH. reflexivity.
  Qed.

  Hypothesis dec_enc : forall k n ad p, dec k n ad (enc k n ad p) = Some p.

  Theorem conn_stream_roundtrip : forall (c : cst) ops,
      let r := call c ops in
      let s := cn_snd K W r in
      (* bytes taken by the net.Conn ++ bytes still buffered = honest encoding
         of the records handed to WriteMessage; nothing lost or duplicated *)
      cn_wire K W r ++ sn_hdr s ++ sn_body s = fst (ideal c (cn_msgs K W r)) /\
      sn_cs s = snd (ideal c (cn_msgs K W r)) /\
      (* the counts returned by Write / Flush add up to the plaintext sent *)
      returned (cn_results K W r) + (len (sn_body s) - mac_size) = len (concat (cn_msgs K W r)) /\
      (* one result per call; the chunking loop always terminates *)
      length (cn_results K W r) = length ops /\
      Forall (fun x => snd x <> CFuel) (cn_results K W r) /\
      (* every call handed over all of its bytes => the records are exactly
         the concatenation of the byte strings written, in order *)
      (Forall2 committed_all ops (cn_results K W r) ->
       concat (cn_msgs K W r) = concat (map payload ops)) /\
      (* nothing pending: the peer's Conn.Read calls, with ANY buffer sizes,
         return the plaintext in order, never crossing a record boundary ... *)
      (sn_hdr s = [] -> sn_body s = [] ->
       forall ks,
         let outs := fst (crds ks (mkCR K W c [] (cn_wire K W r))) in
         outs = spec_reads ks [] (cn_msgs K W r) /\
         (exists rest, concat (cn_msgs K W r) = delivered outs ++ rest) /\
         (Forall (fun k => 0 < k) ks ->
          (length (concat (cn_msgs K W r)) + length (cn_msgs K W r) <= length ks)%nat ->
          delivered outs = concat (cn_msgs K W r))).
  Proof.
    intros c ops r s.
    destruct (crun_all_sim ops _ _ (sim_init c)) as (sops & S1 & S2 & S3 & S4).
    fold (call c ops) in S1, S2, S3, S4. fold r in S1, S2, S3, S4. fold s in S1.
    pose proof (stream_roundtrip K W enc dec hkdf enc_len dec_enc c sops) as H.
    cbn zeta in H. fold (sall c sops) in S1, S2, S3, S4.
    rewrite <- S1, <- S2, <- S3, <- S4 in H.
    destruct H as (H1 & H2 & H3 & H4 & _).
    destruct (crun_committed ops (crun_init K W c)) as (nr & R1 & Hlen & R2 & R3).
    fold (call c ops) in R1, R3. fold r in R1, R3. cbn [crun_init cn_results cn_msgs app concat] in R1, R3.
    split; [exact H1 |]. split; [exact H2 |].
    split; [rewrite <- total_len_concat; exact H3 |].
    rewrite R1.
    split; [exact Hlen |]. split; [exact R2 |]. split; [exact R3 |].
    intros Eh Eb ks. cbn zeta.
    specialize (H4 Eh Eb).
    pose proof (conn_reads_spec ks (cn_msgs K W r) c (sn_cs s) (cn_wire K W r) [] H4) as Hs.
    rewrite Hs. split; [reflexivity |]. split.
    - destruct (spec_reads_prefix ks [] (cn_msgs K W r)) as (rest & E). exists rest. exact E.
    - intros Hpos Hl. apply (spec_reads_complete ks [] (cn_msgs K W r) Hpos). cbn [length]. lia.
  Qed.
End ConnProofs.
